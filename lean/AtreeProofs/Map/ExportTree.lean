import AtreeProofs.Map.Export
import AtreeProofs.Map.Limit
/-
  C12: the first-level elements of a WHOLE map (`elems0`: all leaves, left to right) and what one
  `Set` / `Remove` does to them.  Splitting, merging, re-balancing, promoting and splitting the root
  only MOVE elements between slabs (`elems0` is unchanged: pure list facts, no invariant); the leaf
  operation changes exactly one element according to `SetKindRel` / `RemoveKindRel`.
-/
namespace Atree
open Gen

variable {r : Nat}

/-- all first-level elements of a subtree, in order -/
def MTree.elems0 : (d : Nat) → MTree r d → List (MElemF (MElems r))
  | 0, (s : MDataSlab r) => s.elems.elems
  | d + 1, (m : MMetaSlab (MTree r d)) => m.children.flatMap (MTree.elems0 d)

/-- one digest per element in every leaf (part of `MapInv`) -/
def MTree.LenOk : (d : Nat) → MTree r d → Prop
  | 0, (s : MDataSlab r) => s.elems.hkeys.length = s.elems.elems.length
  | d + 1, (m : MMetaSlab (MTree r d)) => ∀ c ∈ m.children, MTree.LenOk d c

namespace MTree

theorem elems0_zero (s : MDataSlab r) : elems0 0 s = s.elems.elems := rfl
theorem elems0_succ {d : Nat} (m : MMetaSlab (MTree r d)) : elems0 (d + 1) m = m.children.flatMap (elems0 d) := rfl

theorem elems0_setId : ∀ (d : Nat) (t : MTree r d) (id : SlabID), elems0 d (setId d t id) = elems0 d t
  | 0, _, _ => rfl
  | _ + 1, _, _ => rfl

theorem elems0_setRoot : ∀ (d : Nat) (t : MTree r d) (b : Bool), elems0 d (setRoot d t b) = elems0 d t
  | 0, _, _ => rfl
  | _ + 1, _, _ => rfl

theorem split_elems0 : ∀ (d : Nat) (t l rr : MTree r d) (c c' : Ctx), split d t c = .ok (l, rr, c') →
    elems0 d l ++ elems0 d rr = elems0 d t
  | 0, (s : MDataSlab r), l, rr, c, c', h => by
    have h' : MDataSlab.split s c = .ok (l, rr, c') := h
    simp only [MDataSlab.split] at h'
    split at h'
    · cases h'
    · have h2 := Except.ok.inj h'
      have hl : l = _ := (Prod.mk.inj h2).1.symm
      have hr : rr = _ := (Prod.mk.inj (Prod.mk.inj h2).2).1.symm
      rw [hl, hr]
      show (List.take _ s.elems.elems) ++ (List.drop _ s.elems.elems) = s.elems.elems
      exact List.take_append_drop _ _
  | d + 1, (m : MMetaSlab (MTree r d)), l, rr, c, c', h => by
    have h' : MMetaSlab.split m c = .ok (l, rr, c') := h
    simp only [MMetaSlab.split] at h'
    split at h'
    · cases h'
    · have h2 := Except.ok.inj h'
      have hl : l = _ := (Prod.mk.inj h2).1.symm
      have hr : rr = _ := (Prod.mk.inj (Prod.mk.inj h2).2).1.symm
      rw [hl, hr]
      show (List.take _ m.children).flatMap (elems0 d) ++ (List.drop _ m.children).flatMap (elems0 d) =
        m.children.flatMap (elems0 d)
      rw [← List.flatMap_append, List.take_append_drop]

theorem merge_elems0 : ∀ (d : Nat) (l rr : MTree r d), elems0 d (merge d l rr) = elems0 d l ++ elems0 d rr
  | 0, _, _ => rfl
  | d + 1, (l : MMetaSlab (MTree r d)), (rr : MMetaSlab (MTree r d)) => by
    show (l.children ++ rr.children).flatMap (elems0 d) = l.children.flatMap (elems0 d) ++ rr.children.flatMap (elems0 d)
    exact List.flatMap_append

theorem lend_elems0 (T : Nat) : ∀ (d : Nat) (l rr l' r' : MTree r d), lendToRight T d l rr = .ok (l', r') →
    elems0 d l' ++ elems0 d r' = elems0 d l ++ elems0 d rr
  | 0, (l : MDataSlab r), (rr : MDataSlab r), l', r', h => by
    have h' : MDataSlab.lendToRight T l rr = .ok (l', r') := h
    simp only [MDataSlab.lendToRight, bind, Except.bind, pure, Except.pure] at h'
    cases hh : HkeyElems.lendToRight (MDataSlab.eops r) T l.elems rr.elems with
    | error e => rw [hh] at h'; cases h'
    | ok x =>
      rw [hh] at h'
      have h2 := Except.ok.inj h'
      have hl : l' = _ := (Prod.mk.inj h2).1.symm
      have hr : r' = _ := (Prod.mk.inj h2).2.symm
      rw [hl, hr]
      simp only [HkeyElems.lendToRight] at hh
      split at hh
      · cases hh
      · have hx := (Except.ok.inj hh).symm
        show x.1.elems ++ x.2.elems = l.elems.elems ++ rr.elems.elems
        rw [hx]
        show List.take _ l.elems.elems ++ (List.drop _ l.elems.elems ++ rr.elems.elems) = _
        rw [← List.append_assoc, List.take_append_drop]
  | d + 1, (l : MMetaSlab (MTree r d)), (rr : MMetaSlab (MTree r d)), l', r', h => by
    have h' : (Except.ok (MMetaSlab.lendToRight l rr) : Except MErr _) = .ok (l', r') := h
    have h2 := Except.ok.inj h'
    have hl : l' = _ := (Prod.mk.inj h2).1.symm
    have hr : r' = _ := (Prod.mk.inj h2).2.symm
    rw [hl, hr]
    show (List.take _ l.children).flatMap (elems0 d) ++ (List.drop _ l.children ++ rr.children).flatMap (elems0 d) =
      l.children.flatMap (elems0 d) ++ rr.children.flatMap (elems0 d)
    rw [List.flatMap_append, ← List.append_assoc, ← List.flatMap_append, List.take_append_drop]

theorem borrow_elems0 (T : Nat) : ∀ (d : Nat) (l rr l' r' : MTree r d), borrowFromRight T d l rr = .ok (l', r') →
    elems0 d l' ++ elems0 d r' = elems0 d l ++ elems0 d rr
  | 0, (l : MDataSlab r), (rr : MDataSlab r), l', r', h => by
    have h' : MDataSlab.borrowFromRight T l rr = .ok (l', r') := h
    simp only [MDataSlab.borrowFromRight, bind, Except.bind, pure, Except.pure] at h'
    cases hh : HkeyElems.borrowFromRight (MDataSlab.eops r) T l.elems rr.elems with
    | error e => rw [hh] at h'; cases h'
    | ok x =>
      rw [hh] at h'
      have h2 := Except.ok.inj h'
      have hl : l' = _ := (Prod.mk.inj h2).1.symm
      have hr : r' = _ := (Prod.mk.inj h2).2.symm
      rw [hl, hr]
      simp only [HkeyElems.borrowFromRight] at hh
      split at hh
      · cases hh
      · have hx := (Except.ok.inj hh).symm
        show x.1.elems ++ x.2.elems = l.elems.elems ++ rr.elems.elems
        rw [hx]
        show (l.elems.elems ++ List.take _ rr.elems.elems) ++ List.drop _ rr.elems.elems = _
        rw [List.append_assoc, List.take_append_drop]
  | d + 1, (l : MMetaSlab (MTree r d)), (rr : MMetaSlab (MTree r d)), l', r', h => by
    have h' : (Except.ok (MMetaSlab.borrowFromRight l rr) : Except MErr _) = .ok (l', r') := h
    have h2 := Except.ok.inj h'
    have hl : l' = _ := (Prod.mk.inj h2).1.symm
    have hr : r' = _ := (Prod.mk.inj h2).2.symm
    rw [hl, hr]
    show (l.children ++ List.take _ rr.children).flatMap (elems0 d) ++ (List.drop _ rr.children).flatMap (elems0 d) =
      l.children.flatMap (elems0 d) ++ rr.children.flatMap (elems0 d)
    rw [List.flatMap_append, List.append_assoc, ← List.flatMap_append, List.take_append_drop]

end MTree

/-! ### two neighbouring children -/

section lists
variable {β γ : Type}

theorem list_two_split {l : List β} {i : Nat} {a b : β} (ha : l[i]? = some a) (hb : l[i + 1]? = some b) :
    l = l.take i ++ a :: b :: l.drop (i + 2) := by
  have h1 := list_split_at ha
  have hb' : (l.drop (i + 1))[0]? = some b := by rw [List.getElem?_drop]; simpa using hb
  have h2 := list_split_at hb'
  simp only [List.take_zero, List.nil_append, List.drop_drop] at h2
  rw [h2] at h1
  exact h1

theorem flatMap_two {l : List β} {i : Nat} {a b : β} (f : β → List γ) (ha : l[i]? = some a)
    (hb : l[i + 1]? = some b) :
    l.flatMap f = (l.take i).flatMap f ++ (f a ++ f b) ++ (l.drop (i + 2)).flatMap f := by
  conv => lhs; rw [list_two_split ha hb]
  simp [List.flatMap_append]

theorem set_at_len (P : List β) (x y : β) (Q : List β) : (P ++ x :: Q).set P.length y = P ++ y :: Q := by
  induction P with
  | nil => rfl
  | cons p P ih => simp [ih]

theorem set_at_len_succ (P : List β) (x z y : β) (Q : List β) :
    (P ++ x :: z :: Q).set (P.length + 1) y = P ++ x :: y :: Q := by
  induction P with
  | nil => rfl
  | cons p P ih => simp [ih]

theorem eraseIdx_at_len_succ (P : List β) (x z : β) (Q : List β) :
    (P ++ x :: z :: Q).eraseIdx (P.length + 1) = P ++ x :: Q := by
  induction P with
  | nil => rfl
  | cons p P ih => simp [ih]

theorem insertIdx_at_len_succ (P : List β) (x y : β) (Q : List β) :
    (P ++ x :: Q).insertIdx (P.length + 1) y = P ++ x :: y :: Q := by
  induction P with
  | nil => rfl
  | cons p P ih => simp [ih]

theorem length_take_of_get {l : List β} {i : Nat} {a : β} (ha : l[i]? = some a) : (l.take i).length = i := by
  rw [List.length_take]; have := (List.getElem?_eq_some_iff.mp ha).1; omega

theorem flatMap_set_set {l : List β} {i : Nat} {a b : β} (a' b' : β) (f : β → List γ) (ha : l[i]? = some a)
    (hb : l[i + 1]? = some b) :
    ((l.set i a').set (i + 1) b').flatMap f = (l.take i).flatMap f ++ (f a' ++ f b') ++ (l.drop (i + 2)).flatMap f := by
  have hl := list_two_split ha hb
  have hlen := length_take_of_get ha
  have h1 : (l.set i a').set (i + 1) b' = l.take i ++ a' :: b' :: l.drop (i + 2) := by
    conv => lhs; rw [hl]
    have e1 := set_at_len (l.take i) a a' (b :: l.drop (i + 2))
    rw [hlen] at e1
    rw [e1]
    have e2 := set_at_len_succ (l.take i) a' b b' (l.drop (i + 2))
    rw [hlen] at e2
    exact e2
  rw [h1]
  simp [List.flatMap_append]

theorem flatMap_set_erase {l : List β} {i : Nat} {a b : β} (a' : β) (f : β → List γ) (ha : l[i]? = some a)
    (hb : l[i + 1]? = some b) :
    ((l.set i a').eraseIdx (i + 1)).flatMap f = (l.take i).flatMap f ++ f a' ++ (l.drop (i + 2)).flatMap f := by
  have hl := list_two_split ha hb
  have hlen := length_take_of_get ha
  have h1 : (l.set i a').eraseIdx (i + 1) = l.take i ++ a' :: l.drop (i + 2) := by
    conv => lhs; rw [hl]
    have e1 := set_at_len (l.take i) a a' (b :: l.drop (i + 2))
    rw [hlen] at e1
    rw [e1]
    have e2 := eraseIdx_at_len_succ (l.take i) a' b (l.drop (i + 2))
    rw [hlen] at e2
    exact e2
  rw [h1]
  simp [List.flatMap_append]

theorem flatMap_set_insert {l : List β} {i : Nat} {a : β} (a' b' : β) (f : β → List γ) (ha : l[i]? = some a) :
    ((l.set i a').insertIdx (i + 1) b').flatMap f =
      (l.take i).flatMap f ++ (f a' ++ f b') ++ (l.drop (i + 1)).flatMap f := by
  have hl := list_split_at ha
  have hlen := length_take_of_get ha
  have h1 : (l.set i a').insertIdx (i + 1) b' = l.take i ++ a' :: b' :: l.drop (i + 1) := by
    conv => lhs; rw [hl]
    have e1 := set_at_len (l.take i) a a' (l.drop (i + 1))
    rw [hlen] at e1
    rw [e1]
    have e2 := insertIdx_at_len_succ (l.take i) a' b' (l.drop (i + 1))
    rw [hlen] at e2
    exact e2
  rw [h1]
  simp [List.flatMap_append]

end lists

namespace MMetaSlab
variable {d : Nat}
open MTree

/-- the first-level elements after `rebalanceChildren` / `mergeChildren`: the two neighbours' elements
    are redistributed, everything else is where it was -/
theorem rebalance_elems0 (T : Nat) (m m' : MMetaSlab (MTree r d)) (left right : MTree r d) (li : Nat)
    (flag : Bool) (c c' : Ctx) (hl : m.children[li]? = some left) (hr : m.children[li + 1]? = some right)
    (h : rebalanceChildren T m left right li (li + 1) flag c = .ok (m', c')) :
    elems0 (d + 1) m' = elems0 (d + 1) m := by
  have fin : ∀ l' r', elems0 d l' ++ elems0 d r' = elems0 d left ++ elems0 d right →
      ((m.children.set li l').set (li + 1) r').flatMap (elems0 d) = m.children.flatMap (elems0 d) := by
    intro l' r' hsum
    rw [flatMap_set_set l' r' (elems0 d) hl hr, hsum, ← flatMap_two (elems0 d) hl hr]
  cases flag
  · simp only [rebalanceChildren, bind, Except.bind, pure, Except.pure, Bool.false_eq_true, if_false] at h
    cases hx : MTree.lendToRight T d left right with
    | error e => rw [hx] at h; cases h
    | ok v =>
      rw [hx] at h
      have h2 := (Prod.mk.inj (Except.ok.inj h)).1
      rw [← h2]
      exact fin v.1 v.2 (lend_elems0 T d left right v.1 v.2 hx)
  · simp only [rebalanceChildren, bind, Except.bind, pure, Except.pure, if_true] at h
    cases hx : MTree.borrowFromRight T d left right with
    | error e => rw [hx] at h; cases h
    | ok v =>
      rw [hx] at h
      have h2 := (Prod.mk.inj (Except.ok.inj h)).1
      rw [← h2]
      exact fin v.1 v.2 (borrow_elems0 T d left right v.1 v.2 hx)

theorem mergeChildren_elems0 (m : MMetaSlab (MTree r d)) (left right : MTree r d) (li : Nat) (c : Ctx)
    (hl : m.children[li]? = some left) (hr : m.children[li + 1]? = some right) :
    elems0 (d + 1) (mergeChildren m left right li (li + 1) c).1 = elems0 (d + 1) m := by
  simp only [mergeChildren, elems0_succ]
  rw [flatMap_set_erase (MTree.merge d left right) (elems0 d) hl hr, merge_elems0,
    flatMap_two (elems0 d) hl hr]

/-- `MergeOrRebalanceChildSlab` only moves elements -/
theorem mergeOrRebalance_elems0 (T : Nat) (m m' : MMetaSlab (MTree r d)) (child : MTree r d) (k u : Nat)
    (c c' : Ctx) (hk : m.children[k]? = some child)
    (h : mergeOrRebalanceChildSlab T m child k u c = .ok (m', c')) : elems0 (d + 1) m' = elems0 (d + 1) m := by
  simp only [mergeOrRebalanceChildSlab] at h
  -- the siblings the code reads
  have hleft : ∀ l, (if k > 0 then m.children[k - 1]? else none) = some l →
      k = (k - 1) + 1 ∧ m.children[k - 1]? = some l := by
    intro l hl
    by_cases hk0 : k > 0
    · rw [if_pos hk0] at hl; exact ⟨by omega, hl⟩
    · rw [if_neg hk0] at hl; cases hl
  have hright : ∀ x, (if k + 1 < m.childHdrs.length then m.children[k + 1]? else none) = some x →
      m.children[k + 1]? = some x := by
    intro x hx
    by_cases hk1 : k + 1 < m.childHdrs.length
    · rw [if_pos hk1] at hx; exact hx
    · rw [if_neg hk1] at hx; cases hx
  -- the two uses of the neighbours
  have viaRight : ∀ x flag, m.children[k + 1]? = some x →
      rebalanceChildren T m child x k (k + 1) flag c = .ok (m', c') → elems0 (d + 1) m' = elems0 (d + 1) m :=
    fun x flag hx hh => rebalance_elems0 T m m' child x k flag c c' hk hx hh
  have viaLeft : ∀ l flag, k = (k - 1) + 1 → m.children[k - 1]? = some l →
      rebalanceChildren T m l child (k - 1) k flag c = .ok (m', c') → elems0 (d + 1) m' = elems0 (d + 1) m := by
    intro l flag hkk hl hh
    have hk' : m.children[k - 1 + 1]? = some child := by rw [← hkk]; exact hk
    rw [hkk] at hh
    simp only [Nat.add_sub_cancel] at hh
    exact rebalance_elems0 T m m' l child (k - 1) flag c c' hl hk' hh
  have mRight : ∀ x, m.children[k + 1]? = some x →
      (Except.ok (mergeChildren m child x k (k + 1) c) : Except MErr _) = .ok (m', c') →
      elems0 (d + 1) m' = elems0 (d + 1) m := by
    intro x hx hh
    simp only [Except.ok.injEq] at hh
    have := mergeChildren_elems0 m child x k c hk hx
    rw [hh] at this; exact this
  have mLeft : ∀ l, k = (k - 1) + 1 → m.children[k - 1]? = some l →
      (Except.ok (mergeChildren m l child (k - 1) k c) : Except MErr _) = .ok (m', c') →
      elems0 (d + 1) m' = elems0 (d + 1) m := by
    intro l hkk hl hh
    have hk' : m.children[k - 1 + 1]? = some child := by rw [← hkk]; exact hk
    rw [hkk] at hh
    simp only [Nat.add_sub_cancel, Except.ok.injEq] at hh
    have := mergeChildren_elems0 m l child (k - 1) c hl hk'
    rw [hh] at this; exact this
  cases hls : (if k > 0 then m.children[k - 1]? else none) with
  | none =>
    cases hrs : (if k + 1 < m.childHdrs.length then m.children[k + 1]? else none) with
    | none =>
      rw [hls, hrs] at h
      simp only at h
      split at h <;> cases h
    | some x =>
      rw [hls, hrs] at h
      simp only at h
      split at h
      · exact viaRight x true (hright x hrs) h
      · exact mRight x (hright x hrs) h
  | some l =>
    obtain ⟨hkk, hl⟩ := hleft l hls
    cases hrs : (if k + 1 < m.childHdrs.length then m.children[k + 1]? else none) with
    | none =>
      rw [hls, hrs] at h
      simp only at h
      split at h
      · exact viaLeft l false hkk hl h
      · exact mLeft l hkk hl h
    | some x =>
      rw [hls, hrs] at h
      simp only at h
      split at h
      · split at h
        · exact viaRight x true (hright x hrs) h
        · split at h
          · exact viaLeft l false hkk hl h
          · split at h
            · exact viaLeft l false hkk hl h
            · exact viaRight x true (hright x hrs) h
      · split at h
        · exact mLeft l hkk hl h
        · exact mRight x (hright x hrs) h

/-- `afterChild`: the updated child's elements take the place of the old child's; nothing else moves -/
theorem afterChild_elems0 (T : Nat) (m m' : MMetaSlab (MTree r d)) (old child : MTree r d) (k : Nat) (c c' : Ctx)
    (hk : m.children[k]? = some old) (h : m.afterChild T child k c = .ok (m', c')) :
    elems0 (d + 1) m' =
      (m.children.take k).flatMap (elems0 d) ++ elems0 d child ++ (m.children.drop (k + 1)).flatMap (elems0 d) := by
  have hlt : k < m.children.length := (List.getElem?_eq_some_iff.mp hk).1
  have hk1 : (m.children.set k child)[k]? = some child := List.getElem?_set_self hlt
  have hm1 : ((m.children.set k child).flatMap (elems0 d)) =
      (m.children.take k).flatMap (elems0 d) ++ elems0 d child ++ (m.children.drop (k + 1)).flatMap (elems0 d) := by
    rw [flatMap_set (elems0 d) hk]; simp
  simp only [afterChild] at h
  split at h
  · -- SplitChildSlab
    simp only [splitChildSlab, bind, Except.bind, pure, Except.pure] at h
    cases hs : MTree.split d child c with
    | error e => rw [hs] at h; cases h
    | ok x =>
      obtain ⟨left, right, c1⟩ := x
      rw [hs] at h
      simp only [Except.ok.injEq, Prod.mk.injEq] at h
      rw [← h.1]
      simp only [elems0_succ]
      rw [List.set_set, flatMap_set_insert left right (elems0 d) hk, split_elems0 d child left right c c1 hs]
  · split at h
    · rename_i u hu
      have := mergeOrRebalance_elems0 T _ m' child k u c c' hk1 h
      rw [this]
      exact hm1
    · simp only [Except.ok.injEq, Prod.mk.injEq] at h
      rw [← h.1]
      exact hm1

end MMetaSlab

namespace OMap
open MTree

/-- all first-level elements of the map, in iteration order -/
def elems0 (m : OMap r) : List (MElemF (MElems r)) := MTree.elems0 m.d m.root

theorem promote_elems0 (m : OMap r) (c : Ctx) : (m.promoteIfSingleChild c).1.elems0 = m.elems0 := by
  obtain ⟨d, root, ty, cnt, seed⟩ := m
  cases d with
  | zero => rfl
  | succ d =>
    simp only [promoteIfSingleChild]
    have hx : ∃ x : MMetaSlab (MTree r d), x = root := ⟨root, rfl⟩
    obtain ⟨x, rfl⟩ := hx
    cases hh : x.childHdrs with
    | nil => rfl
    | cons h hs =>
      cases hs with
      | cons _ _ => rfl
      | nil =>
        cases hc : x.children with
        | nil => rfl
        | cons child cs =>
          cases cs with
          | cons _ _ => rfl
          | nil =>
            simp only [elems0, elems0_setRoot, elems0_setId, elems0_succ, hc, List.flatMap_cons, List.flatMap_nil,
              List.append_nil]
            cases d with
            | zero => rfl
            | succ d => rfl

theorem splitRootIfFull_elems0 (T : Nat) (m m' : OMap r) (c c' : Ctx) (h : m.splitRootIfFull T c = .ok (m', c')) :
    m'.elems0 = m.elems0 := by
  simp only [splitRootIfFull] at h
  split at h
  · simp only [splitRoot, bind, Except.bind, pure, Except.pure] at h
    split at h
    · cases h
    · rename_i x hs
      obtain ⟨left, right, c1⟩ := x
      simp only [Except.ok.injEq, Prod.mk.injEq] at h
      rw [← h.1]
      have := split_elems0 _ _ left right _ c1 hs
      simp only [elems0, elems0_succ, List.flatMap_cons, List.flatMap_nil, List.append_nil]
      rw [this, elems0_setId, elems0_setRoot]
      obtain ⟨d, root, ty, cnt, seed⟩ := m
      cases d <;> rfl
  · simp only [Except.ok.injEq, Prod.mk.injEq] at h
    rw [← h.1]

end OMap

/-! ### one request on the whole map -/

namespace MTree

theorem lenOk_of_inv {T : Nat} {D : DigestFn (r + 1)} : ∀ (d : Nat) (top : Bool) (t : MTree r d),
    MTreeInv T D d top t → LenOk d t
  | 0, top, t, h => ((mtreeInv_zero_iff T D _ _).mp h).loose.hinv.len_eq
  | d + 1, top, m, h => fun c hc => lenOk_of_inv d false c (((mtreeInv_succ_iff T D d top m).mp h).1.2.2.2.2.1 c hc)

/-- `MapSlab.Set` on the first-level elements of the subtree -/
theorem set_elems0 (cfg : MCfg) : ∀ (d : Nat) (t t' : MTree r d) (k : MKey) (v : Elem) (c c' : Ctx) (ks : MKey)
    (old : Option Elem), LenOk d t → set cfg d t k v c = .ok (ks, old, t', c') →
    SetElemsRel cfg.T (MElems.ops r) (elems0 d t) (elems0 d t')
  | 0, (s : MDataSlab r), t', k, v, c, c', ks, old, hlen, h => by
    simp only [set, MDataSlab.set, bind, Except.bind, pure, Except.pure] at h
    cases hs : HkeyElems.set (MDataSlab.eops r) cfg s.elems 0 k v c with
    | error e => rw [hs] at h; cases h
    | ok x =>
      obtain ⟨ks', old', e', c1⟩ := x
      rw [hs] at h
      have h3 : _ = t' := (Prod.mk.inj (Prod.mk.inj (Prod.mk.inj (Except.ok.inj h)).2).2).1
      rw [← h3]
      exact HkeyElems.set_elems (MElems.ops r) cfg s.elems k v c hlen hs
  | d + 1, (m : MMetaSlab (MTree r d)), t', k, v, c, c', ks, old, hlen, h => by
    simp only [set, bind, Except.bind, pure, Except.pure, throw, throwThe, MonadExceptOf.throw] at h
    generalize (MMetaSlab.findChild m.childHdrs (k.dig 0) 0 m.childHdrs.length (some 0)
      (m.childHdrs.length + 1)).getD 0 = i at h
    cases h2 : m.children[i]? with
    | none => rw [h2] at h; cases h
    | some child =>
      rw [h2] at h
      simp only at h
      cases hs : set cfg d child k v c with
      | error e => rw [hs] at h; cases h
      | ok x =>
        obtain ⟨ks', old', child', c1⟩ := x
        rw [hs] at h
        simp only at h
        cases ha : m.afterChild cfg.T child' i c1 with
        | error e => rw [ha] at h; cases h
        | ok y =>
          obtain ⟨m', c2⟩ := y
          rw [ha] at h
          have h3 : m' = t' := (Prod.mk.inj (Prod.mk.inj (Prod.mk.inj (Except.ok.inj h)).2).2).1
          rw [← h3]
          have ih := set_elems0 cfg d child child' k v c c1 ks' old' (hlen child (List.mem_of_getElem? h2)) hs
          rw [MMetaSlab.afterChild_elems0 cfg.T m m' child child' i c1 c2 h2 ha, elems0_succ,
            flatMap_split (elems0 d) h2, List.append_assoc]
          exact ih.lift _ _

/-- `MapSlab.Remove` on the first-level elements of the subtree -/
theorem remove_elems0 (cfg : MCfg) : ∀ (d : Nat) (t t' : MTree r d) (k : MKey) (c c' : Ctx) (rk : MKey)
    (rv : Elem), remove cfg d t k c = .ok (rk, rv, t', c') → RemoveElemsRel (elems0 d t) (elems0 d t')
  | 0, (s : MDataSlab r), t', k, c, c', rk, rv, h => by
    have h' : MDataSlab.remove cfg s k c = .ok (rk, rv, t', c') := h
    simp only [MDataSlab.remove, bind, Except.bind, pure, Except.pure] at h'
    cases hs : HkeyElems.remove (MDataSlab.eops r) cfg s.elems 0 k c with
    | error e => rw [hs] at h'; cases h'
    | ok x =>
      obtain ⟨rk', rv', e', c1⟩ := x
      rw [hs] at h'
      have h3 : _ = t' := (Prod.mk.inj (Prod.mk.inj (Prod.mk.inj (Except.ok.inj h')).2).2).1
      rw [← h3]
      exact HkeyElems.remove_elems (MElems.ops r) cfg s.elems 0 k c hs
  | d + 1, (m : MMetaSlab (MTree r d)), t', k, c, c', rk, rv, h => by
    simp only [remove, bind, Except.bind, pure, Except.pure, throw, throwThe, MonadExceptOf.throw] at h
    cases hfc : MMetaSlab.findChild m.childHdrs (k.dig 0) 0 m.childHdrs.length none (m.childHdrs.length + 1) with
    | none => rw [hfc] at h; cases h
    | some i =>
      rw [hfc] at h
      simp only at h
      cases h2 : m.children[i]? with
      | none => rw [h2] at h; cases h
      | some child =>
        rw [h2] at h
        simp only at h
        cases hs : remove cfg d child k c with
        | error e => rw [hs] at h; cases h
        | ok x =>
          obtain ⟨rk', rv', child', c1⟩ := x
          rw [hs] at h
          simp only at h
          cases ha : m.afterChild cfg.T child' i c1 with
          | error e => rw [ha] at h; cases h
          | ok y =>
            obtain ⟨m', c2⟩ := y
            rw [ha] at h
            have h3 : m' = t' := (Prod.mk.inj (Prod.mk.inj (Prod.mk.inj (Except.ok.inj h)).2).2).1
            rw [← h3]
            have ih := remove_elems0 cfg d child child' k c c1 rk' rv' hs
            rw [MMetaSlab.afterChild_elems0 cfg.T m m' child child' i c1 c2 h2 ha, elems0_succ,
              flatMap_split (elems0 d) h2, List.append_assoc]
            exact ih.lift _ _

end MTree

/-- NO RE-INLINING ON SHRINK (one `Remove` on a whole map).  The first-level elements after a successful
    `Remove` are those before it except for exactly one element, which (`RemoveKindRel`) disappeared if it
    was a single element; stayed an inline group or collapsed to its last single element if it was an
    inline group; stayed an EXTERNAL group with the same slab, whatever its size, or collapsed to its last
    single element if it was an external group.  An external group never becomes an inline group. -/
theorem OMap.remove_elems0 (cfg : MCfg) (m m' : OMap r) (k : MKey) (c c' : Ctx) (rk : MKey) (rv : Elem)
    (hs : m.remove cfg k c = .ok (rk, rv, m', c')) : RemoveElemsRel m.elems0 m'.elems0 := by
  simp only [OMap.remove, bind, Except.bind, pure, Except.pure] at hs
  cases h1 : MTree.remove cfg m.d m.root k c with
  | error e => rw [h1] at hs; cases hs
  | ok x =>
    obtain ⟨rk', rv', root', c1⟩ := x
    rw [h1] at hs
    simp only at hs
    cases h2 : OMap.splitRootIfFull cfg.T
        (OMap.promoteIfSingleChild { m with root := root', count := m.count - 1 } c1).1
        (OMap.promoteIfSingleChild { m with root := root', count := m.count - 1 } c1).2 with
    | error e => rw [h2] at hs; cases hs
    | ok y =>
      obtain ⟨m3, c3⟩ := y
      rw [h2] at hs
      simp only [Except.ok.injEq, Prod.mk.injEq] at hs
      rw [← hs.2.2.1, OMap.splitRootIfFull_elems0 cfg.T _ m3 _ c3 h2, OMap.promote_elems0]
      exact MTree.remove_elems0 cfg m.d m.root root' k c c1 rk' rv' h1

/-- EXPORT EXACTLY WHEN OVERSIZED (one `Set` on a whole map).  The first-level elements of the map after
    a successful `Set` are those before it, except that EITHER one new single element was inserted, OR
    exactly one element changed, and then (`SetKindRel`): an external collision group stayed external
    with the same slab; an overwritten single element stayed single; and in every other case the
    resulting collision group is external (with a well-formed slab) if and only if
    `inlineCollisionGroupPrefixSize + size` exceeds `maxInlineMapElementSize`, inline otherwise.
    In particular no other element is exported, inlined, or touched at all. -/
theorem OMap.set_elems0 {T : Nat} {D : DigestFn (r + 1)} (cfg : MCfg) (m m' : OMap r) (h : MapInv T D m)
    (k : MKey) (v : Elem) (c c' : Ctx) (old : Option Elem) (hs : m.set cfg k v c = .ok (old, m', c')) :
    SetElemsRel cfg.T (MElems.ops r) m.elems0 m'.elems0 := by
  simp only [OMap.set, bind, Except.bind, pure, Except.pure] at hs
  cases h1 : MTree.set cfg m.d m.root k v c with
  | error e => rw [h1] at hs; cases hs
  | ok x =>
    obtain ⟨ks, old', root', c1⟩ := x
    rw [h1] at hs
    simp only at hs
    cases h2 : OMap.splitRootIfFull cfg.T
        (OMap.promoteIfSingleChild { m with root := root', count := if old'.isNone then m.count + 1 else m.count } c1).1
        (OMap.promoteIfSingleChild { m with root := root', count := if old'.isNone then m.count + 1 else m.count } c1).2 with
    | error e => rw [h2] at hs; cases hs
    | ok y =>
      obtain ⟨m3, c3⟩ := y
      rw [h2] at hs
      simp only [Except.ok.injEq, Prod.mk.injEq] at hs
      rw [← hs.2.1, OMap.splitRootIfFull_elems0 cfg.T _ m3 _ c3 h2, OMap.promote_elems0]
      exact MTree.set_elems0 cfg m.d m.root root' k v c c1 ks old' (MTree.lenOk_of_inv m.d true m.root h.tree) h1

end Atree
