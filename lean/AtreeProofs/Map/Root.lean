import AtreeProofs.Map.TreeRemove
import AtreeProofs.Map.TreeTop
/-
  The root layer: `promoteIfSingleChild`, `splitRootIfFull`.
-/
namespace Atree
open Gen

variable {T : Nat} {r : Nat} {D : DigestFn (r + 1)}

/-- postcondition of the root fix-up after an update -/
structure RootPost (T : Nat) (D : DigestFn (r + 1)) (m1 m3 : OMap r) (c c3 : Ctx) : Prop where
  tree : MTreeInv T D m3.d true m3.root
  chain : MLeafChain (MTree.leaves m3.d m3.root)
  toList : m3.toList = m1.toList
  inl : m3.isInlined = false
  rootID : m3.rootID = m1.rootID
  ty : m3.ty = m1.ty
  seed : m3.seed = m1.seed
  count : m3.count = m1.count
  ctr : c.ctr ≤ c3.ctr
  ids : ∀ id ∈ CtxOk.mapSlabIds m3.d m3.root, id ∈ CtxOk.mapSlabIds m1.d m1.root ∨ id.idx ≤ c3.ctr

theorem isInlined_eq (d : Nat) (root : MTree r d) (ty cnt seed : Nat) :
    OMap.isInlined (⟨d, root, ty, cnt, seed⟩ : OMap r) = treeInl d root := by
  cases d <;> rfl

/-- a root within its band needs no fix-up -/
theorem mtreeInv_top_of (hT : legalThreshold T = true) : ∀ (d : Nat) (root : MTree r d),
    SInv T D d true root → (MTree.hdr d root).size ≤ maxThr T →
    (∀ d' (m : MMetaSlab (MTree r d')), d = d' + 1 → HEq root m → 2 ≤ m.children.length) →
    MTreeInv T D d true root
  | 0, s, hs, hle, _ =>
    (mtreeInv_zero_iff T D true s).mpr ((mdataInv_iff hT true s).mpr ⟨hs, hle, fun h => absurd h (by decide)⟩)
  | d + 1, m, hs, hle, h2 =>
    (mtreeInv_succ_iff T D d true m).mpr ⟨hs.1, hle, fun h => absurd h (by decide), fun _ => h2 d m rfl HEq.rfl⟩

/-- the root slab turned into a non-root slab with a fresh ID (first step of `splitRoot`) -/
def deroot : (d : Nat) → MTree r d → SlabID → MTree r d
  | 0, (s : MDataSlab r), sid =>
    ({ s with hdr := { s.hdr with size := s.hdr.size - mapRootDataSlabPrefixSize + mapDataSlabPrefixSize, id := sid },
              root := false } : MDataSlab r)
  | _ + 1, (x : MMetaSlab _), sid => ({ x with hdr := { x.hdr with id := sid }, root := false } : MMetaSlab _)

/-- the new root index slab built by `splitRoot` -/
def newRootOf (d : Nat) (rootID : SlabID) (l rr : MTree r d) : MMetaSlab (MTree r d) :=
  { hdr := { id := rootID, size := mapMetaDataSlabPrefixSize + mapSlabHeaderSize * 2,
             firstKey := (MTree.hdr d l).firstKey },
    childHdrs := [MTree.hdr d l, MTree.hdr d rr], children := [l, rr], root := true }

theorem splitRoot_ok (d : Nat) (root : MTree r d) (ty cnt seed : Nat) (c : Ctx) {l rr : MTree r d} {c2 : Ctx}
    (h : MTree.split d (deroot d root (c.alloc (MTree.hdr d root).id.addr).1) (c.alloc (MTree.hdr d root).id.addr).2
      = .ok (l, rr, c2)) :
    OMap.splitRoot (⟨d, root, ty, cnt, seed⟩ : OMap r) c =
      .ok ((⟨d + 1, newRootOf d (MTree.hdr d root).id l rr, ty, cnt, seed⟩ : OMap r),
          ((c2.emit (.store (MTree.hdr d l).id)).emit (.store (MTree.hdr d rr).id)).emit
            (.store (MTree.hdr d root).id)) := by
  cases d with
  | zero =>
    simp only [deroot, MTree.hdr] at h
    simp only [OMap.splitRoot, MTree.hdr, MTree.setRoot, MTree.setId, bind, Except.bind, pure, Except.pure, h,
      newRootOf]
  | succ d =>
    simp only [deroot, MTree.hdr] at h
    simp only [OMap.splitRoot, MTree.hdr, MTree.setRoot, MTree.setId, bind, Except.bind, pure, Except.pure, h,
      newRootOf]

/-- facts about the de-rooted copy of the root slab -/
structure DerootFacts (T : Nat) (D : DigestFn (r + 1)) (d : Nat) (root : MTree r d) (sid : SlabID) : Prop where
  sinv : SInv T D d false (deroot d root sid)
  full : maxThr T < (MTree.hdr d root).size → maxThr T < (MTree.hdr d (deroot d root sid)).size
  le : (MTree.hdr d root).size ≤ maxThr T + slack1 T d → (MTree.hdr d (deroot d root sid)).size ≤ maxThr T + slack T d
  id : (MTree.hdr d (deroot d root sid)).id = sid
  toList : MTree.toList d (deroot d root sid) = MTree.toList d root
  digs : MTree.digests0 d (deroot d root sid) = MTree.digests0 d root
  chain : ∀ nxt, ChainTo (MTree.leaves d root) nxt → ChainTo (MTree.leaves d (deroot d root sid)) nxt
  ids : ∀ id ∈ CtxOk.mapSlabIds d (deroot d root sid), id = sid ∨ id ∈ CtxOk.mapSlabIds d root

theorem deroot_zero (s : MDataSlab r) (sid : SlabID) (hs : MDataLoose T D true s) (hinl : s.inlined = false) :
    DerootFacts T D 0 s sid := by
  have hpre : s.prefixSize = mapRootDataSlabPrefixSize := by
    simp [MDataSlab.prefixSize, hinl, hs.root_eq]
  have hsz := hs.size_eq
  rw [hpre] at hsz
  refine ⟨⟨hs.elems_inv, ?_, hs.first_eq, rfl, ?_⟩, ?_, ?_, rfl, rfl, rfl, ?_, ?_⟩
  · simp only [deroot, MDataSlab.prefixSize, hinl]
    simp only [Bool.false_eq_true, if_false]
    rw [hsz]; simp only [mapRootDataSlabPrefixSize, mapDataSlabPrefixSize]; omega
  · intro h; simp only [deroot] at h; rw [hinl] at h; cases h
  · intro h
    show maxThr T < s.hdr.size - mapRootDataSlabPrefixSize + mapDataSlabPrefixSize
    have : maxThr T < s.hdr.size := h
    simp only [mapRootDataSlabPrefixSize, mapDataSlabPrefixSize] at *; omega
  · intro h
    show s.hdr.size - mapRootDataSlabPrefixSize + mapDataSlabPrefixSize ≤ maxThr T + (maxEntry T + 16)
    have : s.hdr.size ≤ maxThr T + maxEntry T := h
    simp only [mapRootDataSlabPrefixSize, mapDataSlabPrefixSize] at *; omega
  · intro nxt h
    show ChainTo [deroot 0 s sid] nxt
    have h' : ChainTo [s] nxt := h
    simp only [ChainTo] at h' ⊢
    exact h'
  · intro id hid
    have key : CtxOk.mapSlabIds 0 (deroot 0 s sid) = sid :: extIds s.elems.elems :=
      mapSlabIds_zero ({ s with hdr := { s.hdr with
        size := s.hdr.size - mapRootDataSlabPrefixSize + mapDataSlabPrefixSize, id := sid }, root := false } : MDataSlab r)
    rw [key] at hid
    rw [mapSlabIds_zero]
    rcases List.mem_cons.mp hid with h | h
    · left; exact h
    · right; exact List.mem_cons_of_mem _ h

theorem deroot_succ {d : Nat} (x : MMetaSlab (MTree r d)) (sid : SlabID) (hs : MetaLoose T D d true x)
    (hlen : 1 ≤ x.children.length) (haddr : sid.addr = x.hdr.id.addr) : DerootFacts T D (d + 1) x sid := by
  refine ⟨⟨⟨rfl, hs.2.1, hs.2.2.1, hs.2.2.2.1, hs.2.2.2.2.1, ?_, hs.2.2.2.2.2.2.1, hs.2.2.2.2.2.2.2⟩, hlen⟩,
    fun h => h, fun h => h, rfl, rfl, rfl, fun _ h => h, ?_⟩
  · intro c hc
    show _ = sid.addr
    rw [haddr]; exact hs.2.2.2.2.2.1 c hc
  · intro id hid
    have key : CtxOk.mapSlabIds (d + 1) (deroot (d + 1) x sid) = sid :: x.children.flatMap (CtxOk.mapSlabIds d) :=
      mapSlabIds_succ ({ x with hdr := { x.hdr with id := sid }, root := false } : MMetaSlab (MTree r d))
    rw [key] at hid
    rw [mapSlabIds_succ]
    rcases List.mem_cons.mp hid with h | h
    · left; exact h
    · right; exact List.mem_cons_of_mem _ h

theorem deroot_facts : ∀ (d : Nat) (root : MTree r d) (sid : SlabID), SInv T D d true root →
    treeInl d root = false → sid.addr = (MTree.hdr d root).id.addr → DerootFacts T D d root sid
  | 0, s, sid, hs, hinl, _ => deroot_zero s sid hs hinl
  | _ + 1, x, sid, hs, _, haddr => deroot_succ x sid hs.1 hs.2 haddr

theorem hdr_id_mem_zero (s : MDataSlab r) : s.hdr.id ∈ CtxOk.mapSlabIds 0 s := by
  rw [mapSlabIds_zero]; exact List.mem_cons_self

theorem hdr_id_mem_succ {d : Nat} (m : MMetaSlab (MTree r d)) : m.hdr.id ∈ CtxOk.mapSlabIds (d + 1) m := by
  rw [mapSlabIds_succ]; exact List.mem_cons_self

theorem hdr_id_mem : ∀ (d : Nat) (t : MTree r d), (MTree.hdr d t).id ∈ CtxOk.mapSlabIds d t
  | 0, s => hdr_id_mem_zero s
  | _ + 1, m => hdr_id_mem_succ m

/-- the root is over-full: it is split and a new root index slab is put on top -/
theorem splitRoot_post (hT : legalThreshold T = true) (d : Nat) (root : MTree r d) (ty cnt seed : Nat) (c : Ctx)
    (hS : SInv T D d true root) (hinl : treeInl d root = false) (hfull : maxThr T < (MTree.hdr d root).size)
    (hle : (MTree.hdr d root).size ≤ maxThr T + slack1 T d)
    (hchain : ChainTo (MTree.leaves d root) SlabID.undef) :
    ∃ m3 c3, OMap.splitRoot (⟨d, root, ty, cnt, seed⟩ : OMap r) c = .ok (m3, c3) ∧
      RootPost T D ⟨d, root, ty, cnt, seed⟩ m3 c c3 := by
  have F := deroot_facts (T := T) (D := D) d root (c.alloc (MTree.hdr d root).id.addr).1 hS hinl rfl
  obtain ⟨l, rr, heq, hl, hr, hid1, hid2, hp, hdg, hlv, hids⟩ := MTree.split_spec hT d
    (deroot d root (c.alloc (MTree.hdr d root).id.addr).1) (c.alloc (MTree.hdr d root).id.addr).2
    F.sinv (F.full hfull) (F.le hle)
  rw [splitRoot_ok d root ty cnt seed c heq]
  refine ⟨_, _, rfl, ?_⟩
  have hb := map_legal_bounds hT
  have ha1 : (MTree.hdr d l).id.addr = (MTree.hdr d root).id.addr := by rw [hid1, F.id]; rfl
  have ha2 : (MTree.hdr d rr).id.addr = (MTree.hdr d root).id.addr := by rw [hid2, F.id]; rfl
  refine ⟨?_, ?_, ?_, rfl, rfl, rfl, rfl, rfl, ?_, ?_⟩
  · show MTreeInv T D (d + 1) true (newRootOf d (MTree.hdr d root).id l rr)
    rw [mtreeInv_succ_iff]
    refine ⟨MetaLoose.mk' rfl rfl rfl rfl ?_ ?_, ?_, fun h => absurd h (by decide), fun _ => Nat.le_refl 2⟩
    · intro x hx
      have hx' : x ∈ [l, rr] := hx
      simp only [List.mem_cons, List.mem_nil_iff, or_false] at hx'
      rcases hx' with rfl | rfl
      · exact ⟨hl, ha1, hl.fk hT⟩
      · exact ⟨hr, ha2, hr.fk hT⟩
    · show (dgs [l, rr]).Pairwise (· < ·)
      have : dgs [l, rr] = MTree.digests0 d root := by
        simp only [dgs, List.flatMap_cons, List.flatMap_nil, List.append_nil]
        rw [← hdg, F.digs]
      rw [this]; exact SInv.sorted d true root hS
    · show mapMetaDataSlabPrefixSize + mapSlabHeaderSize * 2 ≤ maxThr T
      simp only [mapMetaDataSlabPrefixSize, mapSlabHeaderSize, maxThr]; omega
  · rw [mLeafChain_iff]
    show ChainTo (lvs [l, rr]) SlabID.undef
    have : lvs [l, rr] = MTree.leaves d l ++ MTree.leaves d rr := by simp [lvs]
    rw [this]
    exact hlv.2.2.2 _ (F.chain _ hchain)
  · show prs [l, rr] = MTree.toList d root
    simp only [prs, List.flatMap_cons, List.flatMap_nil, List.append_nil]
    rw [← hp, F.toList]
  · simp [mctx_emit_ctr, mctx_alloc_ctr]; omega
  · intro id hid
    have hid' : id ∈ (MTree.hdr d root).id :: idl [l, rr] := by
      have := mapSlabIds_succ (newRootOf d (MTree.hdr d root).id l rr)
      rw [this] at hid; exact hid
    rcases List.mem_cons.mp hid' with h | h
    · left; rw [h]; exact hdr_id_mem d root
    · have h' : id ∈ CtxOk.mapSlabIds d l ++ CtxOk.mapSlabIds d rr := by simpa [idl] using h
      rcases hids id h' with h1 | h1
      · rcases F.ids id h1 with h2 | h2
        · right; rw [h2]; simp [mctx_emit_ctr, mctx_alloc_ctr, mctx_alloc_idx]
        · left; exact h2
      · right; rw [h1, hid2]; simp [mctx_emit_ctr, mctx_alloc_ctr, mctx_alloc_idx]

theorem rootPost_refl (hT : legalThreshold T = true) (d : Nat) (root : MTree r d) (ty cnt seed : Nat) (c : Ctx)
    (hS : SInv T D d true root) (hinl : treeInl d root = false) (hle : (MTree.hdr d root).size ≤ maxThr T)
    (hchain : ChainTo (MTree.leaves d root) SlabID.undef)
    (h2 : ∀ d' (m : MMetaSlab (MTree r d')), d = d' + 1 → HEq root m → 2 ≤ m.children.length) :
    RootPost T D (⟨d, root, ty, cnt, seed⟩ : OMap r) ⟨d, root, ty, cnt, seed⟩ c c :=
  ⟨mtreeInv_top_of hT d root hS hle h2, (mLeafChain_iff _).mpr hchain, rfl, by rw [isInlined_eq]; exact hinl,
    rfl, rfl, rfl, rfl, Nat.le_refl _, fun _ h => Or.inl h⟩

theorem splitRootIfFull_post (hT : legalThreshold T = true) (d : Nat) (root : MTree r d) (ty cnt seed : Nat) (c : Ctx)
    (hS : SInv T D d true root) (hinl : treeInl d root = false)
    (hle : (MTree.hdr d root).size ≤ maxThr T + slack1 T d)
    (hchain : ChainTo (MTree.leaves d root) SlabID.undef)
    (h2 : ∀ d' (m : MMetaSlab (MTree r d')), d = d' + 1 → HEq root m → 2 ≤ m.children.length) :
    ∃ m3 c3, OMap.splitRootIfFull T (⟨d, root, ty, cnt, seed⟩ : OMap r) c = .ok (m3, c3) ∧
      RootPost T D ⟨d, root, ty, cnt, seed⟩ m3 c c3 := by
  simp only [OMap.splitRootIfFull]
  by_cases hfull : MTree.isFull T d root = true
  · rw [if_pos hfull]
    exact splitRoot_post hT d root ty cnt seed c hS hinl ((mtree_isFull_iff T d root).mp hfull) hle hchain
  · rw [if_neg hfull]
    have : ¬ maxThr T < (MTree.hdr d root).size := fun h => hfull ((mtree_isFull_iff T d root).mpr h)
    exact ⟨_, _, rfl, rootPost_refl hT d root ty cnt seed c hS hinl (by omega) hchain h2⟩

/-- the only child of the root index slab turned into the new root (`promoteChildAsNewRoot`) -/
def enroot : (d : Nat) → MTree r d → SlabID → MTree r d
  | 0, (s : MDataSlab r), rid =>
    ({ s with hdr := { s.hdr with size := s.hdr.size - mapDataSlabPrefixSize + mapRootDataSlabPrefixSize, id := rid },
              root := true } : MDataSlab r)
  | _ + 1, (y : MMetaSlab _), rid => ({ y with hdr := { y.hdr with id := rid }, root := true } : MMetaSlab _)

theorem promote_eq (d : Nat) (x : MMetaSlab (MTree r d)) (ty cnt seed : Nat) (c : Ctx) {h : MHdr} {child : MTree r d}
    (hh : x.childHdrs = [h]) (hc : x.children = [child]) :
    OMap.promoteIfSingleChild (⟨d + 1, x, ty, cnt, seed⟩ : OMap r) c =
      (⟨d, enroot d child x.hdr.id, ty, cnt, seed⟩, (c.emit (.store x.hdr.id)).emit (.remove h.id)) := by
  cases d with
  | zero => simp only [OMap.promoteIfSingleChild, hh, hc, enroot, MTree.setRoot, MTree.setId]
  | succ d => simp only [OMap.promoteIfSingleChild, hh, hc, enroot, MTree.setRoot, MTree.setId]

theorem promote_id (d : Nat) (x : MMetaSlab (MTree r d)) (ty cnt seed : Nat) (c : Ctx)
    (hh : x.childHdrs = x.children.map (MTree.hdr d)) (h2 : 2 ≤ x.children.length) :
    OMap.promoteIfSingleChild (⟨d + 1, x, ty, cnt, seed⟩ : OMap r) c = (⟨d + 1, x, ty, cnt, seed⟩, c) := by
  rcases hc : x.children with _ | ⟨a, _ | ⟨b, rest⟩⟩
  · rw [hc] at h2; simp at h2
  · rw [hc] at h2; simp at h2
  · rw [hc] at hh
    simp only [OMap.promoteIfSingleChild, hh, hc, List.map_cons]

/-- facts about the promoted child -/
structure EnrootFacts (T : Nat) (D : DigestFn (r + 1)) (d : Nat) (child : MTree r d) (rid : SlabID) : Prop where
  tree : MTreeInv T D d true (enroot d child rid)
  id : (MTree.hdr d (enroot d child rid)).id = rid
  toList : MTree.toList d (enroot d child rid) = MTree.toList d child
  chain : ∀ nxt, ChainTo (MTree.leaves d child) nxt → ChainTo (MTree.leaves d (enroot d child rid)) nxt
  ids : ∀ id ∈ CtxOk.mapSlabIds d (enroot d child rid), id = rid ∨ id ∈ CtxOk.mapSlabIds d child
  inl : treeInl d (enroot d child rid) = false

theorem enroot_zero (hT : legalThreshold T = true) (s : MDataSlab r) (rid : SlabID) (hs : MDataInv T D false s) :
    EnrootFacts T D 0 s rid := by
  have hl := hs.loose
  have hinl : s.inlined = false := by
    cases hi : s.inlined with
    | false => rfl
    | true => have := hs.inl_root hi; cases this
  have hsz := hl.size_eq
  rw [hl.prefix_nontop] at hsz
  have hle := hs.le_max
  refine ⟨?_, rfl, rfl, ?_, ?_, hinl⟩
  · show MTreeInv T D 0 true (enroot 0 s rid)
    refine (mtreeInv_zero_iff T D true _).mpr ((mdataInv_iff hT true _).mpr ⟨⟨hl.elems_inv, ?_, hl.first_eq, rfl, fun _ => rfl⟩, ?_, fun h => absurd h (by decide)⟩)
    · simp only [enroot, MDataSlab.prefixSize, hinl]
      simp only [Bool.false_eq_true, if_false, if_true]
      rw [hsz]; simp only [mapRootDataSlabPrefixSize, mapDataSlabPrefixSize]; omega
    · show s.hdr.size - mapDataSlabPrefixSize + mapRootDataSlabPrefixSize ≤ maxThr T
      simp only [mapRootDataSlabPrefixSize, mapDataSlabPrefixSize] at *; omega
  · intro nxt h
    show ChainTo [enroot 0 s rid] nxt
    have h' : ChainTo [s] nxt := h
    simp only [ChainTo] at h' ⊢
    exact h'
  · intro id hid
    have key : CtxOk.mapSlabIds 0 (enroot 0 s rid) = rid :: extIds s.elems.elems :=
      mapSlabIds_zero ({ s with hdr := { s.hdr with
        size := s.hdr.size - mapDataSlabPrefixSize + mapRootDataSlabPrefixSize, id := rid }, root := true } : MDataSlab r)
    rw [key] at hid
    rw [mapSlabIds_zero]
    rcases List.mem_cons.mp hid with h | h
    · left; exact h
    · right; exact List.mem_cons_of_mem _ h

theorem enroot_succ (hT : legalThreshold T = true) {d : Nat} (y : MMetaSlab (MTree r d)) (rid : SlabID)
    (hy : MTreeInv T D (d + 1) false y) (haddr : rid.addr = y.hdr.id.addr) : EnrootFacts T D (d + 1) y rid := by
  obtain ⟨hs, h2, hle⟩ := MTreeInv.two_children hT hy
  refine ⟨?_, rfl, rfl, fun _ h => h, ?_, rfl⟩
  · show MTreeInv T D (d + 1) true (enroot (d + 1) y rid)
    refine (mtreeInv_succ_iff T D d true _).mpr ⟨⟨rfl, hs.2.1, hs.2.2.1, hs.2.2.2.1, hs.2.2.2.2.1, ?_, hs.2.2.2.2.2.2.1,
      hs.2.2.2.2.2.2.2⟩, hle, fun h => absurd h (by decide), fun _ => h2⟩
    intro c hc
    show _ = rid.addr
    rw [haddr]; exact hs.2.2.2.2.2.1 c hc
  · intro id hid
    have key : CtxOk.mapSlabIds (d + 1) (enroot (d + 1) y rid) = rid :: y.children.flatMap (CtxOk.mapSlabIds d) :=
      mapSlabIds_succ ({ y with hdr := { y.hdr with id := rid }, root := true } : MMetaSlab (MTree r d))
    rw [key] at hid
    rw [mapSlabIds_succ]
    rcases List.mem_cons.mp hid with h | h
    · left; exact h
    · right; exact List.mem_cons_of_mem _ h

theorem enroot_facts (hT : legalThreshold T = true) : ∀ (d : Nat) (child : MTree r d) (rid : SlabID),
    MTreeInv T D d false child → rid.addr = (MTree.hdr d child).id.addr → EnrootFacts T D d child rid
  | 0, s, rid, hs, _ => enroot_zero hT s rid ((mtreeInv_zero_iff T D _ _).mp hs)
  | _ + 1, y, rid, hy, haddr => enroot_succ hT y rid hy haddr

theorem MTreeInv.le_max : ∀ (d : Nat) (top : Bool) (t : MTree r d), MTreeInv T D d top t →
    (MTree.hdr d t).size ≤ maxThr T
  | 0, _, _, h => ((mtreeInv_zero_iff T D _ _).mp h).le_max
  | _ + 1, _, _, h => ((mtreeInv_succ_iff T D _ _ _).mp h).2.1

theorem root_fixup_succ (hT : legalThreshold T = true) {d : Nat} (x : MMetaSlab (MTree r d)) (ty cnt seed : Nat)
    (c : Ctx) (hS : MetaLoose T D d true x ∧ 1 ≤ x.children.length)
    (hle : x.hdr.size ≤ maxThr T + mapSlabHeaderSize)
    (hchain : ChainTo (MTree.leaves (d + 1) x) SlabID.undef) :
    ∃ m3 c3, (OMap.promoteIfSingleChild (⟨d + 1, x, ty, cnt, seed⟩ : OMap r) c).1.splitRootIfFull T
        (OMap.promoteIfSingleChild (⟨d + 1, x, ty, cnt, seed⟩ : OMap r) c).2 = .ok (m3, c3) ∧
      RootPost T D ⟨d + 1, x, ty, cnt, seed⟩ m3 c c3 := by
  have hm : MetaLoose T D d true x := hS.1
  have hlen : 1 ≤ x.children.length := hS.2
  rcases hc : x.children with _ | ⟨child, _ | ⟨b, rest⟩⟩
  · rw [hc] at hlen; simp at hlen
  · have hh : x.childHdrs = [MTree.hdr d child] := by rw [hm.2.1, hc]; rfl
    have hcm : child ∈ x.children := by rw [hc]; simp
    have F := enroot_facts hT d child x.hdr.id (hm.2.2.2.2.1 child hcm) (hm.2.2.2.2.2.1 child hcm).symm
    rw [promote_eq d x ty cnt seed c hh hc]
    have hnf : ¬ MTree.isFull T d (enroot d child x.hdr.id) = true := by
      intro h
      have := (mtree_isFull_iff T d _).mp h
      have := MTreeInv.le_max d true _ F.tree
      omega
    simp only [OMap.splitRootIfFull]
    rw [if_neg hnf]
    refine ⟨_, _, rfl, ⟨F.tree, ?_, ?_, ?_, F.id, rfl, rfl, rfl, ?_, ?_⟩⟩
    · rw [mLeafChain_iff]
      apply F.chain
      have : MTree.leaves (d + 1) x = MTree.leaves d child := by
        rw [MTree.leaves_succ, hc]; simp
      rw [← this]; exact hchain
    · show MTree.toList d (enroot d child x.hdr.id) = MTree.toList (d + 1) x
      rw [F.toList, MTree.toList_succ, hc]; simp
    · rw [isInlined_eq]; exact F.inl
    · simp [mctx_emit_ctr]
    · intro id hid
      left
      show id ∈ CtxOk.mapSlabIds (d + 1) x
      rw [mapSlabIds_succ, hc]
      rcases F.ids id hid with h | h
      · rw [h]; exact List.mem_cons_self
      · apply List.mem_cons_of_mem; simpa using h
  · have h2 : 2 ≤ x.children.length := by rw [hc]; simp
    rw [promote_id d x ty cnt seed c hm.2.1 h2]
    refine splitRootIfFull_post hT (d + 1) x ty cnt seed c hS rfl hle hchain ?_
    intro d' m hd hheq
    have : d = d' := by omega
    subst this
    cases hheq
    exact h2

/-- the root fix-up performed by `OMap.set` / `OMap.remove` after the tree update -/
theorem root_fixup (hT : legalThreshold T = true) : ∀ (d : Nat) (root : MTree r d) (ty cnt seed : Nat) (c : Ctx),
    SInv T D d true root → treeInl d root = false → (MTree.hdr d root).size ≤ maxThr T + slack1 T d →
    ChainTo (MTree.leaves d root) SlabID.undef →
    ∃ m3 c3, (OMap.promoteIfSingleChild (⟨d, root, ty, cnt, seed⟩ : OMap r) c).1.splitRootIfFull T
        (OMap.promoteIfSingleChild (⟨d, root, ty, cnt, seed⟩ : OMap r) c).2 = .ok (m3, c3) ∧
      RootPost T D ⟨d, root, ty, cnt, seed⟩ m3 c c3
  | 0, s, ty, cnt, seed, c, hS, hinl, hle, hchain =>
    splitRootIfFull_post hT 0 s ty cnt seed c hS hinl hle hchain (fun d' m h => by omega)
  | _ + 1, x, ty, cnt, seed, c, hS, _, hle, hchain => root_fixup_succ hT x ty cnt seed c hS hle hchain

end Atree
