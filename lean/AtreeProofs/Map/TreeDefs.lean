import AtreeProofs.Map.HkeySpec
import AtreeProofs.Map.HkeySeg
/-
  Definitions for the slab and tree level: invariants without the size band ("loose"), leaf
  chains with an open end, slab-ID lists.
-/
namespace Atree
open Gen

variable {r : Nat}

/-- the IDs of a data slab -/
theorem mapSlabIds_zero (s : MDataSlab r) : CtxOk.mapSlabIds 0 s = s.hdr.id :: extIds s.elems.elems := by
  simp only [CtxOk.mapSlabIds, extIds]
  congr 2
  funext el
  cases el <;> rfl

theorem mapSlabIds_succ {d : Nat} (x : MMetaSlab (MTree r d)) :
    CtxOk.mapSlabIds (d + 1) x = x.hdr.id :: x.children.flatMap (CtxOk.mapSlabIds d) := by
  simp only [CtxOk.mapSlabIds]

/-- the largest size of a first-level entry (element + digest) -/
def maxEntry (T : Nat) : Nat := maxInlineMapElem T + digestSize

/-- data slab invariant without the size band -/
structure MDataLoose (T : Nat) (D : DigestFn (r + 1)) (top : Bool) (s : MDataSlab r) : Prop where
  elems_inv : ElemsInv T (r + 1) D (r + 1) 0 [] s.elems
  size_eq   : s.hdr.size = s.prefixSize + s.elems.size
  first_eq  : s.hdr.firstKey = s.elems.firstKey
  root_eq   : s.root = top
  inl_root  : s.inlined = true → top = true

theorem MDataLoose.hinv {T : Nat} {D : DigestFn (r + 1)} {top : Bool} {s : MDataSlab r} (h : MDataLoose T D top s) :
    HInv T (r + 1) D (MElems.ops r) (ElemsInv T (r + 1) D r) r 0 [] s.elems :=
  (elemsInv_succ_iff T (r + 1) D r 0 [] s.elems).mp h.elems_inv

theorem MDataLoose.prefix_nontop {T : Nat} {D : DigestFn (r + 1)} {s : MDataSlab r} (h : MDataLoose T D false s) :
    s.prefixSize = mapDataSlabPrefixSize := by
  have h1 : s.inlined = false := by
    cases hi : s.inlined with
    | false => rfl
    | true => have := h.inl_root hi; cases this
  simp [MDataSlab.prefixSize, h1, h.root_eq]

theorem MDataInv.loose {T : Nat} {D : DigestFn (r + 1)} {top : Bool} {s : MDataSlab r} (h : MDataInv T D top s) :
    MDataLoose T D top s := ⟨h.elems_inv, h.size_eq, h.first_eq, h.root_eq, h.inl_root⟩

/-- index slab invariant without the size band -/
def MetaLoose (T : Nat) (D : DigestFn (r + 1)) (d : Nat) (top : Bool) (m : MMetaSlab (MTree r d)) : Prop :=
  m.root = top ∧
  m.childHdrs = m.children.map (MTree.hdr d) ∧
  m.hdr.size = mapMetaDataSlabPrefixSize + mapSlabHeaderSize * m.children.length ∧
  m.hdr.firstKey = (m.childHdrs.headD default).firstKey ∧
  (∀ c ∈ m.children, MTreeInv T D d false c) ∧
  (∀ c ∈ m.children, (MTree.hdr d c).id.addr = m.hdr.id.addr) ∧
  (∀ c ∈ m.children, (MTree.hdr d c).firstKey = (MTree.digests0 d c).headD 0) ∧
  (MTree.digests0 (d + 1) m).Pairwise (· < ·)

theorem mtreeInv_succ_iff (T : Nat) (D : DigestFn (r + 1)) (d : Nat) (top : Bool) (m : MMetaSlab (MTree r d)) :
    MTreeInv T D (d + 1) top m ↔
      MetaLoose T D d top m ∧ m.hdr.size ≤ maxThr T ∧ (top = false → minThr T ≤ m.hdr.size) ∧
      (top = true → 2 ≤ m.children.length) := by
  simp only [MTreeInv, MetaLoose]
  constructor
  · rintro ⟨h1, h2, h3, h4, h5, h6, h7, h8, h9, h10, h11⟩
    exact ⟨⟨h1, h2, h3, h4, h5, h6, h7, h8⟩, h9, h10, h11⟩
  · rintro ⟨⟨h1, h2, h3, h4, h5, h6, h7, h8⟩, h9, h10, h11⟩
    exact ⟨h1, h2, h3, h4, h5, h6, h7, h8, h9, h10, h11⟩

theorem mtreeInv_zero_iff (T : Nat) (D : DigestFn (r + 1)) (top : Bool) (s : MDataSlab r) :
    MTreeInv T D 0 top s ↔ MDataInv T D top s := by
  simp only [MTreeInv]

/-- tree invariant with a relaxed size band (the state of a subtree right after an update, before
    its parent has repaired it) -/
def LInv (T : Nat) (D : DigestFn (r + 1)) : (d : Nat) → Bool → MTree r d → Prop
  | 0, top, (s : MDataSlab r) => MDataLoose T D top s ∧ s.hdr.size ≤ maxThr T + maxEntry T
  | d + 1, top, (m : MMetaSlab (MTree r d)) =>
    MetaLoose T D d top m ∧ m.hdr.size ≤ maxThr T + mapSlabHeaderSize ∧ 1 ≤ m.children.length

/-! ### leaf chains with an open end -/

/-- the sibling links of consecutive leaves; the last leaf links to `nxt` -/
def ChainTo : List (MDataSlab r) → SlabID → Prop
  | [], _ => True
  | [s], nxt => s.next = nxt
  | s :: t :: rest, nxt => s.next = t.hdr.id ∧ ChainTo (t :: rest) nxt

def firstId (l : List (MDataSlab r)) (dflt : SlabID) : SlabID :=
  match l with
  | [] => dflt
  | s :: _ => s.hdr.id

theorem chainTo_cons (s : MDataSlab r) (l : List (MDataSlab r)) (nxt : SlabID) :
    ChainTo (s :: l) nxt ↔ s.next = firstId l nxt ∧ ChainTo l nxt := by
  cases l with
  | nil => simp [ChainTo, firstId]
  | cons t rest => simp [ChainTo, firstId]

theorem chainTo_append (A B : List (MDataSlab r)) (nxt : SlabID) :
    ChainTo (A ++ B) nxt ↔ ChainTo A (firstId B nxt) ∧ ChainTo B nxt := by
  induction A with
  | nil => simp [ChainTo]
  | cons s A ih =>
    rw [List.cons_append, chainTo_cons, chainTo_cons, ih]
    have : firstId (A ++ B) nxt = firstId A (firstId B nxt) := by
      cases A <;> simp [firstId]
    rw [this]
    constructor
    · rintro ⟨h1, h2, h3⟩; exact ⟨⟨h1, h2⟩, h3⟩
    · rintro ⟨⟨h1, h2⟩, h3⟩; exact ⟨h1, h2, h3⟩

theorem firstId_append (A B : List (MDataSlab r)) (nxt : SlabID) :
    firstId (A ++ B) nxt = firstId A (firstId B nxt) := by
  cases A <;> simp [firstId]

theorem mLeafChain_iff (l : List (MDataSlab r)) : MLeafChain l ↔ ChainTo l SlabID.undef := by
  induction l with
  | nil => simp [MLeafChain, ChainTo]
  | cons s l ih =>
    cases l with
    | nil => simp [MLeafChain, ChainTo]
    | cons t rest => simp only [MLeafChain, ChainTo, ih]

/-- the effect of an update on the leaves of a subtree: same first ID, same chaining behaviour -/
def LeafRel (old new : List (MDataSlab r)) : Prop :=
  old ≠ [] ∧ new ≠ [] ∧ (∀ dflt, firstId new dflt = firstId old dflt) ∧
  (∀ nxt, ChainTo old nxt → ChainTo new nxt)

theorem LeafRel.refl {l : List (MDataSlab r)} (h : l ≠ []) : LeafRel l l :=
  ⟨h, h, fun _ => rfl, fun _ h => h⟩

theorem LeafRel.lift {old new : List (MDataSlab r)} (h : LeafRel old new) (A B : List (MDataSlab r)) :
    LeafRel (A ++ (old ++ B)) (A ++ (new ++ B)) := by
  obtain ⟨h1, h2, h3, h4⟩ := h
  refine ⟨by simp [h1], by simp [h2], ?_, ?_⟩
  · intro dflt
    rw [firstId_append, firstId_append, firstId_append, firstId_append, h3]
  · intro nxt
    rw [chainTo_append, chainTo_append, chainTo_append, chainTo_append, firstId_append, firstId_append, h3]
    rintro ⟨ha, ho, hb⟩
    exact ⟨ha, h4 _ ho, hb⟩

end Atree
