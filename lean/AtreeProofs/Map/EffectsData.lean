import AtreeProofs.Map.EffectsElems
import AtreeProofs.Array.ListLemmas
/-
  Effect-log accounting for maps (C09), first level of a data slab: how `HkeyElems.set / remove`
  at level 0 change the external collision-group slabs referenced from the elements, and the
  account of `MDataSlab.set / remove`.
-/
namespace Atree
open Gen

/-! ### elementary steps on a list of slabs -/

section steps
variable {β : Type} {a c : Nat}

theorem lastAction_pair (e1 e2 : Eff) (id : SlabID) :
    lastAction [e1, e2] id = actStep id (actStep id none e1) e2 := rfl

/-- the content of one slab is rewritten -/
theorem MAcct.replace (A B : List (SlabID × β)) (id : SlabID) (x x' : β)
    (hnd : (AList.keys (A ++ (id, x) :: B)).Nodup)
    (hold : ∀ j ∈ AList.keys (A ++ (id, x) :: B), Old a c j) :
    MAcct a c c (A ++ (id, x) :: B) (A ++ (id, x') :: B) [.store id] [] := by
  have h0 : MAcct a c c [(id, x)] [(id, x')] [.store id] ([] : List SlabID) := by
    refine MAcct.of_stores (Nat.le_refl _) (by simp) ?_ ?_ ?_
    · intro j; simp [AList.keys]
    · intro j; simp [AList.keys]
    · intro j; left; simp [kc_cons]
  have := h0.frame_mid A B (by
    intro j hj
    refine ⟨?_, hold j (by
      simp only [keys_append, keys_cons', List.mem_append, List.mem_cons] at hj ⊢
      rcases hj with h | h
      · exact Or.inl h
      · exact Or.inr (Or.inr h))⟩
    simp only [AList.keys, List.map_cons, List.map_nil, List.mem_singleton]
    intro he; subst he
    rw [nodup_keys_iff] at hnd
    have h1 := hnd j
    rw [kc_append, kc_cons, if_pos rfl] at h1
    have h2 : 0 < kc j A + kc j B := by
      rcases List.mem_append.1 hj with h | h
      · have := (kc_pos_iff j A).2 h; omega
      · have := (kc_pos_iff j B).2 h; omega
    omega)
  simpa using this

/-- a slab with a fresh ID is added -/
theorem MAcct.add (A B : List (SlabID × β)) (x : β)
    (hold : ∀ j ∈ AList.keys (A ++ B), Old a c j) :
    MAcct a c (c + 1) (A ++ B) (A ++ (⟨a, c + 1⟩, x) :: B)
      [.alloc a ⟨a, c + 1⟩, .store ⟨a, c + 1⟩] [] := by
  have h0 : MAcct a c (c + 1) ([] : List (SlabID × β)) [(⟨a, c + 1⟩, x)]
      [.alloc a ⟨a, c + 1⟩, .store ⟨a, c + 1⟩] ([] : List SlabID) := by
    refine MAcct.of_stores (by simp) (by simp) ?_ ?_ ?_
    · intro j; simp [AList.keys]
    · intro j; simp [AList.keys]
    · intro j
      rw [kc_cons]
      split
      · rename_i he
        simp only at he
        subst he
        right; exact ⟨fresh_next a c, by simp⟩
      · left; simp
  have := h0.frame_mid A B (by
    intro j hj
    refine ⟨by simp [AList.keys], hold j (by rw [keys_append]; exact hj)⟩)
  simpa using this

/-- a slab is stored one last time and removed -/
theorem MAcct.drop (A B : List (SlabID × β)) (id : SlabID) (x : β)
    (hnd : (AList.keys (A ++ (id, x) :: B)).Nodup)
    (hold : ∀ j ∈ AList.keys (A ++ (id, x) :: B), Old a c j) :
    MAcct a c c (A ++ (id, x) :: B) (A ++ B) [.store id, .remove id] [] := by
  have hla : ∀ j, lastAction [Eff.store id, .remove id] j = if id = j then some false else none := by
    intro j
    rw [lastAction_pair]
    simp only [actStep]
    split <;> rfl
  have h0 : MAcct a c c [(id, x)] ([] : List (SlabID × β)) [.store id, .remove id] ([] : List SlabID) := by
    refine MAcct.basic (Nat.le_refl _) (by simp) ?_ ?_ ?_ (fun j => Or.inl (by simp))
    · intro j hj _
      simp only [AList.keys, List.map_cons, List.map_nil, List.mem_singleton] at hj
      subst hj
      rw [hla, if_pos rfl]
    · intro j hj
      rw [hla] at hj
      split at hj <;> cases hj
    · intro j hj
      rw [hla] at hj
      split at hj
      · rename_i he; subst he; simp [AList.keys]
      · cases hj
  have := h0.frame_mid A B (by
    intro j hj
    refine ⟨?_, hold j (by
      simp only [keys_append, keys_cons', List.mem_append, List.mem_cons] at hj ⊢
      rcases hj with h | h
      · exact Or.inl h
      · exact Or.inr (Or.inr h))⟩
    simp only [AList.keys, List.map_cons, List.map_nil, List.mem_singleton]
    intro he; subst he
    rw [nodup_keys_iff] at hnd
    have h1 := hnd j
    rw [kc_append, kc_cons, if_pos rfl] at h1
    have h2 : 0 < kc j A + kc j B := by
      rcases List.mem_append.1 hj with h | h
      · have := (kc_pos_iff j A).2 h; omega
      · have := (kc_pos_iff j B).2 h; omega
    omega)
  simpa using this

/-- the content of the slabs is mapped -/
theorem MAcct.map {γ : Type} {c' : Nat} {S S' : List (SlabID × β)} {E : List Eff} {cr : List SlabID}
    (h : MAcct a c c' S S' E cr) (f : β → γ) :
    MAcct a c c' (S.map (fun p => (p.1, f p.2))) (S'.map (fun p => (p.1, f p.2))) E cr := by
  have hk : ∀ (L : List (SlabID × β)), AList.keys (L.map (fun p => (p.1, f p.2))) = AList.keys L := by
    intro L; simp [AList.keys]
  have hc : ∀ (L : List (SlabID × β)) id, kc id (L.map (fun p => (p.1, f p.2))) = kc id L := by
    intro L id
    induction L with
    | nil => rfl
    | cons p L ih => rw [List.map_cons, kc_cons, kc_cons, ih]
  refine ⟨h.le, ?_, ?_, ?_, ?_, ?_, h.fresh, ?_⟩
  · intro p hp
    obtain ⟨q, hq, rfl⟩ := List.mem_map.1 hp
    rcases h.kept q hq with h1 | h1
    · exact Or.inl (List.mem_map.2 ⟨q, h1, rfl⟩)
    · exact Or.inr h1
  · intro id h1 h2; rw [hk] at h1 h2; exact h.gone id h1 h2
  · intro id h1; rw [hk]; exact h.stored id h1
  · intro id h1; rw [hk]; exact h.removed id h1
  · intro id h1; rw [hk]; exact h.foot id h1
  · intro id; rw [hc, hc]; exact h.cnt id

/-- a `ValStep` followed by an accounted step -/
theorem ValStep.then_acct {a : Nat} {c c1 c' : Ctx} {S S' : List (SlabID × β)} {E2 : List Eff}
    (hv : ValStep a c c1) (hlog : MLog a c1 c' E2 [])
    (hold : ∀ j ∈ AList.keys S, Old a c.ctr j)
    (hacct : (∀ j ∈ AList.keys S, Old a c1.ctr j) → MAcct a c1.ctr c'.ctr S S' E2 []) :
    ∃ E C, MLog a c c' E C ∧ MAcct a c.ctr c'.ctr S S' E (C.map (·.1)) := by
  obtain ⟨E1, C1, hl1, ha1⟩ := hv.acct
  have h1 := ha1 β S
  have h2 := hacct (h1.old hold)
  refine ⟨E1 ++ E2, C1, by simpa using hl1.trans hlog, ?_⟩
  simpa using h1.trans h2 hold

end steps

/-! ### external collision groups of a list of first-level elements -/

section grp
variable {α : Type}

/-- the external collision-group slabs referenced from a list of elements -/
def grp (l : List (MElemF α)) : List (SlabID × GroupSlab α) :=
  l.filterMap (fun el => match el with | .ext id _ s => some (id, s) | _ => none)

theorem grp_append (A B : List (MElemF α)) : grp (A ++ B) = grp A ++ grp B := by
  simp [grp, List.filterMap_append]

@[simp] theorem grp_nil : grp ([] : List (MElemF α)) = [] := rfl
theorem grp_cons_single (x : SElem) (l : List (MElemF α)) : grp (.single x :: l) = grp l := by simp [grp]
theorem grp_cons_inl (g : α) (l : List (MElemF α)) : grp (.inl g :: l) = grp l := by simp [grp]
theorem grp_cons_ext (id : SlabID) (sz : Nat) (s : GroupSlab α) (l : List (MElemF α)) :
    grp (.ext id sz s :: l) = (id, s) :: grp l := by simp [grp]

theorem grp_insertIdx_single (l : List (MElemF α)) (x : SElem) : ∀ idx, grp (l.insertIdx idx (.single x)) = grp l := by
  induction l with
  | nil =>
    intro idx
    cases idx with
    | zero => simp [grp]
    | succ n => simp [grp]
  | cons e l ih =>
    intro idx
    cases idx with
    | zero => rw [List.insertIdx_zero, grp_cons_single]
    | succ n =>
      rw [List.insertIdx_succ_cons]
      have := ih n
      simp only [grp, List.filterMap_cons] at this ⊢
      rw [this]

/-- an element that is not an external group -/
def MElemF.noGrp : MElemF α → Prop
  | .ext _ _ _ => False
  | _ => True

theorem grp_mid_noGrp (A B : List (MElemF α)) (el : MElemF α) (h : el.noGrp) : grp (A ++ el :: B) = grp A ++ grp B := by
  rw [grp_append]
  cases el with
  | single x => rw [grp_cons_single]
  | inl g => rw [grp_cons_inl]
  | ext _ _ _ => exact absurd h (by simp [MElemF.noGrp])

theorem grp_mid_single (A B : List (MElemF α)) (x : SElem) : grp (A ++ .single x :: B) = grp A ++ grp B :=
  grp_mid_noGrp A B _ trivial

theorem grp_mid_inl (A B : List (MElemF α)) (g : α) : grp (A ++ .inl g :: B) = grp A ++ grp B :=
  grp_mid_noGrp A B _ trivial

theorem grp_mid_ext (A B : List (MElemF α)) (id : SlabID) (sz : Nat) (s : GroupSlab α) :
    grp (A ++ .ext id sz s :: B) = grp A ++ (id, s) :: grp B := by
  rw [grp_append, grp_cons_ext]

/-- a first-level element: the ID of an external group is the ID of its slab, and nothing below
    is external -/
def FirstOk (P : α → Prop) : MElemF α → Prop
  | .single _ => True
  | .inl g => P g
  | .ext id _ s => s.hdr.id = id ∧ P s.elems

end grp

/-! ### `set` and `remove` at the first level -/

section level0
variable {α : Type} {o : ElemsOps α} {cfg : MCfg} {P : α → Prop}

theorem set0_acct (hE : OpsEff cfg o P) {he : HkeyElems α} (hF : ∀ el ∈ he.elems, FirstOk P el)
    {k : MKey} {v : Elem} {c : Ctx} {res : MKey × Option Elem × HkeyElems α × Ctx}
    (hnd : (AList.keys (grp he.elems)).Nodup)
    (hold : ∀ id ∈ AList.keys (grp he.elems), Old cfg.addr c.ctr id)
    (h : HkeyElems.set o cfg he 0 k v c = .ok res) :
    ∃ E C, MLog cfg.addr c res.2.2.2 E C ∧
      MAcct cfg.addr c.ctr res.2.2.2.ctr (grp he.elems) (grp res.2.2.1.elems) E (C.map (·.1)) := by
  rcases hkey_set_inv h with ⟨idx, hk, hres⟩ | ⟨i, el, el', ks, old, c', hel, hs, helems, hc⟩
  · have hv := insertNew_valStep cfg he idx hk k v c
    obtain ⟨E, C, hl, ha⟩ := hv.acct
    have hg : grp res.2.2.1.elems = grp he.elems := by
      rw [hres]; simp only [HkeyElems.insertNew]; exact grp_insertIdx_single _ _ _
    rw [hg, hres]
    exact ⟨E, C, hl, ha _ _⟩
  · obtain ⟨A, B, hAB, hlen⟩ := split_at_getElem? hel
    have hFel := hF el (List.mem_of_getElem? hel)
    rw [helems, hc, hAB, set_mid hlen]
    rw [hAB] at hnd hold
    rcases elem_set_inv hs with ⟨x, x', rfl, rfl, hv⟩ | ⟨g, hg, hin⟩ | ⟨id, sz, s, elems', c1, rfl, hset, rfl, rfl⟩
    · obtain ⟨E, C, hl, ha⟩ := hv.acct
      rw [grp_mid_single, grp_mid_single]
      exact ⟨E, C, hl, ha _ _⟩
    · have hPg : P g ∧ el.noGrp := by
        rcases hg with ⟨x, rfl, hn⟩ | rfl
        · exact ⟨hE.newWith hn, trivial⟩
        · exact ⟨hFel, trivial⟩
      obtain ⟨g', c1, hset, hcase⟩ := inlSet_inv hin
      have hv := hE.set hPg.1 (Nat.le_refl 1) hset
      rw [grp_mid_noGrp A B el hPg.2] at hnd hold ⊢
      rcases hcase with ⟨rfl, rfl⟩ | ⟨_, sz, slab, rfl, rfl⟩
      · obtain ⟨E, C, hl, ha⟩ := hv.acct
        rw [grp_mid_inl]
        exact ⟨E, C, hl, ha _ _⟩
      · rw [grp_mid_ext]
        refine hv.then_acct (E2 := [.alloc cfg.addr ⟨cfg.addr, c1.ctr + 1⟩, .store ⟨cfg.addr, c1.ctr + 1⟩])
          ?_ (by rw [← grp_append] at hold ⊢; exact hold) ?_
        · have := (MLog.alloc cfg.addr c1).trans (MLog.store cfg.addr (c1.alloc cfg.addr).2 (c1.alloc cfg.addr).1)
          simpa [Ctx.alloc] using this
        · intro hold1
          have := MAcct.add (a := cfg.addr) (c := c1.ctr) (grp A) (grp B) slab hold1
          simpa [Ctx.alloc, Ctx.emit] using this
    · have hid : s.hdr.id = id := hFel.1
      have hv := hE.set hFel.2 (Nat.le_refl 1) hset
      rw [grp_mid_ext] at hnd hold ⊢
      rw [grp_mid_ext, hid]
      refine hv.then_acct (E2 := [.store id]) (MLog.store _ _ _) hold ?_
      intro hold1
      exact MAcct.replace (grp A) (grp B) id s _ hnd hold1

theorem remove0_acct (hE : OpsEff cfg o P) {he : HkeyElems α} (hF : ∀ el ∈ he.elems, FirstOk P el)
    {k : MKey} {c : Ctx} {res : MKey × Elem × HkeyElems α × Ctx}
    (hnd : (AList.keys (grp he.elems)).Nodup)
    (hold : ∀ id ∈ AList.keys (grp he.elems), Old cfg.addr c.ctr id)
    (h : HkeyElems.remove o cfg he 0 k c = .ok res) :
    ∃ E, MLog cfg.addr c res.2.2.2 E [] ∧
      MAcct cfg.addr c.ctr res.2.2.2.ctr (grp he.elems) (grp res.2.2.1.elems) E [] := by
  obtain ⟨i, el, el', c', hel, hr, helems, hc⟩ := hkey_remove_inv h
  obtain ⟨A, B, hAB, hlen⟩ := split_at_getElem? hel
  have hFel := hF el (List.mem_of_getElem? hel)
  rw [helems, hc, hAB]
  rw [hAB] at hnd hold
  rcases elem_remove_inv hr with ⟨x, rfl, rfl, rfl⟩ | ⟨g, g', c1, rfl, hrem, hcc, hcase⟩ |
      ⟨id, sz, s, elems', c1, rfl, hrem, hcase⟩
  · simp only
    rw [eraseIdx_mid hlen, grp_mid_single, grp_append]
    exact ⟨[], MLog.refl _ _, MAcct.refl _ _ _⟩
  · have hc1 : c1 = c := hE.remove hFel hrem
    subst hc1
    subst hcc
    rcases hcase with ⟨x, rfl⟩ | rfl
    · simp only
      rw [set_mid hlen, grp_mid_inl, grp_mid_single]
      exact ⟨[], MLog.refl _ _, MAcct.refl _ _ _⟩
    · simp only
      rw [set_mid hlen, grp_mid_inl, grp_mid_inl]
      exact ⟨[], MLog.refl _ _, MAcct.refl _ _ _⟩
  · have hid : s.hdr.id = id := hFel.1
    have hc1 : c1 = c := hE.remove hFel.2 hrem
    subst hc1
    rw [grp_mid_ext] at hnd hold ⊢
    rcases hcase with ⟨⟨x, rfl⟩, rfl⟩ | ⟨rfl, rfl⟩
    · simp only
      rw [set_mid hlen, grp_mid_single, hid]
      refine ⟨[.store id, .remove id], ?_, ?_⟩
      · have := (MLog.store cfg.addr c1 id).trans (MLog.remove cfg.addr (c1.emit (.store id)) id)
        simpa using this
      · exact MAcct.drop (grp A) (grp B) id s hnd hold
    · simp only
      rw [set_mid hlen, grp_mid_ext, hid]
      exact ⟨[.store id], MLog.store _ _ _, MAcct.replace (grp A) (grp B) id s _ hnd hold⟩

end level0

end Atree
