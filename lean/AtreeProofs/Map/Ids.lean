import AtreeProofs.MapIds
import AtreeProofs.E2EMap.History
import AtreeProofs.Iter.MapTop
/-
  Helper lemmas for `MapIdsOk` (AtreeProofs/MapIds.lean): what it implies (`MIdsOk`, `MAddrOk`,
  `CtxOk`, `leafIdsOk`, defined-ness) and its preservation by every map operation, from the
  effect accounts `MAcct` of AtreeProofs/Map/Effects*.lean.
-/
namespace Atree
open Gen

variable {r : Nat} {T : Nat} {D : DigestFn (r + 1)}

theorem OMap.slabIds_eq_keys (m : OMap r) : m.slabIds = AList.keys (MTree.slabs m.d m.root) :=
  (keys_mslabs m.d m.root).symm

theorem OMap.rootID_mem_slabIds (m : OMap r) : m.rootID ∈ m.slabIds := by
  rw [OMap.slabIds_eq_keys]; exact hdr_id_mem_keys m.d m.root

instance (m : OMap r) (ctr : Nat) : Decidable (MapIdsOk m ctr) := by
  unfold MapIdsOk IdsOk; infer_instance

namespace MapIdsOk

theorem ctxOk {m : OMap r} {c : Ctx} (h : MapIdsOk m c.ctr) : CtxOk m c :=
  fun id hid _ => (h.2 id hid).2.2

theorem mIdsOk {m : OMap r} {ctr : Nat} (h : MapIdsOk m ctr) : MIdsOk m := by
  have := h.1
  rw [OMap.slabIds_eq_keys] at this
  exact this

theorem mAddrOk {m : OMap r} {ctr : Nat} (h : MapIdsOk m ctr) : E2EM.MAddrOk m := by
  intro id hid
  rw [← OMap.slabIds_eq_keys] at hid
  exact (h.2 id hid).1

theorem ne_undef {m : OMap r} {ctr : Nat} (h : MapIdsOk m ctr) : ∀ id ∈ m.slabIds, id ≠ SlabID.undef := by
  intro id hid he
  have := (h.2 id hid).2.1
  rw [he] at this
  exact absurd this (by decide)

theorem mono {m : OMap r} {c c' : Nat} (h : MapIdsOk m c) (hle : c ≤ c') : MapIdsOk m c' :=
  ⟨h.1, fun id hid => ⟨(h.2 id hid).1, (h.2 id hid).2.1, Nat.le_trans (h.2 id hid).2.2 hle⟩⟩

end MapIdsOk

/-! ### the identifiers of the data slabs are a sublist of all identifiers -/

theorem flatMap_sublist_flatMap {α β : Type} (f g : α → List β) :
    ∀ (l : List α), (∀ x ∈ l, (f x).Sublist (g x)) → (l.flatMap f).Sublist (l.flatMap g)
  | [], _ => by simp
  | x :: l, h => by
    simp only [List.flatMap_cons]
    exact List.Sublist.append (h x (by simp)) (flatMap_sublist_flatMap f g l (fun y hy => h y (by simp [hy])))

theorem leafIds_sublist : ∀ (d : Nat) (t : MTree r d),
    ((MTree.dataSlabs d t).map (·.hdr.id)).Sublist (CtxOk.mapSlabIds d t)
  | 0, t => by
    refine IterM.forall_ofD ?_ t; intro s
    rw [IterM.dataSlabs_zero]
    show [s.hdr.id].Sublist (CtxOk.mapSlabIds 0 s)
    rw [mapSlabIds_zero]
    exact List.Sublist.cons_cons _ (List.nil_sublist _)
  | d + 1, t => by
    refine IterM.forall_ofM ?_ t; intro m
    rw [IterM.dataSlabs_succ]
    show List.Sublist _ (CtxOk.mapSlabIds (d + 1) m)
    rw [mapSlabIds_succ, List.map_flatMap]
    exact List.Sublist.cons _ (flatMap_sublist_flatMap _ _ _ (fun c _ => leafIds_sublist d c))

theorem MapIdsOk.leafIdsOk {m : OMap r} {ctr : Nat} (h : MapIdsOk m ctr) : m.leafIdsOk = true := by
  rw [IterM.leafIdsOk_iff]
  have hsub := leafIds_sublist m.d m.root
  refine ⟨hsub.nodup h.1, ?_⟩
  intro s hs
  exact h.ne_undef _ (hsub.subset (List.mem_map_of_mem hs))

/-! ### preservation, from an effect account -/

theorem mapIdsOk_of_acct {m m' : OMap r} {c c' : Nat} {E : List Eff} {cr : List SlabID}
    (hacct : MAcct m.addr c c' (MTree.slabs m.d m.root) (MTree.slabs m'.d m'.root) E cr)
    (h : MapIdsOk m c) (hrid : m'.rootID = m.rootID) : MapIdsOk m' c' := by
  have haddr : m'.addr = m.addr := by unfold OMap.addr; rw [hrid]
  refine ⟨?_, ?_⟩
  · rw [OMap.slabIds_eq_keys]
    exact hacct.nodup h.mIdsOk
  · intro id hid
    rw [OMap.slabIds_eq_keys] at hid
    rw [haddr]
    rcases hacct.keys_new id hid with h1 | h1
    · rw [← OMap.slabIds_eq_keys] at h1
      obtain ⟨a1, a2, a3⟩ := h.2 id h1
      exact ⟨a1, a2, Nat.le_trans a3 hacct.le⟩
    · exact ⟨h1.1, by have := h1.2.1; omega, h1.2.2⟩

theorem mapIdsOk_set (hT : legalThreshold T = true) {cfg : MCfg} {m : OMap r} (hcfg : CfgOk cfg T m)
    (h : MapInv T D m) {k : MKey} (hk : KeyOk T (r + 1) D k) {v : Elem} (hv : ValueOkM v) (c : Ctx)
    (hids : MapIdsOk m c.ctr) {old : Option Elem} {m' : OMap r} {c' : Ctx}
    (hr : m.set cfg k v c = .ok (old, m', c')) :
    MapIdsOk m' c'.ctr ∧ m'.rootID = m.rootID ∧ c.ctr ≤ c'.ctr := by
  obtain ⟨E, C, _, hacct, _, hrid⟩ := omap_set_acct hT hcfg h hk hv c hids.ctxOk hids.mIdsOk hr
  exact ⟨mapIdsOk_of_acct hacct hids hrid, hrid, hacct.le⟩

theorem mapIdsOk_remove (hT : legalThreshold T = true) {cfg : MCfg} {m : OMap r} (hcfg : CfgOk cfg T m)
    (h : MapInv T D m) {k : MKey} (hk : KeyOk T (r + 1) D k) (c : Ctx)
    (hids : MapIdsOk m c.ctr) {k0 : MKey} {v0 : Elem} {m' : OMap r} {c' : Ctx}
    (hr : m.remove cfg k c = .ok (k0, v0, m', c')) :
    MapIdsOk m' c'.ctr ∧ m'.rootID = m.rootID ∧ c.ctr ≤ c'.ctr := by
  obtain ⟨E, C, _, hacct, _, hrid⟩ := omap_remove_acct hT hcfg h hk c hids.ctxOk hids.mIdsOk hr
  exact ⟨mapIdsOk_of_acct hacct hids hrid, hrid, hacct.le⟩

theorem slabIds_pop (m : OMap r) (c : Ctx) : (m.popIterate c).2.1.slabIds = [m.rootID] := by
  rw [OMap.slabIds_eq_keys]; rfl

theorem mapIdsOk_pop {m : OMap r} (c : Ctx) (hids : MapIdsOk m c.ctr) :
    MapIdsOk (m.popIterate c).2.1 (m.popIterate c).2.2.ctr ∧ (m.popIterate c).2.1.rootID = m.rootID ∧
      (m.popIterate c).2.2.ctr = c.ctr := by
  have hrid : (m.popIterate c).2.1.rootID = m.rootID := rfl
  have hctr := (E2EM.omap_popKeep m c).1
  refine ⟨⟨by rw [slabIds_pop]; simp, ?_⟩, hrid, hctr⟩
  intro id hid
  rw [slabIds_pop, List.mem_singleton] at hid
  subst hid
  have haddr : (m.popIterate c).2.1.addr = m.addr := by unfold OMap.addr; rw [hrid]
  rw [haddr, hctr]
  exact hids.2 _ m.rootID_mem_slabIds

theorem mapIdsOk_setType {m : OMap r} (ty : Nat) (c : Ctx) (hids : MapIdsOk m c.ctr) :
    MapIdsOk (m.setType ty c).1 (m.setType ty c).2.ctr ∧ (m.setType ty c).1.rootID = m.rootID ∧
      (m.setType ty c).2.ctr = c.ctr := by
  have hctr : (m.setType ty c).2.ctr = c.ctr := by
    unfold OMap.setType; split <;> rfl
  refine ⟨?_, rfl, hctr⟩
  rw [hctr]
  exact hids

theorem mapIdsOk_new (addr ty : Nat) (seedOf : SlabID → Nat) (c : Ctx) :
    MapIdsOk (OMap.new (r := r) addr ty seedOf c).1 (OMap.new (r := r) addr ty seedOf c).2.ctr ∧
      (OMap.new (r := r) addr ty seedOf c).1.rootID = ⟨addr, c.ctr + 1⟩ ∧
      (OMap.new (r := r) addr ty seedOf c).2.ctr = c.ctr + 1 := by
  have hids : (OMap.new (r := r) addr ty seedOf c).1.slabIds = [⟨addr, c.ctr + 1⟩] := by
    rw [OMap.slabIds_eq_keys]; rfl
  refine ⟨⟨by rw [hids]; simp, ?_⟩, rfl, rfl⟩
  intro id hid
  rw [hids, List.mem_singleton] at hid
  subst hid
  exact ⟨rfl, by simp, Nat.le_refl _⟩

/-- `SetType` keeps the map invariant (only the type information changes) -/
theorem mapInv_setType {m : OMap r} (h : MapInv T D m) (ty : Nat) (c : Ctx) :
    MapInv T D (m.setType ty c).1 ∧ (m.setType ty c).1.toList = m.toList ∧
      (m.setType ty c).1.count = m.count ∧ (m.setType ty c).1.ty = ty ∧ (m.setType ty c).1.seed = m.seed := by
  refine ⟨⟨h.tree, h.chain, h.count_eq, h.distinct, ?_⟩, rfl, rfl, rfl, rfl⟩
  have := h.standalone
  obtain ⟨d, root, ty0, cnt, seed⟩ := m
  cases d <;> exact this

end Atree
