import AtreeProofs.Map.Dict
/-
  The reference dictionary of C02's history theorem: an association list with the three textbook
  operations (`dictLookup` of MapInv.lean, `dictSet`, `dictErase`) and their laws.  Nothing here
  mentions slabs, digests or sizes.
-/
namespace Atree
open Gen

/-- bind `k` to `v`: overwrite the pair whose key equals `k` under the comparator, otherwise add a
    new pair at the end -/
def dictSet (l : List (MKey × Elem)) (k : MKey) (v : Elem) : List (MKey × Elem) :=
  if (dictLookup l k).isSome then l.map (fun p => if p.1.same k then (p.1, v) else p) else l ++ [(k, v)]

/-- drop the pair(s) whose key equals `k` under the comparator -/
def dictErase (l : List (MKey × Elem)) (k : MKey) : List (MKey × Elem) :=
  l.filter (fun p => !p.1.same k)

theorem MKey.same_trans {a b c : MKey} (h1 : a.same b = true) (h2 : b.same c = true) : a.same c = true := by
  simp only [MKey.same, Bool.and_eq_true, beq_iff_eq] at *
  exact ⟨h1.1.trans h2.1, h1.2.trans h2.2⟩

theorem MKey.same_congr_right {a b c : MKey} (h : b.same c = true) : a.same b = a.same c := by
  cases h1 : a.same b <;> cases h2 : a.same c <;> try rfl
  · have := MKey.same_trans h2 (by rw [MKey.same_comm]; exact h)
    rw [h1] at this; cases this
  · have := MKey.same_trans h1 h
    rw [h2] at this; cases this

theorem dictLookup_append (A B : List (MKey × Elem)) (k : MKey) :
    dictLookup (A ++ B) k = (dictLookup A k).or (dictLookup B k) := by
  induction A with
  | nil => simp [dictLookup_nil]
  | cons p A ih =>
    rw [List.cons_append, dictLookup_cons, dictLookup_cons]
    cases p.1.same k <;> simp [ih]

theorem dictLookup_map_replace (l : List (MKey × Elem)) (k k' : MKey) (v : Elem) :
    dictLookup (l.map (fun p => if p.1.same k then (p.1, v) else p)) k' =
      if k'.same k then (dictLookup l k').map (fun _ => v) else dictLookup l k' := by
  induction l with
  | nil => simp [dictLookup_nil]
  | cons p l ih =>
    rw [List.map_cons, dictLookup_cons, dictLookup_cons, ih]
    cases hk : p.1.same k
    · simp only [Bool.false_eq_true, if_false]
      cases hk' : p.1.same k'
      · simp
      · simp only [if_true]
        have : k'.same k = false := by
          cases h : k'.same k
          · rfl
          · have := MKey.same_trans hk' h; rw [hk] at this; cases this
        simp [this]
    · simp only [if_true]
      cases hk' : p.1.same k'
      · simp
      · have : k'.same k = true := MKey.same_trans (by rw [MKey.same_comm]; exact hk') hk
        simp [this]

theorem dictLookup_dictSet (l : List (MKey × Elem)) (k k' : MKey) (v : Elem) :
    dictLookup (dictSet l k v) k' = if k'.same k then some v else dictLookup l k' := by
  unfold dictSet
  cases hl : dictLookup l k with
  | none =>
    simp only [Option.isSome_none, Bool.false_eq_true, if_false]
    rw [dictLookup_append, dictLookup_cons, dictLookup_nil]
    cases hs : k'.same k
    · have : k.same k' = false := by rw [MKey.same_comm]; exact hs
      simp [this]
    · have h1 : k.same k' = true := by rw [MKey.same_comm]; exact hs
      have h2 : dictLookup l k' = none := by
        unfold dictLookup at hl ⊢
        rw [Option.map_eq_none_iff, List.find?_eq_none] at hl ⊢
        intro p hp
        rw [MKey.same_congr_right hs]
        exact hl p hp
      simp [h1, h2]
  | some w =>
    simp only [Option.isSome_some, if_true]
    rw [dictLookup_map_replace]
    cases hs : k'.same k
    · simp
    · simp only [if_true]
      have : dictLookup l k' = some w := by
        unfold dictLookup at hl ⊢
        have : (fun p : MKey × Elem => p.1.same k') = (fun p => p.1.same k) := by
          funext p; exact MKey.same_congr_right hs
        rw [this]; exact hl
      rw [this]; rfl

theorem length_dictSet (l : List (MKey × Elem)) (k : MKey) (v : Elem) :
    (dictSet l k v).length = if (dictLookup l k).isSome then l.length else l.length + 1 := by
  unfold dictSet
  split <;> simp

theorem dictLookup_dictErase (l : List (MKey × Elem)) (k k' : MKey) :
    dictLookup (dictErase l k) k' = if k'.same k then none else dictLookup l k' := by
  unfold dictErase
  induction l with
  | nil => simp [dictLookup_nil]
  | cons p l ih =>
    rw [List.filter_cons]
    cases hk : p.1.same k
    · simp only [Bool.not_false, if_true]
      rw [dictLookup_cons, dictLookup_cons, ih]
      cases hk' : p.1.same k'
      · simp
      · have : k'.same k = false := by
          cases h : k'.same k
          · rfl
          · have := MKey.same_trans hk' h; rw [hk] at this; cases this
        simp [this]
    · simp only [Bool.not_true, Bool.false_eq_true, if_false]
      rw [ih, dictLookup_cons]
      cases hk' : p.1.same k'
      · simp
      · have : k'.same k = true := MKey.same_trans (by rw [MKey.same_comm]; exact hk') hk
        simp [this]

theorem length_dictErase {l : List (MKey × Elem)} {k : MKey} {v : Elem} (hd : KeysDistinct l)
    (h : dictLookup l k = some v) : (dictErase l k).length + 1 = l.length := by
  unfold dictErase
  induction l with
  | nil => simp [dictLookup_nil] at h
  | cons p l ih =>
    rw [KeysDistinct.cons_iff] at hd
    rw [dictLookup_cons] at h
    rw [List.filter_cons]
    cases hk : p.1.same k
    · rw [hk] at h
      simp only [Bool.false_eq_true, if_false] at h
      simp only [Bool.not_false, if_true, List.length_cons]
      have := ih hd.2 h
      omega
    · simp only [Bool.not_true, Bool.false_eq_true, if_false, List.length_cons]
      have : l.filter (fun q => !q.1.same k) = l := by
        rw [List.filter_eq_self]
        intro q hq
        have h1 := hd.1 q hq
        have : q.1.same k = false := by
          cases h2 : q.1.same k
          · rfl
          · have := MKey.same_trans hk (by rw [MKey.same_comm]; exact h2)
            rw [h1] at this; cases this
        simp [this]
      rw [this]

section
variable {T L : Nat} {D : DigestFn L}

theorem allKeyOk_dictSet {l : List (MKey × Elem)} {k : MKey} {v : Elem} (hl : AllKeyOk T L D l)
    (hk : KeyOk T L D k) : AllKeyOk T L D (dictSet l k v) := by
  unfold dictSet
  split
  · intro p hp
    obtain ⟨q, hq, rfl⟩ := List.mem_map.mp hp
    split <;> exact hl q hq
  · intro p hp
    rcases List.mem_append.mp hp with hp | hp
    · exact hl p hp
    · simp only [List.mem_singleton] at hp; subst hp; exact hk

theorem keysDistinct_dictSet {l : List (MKey × Elem)} {k : MKey} {v : Elem} (hd : KeysDistinct l) :
    KeysDistinct (dictSet l k v) := by
  unfold dictSet
  split
  · unfold KeysDistinct at hd ⊢
    rw [List.pairwise_map]
    refine hd.imp ?_
    intro a b hab
    split <;> split <;> exact hab
  · rename_i hno
    rw [KeysDistinct.append_iff]
    refine ⟨hd, List.pairwise_singleton _ _, ?_⟩
    intro a ha b hb
    simp only [List.mem_singleton] at hb; subst hb
    simp only [Option.not_isSome_iff_eq_none] at hno
    unfold dictLookup at hno
    rw [Option.map_eq_none_iff, List.find?_eq_none] at hno
    simpa using hno a ha

theorem allKeyOk_dictErase {l : List (MKey × Elem)} {k : MKey} (hl : AllKeyOk T L D l) :
    AllKeyOk T L D (dictErase l k) := fun p hp => hl p (List.mem_filter.mp hp).1

theorem keysDistinct_dictErase {l : List (MKey × Elem)} {k : MKey} (hd : KeysDistinct l) :
    KeysDistinct (dictErase l k) := List.Pairwise.filter _ hd

end

end Atree
