import AtreeProofs.E2EMapSpec
/-
  C13 — the SPECIFICATION side of "fully colliding keys are enumerated in insertion order".
  DEFINITIONS ONLY (theorems: `AtreeProofs/Props/C13Order.lean`, helper lemmas:
  `AtreeProofs/Map/InsertionOrderLemmas.lean`).

  The specification is a plain association list of keys, kept by somebody who sees only the requests
  and their outcomes – no digests, no slabs, no tree:

    * `Set` of a key that is not in the list APPENDS it (unless the request was refused: the only
      refusal of a `Set` is the collision limit, and the caller sees it as an error);
    * `Set` of a key that is in the list (an overwrite) keeps its position;
    * `Remove` deletes the key (so a later `Set` of the same key puts it at the END);
    * `PopIterate` clears the list; `SetType` changes nothing.

  Keys are compared with the caller-supplied comparator (`MKey.same`), as the library does.
-/
namespace Atree.C13
open Atree Gen E2EM

variable {r : Nat}

/-- what the caller observes of one request besides its result value: was it served?  (`Set`: refused
    only by the collision limit; `Remove`: refused when the key is absent; the other two always run.) -/
def served (cfg : MCfg) (st : OMap r × Ctx) : MOp → Bool
  | .set k v =>
    match st.1.set cfg k v st.2 with
    | .ok _ => true
    | .error _ => false
  | .remove k =>
    match st.1.remove cfg k st.2 with
    | .ok _ => true
    | .error _ => false
  | .popIterate => true
  | .setType _ => true

/-- the OBSERVED history of a run of `E2EM.runM`: every request with its served/refused flag -/
def observe (cfg : MCfg) (st : OMap r × Ctx) : List MOp → List (MOp × Bool)
  | [] => []
  | op :: ops => (op, served cfg st op) :: observe cfg (stepM cfg st op) ops

/-- one observed request on the association list of keys -/
def orderStep (l : List MKey) (o : MOp × Bool) : List MKey :=
  match o.1 with
  | .set k _ => if l.any (fun k' => k'.same k) then l else if o.2 then l ++ [k] else l
  | .remove k => l.filter (fun k' => !k'.same k)
  | .popIterate => []
  | .setType _ => l

/-- the keys in the order of their (latest) insertion, after an observed history, starting from `l0` -/
def insertionOrderFrom (l0 : List MKey) (h : List (MOp × Bool)) : List MKey := h.foldl orderStep l0

/-- … starting from the empty map -/
def insertionOrderObs (h : List (MOp × Bool)) : List MKey := insertionOrderFrom [] h

/-- the same for a history in which no request was refused by the collision limit: a function of
    the requests alone -/
def insertionOrder (ops : List MOp) : List MKey := insertionOrderObs (ops.map (fun op => (op, true)))

/-- `a` comes before or with `b` in the canonical order: lexicographic order of the digest vectors -/
def digLe (a b : MKey) : Bool := decide (a.digs ≤ b.digs)

/-- the key sequence `K` (of the map) and the association list `l` (of the specification) agree on
    every class of fully colliding keys: same keys, same order -/
def SameCollisionOrder (K l : List MKey) : Prop :=
  ∀ d : List Nat, K.filter (fun k => k.digs == d) = l.filter (fun k => k.digs == d)

end Atree.C13
