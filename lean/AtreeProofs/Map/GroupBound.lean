import AtreeProofs.Map.Limit
import AtreeProofs.Map.HkeySpec
/-
  The count the collision-limit check looks at (`groupCount`: the number of entries of the
  first-level element below a digest) is at most the number of KEYS of the map that share that
  first-level digest.  So a refusal by the limit implies, in terms of the dictionary alone, that more
  than `climit` keys already share the first-level digest of the new key.
-/
namespace Atree
open Gen

variable {T : Nat} {r : Nat} {D : DigestFn (r + 1)}

theorem MElems.count_le_toList {L : Nat} (D : DigestFn L) : ∀ (r ℓ : Nat) (path : List Nat) (e : MElems r),
    ElemsInv T L D r ℓ path e → (MElems.ops r).count e ≤ ((MElems.ops r).toList e).length
  | 0, _, _, e, _ => by
    show e.elems.length ≤ (e.elems.map (fun x => (x.key, x.val))).length
    simp
  | r + 1, ℓ, path, e, h => by
    have H := (elemsInv_succ_iff T L D r ℓ path e).mp h
    exact H.length_le_toList (MElems.opsStruct T D r)

theorem sublist_flatMap_of_getElem? {α β : Type} {l : List α} {i : Nat} {a : α} (f : α → List β)
    (h : l[i]? = some a) : (f a).Sublist (l.flatMap f) := by
  rw [flatMap_split f h]
  exact (List.sublist_append_left _ _).trans (List.sublist_append_right _ _)

theorem leaf_pairs_sublist : ∀ (d : Nat) (t : MTree r d) (s : MDataSlab r), s ∈ MTree.leaves d t →
    s.pairs.Sublist (MTree.toList d t)
  | 0, t, s, hs => by
    have : s = t := List.mem_singleton.mp hs
    subst this; exact List.Sublist.refl _
  | d + 1, m, s, hs => by
    obtain ⟨c, hc, hsc⟩ := List.mem_flatMap.mp hs
    obtain ⟨i, hi⟩ := List.mem_iff_getElem?.mp hc
    exact (leaf_pairs_sublist d c s hsc).trans (sublist_flatMap_of_getElem? (MTree.toList d) hi)

/-- the keys of the map that share the first-level digest `hk` -/
def sameFirstDigest (l : List (MKey × Elem)) (hk : Nat) : Nat := l.countP (fun p => p.1.dig 0 == hk)

/-- the element count the limit check uses is bounded by the number of keys below that digest -/
theorem groupCount_le {d : Nat} {top : Bool} {t : MTree r d} (h : MTreeInv T D d top t) (hk : Nat) :
    groupCount d t hk ≤ sameFirstDigest (MTree.toList d t) hk := by
  unfold groupCount
  cases hg : groupAt d t hk with
  | none => exact Nat.zero_le _
  | some z =>
    obtain ⟨a, el⟩ := z
    simp only
    obtain ⟨s, hs, hf⟩ := List.exists_of_findSome?_eq_some hg
    have hz1 := List.find?_some hf
    have hz2 := List.mem_of_find?_eq_some hf
    simp only [beq_iff_eq] at hz1
    subst hz1
    obtain ⟨i, hi⟩ := List.mem_iff_getElem?.mp hz2
    obtain ⟨hi1, hi2⟩ := List.getElem?_zip_eq_some.mp hi
    obtain ⟨top', hloose⟩ := leaf_loose d top t h s hs
    have H := hloose.hinv
    have hEl := H.elemOk hi1 hi2
    -- the entries of the element are pairs of the map with that first-level digest
    have hkeys := H.keys_at (MElems.opsStruct T D r) hi1 hi2
    have hsub : (el.toList (MElems.ops r)).Sublist (MTree.toList d t) :=
      (sublist_flatMap_of_getElem? (MElemF.toList (MElems.ops r)) hi2).trans (leaf_pairs_sublist d t s hs)
    have hall : (el.toList (MElems.ops r)).countP (fun p => p.1.dig 0 == a) = (el.toList (MElems.ops r)).length := by
      rw [List.countP_eq_length]
      intro p hp
      simp only [beq_iff_eq]
      exact (hkeys p hp).2.2
    have hcnt : MElemF.count (MElems.ops r) el ≤ (el.toList (MElems.ops r)).length := by
      cases el with
      | single x => exact Nat.le_refl 1
      | inl g => exact MElems.count_le_toList D r _ _ g hEl.1
      | ext id sz sl => exact MElems.count_le_toList D r _ _ sl.elems hEl.2.2.2.2.2.1
    have := hsub.countP_le (p := fun p => p.1.dig 0 == a)
    unfold sameFirstDigest
    omega

end Atree
