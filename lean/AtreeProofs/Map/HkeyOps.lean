import AtreeProofs.Map.HkeyBasics
/-
  `HkeyElems.get / set / remove` under `HInv`.
-/
namespace Atree
open Gen

theorem sorted_ends {l : List Nat} (hs : l.Pairwise (· < ·)) {i a : Nat} (hi : l[i]? = some a) :
    ∃ first last, l.head? = some first ∧ l.getLast? = some last ∧ first ≤ a ∧ a ≤ last ∧
      l[0]? = some first ∧ l[l.length - 1]? = some last := by
  have hlt := lt_of_getElem?_eq_some hi
  have h0 : l[0]? = some l[0] := List.getElem?_eq_getElem (by omega)
  have hn : l[l.length - 1]? = some l[l.length - 1] := List.getElem?_eq_getElem (by omega)
  refine ⟨l[0], l[l.length - 1], by rw [List.head?_eq_getElem?, h0], by rw [List.getLast?_eq_getElem?, hn], ?_, ?_, h0, hn⟩
  · rcases Nat.eq_zero_or_pos i with h | h
    · subst h; rw [h0] at hi; cases hi; omega
    · have := sorted_get_lt hs h0 hi h; omega
  · rcases Nat.lt_or_ge i (l.length - 1) with h | h
    · have := sorted_get_lt hs hi hn h; omega
    · have : i = l.length - 1 := by omega
      subst this; rw [hn] at hi; cases hi; omega

namespace HInv
variable {T L : Nat} {D : DigestFn L} {cfg : MCfg} {α : Type} {o : ElemsOps α}
  {Inv : Nat → List Nat → α → Prop} {rr : Nat} {ℓ : Nat} {path : List Nat} {he : HkeyElems α}

theorem get (S : OpsSpec T L D cfg o Inv rr) (hc : CfgFor cfg T L) (H : HInv T L D o Inv rr ℓ path he)
    {k : MKey} (hkk : KeyOk T L D k) (hpath : k.digs.take ℓ = path) :
    (∀ v, (k, v) ∈ HkeyElems.toList o he → HkeyElems.get o cfg he ℓ k = .ok (k, v)) ∧
    ((∀ p ∈ HkeyElems.toList o he, p.1 ≠ k) → HkeyElems.get o cfg he ℓ k = .error .keyNotFound) := by
  have hlev : ¬ (ℓ ≥ cfg.L) := by rw [hc.hL]; have := H.level_lt; omega
  have hp1 : k.digs.take (ℓ + 1) = path ++ [k.dig ℓ] := by rw [hkk.take_succ H.level_lt, hpath]
  have hsp := HkeyElems.findEq_spec (k.dig ℓ) H.sorted
  cases hr : HkeyElems.findEq he.hkeys (k.dig ℓ) 0 he.hkeys.length (he.hkeys.length + 1) with
  | none =>
    rw [hr] at hsp
    have habs := H.absent_of_dig S hsp
    constructor
    · intro v hm; exact absurd rfl (habs _ hm)
    · intro _; simp only [HkeyElems.get, if_neg hlev, hr]
  | some i =>
    rw [hr] at hsp
    obtain ⟨el, hel⟩ := H.elem_at hsp
    obtain ⟨hloc, hP, hQ⟩ := H.locate S hsp hel
    have hg := (H.elemOk hsp hel).get S hc H.1 hkk hp1
    simp only [HkeyElems.get, if_neg hlev, hr, hel]
    constructor
    · intro v hm
      rw [hloc] at hm
      rcases List.mem_append.mp hm with hm | hm
      · exact absurd rfl (hP _ hm)
      · rcases List.mem_append.mp hm with hm | hm
        · exact hg.1 v hm
        · exact absurd rfl (hQ _ hm)
    · intro hne
      apply hg.2
      intro p hp
      apply hne
      rw [hloc]; exact List.mem_append_right _ (List.mem_append_left _ hp)

/-- postcondition of a successful `set` -/
def SetPost (T L : Nat) (D : DigestFn L) (o : ElemsOps α) (Inv : Nat → List Nat → α → Prop) (rr ℓ : Nat)
    (path : List Nat) (he : HkeyElems α) (k : MKey) (sv : Elem) (c : Ctx)
    (res : MKey × Option Elem × HkeyElems α × Ctx) : Prop :=
  res.1 = k ∧ HInv T L D o Inv rr ℓ path res.2.2.1 ∧
  SetEffect (HkeyElems.toList o he) (HkeyElems.toList o res.2.2.1) k sv res.2.1 ∧ c.ctr ≤ res.2.2.2.ctr ∧
  (∀ id ∈ extIds res.2.2.1.elems, id ∈ extIds he.elems ∨ id.idx ≤ res.2.2.2.ctr) ∧
  (∀ x ∈ res.2.2.1.hkeys, x ∈ he.hkeys ∨ x = k.dig ℓ) ∧ (∀ x ∈ he.hkeys, x ∈ res.2.2.1.hkeys) ∧
  k.dig ℓ ∈ res.2.2.1.hkeys ∧
  (ℓ = 0 → res.2.2.1.size ≤ he.size + (maxInlineMapElem T + digestSize) ∧
           he.size ≤ res.2.2.1.size + maxInlineMapElem T)

theorem insertNew_spec (S : OpsSpec T L D cfg o Inv rr) (hT : legalThreshold T = true) (hc : CfgFor cfg T L)
    (H : HInv T L D o Inv rr ℓ path he) {k : MKey} (hkk : KeyOk T L D k) (hpath : k.digs.take ℓ = path)
    {v : Elem} (hv : ValueOkM v) (c : Ctx) {q : Nat} (hq : q ≤ he.hkeys.length)
    (hlt : ∀ p a, p < q → he.hkeys[p]? = some a → a < k.dig ℓ)
    (hgt : ∀ p a, q ≤ p → he.hkeys[p]? = some a → k.dig ℓ < a) :
    SetPost T L D o Inv rr ℓ path he k (storedValue cfg k v c) c (HkeyElems.insertNew cfg he q (k.dig ℓ) k v c) := by
  have hp1 : k.digs.take (ℓ + 1) = path ++ [k.dig ℓ] := by rw [hkk.take_succ H.level_lt, hpath]
  rcases hts : toStorableLim (maxInlineMapValue cfg.T k.size) cfg.addr v c with ⟨vs, c1⟩
  have hsv : storedValue cfg k v c = vs := by simp [storedValue, hts]
  have hspec := toStorableLim_spec (lim := maxInlineMapValue cfg.T k.size) (addr := cfg.addr) c hv
    (by rw [hc.hT]; exact maxInlineMapValue_ge hT hkk.2.2)
  rw [hts, hc.hT] at hspec
  have hq' : q ≤ he.elems.length := by rw [← H.len_eq]; exact hq
  have hno : ∀ j : Nat, he.hkeys[j]? ≠ some (k.dig ℓ) := by
    intro j hj
    rcases Nat.lt_or_ge j q with h | h
    · have := hlt j _ h hj; omega
    · have := hgt j _ h hj; omega
  have habs := H.absent_of_dig S hno
  simp only [HkeyElems.insertNew, newSingleElement, hts, hsv, SetPost]
  refine ⟨trivial, ?_, ?_, hspec.2.2, ?_, ?_, ?_, ?_, ?_⟩
  · refine ⟨H.1, H.2.1, ?_, sorted_insertIdx H.sorted hq hlt hgt, ?_, ?_⟩
    · simp only [List.length_insertIdx, if_pos hq', H.len_eq]
    · simp only [HkeyElems.elemSizes]
      rw [sum_map_insertIdx _ hq', H.size_eq]
      simp only [HkeyElems.elemSizes, MElemF.size]; omega
    · intro j hk el hj hel
      rw [List.getElem?_insertIdx] at hj hel
      by_cases h1 : j < q
      · rw [if_pos h1] at hj hel; exact H.elemOk hj hel
      · rw [if_neg h1] at hj hel
        by_cases h2 : j = q
        · rw [if_pos h2] at hj hel
          rw [if_pos (by omega)] at hj hel
          cases hj; cases hel
          exact ⟨⟨hkk, hspec.1, hspec.2.1, rfl⟩, hp1⟩
        · rw [if_neg h2] at hj hel; exact H.elemOk hj hel
  · left
    refine ⟨rfl, habs, (he.elems.take q).flatMap (MElemF.toList o), (he.elems.drop q).flatMap (MElemF.toList o), ?_, ?_⟩
    · exact flatMap_take_drop q _
    · simp only [HkeyElems.toList]
      rw [flatMap_insertIdx _ hq']; rfl
  · intro id hid
    left
    rw [mem_extIds] at hid ⊢
    obtain ⟨e, he', hid⟩ := hid
    rw [List.mem_insertIdx hq'] at he'
    rcases he' with rfl | he'
    · simp [MElemF.extId?] at hid
    · exact ⟨e, he', hid⟩
  · intro x hx
    rw [List.mem_insertIdx hq] at hx
    rcases hx with rfl | hx
    · right; rfl
    · left; exact hx
  · intro x hx; rw [List.mem_insertIdx hq]; exact Or.inr hx
  · rw [List.mem_insertIdx hq]; exact Or.inl rfl
  · intro _
    have := single_size_le hT hkk.2.2 hspec.2.1
    simp only [digestSize] at *
    omega

end HInv

namespace HkeyElems
variable {α : Type}

/-- the part of `HkeyElems.set` that runs once the digest has been found at index `i` -/
def setAt (o : ElemsOps α) (cfg : MCfg) (e : HkeyElems α) (level : Nat) (k : MKey) (v : Elem) (c : Ctx)
    (i : Nat) (el : MElemF α) : Except MErr (MKey × Option Elem × HkeyElems α × Ctx) := do
  if e.level == 0 then
    let n := el.count o
    if n == 0 then throw .mapElementCount
    if n - 1 ≥ cfg.climit then
      match el.get o cfg level k with
      | .error .keyNotFound => throw .collisionLimit
      | _ => pure ()
  let (el', ks, old, c) ← el.set o cfg level k v c
  let elems := e.elems.set i el'
  return (ks, old, { e with elems := elems, size := hkeyElementsPrefixSize + elemSizes o elems }, c)

theorem set_eq_setAt (o : ElemsOps α) (cfg : MCfg) (e : HkeyElems α) (level : Nat) (k : MKey) (v : Elem) (c : Ctx)
    (hs : e.hkeys.Pairwise (· < ·)) (hlev : ¬ (level ≥ cfg.L)) {i : Nat} {el : MElemF α}
    (hi : e.hkeys[i]? = some (k.dig level)) (hel : e.elems[i]? = some el) :
    HkeyElems.set o cfg e level k v c = setAt o cfg e level k v c i el := by
  obtain ⟨first, last, hh, hl, h1, h2, _, _⟩ := sorted_ends hs hi
  simp only [HkeyElems.set, if_neg hlev, hh, hl]
  rw [if_neg (by omega), if_neg (by omega)]
  rcases hr : findEqLt e.hkeys (k.dig level) 0 e.hkeys.length 0 (e.hkeys.length + 1) with ⟨_ | i', lt⟩
  · exfalso
    obtain ⟨q, _, _, hlo, hhi⟩ := findEqLt_none hs _ _ _ _ (Nat.zero_le _) (Nat.le_refl _) (by omega)
      (by intro p a hp; omega) (by intro p a hp hpa; have := lt_of_getElem?_eq_some hpa; omega) (Or.inr rfl) hr
    rcases Nat.lt_or_ge i q with h | h
    · have := hlo i _ h hi; omega
    · have := hhi i _ h hi; omega
  · have := findEqLt_some _ _ _ _ (Nat.le_refl _) hr
    have hii := sorted_get_inj hs this hi
    subst hii
    simp only [hel]
    rfl

theorem ends_of_ne_nil {l : List Nat} (h : l ≠ []) :
    ∃ first last, l.head? = some first ∧ l.getLast? = some last ∧ l[0]? = some first ∧
      l[l.length - 1]? = some last := by
  have hlen : 0 < l.length := List.length_pos_iff.mpr h
  have h0 : l[0]? = some l[0] := List.getElem?_eq_getElem (by omega)
  have hn : l[l.length - 1]? = some l[l.length - 1] := List.getElem?_eq_getElem (by omega)
  exact ⟨l[0], l[l.length - 1], by rw [List.head?_eq_getElem?, h0], by rw [List.getLast?_eq_getElem?, hn], h0, hn⟩

theorem set_absent (o : ElemsOps α) (cfg : MCfg) (e : HkeyElems α) (level : Nat) (k : MKey) (v : Elem) (c : Ctx)
    (hs : e.hkeys.Pairwise (· < ·)) (hlev : ¬ (level ≥ cfg.L))
    (hno : ∀ j : Nat, e.hkeys[j]? ≠ some (k.dig level)) :
    ∃ q, q ≤ e.hkeys.length ∧ (∀ p a, p < q → e.hkeys[p]? = some a → a < k.dig level) ∧
      (∀ p a, q ≤ p → e.hkeys[p]? = some a → k.dig level < a) ∧
      HkeyElems.set o cfg e level k v c = .ok (insertNew cfg e q (k.dig level) k v c) := by
  by_cases hnil : e.hkeys = []
  · refine ⟨0, Nat.zero_le _, by intro p a hp; omega, ?_, ?_⟩
    · intro p a _ hpa; rw [hnil] at hpa; simp at hpa
    · simp only [HkeyElems.set, if_neg hlev, hnil, List.head?_nil]
  · obtain ⟨first, last, hh, hl, h0, hn⟩ := ends_of_ne_nil hnil
    have hlen : 0 < e.hkeys.length := List.length_pos_iff.mpr hnil
    simp only [HkeyElems.set, if_neg hlev, hh, hl]
    by_cases h1 : k.dig level < first
    · rw [if_pos h1]
      refine ⟨0, Nat.zero_le _, by intro p a hp; omega, ?_, rfl⟩
      intro p a _ hpa
      rcases Nat.eq_zero_or_pos p with hp | hp
      · subst hp; rw [h0] at hpa; cases hpa; exact h1
      · have := sorted_get_lt hs h0 hpa hp; omega
    · rw [if_neg h1]
      by_cases h2 : k.dig level > last
      · rw [if_pos h2]
        refine ⟨e.hkeys.length, Nat.le_refl _, ?_, ?_, rfl⟩
        · intro p a hp hpa
          rcases Nat.lt_or_ge p (e.hkeys.length - 1) with h | h
          · have := sorted_get_lt hs hpa hn h; omega
          · have : p = e.hkeys.length - 1 := by omega
            subst this; rw [hn] at hpa; cases hpa; omega
        · intro p a hp hpa; have := lt_of_getElem?_eq_some hpa; omega
      · rw [if_neg h2]
        rcases hr : findEqLt e.hkeys (k.dig level) 0 e.hkeys.length 0 (e.hkeys.length + 1) with ⟨_ | i', lt⟩
        · obtain ⟨q, hq, hor, hlo, hhi⟩ := findEqLt_none hs _ _ _ _ (Nat.zero_le _) (Nat.le_refl _) (by omega)
            (by intro p a hp; omega) (by intro p a hp hpa; have := lt_of_getElem?_eq_some hpa; omega) (Or.inr rfl) hr
          have hlt : lt = q := by
            rcases hor with h | h
            · exact h
            · exfalso
              have := hlo (e.hkeys.length - 1) last (by omega) hn
              omega
          subst hlt
          exact ⟨lt, hq, hlo, hhi, rfl⟩
        · exact absurd (findEqLt_some _ _ _ _ (Nat.le_refl _) hr) (hno i')

end HkeyElems
end Atree
