import AtreeProofs.Map.DataOps3
import AtreeProofs.Map.MetaOps2
/-
  Depth-uniform specifications of `MTree.split / merge / lendToRight / borrowFromRight`.
-/
namespace Atree
open Gen

variable {T : Nat} {r : Nat} {D : DigestFn (r + 1)}

theorem extIds_append {α : Type} (a b : List (MElemF α)) : extIds (a ++ b) = extIds a ++ extIds b := by
  simp [extIds, List.filterMap_append]

theorem MDataSlab.pairs_of_elems {s l rr : MDataSlab r} (h : s.elems.elems = l.elems.elems ++ rr.elems.elems) :
    s.pairs = l.pairs ++ rr.pairs := by
  simp only [MDataSlab.pairs, HkeyElems.toList, h, List.flatMap_append]

/-- leaves of a (structurally sound) subtree exist -/
theorem MTreeInv.leaves_ne_nil (hT : legalThreshold T = true) : ∀ (d : Nat) (t : MTree r d),
    MTreeInv T D d false t → MTree.leaves d t ≠ []
  | 0, s, _ => by simp [MTree.leaves]
  | d + 1, m, h => by
    have hs := (mtreeInv_false_iff_succ hT m).mp h
    show m.children.flatMap (MTree.leaves d) ≠ []
    cases hc : m.children with
    | nil => have := hs.1.2; rw [hc] at this; simp at this
    | cons c cs =>
      have := MTreeInv.leaves_ne_nil hT d c (hs.1.1.2.2.2.2.1 c (by rw [hc]; simp))
      simp [this]

theorem SInv.leaves_ne_nil (hT : legalThreshold T = true) : ∀ (d : Nat) (top : Bool) (t : MTree r d),
    SInv T D d top t → MTree.leaves d t ≠ []
  | 0, _, s, _ => by simp [MTree.leaves]
  | d + 1, _, m, h => by
    show m.children.flatMap (MTree.leaves d) ≠ []
    cases hc : m.children with
    | nil => have := h.2; rw [hc] at this; simp at this
    | cons c cs =>
      have := MTreeInv.leaves_ne_nil hT d c (h.1.2.2.2.2.1 c (by rw [hc]; simp))
      simp [this]

/-- the slack by which a subtree may exceed `maxThr` right after an update (plus, at depth 0, the
    16 bytes by which a root data slab grows when it becomes a non-root slab) -/
def slack (T : Nat) : Nat → Nat
  | 0 => maxEntry T + 16
  | _ + 1 => mapSlabHeaderSize

/-- the prefix bytes saved by a merge -/
def mergeGain : Nat → Nat
  | 0 => 26
  | _ + 1 => 12

namespace MTree

/-! rfl-lemmas exposing the two layers of the depth-indexed functions -/
section Unfold
variable {d : Nat}
theorem hdr_zero (s : MDataSlab r) : hdr 0 s = s.hdr := rfl
theorem hdr_succ (m : MMetaSlab (MTree r d)) : hdr (d + 1) m = m.hdr := rfl
theorem toList_zero (s : MDataSlab r) : toList 0 s = s.pairs := rfl
theorem toList_succ (m : MMetaSlab (MTree r d)) : toList (d + 1) m = m.children.flatMap (toList d) := rfl
theorem digests0_zero (s : MDataSlab r) : digests0 0 s = s.elems.hkeys := rfl
theorem digests0_succ (m : MMetaSlab (MTree r d)) : digests0 (d + 1) m = m.children.flatMap (digests0 d) := rfl
theorem leaves_zero (s : MDataSlab r) : leaves 0 s = [s] := rfl
theorem leaves_succ (m : MMetaSlab (MTree r d)) : leaves (d + 1) m = m.children.flatMap (leaves d) := rfl
end Unfold

/-- specification of `MTree.split` -/
def SplitSpec (T : Nat) (D : DigestFn (r + 1)) (d : Nat) (t : MTree r d) (c : Ctx) : Prop :=
  ∃ l rr, MTree.split d t c = .ok (l, rr, (c.alloc (hdr d t).id.addr).2) ∧
    MTreeInv T D d false l ∧ MTreeInv T D d false rr ∧
    (hdr d l).id = (hdr d t).id ∧ (hdr d rr).id = (c.alloc (hdr d t).id.addr).1 ∧
    toList d t = toList d l ++ toList d rr ∧ digests0 d t = digests0 d l ++ digests0 d rr ∧
    LeafRel (leaves d t) (leaves d l ++ leaves d rr) ∧
    (∀ id ∈ CtxOk.mapSlabIds d l ++ CtxOk.mapSlabIds d rr, id ∈ CtxOk.mapSlabIds d t ∨ id = (hdr d rr).id)

theorem split_spec_zero (hT : legalThreshold T = true) (s : MDataSlab r) (c : Ctx)
    (hs : MDataLoose T D false s) (h1 : maxThr T < s.hdr.size) (h2 : s.hdr.size ≤ maxThr T + maxEntry T + 16) :
    SplitSpec T D 0 s c := by
  obtain ⟨l, rr, heq, hl, hr, hk, hel, hid1, hid2, hn1, hn2⟩ := MDataSlab.split_spec hT (s := s) hs h1 h2 c
  refine ⟨l, rr, heq, (mtreeInv_zero_iff T D _ _).mpr hl, (mtreeInv_zero_iff T D _ _).mpr hr, hid1, hid2,
    MDataSlab.pairs_of_elems hel, hk, ?_, ?_⟩
  · rw [leaves_zero, leaves_zero, leaves_zero]
    refine ⟨by simp, by simp, ?_, ?_⟩
    · intro dflt; simp [firstId, hid1]
    · intro nxt h
      simp only [List.cons_append, List.nil_append, ChainTo] at h ⊢
      exact ⟨hn1, by rw [hn2]; exact h⟩
  · intro id hid
    rw [mapSlabIds_zero, mapSlabIds_zero] at hid
    rw [mapSlabIds_zero, hel, extIds_append, hdr_zero]
    simp only [List.mem_append, List.mem_cons] at hid ⊢
    rcases hid with (h | h) | (h | h)
    · left; left; rw [h]; exact hid1
    · left; right; left; exact h
    · right; exact h
    · left; right; right; exact h

theorem split_spec_succ (hT : legalThreshold T = true) {d : Nat} (m : MMetaSlab (MTree r d)) (c : Ctx)
    (hs : MetaLoose T D d false m ∧ 1 ≤ m.children.length) (h1 : maxThr T < m.hdr.size)
    (h2 : m.hdr.size ≤ maxThr T + mapSlabHeaderSize) : SplitSpec T D (d + 1) m c := by
  obtain ⟨l, rr, heq, hl, hr, hch, hid1, hid2, _⟩ := MMetaSlab.split_spec hT (m := m) hs.1 h1 h2 c
  refine ⟨l, rr, heq, hl, hr, hid1, hid2, ?_, ?_, ?_, ?_⟩
  · rw [toList_succ, toList_succ, toList_succ, hch, List.flatMap_append]
  · rw [digests0_succ, digests0_succ, digests0_succ, hch, List.flatMap_append]
  · have : leaves (d + 1) m = leaves (d + 1) l ++ leaves (d + 1) rr := by
      rw [leaves_succ, leaves_succ, leaves_succ, hch, List.flatMap_append]
    rw [← this]
    exact LeafRel.refl (SInv.leaves_ne_nil hT (d + 1) false m hs)
  · intro id hid
    rw [mapSlabIds_succ, mapSlabIds_succ] at hid
    rw [mapSlabIds_succ, hch, List.flatMap_append, hdr_succ]
    simp only [List.mem_append, List.mem_cons] at hid ⊢
    rcases hid with (h | h) | (h | h)
    · left; left; rw [h]; exact hid1
    · left; right; left; exact h
    · right; exact h
    · left; right; right; exact h

theorem split_spec (hT : legalThreshold T = true) : ∀ (d : Nat) (t : MTree r d) (c : Ctx),
    SInv T D d false t → maxThr T < (hdr d t).size → (hdr d t).size ≤ maxThr T + slack T d →
    SplitSpec T D d t c
  | 0, s, c, hs, h1, h2 => split_spec_zero hT s c hs h1 (Nat.add_assoc _ _ _ ▸ h2)
  | _ + 1, m, c, hs, h1, h2 => split_spec_succ hT m c hs h1 h2

/-- specification of `MTree.merge` -/
def MergeSpec (T : Nat) (D : DigestFn (r + 1)) (d : Nat) (l rr : MTree r d) : Prop :=
  SInv T D d false (merge d l rr) ∧
  (hdr d (merge d l rr)).size + mergeGain d = (hdr d l).size + (hdr d rr).size ∧
  (hdr d (merge d l rr)).id = (hdr d l).id ∧
  toList d (merge d l rr) = toList d l ++ toList d rr ∧
  digests0 d (merge d l rr) = digests0 d l ++ digests0 d rr ∧
  LeafRel (leaves d l ++ leaves d rr) (leaves d (merge d l rr)) ∧
  (∀ id ∈ CtxOk.mapSlabIds d (merge d l rr), id ∈ CtxOk.mapSlabIds d l ++ CtxOk.mapSlabIds d rr)

theorem merge_spec_zero (l rr : MDataSlab r) (hl : MDataLoose T D false l) (hr : MDataLoose T D false rr)
    (hlt : ∀ a ∈ l.elems.hkeys, ∀ b ∈ rr.elems.hkeys, a < b) : MergeSpec T D 0 l rr := by
  obtain ⟨h1, h2, h3, h4, h5, h6⟩ := MDataSlab.merge_spec (l := l) (rr := rr) hl hr hlt
  refine ⟨h1, h2, h5, MDataSlab.pairs_of_elems h4, h3, ?_, ?_⟩
  · show LeafRel ([l] ++ [rr]) [MDataSlab.merge l rr]
    refine ⟨by simp, by simp, ?_, ?_⟩
    · intro dflt; simp only [List.cons_append, List.nil_append, firstId]; exact h5
    · intro nxt h
      simp only [List.cons_append, List.nil_append, ChainTo] at h ⊢
      rw [h6]; exact h.2
  · intro id hid
    have hid' : id ∈ (MDataSlab.merge l rr).hdr.id :: extIds (MDataSlab.merge l rr).elems.elems := by
      rw [← mapSlabIds_zero]; exact hid
    rw [mapSlabIds_zero, mapSlabIds_zero]
    rw [h4, extIds_append, h5] at hid'
    simp only [List.mem_append, List.mem_cons] at hid' ⊢
    rcases hid' with h | h | h
    · left; left; exact h
    · left; right; exact h
    · right; right; exact h

theorem merge_spec_succ (hT : legalThreshold T = true) {d : Nat} (l rr : MMetaSlab (MTree r d))
    (hl : MetaLoose T D d false l ∧ 1 ≤ l.children.length) (hr : MetaLoose T D d false rr ∧ 1 ≤ rr.children.length)
    (haddr : rr.hdr.id.addr = l.hdr.id.addr)
    (hlt : ∀ a ∈ digests0 (d + 1) l, ∀ b ∈ digests0 (d + 1) rr, a < b) : MergeSpec T D (d + 1) l rr := by
  obtain ⟨h1, h2, h3, h4, _⟩ := MMetaSlab.merge_spec (l := l) (rr := rr) hl.1 hr.1 hl.2 haddr hlt
  have hlen : 1 ≤ (MMetaSlab.merge l rr).children.length := by
    rw [h3, List.length_append]; have := hl.2; omega
  refine ⟨⟨h1, hlen⟩, h2, h4, ?_, ?_, ?_, ?_⟩
  · show (MMetaSlab.merge l rr).children.flatMap _ = l.children.flatMap _ ++ rr.children.flatMap _
    rw [h3, List.flatMap_append]
  · show (MMetaSlab.merge l rr).children.flatMap _ = l.children.flatMap _ ++ rr.children.flatMap _
    rw [h3, List.flatMap_append]
  · have : leaves (d + 1) (merge (d + 1) l rr) = leaves (d + 1) l ++ leaves (d + 1) rr := by
      show (MMetaSlab.merge l rr).children.flatMap _ = l.children.flatMap _ ++ rr.children.flatMap _
      rw [h3, List.flatMap_append]
    rw [this]
    refine LeafRel.refl ?_
    have := SInv.leaves_ne_nil hT (d + 1) false l hl
    simp [this]
  · intro id hid
    have hid' : id ∈ (MMetaSlab.merge l rr).hdr.id :: (MMetaSlab.merge l rr).children.flatMap (CtxOk.mapSlabIds d) := by
      rw [← mapSlabIds_succ]; exact hid
    rw [mapSlabIds_succ, mapSlabIds_succ]
    rw [h3, List.flatMap_append, h4] at hid'
    simp only [List.mem_append, List.mem_cons] at hid' ⊢
    rcases hid' with h | h | h
    · left; left; exact h
    · left; right; exact h
    · right; right; exact h

theorem merge_spec (hT : legalThreshold T = true) : ∀ (d : Nat) (l rr : MTree r d),
    SInv T D d false l → SInv T D d false rr → (hdr d rr).id.addr = (hdr d l).id.addr →
    (∀ a ∈ digests0 d l, ∀ b ∈ digests0 d rr, a < b) → MergeSpec T D d l rr
  | 0, l, rr, hl, hr, _, hlt => merge_spec_zero l rr hl hr hlt
  | _ + 1, l, rr, hl, hr, haddr, hlt => merge_spec_succ hT l rr hl hr haddr hlt

end MTree
end Atree
