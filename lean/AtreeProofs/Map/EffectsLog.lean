import AtreeProofs.Map.EffectsTop
/-
  Effect-log accounting for maps (C09): the allocations made by `OMap.set` (all for the owner
  address, with indices above the old counter) WITHOUT assuming distinct slab IDs.  Used for
  `allocated_ids_fresh`.
-/
namespace Atree
open Gen

variable {r : Nat} {T : Nat} {D : DigestFn (r + 1)}

/-- the log was extended; every allocation in the extension is for the address `a`, above the old
    counter and at most the new one -/
def ALog (a : Nat) (c c' : Ctx) : Prop :=
  c.ctr ≤ c'.ctr ∧ ∃ E, c'.eff = c.eff ++ E ∧
    ∀ ad id, Eff.alloc ad id ∈ E → id.addr = a ∧ c.ctr < id.idx ∧ id.idx ≤ c'.ctr

namespace ALog

theorem of_mlog {a : Nat} {c c' : Ctx} {E : List Eff} {C : List (SlabID × Elem)} (h : MLog a c c' E C) :
    ALog a c c' :=
  ⟨h.ctr_le, E, h.eff, fun ad id hm => ⟨h.addr ad id hm, h.allocs ad id hm⟩⟩

theorem refl (a : Nat) (c : Ctx) : ALog a c c := of_mlog (MLog.refl a c)

theorem trans {a : Nat} {c c1 c2 : Ctx} (h1 : ALog a c c1) (h2 : ALog a c1 c2) : ALog a c c2 := by
  obtain ⟨l1, E1, e1, a1⟩ := h1
  obtain ⟨l2, E2, e2, a2⟩ := h2
  refine ⟨Nat.le_trans l1 l2, E1 ++ E2, by rw [e2, e1, List.append_assoc], ?_⟩
  intro ad id hm
  rcases List.mem_append.1 hm with h | h
  · obtain ⟨x, y, z⟩ := a1 ad id h; exact ⟨x, y, by omega⟩
  · obtain ⟨x, y, z⟩ := a2 ad id h; exact ⟨x, by omega, z⟩

theorem store (a : Nat) (c : Ctx) (i : SlabID) : ALog a c (c.emit (.store i)) := of_mlog (MLog.store a c i)
theorem remove (a : Nat) (c : Ctx) (i : SlabID) : ALog a c (c.emit (.remove i)) := of_mlog (MLog.remove a c i)
theorem alloc (a : Nat) (c : Ctx) : ALog a c (c.alloc a).2 := of_mlog (MLog.alloc a c)

theorem store3 (a : Nat) (c : Ctx) (i1 i2 i3 : SlabID) :
    ALog a c (((c.emit (.store i1)).emit (.store i2)).emit (.store i3)) := of_mlog (mlog_emit3 a c i1 i2 i3)

end ALog

theorem ValStep.alog {a : Nat} {c c' : Ctx} (h : ValStep a c c') : ALog a c c' := by
  obtain ⟨E, C, hl, _⟩ := h.acct
  exact ALog.of_mlog hl

/-! ### first level of a data slab -/

theorem set0_alog {α : Type} {o : ElemsOps α} {cfg : MCfg} {P : α → Prop} (hE : OpsEff cfg o P)
    {he : HkeyElems α} (hF : ∀ el ∈ he.elems, FirstOk P el)
    {k : MKey} {v : Elem} {c : Ctx} {res : MKey × Option Elem × HkeyElems α × Ctx}
    (h : HkeyElems.set o cfg he 0 k v c = .ok res) : ALog cfg.addr c res.2.2.2 := by
  rcases hkey_set_inv h with ⟨idx, hk, hres⟩ | ⟨i, el, el', ks, old, c', hel, hs, _, hc⟩
  · rw [hres]; exact (insertNew_valStep cfg he idx hk k v c).alog
  · have hFel := hF el (List.mem_of_getElem? hel)
    rw [hc]
    rcases elem_set_inv hs with ⟨x, x', rfl, rfl, hv⟩ | ⟨g, hg, hin⟩ | ⟨id, sz, s, elems', c1, rfl, hset, rfl, rfl⟩
    · exact hv.alog
    · have hPg : P g := by
        rcases hg with ⟨x, rfl, hn⟩ | rfl
        · exact hE.newWith hn
        · exact hFel
      obtain ⟨g', c1, hset, hcase⟩ := inlSet_inv hin
      have hv := (hE.set hPg (Nat.le_refl 1) hset).alog
      rcases hcase with ⟨rfl, rfl⟩ | ⟨_, sz, slab, rfl, rfl⟩
      · exact hv
      · exact (hv.trans (ALog.alloc _ c1)).trans (ALog.store _ _ _)
    · exact ((hE.set hFel.2 (Nat.le_refl 1) hset).alog).trans (ALog.store _ _ _)

theorem mdata_set_alog {cfg : MCfg} (s s' : MDataSlab r) {k : MKey} {v : Elem} {c c' : Ctx} {ks : MKey}
    {old : Option Elem} (hF : ∀ el ∈ s.elems.elems, FirstOk (NoExt r) el)
    (h : s.set cfg k v c = .ok (ks, old, s', c')) : s'.hdr.id = s.hdr.id ∧ ALog cfg.addr c c' := by
  unfold MDataSlab.set at h
  obtain ⟨⟨ks', old', elems, c1⟩, hset, h⟩ := mbind_eq_ok h
  simp only [pure, Except.pure, Except.ok.injEq, Prod.mk.injEq] at h
  obtain ⟨_, _, rfl, rfl⟩ := h
  refine ⟨rfl, ?_⟩
  have hE : OpsEff cfg (MDataSlab.eops r) (NoExt r) := MElems.opsEff cfg r
  have h1 := set0_alog hE hF hset
  simp only [MDataSlab.storeIfNotInlined]
  split
  · exact h1
  · exact h1.trans (ALog.store _ _ _)

/-! ### the tree -/

theorem afterChild_alog {a : Nat} {d : Nat} {m m2 : MMetaSlab (MTree r d)} {child' : MTree r d} {k : Nat}
    {c c2 : Ctx} (haddr : (MTree.hdr d child').id.addr = a)
    (h : m.afterChild T child' k c = .ok (m2, c2)) : ALog a c c2 := by
  rcases afterChild_inv h with hsp | ⟨u, hmr⟩ | ⟨_, rfl⟩
  · unfold MMetaSlab.splitChildSlab at hsp
    obtain ⟨⟨l, rr, cs⟩, hs, hsp⟩ := mbind_eq_ok hsp
    simp only [pure, Except.pure, Except.ok.injEq, Prod.mk.injEq] at hsp
    obtain ⟨_, rfl⟩ := hsp
    obtain ⟨_, _, _, rfl⟩ := msplit_struct d child' c l rr cs hs
    rw [haddr]
    exact (ALog.alloc a c).trans (ALog.store3 a _ _ _ _)
  · obtain ⟨l, rr, li, _, hact⟩ := mmor_cases _ child' k u c m2 c2 hmr
    rcases hact with ⟨flag, heq⟩ | heq
    · obtain ⟨_, _, _, _, _, rfl⟩ := mrebal_inv heq
      exact ALog.store3 a _ _ _ _
    · have h1 : c2 = ((m.withChild child' k).mergeChildren l rr li (li + 1) c).2 := by rw [← heq]
      rw [h1, mmerge_ctx]
      exact ((ALog.store a c _).trans (ALog.store a _ _)).trans (ALog.remove a _ _)
  · exact ALog.store a c _

theorem mset_hdr_id {cfg : MCfg} {k : MKey} {v : Elem} {ks : MKey} {old : Option Elem} {c : Ctx} :
    ∀ (d : Nat) (t t' : MTree r d) (c' : Ctx), MTree.set cfg d t k v c = .ok (ks, old, t', c') →
    (MTree.hdr d t').id = (MTree.hdr d t).id
  | 0, s, t', c', h => by
    have h : MDataSlab.set cfg s k v c = .ok (ks, old, t', c') := h
    unfold MDataSlab.set at h
    obtain ⟨⟨ks', old', elems, c1⟩, _, h⟩ := mbind_eq_ok h
    simp only [pure, Except.pure, Except.ok.injEq, Prod.mk.injEq] at h
    obtain ⟨_, _, rfl, _⟩ := h
    rfl
  | _ + 1, m, t', c', h => by
    obtain ⟨i, child, child', c1, _, _, ha⟩ := mset_succ_inv m h
    exact afterChild_hdr_id ha

theorem child_facts' {d : Nat} {a : Nat} {top : Bool} {m : MMetaSlab (MTree r d)} {i : Nat} {child : MTree r d}
    (hinv : MTreeInv T D (d + 1) top m) (haddr : m.hdr.id.addr = a) (hchild : m.children[i]? = some child) :
    MTreeInv T D d false child ∧ (MTree.hdr d child).id.addr = a := by
  have hm := ((mtreeInv_succ_iff T D d top m).mp hinv).1
  have hmem : child ∈ m.children := List.mem_of_getElem? hchild
  exact ⟨hm.2.2.2.2.1 child hmem, by rw [hm.2.2.2.2.2.1 child hmem]; exact haddr⟩

theorem mset_alog_zero {cfg : MCfg} (s t' : MDataSlab r) (top : Bool) {k : MKey} {v : Elem} {c c' : Ctx}
    {ks : MKey} {old : Option Elem} (hinv : MTreeInv T D 0 top s)
    (h : MTree.set cfg 0 s k v c = .ok (ks, old, t', c')) : ALog cfg.addr c c' :=
  (mdata_set_alog s t' (firstOk_of_inv ((mtreeInv_zero_iff T D top s).mp hinv).elems_inv) h).2

theorem mset_alog_succ {cfg : MCfg} {d : Nat} (m t' : MMetaSlab (MTree r d)) (top : Bool) {k : MKey} {v : Elem}
    {c c' : Ctx} {ks : MKey} {old : Option Elem} (hinv : MTreeInv T D (d + 1) top m)
    (haddr : m.hdr.id.addr = cfg.addr)
    (ih : ∀ (child child' : MTree r d) (c1 : Ctx), MTreeInv T D d false child →
      (MTree.hdr d child).id.addr = cfg.addr → MTree.set cfg d child k v c = .ok (ks, old, child', c1) →
      ALog cfg.addr c c1)
    (h : MTree.set cfg (d + 1) m k v c = .ok (ks, old, t', c')) : ALog cfg.addr c c' := by
  obtain ⟨i, child, child', c1, hchild, hs, ha⟩ := mset_succ_inv m h
  obtain ⟨hci, hcaddr⟩ := child_facts' hinv haddr hchild
  have h1 := ih child child' c1 hci hcaddr hs
  have hid := mset_hdr_id d child child' c1 hs
  exact h1.trans (afterChild_alog (by rw [hid]; exact hcaddr) ha)

theorem mset_alog {cfg : MCfg} {k : MKey} {v : Elem} {ks : MKey} {old : Option Elem} {c : Ctx} :
    ∀ (d : Nat) (t t' : MTree r d) (top : Bool) (c' : Ctx),
    MTreeInv T D d top t → (MTree.hdr d t).id.addr = cfg.addr →
    MTree.set cfg d t k v c = .ok (ks, old, t', c') → ALog cfg.addr c c'
  | 0, s, t', top, _, hinv, _, h => mset_alog_zero s t' top hinv h
  | d + 1, m, t', top, _, hinv, haddr, h =>
    mset_alog_succ m t' top hinv haddr (fun child child' c1 h1 h2 h3 => mset_alog d child child' false c1 h1 h2 h3) h

/-! ### the root fix-up -/

theorem splitIfFull_alog {a : Nat} (T' d : Nat) (root : MTree r d) (ty cnt seed : Nat) (c : Ctx) {m3 : OMap r}
    {c3 : Ctx} (haddr : (MTree.hdr d root).id.addr = a)
    (h : OMap.splitRootIfFull T' (⟨d, root, ty, cnt, seed⟩ : OMap r) c = .ok (m3, c3)) : ALog a c c3 := by
  simp only [OMap.splitRootIfFull] at h
  split at h
  · obtain ⟨l, rr, c2, hsp, _, rfl⟩ := splitRoot_inv d root ty cnt seed c h
    rw [haddr] at hsp
    obtain ⟨_, _, _, hc2⟩ := msplit_struct d _ _ l rr c2 hsp
    rw [hdr_deroot] at hc2
    subst hc2
    exact ((ALog.alloc a c).trans (ALog.alloc a _)).trans (ALog.store3 a _ _ _ _)
  · simp only [Except.ok.injEq, Prod.mk.injEq] at h
    obtain ⟨_, rfl⟩ := h
    exact ALog.refl a c

theorem rootfix_alog_succ {a : Nat} (T' : Nat) {d : Nat} (x : MMetaSlab (MTree r d)) (ty cnt seed : Nat) (c1 : Ctx)
    {m3 : OMap r} {c3 : Ctx} (hS : MetaLoose T D d true x ∧ 1 ≤ x.children.length)
    (haddr : x.hdr.id.addr = a)
    (h : (OMap.promoteIfSingleChild (⟨d + 1, x, ty, cnt, seed⟩ : OMap r) c1).1.splitRootIfFull T'
        (OMap.promoteIfSingleChild (⟨d + 1, x, ty, cnt, seed⟩ : OMap r) c1).2 = .ok (m3, c3)) :
    ALog a c1 c3 := by
  have hm := hS.1
  have hlen := hS.2
  rcases hc : x.children with _ | ⟨child, _ | ⟨b, rest⟩⟩
  · rw [hc] at hlen; simp at hlen
  · have hh : x.childHdrs = [MTree.hdr d child] := by rw [hm.2.1, hc]; rfl
    rw [promote_eq d x ty cnt seed c1 hh hc] at h
    simp only at h
    have h3 := splitIfFull_alog (a := a) T' d (enroot d child x.hdr.id) ty cnt seed _
      (by rw [hdr_enroot]; exact haddr) h
    exact ((ALog.store a c1 _).trans (ALog.remove a _ _)).trans h3
  · have h2 : 2 ≤ x.children.length := by rw [hc]; simp
    rw [promote_id d x ty cnt seed c1 hm.2.1 h2] at h
    exact splitIfFull_alog T' (d + 1) x ty cnt seed c1 haddr h

theorem rootfix_alog {a : Nat} (T' : Nat) : ∀ (d : Nat) (root : MTree r d) (ty cnt seed : Nat) (c1 : Ctx)
    (m3 : OMap r) (c3 : Ctx), SInv T D d true root → (MTree.hdr d root).id.addr = a →
    (OMap.promoteIfSingleChild (⟨d, root, ty, cnt, seed⟩ : OMap r) c1).1.splitRootIfFull T'
        (OMap.promoteIfSingleChild (⟨d, root, ty, cnt, seed⟩ : OMap r) c1).2 = .ok (m3, c3) →
    ALog a c1 c3
  | 0, s, ty, cnt, seed, c1, _, _, _, haddr, h => splitIfFull_alog T' 0 s ty cnt seed c1 haddr h
  | _ + 1, x, ty, cnt, seed, c1, _, _, hS, haddr, h => rootfix_alog_succ T' x ty cnt seed c1 hS haddr h

theorem omap_set_alog (hT : legalThreshold T = true) {cfg : MCfg} {m : OMap r} (hcfg : CfgOk cfg T m)
    (h : MapInv T D m) {k : MKey} (hk : KeyOk T (r + 1) D k) {v : Elem} (hv : ValueOkM v) (c : Ctx)
    {old : Option Elem} {m' : OMap r} {c' : Ctx}
    (hr : m.set cfg k v c = .ok (old, m', c')) : ALog m.addr c c' := by
  have hc' : CfgFor cfg T (r + 1) := ⟨hcfg.1, hcfg.2.1⟩
  have haddr : cfg.addr = m.addr := hcfg.2.2
  rw [← haddr]
  obtain ⟨d, root, ty, cnt, seed⟩ := m
  obtain ⟨h1, h2⟩ := MTree.set_spec hT hc' hk hv d true root c h.tree
  by_cases hl : TLimited cfg d root k
  · have := h1 hl
    simp [OMap.set, this, bind, Except.bind] at hr
  · obtain ⟨old', root', c1, heq, hp⟩ := h2 hl
    have hra : (MTree.hdr d root).id.addr = cfg.addr := haddr.symm
    have hl1 := mset_alog d root root' true c1 h.tree hra heq
    simp only [OMap.set, heq, bind, Except.bind, pure, Except.pure] at hr
    split at hr
    · cases hr
    · rename_i p hfix
      obtain ⟨m3, c3⟩ := p
      simp only [Except.ok.injEq, Prod.mk.injEq] at hr
      obtain ⟨_, rfl, rfl⟩ := hr
      exact hl1.trans (rootfix_alog (T := T) (D := D) cfg.T d root' ty _ seed c1 m3 c3 hp.sinv
        (by rw [hp.id_eq]; exact hra) hfix)

end Atree
