import AtreeProofs.Map.Basics
/-
  The dictionary a pair list represents; "zipper" effects of set / remove.
-/
namespace Atree
open Gen

section Dict
variable {T L : Nat} {D : DigestFn L}

def AllKeyOk (T L : Nat) (D : DigestFn L) (l : List (MKey × Elem)) : Prop := ∀ p ∈ l, KeyOk T L D p.1

theorem MKey.same_comm (a b : MKey) : a.same b = b.same a := by
  simp only [MKey.same]
  rw [Bool.eq_iff_iff]; simp only [Bool.and_eq_true, beq_iff_eq]
  constructor <;> (intro h; exact ⟨h.1.symm, h.2.symm⟩)

theorem dictLookup_nil (k : MKey) : dictLookup [] k = none := rfl

theorem dictLookup_cons (p : MKey × Elem) (l : List (MKey × Elem)) (k : MKey) :
    dictLookup (p :: l) k = if p.1.same k then some p.2 else dictLookup l k := by
  unfold dictLookup
  rw [List.find?_cons]
  cases h : p.1.same k <;> simp

theorem dictLookup_append_of_none {A B : List (MKey × Elem)} {k : MKey} (h : dictLookup A k = none) :
    dictLookup (A ++ B) k = dictLookup B k := by
  induction A with
  | nil => rfl
  | cons p A ih =>
    rw [dictLookup_cons] at h
    rw [List.cons_append, dictLookup_cons]
    cases hp : p.1.same k
    · rw [hp] at h; simp at h; simp [ih h]
    · rw [hp] at h; simp at h

theorem dictLookup_none_of {l : List (MKey × Elem)} {k : MKey} (h : ∀ p ∈ l, p.1.same k = false) :
    dictLookup l k = none := by
  induction l with
  | nil => rfl
  | cons p l ih =>
    rw [dictLookup_cons, h p (List.mem_cons_self)]
    simp; exact ih (fun q hq => h q (List.mem_cons_of_mem _ hq))

theorem dictLookup_none_iff {l : List (MKey × Elem)} {k : MKey} (hl : AllKeyOk T L D l) (hk : KeyOk T L D k) :
    dictLookup l k = none ↔ ∀ p ∈ l, p.1 ≠ k := by
  induction l with
  | nil => simp [dictLookup_nil]
  | cons p l ih =>
    have hp : KeyOk T L D p.1 := hl p List.mem_cons_self
    have hl' : AllKeyOk T L D l := fun q hq => hl q (List.mem_cons_of_mem _ hq)
    rw [dictLookup_cons]
    cases h : p.1.same k
    · have := (KeyOk.same_false_iff hp hk).mp h
      simp [ih hl', this]
    · have := (KeyOk.same_iff hp hk).mp h
      simp [this]

theorem dictLookup_skip {A B : List (MKey × Elem)} {k k' : MKey} {v : Elem} (h : k.same k' = false) :
    dictLookup (A ++ (k, v) :: B) k' = dictLookup (A ++ B) k' := by
  induction A with
  | nil => simp [dictLookup_cons, h]
  | cons p A ih => simp only [List.cons_append, dictLookup_cons, ih]

theorem KeysDistinct.append_iff {A B : List (MKey × Elem)} :
    KeysDistinct (A ++ B) ↔ KeysDistinct A ∧ KeysDistinct B ∧ ∀ a ∈ A, ∀ b ∈ B, a.1.same b.1 = false := by
  unfold KeysDistinct; exact List.pairwise_append

theorem KeysDistinct.cons_iff {p : MKey × Elem} {B : List (MKey × Elem)} :
    KeysDistinct (p :: B) ↔ (∀ b ∈ B, p.1.same b.1 = false) ∧ KeysDistinct B := by
  unfold KeysDistinct; exact List.pairwise_cons

theorem dictLookup_zipper {A B : List (MKey × Elem)} {k : MKey} {v : Elem}
    (hd : KeysDistinct (A ++ (k, v) :: B)) : dictLookup (A ++ (k, v) :: B) k = some v := by
  rw [KeysDistinct.append_iff] at hd
  have hA : dictLookup A k = none := dictLookup_none_of (fun p hp => hd.2.2 p hp (k, v) List.mem_cons_self)
  rw [dictLookup_append_of_none hA, dictLookup_cons]
  simp [MKey.same_self]

/-- the effect of `set k v` on the pair list: a new pair is inserted somewhere (the key was
    absent), or the value of the pair with key `k` is replaced in place -/
def SetEffect (l l' : List (MKey × Elem)) (k : MKey) (v : Elem) (old : Option Elem) : Prop :=
  (old = none ∧ (∀ p ∈ l, p.1 ≠ k) ∧ ∃ A B, l = A ++ B ∧ l' = A ++ (k, v) :: B) ∨
  (∃ v0 A B, old = some v0 ∧ l = A ++ (k, v0) :: B ∧ l' = A ++ (k, v) :: B)

/-- the effect of `remove k` returning `v`: that pair disappears, everything else stays in order -/
def RemEffect (l l' : List (MKey × Elem)) (k : MKey) (v : Elem) : Prop :=
  ∃ A B, l = A ++ (k, v) :: B ∧ l' = A ++ B

theorem SetEffect.lift {l l' : List (MKey × Elem)} {k : MKey} {v : Elem} {old : Option Elem}
    (h : SetEffect l l' k v old) (P S : List (MKey × Elem))
    (hP : ∀ p ∈ P, p.1 ≠ k) (hS : ∀ p ∈ S, p.1 ≠ k) :
    SetEffect (P ++ (l ++ S)) (P ++ (l' ++ S)) k v old := by
  rcases h with ⟨ho, hne, A, B, rfl, rfl⟩ | ⟨v0, A, B, ho, rfl, rfl⟩
  · left
    refine ⟨ho, ?_, P ++ A, B ++ S, by simp, by simp⟩
    intro p hp
    simp only [List.mem_append] at hp
    rcases hp with hp | hp | hp
    · exact hP p hp
    · exact hne p (by simpa using hp)
    · exact hS p hp
  · right
    exact ⟨v0, P ++ A, B ++ S, ho, by simp, by simp⟩

theorem RemEffect.lift {l l' : List (MKey × Elem)} {k : MKey} {v : Elem}
    (h : RemEffect l l' k v) (P S : List (MKey × Elem)) :
    RemEffect (P ++ (l ++ S)) (P ++ (l' ++ S)) k v := by
  obtain ⟨A, B, rfl, rfl⟩ := h
  exact ⟨P ++ A, B ++ S, by simp, by simp⟩

theorem SetEffect.length {l l' : List (MKey × Elem)} {k : MKey} {v : Elem} {old : Option Elem}
    (h : SetEffect l l' k v old) : l'.length = if old.isSome then l.length else l.length + 1 := by
  rcases h with ⟨ho, _, A, B, rfl, rfl⟩ | ⟨v0, A, B, ho, rfl, rfl⟩
  · subst ho; simp; omega
  · subst ho; simp

theorem SetEffect.length_ge {l l' : List (MKey × Elem)} {k : MKey} {v : Elem} {old : Option Elem}
    (h : SetEffect l l' k v old) : l.length ≤ l'.length := by
  rw [h.length]; split <;> omega

theorem RemEffect.length {l l' : List (MKey × Elem)} {k : MKey} {v : Elem}
    (h : RemEffect l l' k v) : l'.length + 1 = l.length := by
  obtain ⟨A, B, rfl, rfl⟩ := h
  simp; omega

theorem RemEffect.mem {l l' : List (MKey × Elem)} {k : MKey} {v : Elem}
    (h : RemEffect l l' k v) : ∀ p ∈ l', p ∈ l := by
  obtain ⟨A, B, rfl, rfl⟩ := h
  intro p hp; simp at hp ⊢; rcases hp with hp | hp
  · exact Or.inl hp
  · exact Or.inr (Or.inr hp)

theorem SetEffect.mem {l l' : List (MKey × Elem)} {k : MKey} {v : Elem} {old : Option Elem}
    (h : SetEffect l l' k v old) : ∀ p ∈ l', p = (k, v) ∨ p ∈ l := by
  rcases h with ⟨ho, _, A, B, rfl, rfl⟩ | ⟨v0, A, B, ho, rfl, rfl⟩
  · intro p hp; simp at hp ⊢; rcases hp with hp | hp | hp
    · exact Or.inr (Or.inl hp)
    · exact Or.inl hp
    · exact Or.inr (Or.inr hp)
  · intro p hp; simp at hp ⊢; rcases hp with hp | hp | hp
    · exact Or.inr (Or.inl hp)
    · exact Or.inl hp
    · exact Or.inr (Or.inr (Or.inr hp))

theorem SetEffect.spec {l l' : List (MKey × Elem)} {k : MKey} {v : Elem} {old : Option Elem}
    (hl : AllKeyOk T L D l) (hd : KeysDistinct l) (hk : KeyOk T L D k) (h : SetEffect l l' k v old) :
    old = dictLookup l k ∧ AllKeyOk T L D l' ∧ KeysDistinct l' ∧
    (∀ k', KeyOk T L D k' → dictLookup l' k' = if k'.same k then some v else dictLookup l k') := by
  have hok' : AllKeyOk T L D l' := by
    intro p hp
    rcases h.mem p hp with rfl | hp
    · exact hk
    · exact hl p hp
  rcases h with ⟨ho, hne, A, B, rfl, rfl⟩ | ⟨v0, A, B, ho, rfl, rfl⟩
  · have hd' : KeysDistinct (A ++ (k, v) :: B) := by
      rw [KeysDistinct.append_iff] at hd ⊢
      refine ⟨hd.1, ?_, ?_⟩
      · rw [KeysDistinct.cons_iff]
        refine ⟨?_, hd.2.1⟩
        intro b hb
        have hbk : KeyOk T L D b.1 := hl b (List.mem_append_right _ hb)
        rw [KeyOk.same_false_iff hk hbk]
        exact fun e => hne b (List.mem_append_right _ hb) e.symm
      · intro a ha b hb
        rcases List.mem_cons.mp hb with rfl | hb
        · have hak : KeyOk T L D a.1 := hl a (List.mem_append_left _ ha)
          rw [KeyOk.same_false_iff hak hk]
          exact hne a (List.mem_append_left _ ha)
        · exact hd.2.2 a ha b hb
    refine ⟨?_, hok', hd', ?_⟩
    · rw [ho]; exact ((dictLookup_none_iff hl hk).mpr hne).symm
    · intro k' hk'
      cases hs : k'.same k
      · simp only [Bool.false_eq_true, if_false]
        rw [MKey.same_comm] at hs
        exact dictLookup_skip hs
      · have := (KeyOk.same_iff hk' hk).mp hs
        subst this
        simp only [if_true]
        exact dictLookup_zipper hd'
  · have hd' : KeysDistinct (A ++ (k, v) :: B) := by
      rw [KeysDistinct.append_iff] at hd ⊢
      refine ⟨hd.1, ?_, ?_⟩
      · rw [KeysDistinct.cons_iff] at hd ⊢
        exact hd.2.1
      · intro a ha b hb
        rcases List.mem_cons.mp hb with rfl | hb
        · exact hd.2.2 a ha (k, v0) List.mem_cons_self
        · exact hd.2.2 a ha b (List.mem_cons_of_mem _ hb)
    refine ⟨?_, hok', hd', ?_⟩
    · rw [ho]; exact (dictLookup_zipper hd).symm
    · intro k' hk'
      cases hs : k'.same k
      · simp only [Bool.false_eq_true, if_false]
        rw [MKey.same_comm] at hs
        rw [dictLookup_skip hs, dictLookup_skip hs]
      · have := (KeyOk.same_iff hk' hk).mp hs
        subst this
        simp only [if_true]
        exact dictLookup_zipper hd'

theorem RemEffect.spec {l l' : List (MKey × Elem)} {k : MKey} {v : Elem}
    (hl : AllKeyOk T L D l) (hd : KeysDistinct l) (hk : KeyOk T L D k) (h : RemEffect l l' k v) :
    dictLookup l k = some v ∧ AllKeyOk T L D l' ∧ KeysDistinct l' ∧
    (∀ k', KeyOk T L D k' → dictLookup l' k' = if k'.same k then none else dictLookup l k') := by
  have hok' : AllKeyOk T L D l' := fun p hp => hl p (h.mem p hp)
  obtain ⟨A, B, rfl, rfl⟩ := h
  have hd0 := hd
  rw [KeysDistinct.append_iff, KeysDistinct.cons_iff] at hd
  have hd' : KeysDistinct (A ++ B) := by
    rw [KeysDistinct.append_iff]
    exact ⟨hd.1, hd.2.1.2, fun a ha b hb => hd.2.2 a ha b (List.mem_cons_of_mem _ hb)⟩
  refine ⟨dictLookup_zipper hd0, hok', hd', ?_⟩
  intro k' hk'
  cases hs : k'.same k
  · simp only [Bool.false_eq_true, if_false]
    rw [MKey.same_comm] at hs
    rw [dictLookup_skip hs]
  · have := (KeyOk.same_iff hk' hk).mp hs
    subst this
    simp only [if_true]
    apply dictLookup_none_of
    intro p hp
    rcases List.mem_append.mp hp with hp | hp
    · exact hd.2.2 p hp (k', v) List.mem_cons_self
    · rw [MKey.same_comm]; exact hd.2.1.1 p hp

theorem dictLookup_some_of_mem {l : List (MKey × Elem)} {k : MKey} {v : Elem}
    (hd : KeysDistinct l) (hm : (k, v) ∈ l) : dictLookup l k = some v := by
  obtain ⟨A, B, rfl⟩ := List.append_of_mem hm
  exact dictLookup_zipper hd

theorem mem_of_dictLookup_some {l : List (MKey × Elem)} {k : MKey} {v : Elem}
    (hl : AllKeyOk T L D l) (hk : KeyOk T L D k) (h : dictLookup l k = some v) : (k, v) ∈ l := by
  induction l with
  | nil => simp [dictLookup_nil] at h
  | cons p l ih =>
    rw [dictLookup_cons] at h
    cases hs : p.1.same k
    · rw [hs] at h; simp at h
      exact List.mem_cons_of_mem _ (ih (fun q hq => hl q (List.mem_cons_of_mem _ hq)) h)
    · rw [hs] at h; simp at h
      have := (KeyOk.same_iff (hl p List.mem_cons_self) hk).mp hs
      have : p = (k, v) := by cases p; simp_all
      rw [this]; exact List.mem_cons_self

end Dict
end Atree
