import AtreeProofs.Map.TreeInv2
import AtreeProofs.Map.Loops
/-
  `MDataSlab.split / merge / lendToRight / borrowFromRight`.
-/
namespace Atree
open Gen

variable {T : Nat} {r : Nat} {D : DigestFn (r + 1)}

theorem maxEntry_eq (hT : legalThreshold T = true) : maxEntry T = (T - 26) / 2 := by
  have := map_legal_bounds hT
  simp only [maxEntry, maxInlineMapElem_eq, digestSize]; omega

theorem sum_take_reverse (l : List Nat) (j : Nat) (_hj : j ≤ l.length) :
    (l.reverse.take j).sum + (l.take (l.length - j)).sum = l.sum := by
  rw [List.take_reverse, List.sum_reverse]
  have := List.take_append_drop (l.length - j) l
  conv => rhs; rw [← this]
  rw [List.sum_append]; omega

namespace MDataSlab

/-- the entry sizes (element + digest) of a data slab -/
def sizes (s : MDataSlab r) : List Nat :=
  s.elems.elems.map (fun el => MElemF.size (MElems.ops r) el + digestSize)

theorem elemSizes_eq (s : MDataSlab r) : HkeyElems.elemSizes (MElems.ops r) s.elems.elems = s.sizes.sum := rfl

theorem elemSizes_take_eq (s : MDataSlab r) (j : Nat) :
    HkeyElems.elemSizes (MElems.ops r) (s.elems.elems.take j) = (s.sizes.take j).sum :=
  HkeyElems.elemSizes_take _ _ _

theorem elemSizes_drop_eq (s : MDataSlab r) (j : Nat) :
    HkeyElems.elemSizes (MElems.ops r) (s.elems.elems.drop j) = (s.sizes.drop j).sum := by
  simp [HkeyElems.elemSizes, sizes, List.map_drop]

theorem sizes_take_drop (s : MDataSlab r) (j : Nat) : (s.sizes.take j).sum + (s.sizes.drop j).sum = s.sizes.sum := by
  rw [← List.sum_append, List.take_append_drop]

theorem sizes_length (s : MDataSlab r) : s.sizes.length = s.elems.elems.length := by simp [sizes]

theorem size_nontop {s : MDataSlab r} (h : MDataLoose T D false s) :
    s.hdr.size = 26 + s.sizes.sum ∧ s.elems.size = 8 + s.sizes.sum := by
  have h1 := h.size_eq
  rw [h.prefix_nontop] at h1
  have h2 := h.hinv.size_eq
  rw [elemSizes_eq] at h2
  simp only [mapDataSlabPrefixSize, hkeyElementsPrefixSize] at *
  omega

theorem sizes_le (hT : legalThreshold T = true) {top : Bool} {s : MDataSlab r} (h : MDataLoose T D top s) :
    ∀ x ∈ s.sizes, x ≤ maxEntry T := h.sizes_le hT

theorem headD_take_nat {l : List Nat} {n : Nat} (hn : 1 ≤ n) : (l.take n).headD 0 = l.headD 0 := by
  cases l with
  | nil => simp
  | cons a l => cases n with
    | zero => omega
    | succ n => simp

theorem split_band (hT : legalThreshold T = true) {sz data lsz : Nat} (h1 : maxThr T < sz)
    (h2 : sz ≤ maxThr T + maxEntry T + 16) (hd : sz = 26 + data) (b1 : 2 * lsz ≤ data + maxEntry T)
    (b2 : data ≤ 2 * lsz + maxEntry T) :
    minThr T ≤ 26 + lsz ∧ 26 + lsz ≤ maxThr T ∧ minThr T ≤ 26 + (data - lsz) ∧ 26 + (data - lsz) ≤ maxThr T ∧
    1 ≤ lsz ∧ lsz < data := by
  have := map_legal_bounds hT
  rw [maxEntry_eq hT] at *
  simp only [maxThr, minThr] at *
  omega

theorem split_spec (hT : legalThreshold T = true) {s : MDataSlab r} (hs : MDataLoose T D false s)
    (hfull : maxThr T < s.hdr.size) (hle : s.hdr.size ≤ maxThr T + maxEntry T + 16) (c : Ctx) :
    ∃ l rr, s.split c = .ok (l, rr, (c.alloc s.hdr.id.addr).2) ∧
      MDataInv T D false l ∧ MDataInv T D false rr ∧
      s.elems.hkeys = l.elems.hkeys ++ rr.elems.hkeys ∧ s.elems.elems = l.elems.elems ++ rr.elems.elems ∧
      l.hdr.id = s.hdr.id ∧ rr.hdr.id = (c.alloc s.hdr.id.addr).1 ∧ l.next = rr.hdr.id ∧ rr.next = s.next := by
  obtain ⟨hsz, hesz⟩ := size_nontop hs
  have hE := sizes_le hT hs
  have H := hs.hinv
  obtain ⟨j, hj, heq, b1, b2⟩ := HkeyElems.splitLoop_spec ((s.sizes.sum + 1) / 2) s.sizes.sum (maxEntry T) rfl
    s.sizes 0 0 hE (by omega) (by
      have := map_legal_bounds hT
      simp only [maxThr] at hfull; omega)
  simp only [Nat.zero_add] at heq b1 b2
  obtain ⟨g1, g2, g3, g4, g5, g6⟩ := split_band hT hfull hle hsz b1 b2
  have hjpos : 1 ≤ j := by
    rcases Nat.eq_zero_or_pos j with h | h
    · subst h; simp at g5
    · exact h
  have hjlt : j < s.elems.elems.length := by
    rcases Nat.lt_or_ge j s.elems.elems.length with h | h
    · exact h
    · exfalso
      have : (s.sizes.take j) = s.sizes := List.take_of_length_le (by rw [sizes_length]; exact h)
      rw [this] at g6; omega
  have hlen2 : ¬ (s.elems.elems.length < 2) := by omega
  have hdata : s.elems.size - hkeyElementsPrefixSize = s.sizes.sum := by
    simp only [hkeyElementsPrefixSize]; omega
  have htk := elemSizes_take_eq s j
  have hdr : HkeyElems.elemSizes (MElems.ops r) (s.elems.elems.drop j) = s.sizes.sum - (s.sizes.take j).sum := by
    rw [elemSizes_drop_eq]
    have := sizes_take_drop s j
    omega
  have heq' : HkeyElems.splitLoop ((s.sizes.sum + 1) / 2) s.sizes.sum
      (List.map (fun el => MElemF.size (MElems.ops r) el + digestSize) s.elems.elems) 0 0 = (j, (s.sizes.take j).sum) := heq
  simp only [MDataSlab.split, if_neg hlen2, HkeyElems.split, eops, hdata, heq']
  refine ⟨_, _, rfl, ?_, ?_, ?_, ?_, rfl, rfl, rfl, rfl⟩
  · rw [mdataInv_iff hT]
    refine ⟨⟨?_, ?_, ?_, hs.root_eq, hs.inl_root⟩, ?_, ?_⟩
    · rw [elemsInv_succ_iff]
      exact H.take j H.2.1 rfl rfl (by simp only; rw [htk])
    · have := hs.prefix_nontop
      simp only [MDataSlab.prefixSize] at this ⊢
      rw [this]
    · simp only [HkeyElems.firstKey]
      rw [headD_take_nat hjpos]; exact hs.first_eq
    · simp only [mapDataSlabPrefixSize, hkeyElementsPrefixSize]; omega
    · intro _; simp only [mapDataSlabPrefixSize, hkeyElementsPrefixSize]; omega
  · rw [mdataInv_iff hT]
    refine ⟨⟨?_, ?_, rfl, rfl, ?_⟩, ?_, ?_⟩
    · rw [elemsInv_succ_iff]
      exact H.drop j H.2.1 rfl rfl (by simp only; rw [hdr]; simp only [hkeyElementsPrefixSize]; omega)
    · simp [MDataSlab.prefixSize]
    · intro h; cases h
    · simp only [mapDataSlabPrefixSize, hkeyElementsPrefixSize]; omega
    · intro _; simp only [mapDataSlabPrefixSize, hkeyElementsPrefixSize]; omega
  · exact (List.take_append_drop j _).symm
  · exact (List.take_append_drop j _).symm

theorem merge_spec {l rr : MDataSlab r} (hl : MDataLoose T D false l) (hr : MDataLoose T D false rr)
    (hlt : ∀ a ∈ l.elems.hkeys, ∀ b ∈ rr.elems.hkeys, a < b) :
    MDataLoose T D false (MDataSlab.merge l rr) ∧
    (MDataSlab.merge l rr).hdr.size + 26 = l.hdr.size + rr.hdr.size ∧
    (MDataSlab.merge l rr).elems.hkeys = l.elems.hkeys ++ rr.elems.hkeys ∧
    (MDataSlab.merge l rr).elems.elems = l.elems.elems ++ rr.elems.elems ∧
    (MDataSlab.merge l rr).hdr.id = l.hdr.id ∧ (MDataSlab.merge l rr).next = rr.next := by
  obtain ⟨hsz1, hesz1⟩ := size_nontop hl
  obtain ⟨hsz2, hesz2⟩ := size_nontop hr
  refine ⟨⟨?_, ?_, rfl, hl.root_eq, hl.inl_root⟩, ?_, rfl, rfl, rfl, rfl⟩
  · rw [elemsInv_succ_iff]
    refine hl.hinv.append hr.hinv hlt hl.hinv.2.1 rfl rfl ?_
    simp only [MDataSlab.merge, HkeyElems.merge]
    rw [HkeyElems.elemSizes_append, elemSizes_eq, elemSizes_eq]
    simp only [hkeyElementsPrefixSize] at *
    omega
  · have h1 : (MDataSlab.merge l rr).prefixSize = l.prefixSize := rfl
    rw [h1, hl.prefix_nontop]; rfl
  · simp only [MDataSlab.merge, HkeyElems.merge, mapDataSlabPrefixSize, hkeyElementsPrefixSize]
    omega

end MDataSlab
end Atree
