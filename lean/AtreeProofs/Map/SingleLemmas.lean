import AtreeProofs.Map.ElemsSpec
/-
  `SingleElems.ops` (the insertion-ordered list at the last digest level) satisfies `OpsSpec`.
-/
namespace Atree
open Gen

theorem find?_zipper {α : Type} {p : α → Bool} {A B : List α} {x : α} (hA : ∀ a ∈ A, p a = false)
    (hx : p x = true) : (A ++ x :: B).find? p = some x := by
  induction A with
  | nil => simp [hx]
  | cons a A ih =>
    simp only [List.cons_append, List.find?_cons, hA a List.mem_cons_self]
    exact ih (fun b hb => hA b (List.mem_cons_of_mem _ hb))

theorem findIdx?_zipper {α : Type} {p : α → Bool} {A B : List α} {x : α} (hA : ∀ a ∈ A, p a = false)
    (hx : p x = true) : (A ++ x :: B).findIdx? p = some A.length := by
  rw [List.findIdx?_eq_some_iff_getElem]
  refine ⟨by simp, by simp [hx], ?_⟩
  intro j hj
  rw [List.getElem_append_left hj, hA _ (List.getElem_mem _)]; simp

namespace SingleElems
variable {T L : Nat} {D : DigestFn L} {cfg : MCfg}

def pairOf (x : SElem) : MKey × Elem := (x.key, x.val)

theorem toList_eq (e : SingleElems) : SingleElems.ops.toList e = e.elems.map pairOf := rfl

theorem inv_iff (ℓ : Nat) (path : List Nat) (e : SingleElems) :
    ElemsInv T L D 0 ℓ path e ↔
    (ℓ = L ∧ e.level = ℓ ∧ e.size = singleElementsPrefixSize + (e.elems.map (·.size)).sum ∧
      (∀ x ∈ e.elems, SElemOk T L D x ∧ x.key.digs.take ℓ = path) ∧ KeysDistinct (e.elems.map pairOf)) := by
  simp only [ElemsInv]; rfl

/-- decomposition at the element holding key `k` -/
theorem split_of_mem {e : SingleElems} {ℓ : Nat} {path : List Nat} (h : ElemsInv T L D 0 ℓ path e)
    {k : MKey} {v : Elem} (hm : (k, v) ∈ e.elems.map pairOf) :
    ∃ A x B, e.elems = A ++ x :: B ∧ x.key = k ∧ x.val = v ∧ (∀ a ∈ A, a.key.same k = false) ∧
      (∀ b ∈ B, b.key.same k = false) := by
  rw [inv_iff] at h
  obtain ⟨_, _, _, _, hd⟩ := h
  obtain ⟨x, hx, hxe⟩ := List.mem_map.mp hm
  obtain ⟨A, B, hAB⟩ := List.append_of_mem hx
  simp only [pairOf, Prod.mk.injEq] at hxe
  rw [hAB, List.map_append, List.map_cons, KeysDistinct.append_iff, KeysDistinct.cons_iff] at hd
  refine ⟨A, x, B, hAB, hxe.1, hxe.2, ?_, ?_⟩
  · intro a ha
    have := hd.2.2 (pairOf a) (List.mem_map_of_mem ha) (pairOf x) List.mem_cons_self
    rw [← hxe.1]; exact this
  · intro b hb
    have := hd.2.1.1 (pairOf b) (List.mem_map_of_mem hb)
    rw [MKey.same_comm, ← hxe.1]; exact this

theorem absent {e : SingleElems} {ℓ : Nat} {path : List Nat} (h : ElemsInv T L D 0 ℓ path e)
    {k : MKey} (hk : KeyOk T L D k) (hne : ∀ p ∈ e.elems.map pairOf, p.1 ≠ k) :
    ∀ x ∈ e.elems, x.key.same k = false := by
  rw [inv_iff] at h
  intro x hx
  rw [KeyOk.same_false_iff (h.2.2.2.1 x hx).1.1 hk]
  exact hne (pairOf x) (List.mem_map_of_mem hx)

theorem get_spec (hc : CfgFor cfg T L) {e : SingleElems} {ℓ : Nat} {path : List Nat}
    (h : ElemsInv T L D 0 ℓ path e) {k : MKey} (hk : KeyOk T L D k) :
    (∀ v, (k, v) ∈ e.elems.map pairOf → SingleElems.get cfg e ℓ k = .ok (k, v)) ∧
    ((∀ p ∈ e.elems.map pairOf, p.1 ≠ k) → SingleElems.get cfg e ℓ k = .error .keyNotFound) := by
  have hℓ : (ℓ ≠ cfg.L) ↔ False := by rw [hc.hL]; simp [((inv_iff ℓ path e).mp h).1]
  constructor
  · intro v hm
    obtain ⟨A, x, B, hAB, hxk, hxv, hA, hB⟩ := split_of_mem h hm
    have hf : e.elems.find? (fun x => x.key.same k) = some x := by
      rw [hAB]; exact find?_zipper hA (by rw [hxk]; exact MKey.same_self k)
    simp only [SingleElems.get, hℓ, if_false, hf, hxk, hxv]
  · intro hne
    have hf : e.elems.find? (fun x => x.key.same k) = none := by
      rw [List.find?_eq_none]; intro x hx; simp [absent h hk hne x hx]
    simp only [SingleElems.get, hℓ, if_false, hf]

theorem set_zipper {α : Type} (A B : List α) (x y : α) : (A ++ x :: B).set A.length y = A ++ y :: B := by
  simp

theorem eraseIdx_zipper {α : Type} (A B : List α) (x : α) : (A ++ x :: B).eraseIdx A.length = A ++ B := by
  induction A with
  | nil => rfl
  | cons a A ih => simp only [List.cons_append, List.length_cons, List.eraseIdx_cons_succ, ih]

theorem getElem?_zipper {α : Type} (A B : List α) (x : α) : (A ++ x :: B)[A.length]? = some x := by
  simp

theorem allKeyOk {e : SingleElems} {ℓ : Nat} {path : List Nat} (h : ElemsInv T L D 0 ℓ path e) :
    AllKeyOk T L D (e.elems.map pairOf) := by
  rw [inv_iff] at h
  intro p hp
  obtain ⟨x, hx, rfl⟩ := List.mem_map.mp hp
  exact (h.2.2.2.1 x hx).1.1

theorem set_spec (hT : legalThreshold T = true) (hc : CfgFor cfg T L) {e : SingleElems} {ℓ : Nat} {path : List Nat}
    (h : ElemsInv T L D 0 ℓ path e) {k : MKey} (hk : KeyOk T L D k) (hp : k.digs.take ℓ = path)
    {v : Elem} (hv : ValueOkM v) (c : Ctx) :
    ∃ old e' c', SingleElems.set cfg e ℓ k v c = .ok (k, old, e', c') ∧ ElemsInv T L D 0 ℓ path e' ∧
      SetEffect (e.elems.map pairOf) (e'.elems.map pairOf) k (storedValue cfg k v c) old ∧ c.ctr ≤ c'.ctr := by
  have hinv := (inv_iff ℓ path e).mp h
  have hℓ : (ℓ ≠ cfg.L) ↔ False := by rw [hc.hL]; simp [hinv.1]
  have hcT := hc.hT
  rcases hts : toStorableLim (maxInlineMapValue cfg.T k.size) cfg.addr v c with ⟨vs, c1⟩
  have hsv : storedValue cfg k v c = vs := by simp [storedValue, hts]
  have hspec := toStorableLim_spec (lim := maxInlineMapValue cfg.T k.size) (addr := cfg.addr) c hv
    (by rw [hcT]; exact maxInlineMapValue_ge hT hk.2.2)
  rw [hts, hcT] at hspec
  rw [hsv]
  have hall := allKeyOk h
  by_cases hex : ∃ v0, (k, v0) ∈ e.elems.map pairOf
  · obtain ⟨v0, hm⟩ := hex
    obtain ⟨A, x, B, hAB, hxk, hxv, hA, hB⟩ := split_of_mem h hm
    have hf : e.elems.findIdx? (fun x => x.key.same k) = some A.length := by
      rw [hAB]; exact findIdx?_zipper hA (by rw [hxk]; exact MKey.same_self k)
    have hg : e.elems[A.length]? = some x := by rw [hAB]; exact getElem?_zipper A B x
    subst hxk
    have heff : SetEffect (e.elems.map pairOf) ((A ++ { x with val := vs, size := singleElementPrefixSize + x.key.size + vs.size } :: B).map pairOf)
        x.key vs (some x.val) := by
      right
      refine ⟨x.val, A.map pairOf, B.map pairOf, rfl, ?_, ?_⟩
      · rw [hAB]; simp [pairOf]
      · simp [pairOf]
    simp only [SingleElems.set, hℓ, if_false, hf, hg, hts]
    refine ⟨_, _, _, rfl, ?_, ?_, hspec.2.2⟩
    · rw [inv_iff]
      simp only
      rw [hAB, set_zipper]
      refine ⟨hinv.1, hinv.2.1, trivial, ?_, ?_⟩
      · intro y hy
        rcases List.mem_append.mp hy with hy | hy
        · exact hinv.2.2.2.1 y (by rw [hAB]; exact List.mem_append_left _ hy)
        · rcases List.mem_cons.mp hy with rfl | hy
          · have hx := hinv.2.2.2.1 x (by rw [hAB]; simp)
            exact ⟨⟨hx.1.1, hspec.1, hspec.2.1, rfl⟩, hx.2⟩
          · exact hinv.2.2.2.1 y (by rw [hAB]; simp [hy])
      · exact (SetEffect.spec hall hinv.2.2.2.2 hk heff).2.2.1
    · simp only
      rw [hAB, set_zipper, ← hAB]
      rw [hxv]; rw [hxv] at heff; exact heff
  · have hne : ∀ p ∈ e.elems.map pairOf, p.1 ≠ k := by
      intro p hp hpk
      exact hex ⟨p.2, by rw [← hpk]; exact hp⟩
    have hf : e.elems.findIdx? (fun x => x.key.same k) = none := by
      rw [List.findIdx?_eq_none_iff]; intro x hx; simp [absent h hk hne x hx]
    have heff : SetEffect (e.elems.map pairOf) ((e.elems ++ [({ key := k, val := vs, size := singleElementPrefixSize + k.size + vs.size } : SElem)]).map pairOf)
        k vs none := by
      left
      refine ⟨rfl, hne, e.elems.map pairOf, [], by simp, by simp [pairOf]⟩
    simp only [SingleElems.set, hℓ, if_false, hf, newSingleElement, hts]
    refine ⟨_, _, _, rfl, ?_, heff, hspec.2.2⟩
    rw [inv_iff]
    simp only
    refine ⟨hinv.1, hinv.2.1, ?_, ?_, ?_⟩
    · rw [hinv.2.2.1]; simp [List.sum_append]; omega
    · intro y hy
      rcases List.mem_append.mp hy with hy | hy
      · exact hinv.2.2.2.1 y hy
      · simp only [List.mem_singleton] at hy
        subst hy
        exact ⟨⟨hk, hspec.1, hspec.2.1, rfl⟩, hp⟩
    · exact (SetEffect.spec hall hinv.2.2.2.2 hk heff).2.2.1

theorem remove_spec (hc : CfgFor cfg T L) {e : SingleElems} {ℓ : Nat} {path : List Nat}
    (h : ElemsInv T L D 0 ℓ path e) {k : MKey} (hk : KeyOk T L D k) (c : Ctx) :
    ((∀ p ∈ e.elems.map pairOf, p.1 ≠ k) → SingleElems.remove cfg e ℓ k c = .error .keyNotFound) ∧
    (∀ v, (k, v) ∈ e.elems.map pairOf → ∃ e' c', SingleElems.remove cfg e ℓ k c = .ok (k, v, e', c') ∧
      ElemsInv T L D 0 ℓ path e' ∧ RemEffect (e.elems.map pairOf) (e'.elems.map pairOf) k v ∧
      e'.size ≤ e.size ∧ c'.ctr = c.ctr) := by
  have hinv := (inv_iff ℓ path e).mp h
  have hℓ : (ℓ ≠ cfg.L) ↔ False := by rw [hc.hL]; simp [hinv.1]
  have hall := allKeyOk h
  constructor
  · intro hne
    have hf : e.elems.findIdx? (fun x => x.key.same k) = none := by
      rw [List.findIdx?_eq_none_iff]; intro x hx; simp [absent h hk hne x hx]
    simp only [SingleElems.remove, hℓ, if_false, hf]
  · intro v hm
    obtain ⟨A, x, B, hAB, hxk, hxv, hA, hB⟩ := split_of_mem h hm
    have hf : e.elems.findIdx? (fun x => x.key.same k) = some A.length := by
      rw [hAB]; exact findIdx?_zipper hA (by rw [hxk]; exact MKey.same_self k)
    have hg : e.elems[A.length]? = some x := by rw [hAB]; exact getElem?_zipper A B x
    subst hxk hxv
    have heff : RemEffect (e.elems.map pairOf) ((A ++ B).map pairOf) x.key x.val :=
      ⟨A.map pairOf, B.map pairOf, by rw [hAB]; simp [pairOf], by simp⟩
    simp only [SingleElems.remove, hℓ, if_false, hf, hg]
    refine ⟨_, _, rfl, ?_, ?_, ?_, rfl⟩
    · rw [inv_iff]
      simp only
      rw [hAB, eraseIdx_zipper]
      refine ⟨hinv.1, hinv.2.1, ?_, ?_, ?_⟩
      · rw [hinv.2.2.1, hAB]; simp [List.sum_append]; omega
      · intro y hy
        exact hinv.2.2.2.1 y (by rw [hAB]; rcases List.mem_append.mp hy with hy | hy <;> simp [hy])
      · exact (RemEffect.spec hall hinv.2.2.2.2 hk heff).2.2.1
    · simp only; rw [hAB, eraseIdx_zipper, ← hAB]; exact heff
    · simp only; omega

theorem opsStruct : OpsStruct T L D SingleElems.ops (ElemsInv T L D 0) 0 where
  level_eq := by
    intro ℓ path e h; have := ((inv_iff ℓ path e).mp h).1; omega
  keys := by
    intro ℓ path e h p hp
    obtain ⟨x, hx, rfl⟩ := List.mem_map.mp hp
    have := ((inv_iff ℓ path e).mp h).2.2.2.1 x hx
    exact ⟨this.1.1, this.2⟩
  distinct := by
    intro ℓ path e h; exact ((inv_iff ℓ path e).mp h).2.2.2.2
  ordered := by
    intro ℓ path e h
    have hinv := (inv_iff ℓ path e).mp h
    show ((e.elems.map pairOf).map _).Pairwise _
    rw [List.map_map, List.pairwise_map]
    apply List.Pairwise.imp_of_mem (R := fun _ _ => True)
    · intro a b ha hb _
      left
      have h1 := hinv.2.2.2.1 a ha
      have h2 := hinv.2.2.2.1 b hb
      have l1 := h1.1.1.digs_length
      have l2 := h2.1.1.digs_length
      simp only [Function.comp, pairOf]
      rw [← List.take_of_length_le (Nat.le_of_eq l1), ← List.take_of_length_le (Nat.le_of_eq l2),
        ← hinv.1, h1.2, h2.2]
    · exact List.pairwise_of_forall (fun _ _ => trivial)
  count_pos := by
    intro ℓ path e h
    show 1 ≤ e.elems.length ↔ e.elems.map pairOf ≠ []
    cases e.elems <;> simp
  two_keys := by
    intro ℓ path e h h1 h2
    show 2 ≤ (e.elems.map pairOf).length
    have h2' : (match e.elems with | [x] => some x | _ => none) = none := h2
    have h1' : 1 ≤ e.elems.length := h1
    rcases he : e.elems with _ | ⟨x, _ | ⟨y, r⟩⟩
    · rw [he] at h1'; simp at h1'
    · rw [he] at h2'; simp at h2'
    · simp
  sole := by
    intro ℓ path e x h hs
    have hs' : (match e.elems with | [x] => some x | _ => none) = some x := hs
    have hinv := (inv_iff ℓ path e).mp h
    rcases he : e.elems with _ | ⟨y, _ | ⟨z, r⟩⟩
    · rw [he] at hs'; simp at hs'
    · rw [he] at hs'; simp at hs'; subst hs'
      refine ⟨(hinv.2.2.2.1 y (by rw [he]; simp)).1, ?_, ?_⟩
      · show e.elems.map pairOf = _; rw [he]; rfl
      · show y.size ≤ e.size; rw [hinv.2.2.1, he]; simp
    · rw [he] at hs'; simp at hs'
  popIter := by
    intro e c
    show e.elems.reverse.map _ = (e.elems.map _).reverse
    rw [List.map_reverse]

theorem opsSpec (hT : legalThreshold T = true) (hc : CfgFor cfg T L) :
    OpsSpec T L D cfg SingleElems.ops (ElemsInv T L D 0) 0 where
  toOpsStruct := opsStruct
  newWith := by
    intro ℓ path x hℓ hx hp
    have hℓ' : ℓ = cfg.L := by rw [hc.hL]; omega
    refine ⟨{ level := ℓ, size := singleElementsPrefixSize + x.size, elems := [x] }, ?_, ?_, rfl⟩
    · show (if ℓ ≠ cfg.L then _ else _) = _
      simp [hℓ']
    · rw [inv_iff]
      refine ⟨by omega, rfl, by simp, ?_, by simp [KeysDistinct]⟩
      intro y hy; simp at hy; subst hy; exact ⟨hx, hp⟩
  get := by
    intro ℓ path e k h hk _
    exact get_spec hc h hk
  set := by
    intro ℓ path e k v c h _ hk hp hv
    exact set_spec hT hc h hk hp hv c
  remove := by
    intro ℓ path e k c h _ hk _
    exact remove_spec hc h hk c

end SingleElems
end Atree
