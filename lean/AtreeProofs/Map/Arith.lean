import AtreeProofs.Map.Basics
/-
  Threshold arithmetic and `toStorableLim`.
-/
namespace Atree
open Gen

theorem map_legal_bounds {T : Nat} (hT : legalThreshold T = true) : 256 ≤ T ∧ T ≤ 32768 := by
  simp only [legalThreshold, minSlabSize, maxSlabSize, Bool.and_eq_true] at hT
  exact ⟨of_decide_eq_true hT.1, of_decide_eq_true hT.2⟩

theorem maxInlineMapElem_eq (T : Nat) : maxInlineMapElem T = (T - 26) / 2 - 8 := by
  simp [maxInlineMapElem, mapDataSlabPrefixSize, hkeyElementsPrefixSize, minElementCountInSlab, digestSize]
  omega

theorem maxInlineMapKey_eq (T : Nat) : maxInlineMapKey T = (maxInlineMapElem T - 1) / 2 := by
  simp [maxInlineMapKey, singleElementPrefixSize]

theorem maxInlineMapValue_eq (T ks : Nat) : maxInlineMapValue T ks = maxInlineMapElem T - ks - 1 := by
  simp [maxInlineMapValue, singleElementPrefixSize]

theorem maxInlineMapElem_ge {T : Nat} (hT : legalThreshold T = true) : 107 ≤ maxInlineMapElem T := by
  have := map_legal_bounds hT; rw [maxInlineMapElem_eq]; omega

theorem slabIDStorableSize_eq : slabIDStorableSize = 19 := by
  simp [slabIDStorableSize, SlabIDLength]

theorem maxInlineMapValue_ge {T ks : Nat} (hT : legalThreshold T = true) (hk : ks ≤ maxInlineMapKey T) :
    slabIDStorableSize ≤ maxInlineMapValue T ks := by
  have := maxInlineMapElem_ge hT
  rw [maxInlineMapKey_eq] at hk
  rw [maxInlineMapValue_eq, slabIDStorableSize_eq]; omega

theorem single_size_le {T ks vs : Nat} (hT : legalThreshold T = true) (hk : ks ≤ maxInlineMapKey T)
    (hv : vs ≤ maxInlineMapValue T ks) : singleElementPrefixSize + ks + vs ≤ maxInlineMapElem T := by
  have := maxInlineMapElem_ge hT
  rw [maxInlineMapKey_eq] at hk
  rw [maxInlineMapValue_eq] at hv
  simp only [singleElementPrefixSize]; omega

theorem ext_size_le {T : Nat} (hT : legalThreshold T = true) :
    externalCollisionGroupPrefixSize + slabIDStorableSize ≤ maxInlineMapElem T := by
  have := maxInlineMapElem_ge hT
  rw [slabIDStorableSize_eq]; simp only [externalCollisionGroupPrefixSize]; omega

theorem toStorableLim_spec {lim addr : Nat} {v : Elem} (c : Ctx) (hv : ValueOkM v)
    (hlim : slabIDStorableSize ≤ lim) :
    1 ≤ (toStorableLim lim addr v c).1.size ∧ (toStorableLim lim addr v c).1.size ≤ lim ∧
    c.ctr ≤ (toStorableLim lim addr v c).2.ctr := by
  obtain ⟨h1, n, hn⟩ := hv
  unfold toStorableLim
  rw [hn]
  simp only
  split
  · simp [Ctx.alloc, Ctx.emit, slabIDStorableSize_eq] at *
    omega
  · simp; omega

end Atree
