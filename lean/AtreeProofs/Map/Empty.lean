import AtreeProofs.Map.TreeBasics
/-
  The empty map (result of `OMap.new` and of `OMap.popIterate`), and `popIterate`.
-/
namespace Atree
open Gen

variable {T : Nat} {r : Nat} {D : DigestFn (r + 1)}

/-- the empty standalone root slab -/
def emptyRoot (r : Nat) (id : SlabID) : MDataSlab r :=
  { hdr := { id := id, size := mapRootDataSlabPrefixSize + hkeyElementsPrefixSize, firstKey := 0 },
    next := SlabID.undef, elems := { hkeys := [], elems := [], size := hkeyElementsPrefixSize, level := 0 },
    root := true, inlined := false }

theorem emptyRoot_inv (hT : legalThreshold T = true) (id : SlabID) : MDataInv T D true (emptyRoot r id) where
  elems_inv := by
    simp only [ElemsInv, emptyRoot]
    refine ⟨by omega, trivial, rfl, List.Pairwise.nil, by simp [HkeyElems.elemSizes], ?_⟩
    intro i hk el hi; simp at hi
  size_eq := by simp [emptyRoot, MDataSlab.prefixSize]
  first_eq := rfl
  root_eq := rfl
  inl_root := by intro h; simp [emptyRoot] at h
  le_max := by
    have := map_legal_bounds hT
    simp [emptyRoot, maxThr, mapRootDataSlabPrefixSize, hkeyElementsPrefixSize]; omega
  ge_min := by intro h; cases h
  nonempty := by intro h; cases h
  elem_le := by intro el hel; simp [emptyRoot] at hel

theorem emptyMap_inv (hT : legalThreshold T = true) (id : SlabID) (ty seed : Nat) :
    MapInv T D (⟨0, emptyRoot r id, ty, 0, seed⟩ : OMap r) where
  tree := (mtreeInv_zero_iff T D _ _).mpr (emptyRoot_inv hT id)
  chain := by simp [MTree.leaves, MLeafChain, emptyRoot]
  count_eq := by simp [OMap.toList, MTree.toList, HkeyElems.toList, emptyRoot]
  distinct := by simp [OMap.toList, MTree.toList, HkeyElems.toList, emptyRoot, KeysDistinct]
  standalone := by simp [OMap.isInlined, emptyRoot]

theorem MTree.popIterate_fst : ∀ (d : Nat) (t : MTree r d) (c : Ctx),
    (MTree.popIterate d t c).1 = (MTree.toList d t).reverse
  | 0, s, c => by
    show (MDataSlab.popIterate s c).1 = _
    simp only [MDataSlab.popIterate, MDataSlab.eops]
    exact HInv.popIter_fst (T := 0) (L := 0) (D := ⟨fun _ => [], fun _ => rfl⟩)
      (Inv := ElemsInv 0 0 ⟨fun _ => [], fun _ => rfl⟩ r) (rr := r) (MElems.opsStruct 0 _ r) s.elems c
  | d + 1, m, c => by
    have hfold : ∀ (l : List (MTree r d)) (acc : List (MKey × Elem)) (c : Ctx),
        (l.foldl (fun (acc : List (MKey × Elem) × Ctx) child =>
          ((acc.1 ++ (MTree.popIterate d child acc.2).1,
            (MTree.popIterate d child acc.2).2.2.emit (.remove (MTree.hdr d child).id)) : List (MKey × Elem) × Ctx))
          (acc, c)).1 = acc ++ l.flatMap (fun ch => (MTree.toList d ch).reverse) := by
      intro l
      induction l with
      | nil => intro acc c; simp
      | cons a l ih =>
        intro acc c
        rw [List.foldl_cons, ih, MTree.popIterate_fst d a]
        simp
    show (MTree.popIterate (d + 1) m c).1 = (m.children.flatMap (MTree.toList d)).reverse
    rw [List.reverse_flatMap]
    have := hfold m.children.reverse [] c
    simp only [List.nil_append] at this
    simp only [MTree.popIterate]
    exact this

end Atree
