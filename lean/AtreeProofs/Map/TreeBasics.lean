import AtreeProofs.Map.DataSlab
/-
  Structural consequences of `MTreeInv` (no operations): keys, routing digests, order, distinctness.
-/
namespace Atree
open Gen

variable {T : Nat} {r : Nat} {D : DigestFn (r + 1)}

namespace MDataLoose
variable {top : Bool} {s : MDataSlab r}

theorem pairs_ok (h : MDataLoose T D top s) :
    ∀ p ∈ s.pairs, KeyOk T (r + 1) D p.1 ∧ p.1.dig 0 ∈ s.elems.hkeys := by
  intro p hp
  have H := h.hinv
  obtain ⟨i, hk, el, hi, hel, hpel⟩ := H.mem_toList hp
  have := H.keys_at (MElems.opsStruct T D r) hi hel p hpel
  exact ⟨this.1, by rw [this.2.2]; exact List.mem_of_getElem? hi⟩

theorem ordered (h : MDataLoose T D top s) :
    (s.pairs.map (fun p => p.1.digs)).Pairwise (fun a b => a = b ∨ List.Lex (· < ·) a b) :=
  h.hinv.ordered (MElems.opsStruct T D r)

theorem distinct (h : MDataLoose T D top s) : KeysDistinct s.pairs :=
  h.hinv.distinct (MElems.opsStruct T D r)

theorem sorted (h : MDataLoose T D top s) : s.elems.hkeys.Pairwise (· < ·) := h.hinv.sorted

theorem nonempty_iff (h : MDataLoose T D top s) : s.elems.elems ≠ [] ↔ s.elems.hkeys ≠ [] := by
  have := h.hinv.len_eq
  constructor
  · intro h1 h2; rw [h2] at this; simp at this; exact h1 (List.eq_nil_of_length_eq_zero this.symm)
  · intro h1 h2; rw [h2] at this; simp at this; exact h1 this

end MDataLoose

theorem dig0_lt_imp {a b : MKey} (ha : KeyOk T (r + 1) D a) (hb : KeyOk T (r + 1) D b) (h : a.dig 0 < b.dig 0) :
    a ≠ b ∧ List.Lex (· < ·) a.digs b.digs := by
  have h1 := ha.take_succ (ℓ := 0) (by omega)
  have h2 := hb.take_succ (ℓ := 0) (by omega)
  simp only [List.take_zero, List.nil_append] at h1 h2
  refine ⟨?_, lex_of_prefix (p := []) h1 h2 h⟩
  intro e; subst e; omega

namespace MTreeInv

theorem sorted : ∀ (d : Nat) (top : Bool) (t : MTree r d), MTreeInv T D d top t →
    (MTree.digests0 d t).Pairwise (· < ·)
  | 0, _, _, h => ((mtreeInv_zero_iff T D _ _).mp h).loose.sorted
  | _ + 1, _, _, h => ((mtreeInv_succ_iff T D _ _ _).mp h).1.2.2.2.2.2.2.2

theorem pairs_ok : ∀ (d : Nat) (top : Bool) (t : MTree r d), MTreeInv T D d top t →
    ∀ p ∈ MTree.toList d t, KeyOk T (r + 1) D p.1 ∧ p.1.dig 0 ∈ MTree.digests0 d t
  | 0, _, _, h => ((mtreeInv_zero_iff T D _ _).mp h).loose.pairs_ok
  | d + 1, top, m, h => by
    have hm := ((mtreeInv_succ_iff T D d top m).mp h).1
    intro p hp
    obtain ⟨c, hc, hpc⟩ := List.mem_flatMap.mp hp
    have := pairs_ok d false c (hm.2.2.2.2.1 c hc) p hpc
    exact ⟨this.1, List.mem_flatMap.mpr ⟨c, hc, this.2⟩⟩

/-- pairs of different children are separated by their first-level digest -/
theorem children_sep {d : Nat} {top : Bool} {m : MMetaSlab (MTree r d)} (hm : MetaLoose T D d top m) :
    m.children.Pairwise (fun c1 c2 => ∀ x ∈ MTree.toList d c1, ∀ y ∈ MTree.toList d c2,
      KeyOk T (r + 1) D x.1 ∧ KeyOk T (r + 1) D y.1 ∧ x.1.dig 0 < y.1.dig 0) := by
  have hs : (m.children.flatMap (MTree.digests0 d)).Pairwise (· < ·) := hm.2.2.2.2.2.2.2
  rw [List.pairwise_flatMap] at hs
  refine hs.2.imp_of_mem ?_
  intro c1 c2 h1 h2 hlt x hx y hy
  have hx' := pairs_ok d false c1 (hm.2.2.2.2.1 c1 h1) x hx
  have hy' := pairs_ok d false c2 (hm.2.2.2.2.1 c2 h2) y hy
  exact ⟨hx'.1, hy'.1, hlt _ hx'.2 _ hy'.2⟩

theorem ordered : ∀ (d : Nat) (top : Bool) (t : MTree r d), MTreeInv T D d top t →
    ((MTree.toList d t).map (fun p => p.1.digs)).Pairwise (fun a b => a = b ∨ List.Lex (· < ·) a b)
  | 0, _, _, h => ((mtreeInv_zero_iff T D _ _).mp h).loose.ordered
  | d + 1, top, m, h => by
    have hm := ((mtreeInv_succ_iff T D d top m).mp h).1
    show ((m.children.flatMap (MTree.toList d)).map _).Pairwise _
    rw [List.map_flatMap, List.pairwise_flatMap]
    constructor
    · intro c hc; exact ordered d false c (hm.2.2.2.2.1 c hc)
    · refine (children_sep hm).imp ?_
      intro c1 c2 hsep a ha b hb
      obtain ⟨x, hx, rfl⟩ := List.mem_map.mp ha
      obtain ⟨y, hy, rfl⟩ := List.mem_map.mp hb
      obtain ⟨k1, k2, hlt⟩ := hsep x hx y hy
      exact Or.inr (dig0_lt_imp k1 k2 hlt).2

theorem distinct : ∀ (d : Nat) (top : Bool) (t : MTree r d), MTreeInv T D d top t →
    KeysDistinct (MTree.toList d t)
  | 0, _, _, h => ((mtreeInv_zero_iff T D _ _).mp h).loose.distinct
  | d + 1, top, m, h => by
    have hm := ((mtreeInv_succ_iff T D d top m).mp h).1
    show KeysDistinct (m.children.flatMap (MTree.toList d))
    unfold KeysDistinct
    rw [List.pairwise_flatMap]
    constructor
    · intro c hc; exact distinct d false c (hm.2.2.2.2.1 c hc)
    · refine (children_sep hm).imp ?_
      intro c1 c2 hsep x hx y hy
      obtain ⟨k1, k2, hlt⟩ := hsep x hx y hy
      rw [KeyOk.same_false_iff k1 k2]
      exact (dig0_lt_imp k1 k2 hlt).1

end MTreeInv
end Atree
