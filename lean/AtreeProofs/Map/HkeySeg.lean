import AtreeProofs.Map.HkeyBasics
/-
  Cutting and concatenating digest tables (split / merge / lend / borrow) preserves `HInv`.
-/
namespace Atree
open Gen

namespace HInv
variable {T L : Nat} {D : DigestFn L} {α : Type} {o : ElemsOps α}
  {Inv : Nat → List Nat → α → Prop} {rr : Nat} {ℓ : Nat} {path : List Nat}

/-- a table all of whose (digest, element) pairs come from tables satisfying `HInv` -/
theorem of_pieces {he' : HkeyElems α} (hlev : ℓ + rr + 1 = L) (hl : he'.level = ℓ)
    (hlen : he'.hkeys.length = he'.elems.length) (hs : he'.hkeys.Pairwise (· < ·))
    (hsz : he'.size = hkeyElementsPrefixSize + HkeyElems.elemSizes o he'.elems)
    (hsrc : ∀ (i hk : Nat) (el : MElemF α), he'.hkeys[i]? = some hk → he'.elems[i]? = some el →
      ∃ (h : HkeyElems α) (j : Nat), HInv T L D o Inv rr ℓ path h ∧ h.hkeys[j]? = some hk ∧ h.elems[j]? = some el) :
    HInv T L D o Inv rr ℓ path he' := by
  refine ⟨hlev, hl, hlen, hs, hsz, ?_⟩
  intro i hk el hi hel
  obtain ⟨h, j, H, hj, hjel⟩ := hsrc i hk el hi hel
  exact H.elemOk hj hjel

theorem take {he he' : HkeyElems α} (H : HInv T L D o Inv rr ℓ path he) (n : Nat) (hl : he'.level = ℓ)
    (hk : he'.hkeys = he.hkeys.take n) (hel : he'.elems = he.elems.take n)
    (hsz : he'.size = hkeyElementsPrefixSize + HkeyElems.elemSizes o (he.elems.take n)) :
    HInv T L D o Inv rr ℓ path he' := by
  apply of_pieces H.1 hl
  · rw [hk, hel, List.length_take, List.length_take, H.len_eq]
  · rw [hk]; exact H.sorted.sublist (List.take_sublist _ _)
  · rw [hsz, hel]
  · intro i hk' el hi hiel
    rw [hk, List.getElem?_take] at hi
    rw [hel, List.getElem?_take] at hiel
    split at hi
    · rename_i h; rw [if_pos h] at hiel; exact ⟨he, i, H, hi, hiel⟩
    · cases hi

theorem drop {he he' : HkeyElems α} (H : HInv T L D o Inv rr ℓ path he) (n : Nat) (hl : he'.level = ℓ)
    (hk : he'.hkeys = he.hkeys.drop n) (hel : he'.elems = he.elems.drop n)
    (hsz : he'.size = hkeyElementsPrefixSize + HkeyElems.elemSizes o (he.elems.drop n)) :
    HInv T L D o Inv rr ℓ path he' := by
  apply of_pieces H.1 hl
  · rw [hk, hel, List.length_drop, List.length_drop, H.len_eq]
  · rw [hk]; exact H.sorted.sublist (List.drop_sublist _ _)
  · rw [hsz, hel]
  · intro i hk' el hi hiel
    rw [hk, List.getElem?_drop] at hi
    rw [hel, List.getElem?_drop] at hiel
    exact ⟨he, n + i, H, hi, hiel⟩

theorem append {l r he' : HkeyElems α} (Hl : HInv T L D o Inv rr ℓ path l) (Hr : HInv T L D o Inv rr ℓ path r)
    (hlt : ∀ a ∈ l.hkeys, ∀ b ∈ r.hkeys, a < b) (hlv : he'.level = ℓ)
    (hk : he'.hkeys = l.hkeys ++ r.hkeys) (hel : he'.elems = l.elems ++ r.elems)
    (hsz : he'.size = hkeyElementsPrefixSize + HkeyElems.elemSizes o (l.elems ++ r.elems)) :
    HInv T L D o Inv rr ℓ path he' := by
  apply of_pieces Hl.1 hlv
  · rw [hk, hel, List.length_append, List.length_append, Hl.len_eq, Hr.len_eq]
  · rw [hk, List.pairwise_append]; exact ⟨Hl.sorted, Hr.sorted, hlt⟩
  · rw [hsz, hel]
  · intro i hk' el hi hiel
    rw [hk, List.getElem?_append] at hi
    rw [hel, List.getElem?_append] at hiel
    rw [Hl.len_eq] at hi
    split at hi
    · rename_i h; rw [if_pos h] at hiel; exact ⟨l, i, Hl, hi, hiel⟩
    · rename_i h; rw [if_neg h] at hiel; exact ⟨r, _, Hr, by rw [← Hl.len_eq] at hi; rw [Hl.len_eq] at hi; exact hi, hiel⟩

end HInv

namespace HkeyElems
variable {α : Type} (o : ElemsOps α)

theorem elemSizes_append (a b : List (MElemF α)) : elemSizes o (a ++ b) = elemSizes o a + elemSizes o b := by
  simp [elemSizes, List.sum_append]

theorem elemSizes_take_drop (l : List (MElemF α)) (n : Nat) :
    elemSizes o (l.take n) + elemSizes o (l.drop n) = elemSizes o l := by
  rw [← elemSizes_append, List.take_append_drop]

theorem elemSizes_take (l : List (MElemF α)) (n : Nat) :
    elemSizes o (l.take n) = ((l.map (fun el => el.size o + digestSize)).take n).sum := by
  simp [elemSizes, List.map_take]

theorem toList_of_elems {a b : HkeyElems α} (h : a.elems = b.elems) : toList o a = toList o b := by
  simp [toList, h]

end HkeyElems
end Atree
