import AtreeProofs.Map.Limit
/-
  Overwriting the value of a PRESENT key: `OMap.set` succeeds and replaces the pair in place
  (exported for the iterator proofs, C13).  No `CtxOk` hypothesis is needed.
-/
namespace Atree
open Gen

variable {T : Nat} {r : Nat} {D : DigestFn (r + 1)} {cfg : MCfg}

/-- in a list with distinct keys the position of a key is unique -/
theorem zipper_unique {A A' B B' : List (MKey × Elem)} {k : MKey} {v v' : Elem}
    (hd : KeysDistinct (A ++ (k, v) :: B)) (h : A ++ (k, v) :: B = A' ++ (k, v') :: B') :
    A = A' ∧ v = v' ∧ B = B' := by
  induction A generalizing A' with
  | nil =>
    cases A' with
    | nil => simp at h; exact ⟨rfl, h.1, h.2⟩
    | cons a A'' =>
      exfalso
      simp only [List.nil_append, List.cons_append, List.cons.injEq] at h
      obtain ⟨_, hB⟩ := h
      rw [List.nil_append, KeysDistinct.cons_iff] at hd
      have := hd.1 (k, v') (by rw [hB]; simp)
      simp [MKey.same_self] at this
  | cons a A ih =>
    cases A' with
    | nil =>
      exfalso
      simp only [List.nil_append, List.cons_append, List.cons.injEq] at h
      obtain ⟨ha, hB⟩ := h
      rw [List.cons_append, KeysDistinct.cons_iff] at hd
      have := hd.1 (k, v) (by simp)
      rw [ha] at this
      simp [MKey.same_self] at this
    | cons a' A'' =>
      simp only [List.cons_append, List.cons.injEq] at h
      rw [List.cons_append, KeysDistinct.cons_iff] at hd
      obtain ⟨h1, h2, h3⟩ := ih hd.2 h.2
      exact ⟨by rw [h.1, h1], h2, h3⟩

/-- `set` on a present key: succeeds, returns the old value, replaces the pair in place -/
theorem OMap.set_overwrite (hT : legalThreshold T = true) {m : OMap r} (hcfg : CfgOk cfg T m) (h : MapInv T D m)
    {A B : List (MKey × Elem)} {k : MKey} {v0 : Elem} (htl : m.toList = A ++ (k, v0) :: B)
    {v : Elem} (hv : ValueOkM v) (c : Ctx) :
    ∃ m' c', m.set cfg k v c = .ok (some v0, m', c') ∧ MapInv T D m' ∧ CfgOk cfg T m' ∧
      (CtxOk m c → CtxOk m' c') ∧ m'.toList = A ++ (k, storedValue cfg k v c) :: B ∧
      m'.rootID = m.rootID ∧ m'.count = m.count := by
  have hmem : (k, v0) ∈ m.toList := by rw [htl]; simp
  have hk : KeyOk T (r + 1) D k := h.allKeyOk _ hmem
  have hs := OMap.set_spec hT hcfg h hk hv c
  have hnl : ¬ TLimited cfg m.d m.root k := fun hl =>
    tlimited_absent hT m.d true m.root h.sinv hl _ hmem rfl
  obtain ⟨old, m', c', heq, hp⟩ := hs.2 hnl
  have hd : KeysDistinct (A ++ (k, v0) :: B) := by rw [← htl]; exact h.distinct
  rcases hp.eff with ⟨_, habs, _⟩ | ⟨v1, A', B', ho, h1, h2⟩
  · exact absurd rfl (habs _ hmem)
  · rw [htl] at h1
    obtain ⟨e1, e2, e3⟩ := zipper_unique hd h1
    subst e1 e2 e3 ho
    refine ⟨m', c', heq, hp.inv, ⟨hcfg.1, hcfg.2.1, ?_⟩, hp.ctx, h2, hp.rootID, ?_⟩
    · rw [hcfg.2.2]; simp only [OMap.addr, hp.rootID]
    · rw [hp.count]; rfl

end Atree
