import AtreeProofs.Map.EffectsData
import AtreeProofs.Map.MapOps
/-
  Effect-log accounting for maps (C09), step layer: the slabs of a tree as root entry + slabs
  below (`ment`, `msub`: for a data slab the slabs below are its external collision groups); what
  `split`, `merge` and the rebalancing moves do to them; which repair action
  `mergeOrRebalanceChildSlab` takes; the accounts of the parent's repair steps.
-/
namespace Atree
open Gen

variable {r : Nat}

/-! ### the slabs of a tree: root entry and slabs below -/

/-- content of the root slab of a tree -/
def ment : (d : Nat) → MTree r d → MSlabView r
  | 0, (s : MDataSlab r) => .data s
  | _ + 1, (m : MMetaSlab _) => .index m.hdr m.childHdrs m.root

/-- slabs strictly below the root slab: external groups of a data slab, subtrees of an index slab -/
def msub : (d : Nat) → MTree r d → List (SlabID × MSlabView r)
  | 0, (s : MDataSlab r) => s.groupSlabs
  | d + 1, (m : MMetaSlab (MTree r d)) => m.children.flatMap (MTree.slabs d)

theorem msub_zero (s : MDataSlab r) : msub 0 s = s.groupSlabs := rfl
theorem msub_succ {d : Nat} (m : MMetaSlab (MTree r d)) : msub (d + 1) m = m.children.flatMap (MTree.slabs d) := rfl
theorem ment_zero (s : MDataSlab r) : ment 0 s = .data s := rfl
theorem ment_succ {d : Nat} (m : MMetaSlab (MTree r d)) : ment (d + 1) m = .index m.hdr m.childHdrs m.root := rfl
theorem mslabs_zero (s : MDataSlab r) : MTree.slabs 0 s = (s.hdr.id, .data s) :: s.groupSlabs := rfl
theorem mslabs_succ {d : Nat} (m : MMetaSlab (MTree r d)) :
    MTree.slabs (d + 1) m = (m.hdr.id, .index m.hdr m.childHdrs m.root) :: m.children.flatMap (MTree.slabs d) := rfl

theorem mslabs_eq : ∀ (d : Nat) (t : MTree r d), MTree.slabs d t = ((MTree.hdr d t).id, ment d t) :: msub d t
  | 0, _ => rfl
  | _ + 1, _ => rfl

theorem groupSlabs_eq (s : MDataSlab r) :
    s.groupSlabs = (grp s.elems.elems).map (fun p => (p.1, MSlabView.group p.2)) := by
  simp only [MDataSlab.groupSlabs, grp, List.map_filterMap]
  congr 1
  funext el
  cases el <;> rfl

theorem keys_groupSlabs (s : MDataSlab r) : AList.keys s.groupSlabs = extIds s.elems.elems := by
  simp only [MDataSlab.groupSlabs, extIds, AList.keys, List.map_filterMap]
  congr 1
  funext el
  cases el <;> rfl

theorem keys_mslabs_zero (s : MDataSlab r) : AList.keys (MTree.slabs 0 s) = CtxOk.mapSlabIds 0 s := by
  rw [mslabs_zero, keys_cons', keys_groupSlabs, mapSlabIds_zero]

theorem keys_mslabs_succ {d : Nat} (m : MMetaSlab (MTree r d))
    (ih : ∀ x : MTree r d, AList.keys (MTree.slabs d x) = CtxOk.mapSlabIds d x) :
    AList.keys (MTree.slabs (d + 1) m) = CtxOk.mapSlabIds (d + 1) m := by
  rw [mslabs_succ, keys_cons', mapSlabIds_succ, keys_flatMap _ (CtxOk.mapSlabIds d) _ (fun x _ => ih x)]

theorem keys_mslabs : ∀ (d : Nat) (t : MTree r d), AList.keys (MTree.slabs d t) = CtxOk.mapSlabIds d t
  | 0, s => keys_mslabs_zero s
  | d + 1, m => keys_mslabs_succ m (keys_mslabs d)

theorem hdr_id_mem_keys (d : Nat) (t : MTree r d) : (MTree.hdr d t).id ∈ AList.keys (MTree.slabs d t) := by
  rw [mslabs_eq, keys_cons']; exact List.mem_cons_self

/-! ### split, merge, rebalance -/

theorem groupSlabs_of_elems {s l rr : MDataSlab r} (h : s.elems.elems = l.elems.elems ++ rr.elems.elems) :
    s.groupSlabs = l.groupSlabs ++ rr.groupSlabs := by
  simp only [MDataSlab.groupSlabs, h, List.filterMap_append]

theorem msplit_struct : ∀ (d : Nat) (t : MTree r d) (c : Ctx) (l rr : MTree r d) (c' : Ctx),
    MTree.split d t c = .ok (l, rr, c') →
    msub d l ++ msub d rr = msub d t ∧ (MTree.hdr d l).id = (MTree.hdr d t).id ∧
    (MTree.hdr d rr).id = ⟨(MTree.hdr d t).id.addr, c.ctr + 1⟩ ∧ c' = (c.alloc (MTree.hdr d t).id.addr).2
  | 0, s, c, l, rr, c', h => by
    have h : MDataSlab.split s c = .ok (l, rr, c') := h
    unfold MDataSlab.split at h
    split at h
    · cases h
    · simp only [Except.ok.injEq] at h
      obtain ⟨rfl, rfl, rfl⟩ := h
      refine ⟨?_, rfl, rfl, rfl⟩
      show MDataSlab.groupSlabs _ ++ MDataSlab.groupSlabs _ = MDataSlab.groupSlabs s
      symm
      apply groupSlabs_of_elems
      simp [HkeyElems.split]
  | d + 1, m, c, l, rr, c', h => by
    have h : MMetaSlab.split m c = .ok (l, rr, c') := h
    unfold MMetaSlab.split at h
    split at h
    · cases h
    · simp only [Except.ok.injEq] at h
      obtain ⟨rfl, rfl, rfl⟩ := h
      refine ⟨?_, rfl, rfl, rfl⟩
      show (m.children.take _).flatMap _ ++ (m.children.drop _).flatMap _ = m.children.flatMap _
      rw [← List.flatMap_append, List.take_append_drop]

theorem mmerge_struct : ∀ (d : Nat) (l rr : MTree r d),
    msub d (MTree.merge d l rr) = msub d l ++ msub d rr ∧ (MTree.hdr d (MTree.merge d l rr)).id = (MTree.hdr d l).id
  | 0, l, rr => by
    refine ⟨?_, rfl⟩
    show MDataSlab.groupSlabs (MDataSlab.merge l rr) = MDataSlab.groupSlabs l ++ MDataSlab.groupSlabs rr
    apply groupSlabs_of_elems
    simp [MDataSlab.merge, HkeyElems.merge]
  | d + 1, l, rr => by
    refine ⟨?_, rfl⟩
    show (MMetaSlab.merge l rr).children.flatMap _ = l.children.flatMap _ ++ rr.children.flatMap _
    simp [MMetaSlab.merge, List.flatMap_append]

theorem groupSlabs_pair {l rr l' r' : MDataSlab r}
    (h : l'.elems.elems ++ r'.elems.elems = l.elems.elems ++ rr.elems.elems) :
    l'.groupSlabs ++ r'.groupSlabs = l.groupSlabs ++ rr.groupSlabs := by
  simp only [MDataSlab.groupSlabs, ← List.filterMap_append, h]

theorem mlend_struct (T : Nat) : ∀ (d : Nat) (l rr l' r' : MTree r d),
    MTree.lendToRight T d l rr = .ok (l', r') →
    msub d l' ++ msub d r' = msub d l ++ msub d rr ∧
    (MTree.hdr d l').id = (MTree.hdr d l).id ∧ (MTree.hdr d r').id = (MTree.hdr d rr).id
  | 0, l, rr, l', r', h => by
    have h : MDataSlab.lendToRight T l rr = .ok (l', r') := h
    unfold MDataSlab.lendToRight at h
    obtain ⟨⟨le, re⟩, hl, h⟩ := mbind_eq_ok h
    simp only [pure, Except.pure, Except.ok.injEq] at h
    obtain ⟨rfl, rfl⟩ := h
    unfold HkeyElems.lendToRight at hl
    split at hl
    · cases hl
    · simp only [Except.ok.injEq, Prod.mk.injEq] at hl
      obtain ⟨rfl, rfl⟩ := hl
      refine ⟨?_, rfl, rfl⟩
      show MDataSlab.groupSlabs _ ++ MDataSlab.groupSlabs _ = MDataSlab.groupSlabs l ++ MDataSlab.groupSlabs rr
      apply groupSlabs_pair
      rw [← List.append_assoc, List.take_append_drop]
  | d + 1, l, rr, l', r', h => by
    have h : Except.ok (MMetaSlab.lendToRight l rr) = Except.ok (l', r') := h
    have h := Except.ok.inj h
    have h1 : l' = (MMetaSlab.lendToRight l rr).1 := by rw [h]
    have h2 : r' = (MMetaSlab.lendToRight l rr).2 := by rw [h]
    subst h1 h2
    refine ⟨?_, rfl, rfl⟩
    show (l.children.take _).flatMap _ ++ (l.children.drop _ ++ rr.children).flatMap _
      = l.children.flatMap _ ++ rr.children.flatMap _
    rw [List.flatMap_append, ← List.append_assoc, ← List.flatMap_append, List.take_append_drop]

theorem mborrow_struct (T : Nat) : ∀ (d : Nat) (l rr l' r' : MTree r d),
    MTree.borrowFromRight T d l rr = .ok (l', r') →
    msub d l' ++ msub d r' = msub d l ++ msub d rr ∧
    (MTree.hdr d l').id = (MTree.hdr d l).id ∧ (MTree.hdr d r').id = (MTree.hdr d rr).id
  | 0, l, rr, l', r', h => by
    have h : MDataSlab.borrowFromRight T l rr = .ok (l', r') := h
    unfold MDataSlab.borrowFromRight at h
    obtain ⟨⟨le, re⟩, hl, h⟩ := mbind_eq_ok h
    simp only [pure, Except.pure, Except.ok.injEq] at h
    obtain ⟨rfl, rfl⟩ := h
    unfold HkeyElems.borrowFromRight at hl
    split at hl
    · cases hl
    · simp only [Except.ok.injEq, Prod.mk.injEq] at hl
      obtain ⟨rfl, rfl⟩ := hl
      refine ⟨?_, rfl, rfl⟩
      show MDataSlab.groupSlabs _ ++ MDataSlab.groupSlabs _ = MDataSlab.groupSlabs l ++ MDataSlab.groupSlabs rr
      apply groupSlabs_pair
      rw [List.append_assoc, List.take_append_drop]
  | d + 1, l, rr, l', r', h => by
    have h : Except.ok (MMetaSlab.borrowFromRight l rr) = Except.ok (l', r') := h
    have h := Except.ok.inj h
    have h1 : l' = (MMetaSlab.borrowFromRight l rr).1 := by rw [h]
    have h2 : r' = (MMetaSlab.borrowFromRight l rr).2 := by rw [h]
    subst h1 h2
    refine ⟨?_, rfl, rfl⟩
    show (l.children ++ rr.children.take _).flatMap _ ++ (rr.children.drop _).flatMap _
      = l.children.flatMap _ ++ rr.children.flatMap _
    rw [List.flatMap_append, List.append_assoc, ← List.flatMap_append, List.take_append_drop]

/-! ### which repair action `mergeOrRebalanceChildSlab` takes -/
section
variable {T d : Nat}

theorem mmor_cases (m : MMetaSlab (MTree r d)) (child : MTree r d) (k u : Nat) (c : Ctx)
    (m2 : MMetaSlab (MTree r d)) (c2 : Ctx)
    (h : m.mergeOrRebalanceChildSlab T child k u c = .ok (m2, c2)) :
    ∃ l rr li, ((li = k ∧ l = child ∧ m.children[k + 1]? = some rr) ∨
               (li + 1 = k ∧ m.children[li]? = some l ∧ rr = child)) ∧
      ((∃ flag, m.rebalanceChildren T l rr li (li + 1) flag c = .ok (m2, c2)) ∨
        (m2, c2) = m.mergeChildren l rr li (li + 1) c) := by
  unfold MMetaSlab.mergeOrRebalanceChildSlab at h
  simp only at h
  have hL : ∀ l, (if k > 0 then m.children[k - 1]? else none) = some l →
      (k - 1) + 1 = k ∧ m.children[k - 1]? = some l := by
    intro l hl
    split at hl
    · exact ⟨by omega, hl⟩
    · cases hl
  have hR : ∀ x, (if k + 1 < m.childHdrs.length then m.children[k + 1]? else none) = some x →
      m.children[k + 1]? = some x := by
    intro x hr
    split at hr
    · exact hr
    · cases hr
  generalize (if k > 0 then m.children[k - 1]? else none) = L at h hL
  generalize (if k + 1 < m.childHdrs.length then m.children[k + 1]? else none) = R at h hR
  have left : ∀ l, L = some l →
      ((∃ flag, m.rebalanceChildren T l child (k - 1) k flag c = .ok (m2, c2)) ∨
        (m2, c2) = m.mergeChildren l child (k - 1) k c) →
      ∃ l rr li, ((li = k ∧ l = child ∧ m.children[k + 1]? = some rr) ∨
               (li + 1 = k ∧ m.children[li]? = some l ∧ rr = child)) ∧
      ((∃ flag, m.rebalanceChildren T l rr li (li + 1) flag c = .ok (m2, c2)) ∨
        (m2, c2) = m.mergeChildren l rr li (li + 1) c) := by
    intro l hl hx
    obtain ⟨h1, h2⟩ := hL l hl
    refine ⟨l, child, k - 1, Or.inr ⟨h1, h2, rfl⟩, ?_⟩
    rw [h1]; exact hx
  have right : ∀ x, R = some x →
      ((∃ flag, m.rebalanceChildren T child x k (k + 1) flag c = .ok (m2, c2)) ∨
        (m2, c2) = m.mergeChildren child x k (k + 1) c) →
      ∃ l rr li, ((li = k ∧ l = child ∧ m.children[k + 1]? = some rr) ∨
               (li + 1 = k ∧ m.children[li]? = some l ∧ rr = child)) ∧
      ((∃ flag, m.rebalanceChildren T l rr li (li + 1) flag c = .ok (m2, c2)) ∨
        (m2, c2) = m.mergeChildren l rr li (li + 1) c) := by
    intro x hr hx
    exact ⟨child, x, k, Or.inl ⟨rfl, rfl, hR x hr⟩, hx⟩
  cases L with
  | none =>
    cases R with
    | none =>
      simp only at h
      split at h <;> cases h
    | some x =>
      simp only at h
      split at h
      · exact right x rfl (Or.inl ⟨_, h⟩)
      · simp only [Except.ok.injEq] at h
        exact right x rfl (Or.inr h.symm)
  | some l =>
    cases R with
    | none =>
      simp only at h
      split at h
      · exact left l rfl (Or.inl ⟨_, h⟩)
      · simp only [Except.ok.injEq] at h
        exact left l rfl (Or.inr h.symm)
    | some x =>
      simp only at h
      split at h
      · split at h
        · exact right x rfl (Or.inl ⟨_, h⟩)
        · split at h
          · exact left l rfl (Or.inl ⟨_, h⟩)
          · split at h
            · exact left l rfl (Or.inl ⟨_, h⟩)
            · exact right x rfl (Or.inl ⟨_, h⟩)
      · split at h
        · simp only [Except.ok.injEq] at h
          exact left l rfl (Or.inr h.symm)
        · simp only [Except.ok.injEq] at h
          exact right x rfl (Or.inr h.symm)
end

/-! ### accounts of the parent's repair steps -/
section
variable {T d : Nat}

/-- root entries of a list of sibling trees -/
def mroots (d : Nat) (X : List (MTree r d)) : List (SlabID × MSlabView r) :=
  X.map (fun t => ((MTree.hdr d t).id, ment d t))

theorem mem_flatMap_mslabs (X : List (MTree r d)) (p : SlabID × MSlabView r) :
    p ∈ X.flatMap (MTree.slabs d) ↔ p ∈ mroots d X ∨ p ∈ X.flatMap (msub d) := by
  induction X with
  | nil => simp [mroots]
  | cons x X ih =>
    simp only [List.flatMap_cons, List.mem_append, ih, mslabs_eq d x, List.mem_cons, mroots, List.map_cons]
    grind

theorem kc_flatMap_mslabs (X : List (MTree r d)) (id : SlabID) :
    kc id (X.flatMap (MTree.slabs d)) = kc id (mroots d X) + kc id (X.flatMap (msub d)) := by
  induction X with
  | nil => simp [mroots]
  | cons x X ih =>
    simp only [List.flatMap_cons, kc_append, ih, mslabs_eq d x, kc_cons, mroots, List.map_cons]
    omega

/-- Replacing the siblings `X` by `X'` below the root `rid`: it is enough to account for the root
    entries, provided the slabs below the siblings are the same. -/
theorem macct_local {a c c' : Nat} {rid : SlabID} {e e' : MSlabView r} {P Q X X' : List (MTree r d)} {E : List Eff}
    (hsub : X'.flatMap (msub d) = X.flatMap (msub d))
    (hnd : (AList.keys ((rid, e) :: (P ++ X ++ Q).flatMap (MTree.slabs d))).Nodup)
    (hold : ∀ id ∈ AList.keys ((rid, e) :: (P ++ X ++ Q).flatMap (MTree.slabs d)), Old a c id)
    (h : MAcct a c c' ((rid, e) :: mroots d X) ((rid, e') :: mroots d X') E []) :
    MAcct a c c' ((rid, e) :: (P ++ X ++ Q).flatMap (MTree.slabs d))
      ((rid, e') :: (P ++ X' ++ Q).flatMap (MTree.slabs d)) E [] := by
  have hW : Same ((rid, e) :: (P ++ X ++ Q).flatMap (MTree.slabs d))
      (((rid, e) :: mroots d X) ++
        (P.flatMap (MTree.slabs d) ++ X.flatMap (msub d) ++ Q.flatMap (MTree.slabs d))) := by
    refine ⟨fun p => ?_, fun id => ?_⟩
    · simp only [List.flatMap_append, List.mem_cons, List.mem_append, mem_flatMap_mslabs X]
      grind
    · simp only [List.flatMap_append, kc_cons, kc_append, kc_flatMap_mslabs X, List.cons_append]
      omega
  have hW' : Same ((rid, e') :: (P ++ X' ++ Q).flatMap (MTree.slabs d))
      (((rid, e') :: mroots d X') ++
        (P.flatMap (MTree.slabs d) ++ X.flatMap (msub d) ++ Q.flatMap (MTree.slabs d))) := by
    refine ⟨fun p => ?_, fun id => ?_⟩
    · simp only [List.flatMap_append, List.mem_cons, List.mem_append, mem_flatMap_mslabs X', hsub]
      grind
    · simp only [List.flatMap_append, kc_cons, kc_append, kc_flatMap_mslabs X', hsub, List.cons_append]
      omega
  refine (h.frame _ ?_).congr hW hW'
  intro id hid
  have hin : id ∈ AList.keys ((rid, e) :: (P ++ X ++ Q).flatMap (MTree.slabs d)) := by
    rw [hW.keys, keys_append]; exact List.mem_append.2 (Or.inr hid)
  refine ⟨?_, hold id hin⟩
  intro hN
  rw [nodup_keys_iff] at hnd
  have h1 := hnd id
  rw [hW.2 id, kc_append] at h1
  have h2 := (kc_pos_iff id _).2 hid
  have h3 := (kc_pos_iff id _).2 hN
  omega

theorem memit_log3 (c : Ctx) (e1 e2 e3 : Eff) : (((c.emit e1).emit e2).emit e3).eff = c.eff ++ [e1, e2, e3] := by
  simp [Ctx.emit]

theorem mlog_emit3 (a : Nat) (c : Ctx) (i1 i2 i3 : SlabID) :
    MLog a c (((c.emit (.store i1)).emit (.store i2)).emit (.store i3)) [.store i1, .store i2, .store i3] [] := by
  have := ((MLog.store a c i1).trans (MLog.store a _ i2)).trans (MLog.store a _ i3)
  simpa using this

theorem lastAction_store_last (E : List Eff) (id : SlabID) : lastAction (E ++ [.store id]) id = some true := by
  rw [lastAction_concat_store, if_pos rfl]

theorem lastAction_store_self (id : SlabID) : lastAction [.store id] id = some true :=
  lastAction_store_last [] id

/-- plain store of the parent -/
theorem mtail_plain_acct {a c : Nat} {m1 m2 : MMetaSlab (MTree r d)} {e : MSlabView r}
    (hid : m2.hdr.id = m1.hdr.id) (hch : m2.children = m1.children)
    (hnd : (AList.keys ((m1.hdr.id, e) :: m1.children.flatMap (MTree.slabs d))).Nodup)
    (hold : ∀ id ∈ AList.keys ((m1.hdr.id, e) :: m1.children.flatMap (MTree.slabs d)), Old a c id) :
    MAcct a c c ((m1.hdr.id, e) :: m1.children.flatMap (MTree.slabs d)) (MTree.slabs (d + 1) m2)
      [.store m1.hdr.id] [] := by
  have h0 : MAcct a c c ((m1.hdr.id, e) :: mroots d []) ((m1.hdr.id, ment (d + 1) m2) :: mroots d [])
      [.store m1.hdr.id] [] := by
    refine MAcct.of_stores (Nat.le_refl _) (by simp) ?_ (by simp [mroots, AList.keys]) ?_
    · intro id; simp [mroots, AList.keys]
    · intro id; left; simp [mroots, kc_cons]
  have := macct_local (P := m1.children) (Q := []) (X := []) (X' := []) rfl
    (by simpa using hnd) (by simpa using hold) h0
  rw [mslabs_succ, ← ment_succ m2, hid, hch]
  simpa using this

/-- repair by splitting the child -/
theorem mtail_split_acct {a : Nat} {m1 m2 : MMetaSlab (MTree r d)} {A B : List (MTree r d)} {child' : MTree r d}
    {k : Nat} {c c2 : Ctx} {e : MSlabView r}
    (hch : m1.children = A ++ child' :: B) (hk : A.length = k) (haddr : (MTree.hdr d child').id.addr = a)
    (h : m1.splitChildSlab child' k c = .ok (m2, c2))
    (hnd : (AList.keys ((m1.hdr.id, e) :: m1.children.flatMap (MTree.slabs d))).Nodup)
    (hold : ∀ id ∈ AList.keys ((m1.hdr.id, e) :: m1.children.flatMap (MTree.slabs d)), Old a c.ctr id) :
    ∃ E, MLog a c c2 E [] ∧
      MAcct a c.ctr c2.ctr ((m1.hdr.id, e) :: m1.children.flatMap (MTree.slabs d))
        (MTree.slabs (d + 1) m2) E [] ∧ lastAction E m1.hdr.id = some true := by
  unfold MMetaSlab.splitChildSlab at h
  cases hsp : MTree.split d child' c with
  | error err => simp [hsp, bind, Except.bind] at h
  | ok p =>
    obtain ⟨l, rr, cs⟩ := p
    simp only [hsp, bind, Except.bind, pure, Except.pure, Except.ok.injEq, Prod.mk.injEq] at h
    obtain ⟨rfl, rfl⟩ := h
    obtain ⟨hs1, hs2, hs3, rfl⟩ := msplit_struct d child' c l rr cs hsp
    rw [haddr] at hs3
    refine ⟨[.alloc a ⟨a, c.ctr + 1⟩, .store (MTree.hdr d l).id, .store (MTree.hdr d rr).id, .store m1.hdr.id], ?_, ?_,
      lastAction_store_last [.alloc a ⟨a, c.ctr + 1⟩, .store (MTree.hdr d l).id, .store (MTree.hdr d rr).id] m1.hdr.id⟩
    · have := (MLog.alloc a c).trans (mlog_emit3 a (c.alloc a).2 (MTree.hdr d l).id (MTree.hdr d rr).id m1.hdr.id)
      rw [haddr]
      simpa using this
    · rw [mslabs_succ]
      simp only [hch, set_mid hk, insertIdx_mid hk]
      have e1 : A ++ child' :: B = A ++ [child'] ++ B := by simp
      have e2 : A ++ l :: rr :: B = A ++ [l, rr] ++ B := by simp
      rw [e1, e2]
      rw [hch, e1] at hnd hold
      have hcold : Old a c.ctr (MTree.hdr d child').id := by
        apply hold
        rw [keys_cons']
        apply List.mem_cons_of_mem
        simp only [List.flatMap_append, List.flatMap_cons, List.flatMap_nil, List.append_nil, keys_append,
          List.mem_append]
        exact Or.inl (Or.inr (hdr_id_mem_keys d child'))
      have hrold : Old a c.ctr m1.hdr.id := hold _ (by rw [keys_cons']; exact List.mem_cons_self)
      have hfr : Fresh a c.ctr (c.ctr + 1) (MTree.hdr d rr).id := by rw [hs3]; exact fresh_next a c.ctr
      refine macct_local ?_ hnd hold ?_
      · simp only [List.flatMap_cons, List.flatMap_nil, List.append_nil, hs1]
      · refine MAcct.of_stores (by simp [Ctx.emit, Ctx.alloc]) (by simp) ?_ ?_ ?_
        · intro id
          simp only [mroots, AList.keys, List.map_cons, List.map_nil, List.mem_cons, Eff.store.injEq,
            reduceCtorEq, List.not_mem_nil, or_false, false_or]
          grind
        · intro id
          simp only [mroots, AList.keys, List.map_cons, List.map_nil, List.mem_cons, List.not_mem_nil,
            or_false, hs2]
          grind
        · intro id
          simp only [mroots, List.map_cons, List.map_nil, kc_cons, kc_nil, hs2, Ctx.emit, Ctx.alloc]
          by_cases hid : (MTree.hdr d rr).id = id
          · right
            subst hid
            refine ⟨hfr, ?_⟩
            have h1 : ¬ m1.hdr.id = (MTree.hdr d rr).id := fun he => hfr.not_old (he ▸ hrold)
            have h2 : ¬ (MTree.hdr d child').id = (MTree.hdr d rr).id := fun he => hfr.not_old (he ▸ hcold)
            simp [h1, h2]
          · left; simp [hid]

theorem mrebal_inv {m1 m2 : MMetaSlab (MTree r d)} {l rr : MTree r d} {li ri : Nat} {flag : Bool} {c c2 : Ctx}
    (h : m1.rebalanceChildren T l rr li ri flag c = .ok (m2, c2)) :
    ∃ l' r', (msub d l' ++ msub d r' = msub d l ++ msub d rr ∧
      (MTree.hdr d l').id = (MTree.hdr d l).id ∧ (MTree.hdr d r').id = (MTree.hdr d rr).id) ∧
      m2.children = (m1.children.set li l').set ri r' ∧ m2.hdr.id = m1.hdr.id ∧
      c2 = ((c.emit (.store (MTree.hdr d l').id)).emit (.store (MTree.hdr d r').id)).emit (.store m1.hdr.id) := by
  unfold MMetaSlab.rebalanceChildren at h
  extract_lets src jp at h
  have key : ∀ p, jp p = .ok (m2, c2) → m2.children = (m1.children.set li p.1).set ri p.2 ∧ m2.hdr.id = m1.hdr.id ∧
      c2 = ((c.emit (.store (MTree.hdr d p.1).id)).emit (.store (MTree.hdr d p.2).id)).emit (.store m1.hdr.id) := by
    rintro ⟨l', r'⟩ hp
    simp only [jp, src, pure, Except.pure, Except.ok.injEq, Prod.mk.injEq] at hp
    obtain ⟨rfl, rfl⟩ := hp
    exact ⟨rfl, rfl, rfl⟩
  clear_value jp
  split at h
  · obtain ⟨⟨l', r'⟩, hlr, h⟩ := mbind_eq_ok h
    obtain ⟨h1, h2, h3⟩ := key _ h
    exact ⟨l', r', mborrow_struct T d l rr l' r' hlr, h1, h2, h3⟩
  · obtain ⟨⟨l', r'⟩, hlr, h⟩ := mbind_eq_ok h
    obtain ⟨h1, h2, h3⟩ := key _ h
    exact ⟨l', r', mlend_struct T d l rr l' r' hlr, h1, h2, h3⟩

/-- repair by rebalancing two adjacent children -/
theorem mtail_rebal_acct {a : Nat} {m1 m2 : MMetaSlab (MTree r d)} {P Q : List (MTree r d)} {l rr : MTree r d}
    {li : Nat} {flag : Bool} {c c2 : Ctx} {e : MSlabView r}
    (hch : m1.children = P ++ l :: rr :: Q) (hli : P.length = li)
    (h : m1.rebalanceChildren T l rr li (li + 1) flag c = .ok (m2, c2))
    (hnd : (AList.keys ((m1.hdr.id, e) :: m1.children.flatMap (MTree.slabs d))).Nodup)
    (hold : ∀ id ∈ AList.keys ((m1.hdr.id, e) :: m1.children.flatMap (MTree.slabs d)), Old a c.ctr id) :
    ∃ E, MLog a c c2 E [] ∧
      MAcct a c.ctr c2.ctr ((m1.hdr.id, e) :: m1.children.flatMap (MTree.slabs d))
        (MTree.slabs (d + 1) m2) E [] ∧ lastAction E m1.hdr.id = some true := by
  obtain ⟨l', r', ⟨hs1, hs2, hs3⟩, hkids, hid, rfl⟩ := mrebal_inv h
  refine ⟨[.store (MTree.hdr d l').id, .store (MTree.hdr d r').id, .store m1.hdr.id], mlog_emit3 _ _ _ _ _, ?_,
    lastAction_store_last [.store (MTree.hdr d l').id, .store (MTree.hdr d r').id] m1.hdr.id⟩
  have hk2 : ((P ++ l :: rr :: Q).set li l').set (li + 1) r' = P ++ [l', r'] ++ Q := by
    rw [set_mid hli]
    have : P ++ l' :: rr :: Q = (P ++ [l']) ++ rr :: Q := by simp
    rw [this, set_mid (by simp [hli])]; simp
  have e1 : P ++ l :: rr :: Q = P ++ [l, rr] ++ Q := by simp
  rw [mslabs_succ, hkids, hid, hch, hk2, e1]
  rw [hch, e1] at hnd hold
  refine macct_local ?_ hnd hold ?_
  · simp only [List.flatMap_cons, List.flatMap_nil, List.append_nil, hs1]
  · refine MAcct.of_stores (Nat.le_refl _) (by simp) ?_ ?_ ?_
    · intro id
      simp only [mroots, AList.keys, List.map_cons, List.map_nil, List.mem_cons, Eff.store.injEq,
        List.not_mem_nil, or_false, hs2, hs3]
      grind
    · intro id
      simp only [mroots, AList.keys, List.map_cons, List.map_nil, List.mem_cons, List.not_mem_nil,
        or_false, hs2, hs3]
      exact fun h => h
    · intro id
      left
      simp only [mroots, List.map_cons, List.map_nil, kc_cons, kc_nil, hs2, hs3]
      omega

theorem mmerge_children (m : MMetaSlab (MTree r d)) (l rr : MTree r d) (li ri : Nat) (c : Ctx) :
    (m.mergeChildren l rr li ri c).1.children = (m.children.set li (MTree.merge d l rr)).eraseIdx ri := by
  simp only [MMetaSlab.mergeChildren]
theorem mmerge_hdr_id (m : MMetaSlab (MTree r d)) (l rr : MTree r d) (li ri : Nat) (c : Ctx) :
    (m.mergeChildren l rr li ri c).1.hdr.id = m.hdr.id := by
  simp only [MMetaSlab.mergeChildren]
theorem mmerge_ctx (m : MMetaSlab (MTree r d)) (l rr : MTree r d) (li ri : Nat) (c : Ctx) :
    (m.mergeChildren l rr li ri c).2
      = ((c.emit (.store (MTree.hdr d (MTree.merge d l rr)).id)).emit (.store m.hdr.id)).emit
          (.remove (MTree.hdr d rr).id) := by
  simp only [MMetaSlab.mergeChildren]

/-- repair by merging two adjacent children -/
theorem mtail_merge_acct {a : Nat} {m1 : MMetaSlab (MTree r d)} {P Q : List (MTree r d)} {l rr : MTree r d}
    {li : Nat} (c : Ctx) {e : MSlabView r}
    (hch : m1.children = P ++ l :: rr :: Q) (hli : P.length = li)
    (hnd : (AList.keys ((m1.hdr.id, e) :: m1.children.flatMap (MTree.slabs d))).Nodup)
    (hold : ∀ id ∈ AList.keys ((m1.hdr.id, e) :: m1.children.flatMap (MTree.slabs d)), Old a c.ctr id) :
    ∃ E, MLog a c (m1.mergeChildren l rr li (li + 1) c).2 E [] ∧
      MAcct a c.ctr (m1.mergeChildren l rr li (li + 1) c).2.ctr
        ((m1.hdr.id, e) :: m1.children.flatMap (MTree.slabs d))
        (MTree.slabs (d + 1) (m1.mergeChildren l rr li (li + 1) c).1) E [] ∧
      lastAction E m1.hdr.id = some true := by
  obtain ⟨hs1, hs2⟩ := mmerge_struct d l rr
  have e1 : P ++ l :: rr :: Q = P ++ [l, rr] ++ Q := by simp
  have e2 : ∀ x : MTree r d, P ++ x :: Q = P ++ [x] ++ Q := by simp
  -- distinctness of the three root IDs involved
  have hcnt : ∀ id, kc id ((m1.hdr.id, e) :: mroots d [l, rr]) ≤ 1 := by
    intro id
    rw [nodup_keys_iff] at hnd
    have := hnd id
    rw [hch, e1] at this
    simp only [List.flatMap_append, kc_cons, kc_append, kc_flatMap_mslabs [l, rr]] at this
    simp only [kc_cons]
    omega
  have hrid : m1.hdr.id ≠ (MTree.hdr d rr).id := by
    intro heq
    have := hcnt m1.hdr.id
    simp [mroots, kc_cons, heq] at this
  have hlr : (MTree.hdr d l).id ≠ (MTree.hdr d rr).id := by
    intro heq
    have := hcnt (MTree.hdr d l).id
    simp [mroots, kc_cons, heq, hrid] at this
  refine ⟨[.store (MTree.hdr d l).id, .store m1.hdr.id] ++ [.remove (MTree.hdr d rr).id], ?_, ?_, ?_⟩
  rotate_left 2
  · rw [lastAction_concat_remove, if_neg (fun h => hrid h.symm)]
    exact lastAction_store_last [.store (MTree.hdr d l).id] m1.hdr.id
  · rw [mmerge_ctx, hs2]
    have := ((MLog.store a c (MTree.hdr d l).id).trans (MLog.store a _ m1.hdr.id)).trans
      (MLog.remove a _ (MTree.hdr d rr).id)
    simpa using this
  · have hctr : (m1.mergeChildren l rr li (li + 1) c).2.ctr = c.ctr := rfl
    rw [hctr, mslabs_succ, ← ment_succ, mmerge_children, mmerge_hdr_id, hch, set_mid hli, eraseIdx_mid_succ hli]
    rw [e1, e2]
    rw [hch, e1] at hnd hold
    refine macct_local ?_ hnd hold ?_
    · simp only [List.flatMap_cons, List.flatMap_nil, List.append_nil, hs1]
    · refine MAcct.of_stores_remove (by simp) ?_ ?_ ?_ ?_
      · intro id
        simp only [mroots, AList.keys, List.map_cons, List.map_nil, List.mem_cons, Eff.store.injEq,
          List.not_mem_nil, or_false, hs2]
        grind
      · simp only [mroots, AList.keys, List.map_cons, List.map_nil, List.mem_cons, List.not_mem_nil,
          or_false, hs2]
        rintro (h | h)
        · exact hrid h.symm
        · exact hlr h.symm
      · intro id
        simp only [mroots, AList.keys, List.map_cons, List.map_nil, List.mem_cons, List.not_mem_nil,
          or_false, hs2]
        grind
      · intro id
        simp only [mroots, List.map_cons, List.map_nil, kc_cons, kc_nil, hs2]
        omega

/-- repair of an underflowing child -/
theorem mtail_mor_acct {a : Nat} {m1 m2 : MMetaSlab (MTree r d)} {A B : List (MTree r d)} {child' : MTree r d}
    {k u : Nat} {c c2 : Ctx} {e : MSlabView r}
    (hch : m1.children = A ++ child' :: B) (hk : A.length = k)
    (h : m1.mergeOrRebalanceChildSlab T child' k u c = .ok (m2, c2))
    (hnd : (AList.keys ((m1.hdr.id, e) :: m1.children.flatMap (MTree.slabs d))).Nodup)
    (hold : ∀ id ∈ AList.keys ((m1.hdr.id, e) :: m1.children.flatMap (MTree.slabs d)), Old a c.ctr id) :
    ∃ E, MLog a c c2 E [] ∧
      MAcct a c.ctr c2.ctr ((m1.hdr.id, e) :: m1.children.flatMap (MTree.slabs d))
        (MTree.slabs (d + 1) m2) E [] ∧ lastAction E m1.hdr.id = some true := by
  obtain ⟨l, rr, li, hpos, hact⟩ := mmor_cases m1 child' k u c m2 c2 h
  have hshape : ∃ P Q, m1.children = P ++ l :: rr :: Q ∧ P.length = li := by
    rcases hpos with ⟨rfl, rfl, hr⟩ | ⟨hli, hl, rfl⟩
    · rw [hch, getElem?_mid_succ hk] at hr
      cases B with
      | nil => simp at hr
      | cons b B' =>
        simp only [List.getElem?_cons_zero, Option.some.injEq] at hr
        subst hr
        exact ⟨A, B', hch, hk⟩
    · rcases List.eq_nil_or_concat A with hn | ⟨P, x, hA⟩
      · subst hn; simp at hk; omega
      · rw [List.concat_eq_append] at hA
        subst hA
        have hP : P.length = li := by simp at hk; omega
        have e1 : P ++ [x] ++ rr :: B = P ++ x :: rr :: B := by simp
        rw [hch, e1, getElem?_mid hP] at hl
        simp only [Option.some.injEq] at hl
        subst hl
        exact ⟨P, B, by rw [hch, e1], hP⟩
  obtain ⟨P, Q, hch', hli⟩ := hshape
  rcases hact with ⟨flag, heq⟩ | heq
  · exact mtail_rebal_acct hch' hli heq hnd hold
  · have := mtail_merge_acct (a := a) (e := e) c hch' hli hnd hold
    rw [← heq] at this
    exact this

end

end Atree
