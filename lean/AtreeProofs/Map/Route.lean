import AtreeProofs.Map.AfterChild2
/-
  Routing by first-level digest (`findChild`) in an index slab.
-/
namespace Atree
open Gen

variable {T : Nat} {r : Nat} {D : DigestFn (r + 1)} {d : Nat}

namespace MMetaSlab

theorem findChild_isSome (hdrs : List MHdr) (hkey : Nat) : ∀ (fuel i j a : Nat),
    (findChild hdrs hkey i j (some a) fuel).isSome = true
  | 0, _, _, _ => rfl
  | fuel + 1, i, j, a => by
    simp only [findChild]
    split
    · split
      · exact findChild_isSome hdrs hkey fuel _ _ _
      · exact findChild_isSome hdrs hkey fuel _ _ _
    · rfl

theorem findChild_some0 (hdrs : List MHdr) (hkey : Nat) : ∀ (fuel i j a : Nat),
    findChild hdrs hkey i j (some a) fuel = some ((findChild hdrs hkey i j none fuel).getD a)
  | 0, _, _, _ => rfl
  | fuel + 1, i, j, a => by
    simp only [findChild]
    split
    · split
      · exact findChild_some0 hdrs hkey fuel _ _ _
      · have := findChild_isSome hdrs hkey fuel ((i + j) / 2 + 1) j ((i + j) / 2)
        cases h : findChild hdrs hkey ((i + j) / 2 + 1) j (some ((i + j) / 2)) fuel with
        | none => rw [h] at this; cases this
        | some y => rfl
    · rfl

end MMetaSlab

section Route
variable {top : Bool} {m : MMetaSlab (MTree r d)}

theorem cross_lt (hm : MetaLoose T D d top m) {i j : Nat} {ci cj : MTree r d}
    (hi : m.children[i]? = some ci) (hj : m.children[j]? = some cj) (hij : i < j) :
    ∀ a ∈ MTree.digests0 d ci, ∀ b ∈ MTree.digests0 d cj, a < b := by
  have hs := hm.sorted
  rw [List.pairwise_flatMap] at hs
  have h1 := lt_of_getElem?_eq_some hi
  have h2 := lt_of_getElem?_eq_some hj
  have := (List.pairwise_iff_getElem.mp hs.2) i j h1 h2 hij
  rw [List.getElem?_eq_getElem h1] at hi
  rw [List.getElem?_eq_getElem h2] at hj
  cases hi; cases hj
  exact this

theorem firstKeys_sorted (hT : legalThreshold T = true) (hm : MetaLoose T D d top m) :
    (m.childHdrs.map (·.firstKey)).Pairwise (· < ·) := by
  rw [hm.2.1, List.map_map, List.pairwise_iff_getElem]
  intro i j hi hj hij
  simp only [List.length_map] at hi hj
  simp only [List.getElem_map, Function.comp]
  have hi' : m.children[i]? = some m.children[i] := List.getElem?_eq_getElem hi
  have hj' : m.children[j]? = some m.children[j] := List.getElem?_eq_getElem hj
  have ti := hm.2.2.2.2.1 _ (List.getElem_mem hi)
  have tj := hm.2.2.2.2.1 _ (List.getElem_mem hj)
  exact cross_lt hm hi' hj' hij _
    (SInv.firstKey_mem hT (MTreeInv.sinv hT ti) (MTreeInv.digests_ne_nil hT d _ ti)) _
    (SInv.firstKey_mem hT (MTreeInv.sinv hT tj) (MTreeInv.digests_ne_nil hT d _ tj))

/-- result of routing digest `hkey`: the children split as `A ++ child :: B` with all digests of
    `A` below and all digests of `B` above `hkey` -/
structure Routed (d : Nat) (m : MMetaSlab (MTree r d)) (hkey : Nat) (i : Nat) (A : List (MTree r d))
    (child : MTree r d) (B : List (MTree r d)) : Prop where
  ch : m.children = A ++ child :: B
  len : A.length = i
  lo : ∀ a ∈ dgs A, a < hkey
  hi : ∀ b ∈ dgs B, hkey < b

theorem route (hT : legalThreshold T = true) (hm : MetaLoose T D d top m) (hlen : 1 ≤ m.children.length) (hkey : Nat) :
    match MMetaSlab.findChild m.childHdrs hkey 0 m.childHdrs.length none (m.childHdrs.length + 1) with
    | none => (∀ x ∈ dgs m.children, hkey < x) ∧ ∃ child B, Routed d m hkey 0 [] child B
    | some i => ∃ A child B, Routed d m hkey i A child B ∧ (MTree.hdr d child).firstKey ≤ hkey := by
  have hs := firstKeys_sorted hT hm
  have hhl := hm.hdrs_len
  have hgt : ∀ (p : Nat) (c : MTree r d), m.children[p]? = some c → hkey < (MTree.hdr d c).firstKey →
      ∀ x ∈ MTree.digests0 d c, hkey < x := by
    intro p c hp hlt x hx
    have tc := hm.2.2.2.2.1 c (List.mem_of_getElem? hp)
    have := SInv.firstKey_le hT (MTreeInv.sinv hT tc) x hx
    omega
  have hhd : ∀ (p : Nat) (c : MTree r d), m.children[p]? = some c → m.childHdrs[p]? = some (MTree.hdr d c) := by
    intro p c hp; rw [hm.2.1, List.getElem?_map, hp]; rfl
  obtain ⟨q, hq, hres, hlo, hhi⟩ := MMetaSlab.findChild_spec hs (m.childHdrs.length + 1) 0 m.childHdrs.length none
    (res := MMetaSlab.findChild m.childHdrs hkey 0 m.childHdrs.length none (m.childHdrs.length + 1))
    (Nat.zero_le _) (Nat.le_refl _) (by omega) (by intro p h hp; omega)
    (by intro p h hp hph; have := lt_of_getElem?_eq_some hph; omega) rfl rfl
  cases hr : MMetaSlab.findChild m.childHdrs hkey 0 m.childHdrs.length none (m.childHdrs.length + 1) with
  | none =>
    rw [hr] at hres
    simp only at hres ⊢
    subst hres
    have hall : ∀ x ∈ dgs m.children, hkey < x := by
      intro x hx
      obtain ⟨c, hc, hxc⟩ := List.mem_flatMap.mp hx
      obtain ⟨p, hp⟩ := List.mem_iff_getElem?.mp hc
      exact hgt p c hp (hhi p _ (Nat.zero_le _) (hhd p c hp)) x hxc
    refine ⟨hall, ?_⟩
    cases hc : m.children with
    | nil => rw [hc] at hlen; simp at hlen
    | cons c0 B =>
      refine ⟨c0, B, by simpa using hc, rfl, by intro a ha; simp [dgs] at ha, ?_⟩
      intro b hb
      apply hall b
      rw [hc]; simp only [dgs, List.flatMap_cons]; exact List.mem_append_right _ hb
  | some i =>
    rw [hr] at hres
    simp only at hres ⊢
    have hi : i < m.children.length := by omega
    have hci : m.children[i]? = some m.children[i] := List.getElem?_eq_getElem hi
    obtain ⟨A, B, hAB, hAl⟩ := zip_of_get hci
    refine ⟨A, m.children[i], B, ⟨hAB, hAl, ?_, ?_⟩, hlo i _ (by omega) (hhd i _ hci)⟩
    · intro a ha
      obtain ⟨c, hc, hac⟩ := List.mem_flatMap.mp ha
      obtain ⟨p, hp⟩ := List.mem_iff_getElem?.mp hc
      have hpl := lt_of_getElem?_eq_some hp
      have hp' : m.children[p]? = some c := by
        rw [hAB, List.getElem?_append_left hpl]; exact hp
      have ti := hm.2.2.2.2.1 _ (List.getElem_mem hi)
      have hfk := SInv.firstKey_mem hT (MTreeInv.sinv hT ti) (MTreeInv.digests_ne_nil hT d _ ti)
      have := cross_lt hm hp' hci (by omega) a hac _ hfk
      have := hlo i _ (by omega) (hhd i _ hci)
      omega
    · intro b hb
      obtain ⟨c, hc, hbc⟩ := List.mem_flatMap.mp hb
      obtain ⟨p, hp⟩ := List.mem_iff_getElem?.mp hc
      have hp' : m.children[A.length + 1 + p]? = some c := by
        rw [hAB]
        rw [List.getElem?_append_right (by omega)]
        have : A.length + 1 + p - A.length = p + 1 := by omega
        rw [this]; simpa using hp
      exact hgt _ c hp' (hhi _ _ (by omega) (hhd _ c hp')) b hbc

end Route
end Atree
