import AtreeProofs.MapRefs
import AtreeProofs.E2EMap.Created
import AtreeProofs.Props.C02
/-
  Helper lemmas for `MRefsOk` (references of a map to large-value slabs): the reference ids of a
  pair list under the "zipper" effects of set / remove, what `Value.Storable` returns, and the
  preservation of `MRefsOk` by every map operation (`Props/C09MapRefs.lean` states the results).
-/
namespace Atree
open Gen

namespace OMap

theorem refsOf_nil : refsOf [] = [] := rfl

theorem refsOf_append (A B : List (MKey × Elem)) : refsOf (A ++ B) = refsOf A ++ refsOf B := by
  simp [refsOf, List.filterMap_append]

theorem refsOf_cons (p : MKey × Elem) (B : List (MKey × Elem)) :
    refsOf (p :: B) = (refOf p).toList ++ refsOf B := by
  simp only [refsOf, List.filterMap_cons]
  cases refOf p <;> rfl

theorem refsOf_zip (A B : List (MKey × Elem)) (p : MKey × Elem) :
    refsOf (A ++ p :: B) = refsOf A ++ ((refOf p).toList ++ refsOf B) := by
  rw [refsOf_append, refsOf_cons]

theorem refsOf_reverse (l : List (MKey × Elem)) : refsOf l.reverse = (refsOf l).reverse := by
  simp [refsOf, List.filterMap_reverse]

theorem nodup_reverse {α : Type} {l : List α} (h : l.Nodup) : l.reverse.Nodup := by
  unfold List.Nodup at *
  rw [List.pairwise_reverse]
  exact h.imp (fun h => Ne.symm h)

theorem mem_refsOf {l : List (MKey × Elem)} {id : SlabID} :
    id ∈ refsOf l ↔ ∃ p ∈ l, p.2.pay = .ref id := by
  simp only [refsOf, List.mem_filterMap, refOf]
  constructor
  · rintro ⟨p, hp, h⟩
    refine ⟨p, hp, ?_⟩
    cases hpay : p.2.pay with
    | ref y => rw [hpay] at h; simp only [Option.some.injEq] at h; rw [h]
    | val n => rw [hpay] at h; cases h
  · rintro ⟨p, hp, h⟩
    exact ⟨p, hp, by rw [h]⟩

theorem refOf_eq_some {p : MKey × Elem} {id : SlabID} : refOf p = some id ↔ p.2.pay = .ref id := by
  unfold refOf
  cases p.2.pay with
  | ref y => simp
  | val n => simp

theorem refOf_val {k : MKey} {v : Elem} {n : Nat} (h : v.pay = .val n) : refOf (k, v) = none := by
  simp [refOf, h]

theorem refOf_key (k k' : MKey) (v : Elem) : refOf (k, v) = refOf (k', v) := rfl

/-- `set`: the effect on the reference ids -/
theorem refsOf_setEffect {l l' : List (MKey × Elem)} {k : MKey} {sv : Elem} {old : Option Elem}
    (h : SetEffect l l' k sv old) (hnd : (refsOf l).Nodup)
    (hnew : ∀ id, refOf (k, sv) = some id → id ∉ refsOf l) :
    (refsOf l').Nodup ∧ (∀ id ∈ refsOf l', id ∈ refsOf l ∨ refOf (k, sv) = some id) ∧
    (∀ id, refOf (k, sv) = some id → id ∈ refsOf l') ∧
    (∀ v0 id, old = some v0 → v0.pay = .ref id → id ∈ refsOf l ∧ id ∉ refsOf l') ∧
    (∀ id ∈ refsOf l, id ∈ refsOf l' ∨ ∃ v0, old = some v0 ∧ v0.pay = .ref id) := by
  rcases h with ⟨ho, _, A, B, rfl, rfl⟩ | ⟨v0, A, B, ho, rfl, rfl⟩
  · rw [refsOf_append] at hnd hnew
    rw [refsOf_zip, refsOf_append]
    refine ⟨?_, ?_, ?_, ?_, ?_⟩
    · cases hs : refOf (k, sv) with
      | none => simpa using hnd
      | some y =>
        have hy := hnew y hs
        simp only [Option.toList_some, List.singleton_append]
        rw [List.nodup_append] at hnd ⊢
        refine ⟨hnd.1, ?_, ?_⟩
        · rw [List.nodup_cons]
          exact ⟨fun hm => hy (List.mem_append.2 (Or.inr hm)), hnd.2.1⟩
        · intro a ha b hb
          rcases List.mem_cons.1 hb with rfl | hb
          · intro e; subst e; exact hy (List.mem_append.2 (Or.inl ha))
          · exact hnd.2.2 a ha b hb
    · intro id hid
      simp only [List.mem_append, Option.mem_toList] at hid ⊢
      rcases hid with h | h | h
      · exact Or.inl (Or.inl h)
      · exact Or.inr h
      · exact Or.inl (Or.inr h)
    · intro id hid
      simp only [List.mem_append, Option.mem_toList]
      exact Or.inr (Or.inl hid)
    · intro v0 id h0; subst ho; cases h0
    · intro id hid
      left
      simp only [List.mem_append, Option.mem_toList] at hid ⊢
      rcases hid with h | h
      · exact Or.inl h
      · exact Or.inr (Or.inr h)
  · rw [refsOf_zip] at hnd hnew
    rw [refsOf_zip, refsOf_zip]
    have hkey : ∀ (o : Option SlabID), (refsOf A ++ (o.toList ++ refsOf B)).Nodup →
        (refsOf A ++ refsOf B).Nodup := by
      intro o hn
      refine hn.sublist ?_
      exact List.Sublist.append (List.Sublist.refl _) (List.sublist_append_right _ _)
    have hAB := hkey _ hnd
    refine ⟨?_, ?_, ?_, ?_, ?_⟩
    · cases hs : refOf (k, sv) with
      | none => simpa using hAB
      | some y =>
        have hy := hnew y hs
        have hyA : y ∉ refsOf A := fun hm => hy (List.mem_append.2 (Or.inl hm))
        have hyB : y ∉ refsOf B := fun hm =>
          hy (List.mem_append.2 (Or.inr (List.mem_append.2 (Or.inr hm))))
        simp only [Option.toList_some, List.singleton_append]
        rw [List.nodup_append] at hAB ⊢
        refine ⟨hAB.1, ?_, ?_⟩
        · rw [List.nodup_cons]
          exact ⟨hyB, hAB.2.1⟩
        · intro a ha b hb
          rcases List.mem_cons.1 hb with rfl | hb
          · intro e; subst e; exact hyA ha
          · exact hAB.2.2 a ha b hb
    · intro id hid
      simp only [List.mem_append, Option.mem_toList] at hid ⊢
      rcases hid with h | h | h
      · exact Or.inl (Or.inl h)
      · exact Or.inr h
      · exact Or.inl (Or.inr (Or.inr h))
    · intro id hid
      simp only [List.mem_append, Option.mem_toList]
      exact Or.inr (Or.inl hid)
    · intro w id hw hpay
      subst ho
      simp only [Option.some.injEq] at hw
      subst hw
      have hr0 : refOf (k, v0) = some id := refOf_eq_some.2 hpay
      rw [hr0] at hnd hnew ⊢
      simp only [Option.toList_some, List.singleton_append] at hnd hnew ⊢
      have hin : id ∈ refsOf A ++ id :: refsOf B := List.mem_append.2 (Or.inr List.mem_cons_self)
      refine ⟨hin, ?_⟩
      rw [List.nodup_append] at hnd
      have hidA : id ∉ refsOf A := fun hm => hnd.2.2 id hm id List.mem_cons_self rfl
      have hidB : id ∉ refsOf B := (List.nodup_cons.1 hnd.2.1).1
      simp only [List.mem_append, Option.mem_toList, not_or]
      refine ⟨hidA, ?_, hidB⟩
      intro hs
      exact hnew id hs hin
    · intro id hid
      simp only [List.mem_append, Option.mem_toList] at hid ⊢
      rcases hid with h | h | h
      · exact Or.inl (Or.inl h)
      · exact Or.inr ⟨v0, ho, refOf_eq_some.1 h⟩
      · exact Or.inl (Or.inr (Or.inr h))

/-- `remove`: the effect on the reference ids -/
theorem refsOf_remEffect {l l' : List (MKey × Elem)} {k : MKey} {v : Elem}
    (h : RemEffect l l' k v) (hnd : (refsOf l).Nodup) :
    (refsOf l').Nodup ∧ (∀ id ∈ refsOf l', id ∈ refsOf l) ∧
    (∀ id, v.pay = .ref id → id ∈ refsOf l ∧ id ∉ refsOf l') ∧
    (∀ id ∈ refsOf l, id ∈ refsOf l' ∨ v.pay = .ref id) := by
  obtain ⟨A, B, rfl, rfl⟩ := h
  rw [refsOf_zip] at hnd ⊢
  rw [refsOf_append]
  have hAB : (refsOf A ++ refsOf B).Nodup :=
    hnd.sublist (List.Sublist.append (List.Sublist.refl _) (List.sublist_append_right _ _))
  refine ⟨hAB, ?_, ?_, ?_⟩
  · intro id hid
    simp only [List.mem_append] at hid ⊢
    rcases hid with h | h
    · exact Or.inl h
    · exact Or.inr (Or.inr h)
  · intro id hpay
    have hr0 : refOf (k, v) = some id := refOf_eq_some.2 hpay
    rw [hr0] at hnd ⊢
    simp only [Option.toList_some, List.singleton_append] at hnd ⊢
    refine ⟨List.mem_append.2 (Or.inr List.mem_cons_self), ?_⟩
    rw [List.nodup_append] at hnd
    have hidA : id ∉ refsOf A := fun hm => hnd.2.2 id hm id List.mem_cons_self rfl
    have hidB : id ∉ refsOf B := (List.nodup_cons.1 hnd.2.1).1
    simp only [List.mem_append, not_or]
    exact ⟨hidA, hidB⟩
  · intro id hid
    simp only [List.mem_append, Option.mem_toList] at hid ⊢
    rcases hid with h | h | h
    · exact Or.inl (Or.inl h)
    · exact Or.inr (refOf_eq_some.1 h)
    · exact Or.inl (Or.inr h)

end OMap

/-! ### what `Value.Storable` returns -/

/-- the stored form of a caller's value: the value itself (small), or a reference to the slab
    `⟨cfg.addr, c.ctr + 1⟩` created for it (large) -/
theorem storedValue_cases (cfg : MCfg) (k : MKey) (v : Elem) (c : Ctx) (hv : ValueOkM v) :
    (storedValue cfg k v c = v ∧ (E2EM.tsv cfg k v c).2.created = c.created) ∨
    (storedValue cfg k v c = ⟨slabIDStorableSize, .ref ⟨cfg.addr, c.ctr + 1⟩⟩ ∧
      maxInlineMapValue cfg.T k.size < v.size ∧
      (E2EM.tsv cfg k v c).2.created = c.created ++ [(⟨cfg.addr, c.ctr + 1⟩, v)]) := by
  obtain ⟨_, n, hn⟩ := hv
  unfold storedValue E2EM.tsv toStorableLim
  rw [hn]
  simp only
  split
  · rename_i hgt
    right
    exact ⟨rfl, hgt, rfl⟩
  · left
    exact ⟨rfl, rfl⟩

variable {r : Nat} {T : Nat} {D : DigestFn (r + 1)}

/-- `refIds` of a map unfolds to the ids of its pair list -/
theorem OMap.refIds_eq (m : OMap r) : m.refIds = OMap.refsOf m.toList := rfl

/-- an old reference is neither a slab of the new tree (which consists of old tree slabs and
    freshly allocated ones) -/
theorem ref_not_in_new_tree {β : Type} {a cn cn' : Nat} {S S' : List (SlabID × β)} {E : List Eff}
    {cr : List SlabID} (hacct : MAcct a cn cn' S S' E cr) {id : SlabID}
    (h1 : id ∉ AList.keys S) (h2 : id.idx ≤ cn) : id ∉ AList.keys S' := by
  intro hin
  rcases hacct.keys_new id hin with h | h
  · exact h1 h
  · have := h.2.1; omega

/-- `Set`, the core statement: `MRefsOk` is preserved, the overwritten reference is handed back,
    the new reference is fresh. -/
theorem omap_set_refs (hT : legalThreshold T = true) {cfg : MCfg} {m : OMap r} (hcfg : CfgOk cfg T m)
    (h : MapInv T D m) {k : MKey} (hk : KeyOk T (r + 1) D k) {v : Elem} (hv : ValueOkM v) (c : Ctx)
    (hc : CtxOk m c) (hids : MIdsOk m) (hrefs : MRefsOk m c.ctr) {old : Option Elem} {m' : OMap r} {c' : Ctx}
    (hr : m.set cfg k v c = .ok (old, m', c')) :
    MRefsOk m' c'.ctr ∧ c.ctr ≤ c'.ctr ∧
    (∀ id ∈ m'.refIds, id ∈ m.refIds ∨ (storedValue cfg k v c).pay = .ref id) ∧
    (∀ v0 id, old = some v0 → v0.pay = .ref id →
      id ∈ m.refIds ∧ id ∉ m'.refIds ∧ id ∉ AList.keys (MTree.slabs m'.d m'.root)) ∧
    (∀ id, (storedValue cfg k v c).pay = .ref id →
      id = ⟨m.addr, c.ctr + 1⟩ ∧ id ∈ m'.refIds ∧ id ∉ m.refIds ∧
      id ∉ AList.keys (MTree.slabs m.d m.root) ∧ id ∉ AList.keys (MTree.slabs m'.d m'.root) ∧
      (E2EM.tsv cfg k v c).2.created = c.created ++ [(id, v)]) ∧
    (∀ id ∈ m.refIds, id ∈ m'.refIds ∨ ∃ v0, old = some v0 ∧ v0.pay = .ref id) ∧
    c'.created = (E2EM.tsv cfg k v c).2.created := by
  have hs := OMap.set_spec hT hcfg h hk hv c
  by_cases hl : TLimited cfg m.d m.root k
  · rw [hs.1 hl] at hr; cases hr
  obtain ⟨old2, m2, c2, heq, hp⟩ := hs.2 hl
  rw [hr] at heq
  simp only [Except.ok.injEq, Prod.mk.injEq] at heq
  obtain ⟨rfl, rfl, rfl⟩ := heq
  obtain ⟨E, C, hlog, hacct, _, hrid⟩ := omap_set_acct hT hcfg h hk hv c hc hids hr
  obtain ⟨E', C', hlog', hcr, _, hC⟩ := E2EM.omap_set_created hT hcfg h hk hv c hc hids hr
  have haddr' : m'.addr = m.addr := by unfold OMap.addr; rw [hrid]
  have hle : c.ctr ≤ c'.ctr := hacct.le
  -- the new reference, if any
  have hnewref : ∀ id, (storedValue cfg k v c).pay = .ref id →
      id = ⟨m.addr, c.ctr + 1⟩ ∧ id ∉ m.refIds ∧ id ∉ AList.keys (MTree.slabs m.d m.root) ∧
      id ∉ AList.keys (MTree.slabs m'.d m'.root) ∧
      (E2EM.tsv cfg k v c).2.created = c.created ++ [(id, v)] := by
    intro id hid
    rcases storedValue_cases cfg k v c hv with ⟨h1, _⟩ | ⟨h1, _, h3⟩
    · obtain ⟨_, n, hn⟩ := hv
      rw [h1, hn] at hid; cases hid
    · rw [h1] at hid
      simp only [Pay.ref.injEq] at hid
      subst hid
      rw [h3] at hC
      have hC' : C' = [((⟨cfg.addr, c.ctr + 1⟩ : SlabID), v)] := List.append_cancel_left hC
      obtain ⟨_, g2, g3, _, _⟩ := hcr ⟨cfg.addr, c.ctr + 1⟩ (by rw [hC']; simp)
      refine ⟨by rw [hcfg.2.2], ?_, ?_, g2, h3⟩
      · intro hin
        have := (hrefs.2 _ hin).2.2.2
        simp only at this
        omega
      · intro hin
        have := old_of_ctxOk hc _ hin (by rw [hcfg.2.2])
        simp only at this
        omega
  have hnew' : ∀ id, OMap.refOf (k, storedValue cfg k v c) = some id → id ∉ OMap.refsOf m.toList := by
    intro id hid
    exact (hnewref id (OMap.refOf_eq_some.1 hid)).2.1
  obtain ⟨g1, g2, g3, g4, g6⟩ := OMap.refsOf_setEffect hp.eff hrefs.1 hnew'
  have hold_ok : ∀ id ∈ m.refIds, id ∉ AList.keys (MTree.slabs m'.d m'.root) := by
    intro id hid
    obtain ⟨h1, _, _, h4⟩ := hrefs.2 id hid
    exact ref_not_in_new_tree hacct h1 h4
  refine ⟨⟨g1, ?_⟩, hle, ?_, ?_, ?_, g6, by rw [hlog'.created]; exact hC⟩
  · intro id hid
    rcases g2 id hid with h1 | h1
    · obtain ⟨_, q2, q3, q4⟩ := hrefs.2 id h1
      exact ⟨hold_ok id h1, by rw [haddr']; exact q2, q3, by omega⟩
    · obtain ⟨e, _, _, q3, _⟩ := hnewref id (OMap.refOf_eq_some.1 h1)
      have hcle : c.ctr + 1 ≤ c'.ctr := by
        rcases storedValue_cases cfg k v c hv with ⟨h1', _⟩ | ⟨_, _, h3⟩
        · obtain ⟨_, n, hn⟩ := hv
          have := OMap.refOf_eq_some.1 h1
          rw [h1', hn] at this; cases this
        · rw [h3] at hC
          have hC' : C' = [((⟨cfg.addr, c.ctr + 1⟩ : SlabID), v)] := List.append_cancel_left hC
          obtain ⟨_, _, _, q, _⟩ := hcr ⟨cfg.addr, c.ctr + 1⟩ (by rw [hC']; simp)
          exact q
      subst e
      exact ⟨q3, haddr'.symm ▸ rfl, by simp, hcle⟩
  · intro id hid
    rcases g2 id hid with h1 | h1
    · exact Or.inl h1
    · exact Or.inr (OMap.refOf_eq_some.1 h1)
  · intro v0 id ho hpay
    obtain ⟨q1, q2⟩ := g4 v0 id ho hpay
    exact ⟨q1, q2, hold_ok id q1⟩
  · intro id hid
    obtain ⟨q1, q2, q3, q4, q5⟩ := hnewref id hid
    exact ⟨q1, g3 id (OMap.refOf_eq_some.2 hid), q2, q3, q4, q5⟩

/-- `Remove`: `MRefsOk` is preserved and the removed reference is handed back. -/
theorem omap_remove_refs (hT : legalThreshold T = true) {cfg : MCfg} {m : OMap r} (hcfg : CfgOk cfg T m)
    (h : MapInv T D m) {k : MKey} (hk : KeyOk T (r + 1) D k) (c : Ctx)
    (hc : CtxOk m c) (hids : MIdsOk m) (hrefs : MRefsOk m c.ctr) {k0 : MKey} {v0 : Elem} {m' : OMap r} {c' : Ctx}
    (hr : m.remove cfg k c = .ok (k0, v0, m', c')) :
    MRefsOk m' c'.ctr ∧ c.ctr ≤ c'.ctr ∧ c'.created = c.created ∧
    (∀ id ∈ m'.refIds, id ∈ m.refIds) ∧
    (∀ id, v0.pay = .ref id →
      id ∈ m.refIds ∧ id ∉ m'.refIds ∧ id ∉ AList.keys (MTree.slabs m'.d m'.root)) ∧
    (∀ id ∈ m.refIds, id ∈ m'.refIds ∨ v0.pay = .ref id) := by
  have hs := OMap.remove_spec hT hcfg h hk c hc
  by_cases hex : ∃ w, (k, w) ∈ m.toList
  · obtain ⟨w, hw⟩ := hex
    obtain ⟨m2, c2, heq, hp⟩ := hs.2 w hw
    rw [hr] at heq
    simp only [Except.ok.injEq, Prod.mk.injEq] at heq
    obtain ⟨rfl, rfl, rfl, rfl⟩ := heq
    obtain ⟨E, C, hlog, hacct, _, hrid⟩ := omap_remove_acct hT hcfg h hk c hc hids hr
    obtain ⟨E', hlog', _⟩ := E2EM.omap_remove_created hT hcfg h hk c hc hids hr
    have hcre : c'.created = c.created := by rw [hlog'.created]; simp
    have haddr' : m'.addr = m.addr := by unfold OMap.addr; rw [hrid]
    have hle : c.ctr ≤ c'.ctr := hacct.le
    obtain ⟨g1, g2, g3, g4⟩ := OMap.refsOf_remEffect hp.eff hrefs.1
    have hold_ok : ∀ id ∈ m.refIds, id ∉ AList.keys (MTree.slabs m'.d m'.root) := by
      intro id hid
      obtain ⟨h1, _, _, h4⟩ := hrefs.2 id hid
      exact ref_not_in_new_tree hacct h1 h4
    refine ⟨⟨g1, ?_⟩, hle, hcre, g2, ?_, g4⟩
    · intro id hid
      have h1 := g2 id hid
      obtain ⟨_, q2, q3, q4⟩ := hrefs.2 id h1
      exact ⟨hold_ok id h1, by rw [haddr']; exact q2, q3, by omega⟩
    · intro id hpay
      obtain ⟨q1, q2⟩ := g3 id hpay
      exact ⟨q1, q2, hold_ok id q1⟩
  · have hne : ∀ p ∈ m.toList, p.1 ≠ k := by
      intro p hp hpk; exact hex ⟨p.2, by rw [← hpk]; exact hp⟩
    rw [hs.1 hne] at hr; cases hr

end Atree
