import AtreeProofs.Map.EffectsSteps
/-
  Effect-log accounting for maps (C09), tree layer: the log appended by `MTree.set / remove` on an
  arbitrary subtree is a complete account of how the slabs of the subtree (data slabs, index
  slabs, external collision groups) changed, by induction on the depth.
-/
namespace Atree
open Gen

variable {r : Nat} {T : Nat} {D : DigestFn (r + 1)}

/-! ### data slabs -/

/-- the first-level elements of a valid data slab -/
theorem firstOk_of_inv {L : Nat} {DL : DigestFn L} {he : HkeyElems (MElems r)}
    (h : ElemsInv T L DL (r + 1) 0 [] he) : ∀ el ∈ he.elems, FirstOk (NoExt r) el := by
  have h' := (elemsInv_succ_iff T L DL r 0 [] he).mp h
  obtain ⟨_, _, hlen, _, _, hel⟩ := h'
  intro el hmem
  obtain ⟨i, hi, hget⟩ := List.mem_iff_getElem.mp hmem
  have hi' : i < he.hkeys.length := by rw [hlen]; exact hi
  have hk : he.hkeys[i]? = some he.hkeys[i] := List.getElem?_eq_getElem hi'
  have he' : he.elems[i]? = some el := by rw [List.getElem?_eq_getElem hi, hget]
  have := hel i _ el hk he'
  cases el with
  | single x => trivial
  | inl g => exact noExt_of_inv r 1 _ g this.1 (Nat.le_refl 1)
  | ext id sz s => exact ⟨this.2.2.1, noExt_of_inv r 1 _ s.elems this.2.2.2.2.2.1 (Nat.le_refl 1)⟩

theorem frame_cond {β : Type} {a c : Nat} {F1 S F2 : List (SlabID × β)}
    (hnd : (AList.keys (F1 ++ S ++ F2)).Nodup) (hold : ∀ id ∈ AList.keys (F1 ++ S ++ F2), Old a c id) :
    ∀ id ∈ AList.keys F1 ++ AList.keys F2, id ∉ AList.keys S ∧ Old a c id := by
  intro id hid
  refine ⟨?_, hold id ?_⟩
  · intro hS
    rw [nodup_keys_iff] at hnd
    have h1 := hnd id
    rw [kc_append, kc_append] at h1
    have h2 := (kc_pos_iff id S).2 hS
    rcases List.mem_append.1 hid with h | h
    · have := (kc_pos_iff id F1).2 h; omega
    · have := (kc_pos_iff id F2).2 h; omega
  · rw [keys_append, keys_append]
    rcases List.mem_append.1 hid with h | h
    · exact List.mem_append.2 (Or.inl (List.mem_append.2 (Or.inl h)))
    · exact List.mem_append.2 (Or.inr h)

theorem nodup_mid {β : Type} {F1 S F2 : List (SlabID × β)} (hnd : (AList.keys (F1 ++ S ++ F2)).Nodup) :
    (AList.keys S).Nodup := by
  rw [nodup_keys_iff] at hnd ⊢
  intro id
  have := hnd id
  rw [kc_append, kc_append] at this
  omega

theorem old_mid {β : Type} {a c : Nat} {F1 S F2 : List (SlabID × β)}
    (hold : ∀ id ∈ AList.keys (F1 ++ S ++ F2), Old a c id) : ∀ id ∈ AList.keys S, Old a c id := by
  intro id hid
  apply hold
  rw [keys_append, keys_append]
  exact List.mem_append.2 (Or.inl (List.mem_append.2 (Or.inr hid)))

/-- the group slabs of a data slab are rewritten, then the data slab itself is stored -/
theorem mdata_acct {a : Nat} {c c1 : Ctx} {E : List Eff} {C : List (SlabID × Elem)} (s s' : MDataSlab r)
    (hid : s'.hdr.id = s.hdr.id)
    (hnd : (AList.keys (MTree.slabs 0 s)).Nodup) (hold : ∀ id ∈ AList.keys (MTree.slabs 0 s), Old a c.ctr id)
    (hlog : MLog a c c1 E C)
    (hacct : MAcct a c.ctr c1.ctr (grp s.elems.elems) (grp s'.elems.elems) E (C.map (·.1))) :
    MLog a c (c1.emit (.store s.hdr.id)) (E ++ [.store s.hdr.id]) C ∧
      MAcct a c.ctr (c1.emit (.store s.hdr.id)).ctr (MTree.slabs 0 s) (MTree.slabs 0 s')
        (E ++ [.store s.hdr.id]) (C.map (·.1)) ∧
      lastAction (E ++ [.store s.hdr.id]) s.hdr.id = some true := by
  refine ⟨by simpa using hlog.trans (MLog.store a c1 s.hdr.id), ?_, lastAction_store_last E s.hdr.id⟩
  rw [mslabs_zero, mslabs_zero, hid, groupSlabs_eq s, groupSlabs_eq s']
  rw [mslabs_zero, groupSlabs_eq s] at hnd hold
  have h1 := hacct.map (fun g => MSlabView.group g)
  refine h1.with_root s.hdr.id _ _ ?_ ?_ ?_
  · rw [keys_cons'] at hnd
    exact (List.nodup_cons.1 hnd).1
  · exact hold _ (by rw [keys_cons']; exact List.mem_cons_self)
  · intro id hid'
    exact hold id (by rw [keys_cons']; exact List.mem_cons_of_mem _ hid')

theorem keys_map_view {β γ : Type} (f : β → γ) (L : List (SlabID × β)) :
    AList.keys (L.map (fun p => (p.1, f p.2))) = AList.keys L := by
  simp [AList.keys]

theorem keys_grp_nodup {s : MDataSlab r} (hnd : (AList.keys (MTree.slabs 0 s)).Nodup) :
    (AList.keys (grp s.elems.elems)).Nodup := by
  rw [mslabs_zero, groupSlabs_eq s, keys_cons'] at hnd
  have := (List.nodup_cons.1 hnd).2
  rwa [keys_map_view] at this

theorem keys_grp_old {a c : Nat} {s : MDataSlab r} (hold : ∀ id ∈ AList.keys (MTree.slabs 0 s), Old a c id) :
    ∀ id ∈ AList.keys (grp s.elems.elems), Old a c id := by
  intro id hid
  apply hold
  rw [mslabs_zero, groupSlabs_eq s, keys_cons']
  apply List.mem_cons_of_mem
  rwa [keys_map_view]

theorem mdata_set_acct {cfg : MCfg} (s s' : MDataSlab r) {k : MKey} {v : Elem} {c c' : Ctx} {ks : MKey}
    {old : Option Elem} (hinl : s.inlined = false)
    (hF : ∀ el ∈ s.elems.elems, FirstOk (NoExt r) el)
    (hnd : (AList.keys (MTree.slabs 0 s)).Nodup)
    (hold : ∀ id ∈ AList.keys (MTree.slabs 0 s), Old cfg.addr c.ctr id)
    (h : s.set cfg k v c = .ok (ks, old, s', c')) :
    s'.hdr.id = s.hdr.id ∧ ∃ E C, MLog cfg.addr c c' E C ∧
      MAcct cfg.addr c.ctr c'.ctr (MTree.slabs 0 s) (MTree.slabs 0 s') E (C.map (·.1)) ∧
      lastAction E s.hdr.id = some true := by
  unfold MDataSlab.set at h
  obtain ⟨⟨ks', old', elems, c1⟩, hset, h⟩ := mbind_eq_ok h
  simp only [pure, Except.pure, Except.ok.injEq, Prod.mk.injEq] at h
  obtain ⟨_, _, rfl, rfl⟩ := h
  refine ⟨rfl, ?_⟩
  have hE : OpsEff cfg (MDataSlab.eops r) (NoExt r) := MElems.opsEff cfg r
  obtain ⟨E, C, hlog, hacct⟩ := set0_acct hE hF (keys_grp_nodup hnd) (keys_grp_old hold) hset
  simp only [MDataSlab.storeIfNotInlined, hinl]
  simp only [Bool.false_eq_true, if_false]
  exact ⟨_, _, mdata_acct s _ rfl hnd hold hlog hacct⟩

theorem mdata_remove_acct {cfg : MCfg} (s s' : MDataSlab r) {k : MKey} {c c' : Ctx} {rk : MKey}
    {rv : Elem} (hinl : s.inlined = false)
    (hF : ∀ el ∈ s.elems.elems, FirstOk (NoExt r) el)
    (hnd : (AList.keys (MTree.slabs 0 s)).Nodup)
    (hold : ∀ id ∈ AList.keys (MTree.slabs 0 s), Old cfg.addr c.ctr id)
    (h : s.remove cfg k c = .ok (rk, rv, s', c')) :
    s'.hdr.id = s.hdr.id ∧ ∃ E C, MLog cfg.addr c c' E C ∧
      MAcct cfg.addr c.ctr c'.ctr (MTree.slabs 0 s) (MTree.slabs 0 s') E (C.map (·.1)) ∧
      lastAction E s.hdr.id = some true := by
  unfold MDataSlab.remove at h
  obtain ⟨⟨rk', rv', elems, c1⟩, hrem, h⟩ := mbind_eq_ok h
  simp only [pure, Except.pure, Except.ok.injEq, Prod.mk.injEq] at h
  obtain ⟨_, _, rfl, rfl⟩ := h
  refine ⟨rfl, ?_⟩
  have hE : OpsEff cfg (MDataSlab.eops r) (NoExt r) := MElems.opsEff cfg r
  obtain ⟨E, hlog, hacct⟩ := remove0_acct hE hF (keys_grp_nodup hnd) (keys_grp_old hold) hrem
  simp only [MDataSlab.storeIfNotInlined, hinl]
  simp only [Bool.false_eq_true, if_false]
  exact ⟨_, [], mdata_acct s _ rfl hnd hold hlog (by simpa using hacct)⟩

/-! ### one level up -/

variable {d : Nat}

theorem afterChild_inv {m m2 : MMetaSlab (MTree r d)} {child' : MTree r d} {k : Nat} {c c2 : Ctx}
    (h : m.afterChild T child' k c = .ok (m2, c2)) :
    (m.withChild child' k).splitChildSlab child' k c = .ok (m2, c2) ∨
    (∃ u, (m.withChild child' k).mergeOrRebalanceChildSlab T child' k u c = .ok (m2, c2)) ∨
    (m2 = m.withChild child' k ∧ c2 = c.emit (.store (m.withChild child' k).hdr.id)) := by
  rw [afterChild_eq] at h
  split at h
  · exact Or.inl h
  · split at h
    · exact Or.inr (Or.inl ⟨_, h⟩)
    · simp only [Except.ok.injEq, Prod.mk.injEq] at h
      exact Or.inr (Or.inr ⟨h.1.symm, h.2.symm⟩)

theorem withChild_children (m : MMetaSlab (MTree r d)) (child : MTree r d) (k : Nat) :
    (m.withChild child k).children = m.children.set k child := rfl
theorem withChild_hdr_id (m : MMetaSlab (MTree r d)) (child : MTree r d) (k : Nat) :
    (m.withChild child k).hdr.id = m.hdr.id := rfl

/-- child step followed by the parent's repair step -/
theorem mparent_acct {a : Nat} {m m2 : MMetaSlab (MTree r d)} {A B : List (MTree r d)} {child child' : MTree r d}
    {c c1 c2 : Ctx} {E1 : List Eff} {C1 : List (SlabID × Elem)}
    (hch : m.children = A ++ child :: B)
    (hnd : (AList.keys (MTree.slabs (d + 1) m)).Nodup)
    (hold : ∀ id ∈ AList.keys (MTree.slabs (d + 1) m), Old a c.ctr id)
    (hlog1 : MLog a c c1 E1 C1)
    (hchild : MAcct a c.ctr c1.ctr (MTree.slabs d child) (MTree.slabs d child') E1 (C1.map (·.1)))
    (htail : (AList.keys ((m.hdr.id, ment (d + 1) m) :: (A ++ child' :: B).flatMap (MTree.slabs d))).Nodup →
      (∀ id ∈ AList.keys ((m.hdr.id, ment (d + 1) m) :: (A ++ child' :: B).flatMap (MTree.slabs d)), Old a c1.ctr id) →
      ∃ E2, MLog a c1 c2 E2 [] ∧
        MAcct a c1.ctr c2.ctr ((m.hdr.id, ment (d + 1) m) :: (A ++ child' :: B).flatMap (MTree.slabs d))
          (MTree.slabs (d + 1) m2) E2 [] ∧ lastAction E2 m.hdr.id = some true) :
    ∃ E C, MLog a c c2 E C ∧
      MAcct a c.ctr c2.ctr (MTree.slabs (d + 1) m) (MTree.slabs (d + 1) m2) E (C.map (·.1)) ∧
      lastAction E m.hdr.id = some true := by
  have e0 : MTree.slabs (d + 1) m
      = ((m.hdr.id, ment (d + 1) m) :: A.flatMap (MTree.slabs d)) ++ MTree.slabs d child ++ B.flatMap (MTree.slabs d) := by
    rw [mslabs_succ, hch]; simp [List.flatMap_append, ment_succ]
  rw [e0] at hnd hold ⊢
  have hframe := hchild.frame_mid ((m.hdr.id, ment (d + 1) m) :: A.flatMap (MTree.slabs d))
    (B.flatMap (MTree.slabs d)) (frame_cond hnd hold)
  have hnd1 := hframe.nodup hnd
  have hold1 := hframe.old hold
  have e1 : ((m.hdr.id, ment (d + 1) m) :: A.flatMap (MTree.slabs d)) ++ MTree.slabs d child' ++ B.flatMap (MTree.slabs d)
      = (m.hdr.id, ment (d + 1) m) :: (A ++ child' :: B).flatMap (MTree.slabs d) := by
    simp [List.flatMap_append]
  rw [e1] at hframe hnd1 hold1
  obtain ⟨E2, hlog2, hacct2, hla⟩ := htail hnd1 hold1
  refine ⟨E1 ++ E2, C1, by simpa using hlog1.trans hlog2, ?_, lastAction_append_some hla⟩
  simpa using hframe.trans hacct2 hold

/-! ### reading the path off a successful run -/

theorem mset_succ_inv {cfg : MCfg} (m : MMetaSlab (MTree r d)) {k : MKey} {v : Elem} {c : Ctx} {ks : MKey}
    {old : Option Elem} {t' : MMetaSlab (MTree r d)} {c' : Ctx}
    (h : MTree.set cfg (d + 1) m k v c = .ok (ks, old, t', c')) :
    ∃ i child child' c1, m.children[i]? = some child ∧
      MTree.set cfg d child k v c = .ok (ks, old, child', c1) ∧
      m.afterChild cfg.T child' i c1 = .ok (t', c') := by
  simp only [MTree.set] at h
  split at h
  · cases h
  · rename_i child hchild
    obtain ⟨⟨ks', old', child', c1⟩, hs, h⟩ := mbind_eq_ok h
    obtain ⟨⟨m', c2⟩, ha, h⟩ := mbind_eq_ok h
    simp only [pure, Except.pure, Except.ok.injEq, Prod.mk.injEq] at h
    obtain ⟨rfl, rfl, rfl, rfl⟩ := h
    exact ⟨_, child, child', c1, hchild, hs, ha⟩

theorem mremove_succ_inv {cfg : MCfg} (m : MMetaSlab (MTree r d)) {k : MKey} {c : Ctx} {rk : MKey}
    {rv : Elem} {t' : MMetaSlab (MTree r d)} {c' : Ctx}
    (h : MTree.remove cfg (d + 1) m k c = .ok (rk, rv, t', c')) :
    ∃ i child child' c1, m.children[i]? = some child ∧
      MTree.remove cfg d child k c = .ok (rk, rv, child', c1) ∧
      m.afterChild cfg.T child' i c1 = .ok (t', c') := by
  simp only [MTree.remove] at h
  split at h
  · cases h
  · split at h
    · cases h
    · rename_i i _ _ child hchild
      obtain ⟨⟨rk', rv', child', c1⟩, hs, h⟩ := mbind_eq_ok h
      obtain ⟨⟨m', c2⟩, ha, h⟩ := mbind_eq_ok h
      simp only [pure, Except.pure, Except.ok.injEq, Prod.mk.injEq] at h
      obtain ⟨rfl, rfl, rfl, rfl⟩ := h
      exact ⟨i, child, child', c1, hchild, hs, ha⟩

/-! ### the repair step keeps the ID of the parent -/

theorem afterChild_hdr_id {m m2 : MMetaSlab (MTree r d)} {child' : MTree r d} {k : Nat} {c c2 : Ctx}
    (h : m.afterChild T child' k c = .ok (m2, c2)) : m2.hdr.id = m.hdr.id := by
  rcases afterChild_inv h with hsp | ⟨u, hmr⟩ | ⟨rfl, _⟩
  · unfold MMetaSlab.splitChildSlab at hsp
    obtain ⟨⟨l, rr, cs⟩, _, hsp⟩ := mbind_eq_ok hsp
    simp only [pure, Except.pure, Except.ok.injEq, Prod.mk.injEq] at hsp
    obtain ⟨rfl, _⟩ := hsp
    rfl
  · obtain ⟨l, rr, li, _, hact⟩ := mmor_cases _ child' k u c m2 c2 hmr
    rcases hact with ⟨flag, heq⟩ | heq
    · obtain ⟨_, _, _, _, hid, _⟩ := mrebal_inv heq
      exact hid
    · have h1 : m2 = ((m.withChild child' k).mergeChildren l rr li (li + 1) c).1 := by rw [← heq]
      rw [h1, mmerge_hdr_id]; rfl
  · rfl

theorem slabs_child_split {m : MMetaSlab (MTree r d)} {A B : List (MTree r d)} {child : MTree r d}
    (hch : m.children = A ++ child :: B) :
    MTree.slabs (d + 1) m
      = ((m.hdr.id, ment (d + 1) m) :: A.flatMap (MTree.slabs d)) ++ MTree.slabs d child ++ B.flatMap (MTree.slabs d) := by
  rw [mslabs_succ, hch]; simp [List.flatMap_append, ment_succ]

/-- one node: the child has been updated (with account), then `afterChild` repairs the parent -/
theorem mnode_acct {a : Nat} {m t' : MMetaSlab (MTree r d)} {i : Nat} {child child' : MTree r d} {c c1 c' : Ctx}
    {E1 : List Eff} {C1 : List (SlabID × Elem)}
    (hchild : m.children[i]? = some child)
    (haddr : (MTree.hdr d child).id.addr = a)
    (hid : (MTree.hdr d child').id = (MTree.hdr d child).id)
    (hnd : (AList.keys (MTree.slabs (d + 1) m)).Nodup)
    (hold : ∀ id ∈ AList.keys (MTree.slabs (d + 1) m), Old a c.ctr id)
    (hlog1 : MLog a c c1 E1 C1)
    (hacct1 : MAcct a c.ctr c1.ctr (MTree.slabs d child) (MTree.slabs d child') E1 (C1.map (·.1)))
    (ha : m.afterChild T child' i c1 = .ok (t', c')) :
    ∃ E C, MLog a c c' E C ∧
      MAcct a c.ctr c'.ctr (MTree.slabs (d + 1) m) (MTree.slabs (d + 1) t') E (C.map (·.1)) ∧
      lastAction E m.hdr.id = some true := by
  obtain ⟨A, B, hch, hk⟩ := split_at_getElem? hchild
  have hch1 : (m.withChild child' i).children = A ++ child' :: B := by
    rw [withChild_children, hch, set_mid hk]
  refine mparent_acct hch hnd hold hlog1 hacct1 ?_
  intro hnd1 hold1
  have hnd1' : (AList.keys (((m.withChild child' i).hdr.id, ment (d + 1) m) ::
      (m.withChild child' i).children.flatMap (MTree.slabs d))).Nodup := by
    rw [hch1, withChild_hdr_id]; exact hnd1
  have hold1' : ∀ id ∈ AList.keys (((m.withChild child' i).hdr.id, ment (d + 1) m) ::
      (m.withChild child' i).children.flatMap (MTree.slabs d)), Old a c1.ctr id := by
    rw [hch1, withChild_hdr_id]; exact hold1
  rcases afterChild_inv ha with hsp | ⟨u, hmr⟩ | ⟨rfl, rfl⟩
  · have := mtail_split_acct (e := ment (d + 1) m) hch1 hk (by rw [hid]; exact haddr) hsp hnd1' hold1'
    rw [hch1, withChild_hdr_id] at this
    exact this
  · have := mtail_mor_acct (e := ment (d + 1) m) hch1 hk hmr hnd1' hold1'
    rw [hch1, withChild_hdr_id] at this
    exact this
  · have := mtail_plain_acct (m1 := m.withChild child' i) (m2 := m.withChild child' i)
      (e := ment (d + 1) m) rfl rfl hnd1' hold1'
    rw [hch1, withChild_hdr_id] at this
    exact ⟨_, MLog.store a c1 m.hdr.id, this, lastAction_store_self m.hdr.id⟩

/-! ### set and remove on a subtree -/

theorem treeInl_of_nontop : ∀ (d : Nat) (t : MTree r d), MTreeInv T D d false t → treeInl d t = false
  | 0, s, h => by
    have hs := (mtreeInv_zero_iff T D false s).mp h
    show s.inlined = false
    cases hi : s.inlined with
    | false => rfl
    | true => have := hs.inl_root hi; cases this
  | _ + 1, _, _ => rfl

/-- the facts about a child needed by the induction -/
theorem child_facts {a c : Nat} {top : Bool} {m : MMetaSlab (MTree r d)} {i : Nat} {child : MTree r d}
    (hinv : MTreeInv T D (d + 1) top m) (haddr : m.hdr.id.addr = a)
    (hnd : (AList.keys (MTree.slabs (d + 1) m)).Nodup)
    (hold : ∀ id ∈ AList.keys (MTree.slabs (d + 1) m), Old a c id)
    (hchild : m.children[i]? = some child) :
    MTreeInv T D d false child ∧ treeInl d child = false ∧ (MTree.hdr d child).id.addr = a ∧
    (AList.keys (MTree.slabs d child)).Nodup ∧ ∀ id ∈ AList.keys (MTree.slabs d child), Old a c id := by
  have hm := ((mtreeInv_succ_iff T D d top m).mp hinv).1
  have hmem : child ∈ m.children := List.mem_of_getElem? hchild
  have hci := hm.2.2.2.2.1 child hmem
  obtain ⟨A, B, hch, _⟩ := split_at_getElem? hchild
  rw [slabs_child_split hch] at hnd hold
  exact ⟨hci, treeInl_of_nontop d child hci, by rw [hm.2.2.2.2.2.1 child hmem]; exact haddr,
    nodup_mid hnd, old_mid hold⟩

theorem mset_acct_zero {cfg : MCfg} (s t' : MDataSlab r) (top : Bool) {k : MKey} {v : Elem} {c c' : Ctx}
    {ks : MKey} {old : Option Elem} (hinv : MTreeInv T D 0 top s) (hinl : treeInl 0 s = false)
    (hnd : (AList.keys (MTree.slabs 0 s)).Nodup)
    (hold : ∀ id ∈ AList.keys (MTree.slabs 0 s), Old cfg.addr c.ctr id)
    (h : MTree.set cfg 0 s k v c = .ok (ks, old, t', c')) :
    (MTree.hdr 0 t').id = (MTree.hdr 0 s).id ∧ ∃ E C, MLog cfg.addr c c' E C ∧
      MAcct cfg.addr c.ctr c'.ctr (MTree.slabs 0 s) (MTree.slabs 0 t') E (C.map (·.1)) ∧
      lastAction E (MTree.hdr 0 s).id = some true :=
  mdata_set_acct s t' hinl (firstOk_of_inv ((mtreeInv_zero_iff T D top s).mp hinv).elems_inv) hnd hold h

theorem mset_acct_succ {cfg : MCfg} (m t' : MMetaSlab (MTree r d)) (top : Bool) {k : MKey} {v : Elem} {c c' : Ctx}
    {ks : MKey} {old : Option Elem} (hinv : MTreeInv T D (d + 1) top m) (haddr : m.hdr.id.addr = cfg.addr)
    (hnd : (AList.keys (MTree.slabs (d + 1) m)).Nodup)
    (hold : ∀ id ∈ AList.keys (MTree.slabs (d + 1) m), Old cfg.addr c.ctr id)
    (ih : ∀ (child child' : MTree r d) (c1 : Ctx), MTreeInv T D d false child → treeInl d child = false →
      (MTree.hdr d child).id.addr = cfg.addr → (AList.keys (MTree.slabs d child)).Nodup →
      (∀ id ∈ AList.keys (MTree.slabs d child), Old cfg.addr c.ctr id) →
      MTree.set cfg d child k v c = .ok (ks, old, child', c1) →
      (MTree.hdr d child').id = (MTree.hdr d child).id ∧ ∃ E C, MLog cfg.addr c c1 E C ∧
        MAcct cfg.addr c.ctr c1.ctr (MTree.slabs d child) (MTree.slabs d child') E (C.map (·.1)) ∧
        lastAction E (MTree.hdr d child).id = some true)
    (h : MTree.set cfg (d + 1) m k v c = .ok (ks, old, t', c')) :
    (MTree.hdr (d + 1) t').id = (MTree.hdr (d + 1) m).id ∧ ∃ E C, MLog cfg.addr c c' E C ∧
      MAcct cfg.addr c.ctr c'.ctr (MTree.slabs (d + 1) m) (MTree.slabs (d + 1) t') E (C.map (·.1)) ∧
      lastAction E (MTree.hdr (d + 1) m).id = some true := by
  obtain ⟨i, child, child', c1, hchild, hs, ha⟩ := mset_succ_inv m h
  obtain ⟨hci, hcinl, hcaddr, hcnd, hcold⟩ := child_facts hinv haddr hnd hold hchild
  obtain ⟨hid, E1, C1, hlog1, hacct1, _⟩ := ih child child' c1 hci hcinl hcaddr hcnd hcold hs
  exact ⟨afterChild_hdr_id ha, mnode_acct hchild hcaddr hid hnd hold hlog1 hacct1 ha⟩

theorem mset_acct {cfg : MCfg} {k : MKey} {v : Elem} {ks : MKey} {old : Option Elem} {c : Ctx} :
    ∀ (d : Nat) (t t' : MTree r d) (top : Bool) (c' : Ctx),
    MTreeInv T D d top t → treeInl d t = false → (MTree.hdr d t).id.addr = cfg.addr →
    (AList.keys (MTree.slabs d t)).Nodup → (∀ id ∈ AList.keys (MTree.slabs d t), Old cfg.addr c.ctr id) →
    MTree.set cfg d t k v c = .ok (ks, old, t', c') →
    (MTree.hdr d t').id = (MTree.hdr d t).id ∧ ∃ E C, MLog cfg.addr c c' E C ∧
      MAcct cfg.addr c.ctr c'.ctr (MTree.slabs d t) (MTree.slabs d t') E (C.map (·.1)) ∧
      lastAction E (MTree.hdr d t).id = some true
  | 0, s, t', top, _, hinv, hinl, _, hnd, hold, h => mset_acct_zero s t' top hinv hinl hnd hold h
  | d + 1, m, t', top, _, hinv, _, haddr, hnd, hold, h =>
    mset_acct_succ m t' top hinv haddr hnd hold
      (fun child child' c1 h1 h2 h3 h4 h5 h6 => mset_acct d child child' false c1 h1 h2 h3 h4 h5 h6) h

theorem mremove_acct_zero {cfg : MCfg} (s t' : MDataSlab r) (top : Bool) {k : MKey} {c c' : Ctx}
    {rk : MKey} {rv : Elem} (hinv : MTreeInv T D 0 top s) (hinl : treeInl 0 s = false)
    (hnd : (AList.keys (MTree.slabs 0 s)).Nodup)
    (hold : ∀ id ∈ AList.keys (MTree.slabs 0 s), Old cfg.addr c.ctr id)
    (h : MTree.remove cfg 0 s k c = .ok (rk, rv, t', c')) :
    (MTree.hdr 0 t').id = (MTree.hdr 0 s).id ∧ ∃ E C, MLog cfg.addr c c' E C ∧
      MAcct cfg.addr c.ctr c'.ctr (MTree.slabs 0 s) (MTree.slabs 0 t') E (C.map (·.1)) ∧
      lastAction E (MTree.hdr 0 s).id = some true :=
  mdata_remove_acct s t' hinl (firstOk_of_inv ((mtreeInv_zero_iff T D top s).mp hinv).elems_inv) hnd hold h

theorem mremove_acct_succ {cfg : MCfg} (m t' : MMetaSlab (MTree r d)) (top : Bool) {k : MKey} {c c' : Ctx}
    {rk : MKey} {rv : Elem} (hinv : MTreeInv T D (d + 1) top m) (haddr : m.hdr.id.addr = cfg.addr)
    (hnd : (AList.keys (MTree.slabs (d + 1) m)).Nodup)
    (hold : ∀ id ∈ AList.keys (MTree.slabs (d + 1) m), Old cfg.addr c.ctr id)
    (ih : ∀ (child child' : MTree r d) (c1 : Ctx), MTreeInv T D d false child → treeInl d child = false →
      (MTree.hdr d child).id.addr = cfg.addr → (AList.keys (MTree.slabs d child)).Nodup →
      (∀ id ∈ AList.keys (MTree.slabs d child), Old cfg.addr c.ctr id) →
      MTree.remove cfg d child k c = .ok (rk, rv, child', c1) →
      (MTree.hdr d child').id = (MTree.hdr d child).id ∧ ∃ E C, MLog cfg.addr c c1 E C ∧
        MAcct cfg.addr c.ctr c1.ctr (MTree.slabs d child) (MTree.slabs d child') E (C.map (·.1)) ∧
        lastAction E (MTree.hdr d child).id = some true)
    (h : MTree.remove cfg (d + 1) m k c = .ok (rk, rv, t', c')) :
    (MTree.hdr (d + 1) t').id = (MTree.hdr (d + 1) m).id ∧ ∃ E C, MLog cfg.addr c c' E C ∧
      MAcct cfg.addr c.ctr c'.ctr (MTree.slabs (d + 1) m) (MTree.slabs (d + 1) t') E (C.map (·.1)) ∧
      lastAction E (MTree.hdr (d + 1) m).id = some true := by
  obtain ⟨i, child, child', c1, hchild, hs, ha⟩ := mremove_succ_inv m h
  obtain ⟨hci, hcinl, hcaddr, hcnd, hcold⟩ := child_facts hinv haddr hnd hold hchild
  obtain ⟨hid, E1, C1, hlog1, hacct1, _⟩ := ih child child' c1 hci hcinl hcaddr hcnd hcold hs
  exact ⟨afterChild_hdr_id ha, mnode_acct hchild hcaddr hid hnd hold hlog1 hacct1 ha⟩

theorem mremove_acct {cfg : MCfg} {k : MKey} {rk : MKey} {rv : Elem} {c : Ctx} :
    ∀ (d : Nat) (t t' : MTree r d) (top : Bool) (c' : Ctx),
    MTreeInv T D d top t → treeInl d t = false → (MTree.hdr d t).id.addr = cfg.addr →
    (AList.keys (MTree.slabs d t)).Nodup → (∀ id ∈ AList.keys (MTree.slabs d t), Old cfg.addr c.ctr id) →
    MTree.remove cfg d t k c = .ok (rk, rv, t', c') →
    (MTree.hdr d t').id = (MTree.hdr d t).id ∧ ∃ E C, MLog cfg.addr c c' E C ∧
      MAcct cfg.addr c.ctr c'.ctr (MTree.slabs d t) (MTree.slabs d t') E (C.map (·.1)) ∧
      lastAction E (MTree.hdr d t).id = some true
  | 0, s, t', top, _, hinv, hinl, _, hnd, hold, h => mremove_acct_zero s t' top hinv hinl hnd hold h
  | d + 1, m, t', top, _, hinv, _, haddr, hnd, hold, h =>
    mremove_acct_succ m t' top hinv haddr hnd hold
      (fun child child' c1 h1 h2 h3 h4 h5 h6 => mremove_acct d child child' false c1 h1 h2 h3 h4 h5 h6) h

end Atree
