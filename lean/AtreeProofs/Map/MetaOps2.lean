import AtreeProofs.Map.MetaOps
/-
  `MMetaSlab.canLend / lendToRight / borrowFromRight` and the size of a merge.
-/
namespace Atree
open Gen

variable {T : Nat} {r : Nat} {D : DigestFn (r + 1)} {d : Nat}

namespace MMetaSlab

theorem canLend_iff (m : MMetaSlab (MTree r d)) (want : Nat) :
    m.canLend T want = true ↔
      18 * ((want + 17) / 18) ≤ m.hdr.size ∧ minThr T < m.hdr.size - 18 * ((want + 17) / 18) := by
  simp only [MMetaSlab.canLend, mapSlabHeaderSize, show want + 18 - 1 = want + 17 by omega]
  split
  · rename_i h; simp; exact fun _ => h
  · rename_i h; simp; intro h'; exact absurd h' h

theorem meta_lend_band (hT : legalThreshold T = true) {cl cr : Nat} (hl1 : minThr T ≤ 12 + 18 * cl)
    (hl2 : 12 + 18 * cl ≤ maxThr T) (hr : 12 + 18 * cr < minThr T)
    (h1 : 18 * ((minThr T - (12 + 18 * cr) + 17) / 18) ≤ 12 + 18 * cl)
    (h2 : minThr T < 12 + 18 * cl - 18 * ((minThr T - (12 + 18 * cr) + 17) / 18)) :
    minThr T ≤ 12 + 18 * ((cl + cr) / 2) ∧ 12 + 18 * ((cl + cr) / 2) ≤ maxThr T ∧
    minThr T ≤ 12 + 18 * (cl + cr - (cl + cr) / 2) ∧ 12 + 18 * (cl + cr - (cl + cr) / 2) ≤ maxThr T ∧
    (cl + cr) / 2 ≤ cl ∧ cr ≤ (cl + cr) / 2 ∧ 1 ≤ (cl + cr) / 2 := by
  have hb := map_legal_bounds hT
  simp only [minThr, maxThr] at *
  omega

theorem meta_merge_band (hT : legalThreshold T = true) {cu cs : Nat} (hs1 : minThr T ≤ 12 + 18 * cs)
    (hs2 : 12 + 18 * cs ≤ maxThr T) (hu : 12 + 18 * cu < minThr T)
    (h : ¬ (18 * ((minThr T - (12 + 18 * cu) + 17) / 18) ≤ 12 + 18 * cs ∧
            minThr T < 12 + 18 * cs - 18 * ((minThr T - (12 + 18 * cu) + 17) / 18))) :
    minThr T + 12 ≤ (12 + 18 * cu) + (12 + 18 * cs) ∧ (12 + 18 * cu) + (12 + 18 * cs) ≤ maxThr T + 12 := by
  have hb := map_legal_bounds hT
  simp only [minThr, maxThr] at *
  omega

theorem merge_band (hT : legalThreshold T = true) {u sib : MMetaSlab (MTree r d)} (hu : MetaLoose T D d false u)
    (hs : MTreeInv T D (d + 1) false sib) (hunder : u.hdr.size < minThr T)
    (h : sib.canLend T (minThr T - u.hdr.size) = false) :
    minThr T + 12 ≤ u.hdr.size + sib.hdr.size ∧ u.hdr.size + sib.hdr.size ≤ maxThr T + 12 := by
  obtain ⟨⟨hsl, _⟩, hs1, hs2⟩ := (mtreeInv_false_iff_succ hT sib).mp hs
  have h1 := hu.size_eq
  have h2 := hsl.size_eq
  have hn : ¬ (sib.canLend T (minThr T - u.hdr.size) = true) := by rw [h]; simp
  rw [canLend_iff] at hn
  rw [h2] at hs1 hs2
  rw [h1] at hunder
  rw [h1, h2] at hn ⊢
  exact meta_merge_band hT hs1 hs2 hunder hn

theorem lendToRight_spec (hT : legalThreshold T = true) {l rr : MMetaSlab (MTree r d)}
    (hl : MTreeInv T D (d + 1) false l) (hr : MetaLoose T D d false rr) (hunder : rr.hdr.size < minThr T)
    (hcan : l.canLend T (minThr T - rr.hdr.size) = true) (haddr : rr.hdr.id.addr = l.hdr.id.addr)
    (hlt : ∀ a ∈ MTree.digests0 (d + 1) l, ∀ b ∈ MTree.digests0 (d + 1) rr, a < b) :
    MTreeInv T D (d + 1) false (MMetaSlab.lendToRight l rr).1 ∧
    MTreeInv T D (d + 1) false (MMetaSlab.lendToRight l rr).2 ∧
    l.children ++ rr.children = (MMetaSlab.lendToRight l rr).1.children ++ (MMetaSlab.lendToRight l rr).2.children ∧
    (MMetaSlab.lendToRight l rr).1.hdr.id = l.hdr.id ∧ (MMetaSlab.lendToRight l rr).2.hdr.id = rr.hdr.id := by
  obtain ⟨⟨hll, _⟩, hl1, hl2⟩ := (mtreeInv_false_iff_succ hT l).mp hl
  have h1 := hll.size_eq
  have h2 := hr.size_eq
  rw [canLend_iff] at hcan
  rw [h1] at hl1 hl2
  rw [h2] at hunder
  rw [h1, h2] at hcan
  obtain ⟨g1, g2, g3, g4, g5, g6, g7⟩ := meta_lend_band hT hl1 hl2 hunder hcan.1 hcan.2
  have hlen1 := hll.hdrs_len
  have hlen2 := hr.hdrs_len
  obtain ⟨s1, s2, s3⟩ := sorted_take_drop ((l.children.length + rr.children.length) / 2) hll.sorted
  simp only [MMetaSlab.lendToRight, hlen1, hlen2]
  refine ⟨?_, ?_, ?_, by trivial, by trivial⟩
  · rw [mtreeInv_false_iff_succ hT]
    refine ⟨⟨MetaLoose.mk' hll.1 ?_ ?_ ?_ ?_ s1, ?_⟩, ?_, ?_⟩
    · simp only; rw [hll.2.1, List.map_take]
    · simp only [List.length_take, mapMetaDataSlabPrefixSize, mapSlabHeaderSize]
      rw [Nat.min_eq_left g5]; omega
    · simp only; rw [headD_take' _ g7]; exact hll.2.2.2.1
    · intro c hc; exact hll.child c (List.mem_of_mem_take hc)
    · simp only [List.length_take]; rw [Nat.min_eq_left g5]; exact g7
    · simp only [mapMetaDataSlabPrefixSize, mapSlabHeaderSize]; omega
    · simp only [mapMetaDataSlabPrefixSize, mapSlabHeaderSize]; omega
  · rw [mtreeInv_false_iff_succ hT]
    refine ⟨⟨MetaLoose.mk' hr.1 ?_ ?_ rfl ?_ ?_, ?_⟩, ?_, ?_⟩
    · simp only; rw [hll.2.1, hr.2.1, List.map_append, List.map_drop]
    · simp only [List.length_append, List.length_drop, mapMetaDataSlabPrefixSize, mapSlabHeaderSize]; omega
    · intro c hc
      simp only at hc ⊢
      rcases List.mem_append.mp hc with hc | hc
      · have := hll.child c (List.mem_of_mem_drop hc)
        exact ⟨this.1, by rw [this.2.1]; exact haddr.symm, this.2.2⟩
      · exact hr.child c hc
    · simp only
      refine sorted_append s2 hr.sorted ?_
      intro a ha b hb
      apply hlt a _ b hb
      obtain ⟨c, hc, hac⟩ := List.mem_flatMap.mp ha
      exact List.mem_flatMap.mpr ⟨c, List.mem_of_mem_drop hc, hac⟩
    · simp only [List.length_append, List.length_drop]; omega
    · simp only [mapMetaDataSlabPrefixSize, mapSlabHeaderSize]; omega
    · simp only [mapMetaDataSlabPrefixSize, mapSlabHeaderSize]; omega
  · rw [← List.append_assoc, List.take_append_drop]

theorem borrowFromRight_spec (hT : legalThreshold T = true) {l rr : MMetaSlab (MTree r d)}
    (hl : MetaLoose T D d false l) (hl1 : 1 ≤ l.children.length) (hr : MTreeInv T D (d + 1) false rr)
    (hunder : l.hdr.size < minThr T)
    (hcan : rr.canLend T (minThr T - l.hdr.size) = true) (haddr : rr.hdr.id.addr = l.hdr.id.addr)
    (hlt : ∀ a ∈ MTree.digests0 (d + 1) l, ∀ b ∈ MTree.digests0 (d + 1) rr, a < b) :
    MTreeInv T D (d + 1) false (MMetaSlab.borrowFromRight l rr).1 ∧
    MTreeInv T D (d + 1) false (MMetaSlab.borrowFromRight l rr).2 ∧
    l.children ++ rr.children =
      (MMetaSlab.borrowFromRight l rr).1.children ++ (MMetaSlab.borrowFromRight l rr).2.children ∧
    (MMetaSlab.borrowFromRight l rr).1.hdr.id = l.hdr.id ∧ (MMetaSlab.borrowFromRight l rr).2.hdr.id = rr.hdr.id ∧
    (MMetaSlab.borrowFromRight l rr).1.hdr.firstKey = l.hdr.firstKey := by
  obtain ⟨⟨hrl, _⟩, hr1, hr2⟩ := (mtreeInv_false_iff_succ hT rr).mp hr
  have h1 := hl.size_eq
  have h2 := hrl.size_eq
  rw [canLend_iff] at hcan
  rw [h2] at hr1 hr2
  rw [h1] at hunder
  rw [h1, h2] at hcan
  obtain ⟨g1, g2, g3, g4, g5, g6, g7⟩ := meta_lend_band hT hr1 hr2 hunder hcan.1 hcan.2
  have hlen1 := hl.hdrs_len
  have hlen2 := hrl.hdrs_len
  have hcomm : rr.children.length + l.children.length = l.children.length + rr.children.length := Nat.add_comm _ _
  rw [hcomm] at g1 g2 g3 g4 g5 g6 g7
  obtain ⟨s1, s2, s3⟩ := sorted_take_drop
    ((l.children.length + rr.children.length) / 2 - l.children.length) hrl.sorted
  simp only [MMetaSlab.borrowFromRight, hlen1, hlen2]
  refine ⟨?_, ?_, ?_, by trivial, by trivial, by trivial⟩
  · rw [mtreeInv_false_iff_succ hT]
    refine ⟨⟨MetaLoose.mk' hl.1 ?_ ?_ ?_ ?_ ?_, ?_⟩, ?_, ?_⟩
    · simp only; rw [hl.2.1, hrl.2.1, List.map_append, List.map_take]
    · simp only [List.length_append, List.length_take, mapMetaDataSlabPrefixSize, mapSlabHeaderSize]
      rw [Nat.min_eq_left (by omega)]; omega
    · simp only
      rw [headD_append_left]
      · exact hl.2.2.2.1
      · intro h; rw [h] at hlen1; simp at hlen1; omega
    · intro c hc
      simp only at hc ⊢
      rcases List.mem_append.mp hc with hc | hc
      · exact hl.child c hc
      · have := hrl.child c (List.mem_of_mem_take hc)
        exact ⟨this.1, by rw [this.2.1]; exact haddr, this.2.2⟩
    · simp only
      refine sorted_append hl.sorted s1 ?_
      intro a ha b hb
      apply hlt a ha b
      obtain ⟨c, hc, hbc⟩ := List.mem_flatMap.mp hb
      exact List.mem_flatMap.mpr ⟨c, List.mem_of_mem_take hc, hbc⟩
    · simp only [List.length_append]; omega
    · simp only [mapMetaDataSlabPrefixSize, mapSlabHeaderSize]; omega
    · simp only [mapMetaDataSlabPrefixSize, mapSlabHeaderSize]; omega
  · rw [mtreeInv_false_iff_succ hT]
    refine ⟨⟨MetaLoose.mk' hrl.1 ?_ ?_ rfl ?_ s2, ?_⟩, ?_, ?_⟩
    · simp only; rw [hrl.2.1, List.map_drop]
    · simp only [List.length_drop, mapMetaDataSlabPrefixSize, mapSlabHeaderSize]; omega
    · intro c hc; exact hrl.child c (List.mem_of_mem_drop hc)
    · simp only [List.length_drop]; omega
    · simp only [mapMetaDataSlabPrefixSize, mapSlabHeaderSize]; omega
    · simp only [mapMetaDataSlabPrefixSize, mapSlabHeaderSize]; omega
  · rw [List.append_assoc, List.take_append_drop]

end MMetaSlab
end Atree
