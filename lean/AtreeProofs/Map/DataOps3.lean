import AtreeProofs.Map.DataOps2
/-
  `MDataSlab.borrowFromRight`.
-/
namespace Atree
open Gen

variable {T : Nat} {r : Nat} {D : DigestFn (r + 1)}

namespace MDataSlab

theorem borrow_band (hT : legalThreshold T = true) {lsz rsz ldata rdata left' : Nat}
    (h1 : lsz = 26 + ldata) (h2 : rsz = 26 + rdata) (hl : lsz < minThr T) (hr : rsz ≤ maxThr T)
    (b0 : ldata ≤ left') (b4 : left' ≤ ldata + rdata)
    (b1 : minThr T - 26 ≤ left') (b2 : minThr T - 26 ≤ ldata + rdata - left')
    (b3 : left' ≤ (ldata + rdata + 1) / 2 + maxEntry T) :
    minThr T ≤ 26 + left' ∧ 26 + left' ≤ maxThr T ∧ minThr T ≤ 26 + (ldata + rdata - left') ∧
    26 + (ldata + rdata - left') ≤ maxThr T ∧ left' < ldata + rdata := by
  have hb := map_legal_bounds hT
  rw [maxEntry_eq hT] at b3
  simp only [minThr, maxThr] at *
  omega

theorem borrowFromRight_spec (hT : legalThreshold T = true) {l rr : MDataSlab r} (hl : MDataLoose T D false l)
    (hr : MDataInv T D false rr) (hunder : l.hdr.size < minThr T)
    (hcan : rr.canLendToLeft T (minThr T - l.hdr.size) = true)
    (hlt : ∀ a ∈ l.elems.hkeys, ∀ b ∈ rr.elems.hkeys, a < b) :
    ∃ l' r', MDataSlab.borrowFromRight T l rr = .ok (l', r') ∧ MDataInv T D false l' ∧ MDataInv T D false r' ∧
      l.elems.hkeys ++ rr.elems.hkeys = l'.elems.hkeys ++ r'.elems.hkeys ∧
      l.elems.elems ++ rr.elems.elems = l'.elems.elems ++ r'.elems.elems ∧
      l'.hdr.id = l.hdr.id ∧ r'.hdr.id = rr.hdr.id ∧ l'.next = l.next ∧ r'.next = rr.next := by
  have hrl := hr.loose
  obtain ⟨h1, h2⟩ := size_nontop hl
  obtain ⟨h3, h4⟩ := size_nontop hrl
  have hE := sizes_le hT hrl
  have hb := map_legal_bounds hT
  have hm := map_minThr_ge hT
  obtain ⟨j0, j1, j2, j3, j4, j5⟩ := canLend_true (fromBack := false) (by omega) hcan
  simp only [Bool.false_eq_true, if_false] at j3 j4 j5
  have hlev : ¬ (l.elems.level ≠ rr.elems.level) := by
    rw [hl.hinv.2.1, hrl.hinv.2.1]; simp
  have hsize : l.elems.size + rr.elems.size - hkeyElementsPrefixSize * 2 = l.sizes.sum + rr.sizes.sum := by
    simp only [hkeyElementsPrefixSize]; omega
  have hls : l.elems.size - hkeyElementsPrefixSize = l.sizes.sum := by
    simp only [hkeyElementsPrefixSize]; omega
  have hle0 := HkeyElems.sum_take_le rr.sizes j0
  obtain ⟨j, hj, heq, b1, b2, b3⟩ := HkeyElems.borrowLoop_spec
    (minThr T - mapDataSlabPrefixSize - hkeyElementsPrefixSize) (l.sizes.sum + rr.sizes.sum)
    ((l.sizes.sum + rr.sizes.sum + 1) / 2) (maxEntry T) rfl rr.sizes l.elems.elems.length l.sizes.sum j0 hE
    rfl (by simp only [mapDataSlabPrefixSize] at *; omega) j2
    (by simp only [mapDataSlabPrefixSize, hkeyElementsPrefixSize] at *; omega)
    (by simp only [mapDataSlabPrefixSize, hkeyElementsPrefixSize] at *; omega)
  have hle1 := HkeyElems.sum_take_le rr.sizes j
  obtain ⟨g1, g2, g3, g4, g5⟩ := borrow_band (left' := l.sizes.sum + (rr.sizes.take j).sum) hT h1 h3 hunder hr.le_max
    (by omega) (by omega)
    (by simp only [mapDataSlabPrefixSize, hkeyElementsPrefixSize] at b1; omega)
    (by simp only [mapDataSlabPrefixSize, hkeyElementsPrefixSize] at b2; omega)
    (by omega)
  have heq' : HkeyElems.borrowLoop (minThr T - mapDataSlabPrefixSize - hkeyElementsPrefixSize)
      (l.sizes.sum + rr.sizes.sum) ((l.sizes.sum + rr.sizes.sum + 1) / 2)
      (List.map (fun el => MElemF.size (MElems.ops r) el + digestSize) rr.elems.elems) l.elems.elems.length
      l.sizes.sum = (l.elems.elems.length + j, l.sizes.sum + (rr.sizes.take j).sum) := heq
  simp only [MDataSlab.borrowFromRight, HkeyElems.borrowFromRight, eops, if_neg hlev, hsize, hls, heq', bind,
    Except.bind, pure, Except.pure, Nat.add_sub_cancel_left]
  have htd := sizes_take_drop rr j
  refine ⟨_, _, rfl, ?_, ?_, ?_, ?_, rfl, rfl, rfl, rfl⟩
  · rw [mdataInv_iff hT]
    refine ⟨⟨?_, ?_, rfl, hl.root_eq, hl.inl_root⟩, ?_, ?_⟩
    · rw [elemsInv_succ_iff]
      have Ht : HInv T (r + 1) D (MElems.ops r) (ElemsInv T (r + 1) D r) r 0 []
          ({ rr.elems with hkeys := rr.elems.hkeys.take j, elems := rr.elems.elems.take j,
                           size := hkeyElementsPrefixSize + HkeyElems.elemSizes (MElems.ops r)
                             (rr.elems.elems.take j) } : HkeyElems (MElems r)) :=
        hrl.hinv.take _ hrl.hinv.2.1 rfl rfl rfl
      refine hl.hinv.append Ht ?_ hl.hinv.2.1 rfl rfl ?_
      · intro a ha b hb'; exact hlt a ha b (List.mem_of_mem_take hb')
      · simp only
        rw [HkeyElems.elemSizes_append, elemSizes_take_eq, elemSizes_eq]
        simp only [hkeyElementsPrefixSize]; omega
    · show _ = l.prefixSize + _
      rw [hl.prefix_nontop]
    · simp only [mapDataSlabPrefixSize, hkeyElementsPrefixSize]; omega
    · intro _; simp only [mapDataSlabPrefixSize, hkeyElementsPrefixSize]; omega
  · rw [mdataInv_iff hT]
    refine ⟨⟨?_, ?_, rfl, hrl.root_eq, hrl.inl_root⟩, ?_, ?_⟩
    · rw [elemsInv_succ_iff]
      refine hrl.hinv.drop j hrl.hinv.2.1 rfl rfl ?_
      simp only
      rw [elemSizes_drop_eq]
      simp only [hkeyElementsPrefixSize]; omega
    · show _ = rr.prefixSize + _
      rw [hrl.prefix_nontop]
    · simp only [mapDataSlabPrefixSize, hkeyElementsPrefixSize]; omega
    · intro _; simp only [mapDataSlabPrefixSize, hkeyElementsPrefixSize]; omega
  · simp only
    rw [List.append_assoc, List.take_append_drop]
  · simp only
    rw [List.append_assoc, List.take_append_drop]

end MDataSlab
end Atree
