import AtreeProofs.Map.Limit
import AtreeProofs.Map.Empty
/-
  A concrete map built by running the model (used by the `NonVacuity` sections of C02 / C12):
  two digest levels (`r = 1`), threshold 256, collision limit 1, a digest function with a tiny
  alphabet (the decimal digits of the key payload), so that an inline collision group, an external
  collision group and last-level lists all occur.
-/
namespace Atree
open Gen

namespace MapExample

/-- running a `set` / `remove`; a refused operation leaves the state unchanged -/
def stepSet {r : Nat} (cfg : MCfg) (st : OMap r × Ctx) (k : MKey) (v : Elem) : OMap r × Ctx :=
  match st.1.set cfg k v st.2 with
  | .ok (_, m', c') => (m', c')
  | .error _ => st

def stepRemove {r : Nat} (cfg : MCfg) (st : OMap r × Ctx) (k : MKey) : OMap r × Ctx :=
  match st.1.remove cfg k st.2 with
  | .ok (_, _, m', c') => (m', c')
  | .error _ => st

/-- the state (map + allocation context) is well-formed -/
structure Good {r : Nat} (T : Nat) (D : DigestFn (r + 1)) (cfg : MCfg) (st : OMap r × Ctx) : Prop where
  inv : MapInv T D st.1
  ctx : CtxOk st.1 st.2
  cfgok : CfgOk cfg T st.1

variable {r : Nat} {T : Nat} {D : DigestFn (r + 1)} {cfg : MCfg}

theorem Good.new (hT : legalThreshold T = true) (hcT : cfg.T = T) (hcL : cfg.L = r + 1) (ty : Nat)
    (seedOf : SlabID → Nat) (c : Ctx) : Good T D cfg (OMap.new (r := r) cfg.addr ty seedOf c) := by
  refine ⟨emptyMap_inv hT _ _ _, ?_, ⟨hcT, hcL, rfl⟩⟩
  intro id hid _
  have : id ∈ CtxOk.mapSlabIds 0 (emptyRoot r (c.alloc cfg.addr).1) := hid
  rw [mapSlabIds_zero] at this
  simp [emptyRoot, extIds] at this
  rw [this]
  simp [OMap.new, Ctx.alloc, Ctx.emit]

theorem Good.set (hT : legalThreshold T = true) {st : OMap r × Ctx} (h : Good T D cfg st) {k : MKey}
    (hk : KeyOk T (r + 1) D k) {v : Elem} (hv : ValueOkM v) : Good T D cfg (stepSet cfg st k v) := by
  have hs := OMap.set_spec hT h.cfgok h.inv hk hv st.2
  unfold stepSet
  by_cases hl : TLimited cfg st.1.d st.1.root k
  · rw [hs.1 hl]; exact h
  · obtain ⟨old, m', c', heq, hp⟩ := hs.2 hl
    rw [heq]
    exact ⟨hp.inv, hp.ctx h.ctx, h.cfgok.1, h.cfgok.2.1, by rw [h.cfgok.2.2]; simp only [OMap.addr, hp.rootID]⟩

theorem Good.remove (hT : legalThreshold T = true) {st : OMap r × Ctx} (h : Good T D cfg st) {k : MKey}
    (hk : KeyOk T (r + 1) D k) : Good T D cfg (stepRemove cfg st k) := by
  have hs := OMap.remove_spec hT h.cfgok h.inv hk st.2 h.ctx
  unfold stepRemove
  by_cases hex : ∃ v, (k, v) ∈ st.1.toList
  · obtain ⟨v, hv⟩ := hex
    obtain ⟨m', c', heq, hp⟩ := hs.2 v hv
    rw [heq]
    exact ⟨hp.inv, hp.ctx, h.cfgok.1, h.cfgok.2.1, by rw [h.cfgok.2.2]; simp only [OMap.addr, hp.rootID]⟩
  · have : ∀ p ∈ st.1.toList, p.1 ≠ k := by
      intro p hp hpk; exact hex ⟨p.2, by rw [← hpk]; exact hp⟩
    rw [hs.1 this]; exact h

/-! ### the concrete run -/

/-- digests: the hundreds and the tens digit of the payload -/
def D2 : DigestFn 2 := ⟨fun p => [p.2 / 100 % 10, p.2 / 10 % 10], fun _ => rfl⟩

def cfg2 : MCfg := { T := 256, L := 2, climit := 1, addr := 7 }

/-- a key of 10 bytes with payload `n` -/
def key (n : Nat) : MKey := { size := 10, pay := n, digs := D2.dg (10, n) }

/-- a value of 10 bytes -/
def val (n : Nat) : Elem := { size := 10, pay := .val n }

theorem key_ok (n : Nat) : KeyOk 256 2 D2 (key n) :=
  ⟨rfl, (by decide : 1 ≤ 10), (by decide : 10 ≤ maxInlineMapKey 256)⟩

theorem val_ok (n : Nat) : ValueOkM (val n) := ⟨(by decide : 1 ≤ 10), n, rfl⟩

def st0 : OMap 1 × Ctx := OMap.new (r := 1) cfg2.addr 0 (fun id => id.idx) { ctr := 0, eff := [] }

/-- nineteen insertions (inline group under digest 1 with a last-level list, external group under
    digest 3, plain entries; the root data slab is split on the way) and one removal -/
def run : OMap 1 × Ctx :=
  let s := st0
  let s := stepSet cfg2 s (key 211) (val 1)
  let s := stepSet cfg2 s (key 111) (val 2)
  let s := stepSet cfg2 s (key 112) (val 3)
  let s := stepSet cfg2 s (key 121) (val 4)
  let s := stepSet cfg2 s (key 311) (val 5)
  let s := stepSet cfg2 s (key 312) (val 6)
  let s := stepSet cfg2 s (key 313) (val 7)
  let s := stepSet cfg2 s (key 314) (val 8)
  let s := stepSet cfg2 s (key 321) (val 9)
  let s := stepSet cfg2 s (key 411) (val 10)
  let s := stepSet cfg2 s (key 511) (val 11)
  let s := stepSet cfg2 s (key 611) (val 12)
  let s := stepRemove cfg2 s (key 411)
  let s := stepSet cfg2 s (key 711) (val 13)
  let s := stepSet cfg2 s (key 811) (val 14)
  let s := stepSet cfg2 s (key 911) (val 15)
  let s := stepSet cfg2 s (key 11) (val 16)
  let s := stepSet cfg2 s (key 521) (val 17)
  let s := stepSet cfg2 s (key 621) (val 18)
  stepSet cfg2 s (key 221) (val 19)

theorem legal256 : legalThreshold 256 = true := by decide

theorem run_good : Good 256 D2 cfg2 run := by
  unfold run
  simp only
  iterate 7 refine Good.set legal256 ?_ (key_ok _) (val_ok _)
  refine Good.remove legal256 ?_ (key_ok _)
  iterate 12 refine Good.set legal256 ?_ (key_ok _) (val_ok _)
  exact Good.new legal256 rfl rfl _ _ _

/-- the kinds of the first-level elements of a single-slab map -/
def kinds (m : OMap 1) : List String :=
  (MTree.leaves m.d m.root).flatMap (fun s => s.elems.elems.map (fun el =>
    match el with
    | .single _ => "single"
    | .inl _ => "inline"
    | .ext _ _ _ => "external"))

end MapExample
end Atree
