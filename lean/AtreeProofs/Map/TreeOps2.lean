import AtreeProofs.Map.TreeOps
/-
  Depth-uniform specifications of `MTree.lendToRight / borrowFromRight` and the size of a merge.
-/
namespace Atree
open Gen

variable {T : Nat} {r : Nat} {D : DigestFn (r + 1)}

namespace MTree

/-- specification of a rebalance of two adjacent siblings -/
def RebSpec (T : Nat) (D : DigestFn (r + 1)) (d : Nat) (l rr l' r' : MTree r d) : Prop :=
  MTreeInv T D d false l' ∧ MTreeInv T D d false r' ∧
  (hdr d l').id = (hdr d l).id ∧ (hdr d r').id = (hdr d rr).id ∧
  toList d l ++ toList d rr = toList d l' ++ toList d r' ∧
  digests0 d l ++ digests0 d rr = digests0 d l' ++ digests0 d r' ∧
  LeafRel (leaves d l ++ leaves d rr) (leaves d l' ++ leaves d r') ∧
  (∀ id ∈ CtxOk.mapSlabIds d l' ++ CtxOk.mapSlabIds d r', id ∈ CtxOk.mapSlabIds d l ++ CtxOk.mapSlabIds d rr)

theorem pairs_append_of_elems {l rr l' r' : MDataSlab r}
    (h : l.elems.elems ++ rr.elems.elems = l'.elems.elems ++ r'.elems.elems) :
    l.pairs ++ rr.pairs = l'.pairs ++ r'.pairs := by
  simp only [MDataSlab.pairs, HkeyElems.toList, ← List.flatMap_append, h]

theorem rebSpec_zero {l rr l' r' : MDataSlab r} (hl : MDataInv T D false l') (hr : MDataInv T D false r')
    (hk : l.elems.hkeys ++ rr.elems.hkeys = l'.elems.hkeys ++ r'.elems.hkeys)
    (hel : l.elems.elems ++ rr.elems.elems = l'.elems.elems ++ r'.elems.elems)
    (hid1 : l'.hdr.id = l.hdr.id) (hid2 : r'.hdr.id = rr.hdr.id) (hn1 : l'.next = l.next) (hn2 : r'.next = rr.next) :
    RebSpec T D 0 l rr l' r' := by
  refine ⟨(mtreeInv_zero_iff T D _ _).mpr hl, (mtreeInv_zero_iff T D _ _).mpr hr, hid1, hid2,
    pairs_append_of_elems hel, hk, ?_, ?_⟩
  · show LeafRel ([l] ++ [rr]) ([l'] ++ [r'])
    refine ⟨by simp, by simp, ?_, ?_⟩
    · intro dflt; simp only [List.cons_append, List.nil_append, firstId]; exact hid1
    · intro nxt h
      simp only [List.cons_append, List.nil_append, ChainTo] at h ⊢
      rw [hn1, hn2, hid2]; exact h
  · intro id hid
    rw [mapSlabIds_zero, mapSlabIds_zero] at hid ⊢
    have h1 : extIds l'.elems.elems ++ extIds r'.elems.elems = extIds l.elems.elems ++ extIds rr.elems.elems := by
      rw [← extIds_append, ← extIds_append, hel]
    have h2 : ∀ x, x ∈ extIds l'.elems.elems ++ extIds r'.elems.elems ↔ x ∈ extIds l.elems.elems ++ extIds rr.elems.elems := by
      intro x; rw [h1]
    have h3 := h2 id
    simp only [List.mem_append, List.mem_cons] at hid h3 ⊢
    rcases hid with (h | h) | (h | h)
    · left; left; rw [h]; exact hid1
    · rcases h3.mp (Or.inl h) with h' | h'
      · left; right; exact h'
      · right; right; exact h'
    · right; left; rw [h]; exact hid2
    · rcases h3.mp (Or.inr h) with h' | h'
      · left; right; exact h'
      · right; right; exact h'

theorem rebSpec_succ (hT : legalThreshold T = true) {d : Nat} {l rr l' r' : MMetaSlab (MTree r d)}
    (hl0 : SInv T D (d + 1) false l)
    (hl : MTreeInv T D (d + 1) false l') (hr : MTreeInv T D (d + 1) false r')
    (hch : l.children ++ rr.children = l'.children ++ r'.children)
    (hid1 : l'.hdr.id = l.hdr.id) (hid2 : r'.hdr.id = rr.hdr.id) :
    RebSpec T D (d + 1) l rr l' r' := by
  have hfm : ∀ {β : Type} (f : MTree r d → List β),
      l.children.flatMap f ++ rr.children.flatMap f = l'.children.flatMap f ++ r'.children.flatMap f := by
    intro β f; rw [← List.flatMap_append, ← List.flatMap_append, hch]
  refine ⟨hl, hr, hid1, hid2, hfm _, hfm _, ?_, ?_⟩
  · have : leaves (d + 1) l' ++ leaves (d + 1) r' = leaves (d + 1) l ++ leaves (d + 1) rr := (hfm _).symm
    rw [this]
    refine LeafRel.refl ?_
    have := SInv.leaves_ne_nil hT (d + 1) false l hl0
    simp [this]
  · intro id hid
    rw [mapSlabIds_succ, mapSlabIds_succ] at hid ⊢
    have h2 : ∀ x, x ∈ l'.children.flatMap (CtxOk.mapSlabIds d) ++ r'.children.flatMap (CtxOk.mapSlabIds d) ↔
        x ∈ l.children.flatMap (CtxOk.mapSlabIds d) ++ rr.children.flatMap (CtxOk.mapSlabIds d) := by
      intro x; rw [hfm]
    have h3 := h2 id
    simp only [List.mem_append, List.mem_cons] at hid h3 ⊢
    rcases hid with (h | h) | (h | h)
    · left; left; rw [h]; exact hid1
    · rcases h3.mp (Or.inl h) with h' | h'
      · left; right; exact h'
      · right; right; exact h'
    · right; left; rw [h]; exact hid2
    · rcases h3.mp (Or.inr h) with h' | h'
      · left; right; exact h'
      · right; right; exact h'

theorem lend_spec (hT : legalThreshold T = true) : ∀ (d : Nat) (l rr : MTree r d),
    MTreeInv T D d false l → SInv T D d false rr → (hdr d rr).size < minThr T →
    canLendToRight T d l (minThr T - (hdr d rr).size) = true →
    (hdr d rr).id.addr = (hdr d l).id.addr →
    (∀ a ∈ digests0 d l, ∀ b ∈ digests0 d rr, a < b) →
    ∃ l' r', lendToRight T d l rr = .ok (l', r') ∧ RebSpec T D d l rr l' r'
  | 0, l, rr, hl, hr, hu, hcan, _, hlt => by
    obtain ⟨l', r', heq, h1, h2, h3, h4, h5, h6, h7, h8⟩ :=
      MDataSlab.lendToRight_spec hT (l := l) (rr := rr) ((mtreeInv_zero_iff T D _ _).mp hl) hr hu hcan hlt
    exact ⟨l', r', heq, rebSpec_zero h1 h2 h3 h4 h5 h6 h7 h8⟩
  | d + 1, l, rr, hl, hr, hu, hcan, haddr, hlt => by
    obtain ⟨h1, h2, h3, h4, h5⟩ := MMetaSlab.lendToRight_spec hT (l := l) (rr := rr) hl hr.1 hu hcan haddr hlt
    exact ⟨_, _, rfl, rebSpec_succ hT (MTreeInv.sinv hT hl) h1 h2 h3 h4 h5⟩

theorem borrow_spec (hT : legalThreshold T = true) : ∀ (d : Nat) (l rr : MTree r d),
    SInv T D d false l → MTreeInv T D d false rr → (hdr d l).size < minThr T →
    canLendToLeft T d rr (minThr T - (hdr d l).size) = true →
    (hdr d rr).id.addr = (hdr d l).id.addr →
    (∀ a ∈ digests0 d l, ∀ b ∈ digests0 d rr, a < b) →
    ∃ l' r', borrowFromRight T d l rr = .ok (l', r') ∧ RebSpec T D d l rr l' r'
  | 0, l, rr, hl, hr, hu, hcan, _, hlt => by
    obtain ⟨l', r', heq, h1, h2, h3, h4, h5, h6, h7, h8⟩ :=
      MDataSlab.borrowFromRight_spec hT (l := l) (rr := rr) hl ((mtreeInv_zero_iff T D _ _).mp hr) hu hcan hlt
    exact ⟨l', r', heq, rebSpec_zero h1 h2 h3 h4 h5 h6 h7 h8⟩
  | d + 1, l, rr, hl, hr, hu, hcan, haddr, hlt => by
    obtain ⟨h1, h2, h3, h4, h5, _⟩ := MMetaSlab.borrowFromRight_spec hT (l := l) (rr := rr) hl.1 hl.2 hr hu hcan haddr hlt
    exact ⟨_, _, rfl, rebSpec_succ hT hl h1 h2 h3 h4 h5⟩

/-- merging an underflowing subtree with a sibling that cannot lend stays within the band -/
theorem merge_band (hT : legalThreshold T = true) : ∀ (d : Nat) (u sib : MTree r d),
    SInv T D d false u → MTreeInv T D d false sib → (hdr d u).size < minThr T →
    (canLendToLeft T d sib (minThr T - (hdr d u).size) = false ∨
     canLendToRight T d sib (minThr T - (hdr d u).size) = false) →
    minThr T + mergeGain d ≤ (hdr d u).size + (hdr d sib).size ∧
    (hdr d u).size + (hdr d sib).size ≤ maxThr T + mergeGain d
  | 0, u, sib, hu, hs, hlt, hcan => by
    rcases hcan with h | h
    · exact MDataSlab.merge_band hT (u := u) (sib := sib) hu ((mtreeInv_zero_iff T D _ _).mp hs) hlt h
    · exact MDataSlab.merge_band hT (u := u) (sib := sib) hu ((mtreeInv_zero_iff T D _ _).mp hs) hlt h
  | d + 1, u, sib, hu, hs, hlt, hcan => by
    rcases hcan with h | h
    · exact MMetaSlab.merge_band hT (u := u) (sib := sib) hu.1 hs hlt h
    · exact MMetaSlab.merge_band hT (u := u) (sib := sib) hu.1 hs hlt h

end MTree
end Atree
