import AtreeProofs.Map.EffectsTree
/-
  Effect-log accounting for maps (C09), top layer: the root fix-up (`promoteIfSingleChild`,
  `splitRootIfFull`), `OMap.set`, `OMap.remove`, `OMap.popIterate`, and the passage from accounts
  to `MEffectsComplete`.
-/
namespace Atree
open Gen

variable {r : Nat} {T : Nat} {D : DigestFn (r + 1)}

/-! ### de-rooting and en-rooting keep the slabs below -/

theorem msub_deroot : ∀ (d : Nat) (t : MTree r d) (sid : SlabID), msub d (deroot d t sid) = msub d t
  | 0, _, _ => rfl
  | _ + 1, _, _ => rfl

theorem hdr_deroot : ∀ (d : Nat) (t : MTree r d) (sid : SlabID), (MTree.hdr d (deroot d t sid)).id = sid
  | 0, _, _ => rfl
  | _ + 1, _, _ => rfl

theorem msub_enroot : ∀ (d : Nat) (t : MTree r d) (rid : SlabID), msub d (enroot d t rid) = msub d t
  | 0, _, _ => rfl
  | _ + 1, _, _ => rfl

theorem hdr_enroot : ∀ (d : Nat) (t : MTree r d) (rid : SlabID), (MTree.hdr d (enroot d t rid)).id = rid
  | 0, _, _ => rfl
  | _ + 1, _, _ => rfl

/-! ### splitRoot -/

theorem msplitRoot_eq (d : Nat) (root : MTree r d) (ty cnt seed : Nat) (c : Ctx) :
    OMap.splitRoot (⟨d, root, ty, cnt, seed⟩ : OMap r) c =
      (MTree.split d (deroot d root (c.alloc (MTree.hdr d root).id.addr).1) (c.alloc (MTree.hdr d root).id.addr).2 >>=
        fun p => pure ((⟨d + 1, newRootOf d (MTree.hdr d root).id p.1 p.2.1, ty, cnt, seed⟩ : OMap r),
          ((p.2.2.emit (.store (MTree.hdr d p.1).id)).emit (.store (MTree.hdr d p.2.1).id)).emit
            (.store (MTree.hdr d root).id))) := by
  cases d <;> rfl

theorem splitRoot_inv (d : Nat) (root : MTree r d) (ty cnt seed : Nat) (c : Ctx) {m3 : OMap r} {c3 : Ctx}
    (h : OMap.splitRoot (⟨d, root, ty, cnt, seed⟩ : OMap r) c = .ok (m3, c3)) :
    ∃ l rr c2, MTree.split d (deroot d root (c.alloc (MTree.hdr d root).id.addr).1)
        (c.alloc (MTree.hdr d root).id.addr).2 = .ok (l, rr, c2) ∧
      m3 = ⟨d + 1, newRootOf d (MTree.hdr d root).id l rr, ty, cnt, seed⟩ ∧
      c3 = ((c2.emit (.store (MTree.hdr d l).id)).emit (.store (MTree.hdr d rr).id)).emit
            (.store (MTree.hdr d root).id) := by
  rw [msplitRoot_eq] at h
  obtain ⟨⟨l, rr, c2⟩, hs, h⟩ := mbind_eq_ok h
  simp only [pure, Except.pure, Except.ok.injEq, Prod.mk.injEq] at h
  exact ⟨l, rr, c2, hs, h.1.symm, h.2.symm⟩

theorem mslabs_newRoot (d : Nat) (rid : SlabID) (l rr : MTree r d) :
    MTree.slabs (d + 1) (newRootOf d rid l rr)
      = (rid, ment (d + 1) (newRootOf d rid l rr)) :: (MTree.slabs d l ++ MTree.slabs d rr) := by
  rw [mslabs_succ]
  simp [newRootOf, ment_succ]

theorem msplitRoot_acct {a : Nat} (d : Nat) (root : MTree r d) (ty cnt seed : Nat) (c : Ctx) {m3 : OMap r} {c3 : Ctx}
    (haddr : (MTree.hdr d root).id.addr = a)
    (hnd : (AList.keys (MTree.slabs d root)).Nodup)
    (hold : ∀ id ∈ AList.keys (MTree.slabs d root), Old a c.ctr id)
    (h : OMap.splitRoot (⟨d, root, ty, cnt, seed⟩ : OMap r) c = .ok (m3, c3)) :
    ∃ E, MLog a c c3 E [] ∧ MAcct a c.ctr c3.ctr (MTree.slabs d root) (MTree.slabs m3.d m3.root) E [] ∧
      lastAction E (MTree.hdr d root).id = some true := by
  obtain ⟨l, rr, c2, hsp, rfl, rfl⟩ := splitRoot_inv d root ty cnt seed c h
  rw [haddr] at hsp
  obtain ⟨hs1, hs2, hs3, hc2⟩ := msplit_struct d _ _ l rr c2 hsp
  rw [hdr_deroot] at hs2 hs3 hc2
  rw [msub_deroot] at hs1
  subst hc2
  have hl : (MTree.hdr d l).id = ⟨a, c.ctr + 1⟩ := hs2
  have hr : (MTree.hdr d rr).id = ⟨a, c.ctr + 2⟩ := hs3
  have hrold : Old a c.ctr (MTree.hdr d root).id := hold _ (hdr_id_mem_keys d root)
  have hfl : Fresh a c.ctr (c.ctr + 2) (MTree.hdr d l).id := by rw [hl]; exact ⟨rfl, by simp, by simp⟩
  have hfr : Fresh a c.ctr (c.ctr + 2) (MTree.hdr d rr).id := by rw [hr]; exact ⟨rfl, by simp, by simp⟩
  refine ⟨[.alloc a ⟨a, c.ctr + 1⟩, .alloc a ⟨a, c.ctr + 2⟩, .store (MTree.hdr d l).id, .store (MTree.hdr d rr).id,
    .store (MTree.hdr d root).id], ?_, ?_, ?_⟩
  · have := ((MLog.alloc a c).trans (MLog.alloc a (c.alloc a).2)).trans
      (mlog_emit3 a ((c.alloc a).2.alloc a).2 (MTree.hdr d l).id (MTree.hdr d rr).id (MTree.hdr d root).id)
    simpa [Ctx.alloc] using this
  · show MAcct a c.ctr (c.ctr + 2) (MTree.slabs d root) (MTree.slabs (d + 1) (newRootOf d _ l rr)) _ _
    rw [mslabs_newRoot, mslabs_eq d root, mslabs_eq d l, mslabs_eq d rr]
    have h0 : MAcct a c.ctr (c.ctr + 2) [((MTree.hdr d root).id, ment d root)]
        [((MTree.hdr d root).id, ment (d + 1) (newRootOf d (MTree.hdr d root).id l rr)),
         ((MTree.hdr d l).id, ment d l), ((MTree.hdr d rr).id, ment d rr)]
        [.alloc a ⟨a, c.ctr + 1⟩, .alloc a ⟨a, c.ctr + 2⟩, .store (MTree.hdr d l).id, .store (MTree.hdr d rr).id,
          .store (MTree.hdr d root).id] [] := by
      refine MAcct.of_stores (by simp) (by simp) ?_ ?_ ?_
      · intro id
        simp only [AList.keys, List.map_cons, List.map_nil, List.mem_cons, Eff.store.injEq,
          reduceCtorEq, List.not_mem_nil, or_false, false_or]
        grind
      · intro id
        simp only [AList.keys, List.map_cons, List.map_nil, List.mem_cons, List.not_mem_nil, or_false]
        exact Or.inl
      · intro id
        simp only [kc_cons, kc_nil]
        have hne : (MTree.hdr d l).id ≠ (MTree.hdr d rr).id := by rw [hl, hr]; simp
        by_cases h1 : (MTree.hdr d l).id = id
        · right
          subst h1
          refine ⟨hfl, ?_⟩
          have h2 : ¬ (MTree.hdr d root).id = (MTree.hdr d l).id := fun he => hfl.not_old (he ▸ hrold)
          have h3 : ¬ (MTree.hdr d rr).id = (MTree.hdr d l).id := fun he => hne he.symm
          simp [h2, h3]
        · by_cases h2 : (MTree.hdr d rr).id = id
          · right
            subst h2
            refine ⟨hfr, ?_⟩
            have h3 : ¬ (MTree.hdr d root).id = (MTree.hdr d rr).id := fun he => hfr.not_old (he ▸ hrold)
            simp [h3, h1]
          · left; simp [h1, h2]
    have hF : ∀ id ∈ AList.keys (msub d root),
        id ∉ AList.keys [((MTree.hdr d root).id, ment d root)] ∧ Old a c.ctr id := by
      intro id hid
      refine ⟨?_, hold id (by rw [mslabs_eq, keys_cons']; exact List.mem_cons_of_mem _ hid)⟩
      rw [mslabs_eq, keys_cons'] at hnd
      simp only [AList.keys, List.map_cons, List.map_nil, List.mem_singleton]
      intro he
      subst he
      exact (List.nodup_cons.1 hnd).1 hid
    refine (h0.frame (msub d root) hF).congr ?_ ?_
    · exact Same.refl _
    · rw [← hs1]
      refine ⟨fun p => ?_, fun id => ?_⟩
      · simp only [List.mem_cons, List.mem_append, List.not_mem_nil]; grind
      · simp only [kc_cons, kc_append, List.cons_append, List.nil_append]; omega
  · exact lastAction_store_last [.alloc a ⟨a, c.ctr + 1⟩, .alloc a ⟨a, c.ctr + 2⟩, .store (MTree.hdr d l).id,
      .store (MTree.hdr d rr).id] (MTree.hdr d root).id

theorem splitIfFull_acct {a : Nat} (T' d : Nat) (root : MTree r d) (ty cnt seed : Nat) (c : Ctx) {m3 : OMap r}
    {c3 : Ctx} (haddr : (MTree.hdr d root).id.addr = a)
    (hnd : (AList.keys (MTree.slabs d root)).Nodup)
    (hold : ∀ id ∈ AList.keys (MTree.slabs d root), Old a c.ctr id)
    (h : OMap.splitRootIfFull T' (⟨d, root, ty, cnt, seed⟩ : OMap r) c = .ok (m3, c3)) :
    ∃ E, MLog a c c3 E [] ∧ MAcct a c.ctr c3.ctr (MTree.slabs d root) (MTree.slabs m3.d m3.root) E [] ∧
      lastAction E (MTree.hdr d root).id ≠ some false ∧ m3.rootID = (MTree.hdr d root).id := by
  simp only [OMap.splitRootIfFull] at h
  split at h
  · obtain ⟨E, h1, h2, h3⟩ := msplitRoot_acct d root ty cnt seed c haddr hnd hold h
    obtain ⟨l, rr, c2, _, hm3, _⟩ := splitRoot_inv d root ty cnt seed c h
    exact ⟨E, h1, h2, by rw [h3]; simp, by rw [hm3]; rfl⟩
  · simp only [Except.ok.injEq, Prod.mk.injEq] at h
    obtain ⟨rfl, rfl⟩ := h
    exact ⟨[], MLog.refl a c, MAcct.refl a _ _, by simp, rfl⟩

/-! ### promoteIfSingleChild -/

theorem mpromote_acct {a : Nat} (d : Nat) (x : MMetaSlab (MTree r d)) (c : Ctx) {child : MTree r d}
    (hc : x.children = [child])
    (hnd : (AList.keys (MTree.slabs (d + 1) x)).Nodup)
    (hold : ∀ id ∈ AList.keys (MTree.slabs (d + 1) x), Old a c.ctr id) :
    MLog a c ((c.emit (.store x.hdr.id)).emit (.remove (MTree.hdr d child).id))
      [.store x.hdr.id, .remove (MTree.hdr d child).id] [] ∧
    MAcct a c.ctr c.ctr (MTree.slabs (d + 1) x) (MTree.slabs d (enroot d child x.hdr.id))
      [.store x.hdr.id, .remove (MTree.hdr d child).id] [] ∧
    lastAction [.store x.hdr.id, .remove (MTree.hdr d child).id] x.hdr.id = some true := by
  have e0 : MTree.slabs (d + 1) x
      = [(x.hdr.id, ment (d + 1) x), ((MTree.hdr d child).id, ment d child)] ++ msub d child := by
    rw [mslabs_succ, hc]; simp [mslabs_eq d child, ment_succ]
  have e1 : MTree.slabs d (enroot d child x.hdr.id)
      = [(x.hdr.id, ment d (enroot d child x.hdr.id))] ++ msub d child := by
    rw [mslabs_eq, hdr_enroot, msub_enroot]; rfl
  rw [e0] at hnd hold
  have hne : x.hdr.id ≠ (MTree.hdr d child).id := by
    intro he
    rw [nodup_keys_iff] at hnd
    have := hnd x.hdr.id
    simp [kc_cons, he] at this
  refine ⟨?_, ?_, ?_⟩
  · have := (MLog.store a c x.hdr.id).trans (MLog.remove a _ (MTree.hdr d child).id)
    simpa using this
  · rw [e0, e1]
    have h0 : MAcct a c.ctr c.ctr [(x.hdr.id, ment (d + 1) x), ((MTree.hdr d child).id, ment d child)]
        [(x.hdr.id, ment d (enroot d child x.hdr.id))]
        ([.store x.hdr.id] ++ [.remove (MTree.hdr d child).id]) [] := by
      refine MAcct.of_stores_remove (by simp) ?_ ?_ ?_ ?_
      · intro id; simp [AList.keys]
      · simp only [AList.keys, List.map_cons, List.map_nil, List.mem_singleton]
        exact fun h => hne h.symm
      · intro id
        simp only [AList.keys, List.map_cons, List.map_nil, List.mem_cons, List.not_mem_nil, or_false]
        grind
      · intro id
        simp only [kc_cons, kc_nil]
        omega
    refine h0.frame (msub d child) ?_
    intro id hid
    refine ⟨?_, hold id (by rw [keys_append]; exact List.mem_append.2 (Or.inr hid))⟩
    intro hN
    rw [nodup_keys_iff] at hnd
    have h1 := hnd id
    rw [kc_append] at h1
    have h2 := (kc_pos_iff id _).2 hid
    have h3 := (kc_pos_iff id _).2 hN
    omega
  · rw [lastAction_pair]
    simp [actStep, hne.symm]

/-! ### the root fix-up -/

theorem lastAction_keep {E1 E2 : List Eff} {id : SlabID} (h1 : lastAction E1 id = some true)
    (h2 : lastAction E2 id ≠ some false) : lastAction (E1 ++ E2) id = some true := by
  rw [lastAction_append, h1]
  cases hl : lastAction E2 id with
  | none => rfl
  | some b =>
    cases b with
    | true => rfl
    | false => exact absurd hl h2

theorem rootfix_acct_zero {a : Nat} (T' : Nat) (s : MDataSlab r) (ty cnt seed : Nat) (c1 : Ctx) {m3 : OMap r}
    {c3 : Ctx} (haddr : (MTree.hdr 0 s).id.addr = a)
    (hnd : (AList.keys (MTree.slabs 0 s)).Nodup)
    (hold : ∀ id ∈ AList.keys (MTree.slabs 0 s), Old a c1.ctr id)
    (h : (OMap.promoteIfSingleChild (⟨0, s, ty, cnt, seed⟩ : OMap r) c1).1.splitRootIfFull T'
        (OMap.promoteIfSingleChild (⟨0, s, ty, cnt, seed⟩ : OMap r) c1).2 = .ok (m3, c3)) :
    ∃ E, MLog a c1 c3 E [] ∧ MAcct a c1.ctr c3.ctr (MTree.slabs 0 s) (MTree.slabs m3.d m3.root) E [] ∧
      lastAction E (MTree.hdr 0 s).id ≠ some false ∧ m3.rootID = (MTree.hdr 0 s).id :=
  splitIfFull_acct T' 0 s ty cnt seed c1 haddr hnd hold h

theorem rootfix_acct_succ {a : Nat} (T' : Nat) {d : Nat} (x : MMetaSlab (MTree r d)) (ty cnt seed : Nat) (c1 : Ctx)
    {m3 : OMap r} {c3 : Ctx} (hS : MetaLoose T D d true x ∧ 1 ≤ x.children.length)
    (haddr : x.hdr.id.addr = a)
    (hnd : (AList.keys (MTree.slabs (d + 1) x)).Nodup)
    (hold : ∀ id ∈ AList.keys (MTree.slabs (d + 1) x), Old a c1.ctr id)
    (h : (OMap.promoteIfSingleChild (⟨d + 1, x, ty, cnt, seed⟩ : OMap r) c1).1.splitRootIfFull T'
        (OMap.promoteIfSingleChild (⟨d + 1, x, ty, cnt, seed⟩ : OMap r) c1).2 = .ok (m3, c3)) :
    ∃ E, MLog a c1 c3 E [] ∧ MAcct a c1.ctr c3.ctr (MTree.slabs (d + 1) x) (MTree.slabs m3.d m3.root) E [] ∧
      lastAction E x.hdr.id ≠ some false ∧ m3.rootID = x.hdr.id := by
  have hm := hS.1
  have hlen := hS.2
  rcases hc : x.children with _ | ⟨child, _ | ⟨b, rest⟩⟩
  · rw [hc] at hlen; simp at hlen
  · have hh : x.childHdrs = [MTree.hdr d child] := by rw [hm.2.1, hc]; rfl
    rw [promote_eq d x ty cnt seed c1 hh hc] at h
    simp only at h
    obtain ⟨hlog2, hacct2, hla2⟩ := mpromote_acct (a := a) d x c1 hc hnd hold
    have hnd2 := hacct2.nodup hnd
    have hold2 := hacct2.old hold
    obtain ⟨E3, hlog3, hacct3, hla3, hid3⟩ := splitIfFull_acct T' d (enroot d child x.hdr.id) ty cnt seed
      ((c1.emit (.store x.hdr.id)).emit (.remove (MTree.hdr d child).id))
      (by rw [hdr_enroot]; exact haddr) hnd2 hold2 h
    rw [hdr_enroot] at hla3 hid3
    refine ⟨[.store x.hdr.id, .remove (MTree.hdr d child).id] ++ E3, hlog2.trans hlog3, ?_, ?_, hid3⟩
    · have := hacct2.trans hacct3 hold
      simpa using this
    · rw [lastAction_keep hla2 hla3]; simp
  · have h2 : 2 ≤ x.children.length := by rw [hc]; simp
    rw [promote_id d x ty cnt seed c1 hm.2.1 h2] at h
    exact splitIfFull_acct T' (d + 1) x ty cnt seed c1 haddr hnd hold h

theorem rootfix_acct {a : Nat} (T' : Nat) : ∀ (d : Nat) (root : MTree r d) (ty cnt seed : Nat) (c1 : Ctx)
    (m3 : OMap r) (c3 : Ctx), SInv T D d true root → (MTree.hdr d root).id.addr = a →
    (AList.keys (MTree.slabs d root)).Nodup → (∀ id ∈ AList.keys (MTree.slabs d root), Old a c1.ctr id) →
    (OMap.promoteIfSingleChild (⟨d, root, ty, cnt, seed⟩ : OMap r) c1).1.splitRootIfFull T'
        (OMap.promoteIfSingleChild (⟨d, root, ty, cnt, seed⟩ : OMap r) c1).2 = .ok (m3, c3) →
    ∃ E, MLog a c1 c3 E [] ∧ MAcct a c1.ctr c3.ctr (MTree.slabs d root) (MTree.slabs m3.d m3.root) E [] ∧
      lastAction E (MTree.hdr d root).id ≠ some false ∧ m3.rootID = (MTree.hdr d root).id
  | 0, s, ty, cnt, seed, c1, _, _, _, haddr, hnd, hold, h => rootfix_acct_zero T' s ty cnt seed c1 haddr hnd hold h
  | _ + 1, x, ty, cnt, seed, c1, _, _, hS, haddr, hnd, hold, h =>
    rootfix_acct_succ T' x ty cnt seed c1 hS haddr hnd hold h

/-! ### OMap.set / OMap.remove -/

/-- all slab IDs of the map (data slabs, index slabs, external collision groups) are distinct -/
def MIdsOk (m : OMap r) : Prop := ((MTree.slabs m.d m.root).map (·.1)).Nodup

instance (m : OMap r) : Decidable (MIdsOk m) := by unfold MIdsOk; infer_instance

theorem old_of_ctxOk {m : OMap r} {c : Ctx} (hc : CtxOk m c) :
    ∀ id ∈ AList.keys (MTree.slabs m.d m.root), Old m.addr c.ctr id := by
  intro id hid ha
  rw [keys_mslabs] at hid
  exact hc id hid ha

theorem omap_set_acct (hT : legalThreshold T = true) {cfg : MCfg} {m : OMap r} (hcfg : CfgOk cfg T m)
    (h : MapInv T D m) {k : MKey} (hk : KeyOk T (r + 1) D k) {v : Elem} (hv : ValueOkM v) (c : Ctx)
    (hc : CtxOk m c) (hids : MIdsOk m) {old : Option Elem} {m' : OMap r} {c' : Ctx}
    (hr : m.set cfg k v c = .ok (old, m', c')) :
    ∃ E C, MLog m.addr c c' E C ∧
      MAcct m.addr c.ctr c'.ctr (MTree.slabs m.d m.root) (MTree.slabs m'.d m'.root) E (C.map (·.1)) ∧
      lastAction E m.rootID = some true ∧ m'.rootID = m.rootID := by
  have hc' : CfgFor cfg T (r + 1) := ⟨hcfg.1, hcfg.2.1⟩
  have hold := old_of_ctxOk hc
  have haddr : cfg.addr = m.addr := hcfg.2.2
  rw [← haddr] at hold ⊢
  obtain ⟨d, root, ty, cnt, seed⟩ := m
  obtain ⟨h1, h2⟩ := MTree.set_spec hT hc' hk hv d true root c h.tree
  by_cases hl : TLimited cfg d root k
  · have := h1 hl
    simp [OMap.set, this, bind, Except.bind] at hr
  · obtain ⟨old', root', c1, heq, hp⟩ := h2 hl
    have hinl : treeInl d root = false := by
      rw [← isInlined_eq d root ty cnt seed]; exact h.standalone
    have hra : (MTree.hdr d root).id.addr = cfg.addr := haddr.symm
    obtain ⟨hid, E1, C1, hlog1, hacct1, hla1⟩ := mset_acct d root root' true c1 h.tree hinl hra hids hold heq
    simp only [OMap.set, heq, bind, Except.bind, pure, Except.pure] at hr
    split at hr
    · cases hr
    · rename_i p hfix
      obtain ⟨m3, c3⟩ := p
      simp only [Except.ok.injEq, Prod.mk.injEq] at hr
      obtain ⟨_, rfl, rfl⟩ := hr
      obtain ⟨E2, hlog2, hacct2, hla2, hid2⟩ := rootfix_acct (T := T) (D := D) cfg.T d root' ty _ seed c1 m3 c3 hp.sinv
        (by rw [hid]; exact hra) (hacct1.nodup hids) (hacct1.old hold) hfix
      rw [hid] at hla2 hid2
      refine ⟨E1 ++ E2, C1, by simpa using hlog1.trans hlog2, by simpa using hacct1.trans hacct2 hold, ?_, hid2⟩
      exact lastAction_keep hla1 hla2

theorem omap_remove_acct (hT : legalThreshold T = true) {cfg : MCfg} {m : OMap r} (hcfg : CfgOk cfg T m)
    (h : MapInv T D m) {k : MKey} (hk : KeyOk T (r + 1) D k) (c : Ctx)
    (hc : CtxOk m c) (hids : MIdsOk m) {k0 : MKey} {v0 : Elem} {m' : OMap r} {c' : Ctx}
    (hr : m.remove cfg k c = .ok (k0, v0, m', c')) :
    ∃ E C, MLog m.addr c c' E C ∧
      MAcct m.addr c.ctr c'.ctr (MTree.slabs m.d m.root) (MTree.slabs m'.d m'.root) E (C.map (·.1)) ∧
      lastAction E m.rootID = some true ∧ m'.rootID = m.rootID := by
  have hc' : CfgFor cfg T (r + 1) := ⟨hcfg.1, hcfg.2.1⟩
  have hold := old_of_ctxOk hc
  have haddr : cfg.addr = m.addr := hcfg.2.2
  rw [← haddr] at hold ⊢
  obtain ⟨d, root, ty, cnt, seed⟩ := m
  obtain ⟨h1, h2⟩ := MTree.remove_spec hT hc' hk d true root c h.tree
  by_cases hpres : ∃ v, (k, v) ∈ MTree.toList d root
  · obtain ⟨v, hv⟩ := hpres
    obtain ⟨root', c1, heq, hp⟩ := h2 v hv
    have hinl : treeInl d root = false := by
      rw [← isInlined_eq d root ty cnt seed]; exact h.standalone
    have hra : (MTree.hdr d root).id.addr = cfg.addr := haddr.symm
    obtain ⟨hid, E1, C1, hlog1, hacct1, hla1⟩ := mremove_acct d root root' true c1 h.tree hinl hra hids hold heq
    simp only [OMap.remove, heq, bind, Except.bind, pure, Except.pure] at hr
    split at hr
    · cases hr
    · rename_i p hfix
      obtain ⟨m3, c3⟩ := p
      simp only [Except.ok.injEq, Prod.mk.injEq] at hr
      obtain ⟨_, _, rfl, rfl⟩ := hr
      obtain ⟨E2, hlog2, hacct2, hla2, hid2⟩ := rootfix_acct (T := T) (D := D) cfg.T d root' ty _ seed c1 m3 c3 hp.sinv
        (by rw [hid]; exact hra) (hacct1.nodup hids) (hacct1.old hold) hfix
      rw [hid] at hla2 hid2
      refine ⟨E1 ++ E2, C1, by simpa using hlog1.trans hlog2, by simpa using hacct1.trans hacct2 hold, ?_, hid2⟩
      exact lastAction_keep hla1 hla2
  · have hne : ∀ p ∈ MTree.toList d root, p.1 ≠ k := by
      intro p hp he
      exact hpres ⟨p.2, by rw [← he]; exact hp⟩
    have := h1 hne
    simp [OMap.remove, this, bind, Except.bind] at hr

/-! ### from accounts to `MEffectsComplete` -/

theorem mem_of_find?_gen {β : Type} {L : List (SlabID × β)} {id : SlabID} {s : β}
    (h : AList.find? L id = some s) : (id, s) ∈ L := by
  induction L with
  | nil => simp [AList.find?] at h
  | cons p L ih =>
    obtain ⟨k, v⟩ := p
    rw [AList.find?_cons] at h
    split at h
    · rename_i hk; subst hk; cases h; simp
    · exact List.mem_cons_of_mem _ (ih h)

theorem mslabAt_isSome (m : OMap r) (id : SlabID) :
    (m.slabAt id).isSome ↔ id ∈ AList.keys (MTree.slabs m.d m.root) := by
  unfold OMap.slabAt
  rw [Option.isSome_map, ← AList.find?_ne_none_iff]
  cases AList.find? (MTree.slabs m.d m.root) id <;> simp

theorem mslabAt_isNone (m : OMap r) (id : SlabID) :
    (m.slabAt id).isNone ↔ id ∉ AList.keys (MTree.slabs m.d m.root) := by
  rw [← mslabAt_isSome]
  cases m.slabAt id <;> simp

theorem mEffectsComplete_of_acct {m m' : OMap r} {a c c' : Nat} {E : List Eff} {cr : List SlabID}
    (h : MAcct a c c' (MTree.slabs m.d m.root) (MTree.slabs m'.d m'.root) E cr)
    (hnd : MIdsOk m) (hid : m'.rootID = m.rootID)
    (hroot : lastAction E m.rootID = some true) :
    MEffectsComplete m m' E cr := by
  refine ⟨?_, ?_, ?_, ?_⟩
  · intro id hsome hne
    by_cases hr : id = m.rootID
    · rw [hr]; exact hroot
    · cases hf' : AList.find? (MTree.slabs m'.d m'.root) id with
      | none =>
        unfold OMap.slabAt at hsome
        rw [hf'] at hsome
        simp at hsome
      | some s' =>
        rcases h.kept (id, s') (mem_of_find?_gen hf') with h1 | h1
        · exfalso
          apply hne
          have hf : AList.find? (MTree.slabs m.d m.root) id = some s' :=
            (AList.mem_iff_find? _ hnd id s').1 h1
          unfold OMap.slabAt
          rw [hf, hf', hid]
          simp [hr]
        · exact h1
  · intro id h1 h2
    rw [mslabAt_isSome] at h1
    rw [mslabAt_isNone] at h2
    exact h.gone id h1 h2
  · intro id h1
    rcases h.stored id h1 with h2 | h2
    · left; rw [mslabAt_isSome]; exact h2
    · exact Or.inr h2
  · intro id h1
    rw [mslabAt_isNone]
    exact h.removed id h1

/-! ### popIterate -/

/-- `popIter` only removes slabs -/
def PopOnly {α : Type} (o : ElemsOps α) : Prop :=
  ∀ e c, ∃ E, (o.popIter e c).2.eff = c.eff ++ E ∧ ∀ x ∈ E, ∃ i, x = Eff.remove i

theorem elem_popIter_log {α : Type} {o : ElemsOps α} (ho : PopOnly o) (el : MElemF α) (c : Ctx) :
    ∃ E, (el.popIter o c).2.eff = c.eff ++ E ∧ (∀ x ∈ E, ∃ i, x = Eff.remove i) ∧
      ∀ id ∈ AList.keys (grp [el]), Eff.remove id ∈ E := by
  cases el with
  | single x => exact ⟨[], by simp [MElemF.popIter], by simp, by simp [grp, AList.keys]⟩
  | inl g =>
    obtain ⟨E, h1, h2⟩ := ho g c
    exact ⟨E, h1, h2, by simp [grp, AList.keys]⟩
  | ext id sz s =>
    obtain ⟨E, h1, h2⟩ := ho s.elems c
    refine ⟨E ++ [.remove id], ?_, ?_, ?_⟩
    · simp only [MElemF.popIter, Ctx.emit, h1, List.append_assoc]
    · intro x hx
      rcases List.mem_append.1 hx with h | h
      · exact h2 x h
      · exact ⟨id, by simpa using h⟩
    · intro j hj
      simp only [grp, AList.keys, List.filterMap_cons, List.filterMap_nil, List.map_cons, List.map_nil,
        List.mem_singleton] at hj
      subst hj
      simp

theorem hkey_popIter_fold {α : Type} {o : ElemsOps α} (ho : PopOnly o) :
    ∀ (l : List (MElemF α)) (acc : List (MKey × Elem) × Ctx),
    ∃ E, (l.foldl (fun (acc : List (MKey × Elem) × Ctx) el =>
        let (l, c) := el.popIter o acc.2
        (acc.1 ++ l, c)) acc).2.eff = acc.2.eff ++ E ∧ (∀ x ∈ E, ∃ i, x = Eff.remove i) ∧
      ∀ id ∈ AList.keys (grp l), Eff.remove id ∈ E
  | [], acc => ⟨[], by simp, by simp, by simp [AList.keys]⟩
  | el :: l, acc => by
    obtain ⟨E1, h1, h2, h3⟩ := elem_popIter_log ho el acc.2
    obtain ⟨E2, h4, h5, h6⟩ := hkey_popIter_fold ho l (acc.1 ++ (el.popIter o acc.2).1, (el.popIter o acc.2).2)
    refine ⟨E1 ++ E2, ?_, ?_, ?_⟩
    · rw [List.foldl_cons]
      simp only at h4 ⊢
      rw [h4, h1, List.append_assoc]
    · intro x hx
      rcases List.mem_append.1 hx with h | h
      · exact h2 x h
      · exact h5 x h
    · intro id hid
      have : grp (el :: l) = grp [el] ++ grp l := by rw [← grp_append]; rfl
      rw [this, keys_append] at hid
      rcases List.mem_append.1 hid with h | h
      · exact List.mem_append.2 (Or.inl (h3 id h))
      · exact List.mem_append.2 (Or.inr (h6 id h))

theorem hkey_popOnly {α : Type} {o : ElemsOps α} (ho : PopOnly o) : PopOnly (HkeyElems.ops o) := by
  intro e c
  obtain ⟨E, h1, h2, _⟩ := hkey_popIter_fold ho e.elems.reverse ([], c)
  exact ⟨E, h1, h2⟩

theorem melems_popOnly : ∀ r, PopOnly (MElems.ops r)
  | 0 => fun e c => ⟨[], by simp [MElems.ops, SingleElems.ops], by simp⟩
  | r + 1 => hkey_popOnly (melems_popOnly r)

theorem keys_grp_reverse {α : Type} (l : List (MElemF α)) (id : SlabID) :
    id ∈ AList.keys (grp l.reverse) ↔ id ∈ AList.keys (grp l) := by
  simp only [mem_keys_iff, grp, List.mem_filterMap, List.mem_reverse]

theorem mdata_pop_log (s : MDataSlab r) (c : Ctx) :
    ∃ E, (MDataSlab.popIterate s c).2.2.eff = c.eff ++ E ∧ (∀ x ∈ E, ∃ i, x = Eff.remove i) ∧
      ∀ id ∈ AList.keys (msub 0 s), Eff.remove id ∈ E := by
  obtain ⟨E, h1, h2, h3⟩ := hkey_popIter_fold (melems_popOnly r) s.elems.elems.reverse ([], c)
  refine ⟨E, h1, h2, ?_⟩
  intro id hid
  rw [msub_zero, groupSlabs_eq, keys_map_view] at hid
  exact h3 id ((keys_grp_reverse _ id).2 hid)

theorem mtree_pop_fold {d : Nat}
    (ih : ∀ (t : MTree r d) (c : Ctx), ∃ E, (MTree.popIterate d t c).2.2.eff = c.eff ++ E ∧
      (∀ x ∈ E, ∃ i, x = Eff.remove i) ∧ ∀ id ∈ AList.keys (msub d t), Eff.remove id ∈ E) :
    ∀ (l : List (MTree r d)) (acc : List (MKey × Elem) × Ctx),
    ∃ E, (l.foldl (fun (acc : List (MKey × Elem) × Ctx) child =>
        let (es, _, c) := MTree.popIterate d child acc.2
        (acc.1 ++ es, c.emit (.remove (MTree.hdr d child).id))) acc).2.eff = acc.2.eff ++ E ∧
      (∀ x ∈ E, ∃ i, x = Eff.remove i) ∧
      ∀ id ∈ AList.keys (l.flatMap (MTree.slabs d)), Eff.remove id ∈ E
  | [], acc => ⟨[], by simp, by simp, by simp [AList.keys]⟩
  | t :: l, acc => by
    obtain ⟨E1, h1, h2, h3⟩ := ih t acc.2
    obtain ⟨E2, h4, h5, h6⟩ := mtree_pop_fold ih l
      (acc.1 ++ (MTree.popIterate d t acc.2).1,
        (MTree.popIterate d t acc.2).2.2.emit (.remove (MTree.hdr d t).id))
    refine ⟨E1 ++ [.remove (MTree.hdr d t).id] ++ E2, ?_, ?_, ?_⟩
    · rw [List.foldl_cons]
      simp only at h4 ⊢
      rw [h4]
      simp only [Ctx.emit, h1, List.append_assoc]
    · intro x hx
      rcases List.mem_append.1 hx with h | h
      · rcases List.mem_append.1 h with h | h
        · exact h2 x h
        · exact ⟨_, by simpa using h⟩
      · exact h5 x h
    · intro id hid
      rw [List.flatMap_cons, keys_append, mslabs_eq, keys_cons'] at hid
      rcases List.mem_append.1 hid with h | h
      · rcases List.mem_cons.1 h with h | h
        · subst h; simp
        · exact List.mem_append.2 (Or.inl (List.mem_append.2 (Or.inl (h3 id h))))
      · exact List.mem_append.2 (Or.inr (h6 id h))

theorem keys_flatMap_reverse {d : Nat} (l : List (MTree r d)) (id : SlabID) :
    id ∈ AList.keys (l.reverse.flatMap (MTree.slabs d)) ↔ id ∈ AList.keys (l.flatMap (MTree.slabs d)) := by
  simp only [mem_keys_iff, List.mem_flatMap, List.mem_reverse]

theorem mmeta_pop_log {d : Nat} (m : MMetaSlab (MTree r d))
    (ih : ∀ (t : MTree r d) (c : Ctx), ∃ E, (MTree.popIterate d t c).2.2.eff = c.eff ++ E ∧
      (∀ x ∈ E, ∃ i, x = Eff.remove i) ∧ ∀ id ∈ AList.keys (msub d t), Eff.remove id ∈ E) (c : Ctx) :
    ∃ E, (MTree.popIterate (d + 1) m c).2.2.eff = c.eff ++ E ∧ (∀ x ∈ E, ∃ i, x = Eff.remove i) ∧
      ∀ id ∈ AList.keys (msub (d + 1) m), Eff.remove id ∈ E := by
  obtain ⟨E, h1, h2, h3⟩ := mtree_pop_fold ih m.children.reverse ([], c)
  refine ⟨E, ?_, h2, ?_⟩
  · simp only [MTree.popIterate]
    exact h1
  · intro id hid
    rw [msub_succ] at hid
    exact h3 id ((keys_flatMap_reverse _ id).2 hid)

theorem mtree_pop_log : ∀ (d : Nat) (t : MTree r d) (c : Ctx),
    ∃ E, (MTree.popIterate d t c).2.2.eff = c.eff ++ E ∧ (∀ x ∈ E, ∃ i, x = Eff.remove i) ∧
      ∀ id ∈ AList.keys (msub d t), Eff.remove id ∈ E
  | 0, s, c => mdata_pop_log s c
  | d + 1, m, c => mmeta_pop_log m (mtree_pop_log d) c

theorem omap_pop_log (m : OMap r) (c : Ctx) (hinl : m.isInlined = false) :
    ∃ E, (m.popIterate c).2.2.eff = c.eff ++ E ++ [.store m.rootID] ∧ (∀ x ∈ E, ∃ i, x = Eff.remove i) ∧
      ∀ id ∈ AList.keys (msub m.d m.root), Eff.remove id ∈ E := by
  obtain ⟨E, h1, h2, h3⟩ := mtree_pop_log m.d m.root c
  refine ⟨E, ?_, h2, h3⟩
  simp only [OMap.popIterate, hinl, Bool.false_eq_true, if_false, Ctx.emit, h1]

end Atree
