import AtreeProofs.Map.TreeInv2
/-
  `MMetaSlab.split / merge / lendToRight / borrowFromRight`.
-/
namespace Atree
open Gen

variable {T : Nat} {r : Nat} {D : DigestFn (r + 1)} {d : Nat}

theorem headD_take' {α : Type} {l : List α} {n : Nat} (a : α) (hn : 1 ≤ n) : (l.take n).headD a = l.headD a := by
  cases l with
  | nil => simp
  | cons x l => cases n with
    | zero => omega
    | succ n => simp

theorem headD_append_left {α : Type} {l₁ l₂ : List α} (a : α) (h : l₁ ≠ []) : (l₁ ++ l₂).headD a = l₁.headD a := by
  cases l₁ with
  | nil => exact absurd rfl h
  | cons x l => simp

theorem sorted_take_drop {l : List (MTree r d)} (n : Nat)
    (h : (l.flatMap (MTree.digests0 d)).Pairwise (· < ·)) :
    ((l.take n).flatMap (MTree.digests0 d)).Pairwise (· < ·) ∧
    ((l.drop n).flatMap (MTree.digests0 d)).Pairwise (· < ·) ∧
    (∀ a ∈ (l.take n).flatMap (MTree.digests0 d), ∀ b ∈ (l.drop n).flatMap (MTree.digests0 d), a < b) := by
  rw [flatMap_take_drop n, List.pairwise_append] at h
  exact h

namespace MetaLoose

/-- build `MetaLoose` for a slab whose children are a sublist-like rearrangement of good children -/
theorem mk' {top : Bool} {m' : MMetaSlab (MTree r d)} (hroot : m'.root = top)
    (hh : m'.childHdrs = m'.children.map (MTree.hdr d))
    (hsz : m'.hdr.size = mapMetaDataSlabPrefixSize + mapSlabHeaderSize * m'.children.length)
    (hfk : m'.hdr.firstKey = (m'.childHdrs.headD default).firstKey)
    (hc : ∀ c ∈ m'.children, MTreeInv T D d false c ∧ (MTree.hdr d c).id.addr = m'.hdr.id.addr ∧
      (MTree.hdr d c).firstKey = (MTree.digests0 d c).headD 0)
    (hs : (m'.children.flatMap (MTree.digests0 d)).Pairwise (· < ·)) : MetaLoose T D d top m' :=
  ⟨hroot, hh, hsz, hfk, fun c h => (hc c h).1, fun c h => (hc c h).2.1, fun c h => (hc c h).2.2, hs⟩

theorem child {top : Bool} {m : MMetaSlab (MTree r d)} (h : MetaLoose T D d top m) :
    ∀ c ∈ m.children, MTreeInv T D d false c ∧ (MTree.hdr d c).id.addr = m.hdr.id.addr ∧
      (MTree.hdr d c).firstKey = (MTree.digests0 d c).headD 0 :=
  fun c hc => ⟨h.2.2.2.2.1 c hc, h.2.2.2.2.2.1 c hc, h.2.2.2.2.2.2.1 c hc⟩

theorem sorted {top : Bool} {m : MMetaSlab (MTree r d)} (h : MetaLoose T D d top m) :
    (m.children.flatMap (MTree.digests0 d)).Pairwise (· < ·) := h.2.2.2.2.2.2.2

theorem size_eq {top : Bool} {m : MMetaSlab (MTree r d)} (h : MetaLoose T D d top m) :
    m.hdr.size = 12 + 18 * m.children.length := h.2.2.1

theorem hdrs_len {top : Bool} {m : MMetaSlab (MTree r d)} (h : MetaLoose T D d top m) :
    m.childHdrs.length = m.children.length := by rw [h.2.1, List.length_map]

end MetaLoose

namespace MMetaSlab

theorem meta_split_band (hT : legalThreshold T = true) {n : Nat} (h1 : maxThr T < 12 + 18 * n)
    (h2 : 12 + 18 * n ≤ maxThr T + 18) :
    minThr T ≤ 12 + 18 * ((n + 1) / 2) ∧ 12 + 18 * ((n + 1) / 2) ≤ maxThr T ∧
    minThr T ≤ 12 + 18 * (n - (n + 1) / 2) ∧ 12 + 18 * (n - (n + 1) / 2) ≤ maxThr T ∧ 2 ≤ n ∧
    1 ≤ (n + 1) / 2 ∧ (n + 1) / 2 < n := by
  have hb := map_legal_bounds hT
  simp only [minThr, maxThr] at *
  omega

theorem split_spec (hT : legalThreshold T = true) {m : MMetaSlab (MTree r d)} (hm : MetaLoose T D d false m)
    (hfull : maxThr T < m.hdr.size) (hle : m.hdr.size ≤ maxThr T + mapSlabHeaderSize) (c : Ctx) :
    ∃ l rr : MMetaSlab (MTree r d), m.split c = .ok (l, rr, (c.alloc m.hdr.id.addr).2) ∧
      MTreeInv T D (d + 1) false l ∧ MTreeInv T D (d + 1) false rr ∧
      m.children = l.children ++ rr.children ∧
      l.hdr.id = m.hdr.id ∧ rr.hdr.id = (c.alloc m.hdr.id.addr).1 ∧ l.hdr.firstKey = m.hdr.firstKey := by
  have hsz := hm.size_eq
  obtain ⟨g1, g2, g3, g4, g5, g6, g7⟩ := meta_split_band hT (n := m.children.length) (by omega)
    (by simp only [mapSlabHeaderSize] at hle; omega)
  have hlen := hm.hdrs_len
  have hn2 : ¬ (m.children.length < 2) := by omega
  simp only [MMetaSlab.split, if_neg hn2, hlen]
  refine ⟨_, _, rfl, ?_, ?_, (List.take_append_drop _ _).symm, rfl, rfl, rfl⟩
  · rw [mtreeInv_false_iff_succ hT]
    refine ⟨⟨MetaLoose.mk' hm.1 ?_ ?_ ?_ ?_ ?_, ?_⟩, ?_, ?_⟩
    · simp only; rw [hm.2.1, List.map_take]
    · simp only [List.length_take, mapMetaDataSlabPrefixSize, mapSlabHeaderSize]
      rw [Nat.min_eq_left (by omega)]; omega
    · simp only; rw [headD_take' _ g6]; exact hm.2.2.2.1
    · intro c hc; exact hm.child c (List.mem_of_mem_take hc)
    · simp only
      exact (sorted_take_drop _ hm.sorted).1
    · simp only [List.length_take]; rw [Nat.min_eq_left (by omega)]; exact g6
    · simp only [mapMetaDataSlabPrefixSize, mapSlabHeaderSize]; omega
    · simp only [mapMetaDataSlabPrefixSize, mapSlabHeaderSize]; omega
  · rw [mtreeInv_false_iff_succ hT]
    refine ⟨⟨MetaLoose.mk' rfl ?_ ?_ rfl ?_ ?_, ?_⟩, ?_, ?_⟩
    · simp only; rw [hm.2.1, List.map_drop]
    · simp only [List.length_drop, mapMetaDataSlabPrefixSize, mapSlabHeaderSize]
      rw [hsz]; omega
    · intro c hc
      have := hm.child c (List.mem_of_mem_drop hc)
      exact ⟨this.1, by rw [this.2.1]; simp [Ctx.alloc], this.2.2⟩
    · simp only
      exact (sorted_take_drop _ hm.sorted).2.1
    · simp only [List.length_drop]; omega
    · simp only [mapSlabHeaderSize]; rw [hsz]; omega
    · simp only [mapSlabHeaderSize]; rw [hsz]; omega

theorem sorted_append {xs ys : List (MTree r d)}
    (h1 : (xs.flatMap (MTree.digests0 d)).Pairwise (· < ·)) (h2 : (ys.flatMap (MTree.digests0 d)).Pairwise (· < ·))
    (hlt : ∀ a ∈ xs.flatMap (MTree.digests0 d), ∀ b ∈ ys.flatMap (MTree.digests0 d), a < b) :
    ((xs ++ ys).flatMap (MTree.digests0 d)).Pairwise (· < ·) := by
  rw [List.flatMap_append, List.pairwise_append]; exact ⟨h1, h2, hlt⟩

theorem merge_spec {l rr : MMetaSlab (MTree r d)} (hl : MetaLoose T D d false l) (hr : MetaLoose T D d false rr)
    (hl1 : 1 ≤ l.children.length) (haddr : rr.hdr.id.addr = l.hdr.id.addr)
    (hlt : ∀ a ∈ MTree.digests0 (d + 1) l, ∀ b ∈ MTree.digests0 (d + 1) rr, a < b) :
    MetaLoose T D d false (MMetaSlab.merge l rr) ∧
    (MMetaSlab.merge l rr).hdr.size + 12 = l.hdr.size + rr.hdr.size ∧
    (MMetaSlab.merge l rr).children = l.children ++ rr.children ∧
    (MMetaSlab.merge l rr).hdr.id = l.hdr.id ∧ (MMetaSlab.merge l rr).hdr.firstKey = l.hdr.firstKey := by
  have h1 := hl.size_eq
  have h2 := hr.size_eq
  refine ⟨MetaLoose.mk' hl.1 ?_ ?_ ?_ ?_ ?_, ?_, rfl, rfl, rfl⟩
  · simp only [MMetaSlab.merge]; rw [hl.2.1, hr.2.1, List.map_append]
  · simp only [MMetaSlab.merge, List.length_append, mapMetaDataSlabPrefixSize, mapSlabHeaderSize]; omega
  · simp only [MMetaSlab.merge]
    rw [headD_append_left]
    · exact hl.2.2.2.1
    · intro h; have := hl.hdrs_len; rw [h] at this; simp at this; omega
  · intro c hc
    simp only [MMetaSlab.merge] at hc ⊢
    rcases List.mem_append.mp hc with hc | hc
    · exact hl.child c hc
    · have := hr.child c hc
      exact ⟨this.1, by rw [this.2.1]; exact haddr, this.2.2⟩
  · exact sorted_append hl.sorted hr.sorted hlt
  · simp only [MMetaSlab.merge, mapMetaDataSlabPrefixSize]; omega

end MMetaSlab
end Atree
