import AtreeProofs.Map.DataOps
/-
  `canLend`, `lendToRight`, `borrowFromRight` of data slabs and the size of a merge.
-/
namespace Atree
open Gen

variable {T : Nat} {r : Nat} {D : DigestFn (r + 1)}

namespace MDataSlab

theorem canLend_true {s : MDataSlab r} {want : Nat} {fromBack : Bool} (hw : 0 < want)
    (h : HkeyElems.canLend (MElems.ops r) T s.elems want fromBack = true) :
    ∃ j, 1 ≤ j ∧ j ≤ s.sizes.length ∧
      want ≤ ((if fromBack then s.sizes.reverse else s.sizes).take j).sum ∧
      minThr T - mapDataSlabPrefixSize ≤ s.elems.size - ((if fromBack then s.sizes.reverse else s.sizes).take j).sum ∧
      ((if fromBack then s.sizes.reverse else s.sizes).take (j - 1)).sum < want := by
  simp only [HkeyElems.canLend] at h
  split at h
  · cases h
  · split at h
    · cases h
    · have h' : HkeyElems.canLendLoop (minThr T - mapDataSlabPrefixSize) s.elems.size want
          (if fromBack then s.sizes.reverse else s.sizes) 0 = true := h
      obtain ⟨j, h1, h2, h3, h4, h5⟩ := HkeyElems.canLendLoop_true _ _ _ _ 0 hw h'
      refine ⟨j, h1, ?_, by simpa using h3, by simpa using h4, by simpa using h5⟩
      cases fromBack <;> simpa using h2

theorem canLend_false (hT : legalThreshold T = true) {top : Bool} {s : MDataSlab r} (hs : MDataLoose T D top s)
    {want : Nat} {fromBack : Bool} (hw : 0 < want)
    (h : HkeyElems.canLend (MElems.ops r) T s.elems want fromBack = false) :
    s.sizes.sum ≤ maxEntry T ∨ s.elems.size - want < minThr T - mapDataSlabPrefixSize ∨
    s.elems.size < minThr T - mapDataSlabPrefixSize + want + maxEntry T ∨ s.sizes.sum < want := by
  have hE := sizes_le hT hs
  simp only [HkeyElems.canLend] at h
  split at h
  · rename_i hlen
    left
    have hl : s.sizes.length < 2 := by rw [sizes_length]; exact hlen
    rcases hsz : s.sizes with _ | ⟨a, _ | ⟨b, l⟩⟩
    · simp
    · simp; exact hE a (by rw [hsz]; simp)
    · rw [hsz] at hl; simp at hl; omega
  · split at h
    · right; left; assumption
    · have h' : HkeyElems.canLendLoop (minThr T - mapDataSlabPrefixSize) s.elems.size want
          (if fromBack then s.sizes.reverse else s.sizes) 0 = false := h
      have hE' : ∀ x ∈ (if fromBack then s.sizes.reverse else s.sizes), x ≤ maxEntry T := by
        intro x hx; cases fromBack <;> simp at hx <;> exact hE x hx
      rcases HkeyElems.canLendLoop_false _ _ _ (maxEntry T) _ 0 hE' hw h' with h1 | h1
      · right; right; left; exact h1
      · right; right; right
        cases fromBack <;> simpa using h1

/-- merging an underflowing slab with a sibling that cannot lend stays within the band -/
theorem merge_band (hT : legalThreshold T = true) {u sib : MDataSlab r} (hu : MDataLoose T D false u)
    (hs : MDataInv T D false sib) (hunder : u.hdr.size < minThr T) {fromBack : Bool}
    (h : HkeyElems.canLend (MElems.ops r) T sib.elems (minThr T - u.hdr.size) fromBack = false) :
    minThr T + 26 ≤ u.hdr.size + sib.hdr.size ∧ u.hdr.size + sib.hdr.size ≤ maxThr T + 26 := by
  obtain ⟨h1, h2⟩ := size_nontop hu
  obtain ⟨h3, h4⟩ := size_nontop hs.loose
  have h5 := hs.ge_min rfl
  have h6 := hs.le_max
  have hb := map_legal_bounds hT
  have hc := canLend_false hT hs.loose (by omega) h
  rw [maxEntry_eq hT] at hc
  simp only [minThr, maxThr, mapDataSlabPrefixSize] at *
  omega

theorem reverse_sizes_take (s : MDataSlab r) (j : Nat) (hj : j ≤ s.sizes.length) :
    (s.sizes.reverse.take j).sum + (s.sizes.take (s.elems.elems.length - j)).sum = s.sizes.sum := by
  rw [← sizes_length]; exact sum_take_reverse s.sizes j hj

theorem lend_band (hT : legalThreshold T = true) {lsz rsz ldata rdata left' : Nat}
    (h1 : lsz = 26 + ldata) (h2 : rsz = 26 + rdata) (hl : lsz ≤ maxThr T) (hr : rsz < minThr T)
    (b0 : left' ≤ ldata)
    (b1 : minThr T - 26 ≤ left')
    (b2 : minThr T - 26 ≤ ldata + rdata - left')
    (b3 : ldata + rdata - left' < minThr T - 26 + maxEntry T ∨ 2 * (ldata + rdata - left') ≤ ldata + rdata) :
    minThr T ≤ 26 + left' ∧ 26 + left' ≤ maxThr T ∧ minThr T ≤ 26 + (ldata + rdata - left') ∧
    26 + (ldata + rdata - left') ≤ maxThr T ∧ 1 ≤ left' := by
  have hb := map_legal_bounds hT
  rw [maxEntry_eq hT] at b3
  simp only [minThr, maxThr] at *
  omega

theorem lendToRight_spec (hT : legalThreshold T = true) {l rr : MDataSlab r} (hl : MDataInv T D false l)
    (hr : MDataLoose T D false rr) (hunder : rr.hdr.size < minThr T)
    (hcan : l.canLendToRight T (minThr T - rr.hdr.size) = true)
    (hlt : ∀ a ∈ l.elems.hkeys, ∀ b ∈ rr.elems.hkeys, a < b) :
    ∃ l' r', MDataSlab.lendToRight T l rr = .ok (l', r') ∧ MDataInv T D false l' ∧ MDataInv T D false r' ∧
      l.elems.hkeys ++ rr.elems.hkeys = l'.elems.hkeys ++ r'.elems.hkeys ∧
      l.elems.elems ++ rr.elems.elems = l'.elems.elems ++ r'.elems.elems ∧
      l'.hdr.id = l.hdr.id ∧ r'.hdr.id = rr.hdr.id ∧ l'.next = l.next ∧ r'.next = rr.next := by
  have hll := hl.loose
  obtain ⟨h1, h2⟩ := size_nontop hll
  obtain ⟨h3, h4⟩ := size_nontop hr
  have hE := sizes_le hT hll
  have hb := map_legal_bounds hT
  have hm := map_minThr_ge hT
  obtain ⟨j0, j1, j2, j3, j4, j5⟩ := canLend_true (fromBack := true) (by omega) hcan
  simp only [if_true] at j3 j4 j5
  have hlev : ¬ (l.elems.level ≠ rr.elems.level) := by
    rw [hll.hinv.2.1, hr.hinv.2.1]; simp
  have hE' : ∀ x ∈ l.sizes.reverse, x ≤ maxEntry T := by intro x hx; exact hE x (by simpa using hx)
  have hsize : l.elems.size + rr.elems.size - hkeyElementsPrefixSize * 2 = l.sizes.sum + rr.sizes.sum := by
    simp only [hkeyElementsPrefixSize]; omega
  have hls : l.elems.size - hkeyElementsPrefixSize = l.sizes.sum := by
    simp only [hkeyElementsPrefixSize]; omega
  have hle0 := HkeyElems.sum_take_le l.sizes.reverse j0
  have hle1 := HkeyElems.sum_take_le l.sizes.reverse (j0 - 1)
  rw [List.sum_reverse] at hle0 hle1
  obtain ⟨j, hj0, hj, heq, b1, b2, b3⟩ := HkeyElems.lendLoop_spec
    (minThr T - mapDataSlabPrefixSize - hkeyElementsPrefixSize) (l.sizes.sum + rr.sizes.sum)
    ((l.sizes.sum + rr.sizes.sum + 1) / 2) (maxEntry T) rfl l.sizes.reverse l.elems.elems.length l.sizes.sum j0 hE'
    (by rw [List.sum_reverse]) (by omega) (by simpa using j2)
    (by simp only [mapDataSlabPrefixSize, hkeyElementsPrefixSize] at *; omega)
    (by simp only [mapDataSlabPrefixSize, hkeyElementsPrefixSize] at *; omega)
    (by intro h; omega)
    (by intro _; simp only [mapDataSlabPrefixSize, hkeyElementsPrefixSize] at *; omega)
  have hj' : j ≤ l.sizes.length := by simpa using hj
  have hrev := reverse_sizes_take l j hj'
  have hleft : l.sizes.sum - (l.sizes.reverse.take j).sum = (l.sizes.take (l.elems.elems.length - j)).sum := by omega
  rw [hleft] at heq b1
  have hb2 : l.sizes.sum + rr.sizes.sum - l.sizes.sum + (l.sizes.reverse.take j).sum
      = l.sizes.sum + rr.sizes.sum - (l.sizes.take (l.elems.elems.length - j)).sum := by omega
  rw [hb2] at b2 b3
  obtain ⟨g1, g2, g3, g4, g5⟩ := lend_band (left' := (l.sizes.take (l.elems.elems.length - j)).sum) hT h1 h3 hl.le_max hunder (by omega)
    (by simp only [mapDataSlabPrefixSize, hkeyElementsPrefixSize] at b1; omega)
    (by simp only [mapDataSlabPrefixSize, hkeyElementsPrefixSize] at b2; omega)
    (by simp only [mapDataSlabPrefixSize, hkeyElementsPrefixSize] at b3; omega)
  have hnpos : 1 ≤ l.elems.elems.length - j := by
    rcases Nat.eq_zero_or_pos (l.elems.elems.length - j) with h | h
    · rw [h] at g5; simp at g5
    · exact h
  have heq' : HkeyElems.lendLoop (minThr T - mapDataSlabPrefixSize - hkeyElementsPrefixSize)
      (l.sizes.sum + rr.sizes.sum) ((l.sizes.sum + rr.sizes.sum + 1) / 2)
      (List.map (fun el => MElemF.size (MElems.ops r) el + digestSize) l.elems.elems).reverse l.elems.elems.length
      l.sizes.sum = (l.elems.elems.length - j, (l.sizes.take (l.elems.elems.length - j)).sum) := heq
  simp only [MDataSlab.lendToRight, HkeyElems.lendToRight, eops, if_neg hlev, hsize, hls, heq', bind, Except.bind,
    pure, Except.pure]
  have htd := sizes_take_drop l (l.elems.elems.length - j)
  refine ⟨_, _, rfl, ?_, ?_, ?_, ?_, rfl, rfl, rfl, rfl⟩
  · rw [mdataInv_iff hT]
    refine ⟨⟨?_, ?_, ?_, hll.root_eq, hll.inl_root⟩, ?_, ?_⟩
    · rw [elemsInv_succ_iff]
      exact hll.hinv.take _ hll.hinv.2.1 rfl rfl (by simp only; rw [elemSizes_take_eq])
    · show _ = l.prefixSize + _
      rw [hll.prefix_nontop]
    · simp only [HkeyElems.firstKey]
      rw [headD_take_nat hnpos]; exact hll.first_eq
    · simp only [mapDataSlabPrefixSize, hkeyElementsPrefixSize]; omega
    · intro _; simp only [mapDataSlabPrefixSize, hkeyElementsPrefixSize]; omega
  · rw [mdataInv_iff hT]
    refine ⟨⟨?_, ?_, rfl, hr.root_eq, hr.inl_root⟩, ?_, ?_⟩
    · rw [elemsInv_succ_iff]
      have Hd : HInv T (r + 1) D (MElems.ops r) (ElemsInv T (r + 1) D r) r 0 []
          ({ l.elems with hkeys := l.elems.hkeys.drop (l.elems.elems.length - j),
                          elems := l.elems.elems.drop (l.elems.elems.length - j),
                          size := hkeyElementsPrefixSize + HkeyElems.elemSizes (MElems.ops r)
                            (l.elems.elems.drop (l.elems.elems.length - j)) } : HkeyElems (MElems r)) :=
        hll.hinv.drop _ hll.hinv.2.1 rfl rfl rfl
      refine Hd.append hr.hinv ?_ hr.hinv.2.1 rfl rfl ?_
      · intro a ha b hb'; exact hlt a (List.mem_of_mem_drop ha) b hb'
      · simp only
        rw [HkeyElems.elemSizes_append, elemSizes_drop_eq, elemSizes_eq]
        simp only [hkeyElementsPrefixSize]; omega
    · show _ = rr.prefixSize + _
      rw [hr.prefix_nontop]
    · simp only [mapDataSlabPrefixSize, hkeyElementsPrefixSize]; omega
    · intro _; simp only [mapDataSlabPrefixSize, hkeyElementsPrefixSize]; omega
  · simp only
    rw [← List.append_assoc, List.take_append_drop]
  · simp only
    rw [← List.append_assoc, List.take_append_drop]

end MDataSlab
end Atree
