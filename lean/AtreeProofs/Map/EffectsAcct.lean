import AtreeProofs.Array.EffectsSteps
import AtreeProofs.MapHeapSpec
/-
  Effect-log accounting for maps (C09), generic layer.  Same shape as `Array/Effects.lean`, but
  * generic in the slab content `β`,
  * slab IDs carry their owner address: "fresh" means allocated for the address `a` with an
    index in `(c, c']`, "old" means at or below the counter IF owned by `a`,
  * key multiplicities (`kc`) are tracked, so that distinctness of the slab IDs follows
    (`MAcct.nodup`).
-/
namespace Atree
open Gen

/-! ### fresh and old IDs -/

/-- allocated for the address `a` while the counter moved from `c` to `c'` -/
def Fresh (a c c' : Nat) (id : SlabID) : Prop := id.addr = a ∧ c < id.idx ∧ id.idx ≤ c'

/-- not above the counter `c` of the address `a` -/
def Old (a c : Nat) (id : SlabID) : Prop := id.addr = a → id.idx ≤ c

theorem Fresh.not_old {a c c' : Nat} {id : SlabID} (h : Fresh a c c' id) (h' : Old a c id) : False := by
  have := h' h.1; have := h.2.1; omega

theorem Fresh.mono_left {a c c1 c2 : Nat} {id : SlabID} (h : Fresh a c1 c2 id) (hc : c ≤ c1) : Fresh a c c2 id :=
  ⟨h.1, by have := h.2.1; omega, h.2.2⟩

theorem Fresh.mono_right {a c c1 c2 : Nat} {id : SlabID} (h : Fresh a c c1 id) (hc : c1 ≤ c2) : Fresh a c c2 id :=
  ⟨h.1, h.2.1, by have := h.2.2; omega⟩

theorem Fresh.old {a c c' : Nat} {id : SlabID} (h : Fresh a c c' id) : Old a c' id := fun _ => h.2.2

theorem Old.mono {a c c' : Nat} {id : SlabID} (h : Old a c id) (hc : c ≤ c') : Old a c' id :=
  fun ha => Nat.le_trans (h ha) hc

theorem fresh_next (a c : Nat) : Fresh a c (c + 1) ⟨a, c + 1⟩ := ⟨rfl, by simp, by simp⟩

/-! ### key multiplicities -/

/-- number of entries stored under `id` -/
def kc {β : Type} (id : SlabID) (L : List (SlabID × β)) : Nat := L.countP (fun p => decide (p.1 = id))

section kc
variable {β : Type}

@[simp] theorem kc_nil (id : SlabID) : kc id ([] : List (SlabID × β)) = 0 := rfl

theorem kc_cons (id : SlabID) (p : SlabID × β) (L : List (SlabID × β)) :
    kc id (p :: L) = kc id L + if p.1 = id then 1 else 0 := by
  simp [kc, List.countP_cons]

theorem kc_append (id : SlabID) (A B : List (SlabID × β)) : kc id (A ++ B) = kc id A + kc id B := by
  simp [kc, List.countP_append]

theorem kc_pos_iff (id : SlabID) (L : List (SlabID × β)) : 0 < kc id L ↔ id ∈ AList.keys L := by
  rw [mem_keys_iff]
  simp only [kc, List.countP_pos_iff, decide_eq_true_eq]
  constructor
  · rintro ⟨p, hp, rfl⟩; exact ⟨p.2, hp⟩
  · rintro ⟨s, hs⟩; exact ⟨(id, s), hs, rfl⟩

theorem kc_eq_zero_iff (id : SlabID) (L : List (SlabID × β)) : kc id L = 0 ↔ id ∉ AList.keys L := by
  rw [← kc_pos_iff]; omega

theorem nodup_keys_iff (L : List (SlabID × β)) : (AList.keys L).Nodup ↔ ∀ id, kc id L ≤ 1 := by
  induction L with
  | nil => simp [AList.keys]
  | cons p L ih =>
    rw [keys_cons', List.nodup_cons, ih]
    constructor
    · rintro ⟨h1, h2⟩ id
      rw [kc_cons]
      split
      · rename_i he; subst he
        have := (kc_eq_zero_iff p.1 L).2 h1
        omega
      · have := h2 id; omega
    · intro h
      constructor
      · intro hm
        have h1 := (kc_pos_iff p.1 L).2 hm
        have h2 := h p.1
        rw [kc_cons, if_pos rfl] at h2
        omega
      · intro id
        have := h id
        rw [kc_cons] at this
        omega

theorem kc_flatMap_cons {α : Type} (id : SlabID) (f : α → List (SlabID × β)) (x : α) (X : List α) :
    kc id ((x :: X).flatMap f) = kc id (f x) + kc id (X.flatMap f) := by
  rw [List.flatMap_cons, kc_append]

end kc

/-- two lists of slabs with the same entries and the same key multiplicities -/
def Same {β : Type} (W S : List (SlabID × β)) : Prop :=
  (∀ p, p ∈ W ↔ p ∈ S) ∧ ∀ id, kc id W = kc id S

theorem Same.refl {β : Type} (S : List (SlabID × β)) : Same S S := ⟨fun _ => Iff.rfl, fun _ => rfl⟩

theorem Same.of_perm {β : Type} {W S : List (SlabID × β)} (h : W.Perm S) : Same W S :=
  ⟨fun _ => h.mem_iff, fun _ => h.countP_eq _⟩

theorem Same.keys {β : Type} {W S : List (SlabID × β)} (h : Same W S) (id : SlabID) :
    id ∈ AList.keys W ↔ id ∈ AList.keys S := by
  rw [← kc_pos_iff, ← kc_pos_iff, h.2 id]

/-! ### logs with owner address -/

/-- `Log`, and every allocation is for the address `a` -/
structure MLog (a : Nat) (c c' : Ctx) (E : List Eff) (C : List (SlabID × Elem)) : Prop extends Log c c' E C where
  addr : ∀ ad id, Eff.alloc ad id ∈ E → id.addr = a

namespace MLog

theorem refl (a : Nat) (c : Ctx) : MLog a c c [] [] := ⟨Log.refl c, by simp⟩

theorem trans {a : Nat} {c c1 c2 : Ctx} {E1 E2 : List Eff} {C1 C2 : List (SlabID × Elem)}
    (h1 : MLog a c c1 E1 C1) (h2 : MLog a c1 c2 E2 C2) : MLog a c c2 (E1 ++ E2) (C1 ++ C2) := by
  refine ⟨h1.toLog.trans h2.toLog, ?_⟩
  intro ad id hm
  rcases List.mem_append.1 hm with h | h
  · exact h1.addr ad id h
  · exact h2.addr ad id h

theorem store (a : Nat) (c : Ctx) (i : SlabID) : MLog a c (c.emit (.store i)) [.store i] [] :=
  ⟨Log.store c i, by simp⟩

theorem remove (a : Nat) (c : Ctx) (i : SlabID) : MLog a c (c.emit (.remove i)) [.remove i] [] :=
  ⟨Log.remove c i, by simp⟩

theorem alloc (a : Nat) (c : Ctx) : MLog a c (c.alloc a).2 [.alloc a ⟨a, c.ctr + 1⟩] [] := by
  refine ⟨Log.alloc c a, ?_⟩
  intro ad id h
  simp only [List.mem_singleton, Eff.alloc.injEq] at h
  obtain ⟨_, rfl⟩ := h
  rfl

theorem of_eq {a : Nat} {c c' c'' : Ctx} {E : List Eff} {C : List (SlabID × Elem)} (h : MLog a c c' E C)
    (he : c'' = c') : MLog a c c'' E C := he ▸ h

end MLog

/-! ### complete accounts -/

/-- `E` accounts for the change from the slabs `S` to the slabs `S'`; `a` is the owner address,
    `c`/`c'` the allocation counter before/after, `cr` the large-value slabs created meanwhile. -/
structure MAcct {β : Type} (a c c' : Nat) (S S' : List (SlabID × β)) (E : List Eff) (cr : List SlabID) : Prop where
  le : c ≤ c'
  kept : ∀ p ∈ S', p ∈ S ∨ lastAction E p.1 = some true
  gone : ∀ id ∈ AList.keys S, id ∉ AList.keys S' → lastAction E id = some false
  stored : ∀ id, lastAction E id = some true → id ∈ AList.keys S' ∨ id ∈ cr
  removed : ∀ id, lastAction E id = some false → id ∉ AList.keys S'
  foot : ∀ id, lastAction E id ≠ none → id ∈ AList.keys S ∨ Fresh a c c' id
  fresh : ∀ id ∈ cr, Fresh a c c' id
  cnt : ∀ id, kc id S' ≤ kc id S ∨ (Fresh a c c' id ∧ kc id S' ≤ 1)

namespace MAcct
variable {β : Type} {a c c' : Nat}

/-- nothing happened -/
theorem refl (a c : Nat) (S : List (SlabID × β)) : MAcct a c c S S [] [] :=
  ⟨Nat.le_refl _, fun _ h => Or.inl h, fun _ h h' => absurd h h', by simp, by simp, by simp, by simp,
    fun _ => Or.inl (Nat.le_refl _)⟩

/-- only membership and multiplicities matter -/
theorem congr {S S' W W' : List (SlabID × β)} {E : List Eff} {cr : List SlabID}
    (h : MAcct a c c' S S' E cr) (hS : Same W S) (hS' : Same W' S') : MAcct a c c' W W' E cr := by
  have k1 := hS.keys
  have k2 := hS'.keys
  refine ⟨h.le, ?_, ?_, ?_, ?_, ?_, h.fresh, ?_⟩
  · intro p hp
    rcases h.kept p ((hS'.1 p).1 hp) with h1 | h1
    · exact Or.inl ((hS.1 p).2 h1)
    · exact Or.inr h1
  · intro id h1 h2
    exact h.gone id ((k1 id).1 h1) (fun h3 => h2 ((k2 id).2 h3))
  · intro id h1
    rcases h.stored id h1 with h2 | h2
    · exact Or.inl ((k2 id).2 h2)
    · exact Or.inr h2
  · intro id h1 h2
    exact h.removed id h1 ((k2 id).1 h2)
  · intro id h1
    rcases h.foot id h1 with h2 | h2
    · exact Or.inl ((k1 id).2 h2)
    · exact Or.inr h2
  · intro id
    rw [hS.2 id, hS'.2 id]
    exact h.cnt id

/-- the keys of the new slabs are old keys or fresh -/
theorem keys_new {S S' : List (SlabID × β)} {E : List Eff} {cr : List SlabID}
    (h : MAcct a c c' S S' E cr) : ∀ id ∈ AList.keys S', id ∈ AList.keys S ∨ Fresh a c c' id := by
  intro id hid
  obtain ⟨s, hs⟩ := (mem_keys_iff S' id).1 hid
  rcases h.kept (id, s) hs with h1 | h1
  · exact Or.inl (mem_keys_of_mem h1)
  · exact h.foot id (by rw [h1]; simp)

/-- distinctness of the IDs is preserved -/
theorem nodup {S S' : List (SlabID × β)} {E : List Eff} {cr : List SlabID}
    (h : MAcct a c c' S S' E cr) (hnd : (AList.keys S).Nodup) : (AList.keys S').Nodup := by
  rw [nodup_keys_iff] at hnd ⊢
  intro id
  rcases h.cnt id with h1 | h1
  · have := hnd id; omega
  · exact h1.2

/-- the IDs stay below the counter -/
theorem old {S S' : List (SlabID × β)} {E : List Eff} {cr : List SlabID}
    (h : MAcct a c c' S S' E cr) (ho : ∀ id ∈ AList.keys S, Old a c id) :
    ∀ id ∈ AList.keys S', Old a c' id := by
  intro id hid
  rcases h.keys_new id hid with h1 | h1
  · exact (ho id h1).mono h.le
  · exact h1.old

/-- slabs `F` that the operation does not touch -/
theorem frame {S S' : List (SlabID × β)} {E : List Eff} {cr : List SlabID}
    (h : MAcct a c c' S S' E cr) (F : List (SlabID × β))
    (hF : ∀ id ∈ AList.keys F, id ∉ AList.keys S ∧ Old a c id) :
    MAcct a c c' (S ++ F) (S' ++ F) E cr := by
  refine ⟨h.le, ?_, ?_, ?_, ?_, ?_, h.fresh, ?_⟩
  · intro p hp
    rcases List.mem_append.1 hp with h1 | h1
    · rcases h.kept p h1 with h2 | h2
      · exact Or.inl (List.mem_append.2 (Or.inl h2))
      · exact Or.inr h2
    · exact Or.inl (List.mem_append.2 (Or.inr h1))
  · intro id h1 h2
    rw [keys_append, List.mem_append] at h1 h2
    rcases h1 with h3 | h3
    · exact h.gone id h3 (fun h4 => h2 (Or.inl h4))
    · exact absurd (Or.inr h3) h2
  · intro id h1
    rcases h.stored id h1 with h2 | h2
    · exact Or.inl (by rw [keys_append]; exact List.mem_append.2 (Or.inl h2))
    · exact Or.inr h2
  · intro id h1 h2
    rw [keys_append, List.mem_append] at h2
    rcases h2 with h3 | h3
    · exact h.removed id h1 h3
    · have hf := hF id h3
      rcases h.foot id (by rw [h1]; simp) with h4 | h4
      · exact hf.1 h4
      · exact h4.not_old hf.2
  · intro id h1
    rcases h.foot id h1 with h2 | h2
    · exact Or.inl (by rw [keys_append]; exact List.mem_append.2 (Or.inl h2))
    · exact Or.inr h2
  · intro id
    rw [kc_append, kc_append]
    rcases h.cnt id with h1 | h1
    · left; omega
    · right
      refine ⟨h1.1, ?_⟩
      have : kc id F = 0 := by
        rw [kc_eq_zero_iff]
        intro hm
        exact h1.1.not_old (hF id hm).2
      omega

/-- frame on both sides -/
theorem frame_mid {S S' : List (SlabID × β)} {E : List Eff} {cr : List SlabID}
    (h : MAcct a c c' S S' E cr) (F1 F2 : List (SlabID × β))
    (hF : ∀ id ∈ AList.keys F1 ++ AList.keys F2, id ∉ AList.keys S ∧ Old a c id) :
    MAcct a c c' (F1 ++ S ++ F2) (F1 ++ S' ++ F2) E cr := by
  refine (h.frame (F1 ++ F2) (by rw [keys_append]; exact hF)).congr ?_ ?_
  · exact ⟨fun p => by simp only [List.mem_append]; grind, fun id => by simp only [kc_append]; omega⟩
  · exact ⟨fun p => by simp only [List.mem_append]; grind, fun id => by simp only [kc_append]; omega⟩

/-- one step after the other -/
theorem trans {c1 c2 : Nat} {S S1 S2 : List (SlabID × β)} {E1 E2 : List Eff} {cr1 cr2 : List SlabID}
    (h1 : MAcct a c c1 S S1 E1 cr1) (h2 : MAcct a c1 c2 S1 S2 E2 cr2)
    (hS : ∀ id ∈ AList.keys S, Old a c id) : MAcct a c c2 S S2 (E1 ++ E2) (cr1 ++ cr2) := by
  have hc := h1.le
  have hc' := h2.le
  refine ⟨Nat.le_trans hc hc', ?_, ?_, ?_, ?_, ?_, ?_, ?_⟩
  · intro p hp
    rcases h2.kept p hp with h3 | h3
    · cases hl : lastAction E2 p.1 with
      | none =>
        rw [lastAction_append_none hl]
        exact h1.kept p h3
      | some b =>
        cases b with
        | true => exact Or.inr (lastAction_append_some hl)
        | false => exact absurd (mem_keys_of_mem hp) (h2.removed p.1 hl)
    · exact Or.inr (lastAction_append_some h3)
  · intro id hid hid2
    by_cases hm : id ∈ AList.keys S1
    · exact lastAction_append_some (h2.gone id hm hid2)
    · have hg := h1.gone id hid hm
      cases hl : lastAction E2 id with
      | none => rw [lastAction_append_none hl]; exact hg
      | some b =>
        cases b with
        | false => exact lastAction_append_some hl
        | true =>
          rcases h2.stored id hl with h3 | h3
          · exact absurd h3 hid2
          · exact absurd ((hS id hid).mono hc) (fun ho => (h2.fresh id h3).not_old ho)
  · intro id hid
    cases hl : lastAction E2 id with
    | none =>
      rw [lastAction_append_none hl] at hid
      rcases h1.stored id hid with h3 | h3
      · by_cases hm : id ∈ AList.keys S2
        · exact Or.inl hm
        · have := h2.gone id h3 hm
          rw [hl] at this; cases this
      · exact Or.inr (List.mem_append.2 (Or.inl h3))
    | some b =>
      rw [lastAction_append_some hl] at hid
      cases hid
      rcases h2.stored id hl with h3 | h3
      · exact Or.inl h3
      · exact Or.inr (List.mem_append.2 (Or.inr h3))
  · intro id hid hm
    cases hl : lastAction E2 id with
    | none =>
      rw [lastAction_append_none hl] at hid
      obtain ⟨s, hs⟩ := (mem_keys_iff S2 id).1 hm
      rcases h2.kept (id, s) hs with h3 | h3
      · exact h1.removed id hid (mem_keys_of_mem h3)
      · rw [hl] at h3; cases h3
    | some b =>
      rw [lastAction_append_some hl] at hid
      cases hid
      exact h2.removed id hl hm
  · intro id hid
    cases hl : lastAction E2 id with
    | none =>
      rw [lastAction_append_none hl] at hid
      rcases h1.foot id hid with h3 | h3
      · exact Or.inl h3
      · exact Or.inr (h3.mono_right hc')
    | some b =>
      rcases h2.foot id (by rw [hl]; simp) with h3 | h3
      · rcases h1.keys_new id h3 with h4 | h4
        · exact Or.inl h4
        · exact Or.inr (h4.mono_right hc')
      · exact Or.inr (h3.mono_left hc)
  · intro id hid
    rcases List.mem_append.1 hid with h3 | h3
    · exact (h1.fresh id h3).mono_right hc'
    · exact (h2.fresh id h3).mono_left hc
  · intro id
    rcases h2.cnt id with h3 | h3
    · rcases h1.cnt id with h4 | h4
      · left; omega
      · right; exact ⟨h4.1.mono_right hc', by omega⟩
    · right; exact ⟨h3.1.mono_left hc, h3.2⟩

/-- an explicit list of rewritten / dropped slabs -/
theorem basic {N N' : List (SlabID × β)} {E : List Eff} (hle : c ≤ c')
    (hst : ∀ p ∈ N', lastAction E p.1 = some true)
    (hrm : ∀ id ∈ AList.keys N, id ∉ AList.keys N' → lastAction E id = some false)
    (hE : ∀ id, lastAction E id = some true → id ∈ AList.keys N')
    (hE' : ∀ id, lastAction E id = some false → id ∈ AList.keys N ∧ id ∉ AList.keys N')
    (hcnt : ∀ id, kc id N' ≤ kc id N ∨ (Fresh a c c' id ∧ kc id N' ≤ 1)) : MAcct a c c' N N' E [] := by
  refine ⟨hle, fun p hp => Or.inr (hst p hp), hrm, fun id h => Or.inl (hE id h),
    fun id h => (hE' id h).2, ?_, by simp, hcnt⟩
  intro id h
  cases hl : lastAction E id with
  | none => exact absurd hl h
  | some b =>
    cases b with
    | true =>
      have h1 := hE id hl
      rcases hcnt id with h2 | h2
      · left
        rw [← kc_pos_iff] at h1 ⊢
        omega
      · exact Or.inr h2.1
    | false => exact Or.inl (hE' id hl).1

/-- a log of stores (and allocations) that rewrites the slabs `N` into `N'` -/
theorem of_stores {N N' : List (SlabID × β)} {E : List Eff} (hle : c ≤ c')
    (hno : ∀ e ∈ E, ∀ i, e ≠ .remove i)
    (hst : ∀ id, Eff.store id ∈ E ↔ id ∈ AList.keys N')
    (hsub : ∀ id ∈ AList.keys N, id ∈ AList.keys N')
    (hcnt : ∀ id, kc id N' ≤ kc id N ∨ (Fresh a c c' id ∧ kc id N' ≤ 1)) : MAcct a c c' N N' E [] := by
  refine basic hle ?_ ?_ ?_ ?_ hcnt
  · intro p hp
    exact ((lastAction_no_remove E hno p.1).1).2 ((hst p.1).2 (mem_keys_of_mem hp))
  · intro id h1 h2; exact absurd (hsub id h1) h2
  · intro id h; exact (hst id).1 (((lastAction_no_remove E hno id).1).1 h)
  · intro id h; exact absurd h (lastAction_no_remove E hno id).2

/-- stores, then the removal of one slab -/
theorem of_stores_remove {N N' : List (SlabID × β)} {E : List Eff} {x : SlabID}
    (hno : ∀ e ∈ E, ∀ i, e ≠ .remove i)
    (hst : ∀ id, Eff.store id ∈ E ↔ id ∈ AList.keys N')
    (hx : x ∉ AList.keys N')
    (hN : ∀ id, id ∈ AList.keys N ↔ id = x ∨ id ∈ AList.keys N')
    (hcnt : ∀ id, kc id N' ≤ kc id N) :
    MAcct a c c N N' (E ++ [.remove x]) [] := by
  have hla : ∀ id, lastAction (E ++ [.remove x]) id
      = if x = id then some false else lastAction E id := lastAction_concat_remove E x
  refine basic (Nat.le_refl _) ?_ ?_ ?_ ?_ (fun id => Or.inl (hcnt id))
  · intro p hp
    have hk := mem_keys_of_mem hp
    have hne : ¬ x = p.1 := fun h => hx (h ▸ hk)
    rw [hla, if_neg hne]
    exact ((lastAction_no_remove E hno p.1).1).2 ((hst p.1).2 hk)
  · intro id h1 h2
    rcases (hN id).1 h1 with h3 | h3
    · rw [hla, if_pos h3.symm]
    · exact absurd h3 h2
  · intro id h
    rw [hla] at h
    split at h
    · cases h
    · exact (hst id).1 (((lastAction_no_remove E hno id).1).1 h)
  · intro id h
    rw [hla] at h
    split at h
    · rename_i hxi; subst hxi
      exact ⟨(hN x).2 (Or.inl rfl), hx⟩
    · exact absurd h (lastAction_no_remove E hno id).2

/-- storing once more a slab that is in the tree -/
theorem then_store {S S' : List (SlabID × β)} {E : List Eff} {cr : List SlabID}
    (h : MAcct a c c' S S' E cr) (id : SlabID) (hid : id ∈ AList.keys S')
    (hS : ∀ id ∈ AList.keys S, Old a c id) : MAcct a c c' S S' (E ++ [.store id]) cr := by
  have h2 : MAcct a c' c' S' S' [.store id] [] := by
    refine ⟨Nat.le_refl _, fun _ h => Or.inl h, fun _ h h' => absurd h h', ?_, ?_, ?_, by simp,
      fun _ => Or.inl (Nat.le_refl _)⟩
    · intro j hj
      rw [lastAction_single] at hj
      simp only [actStep] at hj
      split at hj
      · rename_i e; subst e; exact Or.inl hid
      · cases hj
    · intro j hj
      rw [lastAction_single] at hj
      simp only [actStep] at hj
      split at hj <;> cases hj
    · intro j hj
      rw [lastAction_single] at hj
      simp only [actStep] at hj
      split at hj
      · rename_i e; subst e; exact Or.inl hid
      · exact absurd rfl hj
  simpa using h.trans h2 hS

/-- the slab `rid` on top of the slabs `G` is rewritten (and stored last) -/
theorem with_root {G G' : List (SlabID × β)} {E : List Eff} {cr : List SlabID}
    (h : MAcct a c c' G G' E cr) (rid : SlabID) (e e' : β)
    (hr : rid ∉ AList.keys G) (ho : Old a c rid) (hG : ∀ id ∈ AList.keys G, Old a c id) :
    MAcct a c c' ((rid, e) :: G) ((rid, e') :: G') (E ++ [.store rid]) cr := by
  have h1 : MAcct a c c' (G ++ [(rid, e)]) (G' ++ [(rid, e)]) E cr := by
    refine h.frame _ ?_
    intro id hid
    simp only [AList.keys, List.map_cons, List.map_nil, List.mem_singleton] at hid
    subst hid
    exact ⟨hr, ho⟩
  have hr' : rid ∉ AList.keys G' := by
    intro hm
    rcases h.keys_new rid hm with h3 | h3
    · exact hr h3
    · exact h3.not_old ho
  have h2 : MAcct a c' c' (G' ++ [(rid, e)]) (G' ++ [(rid, e')]) [.store rid] [] := by
    have h3 : MAcct a c' c' [(rid, e)] [(rid, e')] [.store rid] ([] : List SlabID) := by
      refine of_stores (Nat.le_refl _) (by simp) ?_ ?_ ?_
      · intro id; simp [AList.keys]
      · intro id; simp [AList.keys]
      · intro id; left; simp [kc_cons]
    have := h3.frame_mid G' [] (by
      intro id hid
      simp only [AList.keys, List.map_nil, List.append_nil] at hid
      refine ⟨?_, h.old hG id hid⟩
      simp only [AList.keys, List.map_cons, List.map_nil, List.mem_singleton]
      intro he; subst he; exact hr' hid)
    simpa using this
  have h3 := h1.trans h2 (by
    intro id hid
    rw [keys_append] at hid
    rcases List.mem_append.1 hid with h4 | h4
    · exact hG id h4
    · simp only [AList.keys, List.map_cons, List.map_nil, List.mem_singleton] at h4
      subst h4; exact ho)
  refine (by simpa using h3 : MAcct a c c' (G ++ [(rid, e)]) (G' ++ [(rid, e')]) (E ++ [.store rid]) cr).congr ?_ ?_
  · exact ⟨fun p => by simp only [List.mem_append, List.mem_cons, List.not_mem_nil]; grind,
      fun id => by simp only [kc_append, kc_cons, kc_nil]; omega⟩
  · exact ⟨fun p => by simp only [List.mem_append, List.mem_cons, List.not_mem_nil]; grind,
      fun id => by simp only [kc_append, kc_cons, kc_nil]; omega⟩

end MAcct

end Atree
