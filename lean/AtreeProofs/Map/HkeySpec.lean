import AtreeProofs.Map.HkeySet
import AtreeProofs.Map.HkeyRemove
import AtreeProofs.Map.SingleLemmas
/-
  `OpsSpec` is inherited by `HkeyElems.ops`; hence `MElems.ops r` satisfies it for every `r`.
-/
namespace Atree
open Gen

namespace HInv
variable {T L : Nat} {D : DigestFn L} {cfg : MCfg} {α : Type} {o : ElemsOps α}
  {Inv : Nat → List Nat → α → Prop} {rr : Nat}

theorem opsStruct (S : OpsStruct T L D o Inv rr) :
    OpsStruct T L D (HkeyElems.ops o) (HInv T L D o Inv rr) (rr + 1) where
  level_eq := by intro ℓ path e H; have := H.1; omega
  keys := by intro ℓ path e H; exact H.keys S
  distinct := by intro ℓ path e H; exact H.distinct S
  ordered := by intro ℓ path e H; exact H.ordered S
  count_pos := by intro ℓ path e H; exact H.count_pos S
  two_keys := by
    intro ℓ path e H h1 h2
    show 2 ≤ (HkeyElems.toList o e).length
    have h1' : 1 ≤ e.elems.length := h1
    have h2' : (match e.elems with | [.single x] => some x | _ => none) = none := h2
    have hle := H.length_le_toList S
    rcases hel : e.elems with _ | ⟨a, _ | ⟨b, l⟩⟩
    · rw [hel] at h1'; simp at h1'
    · rw [hel] at h2'
      have h0 : e.elems[0]? = some a := by rw [hel]; rfl
      obtain ⟨hk, hhk⟩ := H.hkey_at h0
      have hEl := H.elemOk hhk h0
      have ht : HkeyElems.toList o e = a.toList o := by simp [HkeyElems.toList, hel]
      rw [ht]
      cases a with
      | single x => simp at h2'
      | inl g => exact S.two_keys hEl.1 hEl.2.1 hEl.2.2.1
      | ext id sz s => exact S.two_keys hEl.2.2.2.2.2.1 hEl.2.2.2.2.2.2.1 hEl.2.2.2.2.2.2.2
    · rw [hel] at hle; simp at hle; omega
  sole := by
    intro ℓ path e x H hs
    have hs' : (match e.elems with | [.single x] => some x | _ => none) = some x := hs
    rcases hel : e.elems with _ | ⟨a, _ | ⟨b, l⟩⟩
    · rw [hel] at hs'; simp at hs'
    · rw [hel] at hs'
      cases a with
      | single y =>
        simp at hs'; subst hs'
        have h0 : e.elems[0]? = some (.single y) := by rw [hel]; rfl
        obtain ⟨hk, hhk⟩ := H.hkey_at h0
        have hEl := H.elemOk hhk h0
        refine ⟨hEl.1, by simp [HkeyElems.ops, HkeyElems.toList, hel, MElemF.toList], ?_⟩
        show y.size ≤ e.size
        rw [H.size_eq, hel]; simp [HkeyElems.elemSizes, MElemF.size]; omega
      | inl g => simp at hs'
      | ext id sz s => simp at hs'
    · rw [hel] at hs'; simp at hs'
  popIter := by intro e c; exact HInv.popIter_fst S e c

theorem opsSpec (S : OpsSpec T L D cfg o Inv rr) (hT : legalThreshold T = true) (hc : CfgFor cfg T L) :
    OpsSpec T L D cfg (HkeyElems.ops o) (HInv T L D o Inv rr) (rr + 1) where
  toOpsStruct := opsStruct S.toOpsStruct
  newWith := by
    intro ℓ path x hℓ hx hp
    have hlev : ¬ (ℓ ≥ cfg.L) := by rw [hc.hL]; omega
    refine ⟨{ level := ℓ, hkeys := [x.key.dig ℓ], elems := [.single x],
              size := hkeyElementsPrefixSize + digestSize + x.size }, ?_, ?_, ?_⟩
    · show (if ℓ ≥ cfg.L then _ else _) = _
      rw [if_neg hlev]
    · refine ⟨by omega, rfl, rfl, by simp, ?_, ?_⟩
      · simp [HkeyElems.elemSizes, MElemF.size]; omega
      · intro i hk el hi hel
        cases i with
        | zero =>
          simp at hi hel; subst hi; subst hel
          exact ⟨hx, by rw [hx.1.take_succ (by omega), hp]⟩
        | succ i => simp at hi
    · simp [HkeyElems.ops, HkeyElems.toList, MElemF.toList]
  get := by intro ℓ path e k H hk hp; exact H.get S hc hk hp
  set := by
    intro ℓ path e k v c H h1 hk hp hv
    have hnl : ¬ Limited o cfg e ℓ k := by rintro ⟨h0, _⟩; omega
    obtain ⟨res, hres, hpost⟩ := (H.set S hT hc hk hp hv c).2 hnl
    obtain ⟨rk, old, e', c'⟩ := res
    obtain ⟨h1, h2, h3, h4, _⟩ := hpost
    simp only at h1 h2 h3 h4
    subst h1
    exact ⟨old, e', c', hres, h2, h3, h4⟩
  remove := by
    intro ℓ path e k c H h1 hk hp
    obtain ⟨hr1, hr2⟩ := H.remove S hT hc hk hp c
    refine ⟨hr1, ?_⟩
    intro v hm
    obtain ⟨res, hres, hpost⟩ := hr2 v hm
    obtain ⟨rk, rv, e', c'⟩ := res
    obtain ⟨h1', h2, h3, h4, h5, _, _, h6, _⟩ := hpost
    simp only at h1' h2 h3 h4 h5 h6
    subst h1' h2
    exact ⟨e', c', hres, h3, h4, h6 h1, h5⟩

end HInv

/-- the invariant of `MElems r` as a predicate usable with `OpsSpec` -/
theorem elemsInv_succ_eq (T L : Nat) (D : DigestFn L) (r : Nat) :
    ElemsInv T L D (r + 1) = HInv T L D (MElems.ops r) (ElemsInv T L D r) r := by
  funext ℓ path he
  exact propext (elemsInv_succ_iff T L D r ℓ path he)

theorem MElems.opsStruct (T : Nat) {L : Nat} (D : DigestFn L) :
    ∀ r, OpsStruct T L D (MElems.ops r) (ElemsInv T L D r) r
  | 0 => SingleElems.opsStruct
  | r + 1 => by
    rw [elemsInv_succ_eq]
    exact HInv.opsStruct (MElems.opsStruct T D r)

theorem MElems.opsSpec {T L : Nat} (D : DigestFn L) {cfg : MCfg} (hT : legalThreshold T = true)
    (hc : CfgFor cfg T L) : ∀ r, OpsSpec T L D cfg (MElems.ops r) (ElemsInv T L D r) r
  | 0 => SingleElems.opsSpec hT hc
  | r + 1 => by
    rw [elemsInv_succ_eq]
    exact HInv.opsSpec (MElems.opsSpec D hT hc r) hT hc

end Atree
