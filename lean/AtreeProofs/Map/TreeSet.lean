import AtreeProofs.Map.TreeGet
/-
  `MTree.set` by induction on the depth.
-/
namespace Atree
open Gen

variable {T : Nat} {r : Nat} {D : DigestFn (r + 1)} {d : Nat} {cfg : MCfg}

theorem LeafRel.trans {a b c : List (MDataSlab r)} (h1 : LeafRel a b) (h2 : LeafRel b c) : LeafRel a c :=
  ⟨h1.1, h2.2.1, fun dflt => by rw [h2.2.2.1, h1.2.2.1], fun nxt h => h2.2.2.2 nxt (h1.2.2.2 nxt h)⟩

theorem leaf_hkeys_sub : ∀ (d : Nat) (t : MTree r d) (s : MDataSlab r), s ∈ MTree.leaves d t →
    ∀ x ∈ s.elems.hkeys, x ∈ MTree.digests0 d t
  | 0, t, s, hs, x, hx => by
    have : s = t := List.mem_singleton.mp hs
    subst this; exact hx
  | d + 1, m, s, hs, x, hx => by
    obtain ⟨c, hc, hsc⟩ := List.mem_flatMap.mp hs
    exact List.mem_flatMap.mpr ⟨c, hc, leaf_hkeys_sub d c s hsc x hx⟩

/-- the collision limit refuses the insertion of `k` somewhere in the subtree -/
def TLimited (cfg : MCfg) (d : Nat) (t : MTree r d) (k : MKey) : Prop :=
  ∃ s ∈ MTree.leaves d t, Limited (MElems.ops r) cfg s.elems 0 k

theorem Limited.dig_mem {s : MDataSlab r} {k : MKey} (h : Limited (MElems.ops r) cfg s.elems 0 k) :
    k.dig 0 ∈ s.elems.hkeys := by
  obtain ⟨_, i, el, hi, _⟩ := h
  exact List.mem_of_getElem? hi

theorem tlimited_routed {m : MMetaSlab (MTree r d)} {k : MKey} {i : Nat} {A B : List (MTree r d)}
    {child : MTree r d} (hr : Routed d m (k.dig 0) i A child B) :
    TLimited cfg (d + 1) m k ↔ TLimited cfg d child k := by
  constructor
  · rintro ⟨s, hs, hl⟩
    have hdig := hl.dig_mem
    rw [MTree.leaves_succ, hr.ch] at hs
    simp only [List.flatMap_append, List.flatMap_cons, List.mem_append] at hs
    rcases hs with hs | hs | hs
    · exfalso
      obtain ⟨c, hc, hsc⟩ := List.mem_flatMap.mp hs
      have := hr.lo _ (List.mem_flatMap.mpr ⟨c, hc, leaf_hkeys_sub d c s hsc _ hdig⟩)
      omega
    · exact ⟨s, hs, hl⟩
    · exfalso
      obtain ⟨c, hc, hsc⟩ := List.mem_flatMap.mp hs
      have := hr.hi _ (List.mem_flatMap.mpr ⟨c, hc, leaf_hkeys_sub d c s hsc _ hdig⟩)
      omega
  · rintro ⟨s, hs, hl⟩
    refine ⟨s, ?_, hl⟩
    rw [MTree.leaves_succ, hr.ch]
    simp only [List.flatMap_append, List.flatMap_cons, List.mem_append]
    exact Or.inr (Or.inl hs)

/-- the slack a subtree gains in one update -/
def slack1 (T : Nat) : Nat → Nat
  | 0 => maxEntry T
  | _ + 1 => mapSlabHeaderSize

theorem slack1_le (T d : Nat) : slack1 T d ≤ slack T d := by
  cases d <;> simp [slack1, slack]

/-- `inlined` flag of a tree (only a root data slab can be inlined) -/
def treeInl : (d : Nat) → MTree r d → Bool
  | 0, (s : MDataSlab r) => s.inlined
  | _ + 1, _ => false

/-- postcondition of a successful `MTree.set` -/
structure TSetPost (T : Nat) (D : DigestFn (r + 1)) (d : Nat) (top : Bool) (t t' : MTree r d) (k : MKey)
    (sv : Elem) (old : Option Elem) (c c' : Ctx) : Prop where
  sinv : SInv T D d top t'
  size_le : (MTree.hdr d t').size ≤ (MTree.hdr d t).size + slack1 T d
  eff : SetEffect (MTree.toList d t) (MTree.toList d t') k sv old
  ctr : c.ctr ≤ c'.ctr
  ids : ∀ id ∈ CtxOk.mapSlabIds d t', id ∈ CtxOk.mapSlabIds d t ∨ id.idx ≤ c'.ctr
  digs : ∀ x ∈ MTree.digests0 d t', x ∈ MTree.digests0 d t ∨ x = k.dig 0
  id_eq : (MTree.hdr d t').id = (MTree.hdr d t).id
  leaves : LeafRel (MTree.leaves d t) (MTree.leaves d t')
  inl : treeInl d t' = treeInl d t

theorem sorted_replace {A B : List (MTree r d)} {child child' : MTree r d} {hkey : Nat}
    (hs : (dgs (A ++ child :: B)).Pairwise (· < ·)) (hs' : (MTree.digests0 d child').Pairwise (· < ·))
    (hsub : ∀ x ∈ MTree.digests0 d child', x ∈ MTree.digests0 d child ∨ x = hkey)
    (hlo : ∀ a ∈ dgs A, a < hkey) (hhi : ∀ b ∈ dgs B, hkey < b) :
    (dgs (A ++ child' :: B)).Pairwise (· < ·) := by
  simp only [dgs, List.flatMap_append, List.flatMap_cons] at hs ⊢
  rw [List.pairwise_append] at hs ⊢
  obtain ⟨h1, h2, h3⟩ := hs
  rw [List.pairwise_append] at h2 ⊢
  obtain ⟨h4, h5, h6⟩ := h2
  refine ⟨h1, ⟨hs', h5, ?_⟩, ?_⟩
  · intro a ha b hb
    rcases hsub a ha with h | h
    · exact h6 a h b hb
    · rw [h]; exact hhi b hb
  · intro a ha b hb
    rcases List.mem_append.mp hb with hb | hb
    · rcases hsub b hb with h | h
      · exact h3 a ha b (List.mem_append_left _ h)
      · rw [h]; exact hlo a ha
    · exact h3 a ha b (List.mem_append_right _ hb)

theorem set_spec_zero (hT : legalThreshold T = true) (hc : CfgFor cfg T (r + 1)) {top : Bool} (s : MDataSlab r)
    (hs : MDataLoose T D top s) {k : MKey} (hk : KeyOk T (r + 1) D k) {v : Elem} (hv : ValueOkM v) (c : Ctx) :
    (TLimited cfg 0 s k → MTree.set cfg 0 s k v c = .error .collisionLimit) ∧
    (¬ TLimited cfg 0 s k → ∃ old t' c', MTree.set cfg 0 s k v c = .ok (k, old, t', c') ∧
      TSetPost T D 0 top s t' k (storedValue cfg k v c) old c c') := by
  have hiff : TLimited cfg 0 s k ↔ Limited (MElems.ops r) cfg s.elems 0 k := by
    constructor
    · rintro ⟨s', hs', hl⟩
      have : s' = s := by simpa [MTree.leaves] using hs'
      subst this; exact hl
    · intro hl; exact ⟨s, by simp [MTree.leaves], hl⟩
  obtain ⟨h1, h2⟩ := MDataSlab.set_spec hT hc hs hk hv c
  constructor
  · intro hl; exact h1 (hiff.mp hl)
  · intro hnl
    obtain ⟨old, s', c', heq, hp⟩ := h2 (fun h => hnl (hiff.mpr h))
    refine ⟨old, s', c', heq, ⟨hp.loose, hp.size_le, hp.eff, hp.ctr, ?_, hp.hk_new, hp.id_eq, ?_, hp.inl_eq⟩⟩
    · intro id hid
      rw [mapSlabIds_zero] at hid ⊢
      rcases List.mem_cons.mp hid with h | h
      · left; rw [h, hp.id_eq]; exact List.mem_cons_self
      · rcases hp.ids id h with h' | h'
        · left; exact List.mem_cons_of_mem _ h'
        · right; exact h'
    · show LeafRel [s] [s']
      refine ⟨by simp, by simp, fun _ => ?_, fun nxt h => ?_⟩
      · simp only [firstId]; exact hp.id_eq
      · simp only [ChainTo] at h ⊢; rw [hp.next_eq]; exact h

theorem set_spec_succ (hT : legalThreshold T = true) (hcT : cfg.T = T) {top : Bool} (m : MMetaSlab (MTree r d))
    (hm : MetaLoose T D d top m) (h2 : 2 ≤ m.children.length) {k : MKey} {v : Elem} {sv : Elem} (c : Ctx)
    (ih : ∀ ch ∈ m.children,
      (TLimited cfg d ch k → MTree.set cfg d ch k v c = .error .collisionLimit) ∧
      (¬ TLimited cfg d ch k → ∃ old t' c', MTree.set cfg d ch k v c = .ok (k, old, t', c') ∧
        TSetPost T D d false ch t' k sv old c c')) :
    (TLimited cfg (d + 1) m k → MTree.set cfg (d + 1) m k v c = .error .collisionLimit) ∧
    (¬ TLimited cfg (d + 1) m k → ∃ old t' c', MTree.set cfg (d + 1) m k v c = .ok (k, old, t', c') ∧
      TSetPost T D (d + 1) top m t' k sv old c c') := by
  have hroute := route hT hm (by omega) (k.dig 0)
  have hidx : (MMetaSlab.findChild m.childHdrs (k.dig 0) 0 m.childHdrs.length (some 0) (m.childHdrs.length + 1)).getD 0
      = (MMetaSlab.findChild m.childHdrs (k.dig 0) 0 m.childHdrs.length none (m.childHdrs.length + 1)).getD 0 := by
    rw [MMetaSlab.findChild_some0]; rfl
  obtain ⟨i, A, child, B, hi, hrt⟩ : ∃ i A child B,
      (MMetaSlab.findChild m.childHdrs (k.dig 0) 0 m.childHdrs.length none (m.childHdrs.length + 1)).getD 0 = i ∧
      Routed d m (k.dig 0) i A child B := by
    cases hr : MMetaSlab.findChild m.childHdrs (k.dig 0) 0 m.childHdrs.length none (m.childHdrs.length + 1) with
    | none =>
      rw [hr] at hroute
      obtain ⟨_, child, B, hrt⟩ := hroute
      exact ⟨0, [], child, B, rfl, hrt⟩
    | some i =>
      rw [hr] at hroute
      obtain ⟨A, child, B, hrt, _⟩ := hroute
      exact ⟨i, A, child, B, rfl, hrt⟩
  have hci : m.children[i]? = some child := by rw [hrt.ch]; exact zip_get' hrt.len
  have hmem : child ∈ m.children := List.mem_of_getElem? hci
  obtain ⟨ih1, ih2⟩ := ih child hmem
  have hlim := tlimited_routed (cfg := cfg) hrt
  obtain ⟨hA, hB⟩ := hrt.absent hm (k := k)
  constructor
  · intro hl
    have := ih1 (hlim.mp hl)
    simp only [MTree.set, hidx, hi, hci, this, bind, Except.bind]
  · intro hnl
    obtain ⟨old, child', c1, heq, hp⟩ := ih2 (fun h => hnl (hlim.mpr h))
    have htc := hm.2.2.2.2.1 child hmem
    have hcs := ((mtreeInv_false_iff hT d child).mp htc).2.2
    have hsorted : (dgs (A ++ child' :: B)).Pairwise (· < ·) := by
      have := hm.sorted
      rw [hrt.ch] at this
      exact sorted_replace this (SInv.sorted d false child' hp.sinv) hp.digs hrt.lo hrt.hi
    obtain ⟨m', c', heq2, hpost⟩ := afterChild_post hT hm hrt.ch h2 hrt.len hp.sinv
      (by have := hp.size_le; have := slack1_le T d; omega) hp.id_eq hsorted c1
    simp only [MTree.set, hidx, hi, hci, heq, hcT, heq2, bind, Except.bind, pure, Except.pure]
    refine ⟨old, m', c', rfl, ⟨⟨hpost.loose, hpost.len1⟩, ?_, ?_, ?_, ?_, ?_, hpost.id_eq, ?_, rfl⟩⟩
    · show m'.hdr.size ≤ m.hdr.size + mapSlabHeaderSize
      rw [hpost.loose.size_eq, hm.size_eq]
      have := hpost.len_le
      simp only [mapSlabHeaderSize]; omega
    · rw [MTree.toList_succ, MTree.toList_succ]
      have h1 : prs m'.children = prs A ++ (MTree.toList d child' ++ prs B) := hpost.pairs
      have h2' : m.children.flatMap (MTree.toList d) = prs A ++ (MTree.toList d child ++ prs B) := by
        rw [hrt.ch]; simp [prs, List.flatMap_append]
      rw [h2']
      show SetEffect _ (prs m'.children) _ _ _
      rw [h1]
      exact hp.eff.lift _ _ hA hB
    · have := hp.ctr; have := hpost.ctr; omega
    · intro id hid
      rw [mapSlabIds_succ] at hid ⊢
      rcases List.mem_cons.mp hid with h | h
      · left; rw [h, hpost.id_eq]; exact List.mem_cons_self
      · rcases hpost.ids id h with h' | h'
        · have hmid : idl m.children = idl A ++ (CtxOk.mapSlabIds d child ++ idl B) := by
            rw [hrt.ch]; simp [idl, List.flatMap_append]
          rcases List.mem_append.mp h' with h'' | h''
          · left; apply List.mem_cons_of_mem
            show id ∈ idl m.children
            rw [hmid]; exact List.mem_append_left _ h''
          · rcases List.mem_append.mp h'' with h3 | h3
            · rcases hp.ids id h3 with h4 | h4
              · left; apply List.mem_cons_of_mem
                show id ∈ idl m.children
                rw [hmid]; exact List.mem_append_right _ (List.mem_append_left _ h4)
              · right; have := hpost.ctr; omega
            · left; apply List.mem_cons_of_mem
              show id ∈ idl m.children
              rw [hmid]; exact List.mem_append_right _ (List.mem_append_right _ h3)
        · right; exact h'
    · intro x hx
      rw [MTree.digests0_succ] at hx ⊢
      have h1 : dgs m'.children = dgs A ++ (MTree.digests0 d child' ++ dgs B) := hpost.digs
      have hx' : x ∈ dgs m'.children := hx
      rw [h1] at hx'
      have hmd : m.children.flatMap (MTree.digests0 d) = dgs A ++ (MTree.digests0 d child ++ dgs B) := by
        rw [hrt.ch]; simp [dgs, List.flatMap_append]
      rw [hmd]
      rcases List.mem_append.mp hx' with h | h
      · left; exact List.mem_append_left _ h
      · rcases List.mem_append.mp h with h | h
        · rcases hp.digs x h with h' | h'
          · left; exact List.mem_append_right _ (List.mem_append_left _ h')
          · right; exact h'
        · left; exact List.mem_append_right _ (List.mem_append_right _ h)
    · rw [MTree.leaves_succ, MTree.leaves_succ]
      have hml : m.children.flatMap (MTree.leaves d) = lvs A ++ (MTree.leaves d child ++ lvs B) := by
        rw [hrt.ch]; simp [lvs, List.flatMap_append]
      rw [hml]
      exact (hp.leaves.lift _ _).trans hpost.leaves

end Atree

namespace Atree
open Gen
variable {T : Nat} {r : Nat} {D : DigestFn (r + 1)} {d : Nat} {cfg : MCfg}

theorem MTreeInv.two_children (hT : legalThreshold T = true) {top : Bool} {m : MMetaSlab (MTree r d)}
    (h : MTreeInv T D (d + 1) top m) : MetaLoose T D d top m ∧ 2 ≤ m.children.length ∧ m.hdr.size ≤ maxThr T := by
  obtain ⟨hm, h1, h2, h3⟩ := (mtreeInv_succ_iff T D d top m).mp h
  refine ⟨hm, ?_, h1⟩
  cases top with
  | true => exact h3 rfl
  | false =>
    have := h2 rfl
    have hmin := map_minThr_ge hT
    rw [hm.size_eq] at this
    omega

theorem MTree.set_spec (hT : legalThreshold T = true) (hc : CfgFor cfg T (r + 1)) {k : MKey}
    (hk : KeyOk T (r + 1) D k) {v : Elem} (hv : ValueOkM v) :
    ∀ (d : Nat) (top : Bool) (t : MTree r d) (c : Ctx), MTreeInv T D d top t →
    (TLimited cfg d t k → MTree.set cfg d t k v c = .error .collisionLimit) ∧
    (¬ TLimited cfg d t k → ∃ old t' c', MTree.set cfg d t k v c = .ok (k, old, t', c') ∧
      TSetPost T D d top t t' k (storedValue cfg k v c) old c c')
  | 0, _, s, c, h => set_spec_zero hT hc s ((mtreeInv_zero_iff T D _ _).mp h).loose hk hv c
  | d + 1, _, m, c, h =>
    have h' := MTreeInv.two_children hT h
    set_spec_succ hT hc.hT m h'.1 h'.2.1 c
      (fun ch hch => MTree.set_spec hT hc hk hv d false ch c (h'.1.2.2.2.2.1 ch hch))

end Atree
