import AtreeModel.Map.Elems
/-
  Pure arithmetic of the split / lend / borrow / can-lend loops of `hkeyElements`.
  `E` bounds every entry (element size + digest size).
-/
namespace Atree
namespace HkeyElems

theorem sum_take_le (l : List Nat) (j : Nat) : (l.take j).sum ≤ l.sum := by
  induction l generalizing j with
  | nil => simp
  | cons a l ih =>
    cases j with
    | zero => simp
    | succ j => simp only [List.take_succ_cons, List.sum_cons]; have := ih j; omega

theorem splitLoop_spec (mid data E : Nat) (hmid : mid = (data + 1) / 2) :
    ∀ (rest : List Nat) (i ls : Nat), (∀ x ∈ rest, x ≤ E) → ls + rest.sum = data → ls < mid →
    ∃ j, j ≤ rest.length ∧ splitLoop mid data rest i ls = (i + j, ls + (rest.take j).sum) ∧
      2 * (ls + (rest.take j).sum) ≤ data + E ∧ data ≤ 2 * (ls + (rest.take j).sum) + E
  | [], i, ls, _, hsum, hlt => by simp at hsum; omega
  | es :: rest, i, ls, hE, hsum, hlt => by
    have hes : es ≤ E := hE es List.mem_cons_self
    simp only [List.sum_cons] at hsum
    simp only [splitLoop]
    split
    · split
      · refine ⟨1, by simp, by simp, ?_, ?_⟩ <;> simp <;> omega
      · refine ⟨0, by simp, by simp, ?_, ?_⟩ <;> simp <;> omega
    · obtain ⟨j, hj, heq, h1, h2⟩ := splitLoop_spec mid data E hmid rest (i + 1) (ls + es)
        (fun x hx => hE x (List.mem_cons_of_mem _ hx)) (by omega) (by omega)
      refine ⟨j + 1, by simp; omega, ?_, ?_, ?_⟩
      · rw [heq]; simp only [List.take_succ_cons, List.sum_cons]; congr 1 <;> omega
      · simp only [List.take_succ_cons, List.sum_cons]; omega
      · simp only [List.take_succ_cons, List.sum_cons]; omega

/-- `canLendLoop` succeeded: some nonempty prefix reaches `want` and leaves at least `minSize`;
    the prefix one shorter does not reach `want`. -/
theorem canLendLoop_true (minSize esize want : Nat) :
    ∀ (l : List Nat) (lend : Nat), lend < want → canLendLoop minSize esize want l lend = true →
    ∃ j, 1 ≤ j ∧ j ≤ l.length ∧ want ≤ lend + (l.take j).sum ∧ minSize ≤ esize - (lend + (l.take j).sum) ∧
      lend + (l.take (j - 1)).sum < want
  | [], _, _, h => by simp [canLendLoop] at h
  | es :: rest, lend, hlt, h => by
    simp only [canLendLoop] at h
    split at h
    · cases h
    · split at h
      · refine ⟨1, by omega, by simp, ?_, ?_, ?_⟩ <;> simp <;> omega
      · obtain ⟨j, h1, h2, h3, h4, h5⟩ := canLendLoop_true minSize esize want rest (lend + es) (by omega) h
        refine ⟨j + 1, by omega, by simp; omega, ?_, ?_, ?_⟩
        · simp only [List.take_succ_cons, List.sum_cons]; omega
        · simp only [List.take_succ_cons, List.sum_cons]; omega
        · have : j + 1 - 1 = (j - 1) + 1 := by omega
          rw [this]; simp only [List.take_succ_cons, List.sum_cons]; omega

/-- `canLendLoop` failed: the lender is small. -/
theorem canLendLoop_false (minSize esize want E : Nat) :
    ∀ (l : List Nat) (lend : Nat), (∀ x ∈ l, x ≤ E) → lend < want →
    canLendLoop minSize esize want l lend = false →
    esize < minSize + want + E ∨ lend + l.sum < want
  | [], lend, _, hlt, _ => by right; simpa using hlt
  | es :: rest, lend, hE, hlt, h => by
    have hes : es ≤ E := hE es List.mem_cons_self
    simp only [canLendLoop] at h
    split at h
    · left; omega
    · split at h
      · cases h
      · rcases canLendLoop_false minSize esize want E rest (lend + es)
          (fun x hx => hE x (List.mem_cons_of_mem _ hx)) (by omega) h with h' | h'
        · left; exact h'
        · right; simp only [List.sum_cons]; omega

/-- `lendLoop` (the left slab gives entries from its back to the right slab).  `rest` are the
    entries still in the left slab, last first; `ls` their total. -/
theorem lendLoop_spec (minSize size mid E : Nat) (hmid : mid = (size + 1) / 2) :
    ∀ (rest : List Nat) (lc ls j0 : Nat), (∀ x ∈ rest, x ≤ E) → ls = rest.sum → ls ≤ size →
    j0 ≤ rest.length →
    minSize ≤ size - ls + (rest.take j0).sum → minSize ≤ ls - (rest.take j0).sum →
    (j0 = 0 → size - ls < minSize + E ∨ 2 * (size - ls) ≤ size) →
    (1 ≤ j0 → size - ls + (rest.take (j0 - 1)).sum < minSize) →
    ∃ j, j0 ≤ j ∧ j ≤ rest.length ∧ lendLoop minSize size mid rest lc ls = (lc - j, ls - (rest.take j).sum) ∧
      minSize ≤ ls - (rest.take j).sum ∧ minSize ≤ size - ls + (rest.take j).sum ∧
      (size - ls + (rest.take j).sum < minSize + E ∨ 2 * (size - ls + (rest.take j).sum) ≤ size)
  | [], lc, ls, j0, _, hls, hsz, hj0, h1, h2, h3, _ => by
    simp at hj0; subst hj0
    refine ⟨0, by omega, by simp, by simp [lendLoop], ?_, ?_, ?_⟩ <;> simp at * <;> omega
  | es :: rest, lc, ls, j0, hE, hls, hsz, hj0, h1, h2, h3, h4 => by
    have hes : es ≤ E := hE es List.mem_cons_self
    simp only [List.sum_cons] at hls
    have hE' : ∀ x ∈ rest, x ≤ E := fun x hx => hE x (List.mem_cons_of_mem _ hx)
    simp only [lendLoop]
    cases j0 with
    | zero =>
      simp at h1 h2
      have h3' := h3 rfl
      by_cases hstop : ls - es < mid
      · have hc : (decide (ls - es < mid) && decide (size - ls ≥ minSize)) = true := by simp; omega
        rw [if_pos hc]
        refine ⟨0, by omega, by simp, by simp, ?_, ?_, ?_⟩ <;> simp <;> omega
      · have hc : ¬ (decide (ls - es < mid) && decide (size - ls ≥ minSize)) = true := by simp; omega
        rw [if_neg hc]
        obtain ⟨j, hj0, hj, heq, b1, b2, b3⟩ := lendLoop_spec minSize size mid E hmid rest (lc - 1) (ls - es) 0 hE'
          (by omega) (by omega) (by omega) (by simp; omega) (by simp; omega) (by intro _; right; omega) (by omega)
        refine ⟨j + 1, by omega, by simp; omega, ?_, ?_, ?_, ?_⟩
        · rw [heq]; simp only [List.take_succ_cons, List.sum_cons]; congr 1 <;> omega
        · simp only [List.take_succ_cons, List.sum_cons]; omega
        · simp only [List.take_succ_cons, List.sum_cons]; omega
        · simp only [List.take_succ_cons, List.sum_cons]
          rcases b3 with b3 | b3
          · left; omega
          · right; omega
    | succ j0 =>
      have h4' := h4 (by omega)
      simp only [List.take_succ_cons, List.sum_cons] at h1 h2
      have hlen : j0 ≤ rest.length := by simpa using hj0
      have hc : ¬ (decide (ls - es < mid) && decide (size - ls ≥ minSize)) = true := by
        simp; intro _; omega
      rw [if_neg hc]
      have hle := sum_take_le rest j0
      obtain ⟨j, hj0', hj, heq, b1, b2, b3⟩ := lendLoop_spec minSize size mid E hmid rest (lc - 1) (ls - es) j0 hE'
        (by omega) (by omega) hlen (by omega) (by omega)
        (by intro _; left; omega)
        (by
          intro hj1
          have : j0 + 1 - 1 = (j0 - 1) + 1 := by omega
          rw [this] at h4'
          simp only [List.take_succ_cons, List.sum_cons] at h4'
          omega)
      refine ⟨j + 1, by omega, by simp; omega, ?_, ?_, ?_, ?_⟩
      · rw [heq]; simp only [List.take_succ_cons, List.sum_cons]; congr 1 <;> omega
      · simp only [List.take_succ_cons, List.sum_cons]; omega
      · simp only [List.take_succ_cons, List.sum_cons]; omega
      · simp only [List.take_succ_cons, List.sum_cons]
        rcases b3 with b3 | b3
        · left; omega
        · right; omega

/-- `borrowLoop` (the left slab takes entries from the front of the right slab).  `rest` are the
    entries still in the right slab; `ls` the current total of the left slab. -/
theorem borrowLoop_spec (minSize size mid E : Nat) (hmid : mid = (size + 1) / 2) :
    ∀ (rest : List Nat) (lc ls j0 : Nat), (∀ x ∈ rest, x ≤ E) → ls + rest.sum = size → ls ≤ mid →
    j0 ≤ rest.length →
    minSize ≤ ls + (rest.take j0).sum → minSize ≤ size - ls - (rest.take j0).sum →
    ∃ j, j ≤ rest.length ∧ borrowLoop minSize size mid rest lc ls = (lc + j, ls + (rest.take j).sum) ∧
      minSize ≤ ls + (rest.take j).sum ∧ minSize ≤ size - (ls + (rest.take j).sum) ∧
      ls + (rest.take j).sum ≤ mid + E
  | [], lc, ls, j0, _, hsum, hmidle, hj0, h1, h2 => by
    simp at hj0; subst hj0
    refine ⟨0, by simp, by simp [borrowLoop], ?_, ?_, ?_⟩ <;> simp at * <;> omega
  | es :: rest, lc, ls, j0, hE, hsum, hmidle, hj0, h1, h2 => by
    have hes : es ≤ E := hE es List.mem_cons_self
    simp only [List.sum_cons] at hsum
    have hE' : ∀ x ∈ rest, x ≤ E := fun x hx => hE x (List.mem_cons_of_mem _ hx)
    have hle := sum_take_le rest (j0 - 1)
    have hle0 := sum_take_le (es :: rest) j0
    simp only [List.sum_cons] at hle0
    simp only [borrowLoop]
    split
    · split
      · refine ⟨1, by simp, by simp, ?_, ?_, ?_⟩ <;> simp <;> omega
      · rename_i hgt hns
        refine ⟨0, by simp, by simp, ?_, ?_, ?_⟩
        · simp
          cases j0 with
          | zero => simpa using h1
          | succ j0 =>
            exfalso
            simp only [List.take_succ_cons, List.sum_cons] at h2
            omega
        · simp; omega
        · simp; omega
    · rename_i hle'
      cases j0 with
      | zero =>
        simp at h1 h2
        obtain ⟨j, hj, heq, b1, b2, b3⟩ := borrowLoop_spec minSize size mid E hmid rest (lc + 1) (ls + es) 0 hE'
          (by omega) (by omega) (by omega) (by simp; omega) (by simp; omega)
        refine ⟨j + 1, by simp; omega, ?_, ?_, ?_, ?_⟩
        · rw [heq]; simp only [List.take_succ_cons, List.sum_cons]; congr 1 <;> omega
        · simp only [List.take_succ_cons, List.sum_cons]; omega
        · simp only [List.take_succ_cons, List.sum_cons]; omega
        · simp only [List.take_succ_cons, List.sum_cons]; omega
      | succ j0 =>
        simp only [List.take_succ_cons, List.sum_cons] at h1 h2
        obtain ⟨j, hj, heq, b1, b2, b3⟩ := borrowLoop_spec minSize size mid E hmid rest (lc + 1) (ls + es) j0 hE'
          (by omega) (by omega) (by simpa using hj0) (by omega) (by omega)
        refine ⟨j + 1, by simp; omega, ?_, ?_, ?_, ?_⟩
        · rw [heq]; simp only [List.take_succ_cons, List.sum_cons]; congr 1 <;> omega
        · simp only [List.take_succ_cons, List.sum_cons]; omega
        · simp only [List.take_succ_cons, List.sum_cons]; omega
        · simp only [List.take_succ_cons, List.sum_cons]; omega

end HkeyElems
end Atree
