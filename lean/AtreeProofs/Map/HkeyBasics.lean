import AtreeProofs.Map.ElemLemmas
import AtreeProofs.Map.Search
/-
  Generic lemmas about a digest table (`HkeyElems α`) under `HInv`: structure, lookup.
-/
namespace Atree
open Gen

theorem mem_extIds {α : Type} {l : List (MElemF α)} {id : SlabID} :
    id ∈ extIds l ↔ ∃ e ∈ l, e.extId? = some id := by
  unfold extIds
  rw [List.mem_filterMap]
  constructor
  · rintro ⟨e, he, h⟩; refine ⟨e, he, ?_⟩; cases e <;> simp_all [MElemF.extId?]
  · rintro ⟨e, he, h⟩; refine ⟨e, he, ?_⟩; cases e <;> simp_all [MElemF.extId?]

theorem prefix_of_succ {T L : Nat} {D : DigestFn L} {k : MKey} (hkk : KeyOk T L D k) {ℓ : Nat} (hℓ : ℓ < L)
    {path : List Nat} {hk : Nat} (h : k.digs.take (ℓ + 1) = path ++ [hk]) :
    k.digs.take ℓ = path ∧ k.dig ℓ = hk := by
  rw [hkk.take_succ hℓ] at h
  have := List.append_inj' h rfl
  exact ⟨this.1, by simpa using this.2⟩

namespace HInv
variable {T L : Nat} {D : DigestFn L} {cfg : MCfg} {α : Type} {o : ElemsOps α}
  {Inv : Nat → List Nat → α → Prop} {rr : Nat} {ℓ : Nat} {path : List Nat} {he : HkeyElems α}

theorem level_lt (H : HInv T L D o Inv rr ℓ path he) : ℓ < L := by have := H.1; omega

theorem sorted (H : HInv T L D o Inv rr ℓ path he) : he.hkeys.Pairwise (· < ·) := H.2.2.2.1

theorem len_eq (H : HInv T L D o Inv rr ℓ path he) : he.hkeys.length = he.elems.length := H.2.2.1

theorem size_eq (H : HInv T L D o Inv rr ℓ path he) :
    he.size = hkeyElementsPrefixSize + HkeyElems.elemSizes o he.elems := H.2.2.2.2.1

theorem elemOk (H : HInv T L D o Inv rr ℓ path he) {i hk : Nat} {el : MElemF α}
    (hi : he.hkeys[i]? = some hk) (hel : he.elems[i]? = some el) : MElemOk T L D o Inv ℓ path hk el :=
  H.2.2.2.2.2 i hk el hi hel

theorem hkey_at (H : HInv T L D o Inv rr ℓ path he) {i : Nat} {el : MElemF α}
    (hel : he.elems[i]? = some el) : ∃ hk, he.hkeys[i]? = some hk := by
  have := lt_of_getElem?_eq_some hel
  rw [← H.len_eq] at this
  exact ⟨he.hkeys[i], List.getElem?_eq_getElem this⟩

theorem elem_at (H : HInv T L D o Inv rr ℓ path he) {i hk : Nat}
    (hi : he.hkeys[i]? = some hk) : ∃ el, he.elems[i]? = some el := by
  have := lt_of_getElem?_eq_some hi
  rw [H.len_eq] at this
  exact ⟨he.elems[i], List.getElem?_eq_getElem this⟩

theorem keys_at (S : OpsStruct T L D o Inv rr) (H : HInv T L D o Inv rr ℓ path he) {i hk : Nat} {el : MElemF α}
    (hi : he.hkeys[i]? = some hk) (hel : he.elems[i]? = some el) :
    ∀ p ∈ el.toList o, KeyOk T L D p.1 ∧ p.1.digs.take ℓ = path ∧ p.1.dig ℓ = hk := by
  intro p hp
  have := (H.elemOk hi hel).keys S p hp
  have h2 := prefix_of_succ this.1 H.level_lt this.2
  exact ⟨this.1, h2.1, h2.2⟩

theorem mem_toList (H : HInv T L D o Inv rr ℓ path he) {p : MKey × Elem} (hp : p ∈ HkeyElems.toList o he) :
    ∃ (i hk : Nat) (el : MElemF α), he.hkeys[i]? = some hk ∧ he.elems[i]? = some el ∧ p ∈ el.toList o := by
  unfold HkeyElems.toList at hp
  obtain ⟨el, hel, hpel⟩ := List.mem_flatMap.mp hp
  obtain ⟨i, hi⟩ := List.mem_iff_getElem?.mp hel
  obtain ⟨hk, hhk⟩ := H.hkey_at hi
  exact ⟨i, hk, el, hhk, hi, hpel⟩

theorem keys (S : OpsStruct T L D o Inv rr) (H : HInv T L D o Inv rr ℓ path he) :
    ∀ p ∈ HkeyElems.toList o he, KeyOk T L D p.1 ∧ p.1.digs.take ℓ = path := by
  intro p hp
  obtain ⟨i, hk, el, hi, hel, hpel⟩ := H.mem_toList hp
  have := H.keys_at S hi hel p hpel
  exact ⟨this.1, this.2.1⟩

/-- a key whose digest at this level is absent from the table is absent from the elements -/
theorem absent_of_dig (S : OpsStruct T L D o Inv rr) (H : HInv T L D o Inv rr ℓ path he) {k : MKey}
    (hno : ∀ j : Nat, he.hkeys[j]? ≠ some (k.dig ℓ)) : ∀ p ∈ HkeyElems.toList o he, p.1 ≠ k := by
  intro p hp hpk
  obtain ⟨i, hk, el, hi, hel, hpel⟩ := H.mem_toList hp
  have := (H.keys_at S hi hel p hpel).2.2
  rw [hpk] at this
  exact hno i (by rw [hi, this])

/-- the pair list splits around the element below the digest of `k`; `k` does not occur elsewhere -/
theorem locate (S : OpsStruct T L D o Inv rr) (H : HInv T L D o Inv rr ℓ path he) {k : MKey} {i : Nat}
    (hi : he.hkeys[i]? = some (k.dig ℓ)) {el : MElemF α} (hel : he.elems[i]? = some el) :
    HkeyElems.toList o he = (he.elems.take i).flatMap (MElemF.toList o) ++
        (el.toList o ++ (he.elems.drop (i + 1)).flatMap (MElemF.toList o)) ∧
    (∀ p ∈ (he.elems.take i).flatMap (MElemF.toList o), p.1 ≠ k) ∧
    (∀ p ∈ (he.elems.drop (i + 1)).flatMap (MElemF.toList o), p.1 ≠ k) := by
  refine ⟨flatMap_split _ hel, ?_, ?_⟩
  · intro p hp hpk
    obtain ⟨el', hel', hpel⟩ := List.mem_flatMap.mp hp
    obtain ⟨j, hj, hjel⟩ := mem_take_get hel'
    obtain ⟨hk', hhk'⟩ := H.hkey_at hjel
    have := (H.keys_at S hhk' hjel p hpel).2.2
    rw [hpk] at this; rw [← this] at hhk'
    have := sorted_get_inj H.sorted hhk' hi
    omega
  · intro p hp hpk
    obtain ⟨el', hel', hpel⟩ := List.mem_flatMap.mp hp
    obtain ⟨j, hj, hjel⟩ := mem_drop_get hel'
    obtain ⟨hk', hhk'⟩ := H.hkey_at hjel
    have := (H.keys_at S hhk' hjel p hpel).2.2
    rw [hpk] at this; rw [← this] at hhk'
    have := sorted_get_inj H.sorted hhk' hi
    omega

theorem distinct (S : OpsStruct T L D o Inv rr) (H : HInv T L D o Inv rr ℓ path he) :
    KeysDistinct (HkeyElems.toList o he) := by
  unfold KeysDistinct HkeyElems.toList
  rw [List.pairwise_flatMap]
  constructor
  · intro el hel
    obtain ⟨i, hi⟩ := List.mem_iff_getElem?.mp hel
    obtain ⟨hk, hhk⟩ := H.hkey_at hi
    exact (H.elemOk hhk hi).distinct S
  · rw [List.pairwise_iff_getElem]
    intro i j hi hj hij x hx y hy
    have hi' : he.elems[i]? = some he.elems[i] := List.getElem?_eq_getElem hi
    have hj' : he.elems[j]? = some he.elems[j] := List.getElem?_eq_getElem hj
    obtain ⟨hk1, hhk1⟩ := H.hkey_at hi'
    obtain ⟨hk2, hhk2⟩ := H.hkey_at hj'
    have h1 := H.keys_at S hhk1 hi' x hx
    have h2 := H.keys_at S hhk2 hj' y hy
    have hlt := sorted_get_lt H.sorted hhk1 hhk2 hij
    rw [KeyOk.same_false_iff h1.1 h2.1]
    intro heq
    rw [heq] at h1
    omega

theorem ordered (S : OpsStruct T L D o Inv rr) (H : HInv T L D o Inv rr ℓ path he) :
    ((HkeyElems.toList o he).map (fun p => p.1.digs)).Pairwise (fun a b => a = b ∨ List.Lex (· < ·) a b) := by
  unfold HkeyElems.toList
  rw [List.map_flatMap, List.pairwise_flatMap]
  constructor
  · intro el hel
    obtain ⟨i, hi⟩ := List.mem_iff_getElem?.mp hel
    obtain ⟨hk, hhk⟩ := H.hkey_at hi
    exact (H.elemOk hhk hi).ordered S
  · rw [List.pairwise_iff_getElem]
    intro i j hi hj hij x hx y hy
    have hi' : he.elems[i]? = some he.elems[i] := List.getElem?_eq_getElem hi
    have hj' : he.elems[j]? = some he.elems[j] := List.getElem?_eq_getElem hj
    obtain ⟨hk1, hhk1⟩ := H.hkey_at hi'
    obtain ⟨hk2, hhk2⟩ := H.hkey_at hj'
    obtain ⟨p, hp, rfl⟩ := List.mem_map.mp hx
    obtain ⟨q, hq, rfl⟩ := List.mem_map.mp hy
    have h1 := (H.elemOk hhk1 hi').keys S p hp
    have h2 := (H.elemOk hhk2 hj').keys S q hq
    have hlt := sorted_get_lt H.sorted hhk1 hhk2 hij
    right
    exact lex_of_prefix h1.2 h2.2 hlt

theorem elem_ne_nil (S : OpsStruct T L D o Inv rr) (H : HInv T L D o Inv rr ℓ path he) :
    ∀ el ∈ he.elems, el.toList o ≠ [] := by
  intro el hel
  obtain ⟨i, hi⟩ := List.mem_iff_getElem?.mp hel
  obtain ⟨hk, hhk⟩ := H.hkey_at hi
  exact (H.elemOk hhk hi).toList_ne_nil S

theorem count_pos (S : OpsStruct T L D o Inv rr) (H : HInv T L D o Inv rr ℓ path he) :
    1 ≤ he.elems.length ↔ HkeyElems.toList o he ≠ [] := by
  have hne := H.elem_ne_nil S
  unfold HkeyElems.toList
  cases hh : he.elems with
  | nil => simp
  | cons a l =>
    rw [hh] at hne
    have := hne a List.mem_cons_self
    simp [this]

theorem length_le_toList (S : OpsStruct T L D o Inv rr) (H : HInv T L D o Inv rr ℓ path he) :
    he.elems.length ≤ (HkeyElems.toList o he).length := by
  have hne := H.elem_ne_nil S
  unfold HkeyElems.toList
  generalize he.elems = l at hne
  induction l with
  | nil => simp
  | cons a l ih =>
    have h1 := hne a List.mem_cons_self
    have h2 := ih (fun e he => hne e (List.mem_cons_of_mem _ he))
    have : 1 ≤ (MElemF.toList o a).length := by
      cases h : MElemF.toList o a with
      | nil => exact absurd h h1
      | cons _ _ => simp
    simp only [List.flatMap_cons, List.length_append, List.length_cons]; omega

theorem popIter_fst (S : OpsStruct T L D o Inv rr) (he : HkeyElems α) (c : Ctx) :
    (HkeyElems.popIter o he c).1 = (HkeyElems.toList o he).reverse := by
  have hel : ∀ (el : MElemF α) c, (el.popIter o c).1 = (el.toList o).reverse := by
    intro el c
    cases el with
    | single x => rfl
    | inl g => exact S.popIter g c
    | ext id sz s => simp only [MElemF.popIter, MElemF.toList]; exact S.popIter s.elems c
  have hfold : ∀ (l : List (MElemF α)) (acc : List (MKey × Elem)) (c : Ctx),
      (l.foldl (fun (acc : List (MKey × Elem) × Ctx) el =>
        ((acc.1 ++ (el.popIter o acc.2).1, (el.popIter o acc.2).2) : List (MKey × Elem) × Ctx)) (acc, c)).1
        = acc ++ l.flatMap (fun el => (el.toList o).reverse) := by
    intro l
    induction l with
    | nil => intro acc c; simp
    | cons a l ih =>
      intro acc c
      rw [List.foldl_cons, ih, hel]
      simp
  unfold HkeyElems.popIter HkeyElems.toList
  rw [List.reverse_flatMap]
  have := hfold he.elems.reverse [] c
  simp only [List.nil_append] at this
  exact this

end HInv
end Atree
