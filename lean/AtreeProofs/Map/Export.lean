import AtreeProofs.Map.Basics
/-
  C12: WHEN a collision group lives in a slab of its own.  Pure facts about the code of
  `element.Set` / `element.Remove` / `hkeyElements.Set` / `hkeyElements.Remove` (no invariant is
  assumed): how the KIND of a first-level element (single element / inline collision group /
  external collision group) can change in one request.
-/
namespace Atree
open Gen

variable {α : Type}

/-- `el ↦ el'` by one `Set` at the first level.
    * an external group stays external, with the same slab (it is NOT re-inlined, whatever its size);
    * a single element that is overwritten stays a single element;
    * otherwise (a group is born from a single element, or an inline group is updated) the result is a
      group `g'`, and it is EXTERNAL EXACTLY WHEN `inlineCollisionGroupPrefixSize + size g'` exceeds
      the element limit: external ⇒ larger than the limit (with a well-formed new slab), inline ⇒
      within the limit. -/
def SetKindRel (T : Nat) (o : ElemsOps α) (el el' : MElemF α) : Prop :=
  match el, el' with
  | .ext id sz _, .ext id' sz' _ => id' = id ∧ sz' = sz
  | .ext _ _ _, _ => False
  | .single _, .single _ => True
  | .inl _, .single _ => False
  | _, .inl g' => inlineCollisionGroupPrefixSize + o.size g' ≤ maxInlineMapElem T
  | _, .ext _ sz' s' =>
    inlineCollisionGroupPrefixSize + o.size s'.elems > maxInlineMapElem T ∧
    sz' = externalCollisionGroupPrefixSize + slabIDStorableSize ∧
    s'.hdr.size = mapDataSlabPrefixSize + o.size s'.elems

/-- `el ↦ el'?` by one `Remove` at the first level (`none` = the element is gone).
    * a single element disappears;
    * an inline group stays inline or collapses to its last single element;
    * an external group stays external (same slab) or collapses to its last single element – it is
      never turned back into an inline group. -/
def RemoveKindRel (el : MElemF α) (el' : Option (MElemF α)) : Prop :=
  match el, el' with
  | .single _, none => True
  | .single _, some _ => False
  | _, none => False
  | .inl _, some (.inl _) => True
  | .inl _, some (.single _) => True
  | .inl _, some (.ext _ _ _) => False
  | .ext id sz _, some (.ext id' sz' _) => id' = id ∧ sz' = sz
  | .ext _ _ _, some (.single _) => True
  | .ext _ _ _, some (.inl _) => False

namespace MElemF

theorem inlSet_kind (o : ElemsOps α) (cfg : MCfg) (g : α) (k : MKey) (v : Elem) (c : Ctx)
    {el' : MElemF α} {ks : MKey} {old : Option Elem} {c' : Ctx}
    (h : inlSet o cfg g 0 k v c = .ok (el', ks, old, c')) :
    (∃ g', el' = .inl g' ∧ inlineCollisionGroupPrefixSize + o.size g' ≤ maxInlineMapElem cfg.T) ∨
    (∃ id s', el' = .ext id (externalCollisionGroupPrefixSize + slabIDStorableSize) s' ∧
      inlineCollisionGroupPrefixSize + o.size s'.elems > maxInlineMapElem cfg.T ∧
      s'.hdr.size = mapDataSlabPrefixSize + o.size s'.elems) := by
  simp only [inlSet, bind, Except.bind, throw, throwThe, MonadExceptOf.throw, pure, Except.pure] at h
  by_cases hl : 0 + 1 > cfg.L
  · rw [if_pos hl] at h; cases h
  · rw [if_neg hl] at h
    cases hs : o.set cfg g (0 + 1) k v c with
    | error e => rw [hs] at h; cases h
    | ok res =>
      obtain ⟨ks', old', g', c1⟩ := res
      rw [hs] at h
      simp only at h
      by_cases hx : inlineCollisionGroupPrefixSize + o.size g' > maxInlineMapElem cfg.T
      · have hb : ((0 + 1 == 1) && decide (inlineCollisionGroupPrefixSize + o.size g' > maxInlineMapElem cfg.T)) = true := by
          simp [hx]
        rw [if_pos hb] at h
        simp only [Except.ok.injEq, Prod.mk.injEq] at h
        right
        exact ⟨_, _, h.1.symm, hx, rfl⟩
      · have hb : ¬ ((0 + 1 == 1) && decide (inlineCollisionGroupPrefixSize + o.size g' > maxInlineMapElem cfg.T)) = true := by
          simp [hx]
        rw [if_neg hb] at h
        simp only [Except.ok.injEq, Prod.mk.injEq] at h
        left
        exact ⟨g', h.1.symm, by omega⟩

/-- `element.Set` at the first level -/
theorem set_kind (o : ElemsOps α) (cfg : MCfg) (el : MElemF α) (k : MKey) (v : Elem) (c : Ctx)
    {el' : MElemF α} {ks : MKey} {old : Option Elem} {c' : Ctx}
    (h : el.set o cfg 0 k v c = .ok (el', ks, old, c')) : SetKindRel cfg.T o el el' := by
  cases el with
  | single x =>
    simp only [set] at h
    by_cases hsame : x.key.same k = true
    · rw [if_pos hsame] at h
      simp only [Except.ok.injEq, Prod.mk.injEq] at h
      rw [← h.1]; trivial
    · rw [if_neg hsame] at h
      simp only [bind, Except.bind] at h
      cases hn : o.newWith cfg (0 + 1) x with
      | error e => rw [hn] at h; cases h
      | ok g =>
        rw [hn] at h
        rcases inlSet_kind o cfg g k v c h with ⟨g', rfl, hle⟩ | ⟨id, s', rfl, hgt, hsz⟩
        · exact hle
        · exact ⟨hgt, rfl, hsz⟩
  | inl g =>
    simp only [set] at h
    rcases inlSet_kind o cfg g k v c h with ⟨g', rfl, hle⟩ | ⟨id, s', rfl, hgt, hsz⟩
    · exact hle
    · exact ⟨hgt, rfl, hsz⟩
  | ext id sz s =>
    simp only [set, bind, Except.bind, throw, throwThe, MonadExceptOf.throw, pure, Except.pure] at h
    by_cases hl : 0 + 1 > cfg.L
    · rw [if_pos hl] at h; cases h
    · rw [if_neg hl] at h
      cases hs : o.set cfg s.elems (0 + 1) k v c with
      | error e => rw [hs] at h; cases h
      | ok res =>
        rw [hs] at h
        simp only [Except.ok.injEq, Prod.mk.injEq] at h
        rw [← h.1]
        exact ⟨rfl, rfl⟩

/-- `element.Remove` at the first level -/
theorem remove_kind (o : ElemsOps α) (cfg : MCfg) (el : MElemF α) (level : Nat) (k : MKey) (c : Ctx)
    {rk : MKey} {rv : Elem} {el' : Option (MElemF α)} {c' : Ctx}
    (h : el.remove o cfg level k c = .ok (rk, rv, el', c')) : RemoveKindRel el el' := by
  cases el with
  | single x =>
    simp only [remove] at h
    by_cases hsame : x.key.same k = true
    · rw [if_pos hsame] at h
      simp only [Except.ok.injEq, Prod.mk.injEq] at h
      rw [← h.2.2.1]; trivial
    · rw [if_neg hsame] at h; cases h
  | inl g =>
    simp only [remove, bind, Except.bind, throw, throwThe, MonadExceptOf.throw, pure, Except.pure] at h
    by_cases hl : level + 1 > cfg.L
    · rw [if_pos hl] at h; cases h
    · rw [if_neg hl] at h
      cases hs : o.remove cfg g (level + 1) k c with
      | error e => rw [hs] at h; cases h
      | ok res =>
        rw [hs] at h
        simp only at h
        cases hsole : o.soleSingle res.2.2.1 with
        | none =>
          rw [hsole] at h
          simp only [Except.ok.injEq, Prod.mk.injEq] at h
          rw [← h.2.2.1]; trivial
        | some x =>
          rw [hsole] at h
          simp only [Except.ok.injEq, Prod.mk.injEq] at h
          rw [← h.2.2.1]; trivial
  | ext id sz s =>
    simp only [remove, bind, Except.bind, throw, throwThe, MonadExceptOf.throw, pure, Except.pure] at h
    by_cases hl : level + 1 > cfg.L
    · rw [if_pos hl] at h; cases h
    · rw [if_neg hl] at h
      cases hs : o.remove cfg s.elems (level + 1) k c with
      | error e => rw [hs] at h; cases h
      | ok res =>
        rw [hs] at h
        simp only at h
        cases hsole : o.soleSingle res.2.2.1 with
        | none =>
          rw [hsole] at h
          simp only [Except.ok.injEq, Prod.mk.injEq] at h
          rw [← h.2.2.1]; exact ⟨rfl, rfl⟩
        | some x =>
          rw [hsole] at h
          simp only [Except.ok.injEq, Prod.mk.injEq] at h
          rw [← h.2.2.1]; trivial

end MElemF

/-- what one `Set` does to the list of first-level elements: a new single element is inserted, or
    exactly one element changes, according to `SetKindRel` -/
def SetElemsRel (T : Nat) (o : ElemsOps α) (l l' : List (MElemF α)) : Prop :=
  (∃ A B x, l = A ++ B ∧ l' = A ++ .single x :: B) ∨
  (∃ A B el el', l = A ++ el :: B ∧ l' = A ++ el' :: B ∧ SetKindRel T o el el')

/-- what one `Remove` does to the list of first-level elements -/
def RemoveElemsRel (l l' : List (MElemF α)) : Prop :=
  ∃ A B el el', l = A ++ el :: B ∧ l' = A ++ el'.toList ++ B ∧ RemoveKindRel el el'

theorem SetElemsRel.lift {T : Nat} {o : ElemsOps α} {l l' : List (MElemF α)} (h : SetElemsRel T o l l')
    (P S : List (MElemF α)) : SetElemsRel T o (P ++ (l ++ S)) (P ++ (l' ++ S)) := by
  rcases h with ⟨A, B, x, rfl, rfl⟩ | ⟨A, B, el, el', rfl, rfl, hk⟩
  · exact Or.inl ⟨P ++ A, B ++ S, x, by simp, by simp⟩
  · exact Or.inr ⟨P ++ A, B ++ S, el, el', by simp, by simp, hk⟩

theorem RemoveElemsRel.lift {l l' : List (MElemF α)} (h : RemoveElemsRel l l')
    (P S : List (MElemF α)) : RemoveElemsRel (P ++ (l ++ S)) (P ++ (l' ++ S)) := by
  obtain ⟨A, B, el, el', rfl, rfl, hk⟩ := h
  exact ⟨P ++ A, B ++ S, el, el', by simp, by simp, hk⟩

theorem list_set_split {β : Type} {l : List β} {i : Nat} {a : β} (b : β) (h : l[i]? = some a) :
    l = l.take i ++ a :: l.drop (i + 1) ∧ l.set i b = l.take i ++ b :: l.drop (i + 1) := by
  have hlt : i < l.length := (List.getElem?_eq_some_iff.mp h).1
  have ha : l[i] = a := (List.getElem?_eq_some_iff.mp h).2
  constructor
  · conv => lhs; rw [← List.take_append_drop i l]
    rw [List.drop_eq_getElem_cons hlt, ha]
  · rw [List.set_eq_take_append_cons_drop, if_pos hlt]

theorem list_insertIdx_split {β : Type} (l : List β) (i : Nat) (b : β) (h : i ≤ l.length) :
    l = l.take i ++ l.drop i ∧ l.insertIdx i b = l.take i ++ b :: l.drop i := by
  exact ⟨(List.take_append_drop i l).symm, insertIdx_eq h⟩

namespace HkeyElems

theorem findEqLt_snd_le (hkeys : List Nat) (hkey n : Nat) : ∀ (fuel i j lt : Nat), j ≤ n → lt ≤ n →
    (findEqLt hkeys hkey i j lt fuel).2 ≤ n
  | 0, _, _, _, _, hlt => hlt
  | fuel + 1, i, j, lt, hj, hlt => by
    simp only [findEqLt]
    split
    · split
      · exact findEqLt_snd_le hkeys hkey n fuel i _ _ (by omega) (by omega)
      · split
        · exact findEqLt_snd_le hkeys hkey n fuel _ j lt hj hlt
        · exact hlt
    · exact hlt

/-- `hkeyElements.Set` at the first level, on the element list (`hlen`: one digest per element, part of
    every invariant of the digest tables) -/
theorem set_elems (o : ElemsOps α) (cfg : MCfg) (e : HkeyElems α) (k : MKey) (v : Elem) (c : Ctx)
    (hlen : e.hkeys.length = e.elems.length)
    {ks : MKey} {old : Option Elem} {e' : HkeyElems α} {c' : Ctx}
    (h : set o cfg e 0 k v c = .ok (ks, old, e', c')) : SetElemsRel cfg.T o e.elems e'.elems := by
  simp only [set, insertNew] at h
  by_cases hl : 0 ≥ cfg.L
  · rw [if_pos hl] at h; cases h
  · rw [if_neg hl] at h
    have fresh : ∀ idx, idx ≤ e.elems.length →
        (Except.ok ((newSingleElement cfg.T cfg.addr k v c).1.key, (none : Option Elem),
          ({ e with hkeys := e.hkeys.insertIdx idx (k.dig 0),
                    elems := e.elems.insertIdx idx (.single (newSingleElement cfg.T cfg.addr k v c).1),
                    size := e.size + digestSize + (newSingleElement cfg.T cfg.addr k v c).1.size } : HkeyElems α),
          (newSingleElement cfg.T cfg.addr k v c).2) : Except MErr _) = .ok (ks, old, e', c') →
        SetElemsRel cfg.T o e.elems e'.elems := by
      intro idx hi hh
      simp only [Except.ok.injEq, Prod.mk.injEq] at hh
      rw [← hh.2.2.1]
      left
      obtain ⟨h1, h2⟩ := list_insertIdx_split e.elems idx (.single (newSingleElement cfg.T cfg.addr k v c).1) hi
      exact ⟨_, _, _, h1, h2⟩
    cases hh : e.hkeys.head? with
    | none => rw [hh] at h; exact fresh 0 (Nat.zero_le _) h
    | some first =>
      cases hla : e.hkeys.getLast? with
      | none => rw [hh, hla] at h; exact fresh 0 (Nat.zero_le _) h
      | some last =>
        rw [hh, hla] at h
        simp only at h
        by_cases h1 : k.dig 0 < first
        · rw [if_pos h1] at h; exact fresh 0 (Nat.zero_le _) h
        · rw [if_neg h1] at h
          by_cases h2 : k.dig 0 > last
          · rw [if_pos h2] at h; exact fresh _ (by rw [hlen]; exact Nat.le_refl _) h
          · rw [if_neg h2] at h
            cases hf : findEqLt e.hkeys (k.dig 0) 0 e.hkeys.length 0 (e.hkeys.length + 1) with
            | mk eq lt =>
              rw [hf] at h
              cases eq with
              | none =>
                have hlt : lt ≤ e.elems.length := by
                  have := findEqLt_snd_le e.hkeys (k.dig 0) e.hkeys.length (e.hkeys.length + 1) 0 e.hkeys.length 0
                    (Nat.le_refl _) (Nat.zero_le _)
                  rw [hf] at this
                  rw [← hlen]; exact this
                exact fresh lt hlt h
              | some i =>
                simp only at h
                cases hel : e.elems[i]? with
                | none => rw [hel] at h; cases h
                | some el =>
                  rw [hel] at h
                  simp only [bind, Except.bind, pure, Except.pure, throw, throwThe, MonadExceptOf.throw] at h
                  -- whatever the limit check decided, a success went through `el.set`
                  cases hset : MElemF.set o cfg el 0 k v c with
                  | error err =>
                    rw [hset] at h
                    simp only at h
                    exfalso
                    repeat' split at h
                    all_goals first | contradiction | cases h
                  | ok x =>
                    obtain ⟨el', ks', old', c1⟩ := x
                    rw [hset] at h
                    simp only at h
                    have fin : ∀ (e2 : HkeyElems α), e2.elems = e.elems.set i el' →
                        (Except.ok (ks', old', e2, c1) : Except MErr (MKey × Option Elem × HkeyElems α × Ctx)) =
                          .ok (ks, old, e', c') → SetElemsRel cfg.T o e.elems e'.elems := by
                      intro e2 he2 hres
                      simp only [Except.ok.injEq, Prod.mk.injEq] at hres
                      rw [← hres.2.2.1, he2]
                      obtain ⟨s1, s2⟩ := list_set_split el' hel
                      exact Or.inr ⟨_, _, el, el', s1, s2, MElemF.set_kind o cfg el k v c hset⟩
                    repeat' split at h
                    all_goals first | exact fin _ rfl h | contradiction | cases h

/-- `hkeyElements.Remove`, on the element list -/
theorem remove_elems (o : ElemsOps α) (cfg : MCfg) (e : HkeyElems α) (level : Nat) (k : MKey) (c : Ctx)
    {rk : MKey} {rv : Elem} {e' : HkeyElems α} {c' : Ctx}
    (h : remove o cfg e level k c = .ok (rk, rv, e', c')) : RemoveElemsRel e.elems e'.elems := by
  simp only [remove] at h
  by_cases hl : level ≥ cfg.L
  · rw [if_pos hl] at h; cases h
  · rw [if_neg hl] at h
    cases hh : e.hkeys.head? with
    | none => rw [hh] at h; cases h
    | some first =>
      cases hla : e.hkeys.getLast? with
      | none => rw [hh, hla] at h; cases h
      | some last =>
        rw [hh, hla] at h
        simp only at h
        split at h
        · cases h
        · cases hf : findEq e.hkeys (k.dig level) 0 e.hkeys.length (e.hkeys.length + 1) with
          | none => rw [hf] at h; cases h
          | some i =>
            rw [hf] at h
            simp only at h
            cases hel : e.elems[i]? with
            | none => rw [hel] at h; cases h
            | some el =>
              rw [hel] at h
              simp only [bind, Except.bind, pure, Except.pure] at h
              cases hr : MElemF.remove o cfg el level k c with
              | error err => rw [hr] at h; cases h
              | ok x =>
                obtain ⟨rk', rv', el', c1⟩ := x
                rw [hr] at h
                simp only at h
                have hk := MElemF.remove_kind o cfg el level k c hr
                have hsplit := list_split_at hel
                cases el' with
                | none =>
                  simp only [Except.ok.injEq, Prod.mk.injEq] at h
                  rw [← h.2.2.1]
                  refine ⟨_, _, el, none, hsplit, ?_, hk⟩
                  simp only [Option.toList_none, List.append_nil]
                  rw [List.eraseIdx_eq_take_drop_succ]
                | some el2 =>
                  simp only [Except.ok.injEq, Prod.mk.injEq] at h
                  rw [← h.2.2.1]
                  refine ⟨_, _, el, some el2, hsplit, ?_, hk⟩
                  simp only [Option.toList_some, List.append_assoc, List.singleton_append]
                  exact (list_set_split el2 hel).2

end HkeyElems

end Atree
