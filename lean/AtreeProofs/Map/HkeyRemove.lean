import AtreeProofs.Map.HkeyOps
/-
  `HkeyElems.remove` under `HInv`.
-/
namespace Atree
open Gen

namespace HkeyElems
variable {α : Type}

/-- the part of `HkeyElems.remove` that runs once the digest has been found at index `i` -/
def removeAt (o : ElemsOps α) (cfg : MCfg) (e : HkeyElems α) (level : Nat) (k : MKey) (c : Ctx)
    (i : Nat) (el : MElemF α) : Except MErr (MKey × Elem × HkeyElems α × Ctx) := do
  let oldSize := el.size o
  let (rk, rv, el', c) ← el.remove o cfg level k c
  match el' with
  | none =>
    return (rk, rv, { e with elems := e.elems.eraseIdx i, hkeys := e.hkeys.eraseIdx i,
                             size := e.size - (digestSize + oldSize) }, c)
  | some el' =>
    return (rk, rv, { e with elems := e.elems.set i el', size := e.size + el'.size o - oldSize }, c)

theorem remove_eq_removeAt (o : ElemsOps α) (cfg : MCfg) (e : HkeyElems α) (level : Nat) (k : MKey) (c : Ctx)
    (hs : e.hkeys.Pairwise (· < ·)) (hlev : ¬ (level ≥ cfg.L)) {i : Nat} {el : MElemF α}
    (hi : e.hkeys[i]? = some (k.dig level)) (hel : e.elems[i]? = some el) :
    HkeyElems.remove o cfg e level k c = removeAt o cfg e level k c i el := by
  obtain ⟨first, last, hh, hl, h1, h2, _, _⟩ := sorted_ends hs hi
  have hsp := findEq_spec (k.dig level) hs
  simp only [HkeyElems.remove, if_neg hlev, hh, hl]
  have hb : (decide (k.dig level < first) || decide (k.dig level > last)) = false := by
    simp; omega
  rw [hb]
  cases hr : findEq e.hkeys (k.dig level) 0 e.hkeys.length (e.hkeys.length + 1) with
  | none => rw [hr] at hsp; exact absurd hi (hsp i)
  | some i' =>
    rw [hr] at hsp
    have hii := sorted_get_inj hs hsp hi
    subst hii
    simp only [hel]
    rfl

theorem remove_absent (o : ElemsOps α) (cfg : MCfg) (e : HkeyElems α) (level : Nat) (k : MKey) (c : Ctx)
    (hs : e.hkeys.Pairwise (· < ·)) (hlev : ¬ (level ≥ cfg.L))
    (hno : ∀ j : Nat, e.hkeys[j]? ≠ some (k.dig level)) :
    HkeyElems.remove o cfg e level k c = .error .keyNotFound := by
  have hsp := findEq_spec (k.dig level) hs
  simp only [HkeyElems.remove, if_neg hlev]
  cases hr : findEq e.hkeys (k.dig level) 0 e.hkeys.length (e.hkeys.length + 1) with
  | none => split <;> (try rfl); split <;> rfl
  | some i' => rw [hr] at hsp; exact absurd hsp (hno i')

end HkeyElems

namespace HInv
variable {T L : Nat} {D : DigestFn L} {cfg : MCfg} {α : Type} {o : ElemsOps α}
  {Inv : Nat → List Nat → α → Prop} {rr : Nat} {ℓ : Nat} {path : List Nat} {he : HkeyElems α}

/-- postcondition of a successful `remove` -/
def RemPost (T L : Nat) (D : DigestFn L) (o : ElemsOps α) (Inv : Nat → List Nat → α → Prop) (rr ℓ : Nat)
    (path : List Nat) (he : HkeyElems α) (k : MKey) (v : Elem) (c : Ctx)
    (res : MKey × Elem × HkeyElems α × Ctx) : Prop :=
  res.1 = k ∧ res.2.1 = v ∧ HInv T L D o Inv rr ℓ path res.2.2.1 ∧
  RemEffect (HkeyElems.toList o he) (HkeyElems.toList o res.2.2.1) k v ∧ res.2.2.2.ctr = c.ctr ∧
  (∀ id ∈ extIds res.2.2.1.elems, id ∈ extIds he.elems) ∧
  (∀ x ∈ res.2.2.1.hkeys, x ∈ he.hkeys) ∧
  (1 ≤ ℓ → res.2.2.1.size ≤ he.size) ∧
  (ℓ = 0 → res.2.2.1.size ≤ he.size + maxInlineMapElem T ∧
           he.size ≤ res.2.2.1.size + (maxInlineMapElem T + digestSize))

theorem remove (S : OpsSpec T L D cfg o Inv rr) (hT : legalThreshold T = true) (hc : CfgFor cfg T L)
    (H : HInv T L D o Inv rr ℓ path he) {k : MKey} (hkk : KeyOk T L D k) (hpath : k.digs.take ℓ = path) (c : Ctx) :
    ((∀ p ∈ HkeyElems.toList o he, p.1 ≠ k) → HkeyElems.remove o cfg he ℓ k c = .error .keyNotFound) ∧
    (∀ v, (k, v) ∈ HkeyElems.toList o he → ∃ res, HkeyElems.remove o cfg he ℓ k c = .ok res ∧
        RemPost T L D o Inv rr ℓ path he k v c res) := by
  have hlev : ¬ (ℓ ≥ cfg.L) := by rw [hc.hL]; have := H.level_lt; omega
  have hp1 : k.digs.take (ℓ + 1) = path ++ [k.dig ℓ] := by rw [hkk.take_succ H.level_lt, hpath]
  by_cases hex : ∃ i : Nat, he.hkeys[i]? = some (k.dig ℓ)
  · obtain ⟨i, hi⟩ := hex
    obtain ⟨el, hel⟩ := H.elem_at hi
    rw [HkeyElems.remove_eq_removeAt o cfg he ℓ k c H.sorted hlev hi hel]
    have hEl := H.elemOk hi hel
    obtain ⟨hloc, hP, hQ⟩ := H.locate S hi hel
    obtain ⟨hrem1, hrem2⟩ := hEl.remove S hc H.1 hkk hp1 c
    constructor
    · intro hne
      have : ∀ p ∈ el.toList o, p.1 ≠ k := by
        intro p hp; apply hne; rw [hloc]; exact List.mem_append_right _ (List.mem_append_left _ hp)
      simp only [HkeyElems.removeAt, hrem1 this, bind, Except.bind]
    · intro v hm
      have hm' : (k, v) ∈ el.toList o := by
        rw [hloc] at hm
        rcases List.mem_append.mp hm with hm | hm
        · exact absurd rfl (hP _ hm)
        · rcases List.mem_append.mp hm with hm | hm
          · exact hm
          · exact absurd rfl (hQ _ hm)
      obtain ⟨r, c', hr, hctr, hpost⟩ := hrem2 v hm'
      have hsplit := sum_map_split (fun e => MElemF.size o e + digestSize) hel
      cases r with
      | none =>
        simp only at hpost
        simp only [HkeyElems.removeAt, hr, bind, Except.bind, pure, Except.pure]
        refine ⟨_, rfl, rfl, rfl, ?_, ?_, hctr, ?_, ?_, ?_, ?_⟩
        · refine ⟨H.1, H.2.1, ?_, sorted_eraseIdx H.sorted i, ?_, ?_⟩
          · simp only [List.length_eraseIdx, H.len_eq]
          · simp only
            have h3 := sum_map_eraseIdx (fun e => MElemF.size o e + digestSize) hel
            rw [H.size_eq]
            simp only [HkeyElems.elemSizes, digestSize] at *
            omega
          · intro j hk el2 hj hel2
            simp only [List.getElem?_eraseIdx] at hj hel2
            by_cases hji : j < i
            · rw [if_pos hji] at hj hel2; exact H.elemOk hj hel2
            · rw [if_neg hji] at hj hel2; exact H.elemOk hj hel2
        · refine ⟨(he.elems.take i).flatMap (MElemF.toList o), (he.elems.drop (i + 1)).flatMap (MElemF.toList o), ?_, ?_⟩
          · rw [hloc, hpost]; rfl
          · simp only [HkeyElems.toList]; exact flatMap_eraseIdx _
        · intro id hid
          simp only at hid
          rw [mem_extIds] at hid ⊢
          obtain ⟨e, he', hide⟩ := hid
          exact ⟨e, List.mem_of_mem_eraseIdx he', hide⟩
        · intro x hx; exact List.mem_of_mem_eraseIdx hx
        · intro _; simp only; omega
        · intro h0
          simp only
          have h1 := hEl.size_le hT h0
          rw [H.size_eq] at *
          simp only [HkeyElems.elemSizes, digestSize] at *
          omega
      | some el' =>
        obtain ⟨hEl', heff, hids, hsz⟩ := hpost
        simp only [HkeyElems.removeAt, hr, bind, Except.bind, pure, Except.pure]
        have h3 := sum_map_set (fun e => MElemF.size o e + digestSize) (b := el') hel
        refine ⟨_, rfl, rfl, rfl, ?_, ?_, hctr, ?_, ?_, ?_, ?_⟩
        · refine ⟨H.1, H.2.1, ?_, H.sorted, ?_, ?_⟩
          · simp only [List.length_set]; exact H.len_eq
          · simp only
            rw [H.size_eq]
            simp only [HkeyElems.elemSizes, digestSize] at *
            omega
          · intro j hk el2 hj hel2
            simp only [List.getElem?_set] at hel2
            by_cases hij : i = j
            · subst hij
              rw [if_pos rfl, if_pos (lt_of_getElem?_eq_some hel)] at hel2
              cases hel2
              rw [hi] at hj; cases hj
              exact hEl'
            · rw [if_neg hij] at hel2
              exact H.elemOk hj hel2
        · simp only
          have : HkeyElems.toList o { he with elems := he.elems.set i el', size := he.size + MElemF.size o el' - MElemF.size o el }
              = (he.elems.take i).flatMap (MElemF.toList o) ++ (el'.toList o ++ (he.elems.drop (i + 1)).flatMap (MElemF.toList o)) := by
            simp only [HkeyElems.toList]; exact flatMap_set _ hel
          rw [this, hloc]
          exact heff.lift _ _
        · intro id hid
          simp only at hid
          rw [mem_extIds] at hid ⊢
          obtain ⟨e, he', hide⟩ := hid
          rcases List.mem_or_eq_of_mem_set he' with he' | rfl
          · exact ⟨e, he', hide⟩
          · exact ⟨el, List.mem_of_getElem? hel, hids id hide⟩
        · intro x hx; exact hx
        · intro h1
          have := hsz h1
          simp only
          rw [H.size_eq] at *
          simp only [HkeyElems.elemSizes, digestSize] at *
          omega
        · intro h0
          simp only
          have h1 := hEl.size_le hT h0
          have h2 := hEl'.size_le hT h0
          rw [H.size_eq] at *
          simp only [HkeyElems.elemSizes, digestSize] at *
          omega
  · have hno : ∀ j : Nat, he.hkeys[j]? ≠ some (k.dig ℓ) := fun j hj => hex ⟨j, hj⟩
    have habs := H.absent_of_dig S hno
    constructor
    · intro _; exact HkeyElems.remove_absent o cfg he ℓ k c H.sorted hlev hno
    · intro v hm; exact absurd rfl (habs _ hm)

end HInv
end Atree
