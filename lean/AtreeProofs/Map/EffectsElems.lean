import AtreeProofs.Map.EffectsAcct
import AtreeProofs.Map.HkeySpec
/-
  Effect-log accounting for maps (C09), elements layer:
  * `ValStep`: what `toStorableLim` does to the context,
  * `OpsEff`: below the first level, `set` only creates large-value slabs and `remove` does not
    touch storage (there are no external groups below the first level), generic over `ElemsOps`
    and inherited by `HkeyElems.ops`,
  * reading the execution path off a successful `HkeyElems.set / remove`.
-/
namespace Atree
open Gen

/-! ### `toStorableLim` -/

/-- the context is unchanged, or one large-value slab was allocated, stored and recorded -/
def ValStep (a : Nat) (c c' : Ctx) : Prop :=
  c' = c ∨ ∃ v, c' = { ctr := c.ctr + 1,
                       eff := c.eff ++ [.alloc a ⟨a, c.ctr + 1⟩, .store ⟨a, c.ctr + 1⟩],
                       created := c.created ++ [(⟨a, c.ctr + 1⟩, v)] }

theorem toStorableLim_valStep (lim a : Nat) (v : Elem) (c : Ctx) : ValStep a c (toStorableLim lim a v c).2 := by
  unfold toStorableLim
  split
  · exact Or.inl rfl
  · split
    · exact Or.inr ⟨v, by simp [Ctx.emit, Ctx.alloc]⟩
    · exact Or.inl rfl

theorem newSingleElement_valStep (T a : Nat) (k : MKey) (v : Elem) (c : Ctx) :
    ValStep a c (newSingleElement T a k v c).2 := by
  simp only [newSingleElement]
  exact toStorableLim_valStep _ a v c

/-- a `ValStep` leaves every set of slabs as it is -/
theorem ValStep.acct {a : Nat} {c c' : Ctx} (h : ValStep a c c') :
    ∃ E C, MLog a c c' E C ∧ ∀ (β : Type) (S : List (SlabID × β)), MAcct a c.ctr c'.ctr S S E (C.map (·.1)) := by
  rcases h with rfl | ⟨v, rfl⟩
  · exact ⟨[], [], MLog.refl a _, fun β S => MAcct.refl a _ S⟩
  · refine ⟨[.alloc a ⟨a, c.ctr + 1⟩, .store ⟨a, c.ctr + 1⟩], [(⟨a, c.ctr + 1⟩, v)], ⟨⟨rfl, rfl, by simp, ?_⟩, ?_⟩, ?_⟩
    · intro ad id hm
      simp only [List.mem_cons, Eff.alloc.injEq, reduceCtorEq, List.not_mem_nil, or_false] at hm
      obtain ⟨_, rfl⟩ := hm
      simp
    · intro ad id hm
      simp only [List.mem_cons, Eff.alloc.injEq, reduceCtorEq, List.not_mem_nil, or_false] at hm
      obtain ⟨_, rfl⟩ := hm
      rfl
    · intro β S
      have hla : ∀ id, lastAction [Eff.alloc a ⟨a, c.ctr + 1⟩, .store ⟨a, c.ctr + 1⟩] id
          = if (⟨a, c.ctr + 1⟩ : SlabID) = id then some true else none := by
        intro id
        simp only [lastAction, List.foldl_cons, List.foldl_nil]
      refine ⟨by simp, fun _ h => Or.inl h, fun _ h h' => absurd h h', ?_, ?_, ?_, ?_, fun _ => Or.inl (Nat.le_refl _)⟩
      · intro id hid
        rw [hla] at hid
        split at hid
        · rename_i he; subst he; right; simp
        · cases hid
      · intro id hid
        rw [hla] at hid
        split at hid <;> cases hid
      · intro id hid
        rw [hla] at hid
        split at hid
        · rename_i he; subst he; right; exact fresh_next a c.ctr
        · exact absurd rfl hid
      · intro id hid
        simp only [List.map_cons, List.map_nil, List.mem_singleton] at hid
        subst hid
        exact fresh_next a c.ctr

/-! ### below the first level -/

/-- below the first level the operations of `o` on values satisfying `P` only create large-value
    slabs (`set`) or leave storage alone (`remove`) -/
structure OpsEff (cfg : MCfg) {α : Type} (o : ElemsOps α) (P : α → Prop) : Prop where
  set : ∀ {e : α} {ℓ : Nat} {k : MKey} {v : Elem} {c : Ctx} {ks : MKey} {old : Option Elem} {e' : α} {c' : Ctx},
    P e → 1 ≤ ℓ → o.set cfg e ℓ k v c = .ok (ks, old, e', c') → ValStep cfg.addr c c'
  remove : ∀ {e : α} {ℓ : Nat} {k : MKey} {c : Ctx} {rk : MKey} {rv : Elem} {e' : α} {c' : Ctx},
    P e → o.remove cfg e ℓ k c = .ok (rk, rv, e', c') → c' = c
  newWith : ∀ {ℓ : Nat} {x : SElem} {g : α}, o.newWith cfg ℓ x = .ok g → P g

/-- an element without external group -/
def ElP {α : Type} (P : α → Prop) : MElemF α → Prop
  | .single _ => True
  | .inl g => P g
  | .ext _ _ _ => False

/-- a digest table without external groups -/
def HP {α : Type} (P : α → Prop) (he : HkeyElems α) : Prop := ∀ el ∈ he.elems, ElP P el

theorem mbind_eq_ok {α β : Type} {x : Except MErr α} {f : α → Except MErr β} {b : β}
    (h : (x >>= f) = .ok b) : ∃ a, x = .ok a ∧ f a = .ok b := by
  cases x with
  | error e => cases h
  | ok a => exact ⟨a, rfl, h⟩

section paths
variable {α : Type} {o : ElemsOps α} {cfg : MCfg}

/-- the two outcomes of `inlSet` -/
theorem inlSet_inv {g : α} {ℓ : Nat} {k : MKey} {v : Elem} {c : Ctx} {el' : MElemF α} {ks : MKey}
    {old : Option Elem} {c' : Ctx} (h : MElemF.inlSet o cfg g ℓ k v c = .ok (el', ks, old, c')) :
    ∃ g' c1, o.set cfg g (ℓ + 1) k v c = .ok (ks, old, g', c1) ∧
      ((el' = .inl g' ∧ c' = c1) ∨
       (ℓ = 0 ∧ ∃ sz slab, el' = .ext (c1.alloc cfg.addr).1 sz slab ∧
          c' = (c1.alloc cfg.addr).2.emit (.store (c1.alloc cfg.addr).1))) := by
  unfold MElemF.inlSet at h
  by_cases hl : ℓ + 1 > cfg.L
  · simp [hl, bind, Except.bind, throw, throwThe, MonadExceptOf.throw] at h
  · simp only [hl, if_false, bind, Except.bind, pure, Except.pure] at h
    cases hs : o.set cfg g (ℓ + 1) k v c with
    | error e => simp [hs] at h
    | ok p =>
      obtain ⟨ks', old', g', c1⟩ := p
      simp only [hs] at h
      refine ⟨g', c1, ?_, ?_⟩
      · split at h
        · simp only [Except.ok.injEq, Prod.mk.injEq] at h
          obtain ⟨_, rfl, rfl, _⟩ := h; rfl
        · simp only [Except.ok.injEq, Prod.mk.injEq] at h
          obtain ⟨_, rfl, rfl, _⟩ := h; rfl
      · split at h
        · rename_i hc
          simp only [Except.ok.injEq, Prod.mk.injEq] at h
          obtain ⟨rfl, _, _, rfl⟩ := h
          right
          simp only [Bool.and_eq_true, beq_iff_eq, decide_eq_true_eq] at hc
          exact ⟨by omega, _, _, rfl, rfl⟩
        · simp only [Except.ok.injEq, Prod.mk.injEq] at h
          obtain ⟨rfl, _, _, rfl⟩ := h
          exact Or.inl ⟨rfl, rfl⟩

/-- the outcomes of `MElemF.set` -/
theorem elem_set_inv {el : MElemF α} {ℓ : Nat} {k : MKey} {v : Elem} {c : Ctx} {el' : MElemF α} {ks : MKey}
    {old : Option Elem} {c' : Ctx} (h : el.set o cfg ℓ k v c = .ok (el', ks, old, c')) :
    (∃ x x', el = .single x ∧ el' = .single x' ∧ ValStep cfg.addr c c') ∨
    (∃ g, ((∃ x, el = .single x ∧ o.newWith cfg (ℓ + 1) x = .ok g) ∨ el = .inl g) ∧
       MElemF.inlSet o cfg g ℓ k v c = .ok (el', ks, old, c')) ∨
    (∃ id sz s elems' c1, el = .ext id sz s ∧ o.set cfg s.elems (ℓ + 1) k v c = .ok (ks, old, elems', c1) ∧
       el' = .ext id sz (MElemF.groupSlabUpdate o s elems' c1).1 ∧ c' = c1.emit (.store s.hdr.id)) := by
  cases el with
  | single x =>
    simp only [MElemF.set] at h
    split at h
    · simp only [Except.ok.injEq, Prod.mk.injEq] at h
      obtain ⟨rfl, _, _, rfl⟩ := h
      exact Or.inl ⟨x, _, rfl, rfl, toStorableLim_valStep _ _ _ _⟩
    · obtain ⟨g, hg, h⟩ := mbind_eq_ok h
      exact Or.inr (Or.inl ⟨g, Or.inl ⟨x, rfl, hg⟩, h⟩)
  | inl g =>
    simp only [MElemF.set] at h
    exact Or.inr (Or.inl ⟨g, Or.inr rfl, h⟩)
  | ext id sz s =>
    simp only [MElemF.set] at h
    by_cases hl : ℓ + 1 > cfg.L
    · simp [hl, bind, Except.bind, throw, throwThe, MonadExceptOf.throw] at h
    · simp only [hl, if_false, bind, Except.bind, pure, Except.pure] at h
      cases hs : o.set cfg s.elems (ℓ + 1) k v c with
      | error e => simp [hs] at h
      | ok p =>
        obtain ⟨ks', old', elems', c1⟩ := p
        simp only [hs, Except.ok.injEq, Prod.mk.injEq] at h
        obtain ⟨rfl, rfl, rfl, rfl⟩ := h
        exact Or.inr (Or.inr ⟨id, sz, s, elems', c1, rfl, hs, rfl, rfl⟩)

/-- the outcomes of `MElemF.remove` -/
theorem elem_remove_inv {el : MElemF α} {ℓ : Nat} {k : MKey} {c : Ctx} {rk : MKey} {rv : Elem}
    {el' : Option (MElemF α)} {c' : Ctx} (h : el.remove o cfg ℓ k c = .ok (rk, rv, el', c')) :
    (∃ x, el = .single x ∧ el' = none ∧ c' = c) ∨
    (∃ g g' c1, el = .inl g ∧ o.remove cfg g (ℓ + 1) k c = .ok (rk, rv, g', c1) ∧ c' = c1 ∧
       ((∃ x, el' = some (.single x)) ∨ el' = some (.inl g'))) ∨
    (∃ id sz s elems' c1, el = .ext id sz s ∧ o.remove cfg s.elems (ℓ + 1) k c = .ok (rk, rv, elems', c1) ∧
       (((∃ x, el' = some (.single x)) ∧ c' = (c1.emit (.store s.hdr.id)).emit (.remove id)) ∨
        (el' = some (.ext id sz (MElemF.groupSlabUpdate o s elems' c1).1) ∧ c' = c1.emit (.store s.hdr.id)))) := by
  cases el with
  | single x =>
    simp only [MElemF.remove] at h
    split at h
    · simp only [Except.ok.injEq, Prod.mk.injEq] at h
      obtain ⟨_, _, rfl, rfl⟩ := h
      exact Or.inl ⟨x, rfl, rfl, rfl⟩
    · cases h
  | inl g =>
    simp only [MElemF.remove] at h
    by_cases hl : ℓ + 1 > cfg.L
    · simp [hl, bind, Except.bind, throw, throwThe, MonadExceptOf.throw] at h
    · simp only [hl, if_false, bind, Except.bind, pure, Except.pure] at h
      cases hs : o.remove cfg g (ℓ + 1) k c with
      | error e => simp [hs] at h
      | ok p =>
        obtain ⟨rk', rv', g', c1⟩ := p
        simp only [hs] at h
        refine Or.inr (Or.inl ⟨g, g', c1, rfl, ?_, ?_, ?_⟩)
        · split at h <;>
          · simp only [Except.ok.injEq, Prod.mk.injEq] at h
            obtain ⟨rfl, rfl, _, _⟩ := h; exact hs
        · split at h <;>
          · simp only [Except.ok.injEq, Prod.mk.injEq] at h
            obtain ⟨_, _, _, rfl⟩ := h; rfl
        · split at h
          · simp only [Except.ok.injEq, Prod.mk.injEq] at h
            obtain ⟨_, _, rfl, _⟩ := h; exact Or.inl ⟨_, rfl⟩
          · simp only [Except.ok.injEq, Prod.mk.injEq] at h
            obtain ⟨_, _, rfl, _⟩ := h; exact Or.inr rfl
  | ext id sz s =>
    simp only [MElemF.remove] at h
    by_cases hl : ℓ + 1 > cfg.L
    · simp [hl, bind, Except.bind, throw, throwThe, MonadExceptOf.throw] at h
    · simp only [hl, if_false, bind, Except.bind, pure, Except.pure] at h
      cases hs : o.remove cfg s.elems (ℓ + 1) k c with
      | error e => simp [hs] at h
      | ok p =>
        obtain ⟨rk', rv', elems', c1⟩ := p
        simp only [hs] at h
        refine Or.inr (Or.inr ⟨id, sz, s, elems', c1, rfl, ?_, ?_⟩)
        · split at h <;>
          · simp only [Except.ok.injEq, Prod.mk.injEq] at h
            obtain ⟨rfl, rfl, _, _⟩ := h; exact hs
        · split at h
          · simp only [Except.ok.injEq, Prod.mk.injEq] at h
            obtain ⟨_, _, rfl, rfl⟩ := h
            exact Or.inl ⟨⟨_, rfl⟩, rfl⟩
          · simp only [Except.ok.injEq, Prod.mk.injEq] at h
            obtain ⟨_, _, rfl, rfl⟩ := h
            exact Or.inr ⟨rfl, rfl⟩

/-- a successful `setAt` -/
theorem setAt_inv {e : HkeyElems α} {ℓ : Nat} {k : MKey} {v : Elem} {c : Ctx} {i : Nat} {el : MElemF α}
    {res : MKey × Option Elem × HkeyElems α × Ctx}
    (h : HkeyElems.setAt o cfg e ℓ k v c i el = .ok res) :
    ∃ el' ks old c', el.set o cfg ℓ k v c = .ok (el', ks, old, c') ∧
      res.2.2.1.elems = e.elems.set i el' ∧ res.2.2.2 = c' := by
  unfold HkeyElems.setAt at h
  extract_lets jp at h
  have key : ∀ r, jp r = .ok res → ∃ el' ks old c', el.set o cfg ℓ k v c = .ok (el', ks, old, c') ∧
      res.2.2.1.elems = e.elems.set i el' ∧ res.2.2.2 = c' := by
    intro r hr
    simp only [jp] at hr
    obtain ⟨⟨el', ks, old, c'⟩, hs, hr⟩ := mbind_eq_ok hr
    simp only [pure, Except.pure, Except.ok.injEq] at hr
    subst hr
    exact ⟨el', ks, old, c', hs, rfl, rfl⟩
  clear_value jp
  split at h
  · rename_i n jp2 _
    have key2 : ∀ r, jp2 r = .ok res → ∃ el' ks old c', el.set o cfg ℓ k v c = .ok (el', ks, old, c') ∧
        res.2.2.1.elems = e.elems.set i el' ∧ res.2.2.2 = c' := by
      intro r hr
      simp only [jp2] at hr
      split at hr
      · split at hr
        · obtain ⟨_, ht, _⟩ := mbind_eq_ok hr
          cases ht
        · exact key _ hr
      · exact key _ hr
    split at h
    · obtain ⟨_, ht, _⟩ := mbind_eq_ok h
      cases ht
    · exact key2 () h
  · exact key _ h

/-- the two paths of a successful `HkeyElems.set` -/
theorem hkey_set_inv {e : HkeyElems α} {ℓ : Nat} {k : MKey} {v : Elem} {c : Ctx}
    {res : MKey × Option Elem × HkeyElems α × Ctx}
    (h : HkeyElems.set o cfg e ℓ k v c = .ok res) :
    (∃ idx hk, res = HkeyElems.insertNew cfg e idx hk k v c) ∨
    (∃ i el el' ks old c', e.elems[i]? = some el ∧ el.set o cfg ℓ k v c = .ok (el', ks, old, c') ∧
      res.2.2.1.elems = e.elems.set i el' ∧ res.2.2.2 = c') := by
  unfold HkeyElems.set at h
  split at h
  · cases h
  · extract_lets hkey at h
    split at h
    · cases h; exact Or.inl ⟨_, _, rfl⟩
    · cases h; exact Or.inl ⟨_, _, rfl⟩
    · split at h
      · cases h; exact Or.inl ⟨_, _, rfl⟩
      · split at h
        · cases h; exact Or.inl ⟨_, _, rfl⟩
        · split at h
          · cases h; exact Or.inl ⟨_, _, rfl⟩
          · split at h
            · cases h
            · rename_i i _ _ _ el hel
              have h' : HkeyElems.setAt o cfg e ℓ k v c i el = .ok res := h
              obtain ⟨el', ks, old, c', h1, h2, h3⟩ := setAt_inv h'
              exact Or.inr ⟨i, el, el', ks, old, c', hel, h1, h2, h3⟩

/-- the path of a successful `HkeyElems.remove` -/
theorem hkey_remove_inv {e : HkeyElems α} {ℓ : Nat} {k : MKey} {c : Ctx}
    {res : MKey × Elem × HkeyElems α × Ctx}
    (h : HkeyElems.remove o cfg e ℓ k c = .ok res) :
    ∃ i el el' c', e.elems[i]? = some el ∧ el.remove o cfg ℓ k c = .ok (res.1, res.2.1, el', c') ∧
      res.2.2.1.elems = (match el' with | none => e.elems.eraseIdx i | some x => e.elems.set i x) ∧
      res.2.2.2 = c' := by
  unfold HkeyElems.remove at h
  split at h
  · cases h
  · extract_lets hkey at h
    split at h
    · cases h
    · cases h
    · split at h
      · cases h
      · split at h
        · cases h
        · split at h
          · cases h
          · rename_i i _ _ el hel
            extract_lets oldSize at h
            obtain ⟨⟨rk, rv, el', c'⟩, hr, h⟩ := mbind_eq_ok h
            refine ⟨i, el, el', c', hel, ?_, ?_, ?_⟩
            · cases el' <;>
              · simp only [pure, Except.pure, Except.ok.injEq] at h
                subst h; exact hr
            · cases el' <;>
              · simp only [pure, Except.pure, Except.ok.injEq] at h
                subst h; rfl
            · cases el' <;>
              · simp only [pure, Except.pure, Except.ok.injEq] at h
                subst h; rfl

end paths

/-! ### `OpsEff` is inherited -/

theorem insertNew_valStep {α : Type} (cfg : MCfg) (e : HkeyElems α) (idx hk : Nat) (k : MKey) (v : Elem) (c : Ctx) :
    ValStep cfg.addr c (HkeyElems.insertNew cfg e idx hk k v c).2.2.2 := by
  simp only [HkeyElems.insertNew]
  exact newSingleElement_valStep _ _ _ _ _

theorem SingleElems.opsEff (cfg : MCfg) : OpsEff cfg SingleElems.ops (fun _ => True) where
  set := by
    intro e ℓ k v c ks old e' c' _ _ h
    have h : SingleElems.set cfg e ℓ k v c = .ok (ks, old, e', c') := h
    unfold SingleElems.set at h
    split at h
    · cases h
    · split at h
      · split at h
        · cases h
        · simp only [Except.ok.injEq, Prod.mk.injEq] at h
          obtain ⟨_, _, _, rfl⟩ := h
          exact toStorableLim_valStep _ _ _ _
      · simp only [Except.ok.injEq, Prod.mk.injEq] at h
        obtain ⟨_, _, _, rfl⟩ := h
        exact newSingleElement_valStep _ _ _ _ _
  remove := by
    intro e ℓ k c rk rv e' c' _ h
    have h : SingleElems.remove cfg e ℓ k c = .ok (rk, rv, e', c') := h
    unfold SingleElems.remove at h
    split at h
    · cases h
    · split at h
      · split at h
        · cases h
        · simp only [Except.ok.injEq, Prod.mk.injEq] at h
          exact h.2.2.2.symm
      · cases h
  newWith := by intros; trivial

theorem HkeyElems.opsEff {cfg : MCfg} {α : Type} {o : ElemsOps α} {P : α → Prop} (hE : OpsEff cfg o P) :
    OpsEff cfg (HkeyElems.ops o) (HP P) where
  set := by
    intro e ℓ k v c ks old e' c' hP hℓ h
    have h : HkeyElems.set o cfg e ℓ k v c = .ok (ks, old, e', c') := h
    rcases hkey_set_inv h with ⟨idx, hk, hres⟩ | ⟨i, el, el', ks', old', c'', hel, hs, _, hc⟩
    · have := insertNew_valStep cfg e idx hk k v c
      rw [← hres] at this
      exact this
    · simp only at hc
      subst hc
      have hPel := hP el (List.mem_of_getElem? hel)
      rcases elem_set_inv hs with ⟨x, x', _, _, hv⟩ | ⟨g, hg, hin⟩ | ⟨id, sz, s, _, _, rfl, _⟩
      · exact hv
      · have hPg : P g := by
          rcases hg with ⟨x, _, hn⟩ | rfl
          · exact hE.newWith hn
          · exact hPel
        obtain ⟨g', c1, hset, hcase⟩ := inlSet_inv hin
        rcases hcase with ⟨_, rfl⟩ | ⟨h0, _⟩
        · exact hE.set hPg (by omega) hset
        · omega
      · exact absurd hPel (by simp [ElP])
  remove := by
    intro e ℓ k c rk rv e' c' hP h
    have h : HkeyElems.remove o cfg e ℓ k c = .ok (rk, rv, e', c') := h
    obtain ⟨i, el, el', c'', hel, hr, _, hc⟩ := hkey_remove_inv h
    simp only at hc hr
    subst hc
    have hPel := hP el (List.mem_of_getElem? hel)
    rcases elem_remove_inv hr with ⟨x, _, _, rfl⟩ | ⟨g, g', c1, rfl, hrem, rfl, _⟩ | ⟨id, sz, s, _, _, rfl, _⟩
    · rfl
    · exact hE.remove hPel hrem
    · exact absurd hPel (by simp [ElP])
  newWith := by
    intro ℓ x g h
    simp only [HkeyElems.ops] at h
    split at h
    · cases h
    · cases h
      intro el hel
      simp only [List.mem_singleton] at hel
      subst hel
      trivial

/-- no external group anywhere -/
def NoExt : (r : Nat) → MElems r → Prop
  | 0, _ => True
  | r + 1, (he : HkeyElems (MElems r)) => HP (NoExt r) he

theorem MElems.opsEff (cfg : MCfg) : ∀ r, OpsEff cfg (MElems.ops r) (NoExt r)
  | 0 => SingleElems.opsEff cfg
  | r + 1 => HkeyElems.opsEff (MElems.opsEff cfg r)

/-- below the first level there are no external groups -/
theorem noExt_of_inv {T L : Nat} {D : DigestFn L} : ∀ (r ℓ : Nat) (path : List Nat) (e : MElems r),
    ElemsInv T L D r ℓ path e → 1 ≤ ℓ → NoExt r e
  | 0, _, _, _, _, _ => trivial
  | r + 1, ℓ, path, he, h, hℓ => by
    have h' := (elemsInv_succ_iff T L D r ℓ path he).mp h
    obtain ⟨_, _, hlen, _, _, hel⟩ := h'
    intro el hmem
    obtain ⟨i, hi, hget⟩ := List.mem_iff_getElem.mp hmem
    have hi' : i < he.hkeys.length := by rw [hlen]; exact hi
    have hk : he.hkeys[i]? = some he.hkeys[i] := List.getElem?_eq_getElem hi'
    have he' : he.elems[i]? = some el := by rw [List.getElem?_eq_getElem hi, hget]
    have := hel i _ el hk he'
    cases el with
    | single x => trivial
    | inl g => exact noExt_of_inv r (ℓ + 1) _ g this.1 (by omega)
    | ext id sz s => exact absurd this.1 (by omega)

end Atree
