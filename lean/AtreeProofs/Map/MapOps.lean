import AtreeProofs.Map.Root
/-
  `OMap.set` and `OMap.remove` on a map satisfying `MapInv`.
-/
namespace Atree
open Gen

variable {T : Nat} {r : Nat} {D : DigestFn (r + 1)} {cfg : MCfg}

theorem MapInv.of_rootPost {m1 m3 : OMap r} {c c3 : Ctx} (hp : RootPost T D m1 m3 c c3)
    (hcount : m3.count = m3.toList.length) : MapInv T D m3 :=
  ⟨hp.tree, hp.chain, hcount, MTreeInv.distinct m3.d true m3.root hp.tree, hp.inl⟩

theorem ctxOk_of {m m3 : OMap r} {c c3 : Ctx} (hc : CtxOk m c) (hctr : c.ctr ≤ c3.ctr)
    (hroot : m3.rootID = m.rootID)
    (hids : ∀ id ∈ CtxOk.mapSlabIds m3.d m3.root, id ∈ CtxOk.mapSlabIds m.d m.root ∨ id.idx ≤ c3.ctr) :
    CtxOk m3 c3 := by
  intro id hid haddr
  have hid' : id ∈ CtxOk.mapSlabIds m3.d m3.root := hid
  rcases hids id hid' with h | h
  · have := hc id h (by rw [haddr]; simp only [OMap.addr, hroot])
    omega
  · exact h

/-- result of a successful `OMap.set` -/
structure OSetPost (T : Nat) (D : DigestFn (r + 1)) (cfg : MCfg) (m m' : OMap r) (k : MKey) (v : Elem)
    (old : Option Elem) (c c' : Ctx) : Prop where
  eff : SetEffect m.toList m'.toList k (storedValue cfg k v c) old
  inv : MapInv T D m'
  ctx : CtxOk m c → CtxOk m' c'
  rootID : m'.rootID = m.rootID
  ty : m'.ty = m.ty
  seed : m'.seed = m.seed
  count : m'.count = if old.isNone then m.count + 1 else m.count

theorem OMap.set_spec (hT : legalThreshold T = true) {m : OMap r} (hcfg : CfgOk cfg T m) (h : MapInv T D m)
    {k : MKey} (hk : KeyOk T (r + 1) D k) {v : Elem} (hv : ValueOkM v) (c : Ctx) :
    (TLimited cfg m.d m.root k → m.set cfg k v c = .error .collisionLimit) ∧
    (¬ TLimited cfg m.d m.root k → ∃ old m' c', m.set cfg k v c = .ok (old, m', c') ∧
      OSetPost T D cfg m m' k v old c c') := by
  have hc' : CfgFor cfg T (r + 1) := ⟨hcfg.1, hcfg.2.1⟩
  obtain ⟨d, root, ty, cnt, seed⟩ := m
  obtain ⟨h1, h2⟩ := MTree.set_spec hT hc' hk hv d true root c h.tree
  constructor
  · intro hl
    have := h1 hl
    simp only [OMap.set, this, bind, Except.bind]
  · intro hnl
    obtain ⟨old, root', c1, heq, hp⟩ := h2 hnl
    have hinl : treeInl d root' = false := by
      rw [hp.inl, ← isInlined_eq d root ty cnt seed]; exact h.standalone
    have hle : (MTree.hdr d root').size ≤ maxThr T + slack1 T d := by
      have := hp.size_le; have := MTreeInv.le_max d true root h.tree; omega
    have hchain : ChainTo (MTree.leaves d root') SlabID.undef :=
      hp.leaves.2.2.2 _ ((mLeafChain_iff _).mp h.chain)
    obtain ⟨m3, c3, heq3, hpost⟩ := root_fixup hT d root' ty (if old.isNone then cnt + 1 else cnt) seed c1
      hp.sinv hinl hle hchain
    have hT' : cfg.T = T := hcfg.1
    refine ⟨old, m3, c3, ?_, ?_⟩
    · simp only [OMap.set, heq, bind, Except.bind, pure, Except.pure, hT']
      simp only [heq3]
    · have htl : m3.toList = MTree.toList d root' := hpost.toList
      have hcnt : cnt = (MTree.toList d root).length := h.count_eq
      have hlen := hp.eff.length
      have hrid : m3.rootID = (⟨d, root, ty, cnt, seed⟩ : OMap r).rootID := by
        rw [hpost.rootID]; exact hp.id_eq
      refine ⟨by rw [htl]; exact hp.eff, MapInv.of_rootPost hpost ?_, ?_, hrid, hpost.ty, hpost.seed, hpost.count⟩
      · rw [hpost.count, htl, hlen]
        show (if old.isNone then cnt + 1 else cnt) = _
        cases old <;> simp [hcnt]
      · intro hc
        refine ctxOk_of hc (by have := hp.ctr; have := hpost.ctr; omega) hrid ?_
        intro id hid
        rcases hpost.ids id hid with h' | h'
        · rcases hp.ids id h' with h'' | h''
          · exact Or.inl h''
          · right; have := hpost.ctr; omega
        · exact Or.inr h'

/-- result of a successful `OMap.remove` -/
structure ORemPost (T : Nat) (D : DigestFn (r + 1)) (m m' : OMap r) (k : MKey) (v : Elem) (c c' : Ctx) : Prop where
  eff : RemEffect m.toList m'.toList k v
  inv : MapInv T D m'
  ctx : CtxOk m' c'
  rootID : m'.rootID = m.rootID
  ty : m'.ty = m.ty
  seed : m'.seed = m.seed
  count : m'.count = m.count - 1

theorem OMap.remove_spec (hT : legalThreshold T = true) {m : OMap r} (hcfg : CfgOk cfg T m) (h : MapInv T D m)
    {k : MKey} (hk : KeyOk T (r + 1) D k) (c : Ctx) (hc : CtxOk m c) :
    ((∀ p ∈ m.toList, p.1 ≠ k) → m.remove cfg k c = .error .keyNotFound) ∧
    (∀ v, (k, v) ∈ m.toList → ∃ m' c', m.remove cfg k c = .ok (k, v, m', c') ∧ ORemPost T D m m' k v c c') := by
  have hc' : CfgFor cfg T (r + 1) := ⟨hcfg.1, hcfg.2.1⟩
  obtain ⟨d, root, ty, cnt, seed⟩ := m
  obtain ⟨h1, h2⟩ := MTree.remove_spec hT hc' hk d true root c h.tree
  constructor
  · intro hne
    have := h1 hne
    simp only [OMap.remove, this, bind, Except.bind]
  · intro v hv
    obtain ⟨root', c1, heq, hp⟩ := h2 v hv
    have hinl : treeInl d root' = false := by
      rw [hp.inl, ← isInlined_eq d root ty cnt seed]; exact h.standalone
    have hle : (MTree.hdr d root').size ≤ maxThr T + slack1 T d := by
      have := hp.size_le; have := MTreeInv.le_max d true root h.tree; omega
    have hchain : ChainTo (MTree.leaves d root') SlabID.undef :=
      hp.leaves.2.2.2 _ ((mLeafChain_iff _).mp h.chain)
    obtain ⟨m3, c3, heq3, hpost⟩ := root_fixup hT d root' ty (cnt - 1) seed c1 hp.sinv hinl hle hchain
    have hT' : cfg.T = T := hcfg.1
    refine ⟨m3, c3, ?_, ?_⟩
    · simp only [OMap.remove, heq, bind, Except.bind, pure, Except.pure, hT']
      simp only [heq3]
    · have htl : m3.toList = MTree.toList d root' := hpost.toList
      have hcnt : cnt = (MTree.toList d root).length := h.count_eq
      have hlen := hp.eff.length
      have hrid : m3.rootID = (⟨d, root, ty, cnt, seed⟩ : OMap r).rootID := by
        rw [hpost.rootID]; exact hp.id_eq
      refine ⟨by rw [htl]; exact hp.eff, MapInv.of_rootPost hpost ?_, ?_, hrid, hpost.ty, hpost.seed, hpost.count⟩
      · rw [hpost.count, htl]
        show cnt - 1 = _
        omega
      · refine ctxOk_of hc (by have := hp.ctr; have := hpost.ctr; omega) hrid ?_
        intro id hid
        rcases hpost.ids id hid with h' | h'
        · rcases hp.ids id h' with h'' | h''
          · exact Or.inl h''
          · right; have := hpost.ctr; omega
        · exact Or.inr h'

end Atree
