import AtreeProofs.Map.TreeGet
/-
  Facts about whole maps (`MapInv`) used by the property theorems.
-/
namespace Atree
open Gen

variable {T : Nat} {r : Nat} {D : DigestFn (r + 1)}

theorem MTreeInv.sinv_top : ∀ (d : Nat) (t : MTree r d), MTreeInv T D d true t → SInv T D d true t
  | 0, _, h => ((mtreeInv_zero_iff T D _ _).mp h).loose
  | _ + 1, m, h => by
    have := (mtreeInv_succ_iff T D _ true m).mp h
    exact ⟨this.1, by have := this.2.2.2 rfl; omega⟩

theorem MapInv.sinv {m : OMap r} (h : MapInv T D m) : SInv T D m.d true m.root := MTreeInv.sinv_top m.d m.root h.tree

theorem MapInv.allKeyOk {m : OMap r} (h : MapInv T D m) : AllKeyOk T (r + 1) D m.toList :=
  fun p hp => (MTreeInv.pairs_ok m.d true m.root h.tree p hp).1

theorem OMap.get_spec (hT : legalThreshold T = true) {cfg : MCfg} {m : OMap r} (hcfg : CfgOk cfg T m)
    (h : MapInv T D m) {k : MKey} (hk : KeyOk T (r + 1) D k) :
    match dictLookup m.toList k with
    | some v => m.get cfg k = .ok (k, v)
    | none => m.get cfg k = .error .keyNotFound := by
  have hc : CfgFor cfg T (r + 1) := ⟨hcfg.1, hcfg.2.1⟩
  have hg := MTree.get_spec hT hc m.d true m.root h.sinv hk
  cases hd : dictLookup m.toList k with
  | none =>
    simp only
    exact hg.2 ((dictLookup_none_iff h.allKeyOk hk).mp hd)
  | some v =>
    simp only
    exact hg.1 v (mem_of_dictLookup_some h.allKeyOk hk hd)

end Atree
