import AtreeProofs.Map.ExportTree
import AtreeProofs.Map.MapOps
/-
  C12: WHERE a new key goes.  A `Set` that returns no previous value (the key is new) puts the new
  pair BEHIND every pair with the same digest vector (`NewLast`): fully colliding keys keep their
  order of insertion, because the list used when the digests are exhausted only ever appends.
  Proved level by level (`OrdSpec`), then through the slab tree and the root fix-up.
-/
namespace Atree
open Gen

/-- `l'` is `l` with one pair of key `k` inserted, and no pair behind it has the digest vector of `k` -/
def NewLast (l l' : List (MKey × Elem)) (k : MKey) : Prop :=
  ∃ A B sv, l = A ++ B ∧ l' = A ++ (k, sv) :: B ∧ ∀ p ∈ B, p.1.digs ≠ k.digs

theorem NewLast.lift {l l' : List (MKey × Elem)} {k : MKey} (h : NewLast l l' k) (P S : List (MKey × Elem))
    (hS : ∀ p ∈ S, p.1.digs ≠ k.digs) : NewLast (P ++ (l ++ S)) (P ++ (l' ++ S)) k := by
  obtain ⟨A, B, sv, rfl, rfl, hB⟩ := h
  refine ⟨P ++ A, B ++ S, sv, by simp, by simp, ?_⟩
  intro p hp
  rcases List.mem_append.mp hp with hp | hp
  · exact hB p hp
  · exact hS p hp

theorem digs_ne_of_dig_ne {a b : MKey} {ℓ : Nat} (h : a.dig ℓ ≠ b.dig ℓ) : a.digs ≠ b.digs := by
  intro e; apply h; simp only [MKey.dig, e]

/-- what the induction carries from one digest level to the next -/
structure OrdSpec (T L : Nat) (D : DigestFn L) (cfg : MCfg) {α : Type} (o : ElemsOps α)
    (Inv : Nat → List Nat → α → Prop) : Prop where
  set : ∀ {ℓ path e k v} (c : Ctx) {ks : MKey} {e' : α} {c' : Ctx}, Inv ℓ path e → KeyOk T L D k →
    k.digs.take ℓ = path → o.set cfg e ℓ k v c = .ok (ks, none, e', c') → NewLast (o.toList e) (o.toList e') k

/-! ### the last-level list appends -/

theorem SingleElems.ordSpec (T L : Nat) (D : DigestFn L) (cfg : MCfg) :
    OrdSpec T L D cfg SingleElems.ops (ElemsInv T L D 0) := by
  constructor
  intro ℓ path e k v c ks e' c' _ _ _ h
  have h' : SingleElems.set cfg e ℓ k v c = .ok (ks, none, e', c') := h
  simp only [SingleElems.set] at h'
  split at h'
  · cases h'
  · split at h'
    · split at h'
      · cases h'
      · simp only [Except.ok.injEq, Prod.mk.injEq] at h'
        exact absurd h'.2.1 (by simp)
    · simp only [Except.ok.injEq, Prod.mk.injEq] at h'
      refine ⟨e.elems.map (fun x => (x.key, x.val)), [], (newSingleElement cfg.T cfg.addr k v c).1.val, by simp [SingleElems.ops], ?_,
        by simp⟩
      rw [← h'.2.2.1]
      simp [SingleElems.ops, newSingleElement]

/-! ### one element -/

namespace MElemF
variable {α : Type} {o : ElemsOps α}

theorem inlSet_ok {cfg : MCfg} {g : α} {ℓ : Nat} {k : MKey} {v : Elem} {c : Ctx} {el' : MElemF α} {ks : MKey}
    {old : Option Elem} {c' : Ctx} (h : inlSet o cfg g ℓ k v c = .ok (el', ks, old, c')) :
    ∃ g' c1, o.set cfg g (ℓ + 1) k v c = .ok (ks, old, g', c1) ∧ el'.toList o = o.toList g' := by
  simp only [inlSet, bind, Except.bind, throw, throwThe, MonadExceptOf.throw, pure, Except.pure] at h
  split at h
  · cases h
  · cases hs : o.set cfg g (ℓ + 1) k v c with
    | error e => rw [hs] at h; cases h
    | ok res =>
      obtain ⟨ks', old', g', c1⟩ := res
      rw [hs] at h
      simp only at h
      split at h
      · simp only [Except.ok.injEq, Prod.mk.injEq] at h
        exact ⟨g', c1, by rw [h.2.1, h.2.2.1], by rw [← h.1]; rfl⟩
      · simp only [Except.ok.injEq, Prod.mk.injEq] at h
        exact ⟨g', c1, by rw [h.2.1, h.2.2.1], by rw [← h.1]; rfl⟩

variable {T L : Nat} {D : DigestFn L} {cfg : MCfg} {Inv : Nat → List Nat → α → Prop} {rr : Nat}

/-- `element.Set` of a new key, for an element below digest `hk = k.dig ℓ` -/
theorem set_newLast (S : OpsSpec T L D cfg o Inv rr) (O : OrdSpec T L D cfg o Inv) {ℓ : Nat} {path : List Nat}
    {el : MElemF α} (hℓ : ℓ + 1 + rr = L) {k : MKey} (hk : KeyOk T L D k) (hp1 : k.digs.take (ℓ + 1) = path ++ [k.dig ℓ])
    (hEl : MElemOk T L D o Inv ℓ path (k.dig ℓ) el) {v : Elem} {c : Ctx} {el' : MElemF α} {ks : MKey} {c' : Ctx}
    (h : el.set o cfg ℓ k v c = .ok (el', ks, none, c')) : NewLast (el.toList o) (el'.toList o) k := by
  cases el with
  | single x =>
    simp only [set] at h
    split at h
    · simp only [Except.ok.injEq, Prod.mk.injEq] at h
      exact absurd h.2.2.1 (by simp)
    · simp only [bind, Except.bind] at h
      obtain ⟨g, hg, hinv, hgl⟩ := S.newWith (ℓ := ℓ + 1) (path := path ++ [k.dig ℓ]) (x := x) hℓ hEl.1 hEl.2
      rw [hg] at h
      obtain ⟨g', c1, hset, htl⟩ := inlSet_ok h
      have := O.set c hinv hk hp1 hset
      rw [hgl] at this
      rw [htl]
      exact this
  | inl g =>
    simp only [set] at h
    obtain ⟨g', c1, hset, htl⟩ := inlSet_ok h
    have := O.set c hEl.1 hk hp1 hset
    rw [htl]
    exact this
  | ext id sz s =>
    simp only [set, bind, Except.bind, throw, throwThe, MonadExceptOf.throw, pure, Except.pure] at h
    split at h
    · cases h
    · cases hs : o.set cfg s.elems (ℓ + 1) k v c with
      | error e => rw [hs] at h; cases h
      | ok res =>
        obtain ⟨ks', old', g', c1⟩ := res
        rw [hs] at h
        simp only [Except.ok.injEq, Prod.mk.injEq] at h
        have hold : old' = none := h.2.2.1
        subst hold
        have := O.set c hEl.2.2.2.2.2.1 hk hp1 hs
        rw [← h.1]
        exact this

end MElemF

/-! ### a digest table -/

namespace HInv
variable {T L : Nat} {D : DigestFn L} {cfg : MCfg} {α : Type} {o : ElemsOps α}
  {Inv : Nat → List Nat → α → Prop} {rr : Nat} {ℓ : Nat} {path : List Nat} {he : HkeyElems α}

/-- the pairs of the elements behind position `q` have another digest at this level than `k` when all
    digests from `q` on differ from `k`'s -/
theorem later_digs (S : OpsStruct T L D o Inv rr) (H : HInv T L D o Inv rr ℓ path he) {k : MKey} {q : Nat}
    (hne : ∀ j a, q ≤ j → he.hkeys[j]? = some a → a ≠ k.dig ℓ) :
    ∀ p ∈ (he.elems.drop q).flatMap (MElemF.toList o), p.1.digs ≠ k.digs := by
  intro p hp
  obtain ⟨el, hel, hpel⟩ := List.mem_flatMap.mp hp
  obtain ⟨j, hj⟩ := List.mem_iff_getElem?.mp hel
  rw [List.getElem?_drop] at hj
  obtain ⟨a, ha⟩ := H.hkey_at hj
  have hd := (H.keys_at S ha hj p hpel).2.2
  apply digs_ne_of_dig_ne (ℓ := ℓ)
  rw [hd]
  exact hne _ a (by omega) ha

theorem setAt_ok {i : Nat} {el : MElemF α} {k : MKey} {v : Elem} {c : Ctx} {ks : MKey} {old : Option Elem}
    {e' : HkeyElems α} {c' : Ctx} (h : HkeyElems.setAt o cfg he ℓ k v c i el = .ok (ks, old, e', c')) :
    ∃ el', el.set o cfg ℓ k v c = .ok (el', ks, old, c') ∧ e'.elems = he.elems.set i el' := by
  simp only [HkeyElems.setAt, bind, Except.bind, pure, Except.pure, throw, throwThe, MonadExceptOf.throw] at h
  cases hs : MElemF.set o cfg el ℓ k v c with
  | error err =>
    rw [hs] at h
    simp only at h
    exfalso
    repeat' split at h
    all_goals first | contradiction | cases h
  | ok x =>
    obtain ⟨el', ks', old', c1⟩ := x
    rw [hs] at h
    simp only at h
    repeat' split at h
    all_goals first
      | exact ⟨_, rfl, rfl⟩
      | (cases h; exact ⟨_, rfl, rfl⟩)
      | contradiction
      | cases h

/-- `hkeyElements.Set` of a new key -/
theorem set_newLast (S : OpsSpec T L D cfg o Inv rr) (O : OrdSpec T L D cfg o Inv) (hc : CfgFor cfg T L)
    (H : HInv T L D o Inv rr ℓ path he) {k : MKey} (hkk : KeyOk T L D k) (hpath : k.digs.take ℓ = path)
    {v : Elem} {c : Ctx} {ks : MKey} {e' : HkeyElems α} {c' : Ctx}
    (h : HkeyElems.set o cfg he ℓ k v c = .ok (ks, none, e', c')) :
    NewLast (HkeyElems.toList o he) (HkeyElems.toList o e') k := by
  have hlev : ¬ (ℓ ≥ cfg.L) := by rw [hc.hL]; have := H.level_lt; omega
  have hp1 : k.digs.take (ℓ + 1) = path ++ [k.dig ℓ] := by rw [hkk.take_succ H.level_lt, hpath]
  by_cases hex : ∃ i : Nat, he.hkeys[i]? = some (k.dig ℓ)
  · obtain ⟨i, hi⟩ := hex
    obtain ⟨el, hel⟩ := H.elem_at hi
    rw [HkeyElems.set_eq_setAt o cfg he ℓ k v c H.sorted hlev hi hel] at h
    obtain ⟨el', hset, helems⟩ := setAt_ok h
    have hEl := H.elemOk hi hel
    have hℓ : ℓ + 1 + rr = L := by have := H.1; omega
    have hnl := MElemF.set_newLast S O hℓ hkk hp1 hEl hset
    have hloc := flatMap_split (MElemF.toList o) hel
    have htl : HkeyElems.toList o e' = (he.elems.take i).flatMap (MElemF.toList o) ++
        (el'.toList o ++ (he.elems.drop (i + 1)).flatMap (MElemF.toList o)) := by
      simp only [HkeyElems.toList, helems]
      exact flatMap_set _ hel
    rw [htl]
    show NewLast (he.elems.flatMap (MElemF.toList o)) _ k
    rw [hloc]
    refine hnl.lift _ _ (later_digs S.toOpsStruct H ?_)
    intro j a hj ha hak
    have := sorted_get_inj H.sorted (by rw [hak] at ha; exact ha) hi
    omega
  · have hno : ∀ j : Nat, he.hkeys[j]? ≠ some (k.dig ℓ) := fun j hj => hex ⟨j, hj⟩
    obtain ⟨q, hq, hlt, hgt, heq⟩ := HkeyElems.set_absent o cfg he ℓ k v c H.sorted hlev hno
    rw [heq] at h
    simp only [HkeyElems.insertNew, Except.ok.injEq, Prod.mk.injEq] at h
    have hq' : q ≤ he.elems.length := by rw [← H.len_eq]; exact hq
    rw [← h.2.2.1]
    refine ⟨(he.elems.take q).flatMap (MElemF.toList o), (he.elems.drop q).flatMap (MElemF.toList o),
      (newSingleElement cfg.T cfg.addr k v c).1.val, flatMap_take_drop q _, ?_, later_digs S.toOpsStruct H ?_⟩
    · simp only [HkeyElems.toList]
      rw [flatMap_insertIdx _ hq']
      rfl
    · intro j a hj ha hak
      have := hgt j a hj ha
      omega

theorem ordSpec (S : OpsSpec T L D cfg o Inv rr) (O : OrdSpec T L D cfg o Inv) (hc : CfgFor cfg T L) :
    OrdSpec T L D cfg (HkeyElems.ops o) (HInv T L D o Inv rr) :=
  ⟨by intro ℓ path e k v c ks e' c' H hk hp h; exact set_newLast S O hc H hk hp h⟩

end HInv

/-- every digest level -/
theorem MElems.ordSpec {T L : Nat} (D : DigestFn L) {cfg : MCfg} (hT : legalThreshold T = true)
    (hc : CfgFor cfg T L) : ∀ r, OrdSpec T L D cfg (MElems.ops r) (ElemsInv T L D r)
  | 0 => SingleElems.ordSpec T L D cfg
  | r + 1 => by
    rw [elemsInv_succ_eq]
    exact HInv.ordSpec (MElems.opsSpec D hT hc r) (MElems.ordSpec D hT hc r) hc

/-! ### slabs, the tree, the map -/

variable {T : Nat} {r : Nat} {D : DigestFn (r + 1)} {cfg : MCfg}

theorem MTree.toList_eq_elems0 : ∀ (d : Nat) (t : MTree r d),
    MTree.toList d t = (MTree.elems0 d t).flatMap (MElemF.toList (MElems.ops r))
  | 0, _ => rfl
  | d + 1, (m : MMetaSlab (MTree r d)) => by
    show m.children.flatMap (MTree.toList d) = (m.children.flatMap (MTree.elems0 d)).flatMap _
    rw [List.flatMap_assoc]
    congr 1
    funext c
    exact MTree.toList_eq_elems0 d c

theorem MTree.flatMap_toList_eq {d : Nat} (l : List (MTree r d)) :
    l.flatMap (MTree.toList d) = (l.flatMap (MTree.elems0 d)).flatMap (MElemF.toList (MElems.ops r)) := by
  rw [List.flatMap_assoc]
  congr 1
  funext c
  exact MTree.toList_eq_elems0 d c

/-- `MapSlab.Set` of a new key -/
theorem MTree.set_newLast (hT : legalThreshold T = true) (hc : CfgFor cfg T (r + 1)) {k : MKey}
    (hk : KeyOk T (r + 1) D k) : ∀ (d : Nat) (top : Bool) (t t' : MTree r d) (v : Elem) (c c' : Ctx) (ks : MKey),
    MTreeInv T D d top t → MTree.set cfg d t k v c = .ok (ks, none, t', c') →
    NewLast (MTree.toList d t) (MTree.toList d t') k
  | 0, top, (s : MDataSlab r), t', v, c, c', ks, hinv, h => by
    have hloose := ((mtreeInv_zero_iff T D top s).mp hinv).loose
    have h' : MDataSlab.set cfg s k v c = .ok (ks, none, t', c') := h
    simp only [MDataSlab.set, bind, Except.bind, pure, Except.pure] at h'
    cases hs : HkeyElems.set (MDataSlab.eops r) cfg s.elems 0 k v c with
    | error e => rw [hs] at h'; cases h'
    | ok x =>
      obtain ⟨ks', old', e', c1⟩ := x
      rw [hs] at h'
      have h2 := Except.ok.inj h'
      have hold : old' = none := (Prod.mk.inj (Prod.mk.inj h2).2).1
      have ht : _ = t' := (Prod.mk.inj (Prod.mk.inj (Prod.mk.inj h2).2).2).1
      subst hold
      rw [← ht]
      exact HInv.set_newLast (MElems.opsSpec D hT hc r) (MElems.ordSpec D hT hc r) hc hloose.hinv hk rfl hs
  | d + 1, top, (m : MMetaSlab (MTree r d)), t', v, c, c', ks, hinv, h => by
    have hm := ((mtreeInv_succ_iff T D d top m).mp hinv).1
    have hlen : 1 ≤ m.children.length := by
      cases top
      · exact (MTreeInv.sinv hT hinv).2
      · exact (MTreeInv.sinv_top (d + 1) m hinv).2
    simp only [MTree.set, bind, Except.bind, pure, Except.pure, throw, throwThe, MonadExceptOf.throw] at h
    -- routing
    have hroute := route hT hm hlen (k.dig 0)
    have hfc := MMetaSlab.findChild_some0 m.childHdrs (k.dig 0) (m.childHdrs.length + 1) 0 m.childHdrs.length 0
    rw [hfc] at h
    simp only [Option.getD_some] at h
    obtain ⟨i, A, child, B, hrt, hi⟩ : ∃ i A child B, Routed d m (k.dig 0) i A child B ∧
        (MMetaSlab.findChild m.childHdrs (k.dig 0) 0 m.childHdrs.length none (m.childHdrs.length + 1)).getD 0 = i := by
      cases hr : MMetaSlab.findChild m.childHdrs (k.dig 0) 0 m.childHdrs.length none (m.childHdrs.length + 1) with
      | none =>
        rw [hr] at hroute
        obtain ⟨_, child, B, hrt⟩ := hroute
        exact ⟨0, [], child, B, hrt, rfl⟩
      | some i =>
        rw [hr] at hroute
        obtain ⟨A, child, B, hrt, _⟩ := hroute
        exact ⟨i, A, child, B, hrt, rfl⟩
    rw [hi] at h
    have h2 : m.children[i]? = some child := by
      rw [hrt.ch, ← hrt.len]; simp
    rw [h2] at h
    simp only at h
    cases hs : MTree.set cfg d child k v c with
    | error e => rw [hs] at h; cases h
    | ok x =>
      obtain ⟨ks', old', child', c1⟩ := x
      rw [hs] at h
      simp only at h
      cases ha : m.afterChild cfg.T child' i c1 with
      | error e => rw [ha] at h; cases h
      | ok y =>
        obtain ⟨m', c2⟩ := y
        rw [ha] at h
        have h3 := Except.ok.inj h
        have hold : old' = none := (Prod.mk.inj (Prod.mk.inj h3).2).1
        have ht : m' = t' := (Prod.mk.inj (Prod.mk.inj (Prod.mk.inj h3).2).2).1
        subst hold
        rw [← ht]
        have hchild : MTreeInv T D d false child := hm.2.2.2.2.1 child (List.mem_of_getElem? h2)
        have ih := MTree.set_newLast hT hc hk d false child child' v c c1 ks' hchild hs
        have he0 : m'.children.flatMap (MTree.elems0 d) = _ :=
          MMetaSlab.afterChild_elems0 cfg.T m m' child child' i c1 c2 h2 ha
        have htl' : m'.children.flatMap (MTree.toList d) = (m.children.take i).flatMap (MTree.toList d) ++
            (MTree.toList d child' ++ (m.children.drop (i + 1)).flatMap (MTree.toList d)) := by
          rw [MTree.flatMap_toList_eq, he0, MTree.flatMap_toList_eq, MTree.flatMap_toList_eq, MTree.toList_eq_elems0]
          simp only [List.flatMap_append, List.append_assoc]
        have htl : m.children.flatMap (MTree.toList d) = (m.children.take i).flatMap (MTree.toList d) ++
            (MTree.toList d child ++ (m.children.drop (i + 1)).flatMap (MTree.toList d)) :=
          flatMap_split (MTree.toList d) h2
        show NewLast (m.children.flatMap (MTree.toList d)) (m'.children.flatMap (MTree.toList d)) k
        rw [htl', htl]
        refine ih.lift _ _ ?_
        -- the pairs of the later children have a larger first-level digest
        have hdrop : m.children.drop (i + 1) = B := by
          rw [hrt.ch, ← hrt.len]; simp
        rw [hdrop]
        intro p hp
        obtain ⟨cb, hcb, hpcb⟩ := List.mem_flatMap.mp hp
        have hcbm : cb ∈ m.children := by rw [hrt.ch]; exact List.mem_append_right _ (List.mem_cons_of_mem _ hcb)
        have hpo := MTreeInv.pairs_ok d false cb (hm.2.2.2.2.1 cb hcbm) p hpcb
        have hgt := hrt.hi (p.1.dig 0) (List.mem_flatMap.mpr ⟨cb, hcb, hpo.2⟩)
        exact digs_ne_of_dig_ne (ℓ := 0) (by omega)

/-- FULL COLLISIONS KEEP THEIR INSERTION ORDER (one `Set` on a whole map).  When `Set` returns no
    previous value (the key is new), the iteration order of the map afterwards is the order before
    it with the new pair inserted BEHIND every pair that has the same digest vector as the new key. -/
theorem OMap.set_newLast (hT : legalThreshold T = true) {m m' : OMap r} (hcfg : CfgOk cfg T m) (h : MapInv T D m)
    {k : MKey} (hk : KeyOk T (r + 1) D k) {v : Elem} {c c' : Ctx}
    (hs : m.set cfg k v c = .ok (none, m', c')) : NewLast m.toList m'.toList k := by
  have hc : CfgFor cfg T (r + 1) := ⟨hcfg.1, hcfg.2.1⟩
  simp only [OMap.set, bind, Except.bind, pure, Except.pure] at hs
  cases h1 : MTree.set cfg m.d m.root k v c with
  | error e => rw [h1] at hs; cases hs
  | ok x =>
    obtain ⟨ks, old', root', c1⟩ := x
    rw [h1] at hs
    simp only at hs
    cases h2 : OMap.splitRootIfFull cfg.T
        (OMap.promoteIfSingleChild { m with root := root', count := if old'.isNone then m.count + 1 else m.count } c1).1
        (OMap.promoteIfSingleChild { m with root := root', count := if old'.isNone then m.count + 1 else m.count } c1).2 with
    | error e => rw [h2] at hs; cases hs
    | ok y =>
      obtain ⟨m3, c3⟩ := y
      rw [h2] at hs
      simp only [Except.ok.injEq, Prod.mk.injEq] at hs
      have hold : old' = none := hs.1
      subst hold
      have h3 : m3.toList = MTree.toList m.d root' := by
        have e1 := OMap.splitRootIfFull_elems0 cfg.T _ m3 _ c3 h2
        have e2 := OMap.promote_elems0 ({ m with root := root', count := if (none : Option Elem).isNone then m.count + 1 else m.count } : OMap r) c1
        have e3 : m3.elems0 = MTree.elems0 m.d root' := e1.trans e2
        show MTree.toList m3.d m3.root = _
        rw [MTree.toList_eq_elems0, MTree.toList_eq_elems0]
        exact congrArg (fun l => l.flatMap (MElemF.toList (MElems.ops r))) e3
      rw [← hs.2.1, h3]
      exact MTree.set_newLast hT hc hk m.d true m.root root' v c c1 ks h.tree h1

end Atree
