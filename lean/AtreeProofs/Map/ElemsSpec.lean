import AtreeProofs.Map.Dict
import AtreeProofs.Map.Arith
/-
  Specification of an `ElemsOps` record ("behaves like a dictionary and preserves `Inv`"), the
  per-element invariant and the generic invariant of a digest table over such elements.
-/
namespace Atree
open Gen

structure CfgFor (cfg : MCfg) (T L : Nat) : Prop where
  hT : cfg.T = T
  hL : cfg.L = L

/-- structural facts about the values satisfying `Inv level path`; `rr` is the number of digest
    levels below (`level + rr = L`). -/
structure OpsStruct (T L : Nat) (D : DigestFn L) {α : Type} (o : ElemsOps α)
    (Inv : Nat → List Nat → α → Prop) (rr : Nat) : Prop where
  level_eq : ∀ {ℓ path e}, Inv ℓ path e → ℓ + rr = L
  keys : ∀ {ℓ path e}, Inv ℓ path e → ∀ p ∈ o.toList e, KeyOk T L D p.1 ∧ p.1.digs.take ℓ = path
  distinct : ∀ {ℓ path e}, Inv ℓ path e → KeysDistinct (o.toList e)
  ordered : ∀ {ℓ path e}, Inv ℓ path e →
    ((o.toList e).map (fun p => p.1.digs)).Pairwise (fun a b => a = b ∨ List.Lex (· < ·) a b)
  count_pos : ∀ {ℓ path e}, Inv ℓ path e → (1 ≤ o.count e ↔ o.toList e ≠ [])
  two_keys : ∀ {ℓ path e}, Inv ℓ path e → 1 ≤ o.count e → o.soleSingle e = none → 2 ≤ (o.toList e).length
  sole : ∀ {ℓ path e x}, Inv ℓ path e → o.soleSingle e = some x →
    SElemOk T L D x ∧ o.toList e = [(x.key, x.val)] ∧ x.size ≤ o.size e
  popIter : ∀ e c, (o.popIter e c).1 = (o.toList e).reverse

/-- `o` implements a dictionary on values satisfying `Inv level path`. -/
structure OpsSpec (T L : Nat) (D : DigestFn L) (cfg : MCfg) {α : Type} (o : ElemsOps α)
    (Inv : Nat → List Nat → α → Prop) (rr : Nat) : Prop extends OpsStruct T L D o Inv rr where
  newWith : ∀ {ℓ path x}, ℓ + rr = L → SElemOk T L D x → x.key.digs.take ℓ = path →
    ∃ g, o.newWith cfg ℓ x = .ok g ∧ Inv ℓ path g ∧ o.toList g = [(x.key, x.val)]
  get : ∀ {ℓ path e k}, Inv ℓ path e → KeyOk T L D k → k.digs.take ℓ = path →
    (∀ v, (k, v) ∈ o.toList e → o.get cfg e ℓ k = .ok (k, v)) ∧
    ((∀ p ∈ o.toList e, p.1 ≠ k) → o.get cfg e ℓ k = .error .keyNotFound)
  set : ∀ {ℓ path e k v} (c : Ctx), Inv ℓ path e → 1 ≤ ℓ → KeyOk T L D k → k.digs.take ℓ = path → ValueOkM v →
    ∃ old e' c', o.set cfg e ℓ k v c = .ok (k, old, e', c') ∧ Inv ℓ path e' ∧
      SetEffect (o.toList e) (o.toList e') k (storedValue cfg k v c) old ∧ c.ctr ≤ c'.ctr
  remove : ∀ {ℓ path e k} (c : Ctx), Inv ℓ path e → 1 ≤ ℓ → KeyOk T L D k → k.digs.take ℓ = path →
    ((∀ p ∈ o.toList e, p.1 ≠ k) → o.remove cfg e ℓ k c = .error .keyNotFound) ∧
    (∀ v, (k, v) ∈ o.toList e → ∃ e' c', o.remove cfg e ℓ k c = .ok (k, v, e', c') ∧ Inv ℓ path e' ∧
      RemEffect (o.toList e) (o.toList e') k v ∧ o.size e' ≤ o.size e ∧ c'.ctr = c.ctr)

instance {T L : Nat} {D : DigestFn L} {cfg : MCfg} {α : Type} {o : ElemsOps α}
    {Inv : Nat → List Nat → α → Prop} {rr : Nat} :
    CoeOut (OpsSpec T L D cfg o Inv rr) (OpsStruct T L D o Inv rr) := ⟨fun s => s.toOpsStruct⟩

/-- invariant of one element of a digest table at `level`, below digest `hk` -/
def MElemOk (T L : Nat) (D : DigestFn L) {α : Type} (o : ElemsOps α) (Inv : Nat → List Nat → α → Prop)
    (ℓ : Nat) (path : List Nat) (hk : Nat) : MElemF α → Prop
  | .single x => SElemOk T L D x ∧ x.key.digs.take (ℓ + 1) = path ++ [hk]
  | .inl g => Inv (ℓ + 1) (path ++ [hk]) g ∧ 1 ≤ o.count g ∧ o.soleSingle g = none ∧
      (ℓ = 0 → inlineCollisionGroupPrefixSize + o.size g ≤ maxInlineMapElem T)
  | .ext id sz s => ℓ = 0 ∧ sz = externalCollisionGroupPrefixSize + slabIDStorableSize ∧ s.hdr.id = id ∧
      s.hdr.size = mapDataSlabPrefixSize + o.size s.elems ∧ s.hdr.firstKey = o.firstKey s.elems ∧
      Inv (ℓ + 1) (path ++ [hk]) s.elems ∧ 1 ≤ o.count s.elems ∧ o.soleSingle s.elems = none

/-- generic form of `ElemsInv … (r+1)` -/
def HInv (T L : Nat) (D : DigestFn L) {α : Type} (o : ElemsOps α) (Inv : Nat → List Nat → α → Prop) (rr : Nat)
    (ℓ : Nat) (path : List Nat) (he : HkeyElems α) : Prop :=
  ℓ + rr + 1 = L ∧ he.level = ℓ ∧ he.hkeys.length = he.elems.length ∧ he.hkeys.Pairwise (· < ·) ∧
  he.size = hkeyElementsPrefixSize + HkeyElems.elemSizes o he.elems ∧
  ∀ (i hk : Nat) (el : MElemF α), he.hkeys[i]? = some hk → he.elems[i]? = some el → MElemOk T L D o Inv ℓ path hk el

theorem elemsInv_succ_iff (T L : Nat) (D : DigestFn L) (r ℓ : Nat) (path : List Nat) (he : HkeyElems (MElems r)) :
    ElemsInv T L D (r + 1) ℓ path he ↔ HInv T L D (MElems.ops r) (ElemsInv T L D r) r ℓ path he := by
  simp only [ElemsInv, HInv]
  constructor
  · rintro ⟨h1, h2, h3, h4, h5, h6⟩
    refine ⟨h1, h2, h3, h4, h5, ?_⟩
    intro i hk el hi he'
    have := h6 i hk el hi he'
    cases el <;> exact this
  · rintro ⟨h1, h2, h3, h4, h5, h6⟩
    refine ⟨h1, h2, h3, h4, h5, ?_⟩
    intro i hk el hi he'
    have := h6 i hk el hi he'
    cases el <;> exact this

/-- the IDs of the external collision groups among first-level elements -/
def extIds {α : Type} (l : List (MElemF α)) : List SlabID :=
  l.filterMap (fun el => match el with | .ext id _ _ => some id | _ => none)

def MElemF.extId? {α : Type} : MElemF α → Option SlabID
  | .ext id _ _ => some id
  | _ => none

end Atree
