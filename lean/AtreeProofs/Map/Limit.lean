import AtreeProofs.Map.MapOps
/-
  The collision limit at tree level: absence, and the link with the count of the first-level
  element below the digest of the key (`firstLevelGroupCount` of C12).
-/
namespace Atree
open Gen

variable {T : Nat} {r : Nat} {D : DigestFn (r + 1)} {d : Nat} {cfg : MCfg}

theorem exists_routed (hT : legalThreshold T = true) {top : Bool} {m : MMetaSlab (MTree r d)}
    (hm : MetaLoose T D d top m) (hlen : 1 ≤ m.children.length) (hkey : Nat) :
    ∃ i A child B, Routed d m hkey i A child B := by
  have hroute := route hT hm hlen hkey
  cases hr : MMetaSlab.findChild m.childHdrs hkey 0 m.childHdrs.length none (m.childHdrs.length + 1) with
  | none =>
    rw [hr] at hroute
    obtain ⟨_, child, B, hrt⟩ := hroute
    exact ⟨0, [], child, B, hrt⟩
  | some i =>
    rw [hr] at hroute
    obtain ⟨A, child, B, hrt, _⟩ := hroute
    exact ⟨i, A, child, B, hrt⟩

theorem tlimited_absent_succ (hT : legalThreshold T = true) {top : Bool} (m : MMetaSlab (MTree r d))
    (hm : MetaLoose T D d top m) (hlen : 1 ≤ m.children.length) {k : MKey}
    (ih : ∀ c ∈ m.children, TLimited cfg d c k → ∀ p ∈ MTree.toList d c, p.1 ≠ k)
    (h : TLimited cfg (d + 1) m k) : ∀ p ∈ MTree.toList (d + 1) m, p.1 ≠ k := by
  obtain ⟨i, A, child, B, hrt⟩ := exists_routed hT hm hlen (k.dig 0)
  have hc := (tlimited_routed (cfg := cfg) hrt).mp h
  obtain ⟨hA, hB⟩ := hrt.absent hm (k := k)
  have hmem : child ∈ m.children := by rw [hrt.ch]; simp
  intro p hp
  rw [hrt.toList_eq] at hp
  rcases List.mem_append.mp hp with h' | h'
  · exact hA p h'
  · rcases List.mem_append.mp h' with h'' | h''
    · exact ih child hmem hc p h''
    · exact hB p h''

/-- a key refused by the collision limit is absent from the whole subtree -/
theorem tlimited_absent (hT : legalThreshold T = true) {k : MKey} : ∀ (d : Nat) (top : Bool) (t : MTree r d),
    SInv T D d top t → TLimited cfg d t k → ∀ p ∈ MTree.toList d t, p.1 ≠ k
  | 0, _, s, _, ⟨s', hs', hl⟩ => by
    have : s' = s := List.mem_singleton.mp hs'
    subst this
    obtain ⟨_, i, el, _, _, _, habs⟩ := hl
    exact habs
  | d + 1, _, m, hS, h =>
    tlimited_absent_succ hT m hS.1 hS.2
      (fun c hc => tlimited_absent hT d false c (MTreeInv.sinv hT (hS.1.2.2.2.2.1 c hc))) h

/-! ### the count of the first-level element below a digest -/

theorem findSome_flat {α β : Type} (f : α → List β) (p : β → Bool) (l : List α) :
    l.findSome? (fun a => (f a).find? p) = (l.flatMap f).find? p := by
  induction l with
  | nil => rfl
  | cons a l ih =>
    rw [List.findSome?_cons, List.flatMap_cons, List.find?_append, ih]
    cases (f a).find? p <;> rfl

/-- the (digest, element) pairs of a data slab -/
def leafEntries (s : MDataSlab r) : List (Nat × MElemF (MElems r)) := s.elems.hkeys.zip s.elems.elems

theorem leaf_loose : ∀ (d : Nat) (top : Bool) (t : MTree r d), MTreeInv T D d top t →
    ∀ s ∈ MTree.leaves d t, ∃ top', MDataLoose T D top' s
  | 0, top, t, h, s, hs => by
    have : s = t := List.mem_singleton.mp hs
    subst this
    exact ⟨top, ((mtreeInv_zero_iff T D _ _).mp h).loose⟩
  | d + 1, top, m, h, s, hs => by
    obtain ⟨c, hc, hsc⟩ := List.mem_flatMap.mp hs
    exact leaf_loose d false c (((mtreeInv_succ_iff T D d top m).mp h).1.2.2.2.2.1 c hc) s hsc

theorem digests0_eq_leaves : ∀ (d : Nat) (t : MTree r d),
    MTree.digests0 d t = (MTree.leaves d t).flatMap (fun s => s.elems.hkeys)
  | 0, s => (List.append_nil (MTree.digests0 0 s)).symm
  | d + 1, m => by
    show m.children.flatMap (MTree.digests0 d) = (m.children.flatMap (MTree.leaves d)).flatMap _
    rw [List.flatMap_assoc]
    congr 1
    funext c
    exact digests0_eq_leaves d c

theorem flatMap_congr' {α β : Type} {f g : α → List β} {l : List α} (h : ∀ a ∈ l, f a = g a) :
    l.flatMap f = l.flatMap g := by
  induction l with
  | nil => rfl
  | cons a l ih =>
    rw [List.flatMap_cons, List.flatMap_cons, h a List.mem_cons_self,
      ih (fun b hb => h b (List.mem_cons_of_mem _ hb))]

theorem entries_fst {top : Bool} {t : MTree r d} (h : MTreeInv T D d top t) :
    ((MTree.leaves d t).flatMap leafEntries).map Prod.fst = MTree.digests0 d t := by
  rw [digests0_eq_leaves, List.map_flatMap]
  apply flatMap_congr'
  intro s hs
  obtain ⟨top', hl⟩ := leaf_loose d top t h s hs
  exact List.map_fst_zip (Nat.le_of_eq hl.hinv.len_eq)

theorem unique_of_sorted_fst {β : Type} {Z : List (Nat × β)} (hs : (Z.map Prod.fst).Pairwise (· < ·))
    {a : Nat} {b b' : β} (h1 : (a, b) ∈ Z) (h2 : (a, b') ∈ Z) : b = b' := by
  induction Z with
  | nil => cases h1
  | cons z Z ih =>
    simp only [List.map_cons, List.pairwise_cons] at hs
    rcases List.mem_cons.mp h1 with h1 | h1 <;> rcases List.mem_cons.mp h2 with h2 | h2
    · rw [← h1] at h2; exact (Prod.mk.inj h2).2.symm ▸ rfl
    · exfalso
      have := hs.1 a (List.mem_map.mpr ⟨(a, b'), h2, rfl⟩)
      rw [← h1] at this; simp at this
    · exfalso
      have := hs.1 a (List.mem_map.mpr ⟨(a, b), h1, rfl⟩)
      rw [← h2] at this; simp at this
    · exact ih hs.2 h1 h2

/-- `firstLevelGroupCount`-style lookup: the element below digest `hkey`, if any -/
def groupAt (d : Nat) (t : MTree r d) (hkey : Nat) : Option (Nat × MElemF (MElems r)) :=
  (MTree.leaves d t).findSome? (fun s => (s.elems.hkeys.zip s.elems.elems).find? (fun p => p.1 == hkey))

theorem groupAt_some {top : Bool} {t : MTree r d} (h : MTreeInv T D d top t) {hkey : Nat} {s : MDataSlab r}
    (hs : s ∈ MTree.leaves d t) {i : Nat} {el : MElemF (MElems r)} (hi : s.elems.hkeys[i]? = some hkey)
    (hel : s.elems.elems[i]? = some el) : groupAt d t hkey = some (hkey, el) := by
  have hflat : groupAt d t hkey = ((MTree.leaves d t).flatMap leafEntries).find? (fun p => p.1 == hkey) :=
    findSome_flat leafEntries _ _
  have hmem : (hkey, el) ∈ (MTree.leaves d t).flatMap leafEntries := by
    refine List.mem_flatMap.mpr ⟨s, hs, ?_⟩
    exact List.mem_iff_getElem?.mpr ⟨i, List.getElem?_zip_eq_some.mpr ⟨hi, hel⟩⟩
  have hsorted : (((MTree.leaves d t).flatMap leafEntries).map Prod.fst).Pairwise (· < ·) := by
    rw [entries_fst h]; exact MTreeInv.sorted d top t h
  rw [hflat]
  cases hf : ((MTree.leaves d t).flatMap leafEntries).find? (fun p => p.1 == hkey) with
  | none =>
    have := List.find?_eq_none.mp hf (hkey, el) hmem
    simp at this
  | some z =>
    have hz1 := List.find?_some hf
    have hz2 := List.mem_of_find?_eq_some hf
    obtain ⟨a, b⟩ := z
    simp only [beq_iff_eq] at hz1
    subst hz1
    rw [unique_of_sorted_fst hsorted hz2 hmem]

theorem groupAt_none {t : MTree r d} {hkey : Nat} (hno : ∀ s ∈ MTree.leaves d t, hkey ∉ s.elems.hkeys) :
    groupAt d t hkey = none := by
  unfold groupAt
  rw [List.findSome?_eq_none_iff]
  intro s hs
  rw [List.find?_eq_none]
  intro p hp hpk
  simp only [beq_iff_eq] at hpk
  apply hno s hs
  rw [← hpk]
  exact (List.of_mem_zip hp).1

theorem leaf_pairs_sub : ∀ (d : Nat) (t : MTree r d) (s : MDataSlab r), s ∈ MTree.leaves d t →
    ∀ p ∈ s.pairs, p ∈ MTree.toList d t
  | 0, t, s, hs, p, hp => by
    have : s = t := List.mem_singleton.mp hs
    subst this; exact hp
  | d + 1, m, s, hs, p, hp => by
    obtain ⟨c, hc, hsc⟩ := List.mem_flatMap.mp hs
    exact List.mem_flatMap.mpr ⟨c, hc, leaf_pairs_sub d c s hsc p hp⟩

/-- the count used by the collision-limit check -/
def groupCount (d : Nat) (t : MTree r d) (hkey : Nat) : Nat :=
  match groupAt d t hkey with
  | some (_, el) => MElemF.count (MElems.ops r) el
  | none => 0

/-- the limit refuses `k` iff `k` is absent and the element below its first-level digest holds
    more than `climit` entries -/
theorem tlimited_iff (hT : legalThreshold T = true) {top : Bool} {t : MTree r d} (h : MTreeInv T D d top t)
    (hS : SInv T D d top t) (k : MKey) :
    TLimited cfg d t k ↔ (∀ p ∈ MTree.toList d t, p.1 ≠ k) ∧ cfg.climit + 1 ≤ groupCount d t (k.dig 0) := by
  constructor
  · intro hl
    refine ⟨tlimited_absent hT d top t hS hl, ?_⟩
    obtain ⟨s, hs, _, i, el, hi, hel, hcl, _⟩ := hl
    obtain ⟨top', hloose⟩ := leaf_loose d top t h s hs
    have hcnt := (hloose.hinv.elemOk hi hel).count_pos
    simp only [groupCount, groupAt_some h hs hi hel]
    omega
  · rintro ⟨habs, hcnt⟩
    unfold groupCount at hcnt
    cases hg : groupAt d t (k.dig 0) with
    | none => rw [hg] at hcnt; simp at hcnt
    | some z =>
      rw [hg] at hcnt
      obtain ⟨a, el⟩ := z
      simp only at hcnt
      obtain ⟨s, hs, hf⟩ := List.exists_of_findSome?_eq_some hg
      have hz1 := List.find?_some hf
      have hz2 := List.mem_of_find?_eq_some hf
      simp only [beq_iff_eq] at hz1
      subst hz1
      obtain ⟨i, hi⟩ := List.mem_iff_getElem?.mp hz2
      obtain ⟨hi1, hi2⟩ := List.getElem?_zip_eq_some.mp hi
      refine ⟨s, hs, rfl, i, el, hi1, hi2, by omega, ?_⟩
      intro p hp
      exact habs p (leaf_pairs_sub d t s hs p hp)

end Atree
