import AtreeProofs.Map.ElemsSpec
/-
  Generic lemmas about one element (`MElemF.get/set/remove`), parameterised by the specification
  of the operations of the nested level.
-/
namespace Atree
open Gen

namespace MElemOk
variable {T L : Nat} {D : DigestFn L} {cfg : MCfg} {α : Type} {o : ElemsOps α}
  {Inv : Nat → List Nat → α → Prop} {rr : Nat}

theorem keys (S : OpsStruct T L D o Inv rr) {ℓ : Nat} {path : List Nat} {hk : Nat} {e : MElemF α}
    (h : MElemOk T L D o Inv ℓ path hk e) :
    ∀ p ∈ e.toList o, KeyOk T L D p.1 ∧ p.1.digs.take (ℓ + 1) = path ++ [hk] := by
  cases e with
  | single x => intro p hp; simp [MElemF.toList] at hp; subst hp; exact ⟨h.1.1, h.2⟩
  | inl g => exact S.keys h.1
  | ext id sz s => exact S.keys h.2.2.2.2.2.1

theorem distinct (S : OpsStruct T L D o Inv rr) {ℓ : Nat} {path : List Nat} {hk : Nat} {e : MElemF α}
    (h : MElemOk T L D o Inv ℓ path hk e) : KeysDistinct (e.toList o) := by
  cases e with
  | single x => simp [MElemF.toList, KeysDistinct]
  | inl g => exact S.distinct h.1
  | ext id sz s => exact S.distinct h.2.2.2.2.2.1

theorem ordered (S : OpsStruct T L D o Inv rr) {ℓ : Nat} {path : List Nat} {hk : Nat} {e : MElemF α}
    (h : MElemOk T L D o Inv ℓ path hk e) :
    ((e.toList o).map (fun p => p.1.digs)).Pairwise (fun a b => a = b ∨ List.Lex (· < ·) a b) := by
  cases e with
  | single x => simp [MElemF.toList]
  | inl g => exact S.ordered h.1
  | ext id sz s => exact S.ordered h.2.2.2.2.2.1

theorem toList_ne_nil (S : OpsStruct T L D o Inv rr) {ℓ : Nat} {path : List Nat} {hk : Nat} {e : MElemF α}
    (h : MElemOk T L D o Inv ℓ path hk e) : e.toList o ≠ [] := by
  cases e with
  | single x => simp [MElemF.toList]
  | inl g => exact (S.count_pos h.1).mp h.2.1
  | ext id sz s => exact (S.count_pos h.2.2.2.2.2.1).mp h.2.2.2.2.2.2.1

theorem count_pos {ℓ : Nat} {path : List Nat} {hk : Nat} {e : MElemF α}
    (h : MElemOk T L D o Inv ℓ path hk e) : 1 ≤ e.count o := by
  cases e with
  | single x => simp [MElemF.count]
  | inl g => exact h.2.1
  | ext id sz s => exact h.2.2.2.2.2.2.1

theorem size_le (hT : legalThreshold T = true) {ℓ : Nat} {path : List Nat} {hk : Nat} {e : MElemF α}
    (h : MElemOk T L D o Inv ℓ path hk e) (h0 : ℓ = 0) : e.size o ≤ maxInlineMapElem T := by
  cases e with
  | single x =>
    obtain ⟨⟨hk, h1, h2, h3⟩, _⟩ := h
    show x.size ≤ _
    rw [h3]; exact single_size_le hT hk.2.2 h2
  | inl g => exact h.2.2.2 h0
  | ext id sz s => show sz ≤ _; rw [h.2.1]; exact ext_size_le hT

theorem get (S : OpsSpec T L D cfg o Inv rr) (hc : CfgFor cfg T L) {ℓ : Nat} {path : List Nat} {hk : Nat}
    {e : MElemF α} (hℓ : ℓ + rr + 1 = L) (h : MElemOk T L D o Inv ℓ path hk e) {k : MKey} (hkk : KeyOk T L D k)
    (hp : k.digs.take (ℓ + 1) = path ++ [hk]) :
    (∀ v, (k, v) ∈ e.toList o → e.get o cfg ℓ k = .ok (k, v)) ∧
    ((∀ p ∈ e.toList o, p.1 ≠ k) → e.get o cfg ℓ k = .error .keyNotFound) := by
  have hlev : ¬ (ℓ + 1 > cfg.L) := by rw [hc.hL]; omega
  cases e with
  | single x =>
    constructor
    · intro v hm
      simp [MElemF.toList] at hm
      simp [MElemF.get, ← hm.1, ← hm.2, MKey.same_self]
    · intro hne
      have := hne (x.key, x.val) (by simp [MElemF.toList])
      have hs : x.key.same k = false := (KeyOk.same_false_iff h.1.1 hkk).mpr this
      simp [MElemF.get, hs]
  | inl g =>
    simp only [MElemF.get, if_neg hlev, MElemF.toList]
    exact S.get h.1 hkk hp
  | ext id sz s =>
    simp only [MElemF.get, if_neg hlev, MElemF.toList]
    exact S.get h.2.2.2.2.2.1 hkk hp

/-- a group with at least two keys has a positive count and is not a sole single element -/
theorem grp_of_two (S : OpsStruct T L D o Inv rr) {ℓ : Nat} {path : List Nat} {g : α} (hg : Inv ℓ path g)
    (hlen : 2 ≤ (o.toList g).length) : 1 ≤ o.count g ∧ o.soleSingle g = none := by
  constructor
  · apply (S.count_pos hg).mpr
    intro h; rw [h] at hlen; simp at hlen
  · cases hs : o.soleSingle g with
    | none => rfl
    | some y =>
      have := (S.sole hg hs).2.1
      rw [this] at hlen; simp at hlen

theorem inlSet_spec (S : OpsSpec T L D cfg o Inv rr) (hc : CfgFor cfg T L) {ℓ : Nat} {path : List Nat} {hk : Nat}
    (hℓ : ℓ + rr + 1 = L) {g : α} (hg : Inv (ℓ + 1) (path ++ [hk]) g) {k : MKey}
    (h2 : 2 ≤ (o.toList g).length ∨ (∃ x, o.toList g = [x] ∧ x.1 ≠ k))
    (hkk : KeyOk T L D k) (hp : k.digs.take (ℓ + 1) = path ++ [hk]) {v : Elem} (hv : ValueOkM v) (c : Ctx) :
    ∃ e' old c', MElemF.inlSet o cfg g ℓ k v c = .ok (e', k, old, c') ∧ MElemOk T L D o Inv ℓ path hk e' ∧
      SetEffect (o.toList g) (e'.toList o) k (storedValue cfg k v c) old ∧ c.ctr ≤ c'.ctr ∧
      (∀ id, e'.extId? = some id → id.idx ≤ c'.ctr) := by
  have hlev : ¬ (ℓ + 1 > cfg.L) := by rw [hc.hL]; omega
  obtain ⟨old, g', c', hset, hinv', heff, hctr⟩ := S.set c hg (by omega) hkk hp hv
  have hlen : 2 ≤ (o.toList g').length := by
    rcases h2 with h2 | ⟨x, hx, hxk⟩
    · have := heff.length_ge; omega
    · rcases heff with ⟨_, _, A, B, hAB, hAB'⟩ | ⟨v0, A, B, _, hAB, _⟩
      · rw [hAB', List.length_append, List.length_cons]
        have : (A ++ B).length = 1 := by rw [← hAB, hx]; rfl
        rw [List.length_append] at this; omega
      · exfalso
        rw [hx] at hAB
        have hm : (k, v0) ∈ [x] := by rw [hAB]; simp
        simp at hm; rw [← hm] at hxk; exact hxk rfl
  obtain ⟨hcnt, hsole⟩ := grp_of_two S.toOpsStruct hinv' hlen
  simp only [MElemF.inlSet, hset, if_neg hlev, bind, Except.bind, pure, Except.pure]
  split
  · rename_i hbig
    refine ⟨_, _, _, rfl, ?_, heff, ?_, ?_⟩
    · simp only [Bool.and_eq_true, beq_iff_eq, decide_eq_true_eq] at hbig
      exact ⟨by omega, rfl, rfl, rfl, rfl, hinv', hcnt, hsole⟩
    · simp [Ctx.alloc, Ctx.emit]; omega
    · intro id hid
      simp [MElemF.extId?] at hid
      subst hid
      simp [Ctx.alloc, Ctx.emit]
  · rename_i hbig
    refine ⟨_, _, _, rfl, ?_, heff, hctr, ?_⟩
    · refine ⟨hinv', hcnt, hsole, ?_⟩
      intro h0
      simp only [Bool.and_eq_true, beq_iff_eq, decide_eq_true_eq, not_and, Nat.not_lt] at hbig
      have := hbig (by omega)
      rw [hc.hT] at this; omega
    · intro id hid; simp [MElemF.extId?] at hid

theorem set (S : OpsSpec T L D cfg o Inv rr) (hT : legalThreshold T = true) (hc : CfgFor cfg T L)
    {ℓ : Nat} {path : List Nat} {hk : Nat} {e : MElemF α} (hℓ : ℓ + rr + 1 = L)
    (h : MElemOk T L D o Inv ℓ path hk e) {k : MKey} (hkk : KeyOk T L D k)
    (hp : k.digs.take (ℓ + 1) = path ++ [hk]) {v : Elem} (hv : ValueOkM v) (c : Ctx) :
    ∃ e' old c', e.set o cfg ℓ k v c = .ok (e', k, old, c') ∧ MElemOk T L D o Inv ℓ path hk e' ∧
      SetEffect (e.toList o) (e'.toList o) k (storedValue cfg k v c) old ∧ c.ctr ≤ c'.ctr ∧
      (∀ id, e'.extId? = some id → e.extId? = some id ∨ id.idx ≤ c'.ctr) := by
  have hlev : ¬ (ℓ + 1 > cfg.L) := by rw [hc.hL]; omega
  cases e with
  | single x =>
    obtain ⟨hx, hxp⟩ := h
    cases hs : x.key.same k with
    | true =>
      have hxk := (KeyOk.same_iff hx.1 hkk).mp hs
      rcases hts : toStorableLim (maxInlineMapValue cfg.T k.size) cfg.addr v c with ⟨vs, c1⟩
      have hsv : storedValue cfg k v c = vs := by simp [storedValue, hts]
      have hspec := toStorableLim_spec (lim := maxInlineMapValue cfg.T k.size) (addr := cfg.addr) c hv
        (by rw [hc.hT]; exact maxInlineMapValue_ge hT hkk.2.2)
      rw [hts, hc.hT] at hspec
      subst hxk
      simp only [MElemF.set, hs, if_true, hts, hsv]
      refine ⟨_, _, _, rfl, ⟨⟨hx.1, hspec.1, hspec.2.1, rfl⟩, hxp⟩, ?_, hspec.2.2, ?_⟩
      · right; exact ⟨x.val, [], [], rfl, rfl, rfl⟩
      · intro id hid; simp [MElemF.extId?] at hid
    | false =>
      have hxk := (KeyOk.same_false_iff hx.1 hkk).mp hs
      obtain ⟨g, hnew, hginv, hgl⟩ := S.newWith (ℓ := ℓ + 1) (by omega) hx hxp
      obtain ⟨e', old, c', h1, h2, h3, h4, h5⟩ := inlSet_spec S hc hℓ hginv
        (Or.inr ⟨(x.key, x.val), hgl, hxk⟩) hkk hp hv c
      simp only [MElemF.set, hs, Bool.false_eq_true, if_false, hnew, bind, Except.bind, h1]
      refine ⟨_, _, _, rfl, h2, ?_, h4, fun id hid => Or.inr (h5 id hid)⟩
      rw [hgl] at h3; exact h3
  | inl g =>
    obtain ⟨hg, hcnt, hsole, _⟩ := h
    obtain ⟨e', old, c', h1, h2, h3, h4, h5⟩ := inlSet_spec S hc hℓ hg
      (Or.inl (S.two_keys hg hcnt hsole)) hkk hp hv c
    simp only [MElemF.set, h1]
    exact ⟨_, _, _, rfl, h2, h3, h4, fun id hid => Or.inr (h5 id hid)⟩
  | ext id sz s =>
    obtain ⟨h0, hsz, hid, hsize, hfk, hg, hcnt, hsole⟩ := h
    obtain ⟨old, g', c', hset, hinv', heff, hctr⟩ := S.set c hg (by omega) hkk hp hv
    have hlen : 2 ≤ (o.toList g').length := by
      have := heff.length_ge; have := S.two_keys hg hcnt hsole; omega
    obtain ⟨hcnt', hsole'⟩ := grp_of_two S.toOpsStruct hinv' hlen
    simp only [MElemF.set, if_neg hlev, hset, bind, Except.bind, pure, Except.pure, MElemF.groupSlabUpdate]
    refine ⟨_, _, _, rfl, ⟨h0, hsz, hid, rfl, rfl, hinv', hcnt', hsole'⟩, heff, ?_, ?_⟩
    · simp [Ctx.emit]; exact hctr
    · intro id' hid'; left; exact hid'

theorem remove (S : OpsSpec T L D cfg o Inv rr) (hc : CfgFor cfg T L)
    {ℓ : Nat} {path : List Nat} {hk : Nat} {e : MElemF α} (hℓ : ℓ + rr + 1 = L)
    (h : MElemOk T L D o Inv ℓ path hk e) {k : MKey} (hkk : KeyOk T L D k)
    (hp : k.digs.take (ℓ + 1) = path ++ [hk]) (c : Ctx) :
    ((∀ p ∈ e.toList o, p.1 ≠ k) → e.remove o cfg ℓ k c = .error .keyNotFound) ∧
    (∀ v, (k, v) ∈ e.toList o → ∃ r c', e.remove o cfg ℓ k c = .ok (k, v, r, c') ∧ c'.ctr = c.ctr ∧
      match r with
      | none => e.toList o = [(k, v)]
      | some e' => MElemOk T L D o Inv ℓ path hk e' ∧ RemEffect (e.toList o) (e'.toList o) k v ∧
          (∀ id, e'.extId? = some id → e.extId? = some id) ∧ (1 ≤ ℓ → e'.size o ≤ e.size o)) := by
  have hlev : ¬ (ℓ + 1 > cfg.L) := by rw [hc.hL]; omega
  cases e with
  | single x =>
    constructor
    · intro hne
      have := hne (x.key, x.val) (by simp [MElemF.toList])
      have hs : x.key.same k = false := (KeyOk.same_false_iff h.1.1 hkk).mpr this
      simp [MElemF.remove, hs]
    · intro v hm
      simp [MElemF.toList] at hm
      refine ⟨none, c, ?_, rfl, ?_⟩
      · simp [MElemF.remove, ← hm.1, ← hm.2, MKey.same_self]
      · simp [MElemF.toList, hm.1, hm.2]
  | inl g =>
    obtain ⟨hg, hcnt, hsole, hsz⟩ := h
    obtain ⟨hrem1, hrem2⟩ := S.remove c hg (by omega) hkk hp
    constructor
    · intro hne
      simp only [MElemF.remove, if_neg hlev, hrem1 hne, bind, Except.bind]
    · intro v hm
      obtain ⟨g', c', hr, hinv', heff, hsize, hctr⟩ := hrem2 v hm
      have hlen := heff.length
      have h2 := S.two_keys hg hcnt hsole
      simp only [MElemF.remove, if_neg hlev, hr, bind, Except.bind, pure, Except.pure]
      cases hs : o.soleSingle g' with
      | some x =>
        obtain ⟨hxok, hxl, hxs⟩ := S.sole hinv' hs
        have hxp := (S.keys hinv' (x.key, x.val) (by rw [hxl]; simp)).2
        refine ⟨_, _, rfl, hctr, ⟨hxok, hxp⟩, ?_, ?_, ?_⟩
        · simp only [MElemF.toList]; rw [← hxl]; exact heff
        · intro id hid; simp [MElemF.extId?] at hid
        · intro _; simp only [MElemF.size]; omega
      | none =>
        have hcnt' : 1 ≤ o.count g' := by
          apply (S.count_pos hinv').mpr
          intro hnil; rw [hnil] at hlen; simp at hlen; omega
        refine ⟨_, _, rfl, hctr, ⟨hinv', hcnt', hs, ?_⟩, heff, ?_, ?_⟩
        · intro h0; have := hsz h0; omega
        · intro id hid; simp [MElemF.extId?] at hid
        · intro _; simp only [MElemF.size]; omega
  | ext id sz s =>
    obtain ⟨h0, hsz, hid, hsize, hfk, hg, hcnt, hsole⟩ := h
    obtain ⟨hrem1, hrem2⟩ := S.remove c hg (by omega) hkk hp
    constructor
    · intro hne
      simp only [MElemF.remove, if_neg hlev, hrem1 hne, bind, Except.bind]
    · intro v hm
      obtain ⟨g', c', hr, hinv', heff, hsize', hctr⟩ := hrem2 v hm
      have hlen := heff.length
      have h2 := S.two_keys hg hcnt hsole
      simp only [MElemF.remove, if_neg hlev, hr, bind, Except.bind, pure, Except.pure, MElemF.groupSlabUpdate]
      cases hs : o.soleSingle g' with
      | some x =>
        obtain ⟨hxok, hxl, hxs⟩ := S.sole hinv' hs
        have hxp := (S.keys hinv' (x.key, x.val) (by rw [hxl]; simp)).2
        refine ⟨_, _, rfl, ?_, ⟨hxok, hxp⟩, ?_, ?_, ?_⟩
        · simp [Ctx.emit]; exact hctr
        · simp only [MElemF.toList]; rw [← hxl]; exact heff
        · intro id hid; simp [MElemF.extId?] at hid
        · intro h1; omega
      | none =>
        have hcnt' : 1 ≤ o.count g' := by
          apply (S.count_pos hinv').mpr
          intro hnil; rw [hnil] at hlen; simp at hlen; omega
        refine ⟨_, _, rfl, ?_, ⟨h0, hsz, hid, rfl, rfl, hinv', hcnt', hs⟩, heff, ?_, ?_⟩
        · simp [Ctx.emit]; exact hctr
        · intro id' hid'; exact hid'
        · intro _; simp only [MElemF.size]; omega

end MElemOk
end Atree
