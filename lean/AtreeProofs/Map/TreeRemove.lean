import AtreeProofs.Map.TreeSet
/-
  `MTree.remove` by induction on the depth.
-/
namespace Atree
open Gen

variable {T : Nat} {r : Nat} {D : DigestFn (r + 1)} {d : Nat} {cfg : MCfg}

/-- postcondition of a successful `MTree.remove` -/
structure TRemPost (T : Nat) (D : DigestFn (r + 1)) (d : Nat) (top : Bool) (t t' : MTree r d) (k : MKey)
    (v : Elem) (c c' : Ctx) : Prop where
  sinv : SInv T D d top t'
  size_le : (MTree.hdr d t').size ≤ (MTree.hdr d t).size + slack1 T d
  eff : RemEffect (MTree.toList d t) (MTree.toList d t') k v
  ctr : c.ctr ≤ c'.ctr
  ids : ∀ id ∈ CtxOk.mapSlabIds d t', id ∈ CtxOk.mapSlabIds d t ∨ id.idx ≤ c'.ctr
  digs : ∀ x ∈ MTree.digests0 d t', x ∈ MTree.digests0 d t
  id_eq : (MTree.hdr d t').id = (MTree.hdr d t).id
  leaves : LeafRel (MTree.leaves d t) (MTree.leaves d t')
  inl : treeInl d t' = treeInl d t

theorem remove_spec_zero (hT : legalThreshold T = true) (hc : CfgFor cfg T (r + 1)) {top : Bool} (s : MDataSlab r)
    (hs : MDataLoose T D top s) {k : MKey} (hk : KeyOk T (r + 1) D k) (c : Ctx) :
    ((∀ p ∈ MTree.toList 0 s, p.1 ≠ k) → MTree.remove cfg 0 s k c = .error .keyNotFound) ∧
    (∀ v, (k, v) ∈ MTree.toList 0 s → ∃ t' c', MTree.remove cfg 0 s k c = .ok (k, v, t', c') ∧
      TRemPost T D 0 top s t' k v c c') := by
  obtain ⟨h1, h2⟩ := MDataSlab.remove_spec hT hc hs hk c
  refine ⟨h1, ?_⟩
  intro v hv
  obtain ⟨s', c', heq, hp⟩ := h2 v hv
  refine ⟨s', c', heq, ⟨hp.loose, ?_, hp.eff, by rw [hp.ctr]; exact Nat.le_refl _, ?_, hp.hk_new, hp.id_eq, ?_, hp.inl_eq⟩⟩
  · have := hp.size_le
    show s'.hdr.size ≤ s.hdr.size + maxEntry T
    simp only [maxEntry]; omega
  · intro id hid
    rw [mapSlabIds_zero] at hid ⊢
    rcases List.mem_cons.mp hid with h | h
    · left; rw [h, hp.id_eq]; exact List.mem_cons_self
    · left; exact List.mem_cons_of_mem _ (hp.ids id h)
  · show LeafRel [s] [s']
    refine ⟨by simp, by simp, fun _ => ?_, fun nxt h => ?_⟩
    · simp only [firstId]; exact hp.id_eq
    · simp only [ChainTo] at h ⊢; rw [hp.next_eq]; exact h

theorem remove_spec_succ (hT : legalThreshold T = true) (hcT : cfg.T = T) {top : Bool} (m : MMetaSlab (MTree r d))
    (hm : MetaLoose T D d top m) (h2 : 2 ≤ m.children.length) {k : MKey} (c : Ctx)
    (ih : ∀ ch ∈ m.children,
      ((∀ p ∈ MTree.toList d ch, p.1 ≠ k) → MTree.remove cfg d ch k c = .error .keyNotFound) ∧
      (∀ v, (k, v) ∈ MTree.toList d ch → ∃ t' c', MTree.remove cfg d ch k c = .ok (k, v, t', c') ∧
        TRemPost T D d false ch t' k v c c')) :
    ((∀ p ∈ MTree.toList (d + 1) m, p.1 ≠ k) → MTree.remove cfg (d + 1) m k c = .error .keyNotFound) ∧
    (∀ v, (k, v) ∈ MTree.toList (d + 1) m → ∃ t' c', MTree.remove cfg (d + 1) m k c = .ok (k, v, t', c') ∧
      TRemPost T D (d + 1) top m t' k v c c') := by
  have hroute := route hT hm (by omega) (k.dig 0)
  cases hr : MMetaSlab.findChild m.childHdrs (k.dig 0) 0 m.childHdrs.length none (m.childHdrs.length + 1) with
  | none =>
    rw [hr] at hroute
    have habs : ∀ p ∈ MTree.toList (d + 1) m, p.1 ≠ k := by
      rw [MTree.toList_succ]
      exact absent_of_digs hm.2.2.2.2.1 (fun h => by have := hroute.1 _ h; omega)
    constructor
    · intro _; simp only [MTree.remove, hr]; rfl
    · intro v hv; exact absurd rfl (habs _ hv)
  | some i =>
    rw [hr] at hroute
    obtain ⟨A, child, B, hrt, _⟩ := hroute
    have hci : m.children[i]? = some child := by rw [hrt.ch]; exact zip_get' hrt.len
    have hmem : child ∈ m.children := List.mem_of_getElem? hci
    obtain ⟨ih1, ih2⟩ := ih child hmem
    obtain ⟨hA, hB⟩ := hrt.absent hm (k := k)
    have htl := hrt.toList_eq
    constructor
    · intro hne
      have : ∀ p ∈ MTree.toList d child, p.1 ≠ k := by
        intro p hp; apply hne; rw [htl]; exact List.mem_append_right _ (List.mem_append_left _ hp)
      simp only [MTree.remove, hr, hci, ih1 this, bind, Except.bind]
    · intro v hv
      have hv' : (k, v) ∈ MTree.toList d child := by
        rw [htl] at hv
        rcases List.mem_append.mp hv with h | h
        · exact absurd rfl (hA _ h)
        · rcases List.mem_append.mp h with h | h
          · exact h
          · exact absurd rfl (hB _ h)
      obtain ⟨child', c1, heq, hp⟩ := ih2 v hv'
      have hsorted : (dgs (A ++ child' :: B)).Pairwise (· < ·) := by
        have := hm.sorted
        rw [hrt.ch] at this
        exact sorted_replace (hkey := k.dig 0) this (SInv.sorted d false child' hp.sinv)
          (fun x hx => Or.inl (hp.digs x hx)) hrt.lo hrt.hi
      have htc := hm.2.2.2.2.1 child hmem
      have hcs := ((mtreeInv_false_iff hT d child).mp htc).2.2
      obtain ⟨m', c', heq2, hpost⟩ := afterChild_post hT hm hrt.ch h2 hrt.len hp.sinv
        (by have := hp.size_le; have := slack1_le T d; omega) hp.id_eq hsorted c1
      simp only [MTree.remove, hr, hci, heq, hcT, heq2, bind, Except.bind, pure, Except.pure]
      refine ⟨m', c', rfl, ⟨⟨hpost.loose, hpost.len1⟩, ?_, ?_, ?_, ?_, ?_, hpost.id_eq, ?_, rfl⟩⟩
      · show m'.hdr.size ≤ m.hdr.size + mapSlabHeaderSize
        rw [hpost.loose.size_eq, hm.size_eq]
        have := hpost.len_le
        simp only [mapSlabHeaderSize]; omega
      · rw [htl, MTree.toList_succ]
        have h1 : prs m'.children = prs A ++ (MTree.toList d child' ++ prs B) := hpost.pairs
        show RemEffect _ (prs m'.children) _ _
        rw [h1]
        exact hp.eff.lift _ _
      · have := hp.ctr; have := hpost.ctr; omega
      · intro id hid
        rw [mapSlabIds_succ] at hid ⊢
        rcases List.mem_cons.mp hid with h | h
        · left; rw [h, hpost.id_eq]; exact List.mem_cons_self
        · rcases hpost.ids id h with h' | h'
          · have hmid : idl m.children = idl A ++ (CtxOk.mapSlabIds d child ++ idl B) := by
              rw [hrt.ch]; simp [idl, List.flatMap_append]
            rcases List.mem_append.mp h' with h'' | h''
            · left; apply List.mem_cons_of_mem
              show id ∈ idl m.children
              rw [hmid]; exact List.mem_append_left _ h''
            · rcases List.mem_append.mp h'' with h3 | h3
              · rcases hp.ids id h3 with h4 | h4
                · left; apply List.mem_cons_of_mem
                  show id ∈ idl m.children
                  rw [hmid]; exact List.mem_append_right _ (List.mem_append_left _ h4)
                · right; have := hpost.ctr; omega
              · left; apply List.mem_cons_of_mem
                show id ∈ idl m.children
                rw [hmid]; exact List.mem_append_right _ (List.mem_append_right _ h3)
          · right; exact h'
      · intro x hx
        rw [MTree.digests0_succ] at hx ⊢
        have h1 : dgs m'.children = dgs A ++ (MTree.digests0 d child' ++ dgs B) := hpost.digs
        have hx' : x ∈ dgs m'.children := hx
        rw [h1] at hx'
        have hmd : m.children.flatMap (MTree.digests0 d) = dgs A ++ (MTree.digests0 d child ++ dgs B) := by
          rw [hrt.ch]; simp [dgs, List.flatMap_append]
        rw [hmd]
        rcases List.mem_append.mp hx' with h | h
        · exact List.mem_append_left _ h
        · rcases List.mem_append.mp h with h | h
          · exact List.mem_append_right _ (List.mem_append_left _ (hp.digs x h))
          · exact List.mem_append_right _ (List.mem_append_right _ h)
      · rw [MTree.leaves_succ, MTree.leaves_succ]
        have hml : m.children.flatMap (MTree.leaves d) = lvs A ++ (MTree.leaves d child ++ lvs B) := by
          rw [hrt.ch]; simp [lvs, List.flatMap_append]
        rw [hml]
        exact (hp.leaves.lift _ _).trans hpost.leaves

theorem MTree.remove_spec (hT : legalThreshold T = true) (hc : CfgFor cfg T (r + 1)) {k : MKey}
    (hk : KeyOk T (r + 1) D k) :
    ∀ (d : Nat) (top : Bool) (t : MTree r d) (c : Ctx), MTreeInv T D d top t →
    ((∀ p ∈ MTree.toList d t, p.1 ≠ k) → MTree.remove cfg d t k c = .error .keyNotFound) ∧
    (∀ v, (k, v) ∈ MTree.toList d t → ∃ t' c', MTree.remove cfg d t k c = .ok (k, v, t', c') ∧
      TRemPost T D d top t t' k v c c')
  | 0, _, s, c, h => remove_spec_zero hT hc s ((mtreeInv_zero_iff T D _ _).mp h).loose hk c
  | d + 1, _, m, c, h =>
    have h' := MTreeInv.two_children hT h
    remove_spec_succ hT hc.hT m h'.1 h'.2.1 c
      (fun ch hch => MTree.remove_spec hT hc hk d false ch c (h'.1.2.2.2.2.1 ch hch))

end Atree
