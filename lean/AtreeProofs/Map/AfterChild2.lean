import AtreeProofs.Map.AfterChild
/-
  `mergeOrRebalanceChildSlab` and `afterChild`.
-/
namespace Atree
open Gen

variable {T : Nat} {r : Nat} {D : DigestFn (r + 1)} {d : Nat}

section Ops
variable {top : Bool} {m1 : MMetaSlab (MTree r d)} {A B : List (MTree r d)} {child' : MTree r d}

/-- rebalance with the right sibling -/
theorem opR_reb (hT : legalThreshold T = true) {rs : MTree r d} {B' : List (MTree r d)}
    (h1 : M1 T D d top m1 A (rs :: B') child') {k : Nat} (hk : A.length = k)
    (hunder : (MTree.hdr d child').size < minThr T)
    (hcan : MTree.canLendToLeft T d rs (minThr T - (MTree.hdr d child').size) = true) (c : Ctx) :
    ∃ m' c', m1.rebalanceChildren T child' rs k (k + 1) true c = .ok (m', c') ∧
      ACPost T D d top m1 A (rs :: B') child' c m' c' := by
  have hrs := h1.tightB rs (by simp)
  have ha1 := h1.addr child' (by rw [h1.ch]; simp)
  have ha2 := h1.addr rs (by rw [h1.ch]; simp)
  have hsorted := h1.sorted
  rw [h1.ch] at hsorted
  refine rebalance_post hT h1 (P := A) (Q := B') (by simp) h1.tightA
    (fun x hx => h1.tightB x (List.mem_cons_of_mem _ hx)) hk rfl true ?_ c
  simp only [if_true]
  exact MTree.borrow_spec hT d child' rs h1.child hrs hunder hcan (by rw [ha1, ha2]) (sorted_adjacent hsorted)

/-- merge with the right sibling -/
theorem opR_merge (hT : legalThreshold T = true) {rs : MTree r d} {B' : List (MTree r d)}
    (h1 : M1 T D d top m1 A (rs :: B') child') {k : Nat} (hk : A.length = k)
    (hunder : (MTree.hdr d child').size < minThr T)
    (hcan : MTree.canLendToLeft T d rs (minThr T - (MTree.hdr d child').size) = false) (c : Ctx) :
    ACPost T D d top m1 A (rs :: B') child' c (m1.mergeChildren child' rs k (k + 1) c).1
      (m1.mergeChildren child' rs k (k + 1) c).2 := by
  have hrs := h1.tightB rs (by simp)
  refine merge_post hT h1 (P := A) (Q := B') (by simp) h1.tightA
    (fun x hx => h1.tightB x (List.mem_cons_of_mem _ hx)) hk rfl h1.child (MTreeInv.sinv hT hrs) ?_ c
  exact MTree.merge_band hT d child' rs h1.child hrs hunder (Or.inl hcan)

/-- rebalance with the left sibling -/
theorem opL_reb (hT : legalThreshold T = true) {ls : MTree r d} {A' : List (MTree r d)}
    (h1 : M1 T D d top m1 (A' ++ [ls]) B child') {k : Nat} (hk : (A' ++ [ls]).length = k)
    (hunder : (MTree.hdr d child').size < minThr T)
    (hcan : MTree.canLendToRight T d ls (minThr T - (MTree.hdr d child').size) = true) (c : Ctx) :
    ∃ m' c', m1.rebalanceChildren T ls child' (k - 1) k false c = .ok (m', c') ∧
      ACPost T D d top m1 (A' ++ [ls]) B child' c m' c' := by
  have hls := h1.tightA ls (by simp)
  have ha1 := h1.addr child' (by rw [h1.ch]; simp)
  have ha2 := h1.addr ls (by rw [h1.ch]; simp)
  have hsorted := h1.sorted
  rw [h1.ch] at hsorted
  have hsorted' : (dgs (A' ++ (ls :: child' :: B))).Pairwise (· < ·) := by simpa using hsorted
  simp only [List.length_append, List.length_cons, List.length_nil] at hk
  refine rebalance_post hT h1 (P := A') (Q := B) (by simp)
    (fun x hx => h1.tightA x (List.mem_append_left _ hx)) h1.tightB (li := k - 1) (by omega) (by omega) false ?_ c
  simp only [Bool.false_eq_true, if_false]
  exact MTree.lend_spec hT d ls child' hls h1.child hunder hcan (by rw [ha1, ha2]) (sorted_adjacent hsorted')

/-- merge with the left sibling -/
theorem opL_merge (hT : legalThreshold T = true) {ls : MTree r d} {A' : List (MTree r d)}
    (h1 : M1 T D d top m1 (A' ++ [ls]) B child') {k : Nat} (hk : (A' ++ [ls]).length = k)
    (hunder : (MTree.hdr d child').size < minThr T)
    (hcan : MTree.canLendToRight T d ls (minThr T - (MTree.hdr d child').size) = false) (c : Ctx) :
    ACPost T D d top m1 (A' ++ [ls]) B child' c (m1.mergeChildren ls child' (k - 1) k c).1
      (m1.mergeChildren ls child' (k - 1) k c).2 := by
  have hls := h1.tightA ls (by simp)
  simp only [List.length_append, List.length_cons, List.length_nil] at hk
  refine merge_post hT h1 (P := A') (Q := B) (by simp)
    (fun x hx => h1.tightA x (List.mem_append_left _ hx)) h1.tightB (li := k - 1) (by omega) (by omega)
    (MTreeInv.sinv hT hls) h1.child ?_ c
  have := MTree.merge_band hT d child' ls h1.child hls hunder (Or.inr hcan)
  omega

/-- the child underflows: rebalance with or merge into a sibling -/
theorem mergeOrRebalance_post (hT : legalThreshold T = true) (h1 : M1 T D d top m1 A B child') {k : Nat}
    (hk : A.length = k) (hunder : (MTree.hdr d child').size < minThr T) (h2 : 2 ≤ m1.children.length) (c : Ctx) :
    ∃ m' c', m1.mergeOrRebalanceChildSlab T child' k (minThr T - (MTree.hdr d child').size) c = .ok (m', c') ∧
      ACPost T D d top m1 A B child' c m' c' := by
  have hlen := h1.len
  have hhl : m1.childHdrs.length = m1.children.length := by rw [h1.hdrs, List.length_map]
  rcases List.eq_nil_or_concat A with hA | ⟨A', ls, hA⟩
  · subst hA
    simp only [List.length_nil] at hk hlen
    subst hk
    cases B with
    | nil => simp at hlen; omega
    | cons rs B' =>
      have hLS : (if 0 > 0 then m1.children[0 - 1]? else none) = (none : Option (MTree r d)) := by simp
      have hRS : (if 0 + 1 < m1.childHdrs.length then m1.children[0 + 1]? else none) = some rs := by
        rw [hhl, if_pos (by simp at hlen; omega), h1.ch]; rfl
      simp only [MMetaSlab.mergeOrRebalanceChildSlab, hLS, hRS, Bool.false_or]
      cases hcr : MTree.canLendToLeft T d rs (minThr T - (MTree.hdr d child').size) with
      | true => simpa using opR_reb hT h1 rfl hunder hcr c
      | false =>
        simp only [Bool.false_eq_true, if_false]
        exact ⟨_, _, rfl, opR_merge hT h1 rfl hunder hcr c⟩
  · rw [List.concat_eq_append] at hA
    subst hA
    have hk' : k = A'.length + 1 := by simp at hk; omega
    have hLS : (if k > 0 then m1.children[k - 1]? else none) = some ls := by
      rw [if_pos (by omega), h1.ch]
      have : k - 1 = A'.length := by omega
      rw [this]; simp
    cases B with
    | nil =>
      have hRS : (if k + 1 < m1.childHdrs.length then m1.children[k + 1]? else none) = (none : Option (MTree r d)) := by
        rw [hhl, if_neg (by simp at hlen; omega)]
      simp only [MMetaSlab.mergeOrRebalanceChildSlab, hLS, hRS, Bool.or_false]
      cases hcl : MTree.canLendToRight T d ls (minThr T - (MTree.hdr d child').size) with
      | true => simpa using opL_reb hT h1 hk hunder hcl c
      | false =>
        simp only [Bool.false_eq_true, if_false]
        exact ⟨_, _, rfl, opL_merge hT h1 hk hunder hcl c⟩
    | cons rs B' =>
      have hRS : (if k + 1 < m1.childHdrs.length then m1.children[k + 1]? else none) = some rs := by
        rw [hhl, if_pos (by simp at hlen; omega), h1.ch]
        exact zip_get_succ' hk
      simp only [MMetaSlab.mergeOrRebalanceChildSlab, hLS, hRS]
      cases hcl : MTree.canLendToRight T d ls (minThr T - (MTree.hdr d child').size) with
      | true =>
        cases hcr : MTree.canLendToLeft T d rs (minThr T - (MTree.hdr d child').size) with
        | true =>
          simp only [Bool.or_self, if_true, Bool.not_true, Bool.false_eq_true, if_false]
          split
          · exact opL_reb hT h1 hk hunder hcl c
          · exact opR_reb hT h1 hk hunder hcr c
        | false =>
          simp only [Bool.or_false, if_true, Bool.not_true, Bool.false_eq_true, if_false, Bool.not_false]
          exact opL_reb hT h1 hk hunder hcl c
      | false =>
        cases hcr : MTree.canLendToLeft T d rs (minThr T - (MTree.hdr d child').size) with
        | true =>
          simp only [Bool.false_or, if_true, Bool.not_false]
          exact opR_reb hT h1 hk hunder hcr c
        | false =>
          simp only [Bool.or_self, Bool.false_eq_true, if_false]
          split
          · exact ⟨_, _, rfl, opL_merge hT h1 hk hunder hcl c⟩
          · exact ⟨_, _, rfl, opR_merge hT h1 hk hunder hcr c⟩

end Ops

/-- the slab `m` with the updated child put in place (first step of `afterChild`) -/
def MMetaSlab.withChild (m : MMetaSlab (MTree r d)) (child : MTree r d) (k : Nat) : MMetaSlab (MTree r d) :=
  { m with childHdrs := m.childHdrs.set k (MTree.hdr d child), children := m.children.set k child,
           hdr := { m.hdr with firstKey := if k == 0 then (MTree.hdr d child).firstKey else m.hdr.firstKey } }

theorem m1_of (_hT : legalThreshold T = true) {top : Bool} {m : MMetaSlab (MTree r d)} {A B : List (MTree r d)}
    {child child' : MTree r d} (hm : MetaLoose T D d top m) (hch : m.children = A ++ child :: B)
    {k : Nat} (hk : A.length = k) (hc' : SInv T D d false child')
    (hid : (MTree.hdr d child').id = (MTree.hdr d child).id)
    (hsorted : (dgs (A ++ child' :: B)).Pairwise (· < ·)) :
    M1 T D d top (m.withChild child' k) A B child' := by
  have hkm : (A.map (MTree.hdr d)).length = k := by rw [List.length_map]; exact hk
  have hhz : m.childHdrs = A.map (MTree.hdr d) ++ MTree.hdr d child :: B.map (MTree.hdr d) := by
    rw [hm.2.1, hch]; simp
  have hch' : (m.withChild child' k).children = A ++ child' :: B := by
    simp only [MMetaSlab.withChild]; rw [hch, zip_set' _ hk]
  have hhz' : (m.withChild child' k).childHdrs = A.map (MTree.hdr d) ++ MTree.hdr d child' :: B.map (MTree.hdr d) := by
    simp only [MMetaSlab.withChild]; rw [hhz, zip_set' _ hkm]
  refine ⟨hm.1, hch', ?_, ?_, ?_, ?_, ?_, ?_, ?_, hc'⟩
  · rw [hhz', hch']; simp
  · show m.hdr.size = _
    rw [hm.2.2.1, hch', hch]; simp
  · rw [hhz']
    simp only [MMetaSlab.withChild]
    cases A with
    | nil => simp at hk; subst hk; simp
    | cons a A =>
      simp at hk
      have : (k == 0) = false := by cases k with | zero => omega | succ n => rfl
      rw [this]
      simp only [Bool.false_eq_true, if_false]
      rw [hm.2.2.2.1, hhz]; simp
  · intro x hx; exact hm.2.2.2.2.1 x (by rw [hch]; exact List.mem_append_left _ hx)
  · intro x hx; exact hm.2.2.2.2.1 x (by rw [hch]; exact List.mem_append_right _ (List.mem_cons_of_mem _ hx))
  · intro x hx
    rw [hch'] at hx
    show _ = m.hdr.id.addr
    rcases List.mem_append.mp hx with h | h
    · exact hm.2.2.2.2.2.1 x (by rw [hch]; exact List.mem_append_left _ h)
    · rcases List.mem_cons.mp h with rfl | h
      · rw [hid]; exact hm.2.2.2.2.2.1 child (by rw [hch]; simp)
      · exact hm.2.2.2.2.2.1 x (by rw [hch]; exact List.mem_append_right _ (List.mem_cons_of_mem _ h))
  · rw [hch']; exact hsorted

theorem afterChild_eq (m : MMetaSlab (MTree r d)) (child : MTree r d) (k : Nat) (c : Ctx) :
    m.afterChild T child k c =
      if MTree.isFull T d child then (m.withChild child k).splitChildSlab child k c
      else match MTree.isUnderflow T d child with
        | some u => (m.withChild child k).mergeOrRebalanceChildSlab T child k u c
        | none => .ok (m.withChild child k, c.emit (.store (m.withChild child k).hdr.id)) := rfl

/-- the repair step after a child has been updated -/
theorem afterChild_post (hT : legalThreshold T = true) {top : Bool} {m : MMetaSlab (MTree r d)}
    {A B : List (MTree r d)} {child child' : MTree r d} (hm : MetaLoose T D d top m)
    (hch : m.children = A ++ child :: B) (h2 : 2 ≤ m.children.length)
    {k : Nat} (hk : A.length = k) (hc' : SInv T D d false child')
    (hsz : (MTree.hdr d child').size ≤ maxThr T + slack T d)
    (hid : (MTree.hdr d child').id = (MTree.hdr d child).id)
    (hsorted : (dgs (A ++ child' :: B)).Pairwise (· < ·)) (c : Ctx) :
    ∃ m' c', m.afterChild T child' k c = .ok (m', c') ∧ ACPost T D d top m A B child' c m' c' := by
  have h1 := m1_of hT hm hch hk hc' hid hsorted
  have hlen : (m.withChild child' k).children.length = m.children.length := by
    simp [MMetaSlab.withChild]
  have conv : ∀ {m' c'}, ACPost T D d top (m.withChild child' k) A B child' c m' c' →
      ACPost T D d top m A B child' c m' c' := by
    intro m' c' h
    exact ⟨h.loose, h.len1, by rw [← hlen]; exact h.len_le, h.id_eq, h.pairs, h.digs, h.leaves, h.ids, h.ctr⟩
  rw [afterChild_eq]
  by_cases hfull : MTree.isFull T d child' = true
  · rw [if_pos hfull]
    obtain ⟨m', c', he, hp⟩ := splitChild_post hT h1 hk ((mtree_isFull_iff T d child').mp hfull) hsz c
    exact ⟨m', c', he, conv hp⟩
  · rw [if_neg hfull]
    have hnf : ¬ maxThr T < (MTree.hdr d child').size := fun h => hfull ((mtree_isFull_iff T d child').mpr h)
    rw [mtree_isUnderflow_eq]
    by_cases hu : minThr T > (MTree.hdr d child').size
    · rw [if_pos hu]
      obtain ⟨m', c', he, hp⟩ := mergeOrRebalance_post hT h1 hk hu (by rw [hlen]; exact h2) c
      exact ⟨m', c', he, conv hp⟩
    · rw [if_neg hu]
      refine ⟨_, _, rfl, conv ?_⟩
      have htight : MTreeInv T D d false child' := by
        rw [mtreeInv_false_iff hT]; exact ⟨hc', by omega, by omega⟩
      refine acpost_of_replace hT h1 (P := A) (Y := [child']) (X := [child']) (Q := B) (by simp) h1.tightA h1.tightB
        ?_ (by simp) rfl rfl ?_ ?_ rfl ?_ h1.hdrs h1.size rfl h1.fk ?_ (by simp)
      · intro x hx
        simp only [List.mem_cons, List.mem_nil_iff, or_false] at hx
        subst hx
        exact ⟨htight, h1.addr x (by rw [h1.ch]; simp)⟩
      · refine LeafRel.refl ?_
        have := SInv.leaves_ne_nil hT d false child' hc'
        simp [lvs, this]
      · intro id hid; exact Or.inl hid
      · rw [h1.ch]; simp
      · simp [mctx_emit_ctr]

end Atree
