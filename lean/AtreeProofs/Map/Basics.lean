import AtreeProofs.MapLemmas
/-
  Basic lemmas for the map proofs: list surgery, keys, dictionary lookups, the "zipper" effects
  of set/remove on the pair list, `toStorableLim`, threshold arithmetic.
-/
namespace Atree
open Gen

/-! ### list surgery -/
section ListLemmas
variable {α β : Type}

theorem list_split_at {l : List α} {i : Nat} {a : α} (h : l[i]? = some a) :
    l = l.take i ++ a :: l.drop (i + 1) := by
  have hi : i < l.length := by
    rcases Nat.lt_or_ge i l.length with h1 | h1
    · exact h1
    · rw [List.getElem?_eq_none_iff.mpr h1] at h; cases h
  have : l[i] = a := by
    rw [List.getElem?_eq_getElem hi] at h; exact Option.some.inj h
  conv => lhs; rw [← List.take_append_drop i l]
  rw [List.drop_eq_getElem_cons hi, this]

theorem lt_of_getElem?_eq_some {l : List α} {i : Nat} {a : α} (h : l[i]? = some a) : i < l.length := by
  rcases Nat.lt_or_ge i l.length with h1 | h1
  · exact h1
  · rw [List.getElem?_eq_none_iff.mpr h1] at h; cases h

theorem set_eq_of_get {l : List α} {i : Nat} {a b : α} (h : l[i]? = some a) :
    l.set i b = l.take i ++ b :: l.drop (i + 1) := by
  rw [List.set_eq_take_append_cons_drop, if_pos (lt_of_getElem?_eq_some h)]

theorem insertIdx_eq {l : List α} {i : Nat} {a : α} (h : i ≤ l.length) :
    l.insertIdx i a = l.take i ++ a :: l.drop i := by
  induction l generalizing i with
  | nil => cases i <;> simp_all
  | cons x xs ih =>
    cases i with
    | zero => simp
    | succ i => simp at h; simp [ih h]

theorem sum_map_split {l : List α} {i : Nat} {a : α} (f : α → Nat) (h : l[i]? = some a) :
    (l.map f).sum = ((l.take i).map f).sum + f a + ((l.drop (i + 1)).map f).sum := by
  conv => lhs; rw [list_split_at h]
  simp [List.sum_append]; omega

theorem sum_map_set {l : List α} {i : Nat} {a b : α} (f : α → Nat) (h : l[i]? = some a) :
    ((l.set i b).map f).sum + f a = (l.map f).sum + f b := by
  rw [set_eq_of_get h, sum_map_split f h]
  simp [List.sum_append]; omega

theorem sum_map_eraseIdx {l : List α} {i : Nat} {a : α} (f : α → Nat) (h : l[i]? = some a) :
    ((l.eraseIdx i).map f).sum + f a = (l.map f).sum := by
  rw [List.eraseIdx_eq_take_drop_succ, sum_map_split f h]
  simp [List.sum_append]; omega

theorem sum_map_insertIdx {l : List α} {i : Nat} {b : α} (f : α → Nat) (h : i ≤ l.length) :
    ((l.insertIdx i b).map f).sum = (l.map f).sum + f b := by
  rw [insertIdx_eq h]
  have h1 : (l.map f).sum = ((l.take i ++ l.drop i).map f).sum := by rw [List.take_append_drop]
  rw [h1]
  simp only [List.map_append, List.sum_append, List.map_cons, List.sum_cons]; omega

theorem flatMap_split {l : List α} {i : Nat} {a : α} (f : α → List β) (h : l[i]? = some a) :
    l.flatMap f = (l.take i).flatMap f ++ (f a ++ (l.drop (i + 1)).flatMap f) := by
  conv => lhs; rw [list_split_at h]
  simp [List.flatMap_append]

theorem flatMap_set {l : List α} {i : Nat} {a b : α} (f : α → List β) (h : l[i]? = some a) :
    (l.set i b).flatMap f = (l.take i).flatMap f ++ (f b ++ (l.drop (i + 1)).flatMap f) := by
  rw [set_eq_of_get h]; simp [List.flatMap_append]

theorem flatMap_eraseIdx {l : List α} {i : Nat} (f : α → List β) :
    (l.eraseIdx i).flatMap f = (l.take i).flatMap f ++ (l.drop (i + 1)).flatMap f := by
  rw [List.eraseIdx_eq_take_drop_succ]; simp [List.flatMap_append]

theorem flatMap_insertIdx {l : List α} {i : Nat} {b : α} (f : α → List β) (h : i ≤ l.length) :
    (l.insertIdx i b).flatMap f = (l.take i).flatMap f ++ (f b ++ (l.drop i).flatMap f) := by
  rw [insertIdx_eq h]; simp [List.flatMap_append]

theorem flatMap_take_drop {l : List α} (i : Nat) (f : α → List β) :
    l.flatMap f = (l.take i).flatMap f ++ (l.drop i).flatMap f := by
  rw [← List.flatMap_append, List.take_append_drop]

theorem take_succ_getD {l : List Nat} {n : Nat} (h : n < l.length) :
    l.take (n + 1) = l.take n ++ [l.getD n 0] := by
  rw [List.take_add_one, List.getD_eq_getElem?_getD, List.getElem?_eq_getElem h]; rfl

theorem mem_take_get {l : List α} {i : Nat} {a : α} (h : a ∈ l.take i) : ∃ j, j < i ∧ l[j]? = some a := by
  rw [List.mem_take_iff_getElem] at h
  obtain ⟨j, hj, rfl⟩ := h
  refine ⟨j, by omega, ?_⟩
  rw [List.getElem?_eq_getElem]

theorem mem_drop_get {l : List α} {i : Nat} {a : α} (h : a ∈ l.drop i) : ∃ j, i ≤ j ∧ l[j]? = some a := by
  rw [List.mem_drop_iff_getElem] at h
  obtain ⟨j, hj, rfl⟩ := h
  refine ⟨i + j, by omega, ?_⟩
  rw [List.getElem?_eq_getElem]

end ListLemmas

/-! ### strictly increasing digest tables -/

theorem sorted_get_lt {l : List Nat} (h : l.Pairwise (· < ·)) {i j a b : Nat}
    (hi : l[i]? = some a) (hj : l[j]? = some b) (hij : i < j) : a < b := by
  have h1 := lt_of_getElem?_eq_some hi
  have h2 := lt_of_getElem?_eq_some hj
  rw [List.getElem?_eq_getElem h1] at hi
  rw [List.getElem?_eq_getElem h2] at hj
  have := (List.pairwise_iff_getElem.mp h) i j h1 h2 hij
  simp at hi hj; omega

theorem sorted_get_inj {l : List Nat} (h : l.Pairwise (· < ·)) {i j a : Nat}
    (hi : l[i]? = some a) (hj : l[j]? = some a) : i = j := by
  rcases Nat.lt_trichotomy i j with h1 | h1 | h1
  · have := sorted_get_lt h hi hj h1; omega
  · exact h1
  · have := sorted_get_lt h hj hi h1; omega

/-- inserting `x` at a position `q` that separates smaller from larger entries keeps the table
    strictly increasing -/
theorem sorted_insertIdx {l : List Nat} (h : l.Pairwise (· < ·)) {q x : Nat} (hq : q ≤ l.length)
    (hlt : ∀ p a, p < q → l[p]? = some a → a < x) (hgt : ∀ p a, q ≤ p → l[p]? = some a → x < a) :
    (l.insertIdx q x).Pairwise (· < ·) := by
  rw [insertIdx_eq hq]
  rw [← List.take_append_drop q l] at h
  rw [List.pairwise_append] at h ⊢
  obtain ⟨h1, h2, h3⟩ := h
  refine ⟨h1, ?_, ?_⟩
  · rw [List.pairwise_cons]
    refine ⟨?_, h2⟩
    intro a ha
    obtain ⟨j, hj, hja⟩ := mem_drop_get ha
    exact hgt j a hj hja
  · intro a ha b hb
    obtain ⟨j, hj, hja⟩ := mem_take_get ha
    have hax := hlt j a hj hja
    rcases List.mem_cons.mp hb with rfl | hb
    · exact hax
    · obtain ⟨j', hj', hjb⟩ := mem_drop_get hb
      have := hgt j' b hj' hjb
      omega

theorem sorted_eraseIdx {l : List Nat} (h : l.Pairwise (· < ·)) (i : Nat) :
    (l.eraseIdx i).Pairwise (· < ·) := by
  rw [List.eraseIdx_eq_take_drop_succ]
  rw [← List.take_append_drop i l] at h
  rw [List.pairwise_append] at h ⊢
  obtain ⟨h1, h2, h3⟩ := h
  refine ⟨h1, ?_, ?_⟩
  · cases hd : l.drop i with
    | nil => have : l.drop (i+1) = [] := by
               rw [← List.drop_drop, hd]; rfl
             rw [this]; exact List.Pairwise.nil
    | cons y ys =>
      have : l.drop (i+1) = ys := by rw [← List.drop_drop, hd]; rfl
      rw [this]; rw [hd] at h2; exact (List.pairwise_cons.mp h2).2
  · intro a ha b hb
    apply h3 a ha b
    have : l.drop (i+1) = (l.drop i).drop 1 := by rw [List.drop_drop]
    rw [this] at hb
    exact List.mem_of_mem_drop hb

/-! ### keys -/

theorem MKey.same_iff (a b : MKey) : a.same b = true ↔ a.size = b.size ∧ a.pay = b.pay := by
  simp [MKey.same]

theorem MKey.same_self (a : MKey) : a.same a = true := by simp [MKey.same]

section Keys
variable {T L : Nat} {D : DigestFn L}

theorem KeyOk.eq_of_same {a b : MKey} (ha : KeyOk T L D a) (hb : KeyOk T L D b)
    (h : a.same b = true) : a = b := by
  rw [MKey.same_iff] at h
  have h1 := ha.1; have h2 := hb.1
  rw [h.1, h.2] at h1
  cases a; cases b; simp_all

theorem KeyOk.same_iff {a b : MKey} (ha : KeyOk T L D a) (hb : KeyOk T L D b) :
    a.same b = true ↔ a = b :=
  ⟨KeyOk.eq_of_same ha hb, fun h => h ▸ MKey.same_self a⟩

theorem KeyOk.same_false_iff {a b : MKey} (ha : KeyOk T L D a) (hb : KeyOk T L D b) :
    a.same b = false ↔ a ≠ b := by
  have := KeyOk.same_iff ha hb
  cases h : a.same b <;> simp_all

theorem KeyOk.digs_length {k : MKey} (h : KeyOk T L D k) : k.digs.length = L := by
  rw [h.1]; exact D.len _

theorem KeyOk.take_succ {k : MKey} (h : KeyOk T L D k) {ℓ : Nat} (hℓ : ℓ < L) :
    k.digs.take (ℓ + 1) = k.digs.take ℓ ++ [k.dig ℓ] := by
  unfold MKey.dig
  exact take_succ_getD (by rw [h.digs_length]; exact hℓ)

/-- keys below different digests are different -/
theorem ne_of_prefix_ne {a b : MKey} {n : Nat} {p : List Nat} {x y : Nat}
    (ha : a.digs.take n = p ++ [x]) (hb : b.digs.take n = p ++ [y]) (hxy : x ≠ y) : a ≠ b := by
  intro h; subst h
  rw [ha] at hb
  have := List.append_cancel_left hb
  simp at this; exact hxy this

theorem lex_of_prefix {a b : List Nat} {n : Nat} {p : List Nat} {x y : Nat}
    (ha : a.take n = p ++ [x]) (hb : b.take n = p ++ [y]) (hxy : x < y) : List.Lex (· < ·) a b := by
  have ha' : a = p ++ (x :: a.drop n) := by
    conv => lhs; rw [← List.take_append_drop n a, ha]
    simp
  have hb' : b = p ++ (y :: b.drop n) := by
    conv => lhs; rw [← List.take_append_drop n b, hb]
    simp
  rw [ha', hb']
  clear ha hb ha' hb'
  induction p with
  | nil => exact List.Lex.rel hxy
  | cons q p ih => exact List.Lex.cons ih

end Keys

end Atree
