import AtreeProofs.Map.TreeBasics
/-
  Structural tree invariant `SInv` (no size band), its relation to `MTreeInv`, facts about first
  keys and routing digests.
-/
namespace Atree
open Gen

variable {T : Nat} {r : Nat} {D : DigestFn (r + 1)}

/-! ### zipper list surgery -/
section Zipper
variable {α : Type}

theorem zip_set (A B : List α) (x y : α) : (A ++ x :: B).set A.length y = A ++ y :: B := by simp

theorem zip_get (A B : List α) (x : α) : (A ++ x :: B)[A.length]? = some x := by simp

theorem zip_get_succ (A B : List α) (x y : α) : (A ++ x :: y :: B)[A.length + 1]? = some y := by
  have : A ++ x :: y :: B = (A ++ [x]) ++ y :: B := by simp
  rw [this]
  have h2 : A.length + 1 = (A ++ [x]).length := by simp
  rw [h2]; exact zip_get _ _ _

theorem zip_set_succ (A B : List α) (x y z : α) : (A ++ x :: y :: B).set (A.length + 1) z = A ++ x :: z :: B := by
  have : A ++ x :: y :: B = (A ++ [x]) ++ y :: B := by simp
  rw [this]
  have h2 : A.length + 1 = (A ++ [x]).length := by simp
  rw [h2, zip_set]; simp

theorem zip_insert_succ (A B : List α) (x y : α) : (A ++ x :: B).insertIdx (A.length + 1) y = A ++ x :: y :: B := by
  induction A with
  | nil => simp
  | cons a A ih => simp only [List.cons_append, List.length_cons, List.insertIdx_succ_cons, ih]

theorem zip_erase_succ (A B : List α) (x y : α) : (A ++ x :: y :: B).eraseIdx (A.length + 1) = A ++ x :: B := by
  induction A with
  | nil => simp
  | cons a A ih => simp only [List.cons_append, List.length_cons, List.eraseIdx_cons_succ, ih]

theorem zip_set' {A B : List α} {x : α} (y : α) {k : Nat} (hk : A.length = k) :
    (A ++ x :: B).set k y = A ++ y :: B := by subst hk; exact zip_set A B x y

theorem zip_get' {A B : List α} {x : α} {k : Nat} (hk : A.length = k) : (A ++ x :: B)[k]? = some x := by
  subst hk; exact zip_get A B x

theorem zip_get_succ' {A B : List α} {x y : α} {k : Nat} (hk : A.length = k) :
    (A ++ x :: y :: B)[k + 1]? = some y := by subst hk; exact zip_get_succ A B x y

theorem zip_set_succ' {A B : List α} {x y : α} (z : α) {k : Nat} (hk : A.length = k) :
    (A ++ x :: y :: B).set (k + 1) z = A ++ x :: z :: B := by subst hk; exact zip_set_succ A B x y z

theorem zip_insert_succ' {A B : List α} {x : α} (y : α) {k : Nat} (hk : A.length = k) :
    (A ++ x :: B).insertIdx (k + 1) y = A ++ x :: y :: B := by subst hk; exact zip_insert_succ A B x y

theorem zip_erase_succ' {A B : List α} {x y : α} {k : Nat} (hk : A.length = k) :
    (A ++ x :: y :: B).eraseIdx (k + 1) = A ++ x :: B := by subst hk; exact zip_erase_succ A B x y

theorem zip_of_get {l : List α} {i : Nat} {a : α} (h : l[i]? = some a) :
    ∃ A B, l = A ++ a :: B ∧ A.length = i := by
  refine ⟨l.take i, l.drop (i + 1), list_split_at h, ?_⟩
  have := lt_of_getElem?_eq_some h
  simp; omega

theorem zip_get_pred (A B : List α) (x : α) (h : 0 < A.length) :
    ∃ A' l, A = A' ++ [l] ∧ (A ++ x :: B)[A.length - 1]? = some l := by
  have hne : A ≠ [] := by intro h'; rw [h'] at h; simp at h
  refine ⟨A.dropLast, A.getLast hne, (List.dropLast_concat_getLast hne).symm, ?_⟩
  rw [List.getElem?_append_left (by omega)]
  rw [List.getLast_eq_getElem]
  exact List.getElem?_eq_getElem (by omega)

end Zipper

/-! ### the structural invariant -/

/-- the tree invariant without any size band -/
def SInv (T : Nat) (D : DigestFn (r + 1)) : (d : Nat) → Bool → MTree r d → Prop
  | 0, top, (s : MDataSlab r) => MDataLoose T D top s
  | d + 1, top, (m : MMetaSlab (MTree r d)) => MetaLoose T D d top m ∧ 1 ≤ m.children.length

theorem map_minThr_ge (hT : legalThreshold T = true) : 128 ≤ minThr T := by
  have := map_legal_bounds hT; simp only [minThr]; omega

theorem map_maxThr_eq (T : Nat) : maxThr T = 3 * T / 2 := rfl

theorem MDataLoose.elem_le (hT : legalThreshold T = true) {top : Bool} {s : MDataSlab r} (h : MDataLoose T D top s) :
    ∀ el ∈ s.elems.elems, MElemF.size (MElems.ops r) el ≤ maxInlineMapElem T := by
  intro el hel
  obtain ⟨i, hi⟩ := List.mem_iff_getElem?.mp hel
  obtain ⟨hk, hhk⟩ := h.hinv.hkey_at hi
  exact (h.hinv.elemOk hhk hi).size_le hT rfl

theorem MDataLoose.sizes_le (hT : legalThreshold T = true) {top : Bool} {s : MDataSlab r} (h : MDataLoose T D top s) :
    ∀ x ∈ s.elems.elems.map (fun el => MElemF.size (MElems.ops r) el + digestSize), x ≤ maxEntry T := by
  intro x hx
  obtain ⟨el, hel, rfl⟩ := List.mem_map.mp hx
  have := h.elem_le hT el hel
  simp only [maxEntry]; omega

theorem mdataInv_iff (hT : legalThreshold T = true) (top : Bool) (s : MDataSlab r) :
    MDataInv T D top s ↔ MDataLoose T D top s ∧ s.hdr.size ≤ maxThr T ∧ (top = false → minThr T ≤ s.hdr.size) := by
  constructor
  · intro h; exact ⟨h.loose, h.le_max, h.ge_min⟩
  · rintro ⟨h, h1, h2⟩
    refine ⟨h.elems_inv, h.size_eq, h.first_eq, h.root_eq, h.inl_root, h1, h2, ?_, h.elem_le hT⟩
    intro htop hnil
    subst htop
    have := h2 rfl
    have hm := map_minThr_ge hT
    have hsz := h.hinv.size_eq
    rw [h.size_eq, h.prefix_nontop, hsz, hnil] at this
    simp [HkeyElems.elemSizes, mapDataSlabPrefixSize, hkeyElementsPrefixSize] at this
    omega

theorem mtreeInv_false_iff_zero (hT : legalThreshold T = true) (s : MDataSlab r) :
    MTreeInv T D 0 false s ↔ MDataLoose T D false s ∧ minThr T ≤ s.hdr.size ∧ s.hdr.size ≤ maxThr T := by
  rw [mtreeInv_zero_iff, mdataInv_iff hT]
  constructor
  · rintro ⟨h, h1, h2⟩; exact ⟨h, h2 rfl, h1⟩
  · rintro ⟨h, h1, h2⟩; exact ⟨h, h2, fun _ => h1⟩

theorem mtreeInv_false_iff_succ (hT : legalThreshold T = true) {d : Nat} (m : MMetaSlab (MTree r d)) :
    MTreeInv T D (d + 1) false m ↔
      (MetaLoose T D d false m ∧ 1 ≤ m.children.length) ∧ minThr T ≤ m.hdr.size ∧ m.hdr.size ≤ maxThr T := by
  rw [mtreeInv_succ_iff]
  constructor
  · rintro ⟨h, h1, h2, _⟩
    refine ⟨⟨h, ?_⟩, h2 rfl, h1⟩
    have := h2 rfl
    have hm := map_minThr_ge hT
    rw [h.2.2.1] at this
    simp only [mapMetaDataSlabPrefixSize, mapSlabHeaderSize] at this
    omega
  · rintro ⟨⟨h, _⟩, h1, h2⟩
    exact ⟨h, h2, fun _ => h1, fun h => by cases h⟩

theorem mtreeInv_false_iff (hT : legalThreshold T = true) : ∀ (d : Nat) (t : MTree r d),
    MTreeInv T D d false t ↔ SInv T D d false t ∧ minThr T ≤ (MTree.hdr d t).size ∧ (MTree.hdr d t).size ≤ maxThr T
  | 0, s => mtreeInv_false_iff_zero hT s
  | _ + 1, m => mtreeInv_false_iff_succ hT m

theorem MTreeInv.sinv (hT : legalThreshold T = true) {d : Nat} {t : MTree r d} (h : MTreeInv T D d false t) :
    SInv T D d false t := ((mtreeInv_false_iff hT d t).mp h).1

namespace SInv

theorem sorted : ∀ (d : Nat) (top : Bool) (t : MTree r d), SInv T D d top t → (MTree.digests0 d t).Pairwise (· < ·)
  | 0, _, _, h => MDataLoose.sorted h
  | _ + 1, _, _, h => h.1.2.2.2.2.2.2.2

end SInv

theorem digests_ne_nil_succ {d : Nat} (m : MMetaSlab (MTree r d)) (hlen : 1 ≤ m.children.length)
    (ih : ∀ c ∈ m.children, MTree.digests0 d c ≠ []) : MTree.digests0 (d + 1) m ≠ [] := by
  show m.children.flatMap (MTree.digests0 d) ≠ []
  cases hc : m.children with
  | nil => rw [hc] at hlen; simp at hlen
  | cons c cs =>
    have := ih c (by rw [hc]; simp)
    simp [this]

/-- non-root subtrees hold at least one first-level digest -/
theorem MTreeInv.digests_ne_nil (hT : legalThreshold T = true) : ∀ (d : Nat) (t : MTree r d),
    MTreeInv T D d false t → MTree.digests0 d t ≠ []
  | 0, s, h => by
    have h' := (mtreeInv_zero_iff T D _ _).mp h
    exact (h'.loose.nonempty_iff).mp (h'.nonempty rfl)
  | d + 1, m, h =>
    have hs := (mtreeInv_false_iff_succ hT m).mp h
    digests_ne_nil_succ m hs.1.2 (fun c hc => MTreeInv.digests_ne_nil hT d c (hs.1.1.2.2.2.2.1 c hc))

theorem firstKey_eq_succ (hT : legalThreshold T = true) {d : Nat} {top : Bool} (m : MMetaSlab (MTree r d))
    (hm : MetaLoose T D d top m) (hlen : 1 ≤ m.children.length) :
    m.hdr.firstKey = (MTree.digests0 (d + 1) m).headD 0 := by
  show m.hdr.firstKey = (m.children.flatMap (MTree.digests0 d)).headD 0
  rw [hm.2.2.2.1, hm.2.1]
  cases hc : m.children with
  | nil => rw [hc] at hlen; simp at hlen
  | cons c cs =>
    have hne := MTreeInv.digests_ne_nil hT d c (hm.2.2.2.2.1 c (by rw [hc]; simp))
    have hfk := hm.2.2.2.2.2.2.1 c (by rw [hc]; simp)
    simp only [List.map_cons, List.headD_cons, List.flatMap_cons]
    rw [hfk]
    cases hd : MTree.digests0 d c with
    | nil => exact absurd hd hne
    | cons x xs => simp

/-- the header's first key is the smallest first-level digest -/
theorem SInv.firstKey_eq (hT : legalThreshold T = true) : ∀ (d : Nat) (top : Bool) (t : MTree r d), SInv T D d top t →
    (MTree.hdr d t).firstKey = (MTree.digests0 d t).headD 0
  | 0, _, _, h => MDataLoose.first_eq h
  | _ + 1, _, m, h => firstKey_eq_succ hT m h.1 h.2

/-- all first-level digests of a subtree are at least its first key -/
theorem SInv.firstKey_le (hT : legalThreshold T = true) {d : Nat} {top : Bool} {t : MTree r d} (h : SInv T D d top t) :
    ∀ x ∈ MTree.digests0 d t, (MTree.hdr d t).firstKey ≤ x := by
  intro x hx
  rw [SInv.firstKey_eq hT d top t h]
  have hs := SInv.sorted d top t h
  cases hd : MTree.digests0 d t with
  | nil => rw [hd] at hx; simp at hx
  | cons y ys =>
    rw [hd] at hx hs
    simp only [List.headD_cons]
    rcases List.mem_cons.mp hx with rfl | hx
    · omega
    · have := (List.pairwise_cons.mp hs).1 x hx; omega

theorem SInv.firstKey_mem (hT : legalThreshold T = true) {d : Nat} {top : Bool} {t : MTree r d} (h : SInv T D d top t)
    (hne : MTree.digests0 d t ≠ []) : (MTree.hdr d t).firstKey ∈ MTree.digests0 d t := by
  rw [SInv.firstKey_eq hT d top t h]
  cases hd : MTree.digests0 d t with
  | nil => exact absurd hd hne
  | cons y ys => simp

end Atree
