import AtreeProofs.Map.HkeyOps
/-
  `HkeyElems.set` under `HInv`, including the collision-limit check of the first level.
-/
namespace Atree
open Gen

/-- the collision limit refuses the insertion of `k` -/
def Limited {α : Type} (o : ElemsOps α) (cfg : MCfg) (he : HkeyElems α) (ℓ : Nat) (k : MKey) : Prop :=
  ℓ = 0 ∧ ∃ (i : Nat) (el : MElemF α), he.hkeys[i]? = some (k.dig ℓ) ∧ he.elems[i]? = some el ∧
    cfg.climit ≤ el.count o - 1 ∧ ∀ p ∈ HkeyElems.toList o he, p.1 ≠ k

namespace HkeyElems
variable {α : Type} {o : ElemsOps α} {cfg : MCfg} {he : HkeyElems α}

theorem setAt_limited {ℓ : Nat} (el : MElemF α) (k : MKey) (v : Elem) (c : Ctx) (i : Nat) (h0 : he.level = 0)
    (hn : 1 ≤ el.count o) (hcl : cfg.climit ≤ el.count o - 1) (hg : el.get o cfg ℓ k = .error .keyNotFound) :
    HkeyElems.setAt o cfg he ℓ k v c i el = .error .collisionLimit := by
  have hn0 : (el.count o == 0) = false := by simp; omega
  simp [HkeyElems.setAt, h0, hn0, hg, hcl, bind, Except.bind, throw, throwThe, MonadExceptOf.throw]

theorem setAt_ok {ℓ : Nat} (el : MElemF α) (k : MKey) (v : Elem) (c : Ctx) (i : Nat)
    (hlim : he.level = 0 → 1 ≤ el.count o ∧ (cfg.climit ≤ el.count o - 1 → ∃ r, el.get o cfg ℓ k = .ok r))
    {el' : MElemF α} {ks : MKey} {old : Option Elem} {c' : Ctx} (hs : el.set o cfg ℓ k v c = .ok (el', ks, old, c')) :
    HkeyElems.setAt o cfg he ℓ k v c i el =
      .ok (ks, old, { he with elems := he.elems.set i el',
                              size := hkeyElementsPrefixSize + elemSizes o (he.elems.set i el') }, c') := by
  by_cases h0 : he.level = 0
  · obtain ⟨hn, hg⟩ := hlim h0
    have hn0 : (el.count o == 0) = false := by simp; omega
    by_cases hcl : cfg.climit ≤ el.count o - 1
    · obtain ⟨r, hr⟩ := hg hcl
      simp [HkeyElems.setAt, h0, hn0, hr, hcl, hs, bind, Except.bind, pure, Except.pure]
    · simp [HkeyElems.setAt, h0, hn0, hcl, hs, bind, Except.bind, pure, Except.pure]
  · have h0' : (he.level == 0) = false := by simp [h0]
    simp [HkeyElems.setAt, h0', hs, bind, Except.bind, pure, Except.pure]

end HkeyElems

namespace HInv
variable {T L : Nat} {D : DigestFn L} {cfg : MCfg} {α : Type} {o : ElemsOps α}
  {Inv : Nat → List Nat → α → Prop} {rr : Nat} {ℓ : Nat} {path : List Nat} {he : HkeyElems α}

theorem set (S : OpsSpec T L D cfg o Inv rr) (hT : legalThreshold T = true) (hc : CfgFor cfg T L)
    (H : HInv T L D o Inv rr ℓ path he) {k : MKey} (hkk : KeyOk T L D k) (hpath : k.digs.take ℓ = path)
    {v : Elem} (hv : ValueOkM v) (c : Ctx) :
    (Limited o cfg he ℓ k → HkeyElems.set o cfg he ℓ k v c = .error .collisionLimit) ∧
    (¬ Limited o cfg he ℓ k → ∃ res, HkeyElems.set o cfg he ℓ k v c = .ok res ∧
        SetPost T L D o Inv rr ℓ path he k (storedValue cfg k v c) c res) := by
  have hlev : ¬ (ℓ ≥ cfg.L) := by rw [hc.hL]; have := H.level_lt; omega
  have hp1 : k.digs.take (ℓ + 1) = path ++ [k.dig ℓ] := by rw [hkk.take_succ H.level_lt, hpath]
  by_cases hex : ∃ i : Nat, he.hkeys[i]? = some (k.dig ℓ)
  · obtain ⟨i, hi⟩ := hex
    obtain ⟨el, hel⟩ := H.elem_at hi
    rw [HkeyElems.set_eq_setAt o cfg he ℓ k v c H.sorted hlev hi hel]
    have hEl := H.elemOk hi hel
    obtain ⟨hloc, hP, hQ⟩ := H.locate S hi hel
    have hget := hEl.get S hc H.1 hkk hp1
    obtain ⟨el', old, c', hs, hEl', heff, hctr, hids⟩ := hEl.set S hT hc H.1 hkk hp1 hv c
    have hcnt := hEl.count_pos
    have habs_iff : (∀ p ∈ HkeyElems.toList o he, p.1 ≠ k) ↔ (∀ p ∈ el.toList o, p.1 ≠ k) := by
      constructor
      · intro h p hp; apply h; rw [hloc]; exact List.mem_append_right _ (List.mem_append_left _ hp)
      · intro h p hp
        rw [hloc] at hp
        rcases List.mem_append.mp hp with hp | hp
        · exact hP p hp
        · rcases List.mem_append.mp hp with hp | hp
          · exact h p hp
          · exact hQ p hp
    constructor
    · rintro ⟨h0, i2, el2, hi2, hel2, hcl, habs⟩
      have := sorted_get_inj H.sorted hi2 hi
      subst this
      rw [hel] at hel2; cases hel2
      exact HkeyElems.setAt_limited el k v c i2 (by rw [H.2.1]; exact h0) hcnt hcl (hget.2 (habs_iff.mp habs))
    · intro hnl
      have hlim : he.level = 0 → 1 ≤ el.count o ∧ (cfg.climit ≤ el.count o - 1 → ∃ r, el.get o cfg ℓ k = .ok r) := by
        intro h0
        refine ⟨hcnt, ?_⟩
        intro hcl
        by_cases hpres : ∃ v0, (k, v0) ∈ el.toList o
        · obtain ⟨v0, hv0⟩ := hpres
          exact ⟨_, hget.1 v0 hv0⟩
        · exfalso
          apply hnl
          refine ⟨by rw [← H.2.1]; exact h0, i, el, hi, hel, hcl, habs_iff.mpr ?_⟩
          intro p hp hpk
          exact hpres ⟨p.2, by rw [← hpk]; exact hp⟩
      rw [HkeyElems.setAt_ok el k v c i hlim hs]
      refine ⟨_, rfl, rfl, ?_, ?_, hctr, ?_, ?_, ?_, ?_, ?_⟩
      · refine ⟨H.1, H.2.1, ?_, H.sorted, rfl, ?_⟩
        · simp only [List.length_set]; exact H.len_eq
        · intro j hk el2 hj hel2
          simp only [List.getElem?_set] at hel2
          by_cases hij : i = j
          · subst hij
            rw [if_pos rfl, if_pos (lt_of_getElem?_eq_some hel)] at hel2
            cases hel2
            rw [hi] at hj; cases hj
            exact hEl'
          · rw [if_neg hij] at hel2
            exact H.elemOk hj hel2
      · simp only
        have : HkeyElems.toList o { he with elems := he.elems.set i el', size := hkeyElementsPrefixSize + HkeyElems.elemSizes o (he.elems.set i el') }
            = (he.elems.take i).flatMap (MElemF.toList o) ++ (el'.toList o ++ (he.elems.drop (i + 1)).flatMap (MElemF.toList o)) := by
          simp only [HkeyElems.toList]; exact flatMap_set _ hel
        rw [this, hloc]
        exact heff.lift _ _ hP hQ
      · intro id hid
        simp only at hid ⊢
        rw [mem_extIds] at hid
        obtain ⟨e, he', hide⟩ := hid
        rcases List.mem_or_eq_of_mem_set he' with he' | rfl
        · left; rw [mem_extIds]; exact ⟨e, he', hide⟩
        · rcases hids id hide with h | h
          · left; rw [mem_extIds]; exact ⟨el, List.mem_of_getElem? hel, h⟩
          · right; exact h
      · intro x hx; left; exact hx
      · intro x hx; exact hx
      · exact List.mem_of_getElem? hi
      · intro h0
        simp only
        have h1 := hEl.size_le hT h0
        have h2 := hEl'.size_le hT h0
        have h3 := sum_map_set (fun e => MElemF.size o e + digestSize) (b := el') hel
        rw [H.size_eq]
        simp only [HkeyElems.elemSizes, digestSize] at *
        omega
  · have hno : ∀ j : Nat, he.hkeys[j]? ≠ some (k.dig ℓ) := fun j hj => hex ⟨j, hj⟩
    constructor
    · rintro ⟨_, i, _, hi, _⟩; exact absurd hi (hno i)
    · intro _
      obtain ⟨q, hq, hlt, hgt, heq⟩ := HkeyElems.set_absent o cfg he ℓ k v c H.sorted hlev hno
      exact ⟨_, heq, insertNew_spec S hT hc H hkk hpath hv c hq hlt hgt⟩

end HInv
end Atree
