import AtreeProofs.Map.Basics
/-
  The three binary searches, on strictly increasing tables.
-/
namespace Atree
open Gen

namespace HkeyElems

theorem getD_of_get {l : List Nat} {i a : Nat} (h : l[i]? = some a) : l.getD i 0 = a := by
  rw [List.getD_eq_getElem?_getD, h]; rfl

theorem get_of_lt {l : List Nat} {i : Nat} (h : i < l.length) : l[i]? = some (l.getD i 0) := by
  rw [List.getD_eq_getElem?_getD, List.getElem?_eq_getElem h]; rfl

theorem findEq_some {hkeys : List Nat} {hkey : Nat} : ∀ (fuel i j : Nat) {h : Nat}, j ≤ hkeys.length →
    findEq hkeys hkey i j fuel = some h → hkeys[h]? = some hkey
  | 0, _, _, _, _, hr => by simp [findEq] at hr
  | fuel + 1, i, j, h, hj, hr => by
    simp only [findEq] at hr
    split at hr
    · split at hr
      · exact findEq_some fuel _ _ (by omega) hr
      · split at hr
        · exact findEq_some fuel _ _ hj hr
        · cases hr
          have hlt : (i + j) / 2 < hkeys.length := by omega
          rw [get_of_lt hlt]; congr 1; omega
    · cases hr

theorem findEq_none {hkeys : List Nat} {hkey : Nat} (hs : hkeys.Pairwise (· < ·)) :
    ∀ (fuel i j : Nat), j ≤ hkeys.length → j - i < fuel →
    findEq hkeys hkey i j fuel = none → ∀ p, i ≤ p → p < j → hkeys[p]? ≠ some hkey
  | 0, _, _, _, hf, _ => by omega
  | fuel + 1, i, j, hj, hf, hr => by
    intro p hip hpj hp
    simp only [findEq] at hr
    split at hr
    · have hlt : (i + j) / 2 < hkeys.length := by omega
      have hh := get_of_lt hlt
      split at hr
      · rename_i hgt
        rcases Nat.lt_or_ge p ((i + j) / 2) with h1 | h1
        · exact findEq_none hs fuel _ _ (by omega) (by omega) hr p hip h1 hp
        · rcases Nat.eq_or_lt_of_le h1 with h2 | h2
          · rw [← h2] at hp; rw [hp] at hh; cases hh; omega
          · have := sorted_get_lt hs hh hp h2; omega
      · split at hr
        · rename_i hlt'
          rcases Nat.lt_or_ge ((i + j) / 2) p with h1 | h1
          · exact findEq_none hs fuel _ _ hj (by omega) hr p (by omega) hpj hp
          · rcases Nat.eq_or_lt_of_le h1 with h2 | h2
            · rw [h2] at hp; rw [hp] at hh; cases hh; omega
            · have := sorted_get_lt hs hp hh h2; omega
        · cases hr
    · omega

theorem findEq_spec {hkeys : List Nat} (hkey : Nat) (hs : hkeys.Pairwise (· < ·)) :
    match findEq hkeys hkey 0 hkeys.length (hkeys.length + 1) with
    | some h => hkeys[h]? = some hkey
    | none => ∀ p : Nat, hkeys[p]? ≠ some hkey := by
  split
  · rename_i h hr; exact findEq_some _ _ _ (Nat.le_refl _) hr
  · rename_i hr
    intro p hp
    exact findEq_none hs _ _ _ (Nat.le_refl _) (by omega) hr p (Nat.zero_le _) (lt_of_getElem?_eq_some hp) hp

theorem findEqLt_some {hkeys : List Nat} {hkey : Nat} : ∀ (fuel i j lt : Nat) {h lt' : Nat}, j ≤ hkeys.length →
    findEqLt hkeys hkey i j lt fuel = (some h, lt') → hkeys[h]? = some hkey
  | 0, _, _, _, _, _, _, hr => by simp [findEqLt] at hr
  | fuel + 1, i, j, lt, h, lt', hj, hr => by
    simp only [findEqLt] at hr
    split at hr
    · split at hr
      · exact findEqLt_some fuel _ _ _ (by omega) hr
      · split at hr
        · exact findEqLt_some fuel _ _ _ hj hr
        · cases hr
          have hlt : (i + j) / 2 < hkeys.length := by omega
          rw [get_of_lt hlt]; congr 1; omega
    · cases hr

/-- when the search fails, the returned `lt` is the insertion point (unless nothing larger than
    `hkey` was ever seen, in which case the whole table is smaller than `hkey`) -/
theorem findEqLt_none {hkeys : List Nat} {hkey : Nat} (hs : hkeys.Pairwise (· < ·)) :
    ∀ (fuel i j lt : Nat) {lt' : Nat}, i ≤ j → j ≤ hkeys.length → j - i < fuel →
    (∀ p a, p < i → hkeys[p]? = some a → a < hkey) →
    (∀ p a, j ≤ p → hkeys[p]? = some a → hkey < a) →
    (lt = j ∨ j = hkeys.length) →
    findEqLt hkeys hkey i j lt fuel = (none, lt') →
    ∃ q, q ≤ hkeys.length ∧ (lt' = q ∨ q = hkeys.length) ∧
      (∀ p a, p < q → hkeys[p]? = some a → a < hkey) ∧
      (∀ p a, q ≤ p → hkeys[p]? = some a → hkey < a)
  | 0, _, _, _, _, _, _, hf, _, _, _, _ => by omega
  | fuel + 1, i, j, lt, lt', hij, hj, hf, hlo, hhi, hlt, hr => by
    simp only [findEqLt] at hr
    split at hr
    · have hlen : (i + j) / 2 < hkeys.length := by omega
      have hh := get_of_lt hlen
      split at hr
      · rename_i hgt
        refine findEqLt_none hs fuel _ _ _ (by omega) (by omega) (by omega) hlo ?_ (Or.inl rfl) hr
        intro p a hp hpa
        rcases Nat.eq_or_lt_of_le hp with h2 | h2
        · rw [← h2] at hpa; rw [hpa] at hh; cases hh; omega
        · have := sorted_get_lt hs hh hpa h2; omega
      · split at hr
        · rename_i hlt'
          refine findEqLt_none hs fuel _ _ _ (by omega) hj (by omega) ?_ hhi hlt hr
          intro p a hp hpa
          rcases Nat.eq_or_lt_of_le (Nat.le_of_lt_succ hp) with h2 | h2
          · rw [h2] at hpa; rw [hpa] at hh; cases hh; omega
          · have := sorted_get_lt hs hpa hh h2; omega
        · cases hr
    · have : i = j := by omega
      subst this
      simp at hr; subst hr
      exact ⟨i, hj, by omega, hlo, hhi⟩

end HkeyElems

namespace MMetaSlab

/-- `findChild`: the last index whose first key is `≤ hkey` -/
theorem findChild_spec {hdrs : List MHdr} {hkey : Nat} (hs : (hdrs.map (·.firstKey)).Pairwise (· < ·)) :
    ∀ (fuel i j : Nat) (ans : Option Nat) {res : Option Nat}, i ≤ j → j ≤ hdrs.length → j - i < fuel →
    (∀ p h, p < i → hdrs[p]? = some h → h.firstKey ≤ hkey) →
    (∀ p h, j ≤ p → hdrs[p]? = some h → hkey < h.firstKey) →
    (match ans with | some a => a + 1 = i | none => i = 0) →
    findChild hdrs hkey i j ans fuel = res →
    ∃ q, q ≤ hdrs.length ∧ (match res with | some a => a + 1 = q | none => q = 0) ∧
      (∀ p h, p < q → hdrs[p]? = some h → h.firstKey ≤ hkey) ∧
      (∀ p h, q ≤ p → hdrs[p]? = some h → hkey < h.firstKey)
  | 0, _, _, _, _, _, _, hf, _, _, _, _ => by omega
  | fuel + 1, i, j, ans, res, hij, hj, hf, hlo, hhi, hans, hr => by
    simp only [findChild] at hr
    split at hr
    · have hlen : (i + j) / 2 < hdrs.length := by omega
      have hh : hdrs[(i + j) / 2]? = some (hdrs.getD ((i + j) / 2) default) := by
        rw [List.getD_eq_getElem?_getD, List.getElem?_eq_getElem hlen]; rfl
      have hmono : ∀ (p q : Nat) (a b : MHdr), hdrs[p]? = some a → hdrs[q]? = some b → p < q → a.firstKey < b.firstKey := by
        intro p q a b hp hq hpq
        refine sorted_get_lt hs (i := p) (j := q) ?_ ?_ hpq
        · rw [List.getElem?_map, hp]; rfl
        · rw [List.getElem?_map, hq]; rfl
      split at hr
      · rename_i hgt
        refine findChild_spec hs fuel _ _ _ (by omega) (by omega) (by omega) hlo ?_ hans hr
        intro p a hp hpa
        rcases Nat.eq_or_lt_of_le hp with h2 | h2
        · rw [← h2] at hpa; rw [hpa] at hh; cases hh; omega
        · have := hmono _ _ _ _ hh hpa h2; omega
      · rename_i hle
        refine findChild_spec hs fuel _ _ _ (by omega) hj (by omega) ?_ hhi rfl hr
        intro p a hp hpa
        rcases Nat.eq_or_lt_of_le (Nat.le_of_lt_succ hp) with h2 | h2
        · rw [h2] at hpa; rw [hpa] at hh; cases hh; omega
        · have := hmono _ _ _ _ hpa hh h2; omega
    · have : i = j := by omega
      subst this
      subst hr
      exact ⟨i, hj, hans, hlo, hhi⟩

end MMetaSlab
end Atree
