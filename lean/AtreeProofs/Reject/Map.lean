import AtreeProofs.Reject.ArrayAgree
/-
  C18, maps: the in-place programs of `AtreeModel/Reject.lean` leave the state (every element,
  group, slab object and the storage context) exactly as it was when they return key-not-found or
  the collision-limit error – proved from the ORDER of their statements, by induction over the
  digest levels and over the depth of the slab tree.
-/
namespace Atree
open Gen

/-- what the induction carries from one digest level to the next -/
structure RejSpec {α : Type} (p : ElemsProgs α) : Prop where
  set : ∀ cfg level k v (st st' : α × Ctx) (e : MErr),
    p.setP cfg level k v st = (.error e, st') → e.isArg = true → st' = st
  remove : ∀ cfg level k (st st' : α × Ctx) (e : MErr),
    p.removeP cfg level k st = (.error e, st') → e.isArg = true → st' = st

open ATree (prog_cases tail_error)

/-! ### last-level lists -/

namespace SingleElems

theorem setP_reject (cfg : MCfg) (level : Nat) (k : MKey) (v : Elem) (st st' : SingleElems × Ctx) (e : MErr)
    (h : setP cfg level k v st = (.error e, st')) : st' = st := by
  obtain ⟨s, c⟩ := st
  simp only [setP] at h
  split at h
  · exact (Prod.mk.inj h).2.symm
  · split at h
    · split at h
      · exact (Prod.mk.inj h).2.symm
      · cases (Prod.mk.inj h).1
    · cases (Prod.mk.inj h).1

theorem removeP_reject (cfg : MCfg) (level : Nat) (k : MKey) (st st' : SingleElems × Ctx) (e : MErr)
    (h : removeP cfg level k st = (.error e, st')) : st' = st := by
  obtain ⟨s, c⟩ := st
  simp only [removeP] at h
  split at h
  · exact (Prod.mk.inj h).2.symm
  · split at h
    · split at h
      · exact (Prod.mk.inj h).2.symm
      · cases (Prod.mk.inj h).1
    · exact (Prod.mk.inj h).2.symm

theorem rejSpec : RejSpec progs :=
  ⟨fun cfg level k v st st' e h _ => setP_reject cfg level k v st st' e h,
   fun cfg level k st st' e h _ => removeP_reject cfg level k st st' e h⟩

end SingleElems

/-! ### elements -/

namespace MElemF
variable {α : Type} {o : ElemsOps α} {p : ElemsProgs α}

theorem inlSetP_reject (S : RejSpec p) (cfg : MCfg) (level : Nat) (k : MKey) (v : Elem) (st st' : α × Ctx) (e : MErr)
    (h : inlSetP o p cfg level k v st = (.error e, st')) (harg : e.isArg = true) : st' = st := by
  obtain ⟨g, c⟩ := st
  simp only [inlSetP] at h
  split at h
  · exact (Prod.mk.inj h).2.symm
  · rcases prog_cases (p.setP cfg (level + 1) k v (g, c)) with ⟨⟨ks, old⟩, ⟨g', c'⟩, hp⟩ | ⟨e2, st2, hp⟩
    · rw [hp] at h
      simp only at h
      split at h <;> cases (Prod.mk.inj h).1
    · rw [hp] at h
      simp only at h
      have he : e2 = e := Except.error.inj (Prod.mk.inj h).1
      subst he
      rw [← (Prod.mk.inj h).2]
      exact S.set cfg (level + 1) k v (g, c) st2 e2 hp harg

/-- `element.Set`: an argument error leaves the element object (and its group slab) and the
    storage context as they were -/
theorem setP_reject (S : RejSpec p) (cfg : MCfg) (level : Nat) (k : MKey) (v : Elem) (st st' : MElemF α × Ctx)
    (e : MErr) (h : setP o p cfg level k v st = (.error e, st')) (harg : e.isArg = true) : st' = st := by
  obtain ⟨el, c⟩ := st
  cases el with
  | single x =>
    simp only [setP] at h
    split at h
    · cases (Prod.mk.inj h).1
    · cases hn : o.newWith cfg (level + 1) x with
      | error e1 => rw [hn] at h; exact (Prod.mk.inj h).2.symm
      | ok g =>
        rw [hn] at h
        simp only at h
        rcases prog_cases (inlSetP o p cfg level k v (g, c)) with ⟨⟨el', ks, old⟩, ⟨g', c'⟩, hp⟩ | ⟨e2, ⟨g', c'⟩, hp⟩
        · rw [hp] at h; cases (Prod.mk.inj h).1
        · rw [hp] at h
          simp only at h
          have he : e2 = e := Except.error.inj (Prod.mk.inj h).1
          subst he
          have := inlSetP_reject S cfg level k v (g, c) (g', c') e2 hp harg
          obtain ⟨_, rfl⟩ := Prod.mk.inj this
          exact (Prod.mk.inj h).2.symm
  | inl g =>
    simp only [setP] at h
    rcases prog_cases (inlSetP o p cfg level k v (g, c)) with ⟨⟨el', ks, old⟩, ⟨g', c'⟩, hp⟩ | ⟨e2, ⟨g', c'⟩, hp⟩
    · rw [hp] at h; cases (Prod.mk.inj h).1
    · rw [hp] at h
      simp only at h
      have he : e2 = e := Except.error.inj (Prod.mk.inj h).1
      subst he
      have := inlSetP_reject S cfg level k v (g, c) (g', c') e2 hp harg
      obtain ⟨rfl, rfl⟩ := Prod.mk.inj this
      exact (Prod.mk.inj h).2.symm
  | ext id sz s =>
    simp only [setP] at h
    split at h
    · exact (Prod.mk.inj h).2.symm
    · rcases prog_cases (p.setP cfg (level + 1) k v (s.elems, c)) with ⟨⟨ks, old⟩, ⟨g', c'⟩, hp⟩ | ⟨e2, ⟨g', c'⟩, hp⟩
      · rw [hp] at h; cases (Prod.mk.inj h).1
      · rw [hp] at h
        simp only at h
        have he : e2 = e := Except.error.inj (Prod.mk.inj h).1
        subst he
        have := S.set cfg (level + 1) k v (s.elems, c) (g', c') e2 hp harg
        obtain ⟨rfl, rfl⟩ := Prod.mk.inj this
        exact (Prod.mk.inj h).2.symm

/-- `element.Remove` -/
theorem removeP_reject (S : RejSpec p) (cfg : MCfg) (level : Nat) (k : MKey) (st st' : Option (MElemF α) × Ctx)
    (e : MErr) (h : removeP o p cfg level k st = (.error e, st')) (harg : e.isArg = true) : st' = st := by
  obtain ⟨el?, c⟩ := st
  cases el? with
  | none => simp only [removeP] at h; exact (Prod.mk.inj h).2.symm
  | some el =>
    cases el with
    | single x =>
      simp only [removeP] at h
      split at h
      · cases (Prod.mk.inj h).1
      · exact (Prod.mk.inj h).2.symm
    | inl g =>
      simp only [removeP] at h
      split at h
      · exact (Prod.mk.inj h).2.symm
      · rcases prog_cases (p.removeP cfg (level + 1) k (g, c)) with ⟨⟨rk, rv⟩, ⟨g', c'⟩, hp⟩ | ⟨e2, ⟨g', c'⟩, hp⟩
        · rw [hp] at h
          simp only at h
          split at h <;> cases (Prod.mk.inj h).1
        · rw [hp] at h
          simp only at h
          have he : e2 = e := Except.error.inj (Prod.mk.inj h).1
          subst he
          have := S.remove cfg (level + 1) k (g, c) (g', c') e2 hp harg
          obtain ⟨rfl, rfl⟩ := Prod.mk.inj this
          exact (Prod.mk.inj h).2.symm
    | ext id sz s =>
      simp only [removeP] at h
      split at h
      · exact (Prod.mk.inj h).2.symm
      · rcases prog_cases (p.removeP cfg (level + 1) k (s.elems, c)) with ⟨⟨rk, rv⟩, ⟨g', c'⟩, hp⟩ | ⟨e2, ⟨g', c'⟩, hp⟩
        · rw [hp] at h
          simp only at h
          split at h <;> cases (Prod.mk.inj h).1
        · rw [hp] at h
          simp only at h
          have he : e2 = e := Except.error.inj (Prod.mk.inj h).1
          subst he
          have := S.remove cfg (level + 1) k (s.elems, c) (g', c') e2 hp harg
          obtain ⟨rfl, rfl⟩ := Prod.mk.inj this
          exact (Prod.mk.inj h).2.symm

end MElemF

/-! ### digest tables -/

namespace HkeyElems
variable {α : Type} {o : ElemsOps α} {p : ElemsProgs α}

/-- `hkeyElements.Set`: the collision-limit error (and key-not-found, which it never returns) leaves
    the table, its elements and the storage context as they were -/
theorem setP_reject (S : RejSpec p) (cfg : MCfg) (level : Nat) (k : MKey) (v : Elem) (st st' : HkeyElems α × Ctx)
    (e : MErr) (h : setP o p cfg level k v st = (.error e, st')) (harg : e.isArg = true) : st' = st := by
  obtain ⟨he, c⟩ := st
  simp only [setP] at h
  split at h
  · exact (Prod.mk.inj h).2.symm
  · split at h
    · cases (Prod.mk.inj h).1
    · cases (Prod.mk.inj h).1
    · split at h
      · cases (Prod.mk.inj h).1
      · split at h
        · cases (Prod.mk.inj h).1
        · split at h
          · cases (Prod.mk.inj h).1
          · rename_i i _ _
            cases hel : he.elems[i]? with
            | none => rw [hel] at h; exact (Prod.mk.inj h).2.symm
            | some el =>
              rw [hel] at h
              simp only at h
              split at h
              · exact (Prod.mk.inj h).2.symm
              · rcases prog_cases (MElemF.setP o p cfg level k v (el, c)) with
                  ⟨⟨ks, old⟩, ⟨el', c'⟩, hp⟩ | ⟨e2, ⟨el', c'⟩, hp⟩
                · rw [hp] at h; cases (Prod.mk.inj h).1
                · rw [hp] at h
                  simp only at h
                  have he' : e2 = e := Except.error.inj (Prod.mk.inj h).1
                  subst he'
                  have := MElemF.setP_reject S cfg level k v (el, c) (el', c') e2 hp harg
                  obtain ⟨rfl, rfl⟩ := Prod.mk.inj this
                  rw [← (Prod.mk.inj h).2, list_set_self hel]

/-- `hkeyElements.Remove`: key-not-found leaves everything as it was -/
theorem removeP_reject (S : RejSpec p) (cfg : MCfg) (level : Nat) (k : MKey) (st st' : HkeyElems α × Ctx)
    (e : MErr) (h : removeP o p cfg level k st = (.error e, st')) (harg : e.isArg = true) : st' = st := by
  obtain ⟨he, c⟩ := st
  simp only [removeP] at h
  split at h
  · exact (Prod.mk.inj h).2.symm
  · split at h
    · exact (Prod.mk.inj h).2.symm
    · exact (Prod.mk.inj h).2.symm
    · split at h
      · exact (Prod.mk.inj h).2.symm
      · split at h
        · exact (Prod.mk.inj h).2.symm
        · rename_i i _
          cases hel : he.elems[i]? with
          | none => rw [hel] at h; exact (Prod.mk.inj h).2.symm
          | some el =>
            rw [hel] at h
            simp only at h
            rcases prog_cases (MElemF.removeP o p cfg level k (some el, c)) with
              ⟨⟨rk, rv⟩, ⟨el', c'⟩, hp⟩ | ⟨e2, ⟨el', c'⟩, hp⟩
            · rw [hp] at h
              cases el' <;> cases (Prod.mk.inj h).1
            · rw [hp] at h
              simp only at h
              have he' : e2 = e := Except.error.inj (Prod.mk.inj h).1
              subst he'
              have := MElemF.removeP_reject S cfg level k (some el, c) (el', c') e2 hp harg
              obtain ⟨rfl, rfl⟩ := Prod.mk.inj this
              rw [← (Prod.mk.inj h).2]
              simp only [Option.getD_some, list_set_self hel]

theorem rejSpec (S : RejSpec p) : RejSpec (progs o p) :=
  ⟨fun cfg level k v st st' e h ha => setP_reject S cfg level k v st st' e h ha,
   fun cfg level k st st' e h ha => removeP_reject S cfg level k st st' e h ha⟩

end HkeyElems

/-- every digest level -/
theorem MElems.rejSpec : ∀ r : Nat, RejSpec (MElems.progs r)
  | 0 => SingleElems.rejSpec
  | r + 1 => HkeyElems.rejSpec (MElems.rejSpec r)

/-! ### slabs, trees, the map handle -/

namespace MDataSlab
variable {r : Nat}

theorem setP_reject (cfg : MCfg) (k : MKey) (v : Elem) (st st' : MDataSlab r × Ctx) (e : MErr)
    (h : setP cfg k v st = (.error e, st')) (harg : e.isArg = true) : st' = st := by
  obtain ⟨s, c⟩ := st
  simp only [setP] at h
  rcases prog_cases (HkeyElems.setP (MElems.ops r) (MElems.progs r) cfg 0 k v (s.elems, c)) with
    ⟨⟨ks, old⟩, ⟨el', c'⟩, hp⟩ | ⟨e2, ⟨el', c'⟩, hp⟩
  · rw [hp] at h; cases (Prod.mk.inj h).1
  · rw [hp] at h
    simp only at h
    have he' : e2 = e := Except.error.inj (Prod.mk.inj h).1
    subst he'
    have := HkeyElems.setP_reject (MElems.rejSpec r) cfg 0 k v (s.elems, c) (el', c') e2 hp harg
    obtain ⟨rfl, rfl⟩ := Prod.mk.inj this
    exact (Prod.mk.inj h).2.symm

theorem removeP_reject (cfg : MCfg) (k : MKey) (st st' : MDataSlab r × Ctx) (e : MErr)
    (h : removeP cfg k st = (.error e, st')) (harg : e.isArg = true) : st' = st := by
  obtain ⟨s, c⟩ := st
  simp only [removeP] at h
  rcases prog_cases (HkeyElems.removeP (MElems.ops r) (MElems.progs r) cfg 0 k (s.elems, c)) with
    ⟨⟨ks, old⟩, ⟨el', c'⟩, hp⟩ | ⟨e2, ⟨el', c'⟩, hp⟩
  · rw [hp] at h; cases (Prod.mk.inj h).1
  · rw [hp] at h
    simp only at h
    have he' : e2 = e := Except.error.inj (Prod.mk.inj h).1
    subst he'
    have := HkeyElems.removeP_reject (MElems.rejSpec r) cfg 0 k (s.elems, c) (el', c') e2 hp harg
    obtain ⟨rfl, rfl⟩ := Prod.mk.inj this
    exact (Prod.mk.inj h).2.symm

end MDataSlab

/-! the functional tails raise internal errors only -/

theorem MDataSlab.split_err {r : Nat} {s : MDataSlab r} {c : Ctx} {e : MErr} (h : s.split c = .error e) :
    e = .slabSplit := by
  simp only [MDataSlab.split] at h
  split at h
  · cases h; rfl
  · cases h

theorem MMetaSlab.split_err {α : Type} {m : MMetaSlab α} {c : Ctx} {e : MErr} (h : m.split c = .error e) :
    e = .slabSplit := by
  simp only [MMetaSlab.split] at h
  split at h
  · cases h; rfl
  · cases h

theorem MTree.split_err {r : Nat} : ∀ (d : Nat) (t : MTree r d) (c : Ctx) (e : MErr),
    MTree.split d t c = .error e → e = .slabSplit
  | 0, _, _, _, h => MDataSlab.split_err h
  | _ + 1, _, _, _, h => MMetaSlab.split_err h

theorem HkeyElems.lendToRight_err {α : Type} {o : ElemsOps α} {T : Nat} {l r : HkeyElems α} {e : MErr}
    (h : HkeyElems.lendToRight o T l r = .error e) : e = .slabRebalance := by
  simp only [HkeyElems.lendToRight] at h
  split at h
  · cases h; rfl
  · cases h

theorem HkeyElems.borrowFromRight_err {α : Type} {o : ElemsOps α} {T : Nat} {l r : HkeyElems α} {e : MErr}
    (h : HkeyElems.borrowFromRight o T l r = .error e) : e = .slabRebalance := by
  simp only [HkeyElems.borrowFromRight] at h
  split at h
  · cases h; rfl
  · cases h

theorem MTree.lendToRight_err {r : Nat} {T : Nat} : ∀ (d : Nat) (l rr : MTree r d) (e : MErr),
    MTree.lendToRight T d l rr = .error e → e = .slabRebalance
  | 0, l, rr, e, h => by
    simp only [MTree.lendToRight, MDataSlab.lendToRight, bind, Except.bind] at h
    split at h
    · rename_i hh; cases h; exact HkeyElems.lendToRight_err hh
    · cases h
  | _ + 1, _, _, _, h => by simp only [MTree.lendToRight] at h; cases h

theorem MTree.borrowFromRight_err {r : Nat} {T : Nat} : ∀ (d : Nat) (l rr : MTree r d) (e : MErr),
    MTree.borrowFromRight T d l rr = .error e → e = .slabRebalance
  | 0, l, rr, e, h => by
    simp only [MTree.borrowFromRight, MDataSlab.borrowFromRight, bind, Except.bind] at h
    split at h
    · rename_i hh; cases h; exact HkeyElems.borrowFromRight_err hh
    · cases h
  | _ + 1, _, _, _, h => by simp only [MTree.borrowFromRight] at h; cases h

theorem MMetaSlab.afterChild_err {r d : Nat} {T : Nat} {m : MMetaSlab (MTree r d)} {child : MTree r d} {k : Nat}
    {c : Ctx} {e : MErr} (h : m.afterChild T child k c = .error e) : e.isArg = false := by
  simp only [MMetaSlab.afterChild] at h
  split at h
  · simp only [MMetaSlab.splitChildSlab, bind, Except.bind] at h
    split at h
    · rename_i hh; cases h; rw [MTree.split_err _ _ _ _ hh]; rfl
    · cases h
  · split at h
    · simp only [MMetaSlab.mergeOrRebalanceChildSlab] at h
      have key : ∀ (m' : MMetaSlab (MTree r d)) (a b : MTree r d) (li ri : Nat) (bw : Bool) (c' : Ctx) (e' : MErr),
          MMetaSlab.rebalanceChildren T m' a b li ri bw c' = .error e' → e'.isArg = false := by
        intro m' a b li ri bw c' e' hr
        cases bw
        · simp only [MMetaSlab.rebalanceChildren, bind, Except.bind, Bool.false_eq_true, if_false] at hr
          cases hl : MTree.lendToRight T d a b with
          | error e3 => rw [hl] at hr; cases hr; rw [MTree.lendToRight_err _ _ _ _ hl]; rfl
          | ok x => rw [hl] at hr; cases hr
        · simp only [MMetaSlab.rebalanceChildren, bind, Except.bind, if_true] at hr
          cases hl : MTree.borrowFromRight T d a b with
          | error e3 => rw [hl] at hr; cases hr; rw [MTree.borrowFromRight_err _ _ _ _ hl]; rfl
          | ok x => rw [hl] at hr; cases hr
      repeat' split at h
      all_goals first
        | exact key _ _ _ _ _ _ _ _ h
        | (cases h; rfl)
        | cases h
    · cases h

theorem OMap.splitRootIfFull_err {r : Nat} {T : Nat} {m : OMap r} {c : Ctx} {e : MErr}
    (h : m.splitRootIfFull T c = .error e) : e = .slabSplit := by
  simp only [OMap.splitRootIfFull] at h
  split at h
  · simp only [OMap.splitRoot, bind, Except.bind] at h
    split at h
    · rename_i hh; cases h; exact MTree.split_err _ _ _ _ hh
    · cases h
  · cases h

namespace MTree
variable {r : Nat}

theorem zoomChild_ok {α : Type} {d k : Nat} {child child' : MTree r d} {p : Prog (MTree r d × Ctx) MErr α}
    {m : MMetaSlab (MTree r d)} {c c' : Ctx} {a : α} (h : p (child, c) = (.ok a, (child', c'))) :
    zoomChild k child p (m, c) = (.ok (a, child'), ({ m with children := m.children.set k child' }, c')) := by
  simp only [zoomChild, h]

theorem zoomChild_err {α : Type} {d k : Nat} {child child' : MTree r d} {p : Prog (MTree r d × Ctx) MErr α}
    {m : MMetaSlab (MTree r d)} {c c' : Ctx} {e : MErr} (h : p (child, c) = (.error e, (child', c'))) :
    zoomChild k child p (m, c) = (.error e, ({ m with children := m.children.set k child' }, c')) := by
  simp only [zoomChild, h]

/-- `MapSlab.Set`: the collision-limit error leaves every slab object and the storage context as
    they were -/
theorem setP_reject (cfg : MCfg) : ∀ (d : Nat) (k : MKey) (v : Elem) (st st' : MTree r d × Ctx) (e : MErr),
    setP cfg d k v st = (.error e, st') → e.isArg = true → st' = st
  | 0, k, v, st, st', e, h, harg => MDataSlab.setP_reject cfg k v st st' e h harg
  | d + 1, k, v, ((m : MMetaSlab (MTree r d)), c), st', e, h, harg => by
    simp only [setP] at h
    generalize (MMetaSlab.findChild m.childHdrs (k.dig 0) 0 m.childHdrs.length (some 0)
      (m.childHdrs.length + 1)).getD 0 = i at h
    cases h2 : m.children[i]? with
    | none => rw [h2] at h; exact (Prod.mk.inj h).2.symm
    | some child =>
      rw [h2] at h
      simp only at h
      rcases prog_cases (setP cfg d k v (child, c)) with ⟨⟨ks, old⟩, ⟨child', c'⟩, hp⟩ | ⟨e2, ⟨child', c'⟩, hp⟩
      · rw [zoomChild_ok hp] at h
        simp only at h
        obtain ⟨hf, _⟩ := tail_error h
        exfalso
        rw [MMetaSlab.afterChild_err (except_map_error hf)] at harg; cases harg
      · have hsame := setP_reject cfg d k v (child, c) (child', c') e2 hp
        rw [zoomChild_err hp] at h
        have he : e2 = e := Except.error.inj (Prod.mk.inj h).1
        have hst := (Prod.mk.inj h).2
        subst he
        have := hsame harg
        obtain ⟨rfl, rfl⟩ := Prod.mk.inj this
        rw [← hst, list_set_self h2]
        rfl

/-- `MapSlab.Remove`: key-not-found leaves every slab object and the storage context as they were -/
theorem removeP_reject (cfg : MCfg) : ∀ (d : Nat) (k : MKey) (st st' : MTree r d × Ctx) (e : MErr),
    removeP cfg d k st = (.error e, st') → e.isArg = true → st' = st
  | 0, k, st, st', e, h, harg => MDataSlab.removeP_reject cfg k st st' e h harg
  | d + 1, k, ((m : MMetaSlab (MTree r d)), c), st', e, h, harg => by
    simp only [removeP] at h
    split at h
    · exact (Prod.mk.inj h).2.symm
    · rename_i i _
      cases h2 : m.children[i]? with
      | none => rw [h2] at h; exact (Prod.mk.inj h).2.symm
      | some child =>
        rw [h2] at h
        simp only at h
        rcases prog_cases (removeP cfg d k (child, c)) with ⟨⟨rk, rv⟩, ⟨child', c'⟩, hp⟩ | ⟨e2, ⟨child', c'⟩, hp⟩
        · rw [zoomChild_ok hp] at h
          simp only at h
          obtain ⟨hf, _⟩ := tail_error h
          exfalso
          rw [MMetaSlab.afterChild_err (except_map_error hf)] at harg; cases harg
        · have hsame := removeP_reject cfg d k (child, c) (child', c') e2 hp
          rw [zoomChild_err hp] at h
          have he : e2 = e := Except.error.inj (Prod.mk.inj h).1
          have hst := (Prod.mk.inj h).2
          subst he
          have := hsame harg
          obtain ⟨rfl, rfl⟩ := Prod.mk.inj this
          rw [← hst, list_set_self h2]
          rfl

end MTree

namespace OMap
variable {r : Nat}
open Arr (andThen_ok andThen_err)

theorem zoomRoot_eq {α : Type} (p : (d : Nat) → Prog (MTree r d × Ctx) MErr α) (m : OMap r) (c : Ctx)
    (x : Except MErr α) (root' : MTree r m.d) (c' : Ctx) (h : p m.d (m.root, c) = (x, (root', c'))) :
    zoomRoot p (m, c) = (x, ({ m with root := root' }, c')) := by
  simp only [zoomRoot, h]

/-- `OrderedMap.set`: a refusal by the collision limit leaves the map (every element, group and slab
    object, the count) and the storage context (allocation counter, effect log = pending write set,
    created large-value slabs) exactly as they were. -/
theorem setP_reject (cfg : MCfg) (k : MKey) (v : Elem) (st st' : OMap r × Ctx) (e : MErr)
    (h : setP cfg k v st = (.error e, st')) (harg : e.isArg = true) : st' = st := by
  obtain ⟨m, c⟩ := st
  rcases prog_cases (MTree.setP cfg m.d k v (m.root, c)) with ⟨⟨ks, old⟩, ⟨root', c'⟩, hp⟩ | ⟨e2, ⟨root', c'⟩, hp⟩
  · have hz := zoomRoot_eq (fun d => MTree.setP cfg d k v) m c _ root' c' hp
    rw [setP, andThen_ok hz] at h
    simp only [Prog.andThen, Prog.assign] at h
    obtain ⟨hf, _⟩ := tail_error h
    exfalso
    have hf' := except_map_error hf
    rw [splitRootIfFull_err hf'] at harg; cases harg
  · have hz := zoomRoot_eq (fun d => MTree.setP cfg d k v) m c _ root' c' hp
    rw [setP, andThen_err hz] at h
    have he : e2 = e := Except.error.inj (Prod.mk.inj h).1
    subst he
    have := MTree.setP_reject cfg m.d k v (m.root, c) (root', c') e2 hp harg
    obtain ⟨rfl, rfl⟩ := Prod.mk.inj this
    exact (Prod.mk.inj h).2.symm

/-- `OrderedMap.remove`: key-not-found leaves the map and the storage context exactly as they were. -/
theorem removeP_reject (cfg : MCfg) (k : MKey) (st st' : OMap r × Ctx) (e : MErr)
    (h : removeP cfg k st = (.error e, st')) (harg : e.isArg = true) : st' = st := by
  obtain ⟨m, c⟩ := st
  rcases prog_cases (MTree.removeP cfg m.d k (m.root, c)) with ⟨⟨rk, rv⟩, ⟨root', c'⟩, hp⟩ | ⟨e2, ⟨root', c'⟩, hp⟩
  · have hz := zoomRoot_eq (fun d => MTree.removeP cfg d k) m c _ root' c' hp
    rw [removeP, andThen_ok hz] at h
    simp only [Prog.andThen, Prog.assign] at h
    obtain ⟨hf, _⟩ := tail_error h
    exfalso
    have hf' := except_map_error hf
    rw [splitRootIfFull_err hf'] at harg; cases harg
  · have hz := zoomRoot_eq (fun d => MTree.removeP cfg d k) m c _ root' c' hp
    rw [removeP, andThen_err hz] at h
    have he : e2 = e := Except.error.inj (Prod.mk.inj h).1
    subst he
    have := MTree.removeP_reject cfg m.d k (m.root, c) (root', c') e2 hp harg
    obtain ⟨rfl, rfl⟩ := Prod.mk.inj this
    exact (Prod.mk.inj h).2.symm

end OMap

end Atree
