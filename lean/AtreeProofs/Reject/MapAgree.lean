import AtreeProofs.Reject.Map
/-
  C18, maps: the in-place programs agree with the functional map model (`Map/Elems.lean`,
  `Map/Tree.lean`, `Map/Ops.lean`): the same error, or the same values and the same state.
-/
namespace Atree
open Gen
open Arr (andThen_ok andThen_err)

/-- what the induction carries from one digest level to the next -/
structure AgreeSpec {α : Type} (o : ElemsOps α) (p : ElemsProgs α) : Prop where
  set : ∀ cfg level k v (e : α) (c : Ctx),
    Agrees (p.setP cfg level k v (e, c))
      ((o.set cfg e level k v c).map (fun x => ((x.1, x.2.1), (x.2.2.1, x.2.2.2))))
  remove : ∀ cfg level k (e : α) (c : Ctx),
    Agrees (p.removeP cfg level k (e, c))
      ((o.remove cfg e level k c).map (fun x => ((x.1, x.2.1), (x.2.2.1, x.2.2.2))))

/-! ### last-level lists -/

namespace SingleElems

theorem setP_agrees (cfg : MCfg) (level : Nat) (k : MKey) (v : Elem) (e : SingleElems) (c : Ctx) :
    Agrees (setP cfg level k v (e, c))
      ((set cfg e level k v c).map (fun x => ((x.1, x.2.1), (x.2.2.1, x.2.2.2)))) := by
  simp only [setP, set]
  by_cases hl : level ≠ cfg.L
  · simp only [if_pos hl]
    exact Agrees.of_error (e := MErr.hashLevel) rfl
  · simp only [if_neg hl]
    cases hf : e.elems.findIdx? (fun x => x.key.same k) with
    | none => rfl
    | some i =>
      simp only
      cases hx : e.elems[i]? with
      | none => exact Agrees.of_error (e := MErr.goPanic) rfl
      | some x => rfl

theorem removeP_agrees (cfg : MCfg) (level : Nat) (k : MKey) (e : SingleElems) (c : Ctx) :
    Agrees (removeP cfg level k (e, c))
      ((remove cfg e level k c).map (fun x => ((x.1, x.2.1), (x.2.2.1, x.2.2.2)))) := by
  simp only [removeP, remove]
  by_cases hl : level ≠ cfg.L
  · simp only [if_pos hl]
    exact Agrees.of_error (e := MErr.hashLevel) rfl
  · simp only [if_neg hl]
    cases hf : e.elems.findIdx? (fun x => x.key.same k) with
    | none => exact Agrees.of_error (e := MErr.keyNotFound) rfl
    | some i =>
      simp only
      cases hx : e.elems[i]? with
      | none => exact Agrees.of_error (e := MErr.goPanic) rfl
      | some x => rfl

theorem agreeSpec : AgreeSpec ops progs := ⟨setP_agrees, removeP_agrees⟩

end SingleElems

/-! ### elements -/

namespace MElemF
variable {α : Type} {o : ElemsOps α} {p : ElemsProgs α}

theorem inlSetP_agrees (S : AgreeSpec o p) (cfg : MCfg) (level : Nat) (k : MKey) (v : Elem) (g : α) (c : Ctx) :
    (∀ el' ks old c', inlSet o cfg g level k v c = .ok (el', ks, old, c') →
      ∃ g', inlSetP o p cfg level k v (g, c) = (.ok (el', ks, old), (g', c'))) ∧
    (∀ e, inlSet o cfg g level k v c = .error e → (inlSetP o p cfg level k v (g, c)).1 = .error e) := by
  simp only [inlSet, inlSetP, bind, Except.bind, throw, throwThe, MonadExceptOf.throw, pure, Except.pure]
  by_cases hl : level + 1 > cfg.L
  · simp only [if_pos hl]
    exact ⟨fun _ _ _ _ h => (by cases h), fun e h => (by cases h; rfl)⟩
  · simp only [if_neg hl]
    have ih := S.set cfg (level + 1) k v g c
    cases hs : o.set cfg g (level + 1) k v c with
    | error e2 =>
      rw [hs] at ih
      obtain ⟨st, hp⟩ := fst_error_cases ih
      simp only [hp]
      exact ⟨fun _ _ _ _ h => (by cases h), fun e h => (by cases h; rfl)⟩
    | ok res =>
      obtain ⟨ks, old, g', c'⟩ := res
      rw [hs] at ih
      have hp : p.setP cfg (level + 1) k v (g, c) = (.ok (ks, old), (g', c')) := ih
      simp only [hp]
      by_cases hx : (level + 1 == 1 && decide (inlineCollisionGroupPrefixSize + o.size g' > maxInlineMapElem cfg.T)) = true
      · simp only [if_pos hx]
        exact ⟨fun _ _ _ _ h => (by cases h; exact ⟨_, rfl⟩), fun e h => (by cases h)⟩
      · simp only [if_neg hx]
        exact ⟨fun _ _ _ _ h => (by cases h; exact ⟨_, rfl⟩), fun e h => (by cases h)⟩

/-- the shared end of `single` (after the group is born) and `inl` -/
theorem setP_via_inl (S : AgreeSpec o p) (cfg : MCfg) (level : Nat) (k : MKey) (v : Elem) (g : α) (c : Ctx)
    (keep : α → MElemF α) :
    Agrees
      (match inlSetP o p cfg level k v (g, c) with
       | (.error e, (g, c)) => (.error e, (keep g, c))
       | (.ok (el', ks, old), (_, c)) => (.ok (ks, old), (el', c)))
      ((inlSet o cfg g level k v c).map (fun x => ((x.2.1, x.2.2.1), (x.1, x.2.2.2)))) := by
  obtain ⟨h1, h2⟩ := inlSetP_agrees S cfg level k v g c
  cases hs : inlSet o cfg g level k v c with
  | error e2 =>
    obtain ⟨⟨g', c'⟩, hp⟩ := fst_error_cases (h2 e2 hs)
    rw [hp]
    exact Agrees.of_error (e := e2) rfl
  | ok res =>
    obtain ⟨el', ks, old, c'⟩ := res
    obtain ⟨g', hp⟩ := h1 el' ks old c' hs
    rw [hp]
    exact agrees_ok rfl

/-- `element.Set` -/
theorem setP_agrees (S : AgreeSpec o p) (cfg : MCfg) (level : Nat) (k : MKey) (v : Elem) (el : MElemF α) (c : Ctx) :
    Agrees (setP o p cfg level k v (el, c))
      ((set o cfg el level k v c).map (fun x => ((x.2.1, x.2.2.1), (x.1, x.2.2.2)))) := by
  cases el with
  | single x =>
    simp only [setP, set]
    by_cases hsame : x.key.same k = true
    · simp only [if_pos hsame]
      exact agrees_ok rfl
    · simp only [if_neg hsame, bind, Except.bind]
      cases hn : o.newWith cfg (level + 1) x with
      | error e1 => exact Agrees.of_error (e := e1) rfl
      | ok g => exact setP_via_inl S cfg level k v g c (fun _ => .single x)
  | inl g =>
    simp only [setP, set]
    exact setP_via_inl S cfg level k v g c (fun g => .inl g)
  | ext id sz s =>
    simp only [setP, set, bind, Except.bind, throw, throwThe, MonadExceptOf.throw, pure, Except.pure]
    by_cases hl : level + 1 > cfg.L
    · simp only [if_pos hl]
      exact Agrees.of_error (e := MErr.hashLevel) rfl
    · simp only [if_neg hl]
      have ih := S.set cfg (level + 1) k v s.elems c
      cases hs : o.set cfg s.elems (level + 1) k v c with
      | error e2 =>
        rw [hs] at ih
        obtain ⟨⟨g', c'⟩, hp⟩ := fst_error_cases ih
        simp only [hp]
        exact Agrees.of_error (e := e2) rfl
      | ok res =>
        obtain ⟨ks, old, g', c'⟩ := res
        rw [hs] at ih
        have hp : p.setP cfg (level + 1) k v (s.elems, c) = (.ok (ks, old), (g', c')) := ih
        simp only [hp]
        exact agrees_ok rfl

/-- `element.Remove` -/
theorem removeP_agrees (S : AgreeSpec o p) (cfg : MCfg) (level : Nat) (k : MKey) (el : MElemF α) (c : Ctx) :
    Agrees (removeP o p cfg level k (some el, c))
      ((remove o cfg el level k c).map (fun x => ((x.1, x.2.1), (x.2.2.1, x.2.2.2)))) := by
  cases el with
  | single x =>
    simp only [removeP, remove]
    by_cases hsame : x.key.same k = true
    · simp only [if_pos hsame]; exact agrees_ok rfl
    · simp only [if_neg hsame]; exact Agrees.of_error (e := MErr.keyNotFound) rfl
  | inl g =>
    simp only [removeP, remove, bind, Except.bind, throw, throwThe, MonadExceptOf.throw, pure, Except.pure]
    by_cases hl : level + 1 > cfg.L
    · simp only [if_pos hl]
      exact Agrees.of_error (e := MErr.hashLevel) rfl
    · simp only [if_neg hl]
      have ih := S.remove cfg (level + 1) k g c
      cases hs : o.remove cfg g (level + 1) k c with
      | error e2 =>
        rw [hs] at ih
        obtain ⟨⟨g', c'⟩, hp⟩ := fst_error_cases ih
        simp only [hp]
        exact Agrees.of_error (e := e2) rfl
      | ok res =>
        obtain ⟨rk, rv, g', c'⟩ := res
        rw [hs] at ih
        have hp : p.removeP cfg (level + 1) k (g, c) = (.ok (rk, rv), (g', c')) := ih
        simp only [hp]
        cases o.soleSingle g' <;> exact agrees_ok rfl
  | ext id sz s =>
    simp only [removeP, remove, bind, Except.bind, throw, throwThe, MonadExceptOf.throw, pure, Except.pure]
    by_cases hl : level + 1 > cfg.L
    · simp only [if_pos hl]
      exact Agrees.of_error (e := MErr.hashLevel) rfl
    · simp only [if_neg hl]
      have ih := S.remove cfg (level + 1) k s.elems c
      cases hs : o.remove cfg s.elems (level + 1) k c with
      | error e2 =>
        rw [hs] at ih
        obtain ⟨⟨g', c'⟩, hp⟩ := fst_error_cases ih
        simp only [hp]
        exact Agrees.of_error (e := e2) rfl
      | ok res =>
        obtain ⟨rk, rv, g', c'⟩ := res
        rw [hs] at ih
        have hp : p.removeP cfg (level + 1) k (s.elems, c) = (.ok (rk, rv), (g', c')) := ih
        simp only [hp]
        cases o.soleSingle g' <;> exact agrees_ok rfl

end MElemF

/-! ### digest tables -/

namespace HkeyElems
variable {α : Type} {o : ElemsOps α} {p : ElemsProgs α}

set_option hygiene false in
/-- the end of `hkeyElements.Set` after the limit check: `elem.Set`, then the table is updated -/
local macro "finish_setAt" : tactic => `(tactic| (
  have ih := MElemF.setP_agrees S cfg level k v el c
  cases hs : MElemF.set o cfg el level k v c with
  | error e2 =>
    rw [hs] at ih
    obtain ⟨⟨el', c'⟩, hp⟩ := fst_error_cases ih
    rw [hp]
    exact Agrees.of_error (e := e2) rfl
  | ok res =>
    obtain ⟨el', ks, old, c'⟩ := res
    rw [hs] at ih
    have hp : MElemF.setP o p cfg level k v (el, c) = (.ok (ks, old), (el', c')) := ih
    rw [hp]
    exact agrees_ok rfl))

/-- `hkeyElements.Set` -/
theorem setP_agrees (S : AgreeSpec o p) (cfg : MCfg) (level : Nat) (k : MKey) (v : Elem) (e : HkeyElems α) (c : Ctx) :
    Agrees (setP o p cfg level k v (e, c))
      ((set o cfg e level k v c).map (fun x => ((x.1, x.2.1), (x.2.2.1, x.2.2.2)))) := by
  simp only [setP, set, insertNew]
  by_cases hl : level ≥ cfg.L
  · simp only [if_pos hl]
    exact Agrees.of_error (e := MErr.hashLevel) rfl
  · simp only [if_neg hl]
    cases hh : e.hkeys.head? with
    | none => exact agrees_ok rfl
    | some first =>
      cases hla : e.hkeys.getLast? with
      | none => exact agrees_ok rfl
      | some last =>
        simp only
        by_cases h1 : k.dig level < first
        · simp only [if_pos h1]; exact agrees_ok rfl
        · simp only [if_neg h1]
          by_cases h2 : k.dig level > last
          · simp only [if_pos h2]; exact agrees_ok rfl
          · simp only [if_neg h2]
            cases hf : findEqLt e.hkeys (k.dig level) 0 e.hkeys.length 0 (e.hkeys.length + 1) with
            | mk eq lt =>
              cases eq with
              | none => exact agrees_ok rfl
              | some i =>
                simp only
                cases hel : e.elems[i]? with
                | none => exact Agrees.of_error (e := MErr.goPanic) rfl
                | some el =>
                  simp only [bind, Except.bind, pure, Except.pure, throw, throwThe, MonadExceptOf.throw]
                  by_cases h0 : (e.level == 0) = true
                  · simp only [h0, if_true]
                    by_cases hn : (el.count o == 0) = true
                    · simp only [hn, if_true]
                      exact Agrees.of_error (e := MErr.mapElementCount) rfl
                    · simp only [hn, Bool.false_eq_true, if_false]
                      by_cases hc : el.count o - 1 ≥ cfg.climit
                      · simp only [if_pos hc]
                        cases hg : el.get o cfg level k with
                        | ok r => simp only; finish_setAt
                        | error eg =>
                          cases eg <;> simp only
                          case keyNotFound => exact Agrees.of_error (e := MErr.collisionLimit) rfl
                          all_goals finish_setAt
                      · simp only [if_neg hc]
                        finish_setAt
                  · simp only [h0, Bool.false_eq_true, if_false]
                    finish_setAt

/-- `hkeyElements.Remove` -/
theorem removeP_agrees (S : AgreeSpec o p) (cfg : MCfg) (level : Nat) (k : MKey) (e : HkeyElems α) (c : Ctx) :
    Agrees (removeP o p cfg level k (e, c))
      ((remove o cfg e level k c).map (fun x => ((x.1, x.2.1), (x.2.2.1, x.2.2.2)))) := by
  simp only [removeP, remove]
  by_cases hl : level ≥ cfg.L
  · simp only [if_pos hl]
    exact Agrees.of_error (e := MErr.hashLevel) rfl
  · simp only [if_neg hl]
    cases hh : e.hkeys.head? with
    | none => exact Agrees.of_error (e := MErr.keyNotFound) rfl
    | some first =>
      cases hla : e.hkeys.getLast? with
      | none => exact Agrees.of_error (e := MErr.keyNotFound) rfl
      | some last =>
        simp only
        by_cases h1 : (decide (k.dig level < first) || decide (k.dig level > last)) = true
        · simp only [if_pos h1]; exact Agrees.of_error (e := MErr.keyNotFound) rfl
        · simp only [if_neg h1]
          cases hf : findEq e.hkeys (k.dig level) 0 e.hkeys.length (e.hkeys.length + 1) with
          | none => exact Agrees.of_error (e := MErr.keyNotFound) rfl
          | some i =>
            simp only
            cases hel : e.elems[i]? with
            | none => exact Agrees.of_error (e := MErr.goPanic) rfl
            | some el =>
              simp only [bind, Except.bind, pure, Except.pure]
              have ih := MElemF.removeP_agrees S cfg level k el c
              cases hs : MElemF.remove o cfg el level k c with
              | error e2 =>
                rw [hs] at ih
                obtain ⟨⟨el', c'⟩, hp⟩ := fst_error_cases ih
                rw [hp]
                exact Agrees.of_error (e := e2) rfl
              | ok res =>
                obtain ⟨rk, rv, el', c'⟩ := res
                rw [hs] at ih
                have hp : MElemF.removeP o p cfg level k (some el, c) = (.ok (rk, rv), (el', c')) := ih
                rw [hp]
                cases el' <;> exact agrees_ok rfl

theorem agreeSpec (S : AgreeSpec o p) : AgreeSpec (ops o) (progs o p) :=
  ⟨setP_agrees S, removeP_agrees S⟩

end HkeyElems

/-- every digest level -/
theorem MElems.agreeSpec : ∀ r : Nat, AgreeSpec (MElems.ops r) (MElems.progs r)
  | 0 => SingleElems.agreeSpec
  | r + 1 => HkeyElems.agreeSpec (MElems.agreeSpec r)

/-! ### slabs, trees, the map handle -/

namespace MDataSlab
variable {r : Nat}

theorem setP_agrees (cfg : MCfg) (k : MKey) (v : Elem) (s : MDataSlab r) (c : Ctx) :
    Agrees (setP cfg k v (s, c)) ((s.set cfg k v c).map (fun x => ((x.1, x.2.1), (x.2.2.1, x.2.2.2)))) := by
  simp only [setP, set, bind, Except.bind, pure, Except.pure]
  have ih := HkeyElems.setP_agrees (MElems.agreeSpec r) cfg 0 k v s.elems c
  cases hs : HkeyElems.set (eops r) cfg s.elems 0 k v c with
  | error e2 =>
    have hs' : HkeyElems.set (MElems.ops r) cfg s.elems 0 k v c = .error e2 := hs
    rw [hs'] at ih
    obtain ⟨⟨el', c'⟩, hp⟩ := fst_error_cases ih
    rw [hp]
    exact Agrees.of_error (e := e2) rfl
  | ok res =>
    obtain ⟨ks, old, el', c'⟩ := res
    have hs' : HkeyElems.set (MElems.ops r) cfg s.elems 0 k v c = .ok (ks, old, el', c') := hs
    rw [hs'] at ih
    have hp : HkeyElems.setP (MElems.ops r) (MElems.progs r) cfg 0 k v (s.elems, c) = (.ok (ks, old), (el', c')) := ih
    rw [hp]
    exact agrees_ok rfl

theorem removeP_agrees (cfg : MCfg) (k : MKey) (s : MDataSlab r) (c : Ctx) :
    Agrees (removeP cfg k (s, c)) ((s.remove cfg k c).map (fun x => ((x.1, x.2.1), (x.2.2.1, x.2.2.2)))) := by
  simp only [removeP, remove, bind, Except.bind, pure, Except.pure]
  have ih := HkeyElems.removeP_agrees (MElems.agreeSpec r) cfg 0 k s.elems c
  cases hs : HkeyElems.remove (eops r) cfg s.elems 0 k c with
  | error e2 =>
    have hs' : HkeyElems.remove (MElems.ops r) cfg s.elems 0 k c = .error e2 := hs
    rw [hs'] at ih
    obtain ⟨⟨el', c'⟩, hp⟩ := fst_error_cases ih
    rw [hp]
    exact Agrees.of_error (e := e2) rfl
  | ok res =>
    obtain ⟨rk, rv, el', c'⟩ := res
    have hs' : HkeyElems.remove (MElems.ops r) cfg s.elems 0 k c = .ok (rk, rv, el', c') := hs
    rw [hs'] at ih
    have hp : HkeyElems.removeP (MElems.ops r) (MElems.progs r) cfg 0 k (s.elems, c) = (.ok (rk, rv), (el', c')) := ih
    rw [hp]
    exact agrees_ok rfl

end MDataSlab

namespace MTree
variable {r : Nat}

/-- `child.Set` has already written the child object; `afterChild` writes the same reference again -/
theorem afterChild_set_child {d : Nat} (T : Nat) (m : MMetaSlab (MTree r d)) (child' : MTree r d) (i : Nat)
    (c : Ctx) :
    MMetaSlab.afterChild T ({ m with children := m.children.set i child' } : MMetaSlab (MTree r d)) child' i c =
      MMetaSlab.afterChild T m child' i c := by
  simp only [MMetaSlab.afterChild, List.set_set]

theorem setP_agrees (cfg : MCfg) : ∀ (d : Nat) (k : MKey) (v : Elem) (t : MTree r d) (c : Ctx),
    Agrees (setP cfg d k v (t, c)) ((set cfg d t k v c).map (fun x => ((x.1, x.2.1), (x.2.2.1, x.2.2.2))))
  | 0, k, v, t, c => MDataSlab.setP_agrees cfg k v t c
  | d + 1, k, v, (m : MMetaSlab (MTree r d)), c => by
    simp only [setP, set, bind, Except.bind, pure, Except.pure]
    generalize (MMetaSlab.findChild m.childHdrs (k.dig 0) 0 m.childHdrs.length (some 0)
      (m.childHdrs.length + 1)).getD 0 = i
    cases h2 : m.children[i]? with
    | none => exact Agrees.of_error (e := MErr.goPanic) rfl
    | some child =>
      simp only
      have ih := setP_agrees cfg d k v child c
      cases hs : set cfg d child k v c with
      | error e2 =>
        rw [hs] at ih
        obtain ⟨⟨child', c'⟩, hp⟩ := fst_error_cases ih
        rw [zoomChild_err hp]
        exact Agrees.of_error (e := e2) rfl
      | ok res =>
        obtain ⟨ks, old, child', c'⟩ := res
        rw [hs] at ih
        have hp : setP cfg d k v (child, c) = (.ok (ks, old), (child', c')) := ih
        rw [zoomChild_ok hp]
        simp only
        refine Agrees.of_eq (agrees_tail _ _) ?_
        simp only [afterChild_set_child]
        generalize MMetaSlab.afterChild cfg.T _ child' i c' = x
        cases x <;> rfl

theorem removeP_agrees (cfg : MCfg) : ∀ (d : Nat) (k : MKey) (t : MTree r d) (c : Ctx),
    Agrees (removeP cfg d k (t, c)) ((remove cfg d t k c).map (fun x => ((x.1, x.2.1), (x.2.2.1, x.2.2.2))))
  | 0, k, t, c => MDataSlab.removeP_agrees cfg k t c
  | d + 1, k, (m : MMetaSlab (MTree r d)), c => by
    simp only [removeP, remove, bind, Except.bind, pure, Except.pure, throw, throwThe, MonadExceptOf.throw]
    cases hfc : MMetaSlab.findChild m.childHdrs (k.dig 0) 0 m.childHdrs.length none (m.childHdrs.length + 1) with
    | none => exact Agrees.of_error (e := MErr.keyNotFound) rfl
    | some i =>
      simp only
      cases h2 : m.children[i]? with
      | none => exact Agrees.of_error (e := MErr.slabNotFound) rfl
      | some child =>
        simp only
        have ih := removeP_agrees cfg d k child c
        cases hs : remove cfg d child k c with
        | error e2 =>
          rw [hs] at ih
          obtain ⟨⟨child', c'⟩, hp⟩ := fst_error_cases ih
          rw [zoomChild_err hp]
          exact Agrees.of_error (e := e2) rfl
        | ok res =>
          obtain ⟨rk, rv, child', c'⟩ := res
          rw [hs] at ih
          have hp : removeP cfg d k (child, c) = (.ok (rk, rv), (child', c')) := ih
          rw [zoomChild_ok hp]
          simp only
          refine Agrees.of_eq (agrees_tail _ _) ?_
          simp only [afterChild_set_child]
          generalize MMetaSlab.afterChild cfg.T _ child' i c' = x
          cases x <;> rfl

end MTree

namespace OMap
variable {r : Nat}

/-- `OrderedMap.set` in place and `OMap.set`: the same error, or the same previous value, the same
    map and the same storage context -/
theorem setP_agrees (cfg : MCfg) (k : MKey) (v : Elem) (m : OMap r) (c : Ctx) :
    Agrees (setP cfg k v (m, c)) ((m.set cfg k v c).map (fun x => (x.1, (x.2.1, x.2.2)))) := by
  have ih := MTree.setP_agrees cfg m.d k v m.root c
  simp only [OMap.set, bind, Except.bind, pure, Except.pure]
  cases hs : MTree.set cfg m.d m.root k v c with
  | error e2 =>
    rw [hs] at ih
    obtain ⟨⟨root', c'⟩, hp⟩ := fst_error_cases ih
    rw [setP, andThen_err (zoomRoot_eq (fun d => MTree.setP cfg d k v) m c _ root' c' hp)]
    exact Agrees.of_error (e := e2) rfl
  | ok res =>
    obtain ⟨ks, old, root', c'⟩ := res
    rw [hs] at ih
    have hp : MTree.setP cfg m.d k v (m.root, c) = (.ok (ks, old), (root', c')) := ih
    rw [setP, andThen_ok (zoomRoot_eq (fun d => MTree.setP cfg d k v) m c _ root' c' hp)]
    simp only [Prog.andThen, Prog.assign]
    refine Agrees.of_eq (agrees_tail _ _) ?_
    simp only
    generalize OMap.splitRootIfFull cfg.T _ _ = x
    cases x <;> rfl

/-- `OrderedMap.remove` in place and `OMap.remove` -/
theorem removeP_agrees (cfg : MCfg) (k : MKey) (m : OMap r) (c : Ctx) :
    Agrees (removeP cfg k (m, c)) ((m.remove cfg k c).map (fun x => ((x.1, x.2.1), (x.2.2.1, x.2.2.2)))) := by
  have ih := MTree.removeP_agrees cfg m.d k m.root c
  simp only [OMap.remove, bind, Except.bind, pure, Except.pure]
  cases hs : MTree.remove cfg m.d m.root k c with
  | error e2 =>
    rw [hs] at ih
    obtain ⟨⟨root', c'⟩, hp⟩ := fst_error_cases ih
    rw [removeP, andThen_err (zoomRoot_eq (fun d => MTree.removeP cfg d k) m c _ root' c' hp)]
    exact Agrees.of_error (e := e2) rfl
  | ok res =>
    obtain ⟨rk, rv, root', c'⟩ := res
    rw [hs] at ih
    have hp : MTree.removeP cfg m.d k (m.root, c) = (.ok (rk, rv), (root', c')) := ih
    rw [removeP, andThen_ok (zoomRoot_eq (fun d => MTree.removeP cfg d k) m c _ root' c' hp)]
    simp only [Prog.andThen, Prog.assign]
    refine Agrees.of_eq (agrees_tail _ _) ?_
    simp only
    generalize OMap.splitRootIfFull cfg.T _ _ = x
    cases x <;> rfl

end OMap

end Atree
