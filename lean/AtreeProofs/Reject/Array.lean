import AtreeModel.Reject
/-
  C18, arrays: the in-place programs of `AtreeModel/Reject.lean`
    (1) leave the state (slab objects AND storage context) exactly as it was when they return an
        argument error  – proved from the ORDER of their statements, by induction over the depth;
    (2) agree with the functional model: same result; on success the same state.
-/
namespace Atree
open Gen

/-- the in-place program and the functional model: same error, or same value and same state -/
def Agrees {σ ε α : Type} (p : Except ε α × σ) (f : Except ε (α × σ)) : Prop :=
  match f with
  | .ok (a, s') => p = (.ok a, s')
  | .error e => p.1 = .error e

theorem Agrees.of_error {σ ε α : Type} {p : Except ε α × σ} {e : ε} (h : p.1 = .error e) :
    Agrees p (.error e : Except ε (α × σ)) := h

theorem list_set_self {α : Type} {l : List α} {k : Nat} {a : α} (h : l[k]? = some a) : l.set k a = l := by
  apply List.ext_getElem?
  intro j
  rw [List.getElem?_set]
  split
  · rename_i hkj; subst hkj
    split
    · exact h.symm
    · rename_i hlt; exact absurd (List.getElem?_eq_some_iff.mp h).1 hlt
  · rfl

theorem except_map_error {ε α β : Type} {f : α → β} {x : Except ε α} {e : ε} (h : x.map f = .error e) :
    x = .error e := by
  cases x with
  | error e' => simp only [Except.map] at h; rw [Except.error.inj h]
  | ok a => simp only [Except.map] at h; cases h

/-! ### data slabs -/

namespace DataSlab

theorem setP_reject (T i : Nat) (v : Elem) (st st' : DataSlab × Ctx) (e : AErr)
    (h : setP T i v st = (.error e, st')) : st' = st ∧ e = .indexOutOfBounds := by
  obtain ⟨s, c⟩ := st
  simp only [setP] at h
  split at h
  · simp only [Prod.mk.injEq, Except.error.injEq] at h; exact ⟨h.2.symm, h.1.symm⟩
  · simp only [Prod.mk.injEq] at h; exact absurd h.1 (by simp)

theorem insertP_reject (T i : Nat) (v : Elem) (st st' : DataSlab × Ctx) (e : AErr)
    (h : insertP T i v st = (.error e, st')) : st' = st ∧ e = .indexOutOfBounds := by
  obtain ⟨s, c⟩ := st
  simp only [insertP] at h
  split at h
  · simp only [Prod.mk.injEq, Except.error.injEq] at h; exact ⟨h.2.symm, h.1.symm⟩
  · simp only [Prod.mk.injEq] at h; exact absurd h.1 (by simp)

theorem removeP_reject (i : Nat) (st st' : DataSlab × Ctx) (e : AErr)
    (h : removeP i st = (.error e, st')) : st' = st ∧ e = .indexOutOfBounds := by
  obtain ⟨s, c⟩ := st
  simp only [removeP] at h
  split at h
  · simp only [Prod.mk.injEq, Except.error.injEq] at h; exact ⟨h.2.symm, h.1.symm⟩
  · simp only [Prod.mk.injEq] at h; exact absurd h.1 (by simp)

theorem setP_agrees (T i : Nat) (v : Elem) (s : DataSlab) (c : Ctx) :
    Agrees (setP T i v (s, c)) ((s.set T i v c).map (fun x => (x.1, x.2))) := by
  simp only [setP, DataSlab.set]
  cases h : s.elems[i]? with
  | none => rfl
  | some old => rfl

theorem insertP_agrees (T i : Nat) (v : Elem) (s : DataSlab) (c : Ctx) :
    Agrees (insertP T i v (s, c)) ((s.insert T i v c).map (fun x => ((), x))) := by
  simp only [insertP, DataSlab.insert]
  split <;> rfl

theorem removeP_agrees (i : Nat) (s : DataSlab) (c : Ctx) :
    Agrees (removeP i (s, c)) ((s.remove i c).map (fun x => (x.1, x.2))) := by
  simp only [removeP, DataSlab.remove]
  cases h : s.elems[i]? with
  | none => rfl
  | some old => rfl

end DataSlab

/-! ### the functional tails raise internal errors only -/

theorem DataSlab.split_err {s : DataSlab} {c : Ctx} {e : AErr} (h : s.split c = .error e) : e = .slabSplit := by
  simp only [DataSlab.split] at h
  split at h
  · cases h; rfl
  · cases h

theorem MetaSlab.split_err {α : Type} {m : MetaSlab α} {c : Ctx} {e : AErr} (h : m.split c = .error e) :
    e = .slabSplit := by
  simp only [MetaSlab.split] at h
  split at h
  · cases h; rfl
  · cases h

theorem ATree.split_err : ∀ (d : Nat) (t : ATree d) (c : Ctx) (e : AErr), ATree.split d t c = .error e → e = .slabSplit
  | 0, _, _, _, h => DataSlab.split_err h
  | _ + 1, _, _, _, h => MetaSlab.split_err h

theorem MetaSlab.splitChildSlab_err {d : Nat} {m : MetaSlab (ATree d)} {child : ATree d} {k : Nat} {c : Ctx}
    {e : AErr} (h : m.splitChildSlab child k c = .error e) : e = .slabSplit := by
  simp only [MetaSlab.splitChildSlab, bind, Except.bind] at h
  cases hs : ATree.split d child c with
  | error e' =>
    rw [hs] at h
    cases h
    exact ATree.split_err d child c _ hs
  | ok res => rw [hs] at h; cases h

theorem MetaSlab.mergeOrRebalanceChildSlab_err {d : Nat} {T : Nat} {m : MetaSlab (ATree d)} {child : ATree d}
    {k u : Nat} {c : Ctx} {e : AErr} (h : m.mergeOrRebalanceChildSlab T child k u c = .error e) : e = .goPanic := by
  simp only [MetaSlab.mergeOrRebalanceChildSlab] at h
  repeat' split at h
  all_goals first | (cases h; rfl) | cases h

theorem ATree.afterSet_err {d : Nat} {T : Nat} {m : MetaSlab (ATree d)} {child : ATree d} {k : Nat} {c : Ctx}
    {e : AErr} (h : ATree.afterSet T m child k c = .error e) : e.isArg = false := by
  simp only [ATree.afterSet] at h
  split at h
  · rw [MetaSlab.splitChildSlab_err h]; rfl
  · split at h
    · rw [MetaSlab.mergeOrRebalanceChildSlab_err h]; rfl
    · cases h

theorem Arr.splitRoot_err {a : Arr} {c : Ctx} {e : AErr} (h : a.splitRoot c = .error e) : e = .slabSplit := by
  simp only [Arr.splitRoot, bind, Except.bind] at h
  split at h
  · rename_i hs; cases h; exact ATree.split_err _ _ _ _ hs
  · cases h

/-! ### slab trees -/

namespace MetaSlab
variable {d : Nat} {α : Type}

theorem zoomChild_ok {k : Nat} {child child' : ATree d} {p : Prog (ATree d × Ctx) AErr α} {m : MetaSlab (ATree d)}
    {c c' : Ctx} {a : α} (h : p (child, c) = (.ok a, (child', c'))) :
    zoomChild k child p (m, c) = (.ok (a, child'), ({ m with children := m.children.set k child' }, c')) := by
  simp only [zoomChild, h]

theorem zoomChild_err {k : Nat} {child child' : ATree d} {p : Prog (ATree d × Ctx) AErr α} {m : MetaSlab (ATree d)}
    {c c' : Ctx} {e : AErr} (h : p (child, c) = (.error e, (child', c'))) :
    zoomChild k child p (m, c) = (.error e, ({ m with children := m.children.set k child' }, c')) := by
  simp only [zoomChild, h]

/-- a callee that left the child and the storage alone leaves the parent alone -/
theorem zoomChild_err_same {k : Nat} {child : ATree d} {p : Prog (ATree d × Ctx) AErr α} {m : MetaSlab (ATree d)}
    {c : Ctx} {e : AErr} (hk : m.children[k]? = some child) (h : p (child, c) = (.error e, (child, c))) :
    zoomChild k child p (m, c) = (.error e, (m, c)) := by
  rw [zoomChild_err h, list_set_self hk]

end MetaSlab

namespace ATree
open MetaSlab

theorem tail_error {σ ε α : Type} {f : σ → Except ε (α × σ)} {s s' : σ} {e : ε}
    (h : Prog.tail f s = (.error e, s')) : f s = .error e ∧ s' = s := by
  simp only [Prog.tail] at h
  split at h
  · cases h
  · rename_i e' hf
    simp only [Prod.mk.injEq, Except.error.injEq] at h
    exact ⟨by rw [hf, h.1], h.2.symm⟩

/-- every program's result, as a pair -/
theorem prog_cases {σ ε α : Type} (x : Except ε α × σ) :
    (∃ a s, x = (.ok a, s)) ∨ (∃ e s, x = (.error e, s)) := by
  obtain ⟨r, s⟩ := x
  cases r with
  | ok a => exact Or.inl ⟨a, s, rfl⟩
  | error e => exact Or.inr ⟨e, s, rfl⟩

/-- SET: an argument error leaves the slab objects and the storage context as they were. -/
theorem setP_reject (T : Nat) : ∀ (d : Nat) (i : Nat) (v : Elem) (st st' : ATree d × Ctx) (e : AErr),
    setP T d i v st = (.error e, st') → e.isArg = true → st' = st
  | 0, i, v, st, st', e, h, _ => (DataSlab.setP_reject T i v st st' e h).1
  | d + 1, i, v, ((m : MetaSlab (ATree d)), c), st', e, h, harg => by
    simp only [setP] at h
    cases h1 : MetaSlab.childSlabIndexInfo m i with
    | error e1 =>
      rw [h1] at h
      simp only [Prod.mk.injEq] at h; exact h.2.symm
    | ok ka =>
      obtain ⟨k, adj⟩ := ka
      rw [h1] at h
      simp only at h
      cases h2 : m.children[k]? with
      | none => rw [h2] at h; simp only [Prod.mk.injEq] at h; exact h.2.symm
      | some child =>
        rw [h2] at h
        simp only at h
        rcases prog_cases (setP T d adj v (child, c)) with ⟨old, ⟨child', c'⟩, hp⟩ | ⟨e2, ⟨child', c'⟩, hp⟩
        · rw [zoomChild_ok hp] at h
          simp only at h
          obtain ⟨hf, _⟩ := tail_error h
          exfalso
          rw [afterSet_err (except_map_error hf)] at harg; cases harg
        · have hsame := setP_reject T d adj v (child, c) (child', c') e2 hp
          rw [zoomChild_err hp] at h
          have he : e2 = e := Except.error.inj (Prod.mk.inj h).1
          have hst := (Prod.mk.inj h).2
          subst he
          have := hsame harg
          simp only [Prod.mk.injEq] at this
          obtain ⟨rfl, rfl⟩ := this
          rw [← hst, list_set_self h2]
          rfl

/-- the part of INSERT after the target child is known -/
theorem insertAtP_reject (T : Nat) {d : Nat} (childInsert : Nat → Elem → Prog (ATree d × Ctx) AErr Unit)
    (ih : ∀ i v st st' e, childInsert i v st = (.error e, st') → e.isArg = true → st' = st)
    (k adj : Nat) (v : Elem) (m : MetaSlab (ATree d)) (c : Ctx) (st' : MetaSlab (ATree d) × Ctx) (e : AErr)
    (h : insertAtP T childInsert k adj v (m, c) = (.error e, st')) (harg : e.isArg = true) : st' = (m, c) := by
  simp only [insertAtP] at h
  cases h2 : m.children[k]? with
  | none => rw [h2] at h; simp only [Prod.mk.injEq] at h; exact h.2.symm
  | some child =>
    rw [h2] at h
    simp only at h
    rcases prog_cases (childInsert adj v (child, c)) with ⟨u, ⟨child', c'⟩, hp⟩ | ⟨e2, ⟨child', c'⟩, hp⟩
    · rw [zoomChild_ok hp] at h
      simp only at h
      obtain ⟨hf, _⟩ := tail_error h
      exfalso
      split at hf
      · rw [splitChildSlab_err (except_map_error hf)] at harg; cases harg
      · cases hf
    · have hsame := ih adj v (child, c) (child', c') e2 hp
      rw [zoomChild_err hp] at h
      have he : e2 = e := Except.error.inj (Prod.mk.inj h).1
      have hst := (Prod.mk.inj h).2
      subst he
      have := hsame harg
      simp only [Prod.mk.injEq] at this
      obtain ⟨rfl, rfl⟩ := this
      rw [← hst, list_set_self h2]

/-- INSERT: an argument error leaves the slab objects and the storage context as they were. -/
theorem insertP_reject (T : Nat) : ∀ (d : Nat) (i : Nat) (v : Elem) (st st' : ATree d × Ctx) (e : AErr),
    insertP T d i v st = (.error e, st') → e.isArg = true → st' = st
  | 0, i, v, st, st', e, h, _ => (DataSlab.insertP_reject T i v st st' e h).1
  | d + 1, i, v, ((m : MetaSlab (ATree d)), c), st', e, h, harg => by
    simp only [insertP] at h
    split at h
    · simp only [Prod.mk.injEq] at h; exact h.2.symm
    · split at h
      · simp only [Prod.mk.injEq] at h; exact h.2.symm
      · exact insertAtP_reject T (insertP T d) (insertP_reject T d) _ _ v m c st' e h harg

/-- REMOVE: an argument error leaves the slab objects and the storage context as they were. -/
theorem removeP_reject (T : Nat) : ∀ (d : Nat) (i : Nat) (st st' : ATree d × Ctx) (e : AErr),
    removeP T d i st = (.error e, st') → e.isArg = true → st' = st
  | 0, i, st, st', e, h, _ => (DataSlab.removeP_reject i st st' e h).1
  | d + 1, i, ((m : MetaSlab (ATree d)), c), st', e, h, harg => by
    simp only [removeP] at h
    split at h
    · simp only [Prod.mk.injEq] at h; exact h.2.symm
    · cases h1 : MetaSlab.childSlabIndexInfo m i with
      | error e1 =>
        rw [h1] at h
        simp only [Prod.mk.injEq] at h; exact h.2.symm
      | ok ka =>
        obtain ⟨k, adj⟩ := ka
        rw [h1] at h
        simp only at h
        cases h2 : m.children[k]? with
        | none => rw [h2] at h; simp only [Prod.mk.injEq] at h; exact h.2.symm
        | some child =>
          rw [h2] at h
          simp only at h
          rcases prog_cases (removeP T d adj (child, c)) with ⟨old, ⟨child', c'⟩, hp⟩ | ⟨e2, ⟨child', c'⟩, hp⟩
          · rw [zoomChild_ok hp] at h
            simp only at h
            obtain ⟨hf, _⟩ := tail_error h
            exfalso
            have hf' := except_map_error hf
            split at hf'
            · rw [mergeOrRebalanceChildSlab_err hf'] at harg; cases harg
            · cases hf'
          · have hsame := removeP_reject T d adj (child, c) (child', c') e2 hp
            rw [zoomChild_err hp] at h
            have he : e2 = e := Except.error.inj (Prod.mk.inj h).1
            have hst := (Prod.mk.inj h).2
            subst he
            have := hsame harg
            simp only [Prod.mk.injEq] at this
            obtain ⟨rfl, rfl⟩ := this
            rw [← hst, list_set_self h2]
            rfl

end ATree

end Atree
