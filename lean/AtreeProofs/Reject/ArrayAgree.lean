import AtreeProofs.Reject.Array
/-
  C18, arrays: the in-place programs agree with the functional model (`Array/Tree.lean`,
  `Array/Ops.lean`): the same error, or the same value and the same state.  So the no-trace
  theorems of `Reject/Array.lean` are about the SAME operations C01/C05/C09 are about, with the
  statement order made explicit.
-/
namespace Atree
open Gen

theorem agrees_ok {σ ε α : Type} {p : Except ε α × σ} {a : α} {s : σ} (h : p = (.ok a, s)) :
    Agrees p (.ok (a, s) : Except ε (α × σ)) := h

theorem fst_error_cases {σ ε α : Type} {x : Except ε α × σ} {e : ε} (h : x.1 = .error e) :
    ∃ s, x = (.error e, s) := by
  obtain ⟨r, s⟩ := x
  simp only at h
  exact ⟨s, by rw [h]⟩

theorem tail_ok {σ ε α : Type} {f : σ → Except ε (α × σ)} {s s' : σ} {a : α} (h : f s = .ok (a, s')) :
    Prog.tail f s = (.ok a, s') := by
  simp only [Prog.tail, h]

theorem tail_err {σ ε α : Type} {f : σ → Except ε (α × σ)} {s : σ} {e : ε} (h : f s = .error e) :
    Prog.tail f s = (.error e, s) := by
  simp only [Prog.tail, h]

/-- a functional tail agrees with itself -/
theorem agrees_tail {σ ε α : Type} (f : σ → Except ε (α × σ)) (s : σ) : Agrees (Prog.tail f s) (f s) := by
  unfold Agrees Prog.tail
  cases f s with
  | error e => rfl
  | ok r => obtain ⟨a, s'⟩ := r; rfl

theorem Agrees.of_eq {σ ε α : Type} {p : Except ε α × σ} {f g : Except ε (α × σ)} (h : Agrees p f) (hfg : f = g) :
    Agrees p g := hfg ▸ h

namespace ATree
open MetaSlab

theorem setP_agrees (T : Nat) : ∀ (d : Nat) (i : Nat) (v : Elem) (t : ATree d) (c : Ctx),
    Agrees (setP T d i v (t, c)) ((set T d t i v c).map (fun x => (x.1, x.2)))
  | 0, i, v, t, c => DataSlab.setP_agrees T i v t c
  | d + 1, i, v, (m : MetaSlab (ATree d)), c => by
    simp only [setP, set, bind, Except.bind]
    cases h1 : MetaSlab.childSlabIndexInfo m i with
    | error e1 => exact Agrees.of_error (e := e1) rfl
    | ok ka =>
      obtain ⟨k, adj⟩ := ka
      simp only
      cases h2 : m.children[k]? with
      | none => exact Agrees.of_error (e := AErr.slabNotFound) rfl
      | some child =>
        simp only
        have ih := setP_agrees T d adj v child c
        cases hs : set T d child adj v c with
        | error e2 =>
          rw [hs] at ih
          obtain ⟨st, hp⟩ := fst_error_cases ih
          obtain ⟨child', c'⟩ := st
          rw [zoomChild_err hp]
          exact Agrees.of_error (e := e2) rfl
        | ok res =>
          obtain ⟨old, child', c'⟩ := res
          rw [hs] at ih
          have hp : setP T d adj v (child, c) = (.ok old, (child', c')) := ih
          rw [zoomChild_ok hp]
          simp only
          refine Agrees.of_eq (agrees_tail _ _) ?_
          simp only [pure, Except.pure]
          generalize afterSet T _ child' k c' = x
          cases x <;> rfl

/-- the functional counterpart of `insertAtP`: the part of `ATree.insert` (index slab) after the
    target child is known -/
def insertAt (T : Nat) {d : Nat} (m : MetaSlab (ATree d)) (k adj : Nat) (e : Elem) (c : Ctx) :
    Except AErr (MetaSlab (ATree d) × Ctx) :=
  match m.children[k]? with
  | none => .error .slabNotFound
  | some child => do
    let (child', c) ← insert T d child adj e c
    let m1 : MetaSlab (ATree d) :=
      { m with hdr := { m.hdr with count := m.hdr.count + 1 },
               countSum := bumpFrom k (· + 1) m.countSum,
               childHdrs := m.childHdrs.set k (hdr d child'),
               children := m.children.set k child' }
    if isFull T d child' then m1.splitChildSlab child' k c
    else return (m1, c.emit (.store m1.hdr.id))

theorem insert_succ (T d : Nat) (m : MetaSlab (ATree d)) (i : Nat) (e : Elem) (c : Ctx) :
    insert T (d + 1) m i e c =
      if i > m.hdr.count then .error .indexOutOfBounds
      else
        (if i = m.hdr.count then
          match m.childHdrs.getLast? with
          | some h => pure (m.childHdrs.length - 1, h.count)
          | none => .error .goPanic
        else m.childSlabIndexInfo i) >>= fun (ka : Nat × Nat) => insertAt T m ka.1 ka.2 e c := by
  rw [insert]
  split
  · rfl
  · by_cases hi : i = m.hdr.count
    · simp only [if_pos hi]
      cases m.childHdrs.getLast? <;> rfl
    · simp only [if_neg hi]
      cases MetaSlab.childSlabIndexInfo m i <;> rfl

theorem insertAtP_agrees (T : Nat) {d : Nat}
    (ih : ∀ i v t c, Agrees (insertP T d i v (t, c)) ((insert T d t i v c).map (fun x => ((), x))))
    (k adj : Nat) (v : Elem) (m : MetaSlab (ATree d)) (c : Ctx) :
    Agrees (insertAtP T (insertP T d) k adj v (m, c)) ((insertAt T m k adj v c).map (fun x => ((), x))) := by
  simp only [insertAtP, insertAt]
  cases h2 : m.children[k]? with
  | none => exact Agrees.of_error (e := AErr.slabNotFound) rfl
  | some child =>
    simp only [bind, Except.bind]
    have ih := ih adj v child c
    cases hs : insert T d child adj v c with
    | error e2 =>
      rw [hs] at ih
      obtain ⟨st, hp⟩ := fst_error_cases ih
      obtain ⟨child', c'⟩ := st
      rw [zoomChild_err hp]
      exact Agrees.of_error (e := e2) rfl
    | ok res =>
      obtain ⟨child', c'⟩ := res
      rw [hs] at ih
      have hp : insertP T d adj v (child, c) = (.ok (), (child', c')) := ih
      rw [zoomChild_ok hp]
      simp only
      refine Agrees.of_eq (agrees_tail _ _) ?_
      simp only [pure, Except.pure]
      split
      · generalize MetaSlab.splitChildSlab _ child' k c' = x
        cases x <;> rfl
      · rfl

theorem insertP_agrees (T : Nat) : ∀ (d : Nat) (i : Nat) (v : Elem) (t : ATree d) (c : Ctx),
    Agrees (insertP T d i v (t, c)) ((insert T d t i v c).map (fun x => ((), x)))
  | 0, i, v, t, c => DataSlab.insertP_agrees T i v t c
  | d + 1, i, v, (m : MetaSlab (ATree d)), c => by
    rw [insert_succ]
    simp only [insertP]
    split
    · exact Agrees.of_error (e := AErr.indexOutOfBounds) rfl
    · generalize (if i = m.hdr.count then
          match m.childHdrs.getLast? with
          | some h => (pure (m.childHdrs.length - 1, h.count) : Except AErr (Nat × Nat))
          | none => Except.error AErr.goPanic
        else MetaSlab.childSlabIndexInfo m i) = tgt
      cases tgt with
      | error e1 => exact Agrees.of_error (e := e1) rfl
      | ok ka =>
        obtain ⟨k, adj⟩ := ka
        exact insertAtP_agrees T (insertP_agrees T d) k adj v m c

theorem removeP_agrees (T : Nat) : ∀ (d : Nat) (i : Nat) (t : ATree d) (c : Ctx),
    Agrees (removeP T d i (t, c)) ((remove T d t i c).map (fun x => (x.1, x.2)))
  | 0, i, t, c => DataSlab.removeP_agrees i t c
  | d + 1, i, (m : MetaSlab (ATree d)), c => by
    simp only [removeP, remove]
    split
    · exact Agrees.of_error (e := AErr.indexOutOfBounds) rfl
    · simp only [bind, Except.bind]
      cases h1 : MetaSlab.childSlabIndexInfo m i with
      | error e1 => exact Agrees.of_error (e := e1) rfl
      | ok ka =>
        obtain ⟨k, adj⟩ := ka
        simp only
        cases h2 : m.children[k]? with
        | none => exact Agrees.of_error (e := AErr.slabNotFound) rfl
        | some child =>
          simp only
          have ih := removeP_agrees T d adj child c
          cases hs : remove T d child adj c with
          | error e2 =>
            rw [hs] at ih
            obtain ⟨st, hp⟩ := fst_error_cases ih
            obtain ⟨child', c'⟩ := st
            rw [zoomChild_err hp]
            exact Agrees.of_error (e := e2) rfl
          | ok res =>
            obtain ⟨old, child', c'⟩ := res
            rw [hs] at ih
            have hp : removeP T d adj (child, c) = (.ok old, (child', c')) := ih
            rw [zoomChild_ok hp]
            simp only
            refine Agrees.of_eq (agrees_tail _ _) ?_
            simp only [pure, Except.pure]
            cases hu : isUnderflow T d child' with
            | none => rfl
            | some u =>
              simp only
              generalize MetaSlab.mergeOrRebalanceChildSlab T _ child' k u c' = x
              cases x <;> rfl

end ATree

/-! ### the array handle -/

namespace Arr

theorem zoomRoot_eq {α : Type} (p : (d : Nat) → Prog (ATree d × Ctx) AErr α) (a : Arr) (c : Ctx)
    (r : Except AErr α) (root' : ATree a.d) (c' : Ctx) (h : p a.d (a.root, c) = (r, (root', c'))) :
    zoomRoot p (a, c) = (r, (⟨a.d, root', a.ty⟩, c')) := by
  simp only [zoomRoot, h]

/-- a root program that left the root and the storage alone leaves the handle alone -/
theorem zoomRoot_same {α : Type} (p : (d : Nat) → Prog (ATree d × Ctx) AErr α) (a : Arr) (c : Ctx)
    (r : Except AErr α) (h : p a.d (a.root, c) = (r, (a.root, c))) : zoomRoot p (a, c) = (r, (a, c)) := by
  rw [zoomRoot_eq p a c r a.root c h]

theorem andThen_err {σ ε α β : Type} {p : Prog σ ε α} {f : α → Prog σ ε β} {s s1 : σ} {e : ε}
    (h : p s = (.error e, s1)) : p.andThen f s = (.error e, s1) := by
  simp only [Prog.andThen, h]

theorem andThen_ok {σ ε α β : Type} {p : Prog σ ε α} {f : α → Prog σ ε β} {s s1 : σ} {a : α}
    (h : p s = (.ok a, s1)) : p.andThen f s = f a s1 := by
  simp only [Prog.andThen, h]

/-- `Array.set`: an argument error leaves the array and the storage context as they were -/
theorem setP_reject (T i : Nat) (v : Elem) (st st' : Arr × Ctx) (e : AErr)
    (h : setP T i v st = (.error e, st')) (harg : e.isArg = true) : st' = st := by
  obtain ⟨a, c⟩ := st
  rcases ATree.prog_cases (ATree.setP T a.d i v (a.root, c)) with ⟨old, ⟨root', c'⟩, hp⟩ | ⟨e2, ⟨root', c'⟩, hp⟩
  · have hz := zoomRoot_eq (fun d => ATree.setP T d i v) a c _ root' c' hp
    rw [setP, andThen_ok hz] at h
    obtain ⟨hf, _⟩ := ATree.tail_error h
    exfalso
    have hf' := except_map_error hf
    split at hf'
    · rw [splitRoot_err hf'] at harg; cases harg
    · cases hf'
  · have hz := zoomRoot_eq (fun d => ATree.setP T d i v) a c _ root' c' hp
    rw [setP, andThen_err hz] at h
    have he : e2 = e := Except.error.inj (Prod.mk.inj h).1
    subst he
    have := ATree.setP_reject T a.d i v (a.root, c) (root', c') e2 hp harg
    obtain ⟨rfl, rfl⟩ := Prod.mk.inj this
    exact (Prod.mk.inj h).2.symm

theorem insertP_reject (T i : Nat) (v : Elem) (st st' : Arr × Ctx) (e : AErr)
    (h : insertP T i v st = (.error e, st')) (harg : e.isArg = true) : st' = st := by
  obtain ⟨a, c⟩ := st
  simp only [insertP] at h
  split at h
  · exact (Prod.mk.inj h).2.symm
  · rcases ATree.prog_cases (ATree.insertP T a.d i v (a.root, c)) with ⟨u, ⟨root', c'⟩, hp⟩ | ⟨e2, ⟨root', c'⟩, hp⟩
    · have hz := zoomRoot_eq (fun d => ATree.insertP T d i v) a c _ root' c' hp
      rw [andThen_ok hz] at h
      obtain ⟨hf, _⟩ := ATree.tail_error h
      exfalso
      have hf' := except_map_error hf
      split at hf'
      · rw [splitRoot_err hf'] at harg; cases harg
      · cases hf'
    · have hz := zoomRoot_eq (fun d => ATree.insertP T d i v) a c _ root' c' hp
      rw [andThen_err hz] at h
      have he : e2 = e := Except.error.inj (Prod.mk.inj h).1
      subst he
      have := ATree.insertP_reject T a.d i v (a.root, c) (root', c') e2 hp harg
      obtain ⟨rfl, rfl⟩ := Prod.mk.inj this
      exact (Prod.mk.inj h).2.symm

theorem removeP_reject (T i : Nat) (st st' : Arr × Ctx) (e : AErr)
    (h : removeP T i st = (.error e, st')) (harg : e.isArg = true) : st' = st := by
  obtain ⟨a, c⟩ := st
  rcases ATree.prog_cases (ATree.removeP T a.d i (a.root, c)) with ⟨old, ⟨root', c'⟩, hp⟩ | ⟨e2, ⟨root', c'⟩, hp⟩
  · have hz := zoomRoot_eq (fun d => ATree.removeP T d i) a c _ root' c' hp
    rw [removeP, andThen_ok hz] at h
    simp only [Prog.andThen, Prog.assign, Prog.ret] at h
    cases (Prod.mk.inj h).1
  · have hz := zoomRoot_eq (fun d => ATree.removeP T d i) a c _ root' c' hp
    rw [removeP, andThen_err hz] at h
    have he : e2 = e := Except.error.inj (Prod.mk.inj h).1
    subst he
    have := ATree.removeP_reject T a.d i (a.root, c) (root', c') e2 hp harg
    obtain ⟨rfl, rfl⟩ := Prod.mk.inj this
    exact (Prod.mk.inj h).2.symm

/-- ONE REQUEST, in place: a request refused because of its arguments leaves the array (every slab
    object of its tree) and the storage context (allocation counter, effect log = pending write set,
    created large-value slabs) exactly as they were. -/
theorem requestP_reject (T : Nat) (r : AReq) (st st' : Arr × Ctx) (e : AErr)
    (h : requestP T r st = (.error e, st')) (harg : e.isArg = true) : st' = st := by
  cases r with
  | get i =>
    simp only [requestP] at h
    split at h
    · cases (Prod.mk.inj h).1
    · exact (Prod.mk.inj h).2.symm
  | set i v =>
    simp only [requestP] at h
    rcases ATree.prog_cases (setP T i v st) with ⟨old, s1, hp⟩ | ⟨e2, s1, hp⟩
    · rw [andThen_ok hp] at h; cases (Prod.mk.inj h).1
    · rw [andThen_err hp] at h
      have he : e2 = e := Except.error.inj (Prod.mk.inj h).1
      subst he
      rw [← (Prod.mk.inj h).2]
      exact setP_reject T i v st s1 e2 hp harg
  | insert i v =>
    simp only [requestP] at h
    rcases ATree.prog_cases (insertP T i v st) with ⟨old, s1, hp⟩ | ⟨e2, s1, hp⟩
    · rw [andThen_ok hp] at h; cases (Prod.mk.inj h).1
    · rw [andThen_err hp] at h
      have he : e2 = e := Except.error.inj (Prod.mk.inj h).1
      subst he
      rw [← (Prod.mk.inj h).2]
      exact insertP_reject T i v st s1 e2 hp harg
  | remove i =>
    simp only [requestP] at h
    rcases ATree.prog_cases (removeP T i st) with ⟨old, s1, hp⟩ | ⟨e2, s1, hp⟩
    · rw [andThen_ok hp] at h; cases (Prod.mk.inj h).1
    · rw [andThen_err hp] at h
      have he : e2 = e := Except.error.inj (Prod.mk.inj h).1
      subst he
      rw [← (Prod.mk.inj h).2]
      exact removeP_reject T i st s1 e2 hp harg

/-! ### agreement with `Arr.set/insert/remove` and `Arr.request` -/

theorem setP_agrees (T i : Nat) (v : Elem) (a : Arr) (c : Ctx) :
    Agrees (setP T i v (a, c)) ((a.set T i v c).map (fun x => (x.1, x.2))) := by
  have ih := ATree.setP_agrees T a.d i v a.root c
  simp only [Arr.set, bind, Except.bind]
  cases hs : ATree.set T a.d a.root i v c with
  | error e2 =>
    rw [hs] at ih
    obtain ⟨⟨root', c'⟩, hp⟩ := fst_error_cases ih
    rw [setP, andThen_err (zoomRoot_eq (fun d => ATree.setP T d i v) a c _ root' c' hp)]
    exact Agrees.of_error rfl
  | ok res =>
    obtain ⟨old, root', c'⟩ := res
    rw [hs] at ih
    have hp : ATree.setP T a.d i v (a.root, c) = (.ok old, (root', c')) := ih
    rw [setP, andThen_ok (zoomRoot_eq (fun d => ATree.setP T d i v) a c _ root' c' hp)]
    simp only
    by_cases hfull : ATree.isFull T a.d root' = true
    · simp only [hfull, if_true]
      cases hsr : (⟨a.d, root', a.ty⟩ : Arr).splitRoot c' with
      | error e3 =>
        exact Agrees.of_error (congrArg Prod.fst (tail_err (e := e3) (by simp only [hfull, if_true, hsr, Except.map])))
      | ok r =>
        obtain ⟨a2, c2⟩ := r
        exact (tail_ok (a := old) (s' := a2.promoteIfSingleChild c2)
          (by simp only [hfull, if_true, hsr, Except.map]))
    · simp only [hfull, pure, Except.pure]
      exact (tail_ok (a := old) (s' := (⟨a.d, root', a.ty⟩ : Arr).promoteIfSingleChild c')
        (by simp only [hfull, Except.map]; rfl))

theorem insertP_agrees (T i : Nat) (v : Elem) (a : Arr) (c : Ctx) :
    Agrees (insertP T i v (a, c)) ((a.insert T i v c).map (fun x => ((), x))) := by
  simp only [insertP, Arr.insert]
  split
  · exact Agrees.of_error rfl
  · have ih := ATree.insertP_agrees T a.d i v a.root c
    simp only [bind, Except.bind]
    cases hs : ATree.insert T a.d a.root i v c with
    | error e2 =>
      rw [hs] at ih
      obtain ⟨⟨root', c'⟩, hp⟩ := fst_error_cases ih
      rw [andThen_err (zoomRoot_eq (fun d => ATree.insertP T d i v) a c _ root' c' hp)]
      exact Agrees.of_error rfl
    | ok res =>
      obtain ⟨root', c'⟩ := res
      rw [hs] at ih
      have hp : ATree.insertP T a.d i v (a.root, c) = (.ok (), (root', c')) := ih
      rw [andThen_ok (zoomRoot_eq (fun d => ATree.insertP T d i v) a c _ root' c' hp)]
      simp only
      by_cases hfull : ATree.isFull T a.d root' = true
      · simp only [hfull, if_true]
        cases hsr : (⟨a.d, root', a.ty⟩ : Arr).splitRoot c' with
        | error e3 =>
          exact Agrees.of_error (congrArg Prod.fst (tail_err (e := e3) (by simp only [hfull, if_true, hsr, Except.map])))
        | ok r =>
          exact (tail_ok (a := ()) (s' := r) (by simp only [hfull, if_true, hsr, Except.map]))
      · simp only [hfull, pure, Except.pure]
        exact (tail_ok (a := ()) (s' := ((⟨a.d, root', a.ty⟩ : Arr), c')) (by simp only [hfull, Except.map]; rfl))

theorem removeP_agrees (T i : Nat) (a : Arr) (c : Ctx) :
    Agrees (removeP T i (a, c)) ((a.remove T i c).map (fun x => (x.1, x.2))) := by
  have ih := ATree.removeP_agrees T a.d i a.root c
  simp only [Arr.remove, bind, Except.bind]
  cases hs : ATree.remove T a.d a.root i c with
  | error e2 =>
    rw [hs] at ih
    obtain ⟨⟨root', c'⟩, hp⟩ := fst_error_cases ih
    rw [removeP, andThen_err (zoomRoot_eq (fun d => ATree.removeP T d i) a c _ root' c' hp)]
    exact Agrees.of_error rfl
  | ok res =>
    obtain ⟨old, root', c'⟩ := res
    rw [hs] at ih
    have hp : ATree.removeP T a.d i (a.root, c) = (.ok old, (root', c')) := ih
    rw [removeP, andThen_ok (zoomRoot_eq (fun d => ATree.removeP T d i) a c _ root' c' hp)]
    exact agrees_ok rfl

/-- the in-place request and the functional request `Arr.request` (AtreeModel/Errors.lean):
    a served request gives the same answer and the same state; a refused one the same error. -/
theorem requestP_agrees (T : Nat) (r : AReq) (s : Arr × Ctx) :
    match (Arr.request T s r).2 with
    | .err e => (requestP T r s).1 = .error e
    | resp => requestP T r s = (.ok resp, (Arr.request T s r).1) := by
  obtain ⟨a, c⟩ := s
  cases r with
  | get i =>
    simp only [Arr.request, requestP]
    cases a.get i <;> rfl
  | set i v =>
    have h := setP_agrees T i v a c
    simp only [Arr.request, requestP]
    cases hs : a.set T i v c with
    | error e =>
      rw [hs] at h
      obtain ⟨s1, hp⟩ := fst_error_cases h
      simp only [andThen_err hp]
    | ok res =>
      obtain ⟨old, a', c'⟩ := res
      rw [hs] at h
      have hp : setP T i v (a, c) = (.ok old, (a', c')) := h
      simp only [andThen_ok hp, Prog.ret]
  | insert i v =>
    have h := insertP_agrees T i v a c
    simp only [Arr.request, requestP]
    cases hs : a.insert T i v c with
    | error e =>
      rw [hs] at h
      obtain ⟨s1, hp⟩ := fst_error_cases h
      simp only [andThen_err hp]
    | ok res =>
      obtain ⟨a', c'⟩ := res
      rw [hs] at h
      have hp : insertP T i v (a, c) = (.ok (), (a', c')) := h
      simp only [andThen_ok hp, Prog.ret]
  | remove i =>
    have h := removeP_agrees T i a c
    simp only [Arr.request, requestP]
    cases hs : a.remove T i c with
    | error e =>
      rw [hs] at h
      obtain ⟨s1, hp⟩ := fst_error_cases h
      simp only [andThen_err hp]
    | ok res =>
      obtain ⟨old, a', c'⟩ := res
      rw [hs] at h
      have hp : removeP T i (a, c) = (.ok old, (a', c')) := h
      simp only [andThen_ok hp, Prog.ret]

end Arr

end Atree
