import AtreeProofs.E2ESpec
import AtreeProofs.Codec.RoundTrip
/-
  The byte-level codec (`AtreeModel/Codec`) on the stored slabs of arrays (`E2E.SSlab`).
  DEFINITIONS ONLY; theorems in `AtreeProofs/Props/E2EBytes.lean`.

  COVERED SLAB SHAPES: standalone array data slabs (root / non-root, with or without sibling link),
  array index slabs, and large-value slabs of plain values — i.e. every slab an array of plain values
  occupies (`Codec.Slab.data / .index / .storable`, the kinds with `SlabOK`).
  NOT COVERED: map slabs, slabs with inlined children / wrapped values (`adata`, `mdata`, `mindex`,
  `storableG`): arrays of the `Arr` model never contain them (nested containers live in the World
  model), maps are left to the abstract `RoundTrip` hypothesis.

  The type info of the array model is a number; it is encoded as the harness's plain type info
  (`TyInfo.plain`).
-/
namespace Atree.E2E
open Atree Atree.Codec Gen

def tyInfo (ty : Option Nat) : Option TyInfo := ty.map .plain

def tyNum : TyInfo → Nat
  | .plain n => n
  | .composite n => n

/-- the ID a stored slab carries in its own header (`undef` for a large-value slab, which has none) -/
def ownId : SSlab → SlabID
  | .tree (.data s) _ => s.hdr.id
  | .tree (.index h _ _ _) _ => h.id
  | .large _ => SlabID.undef

/-- the stored slab as the codec sees it; `id` is only used for a large-value slab (`StorableSlab.slabID`) -/
def toSlab (id : SlabID) : SSlab → Slab
  | .tree (.data s) ty => .data (tyInfo ty) s
  | .tree (.index h chs cs root) ty =>
    .index (tyInfo ty) { hdr := h, childHdrs := chs, countSum := cs, children := [], root := root }
  | .large v => .storable id v

/-- what the decoder returns, as a stored slab (`none` for the slab kinds that are not covered) -/
def ofSlab : Slab → Option SSlab
  | .data ty s => some (.tree (.data s) (ty.map tyNum))
  | .index ty m => some (.tree (.index m.hdr m.childHdrs m.countSum m.root) (ty.map tyNum))
  | .storable _ e => some (.large e)
  | _ => none

/-- the encoder's preconditions hold for the slab (`Codec.SlabOK`: field widths, `count = len`,
    `size = prefix + Σ sizes`, children at the parent's address, valid values, …) -/
def OkS (v : SSlab) : Prop := SlabOK (toSlab (ownId v) v)

/-- `EncodeSlab` -/
def encS (v : SSlab) : Bytes := encodeSlab (toSlab (ownId v) v)

/-- `DecodeSlab(id, data)` -/
def decS (id : SlabID) (b : Bytes) : Option SSlab :=
  match decodeSlab id b 0 with
  | .ok sl _ => ofSlab sl
  | _ => none

instance (t : TyInfo) : Decidable (validTy t) := by
  cases t <;> (unfold validTy; infer_instance)

instance (id : SlabID) : Decidable (validNext id) := by unfold validNext; infer_instance

instance (addr : Nat) (h : Hdr) : Decidable (validChildHdr addr h) := by
  unfold validChildHdr; infer_instance

instance (ty : TyInfo) (s : DataSlab) : Decidable (DataOK ty s) :=
  decidable_of_iff ((∀ e ∈ s.elems, validElem e) ∧ s.elems.length < 65536 ∧ s.inlined = false ∧
      s.hdr.count = s.elems.length ∧ s.hdr.size = s.prefixSize + sumSizes s.elems ∧
      s.hdr.size ≤ 4294967295 ∧ validNext s.next ∧ (s.root = true → validTy ty))
    ⟨fun ⟨a, b, c, d, e, f, g, h⟩ => ⟨a, b, c, d, e, f, g, h⟩,
     fun h => ⟨h.elems, h.count16, h.notInlined, h.count, h.size, h.size32, h.next, h.ty⟩⟩

instance (ty : TyInfo) (m : MetaSlab Unit) : Decidable (MetaOK ty m) :=
  decidable_of_iff (m.hdr.id.addr < 2 ^ 64 ∧ (∀ h ∈ m.childHdrs, validChildHdr m.hdr.id.addr h) ∧
      m.childHdrs.length < 65536 ∧ m.countSum = MetaSlab.prefixSums m.childHdrs 0 ∧
      m.hdr.count = m.countSum.getLastD 0 ∧ MetaSlab.sumCounts m.childHdrs ≤ 4294967295 ∧
      m.hdr.size = arrayMetaDataSlabPrefixSize + arraySlabHeaderSize * m.childHdrs.length ∧
      m.children = [] ∧ (m.root = true → validTy ty))
    ⟨fun ⟨a, b, c, d, e, f, g, h, i⟩ => ⟨a, b, c, d, e, f, g, h, i⟩,
     fun h => ⟨h.addr, h.hdrs, h.n16, h.sums, h.count, h.total32, h.size, h.noChildren, h.ty⟩⟩

instance (v : SSlab) : Decidable (OkS v) := by
  unfold OkS
  cases v with
  | tree t ty =>
    cases t with
    | data s => unfold toSlab ownId SlabOK; infer_instance
    | index h chs cs root => unfold toSlab ownId SlabOK; infer_instance
  | large e => unfold toSlab SlabOK; infer_instance

/-- THE KEYED BYTE CODEC.  A register is the ledger ENTRY `(key, bytes)`: `EncodeSlab` of a slab that
    meets the encoder's preconditions (an encoding error otherwise), filed under the slab's own ID;
    decoding an entry is `DecodeSlab(key of the entry, bytes)`.  (The abstract law `RoundTrip`
    quantifies over ALL identifiers passed to `DecodeSlab`; the bytes do not contain the slab's own
    ID – `DecodeSlab(id, …)` writes `id` into the header – so the law can only hold for a codec that
    reads the ID from the entry.  `E2E.decS_encS` is the statement for `DecodeSlab(id, bytes)`
    itself, at the slab's own key.) -/
def keyedCodec : Codec SSlab (SlabID × Bytes) :=
  { enc := fun v => if OkS v then some (ownId v, encS v) else none,
    dec := fun _ p => decS p.1 p.2,
    size := fun v => (toSlab (ownId v) v).byteSize }

/-- a stored element is encodable: a value of the harness, or a reference of the size the library
    gives it (its ID is bounded by the allocation counter) -/
def ElemEnc (e : Elem) : Prop :=
  match e.pay with
  | .val _ => validElem e
  | .ref _ => e.size = slabIDStorableSize

/-- a request whose value can be encoded by the harness -/
def AOp.Enc : AOp → Prop
  | .insert _ v | .append v | .set _ v => validElem v
  | .setType ty => ty < 2 ^ 64
  | _ => True

end Atree.E2E
