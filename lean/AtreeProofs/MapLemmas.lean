import AtreeProofs.MapInv
/- Helper definitions and lemmas for the map model. -/
namespace Atree
open Gen

/-- a value handed to the map by the caller: a plain value of at least one byte (any size) -/
def ValueOkM (v : Elem) : Prop := 1 ≤ v.size ∧ ∃ n, v.pay = .val n

/-- the allocation counter is at or above every slab index of the map's owner used by the map
    (so freshly allocated IDs are fresh) -/
def CtxOk {r : Nat} (m : OMap r) (c : Ctx) : Prop :=
  ∀ id ∈ (Dump_ids m), id.addr = m.addr → id.idx ≤ c.ctr
where
  Dump_ids {r : Nat} (m : OMap r) : List SlabID := mapSlabIds m.d m.root
  mapSlabIds {r : Nat} : (d : Nat) → MTree r d → List SlabID
    | 0, (s : MDataSlab r) => s.hdr.id :: s.elems.elems.filterMap (fun el => match el with | .ext id _ _ => some id | _ => none)
    | d + 1, (x : MMetaSlab (MTree r d)) => x.hdr.id :: x.children.flatMap (mapSlabIds d)

/-- configuration matching the map under test -/
def CfgOk {r : Nat} (cfg : MCfg) (T : Nat) (m : OMap r) : Prop :=
  cfg.T = T ∧ cfg.L = r + 1 ∧ cfg.addr = m.addr

/-- what a value becomes when stored next to key `k` -/
def storedValue (cfg : MCfg) (k : MKey) (v : Elem) (c : Ctx) : Elem :=
  (toStorableLim (maxInlineMapValue cfg.T k.size) cfg.addr v c).1

end Atree
