import AtreeProofs.WorldOkFrame
import AtreeProofs.WorldOkPop
/-
  HISTORIES of operations on a World of nested containers (audit a5, S2).  DEFINITIONS ONLY — part of
  the reviewed statement of the property theorems of `AtreeProofs/Props/C10Hist.lean`.

  A client of the library holds HANDLES (Go: `*Array` / `*OrderedMap` objects).  It obtains a handle
  when it creates a container, when it fetches a child (`Get`, mutable iteration), when a mutation
  hands a container back (`Set` / `Remove` return the old value), and when it opens a root by its
  identifier after reopening the storage.  `HState.hs` is the set of containers whose handle the
  client holds and that have not been invalidated (a bulk pop / a disposal drops the handles of the
  containers it disposes of; reopening the storage drops every handle).  `Step` is one request made
  THROUGH A HANDLE THE CLIENT HOLDS (`s.hs p`) with well-formed arguments (`WValOk`, `KeyOk`) that the
  model answers successfully; nothing else is assumed — in particular NOT `HandleOk`: that the
  handles held are current is what `C10Hist.history_invariant` proves.
  (One handle per container: the domain `HandlesCurrent` of DESIGN.md §3.  A second, older handle
  object for the same container is finding F2 / F2b and outside this model.)

  `SpecStep` is the SPECIFICATION of the same requests on the table of signatures
  `z ↦ (kind, [(key?, payload)])` (`World.absTab`): an array is a sequence (`insertIdx`, `set`,
  `eraseIdx`), a map a list of key / payload pairs with the dictionary effects of `Map/Dict.lean`,
  a reference payload `.ref x` names the container `x`; a request changes ONLY the container it is
  addressed to (and creates / disposes of containers).  Reading through a root — following the
  reference payloads — only looks at this table (`World.deepVal`).
-/
namespace Atree
open Gen

namespace World

/-- requests of a client -/
inductive WOp where
  | newArr (ty : Nat)
  | newMap (ty seed : Nat)
  | arrInsert (p : SlabID) (i : Nat) (v : WVal)
  | arrSet (p : SlabID) (i : Nat) (v : WVal)
  | arrRemove (p : SlabID) (i : Nat)
  | mapSet (p : SlabID) (k : MKey) (v : WVal)
  | mapRemove (p : SlabID) (k : MKey)
  | arrGet (p : SlabID) (i : Nat)
  | mapGet (p : SlabID) (k : MKey)
  | setType (p : SlabID) (ty : Nat)
  | arrPop (p : SlabID)
  | mapPop (p : SlabID)
  | dispose (k : SlabID)
  | reopen (roots : List SlabID)

/-- what a request returns, as far as the reference structure is concerned: payloads -/
inductive WObs where
  | unit
  | id (x : SlabID)
  | pay (p : Pay)
  | opay (p : Option Pay)
  | pays (l : List Pay)
  | kpays (l : List (MKey × Pay))

/-- the world, the storage context, and the handles the client holds -/
structure HState where
  w : World
  cx : Ctx
  hs : SlabID → Prop

/-- the handle of the live container an element refers to -/
def refOf (w : World) (e : Elem) : SlabID → Prop := fun z => e.pay = .ref z ∧ (w.cont? z).isSome

/-- ONE REQUEST through a handle the client holds (`D`: the digest functions of the maps) -/
inductive Step (D : SlabID → DigestFn 4) : HState → WOp → WObs → HState → Prop
  | newArr (s : HState) (ty : Nat) :
      Step D s (.newArr ty) (.id (s.w.newArr ty s.cx).1)
        ⟨(s.w.newArr ty s.cx).2.1, (s.w.newArr ty s.cx).2.2, fun z => s.hs z ∨ z = (s.w.newArr ty s.cx).1⟩
  | newMap (s : HState) (ty seed : Nat) :
      Step D s (.newMap ty seed) (.id (s.w.newMap ty seed s.cx).1)
        ⟨(s.w.newMap ty seed s.cx).2.1, (s.w.newMap ty seed s.cx).2.2,
          fun z => s.hs z ∨ z = (s.w.newMap ty seed s.cx).1⟩
  | arrInsert (s : HState) (p : SlabID) (i : Nat) (v : WVal) (w' : World) (cx' : Ctx) :
      s.hs p → WValOk s.w p (maxInlineArr s.w.T) v → s.w.arrInsert p i v s.cx = .ok (w', cx') →
      Step D s (.arrInsert p i v) .unit ⟨w', cx', s.hs⟩
  | arrSet (s : HState) (p : SlabID) (i : Nat) (v : WVal) (old : Elem) (w' : World) (cx' : Ctx) :
      s.hs p → WValOk s.w p (maxInlineArr s.w.T) v → s.w.arrSet p i v s.cx = .ok (old, w', cx') →
      Step D s (.arrSet p i v) (.pay old.pay) ⟨w', cx', fun z => s.hs z ∨ refOf s.w old z⟩
  | arrRemove (s : HState) (p : SlabID) (i : Nat) (old : Elem) (w' : World) (cx' : Ctx) :
      s.hs p → s.w.arrRemove p i s.cx = .ok (old, w', cx') →
      Step D s (.arrRemove p i) (.pay old.pay) ⟨w', cx', fun z => s.hs z ∨ refOf s.w old z⟩
  | mapSet (s : HState) (p : SlabID) (k : MKey) (v : WVal) (old : Option Elem) (w' : World) (cx' : Ctx) :
      s.hs p → KeyOk s.w.T 4 (D p) k → WValOk s.w p (maxInlineMapValue s.w.T k.size) v →
      s.w.mapSet p k v s.cx = .ok (old, w', cx') →
      Step D s (.mapSet p k v) (.opay (old.map (·.pay)))
        ⟨w', cx', fun z => s.hs z ∨ ∃ o, old = some o ∧ refOf s.w o z⟩
  | mapRemove (s : HState) (p : SlabID) (k : MKey) (rk : MKey) (rv : Elem) (w' : World) (cx' : Ctx) :
      s.hs p → KeyOk s.w.T 4 (D p) k → s.w.mapRemove p k s.cx = .ok (rk, rv, w', cx') →
      Step D s (.mapRemove p k) (.pay rv.pay) ⟨w', cx', fun z => s.hs z ∨ refOf s.w rv z⟩
  | arrGet (s : HState) (p : SlabID) (i : Nat) (el : Elem) (w' : World) :
      s.hs p → s.w.arrGet p i = .ok (el, w') →
      Step D s (.arrGet p i) (.pay el.pay) ⟨w', s.cx, fun z => s.hs z ∨ refOf s.w el z⟩
  | mapGet (s : HState) (p : SlabID) (k : MKey) (el : Elem) (w' : World) :
      s.hs p → KeyOk s.w.T 4 (D p) k → s.w.mapGet p k = .ok (el, w') →
      Step D s (.mapGet p k) (.pay el.pay) ⟨w', s.cx, fun z => s.hs z ∨ refOf s.w el z⟩
  | setType (s : HState) (p : SlabID) (ty : Nat) (w' : World) (cx' : Ctx) :
      s.hs p → s.w.setType p ty s.cx = .ok (w', cx') →
      Step D s (.setType p ty) .unit ⟨w', cx', s.hs⟩
  | arrPop (s : HState) (p : SlabID) (es : List Elem) (w' : World) (cx' : Ctx) :
      s.hs p → s.w.arrPop p s.cx = .ok (es, w', cx') →
      Step D s (.arrPop p) (.pays (es.map (·.pay))) ⟨w', cx', fun z => s.hs z ∧ (w'.cont? z).isSome⟩
  | mapPop (s : HState) (p : SlabID) (kvs : List (MKey × Elem)) (w' : World) (cx' : Ctx) :
      s.hs p → s.w.mapPop p s.cx = .ok (kvs, w', cx') →
      Step D s (.mapPop p) (.kpays (kvs.map (fun kv => (kv.1, kv.2.pay))))
        ⟨w', cx', fun z => s.hs z ∧ (w'.cont? z).isSome⟩
  /-- the caller disposes of a container nobody refers to (deep removal of a value handed back, of
      a root it drops) -/
  | dispose (s : HState) (k : SlabID) :
      s.hs k → DetachedRoot s.w k →
      Step D s (.dispose k) .unit
        ⟨World.forget s.w.fuelOf s.w k, s.cx, fun z => s.hs z ∧ ((World.forget s.w.fuelOf s.w k).cont? z).isSome⟩
  /-- the storage is reopened: every handle is dropped; the client opens roots (containers nobody
      refers to) by their identifiers -/
  | reopen (s : HState) (roots : List SlabID) :
      Step D s (.reopen roots) .unit
        ⟨s.w.reopen, s.cx, fun z => z ∈ roots ∧ (s.w.cont? z).isSome ∧ ∀ q, ¬ Holds s.w q z⟩

/-- a history: requests with what they returned -/
inductive Run (D : SlabID → DigestFn 4) : HState → List (WOp × WObs) → HState → Prop
  | nil (s : HState) : Run D s [] s
  | cons {s s1 s2 : HState} {op : WOp} {ob : WObs} {tr : List (WOp × WObs)} :
      Step D s op ob s1 → Run D s1 tr s2 → Run D s ((op, ob) :: tr) s2

/-- the empty world, no handle held -/
def HState.init (T addr : Nat) (cx : Ctx) : HState := ⟨{ T := T, addr := addr }, cx, fun _ => False⟩

/-! ### the specification: the table of signatures -/

/-- kind (`true` = array) and, per element, the key (maps) and the payload -/
abbrev Sig := Bool × List (Option MKey × Pay)

abbrev Tab := SlabID → Option Sig

/-- the table of signatures of a world: all that reading through references looks at -/
def absTab (w : World) : Tab := fun z => (w.cont? z).map Cont.sig

def Tab.upd (A : Tab) (x : SlabID) (s : Sig) : Tab := fun z => if z = x then some s else A z

/-- the payload a value is stored as -/
def payOf : WVal → Pay
  | .plain e => e.pay
  | .child x _ => .ref x

/-- `x` is reachable from `v` through reference payloads (in the table) -/
inductive TReach (A : Tab) : SlabID → SlabID → Prop
  | refl {v : SlabID} : (A v).isSome → TReach A v v
  | step {u v x : SlabID} {s : Sig} {ko : Option MKey} :
      A u = some s → (ko, Pay.ref v) ∈ s.2 → TReach A v x → TReach A u x

/-- what the disposal of the containers reachable from the payloads `ps` does to the table: they are
    gone, nothing else changes -/
def Disposed (A A' : Tab) (ps : List Pay) (keep : SlabID) : Prop :=
  (∀ v x, Pay.ref v ∈ ps → TReach A v x → A' x = none) ∧
  (∀ z, z ≠ keep → (∀ v, Pay.ref v ∈ ps → ¬ TReach A v z) → A' z = A z) ∧
  (∀ z, (A' z).isSome → (A z).isSome)

/-- THE SPECIFICATION of one request on the table of signatures -/
inductive SpecStep : Tab → WOp → WObs → Tab → Prop
  | newArr (A : Tab) (ty : Nat) (x : SlabID) : A x = none → SpecStep A (.newArr ty) (.id x) (A.upd x (true, []))
  | newMap (A : Tab) (ty seed : Nat) (x : SlabID) :
      A x = none → SpecStep A (.newMap ty seed) (.id x) (A.upd x (false, []))
  | arrInsert (A : Tab) (p : SlabID) (i : Nat) (v : WVal) (l : List (Option MKey × Pay)) :
      A p = some (true, l) → i ≤ l.length →
      SpecStep A (.arrInsert p i v) .unit (A.upd p (true, l.insertIdx i (none, payOf v)))
  | arrSet (A : Tab) (p : SlabID) (i : Nat) (v : WVal) (l : List (Option MKey × Pay)) (o : Pay) :
      A p = some (true, l) → l[i]? = some (none, o) →
      SpecStep A (.arrSet p i v) (.pay o) (A.upd p (true, l.set i (none, payOf v)))
  | arrRemove (A : Tab) (p : SlabID) (i : Nat) (l : List (Option MKey × Pay)) (o : Pay) :
      A p = some (true, l) → l[i]? = some (none, o) →
      SpecStep A (.arrRemove p i) (.pay o) (A.upd p (true, l.eraseIdx i))
  /-- a new key: the pair appears somewhere, nothing else moves -/
  | mapSetNew (A : Tab) (p : SlabID) (k : MKey) (v : WVal) (L R : List (Option MKey × Pay)) :
      A p = some (false, L ++ R) → (∀ t ∈ L ++ R, t.1 ≠ some k) →
      SpecStep A (.mapSet p k v) (.opay none) (A.upd p (false, L ++ (some k, payOf v) :: R))
  /-- an existing key: the payload is replaced in place, the old one returned -/
  | mapSetOld (A : Tab) (p : SlabID) (k : MKey) (v : WVal) (L R : List (Option MKey × Pay)) (o : Pay) :
      A p = some (false, L ++ (some k, o) :: R) →
      SpecStep A (.mapSet p k v) (.opay (some o)) (A.upd p (false, L ++ (some k, payOf v) :: R))
  | mapRemove (A : Tab) (p : SlabID) (k : MKey) (L R : List (Option MKey × Pay)) (o : Pay) :
      A p = some (false, L ++ (some k, o) :: R) →
      SpecStep A (.mapRemove p k) (.pay o) (A.upd p (false, L ++ R))
  | arrGet (A : Tab) (p : SlabID) (i : Nat) (l : List (Option MKey × Pay)) (o : Pay) :
      A p = some (true, l) → l[i]? = some (none, o) → SpecStep A (.arrGet p i) (.pay o) A
  | mapGet (A : Tab) (p : SlabID) (k : MKey) (l : List (Option MKey × Pay)) (o : Pay) :
      A p = some (false, l) → (some k, o) ∈ l → SpecStep A (.mapGet p k) (.pay o) A
  | setType (A : Tab) (p : SlabID) (ty : Nat) : (A p).isSome → SpecStep A (.setType p ty) .unit A
  /-- bulk pop: the payloads last to first, the container emptied in place, what it held disposed of -/
  | arrPop (A A' : Tab) (p : SlabID) (l : List (Option MKey × Pay)) :
      A p = some (true, l) → A' p = some (true, []) → Disposed A A' (l.map (·.2)) p →
      SpecStep A (.arrPop p) (.pays (l.map (·.2)).reverse) A'
  | mapPop (A A' : Tab) (p : SlabID) (l : List (Option MKey × Pay)) (kps : List (MKey × Pay)) :
      A p = some (false, l) → l = kps.reverse.map (fun kp => (some kp.1, kp.2)) → A' p = some (false, []) →
      Disposed A A' (l.map (·.2)) p →
      SpecStep A (.mapPop p) (.kpays kps) A'
  | dispose (A A' : Tab) (k : SlabID) :
      (∀ x, TReach A k x → A' x = none) → (∀ z, ¬ TReach A k z → A' z = A z) →
      SpecStep A (.dispose k) .unit A'
  | reopen (A : Tab) (roots : List SlabID) : SpecStep A (.reopen roots) .unit A

inductive SpecRun : Tab → List (WOp × WObs) → Tab → Prop
  | nil (A : Tab) : SpecRun A [] A
  | cons {A A1 A2 : Tab} {op : WOp} {ob : WObs} {tr : List (WOp × WObs)} :
      SpecStep A op ob A1 → SpecRun A1 tr A2 → SpecRun A ((op, ob) :: tr) A2

/-! ### deep values: what reading through a root yields -/

/-- a value as seen by a reader that follows references: a plain payload, or a container with its
    elements (key for maps), to the depth the fuel allows -/
inductive DVal where
  | leaf (p : Pay)
  | cont (isArr : Bool) (elems : List (Option MKey × DVal))
  | cut

/-- the deep value of the payload `py` in the table `A` -/
def deepPay (A : Tab) : Nat → Pay → DVal
  | 0, _ => .cut
  | fuel + 1, .ref x =>
    match A x with
    | some s => .cont s.1 (s.2.map (fun t => (t.1, deepPay A fuel t.2)))
    | none => .leaf (.ref x)
  | _ + 1, py => .leaf py

/-- the deep value read through the container `r` of a world -/
def deepVal (w : World) (fuel : Nat) (r : SlabID) : DVal := deepPay (absTab w) fuel (.ref r)

end World
end Atree
