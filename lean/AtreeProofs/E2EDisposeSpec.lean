import AtreeProofs.E2ESpec
import AtreeProofs.ArrayRefs
/-
  END-TO-END specification with DISPOSAL (arrays; audit a1 F2).  DEFINITIONS ONLY (the theorems are
  in `AtreeProofs/Props/E2EDispose.lean`).

  C09: "After any history in which the caller disposes of every value the library hands back on
  removal or overwrite, the set of slabs in storage is exactly the set reachable from the live root
  containers ... and nothing else remains."

  `E2E.stepS` runs one request and its storage calls; the large-value slab of an overwritten /
  removed / popped element stays in storage (the library hands the element back, the CALLER owns it).
  `stepD` is the caller that disposes of it, as the harness does (`DSP` lines, `e.dispose`):
  `storage.Remove(id)` for every reference `⟨19, .ref id⟩` the request handed back.
  `E2E.AOp` / `E2E.stepA` / `E2E.stepS` are unchanged.
-/
namespace Atree.E2ED
open Atree Gen E2E

variable {β : Type}

/-- The references a request hands back to the caller: `Set` the overwritten element, `Remove` the
    removed element, `PopIterate` every element; a rejected request hands back nothing. -/
def handed (T : Nat) (st : Arr × Ctx) : AOp → List SlabID
  | .set i v =>
    match st.1.set T i v st.2 with
    | .ok (old, _) => refIdsOf [old]
    | .error _ => []
  | .remove i =>
    match st.1.remove T i st.2 with
    | .ok (old, _) => refIdsOf [old]
    | .error _ => []
  | .popIterate => refIdsOf (st.1.popIterate st.2).1
  | _ => []

/-- the caller disposes of large-value slabs: one `storage.Remove(id)` each -/
def dispose (c : Codec SSlab β) (s : St SSlab β) (ids : List SlabID) : St SSlab β :=
  St.run c s (ids.map (fun id => (Op.remove id : Op SSlab)))

/-- One request, its storage calls, then disposal of what was handed back. -/
def stepD (c : Codec SSlab β) (T : Nat) (x : (Arr × Ctx) × St SSlab β) (op : AOp) :
    (Arr × Ctx) × St SSlab β :=
  let y := stepS c T x op
  (y.1, dispose c y.2 (handed T x.1 op))

def runD (c : Codec SSlab β) (T : Nat) (x : (Arr × Ctx) × St SSlab β) (ops : List AOp) :
    (Arr × Ctx) × St SSlab β := ops.foldl (stepD c T) x

/-- The LIVE large-value slabs: those referenced by a current element, with the value the
    reference resolves to. -/
def live (st : Arr × Ctx) (id : SlabID) : Option Elem :=
  if id ∈ st.1.refIds then AList.find? st.2.created id else none

/-- every reference element of the array resolves to a created large-value slab -/
def Resolves (st : Arr × Ctx) : Prop :=
  ∀ id ∈ st.1.refIds, (AList.find? st.2.created id).isSome

/-- The invariant of a history with disposal. `rep.view` is the exact-heap statement: on the
    owner address the storage holds the slabs of the tree and the large-value slabs of the CURRENT
    elements, and nothing else. -/
structure GoodD (c : Codec SSlab β) (T : Nat) (x : (Arr × Ctx) × St SSlab β) : Prop where
  inv : ArrInv T x.1.1 x.1.2.ctr
  refsR : ARefsOk x.1.1 x.1.2.ctr
  rep : Rep c x.2 x.1.1 (live x.1) x.1.2.ctr
  st : Inv c x.2
  addr : x.1.1.addr ≠ 0
  sync : AllocSync x.2 x.1.1.addr x.1.2.ctr
  caddr : ∀ p ∈ x.1.2.created, p.1.addr = x.1.1.addr
  cle : ∀ p ∈ x.1.2.created, p.1.idx ≤ x.1.2.ctr
  res : Resolves x.1

end Atree.E2ED
