import AtreeModel.World
/-
  Definitions used by the statements about nested containers (C10, C11).  DEFINITIONS ONLY.
-/
namespace Atree
open Gen

namespace Cont
/-- value ID of a container = ID of its root slab -/
def vid : Cont → SlabID
  | .arr a => a.rootID
  | .map m => m.rootID

/-- the elements a container stores (arrays: the elements; maps: the values) -/
def storedElems : Cont → List Elem
  | .arr a => a.toList
  | .map m => m.toList.map (·.2)
end Cont

namespace World

/-- the size a parent must account for an element referring to container `c` behind `wrap` wrappers -/
def slotSize (c : Cont) (wrap : Nat) : Nat :=
  (if c.isInlined then c.rootSize else slabIDStorableSize) + 2 * wrap

/-- Every container is filed under its own value ID. -/
def IdsOk (w : World) : Prop := ∀ vid c, w.cont? vid = some c → c.vid = vid

/-- Every element of every container that refers to a container is in sync with that container:
    its recorded size is the child's current inlined size (or the 19-byte reference) plus wrappers. -/
def ElemSync (w : World) : Prop :=
  ∀ p pc, w.cont? p = some pc → ∀ e ∈ pc.storedElems, ∀ x c, e.pay = .ref x → w.cont? x = some c →
    ∃ wrap, e.size = slotSize c wrap

/-- `mutableElementIndex` is correct: a recorded index holds a reference to that child. -/
def MutIdxOk (w : World) : Prop :=
  ∀ p a, w.cont? p = some (.arr a) → ∀ x i, AList.find? (w.idxOf p) x = some i →
    ∃ e, a.toList[i]? = some e ∧ e.pay = .ref x

end World
end Atree
