import AtreeModel.StorageOps
import AtreeProofs.StorageLemmas
/-
  Lemmas about the commit functions (`commitKey`, `commitKeys`, `fastCommit`, `nondetCommit`).

  Structure:
  * `target c s id` – what the ledger must hold at `id` after a successful commit from `s`;
  * `Adv c s s'` – "`s'` is `s` after part of a commit": same view, same target, every delta either
    untouched or durably written;  reflexive, transitive, established by every `commitKey` step;
  * `ErrOK` – the error/fault-plan bookkeeping of the loop;
  * `OwnedKeys s keys` – `keys` enumerates the owned pending identifiers exactly once; both commit
    functions are `commitKeys` over such a list (`commitW_shape`).
-/
namespace Atree
open St

variable {σ β : Type}

/-! ### Target of a commit, and partial progress -/

/-- The register the ledger must hold for `id` after a successful commit from `s`. -/
def target (c : Codec σ β) (s : St σ β) (id : SlabID) : Option β :=
  match AList.find? s.deltas id with
  | some (some v) => if id.isTemp then AList.find? s.base id else c.enc v
  | some none => if id.isTemp then AList.find? s.base id else none
  | none => AList.find? s.base id

theorem target_of_not_pending (c : Codec σ β) (s : St σ β) (id : SlabID)
    (h : AList.find? s.deltas id = none) : target c s id = AList.find? s.base id := by
  simp [target, h]

theorem target_of_temp (c : Codec σ β) (s : St σ β) (id : SlabID)
    (h : id.isTemp = true) : target c s id = AList.find? s.base id := by
  unfold target
  split <;> simp [h]

/-- `s'` is `s` after some part of a commit. -/
structure Adv (c : Codec σ β) (s s' : St σ β) : Prop where
  view : ∀ id, s'.view c id = s.view c id
  target : ∀ id, target c s' id = target c s id
  pending : ∀ id, AList.find? s'.deltas id = AList.find? s.deltas id ∨
    (AList.find? s'.deltas id = none ∧ id.isTemp = false ∧ s'.committed c id = s.view c id)

theorem Adv.refl (c : Codec σ β) (s : St σ β) : Adv c s s :=
  ⟨fun _ => rfl, fun _ => rfl, fun _ => Or.inl rfl⟩

theorem Adv.trans {c : Codec σ β} {s s' s'' : St σ β} (h1 : Adv c s s') (h2 : Adv c s' s'') :
    Adv c s s'' := by
  refine ⟨fun id => (h2.view id).trans (h1.view id), fun id => (h2.target id).trans (h1.target id), ?_⟩
  intro id
  rcases h2.pending id with h2p | ⟨h2a, h2b, h2c⟩
  · rcases h1.pending id with h1p | ⟨h1a, h1b, h1c⟩
    · exact Or.inl (h2p.trans h1p)
    · right
      have hd'' : AList.find? s''.deltas id = none := h2p.trans h1a
      refine ⟨hd'', h1b, ?_⟩
      have ht := h2.target id
      rw [target_of_not_pending c s'' id hd'', target_of_not_pending c s' id h1a] at ht
      rw [← h1c]
      simp [St.committed, ht]
  · right
    exact ⟨h2a, h2b, h2c.trans (h1.view id)⟩

theorem Adv.not_pending {c : Codec σ β} {s s' : St σ β} (h : Adv c s s') (id : SlabID)
    (hd : AList.find? s.deltas id = none) : AList.find? s'.deltas id = none := by
  rcases h.pending id with hp | ⟨hp, _, _⟩
  · exact hp.trans hd
  · exact hp

theorem Adv.temp {c : Codec σ β} {s s' : St σ β} (h : Adv c s s') (id : SlabID)
    (ht : id.isTemp = true) : AList.find? s'.deltas id = AList.find? s.deltas id := by
  rcases h.pending id with hp | ⟨_, hp, _⟩
  · exact hp
  · simp [ht] at hp

theorem Adv.noEncodeFailure {c : Codec σ β} {s s' : St σ β} (h : Adv c s s')
    (hne : NoEncodeFailure c s) : NoEncodeFailure c s' := by
  intro id v hv
  rcases h.pending id with hp | ⟨hp, _, _⟩
  · exact hne id v (hp ▸ hv)
  · simp [hp] at hv

/-- After a complete commit the ledger is the target. -/
theorem Adv.base_eq_target {c : Codec σ β} {s s' : St σ β} (h : Adv c s s')
    (hall : ∀ id, id.isTemp = false → AList.find? s'.deltas id = none) (id : SlabID) :
    AList.find? s'.base id = Atree.target c s id := by
  rw [← h.target id]
  cases ht : id.isTemp with
  | true => exact (target_of_temp c s' id ht).symm
  | false => exact (target_of_not_pending c s' id (hall id ht)).symm

/-- After a complete commit the ledger decodes to the view. -/
theorem Adv.committed_eq_view {c : Codec σ β} {s s' : St σ β} (h : Adv c s s') (hI' : Inv c s')
    (hall : ∀ id, id.isTemp = false → AList.find? s'.deltas id = none) (id : SlabID)
    (ht : id.isTemp = false) : s'.committed c id = s.view c id := by
  rw [← h.view id]
  exact (view_of_not_pending c s' hI' id (hall id ht)).symm

/-! ### The two effects of one loop iteration -/

/-- Effect of a successful `Remove` on the base storage. -/
def applyDel (s : St σ β) (k : SlabID) : St σ β :=
  { s with base := AList.erase s.base k, cache := AList.insert s.cache k none,
           deltas := AList.erase s.deltas k }

/-- Effect of a successful `Store` on the base storage. -/
def applyStore (s : St σ β) (k : SlabID) (v : σ) (b : β) : St σ β :=
  { s with base := AList.insert s.base k b, cache := AList.insert s.cache k (some v),
           deltas := AList.erase s.deltas k }

theorem inv_applyDel (c : Codec σ β) (s : St σ β) (hI : Inv c s) (k : SlabID) :
    Inv c (applyDel s k) := by
  refine ⟨?_, AList.nodup_keys_erase _ _ hI.deltasNodup, AList.nodup_keys_insert _ _ _ hI.cacheNodup,
    AList.nodup_keys_erase _ _ hI.baseNodup, ?_, ?_⟩
  · intro id v h
    simp only [applyDel, AList.find?_insert] at h
    simp only [applyDel, St.committed, AList.find?_erase]
    by_cases hk : k = id
    · simp only [hk, if_true, Option.some.injEq] at h
      simp [hk, ← h]
    · simp only [hk, if_false] at h ⊢
      exact hI.coherent id v h
  · intro id ht
    simp only [applyDel, AList.find?_erase]
    split
    · rfl
    · exact hI.noTempBase id ht
  · intro id b h
    simp only [applyDel, AList.find?_erase] at h
    split at h
    · simp at h
    · exact hI.baseDecodes id b h

theorem inv_applyStore (c : Codec σ β) (hc : RoundTrip c) (s : St σ β) (hI : Inv c s) (k : SlabID)
    (hk : k.isTemp = false) (v : σ) (b : β) (hb : c.enc v = some b) :
    Inv c (applyStore s k v b) := by
  refine ⟨?_, AList.nodup_keys_erase _ _ hI.deltasNodup, AList.nodup_keys_insert _ _ _ hI.cacheNodup,
    AList.nodup_keys_insert _ _ _ hI.baseNodup, ?_, ?_⟩
  · intro id w h
    simp only [applyStore, AList.find?_insert] at h
    simp only [applyStore, St.committed, AList.find?_insert]
    by_cases hki : k = id
    · subst hki
      simp only [if_true, Option.some.injEq] at h
      simp [← h, hc k v b hb]
    · simp only [hki, if_false] at h ⊢
      exact hI.coherent id w h
  · intro id ht
    simp only [applyStore, AList.find?_insert]
    split
    · rename_i hki
      subst hki
      simp [ht] at hk
    · exact hI.noTempBase id ht
  · intro id b' h
    simp only [applyStore, AList.find?_insert] at h
    split at h
    · rename_i hki
      subst hki
      simp only [Option.some.injEq] at h
      subst h
      simp [hc k v b hb]
    · exact hI.baseDecodes id b' h

theorem adv_applyDel (c : Codec σ β) (s : St σ β) (k : SlabID) (hk : k.isTemp = false)
    (hd : AList.find? s.deltas k = some none) : Adv c s (applyDel s k) := by
  refine ⟨?_, ?_, ?_⟩
  · intro id
    simp only [applyDel, St.view, AList.find?_erase, AList.find?_insert]
    by_cases hki : k = id
    · subst hki; simp [hd]
    · simp [hki]
  · intro id
    simp only [applyDel, target, AList.find?_erase]
    by_cases hki : k = id
    · subst hki; simp [hd, hk]
    · simp [hki]
  · intro id
    simp only [applyDel, St.view, St.committed, AList.find?_erase]
    by_cases hki : k = id
    · subst hki; simp [hd, hk]
    · simp [hki]

theorem adv_applyStore (c : Codec σ β) (hc : RoundTrip c) (s : St σ β) (k : SlabID)
    (hk : k.isTemp = false) (v : σ) (b : β) (hd : AList.find? s.deltas k = some (some v))
    (hb : c.enc v = some b) : Adv c s (applyStore s k v b) := by
  refine ⟨?_, ?_, ?_⟩
  · intro id
    simp only [applyStore, St.view, AList.find?_erase, AList.find?_insert]
    by_cases hki : k = id
    · subst hki; simp [hd]
    · simp [hki]
  · intro id
    simp only [applyStore, target, AList.find?_erase, AList.find?_insert]
    by_cases hki : k = id
    · subst hki; simp [hd, hk, hb]
    · simp [hki]
  · intro id
    simp only [applyStore, St.view, St.committed, AList.find?_erase, AList.find?_insert]
    by_cases hki : k = id
    · subst hki; simp [hd, hk, hc k v b hb]
    · simp [hki]

theorem noEncodeFailure_erase (c : Codec σ β) (s s' : St σ β) (k : SlabID)
    (hd : s'.deltas = AList.erase s.deltas k) (hne : NoEncodeFailure c s) :
    NoEncodeFailure c s' := by
  intro id v h
  rw [hd, AList.find?_erase] at h
  split at h
  · simp at h
  · exact hne id v h

/-! ### One iteration: `commitKey` -/

theorem commitKey_of_err (c : Codec σ β) (fault : Nat → Bool) (r : CommitRes σ β) (k : SlabID)
    (e : StErr) (h : r.err = some e) : commitKey c fault r k = r := by
  unfold commitKey
  simp [h]

theorem foldl_commitKey_of_err (c : Codec σ β) (fault : Nat → Bool) (keys : List SlabID)
    (r : CommitRes σ β) (e : StErr) (h : r.err = some e) :
    keys.foldl (commitKey c fault) r = r := by
  induction keys with
  | nil => rfl
  | cons k ks ih => rw [List.foldl_cons, commitKey_of_err c fault r k e h, ih]

/-- State part of one iteration on a pending owned key. -/
theorem commitKey_spec (c : Codec σ β) (hc : RoundTrip c) (fault : Nat → Bool)
    (r : CommitRes σ β) (k : SlabID) (hI : Inv c r.st)
    (hk : AList.find? r.st.deltas k ≠ none) (hkt : k.isTemp = false) :
    Inv c (commitKey c fault r k).st ∧ Adv c r.st (commitKey c fault r k).st ∧
    (∀ j, j ≠ k → AList.find? (commitKey c fault r k).st.deltas j = AList.find? r.st.deltas j) ∧
    ((commitKey c fault r k).err = none → AList.find? (commitKey c fault r k).st.deltas k = none) ∧
    ((commitKey c fault r k).err = none → r.err = none) := by
  unfold commitKey
  split
  · rename_i e he
    exact ⟨hI, Adv.refl c _, fun _ _ => rfl, fun h => by simp [he] at h, fun h => by simp [he] at h⟩
  · rename_i he
    dsimp only
    split
    · rename_i hd; exact absurd hd hk
    · rename_i hd
      split
      · exact ⟨hI, Adv.refl c _, fun _ _ => rfl, fun h => by simp at h, fun _ => he⟩
      · refine ⟨inv_applyDel c r.st hI k, adv_applyDel c r.st k hkt hd, ?_, ?_, fun _ => he⟩
        · intro j hj
          have : ¬ k = j := fun e => hj e.symm
          simp [AList.find?_erase, this]
        · intro _
          simp [AList.find?_erase]
    · rename_i v hd
      split
      · exact ⟨hI, Adv.refl c _, fun _ _ => rfl, fun h => by simp at h, fun _ => he⟩
      · rename_i b hb
        split
        · exact ⟨hI, Adv.refl c _, fun _ _ => rfl, fun h => by simp at h, fun _ => he⟩
        · refine ⟨inv_applyStore c hc r.st hI k hkt v b hb, adv_applyStore c hc r.st k hkt v b hd hb,
            ?_, ?_, fun _ => he⟩
          · intro j hj
            have : ¬ k = j := fun e => hj e.symm
            simp [AList.find?_erase, this]
          · intro _
            simp [AList.find?_erase]

/-- Error bookkeeping: no error so far and no faulted call, or an external error and a faulted
    call among the calls issued. -/
def ErrOK (fault : Nat → Bool) (r : CommitRes σ β) : Prop :=
  (r.err = none ∧ ∀ n, n < r.n → fault n = false) ∨
  (r.err = some .external ∧ ∃ n, n < r.n ∧ fault n = true)

theorem commitKey_err (c : Codec σ β) (fault : Nat → Bool) (r : CommitRes σ β) (k : SlabID)
    (hne : NoEncodeFailure c r.st) (h : ErrOK fault r) :
    NoEncodeFailure c (commitKey c fault r k).st ∧ ErrOK fault (commitKey c fault r k) := by
  rcases h with ⟨he, hn⟩ | ⟨he, hn⟩
  · have hstep : ∀ n, n < r.n + 1 → fault r.n = false → fault n = false := by
      intro n hlt hf
      by_cases h' : n < r.n
      · exact hn n h'
      · have : n = r.n := by omega
        rw [this]; exact hf
    unfold commitKey
    simp only [he]
    split
    · split
      · rename_i hf
        exact ⟨hne, Or.inr ⟨rfl, r.n, Nat.lt_succ_self _, hf⟩⟩
      · rename_i hf
        refine ⟨noEncodeFailure_erase c r.st _ k rfl hne, Or.inl ⟨rfl, ?_⟩⟩
        intro n hlt
        exact hstep n hlt (by simpa using hf)
    · split
      · rename_i hf
        exact ⟨hne, Or.inr ⟨rfl, r.n, Nat.lt_succ_self _, hf⟩⟩
      · rename_i hf
        refine ⟨noEncodeFailure_erase c r.st _ k rfl hne, Or.inl ⟨rfl, ?_⟩⟩
        intro n hlt
        exact hstep n hlt (by simpa using hf)
    · rename_i v hd
      have hv := hne k v hd
      split
      · rename_i hb; simp [hb] at hv
      · split
        · rename_i hf
          exact ⟨hne, Or.inr ⟨rfl, r.n, Nat.lt_succ_self _, hf⟩⟩
        · rename_i hf
          refine ⟨noEncodeFailure_erase c r.st _ k rfl hne, Or.inl ⟨rfl, ?_⟩⟩
          intro n hlt
          exact hstep n hlt (by simpa using hf)
  · rw [commitKey_of_err c fault r k _ he]
    exact ⟨hne, Or.inr ⟨he, hn⟩⟩

/-! ### The loop: `commitKeys` -/

theorem commitKeys_fold_spec (c : Codec σ β) (hc : RoundTrip c) (fault : Nat → Bool)
    (keys : List SlabID) (r : CommitRes σ β) (hI : Inv c r.st) (hnd : keys.Nodup)
    (hk : ∀ k, k ∈ keys → AList.find? r.st.deltas k ≠ none ∧ k.isTemp = false) :
    Inv c (keys.foldl (commitKey c fault) r).st ∧ Adv c r.st (keys.foldl (commitKey c fault) r).st ∧
    ((keys.foldl (commitKey c fault) r).err = none →
      ∀ k, k ∈ keys → AList.find? (keys.foldl (commitKey c fault) r).st.deltas k = none) := by
  induction keys generalizing r with
  | nil => exact ⟨hI, Adv.refl c _, fun _ k hk => by simp at hk⟩
  | cons k ks ih =>
    rw [List.nodup_cons] at hnd
    obtain ⟨h1, h2, h3, h4, _⟩ :=
      commitKey_spec c hc fault r k hI (hk k (List.mem_cons_self ..)).1 (hk k (List.mem_cons_self ..)).2
    have hk' : ∀ j, j ∈ ks → AList.find? (commitKey c fault r k).st.deltas j ≠ none ∧ j.isTemp = false := by
      intro j hj
      have hjk : j ≠ k := fun e => hnd.1 (e ▸ hj)
      rw [h3 j hjk]
      exact hk j (List.mem_cons_of_mem _ hj)
    obtain ⟨g1, g2, g3⟩ := ih (commitKey c fault r k) h1 hnd.2 hk'
    rw [List.foldl_cons]
    refine ⟨g1, h2.trans g2, ?_⟩
    intro herr j hj
    rcases List.mem_cons.mp hj with rfl | hj
    · cases he1 : (commitKey c fault r j).err with
      | some e =>
        rw [foldl_commitKey_of_err c fault ks _ e he1] at herr
        rw [he1] at herr
        simp at herr
      | none => exact g2.not_pending j (h4 he1)
    · exact g3 herr j hj

theorem commitKeys_fold_err (c : Codec σ β) (fault : Nat → Bool) (keys : List SlabID)
    (r : CommitRes σ β) (hne : NoEncodeFailure c r.st) (h : ErrOK fault r) :
    NoEncodeFailure c (keys.foldl (commitKey c fault) r).st ∧
      ErrOK fault (keys.foldl (commitKey c fault) r) := by
  induction keys generalizing r with
  | nil => exact ⟨hne, h⟩
  | cons k ks ih =>
    obtain ⟨h1, h2⟩ := commitKey_err c fault r k hne h
    exact ih _ h1 h2

theorem errOK_init (fault : Nat → Bool) (s : St σ β) :
    ErrOK fault ({ st := s, err := none, log := [], n := 0 } : CommitRes σ β) :=
  Or.inl ⟨rfl, fun n h => by simp at h⟩

theorem commitKeys_err (c : Codec σ β) (fault : Nat → Bool) (s : St σ β) (keys : List SlabID)
    (hne : NoEncodeFailure c s) : ErrOK fault (commitKeys c fault s keys) :=
  (commitKeys_fold_err c fault keys _ hne (errOK_init fault s)).2

theorem ErrOK.err_none_of_no_fault {fault : Nat → Bool} {r : CommitRes σ β} (h : ErrOK fault r)
    (hf : ∀ n, fault n = false) : r.err = none := by
  rcases h with ⟨he, _⟩ | ⟨_, n, _, hn⟩
  · exact he
  · simp [hf n] at hn

theorem ErrOK.external_of_fault {fault : Nat → Bool} {r : CommitRes σ β} (h : ErrOK fault r)
    (hf : ∃ n, n < r.n ∧ fault n = true) : r.err = some .external := by
  rcases h with ⟨_, hn⟩ | ⟨he, _⟩
  · obtain ⟨n, hlt, hn'⟩ := hf
    simp [hn n hlt] at hn'
  · exact he

/-! ### Key lists -/

/-- `keys` enumerates the owned pending identifiers of `s`, each exactly once. -/
structure OwnedKeys (s : St σ β) (keys : List SlabID) : Prop where
  nodup : keys.Nodup
  mem : ∀ k, k ∈ keys ↔ (AList.find? s.deltas k ≠ none ∧ k.isTemp = false)

theorem ownedKeys_sorted (s : St σ β) (hnd : (AList.keys s.deltas).Nodup) :
    OwnedKeys s (sortedOwnedDeltaKeys s) := by
  constructor
  · exact nodup_sortIDs _ (hnd.sublist List.filter_sublist)
  · intro k
    unfold sortedOwnedDeltaKeys
    rw [mem_sortIDs, List.mem_filter, AList.find?_ne_none_iff]
    simp

theorem mem_modifiedOwned (s : St σ β) (hnd : (AList.keys s.deltas).Nodup) (k : SlabID) :
    k ∈ modifiedOwned s ↔ (∃ v, AList.find? s.deltas k = some (some v)) ∧ k.isTemp = false := by
  unfold modifiedOwned
  simp only [List.mem_map, List.mem_filter]
  constructor
  · rintro ⟨⟨k', ov⟩, ⟨hm, hcond⟩, rfl⟩
    simp only [Bool.and_eq_true, Bool.not_eq_true', Option.isSome_iff_exists] at hcond
    obtain ⟨ht, v, rfl⟩ := hcond
    exact ⟨⟨v, (AList.mem_iff_find? s.deltas hnd k' (some v)).mp hm⟩, ht⟩
  · rintro ⟨⟨v, hv⟩, ht⟩
    exact ⟨(k, some v), ⟨(AList.mem_iff_find? s.deltas hnd k (some v)).mpr hv, by simp [ht]⟩, rfl⟩

theorem mem_deletedOwned (s : St σ β) (hnd : (AList.keys s.deltas).Nodup) (k : SlabID) :
    k ∈ deletedOwned s ↔ AList.find? s.deltas k = some none ∧ k.isTemp = false := by
  unfold deletedOwned
  simp only [List.mem_map, List.mem_filter]
  constructor
  · rintro ⟨⟨k', ov⟩, ⟨hm, hcond⟩, rfl⟩
    simp only [Bool.and_eq_true, Bool.not_eq_true', Option.isNone_iff_eq_none] at hcond
    obtain ⟨ht, rfl⟩ := hcond
    exact ⟨(AList.mem_iff_find? s.deltas hnd k' none).mp hm, ht⟩
  · rintro ⟨hv, ht⟩
    exact ⟨(k, none), ⟨(AList.mem_iff_find? s.deltas hnd k none).mpr hv, by simp [ht]⟩, rfl⟩

theorem nodup_modifiedOwned (s : St σ β) (hnd : (AList.keys s.deltas).Nodup) :
    (modifiedOwned s).Nodup :=
  hnd.sublist (List.Sublist.map _ List.filter_sublist)

theorem nodup_deletedOwned (s : St σ β) (hnd : (AList.keys s.deltas).Nodup) :
    (deletedOwned s).Nodup :=
  hnd.sublist (List.Sublist.map _ List.filter_sublist)

/-- The key list met by `nondetCommit`. -/
def nondetKeys (mo dlo : List SlabID) : List SlabID :=
  if mo.length < 2 then mo ++ dlo else dlo ++ mo

theorem nondetCommit_eq (c : Codec σ β) (fault : Nat → Bool) (s : St σ β) (mo dlo : List SlabID) :
    nondetCommit c fault s mo dlo = commitKeys c fault s (nondetKeys mo dlo) := by
  unfold nondetCommit nondetKeys
  split
  · rfl
  · simp only [commitKeys, List.foldl_append]
    split
    · rename_i e he
      exact (foldl_commitKey_of_err c fault mo _ e he).symm
    · rfl

theorem ownedKeys_nondet (s : St σ β) (hnd : (AList.keys s.deltas).Nodup) (mo dlo : List SlabID) :
    OwnedKeys s (nondetKeys (normOrder s.modifiedOwned mo) (normOrder s.deletedOwned dlo)) := by
  have hm := nodup_normOrder s.modifiedOwned mo (nodup_modifiedOwned s hnd)
  have hd := nodup_normOrder s.deletedOwned dlo (nodup_deletedOwned s hnd)
  have hdisj : ∀ a, a ∈ normOrder s.modifiedOwned mo → ∀ b, b ∈ normOrder s.deletedOwned dlo → a ≠ b := by
    intro a ha b hb hab
    subst hab
    rw [mem_normOrder, mem_modifiedOwned s hnd] at ha
    rw [mem_normOrder, mem_deletedOwned s hnd] at hb
    obtain ⟨⟨v, hv⟩, _⟩ := ha
    rw [hb.1] at hv
    simp at hv
  have hmem : ∀ k, (k ∈ normOrder s.modifiedOwned mo ∨ k ∈ normOrder s.deletedOwned dlo) ↔
      (AList.find? s.deltas k ≠ none ∧ k.isTemp = false) := by
    intro k
    rw [mem_normOrder, mem_normOrder, mem_modifiedOwned s hnd, mem_deletedOwned s hnd]
    constructor
    · rintro (⟨⟨v, hv⟩, ht⟩ | ⟨hv, ht⟩) <;> simp [hv, ht]
    · rintro ⟨hv, ht⟩
      cases h : AList.find? s.deltas k with
      | none => exact absurd h hv
      | some ov =>
        cases ov with
        | none => exact Or.inr ⟨rfl, ht⟩
        | some v => exact Or.inl ⟨⟨v, rfl⟩, ht⟩
  unfold nondetKeys
  split
  · constructor
    · rw [List.nodup_append]; exact ⟨hm, hd, hdisj⟩
    · intro k; rw [List.mem_append]; exact hmem k
  · constructor
    · rw [List.nodup_append]; exact ⟨hd, hm, fun a ha b hb hab => hdisj b hb a ha hab.symm⟩
    · intro k; rw [List.mem_append, Or.comm]; exact hmem k

/-! ### Both commit functions at once -/

/-- The result of either commit function for given fault plan and orders (same as
    `C14.commitWith`; also what `step` runs for `Op.commit`). -/
def commitW (c : Codec σ β) (kind : CommitKind) (fault : Nat → Bool) (mo dlo : List SlabID)
    (s : St σ β) : CommitRes σ β :=
  match kind with
  | .det => s.fastCommit c fault
  | .nondet => s.nondetCommit c fault (normOrder s.modifiedOwned mo) (normOrder s.deletedOwned dlo)

theorem step_commit (c : Codec σ β) (s : St σ β) (kind : CommitKind) (faults : List Nat)
    (mo dlo : List SlabID) :
    St.step c s (.commit kind faults mo dlo) =
      ((commitW c kind (faultPlan faults) mo dlo s).st,
       match (commitW c kind (faultPlan faults) mo dlo s).err with
       | none => .unit
       | some e => .err e) := by
  cases kind <;> rfl

theorem anyEncodeFails_false (c : Codec σ β) (s : St σ β) (keys : List SlabID)
    (hne : NoEncodeFailure c s) : anyEncodeFails c s keys = false := by
  unfold anyEncodeFails
  rw [List.any_eq_false]
  intro id _
  split
  · rename_i v hv
    have := hne id v hv
    simp [Option.isSome_iff_exists] at this
    obtain ⟨b, hb⟩ := this
    simp [hb]
  · simp

/-- Either commit is the loop over some key list – which under unique delta keys enumerates the
    owned pending identifiers exactly once – or (FastCommit only) the up-front encoding failure. -/
theorem commitW_shape (c : Codec σ β) (kind : CommitKind) (fault : Nat → Bool)
    (mo dlo : List SlabID) (s : St σ β) :
    ∃ keys, ((AList.keys s.deltas).Nodup → OwnedKeys s keys) ∧
      (commitW c kind fault mo dlo s = commitKeys c fault s keys ∨
       (¬ NoEncodeFailure c s ∧
        commitW c kind fault mo dlo s = { st := s, err := some .encoding, log := [], n := 0 })) := by
  cases kind with
  | det =>
    refine ⟨sortedOwnedDeltaKeys s, ownedKeys_sorted s, ?_⟩
    show (fastCommit c fault s = _ ∨ _ ∧ fastCommit c fault s = _)
    unfold fastCommit
    cases h : anyEncodeFails c s (sortedOwnedDeltaKeys s) with
    | false => left; simp [h]
    | true =>
      right
      refine ⟨?_, by simp [h]⟩
      intro hne
      rw [anyEncodeFails_false c s _ hne] at h
      simp at h
  | nondet =>
    refine ⟨_, fun hnd => ownedKeys_nondet s hnd mo dlo, Or.inl ?_⟩
    exact nondetCommit_eq c fault s _ _

/-- Main state lemma for any commit attempt. -/
theorem commitW_spec (c : Codec σ β) (hc : RoundTrip c) (kind : CommitKind) (fault : Nat → Bool)
    (mo dlo : List SlabID) (s : St σ β) (hI : Inv c s) :
    Inv c (commitW c kind fault mo dlo s).st ∧ Adv c s (commitW c kind fault mo dlo s).st ∧
    ((commitW c kind fault mo dlo s).err = none →
      ∀ id, id.isTemp = false → AList.find? (commitW c kind fault mo dlo s).st.deltas id = none) := by
  obtain ⟨keys, hkeys, hshape⟩ := commitW_shape c kind fault mo dlo s
  have hok := hkeys hI.deltasNodup
  rcases hshape with h | ⟨_, h⟩
  · rw [h]
    obtain ⟨h1, h2, h3⟩ := commitKeys_fold_spec c hc fault keys
      { st := s, err := none, log := [], n := 0 } hI hok.nodup (fun k hk => (hok.mem k).mp hk)
    refine ⟨h1, h2, ?_⟩
    intro herr id ht
    cases hd : AList.find? s.deltas id with
    | none => exact h2.not_pending id hd
    | some ov =>
      apply h3 herr id
      rw [hok.mem]
      exact ⟨by simp [hd], ht⟩
  · rw [h]
    exact ⟨hI, Adv.refl c s, fun herr => by simp at herr⟩

/-- Error lemma for any commit attempt (no invariant needed). -/
theorem commitW_err (c : Codec σ β) (kind : CommitKind) (fault : Nat → Bool)
    (mo dlo : List SlabID) (s : St σ β) (hne : NoEncodeFailure c s) :
    ErrOK fault (commitW c kind fault mo dlo s) := by
  obtain ⟨keys, _, hshape⟩ := commitW_shape c kind fault mo dlo s
  rcases hshape with h | ⟨h, _⟩
  · rw [h]; exact commitKeys_err c fault s keys hne
  · exact absurd hne h

/-- A fault-free commit of encodable slabs succeeds, empties the owned write set and makes the
    ledger the target. -/
theorem commitW_complete (c : Codec σ β) (hc : RoundTrip c) (kind : CommitKind)
    (fault : Nat → Bool) (hf : ∀ n, fault n = false)
    (mo dlo : List SlabID) (s : St σ β) (hI : Inv c s) (hne : NoEncodeFailure c s) :
    (commitW c kind fault mo dlo s).err = none ∧
    (∀ id, id.isTemp = false → AList.find? (commitW c kind fault mo dlo s).st.deltas id = none) ∧
    (∀ id, AList.find? (commitW c kind fault mo dlo s).st.base id = target c s id) := by
  have herr := (commitW_err c kind fault mo dlo s hne).err_none_of_no_fault hf
  obtain ⟨_, h2, h3⟩ := commitW_spec c hc kind fault mo dlo s hI
  exact ⟨herr, h3 herr, h2.base_eq_target (h3 herr)⟩

/-- Any sequence of state transformers that each preserve the invariant and advance the state
    (e.g. commit attempts) preserves the invariant and advances the state. -/
theorem foldl_adv {α : Type} (c : Codec σ β) (f : St σ β → α → St σ β)
    (hf : ∀ s a, Inv c s → Inv c (f s a) ∧ Adv c s (f s a)) (l : List α) (s : St σ β)
    (hI : Inv c s) : Inv c (l.foldl f s) ∧ Adv c s (l.foldl f s) := by
  induction l generalizing s with
  | nil => exact ⟨hI, Adv.refl c s⟩
  | cons a l ih =>
    obtain ⟨h1, h2⟩ := hf s a hI
    obtain ⟨g1, g2⟩ := ih (f s a) h1
    exact ⟨g1, h2.trans g2⟩

/-! ### Abstraction -/

theorem abs_pend_of_deltas (c : Codec σ β) (s s' : St σ β) (h : s'.deltas = s.deltas) :
    (s'.abs c).pend = (s.abs c).pend := by
  simp [St.abs, h]

theorem abs_comm_of_base (c : Codec σ β) (s s' : St σ β) (h : s'.base = s.base) :
    (s'.abs c).comm = (s.abs c).comm := by
  funext id
  simp [St.abs, St.committed, h]

theorem step_preload_fst (c : Codec σ β) (s : St σ β) (ids : List SlabID) :
    (St.step c s (.preload ids)).1 = (s.batchPreload c ids).1 := by
  simp only [St.step]
  split <;> rename_i h <;> simp [h]

/-! ### The invariant is inductive -/

theorem inv_step_aux (c : Codec σ β) (hc : RoundTrip c) (s : St σ β) (op : Op σ) (h : Inv c s) :
    Inv c (St.step c s op).1 := by
  cases op with
  | store id v =>
    by_cases hid : id = SlabID.undef
    · simpa [St.step, St.store, hid] using h
    · simp only [St.step, St.store, hid, if_false]
      exact inv_setDeltas c s h _ (AList.nodup_keys_insert _ _ _ h.deltasNodup)
  | remove id =>
    by_cases hid : id = SlabID.undef
    · simpa [St.step, St.remove, hid] using h
    · simp only [St.step, St.remove, hid, if_false]
      exact inv_setDeltas c s h _ (AList.nodup_keys_insert _ _ _ h.deltasNodup)
  | retrieve id =>
    obtain ⟨s', h1, h2, _⟩ := retrieve_spec c s h id
    simp only [St.step, h1]
    exact h2
  | retrieveIfLoaded id => exact h
  | retrieveIgnoringDeltas id ch =>
    obtain ⟨s', h1, h2, _⟩ := retrieveIgnoringDeltas_spec c s h id ch
    simp only [St.step, h1]
    exact h2
  | commit kind faults mo dlo =>
    rw [step_commit]
    exact (commitW_spec c hc kind (faultPlan faults) mo dlo s h).1
  | dropDeltas => exact inv_setDeltas c s h [] (by simp [AList.keys])
  | dropCache => exact inv_dropCache c s h
  | preload ids =>
    rw [step_preload_fst]
    exact (batchPreload_spec c s h ids).1
  | recreate => exact inv_fresh c s h
  | genID a =>
    by_cases ha : a = 0
    · simp only [St.step, St.generateSlabID, ha, if_true]
      exact inv_setAux c s h _ s.alloc
    · simp only [St.step, St.generateSlabID, ha, if_false]
      exact inv_setAux c s h s.tempIx _

theorem inv_run (c : Codec σ β) (hc : RoundTrip c) (ops : List (Op σ)) (s : St σ β)
    (h : Inv c s) : Inv c (St.run c s ops) := by
  induction ops generalizing s with
  | nil => exact h
  | cons op ops ih => exact ih _ (inv_step_aux c hc s op h)

end Atree
