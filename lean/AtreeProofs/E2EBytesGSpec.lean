import AtreeProofs.E2EBytesSpec
import AtreeProofs.Codec.RoundTripW
/-
  Arrays with the byte codec, LARGE-VALUE SLABS OF ANY STORABLE the codec model supports (plain
  values, slab references, and – new with respect to `E2EBytesSpec.lean` – wrapped values
  `hx.SomeStorable`, nested to any depth: `Codec.Slab.storableG`).  DEFINITIONS ONLY; theorems in
  `AtreeProofs/Props/E2EBytesG.lean`.

  The array model is parametric in what a caller value IS: an `Elem` is a size and a payload number.
  A value that fits the inline limit is stored inline and must be a plain value of the harness; a
  value that does not fit is moved to a large-value slab, and what that slab holds is given by an
  interpretation `LargeInterp`: `γ v` is the storable written to the slab of the value `v`, `δ`
  reads it back.  (`E2EBytesSpec.lean` is the special case `γ = Stor.ofElem`.)
-/
namespace Atree.E2E
open Atree Atree.Codec Gen

/-- what the large-value slab of a caller value holds, and how it is read back -/
structure LargeInterp where
  γ : Elem → Stor
  δ : Stor → Option Elem
  /-- the values whose large-value slab can be encoded -/
  ok : Elem → Bool
  /-- a flat storable is the plain encoding of the value -/
  flat : ∀ v, ok v = true → (γ v).isFlat = true → γ v = Stor.ofElem v ∧ validElem v
  /-- otherwise it is a wrapped storable without inlined slab (the Go encoder refuses those) that
      meets the encoder's preconditions, nesting within the CBOR limit -/
  wrapped : ∀ v, ok v = true → (γ v).isFlat = false →
    ∃ x, γ v = .some x ∧ x.RT ∧ x.noInl ∧ x.vneed + 1 ≤ maxNestedLevels
  inv : ∀ v, ok v = true → δ (γ v) = some v

variable (I : LargeInterp)

/-- the stored slab as the codec sees it -/
def toSlabG (id : SlabID) : SSlab → Slab
  | .large v => if (I.γ v).isFlat then .storable id v else .storableG id (I.γ v)
  | v => toSlab id v

/-- what the decoder returns, as a stored slab -/
def ofSlabG : Slab → Option SSlab
  | .storableG _ s => (I.δ s).map .large
  | sl => ofSlab sl

/-- the encoder's preconditions -/
def OkG : SSlab → Prop
  | .large v => I.ok v = true
  | v => OkS v

instance (v : SSlab) : Decidable (OkG I v) := by
  cases v with
  | tree t ty => dsimp only [OkG]; infer_instance
  | large e => dsimp only [OkG]; infer_instance

/-- `EncodeSlab` -/
def encG (v : SSlab) : Bytes := encodeSlab (toSlabG I (ownId v) v)

/-- `DecodeSlab(id, data)` -/
def decG (id : SlabID) (b : Bytes) : Option SSlab :=
  match decodeSlab id b 0 with
  | .ok sl _ => ofSlabG I sl
  | _ => none

/-- THE KEYED BYTE CODEC with general large-value slabs (see `E2E.keyedCodec`) -/
def keyedCodecG : Codec SSlab (SlabID × Bytes) :=
  { enc := fun v => if OkG I v then some (ownId v, encG I v) else none,
    dec := fun _ p => decG I p.1 p.2,
    size := fun v => (toSlabG I (ownId v) v).byteSize }

/-- a request whose value can be encoded: a value that fits the inline limit is a plain value of
    the harness, a larger one has an encodable large-value slab -/
def AOp.EncG (T : Nat) : AOp → Prop
  | .insert _ v | .append v | .set _ v =>
    (v.size ≤ maxInlineArr T → validElem v) ∧ (maxInlineArr T < v.size → I.ok v = true)
  | .setType ty => ty < 2 ^ 64
  | _ => True

instance (T : Nat) (op : AOp) : Decidable (AOp.EncG I T op) := by
  cases op <;> (dsimp only [AOp.EncG]; infer_instance)

end Atree.E2E
