import AtreeProofs.HealthSpec
import AtreeProofs.AListLemmas
/-
  C20 helper lemmas, part 1: list facts, `edges`/`targets`, and the exact behaviour of the first
  loop of the health check (`scanRefs`, `scan`, `allResolve`).
-/
namespace Atree
namespace Health

/-! ### list facts -/

theorem subset_of_nodup_length_le {α : Type} {l₁ l₂ : List α} (h₁ : l₁.Nodup) (hsub : l₁ ⊆ l₂)
    (hlen : l₂.length ≤ l₁.length) : l₂ ⊆ l₁ := by
  intro x hx
  apply Classical.byContradiction
  intro hnx
  have hnd : (x :: l₁).Nodup := List.nodup_cons.mpr ⟨hnx, h₁⟩
  have hs : (x :: l₁) ⊆ l₂ := by
    intro y hy
    rcases List.mem_cons.mp hy with rfl | hy
    · exact hx
    · exact hsub hy
  have := hnd.length_le_of_subset hs
  simp at this
  omega

theorem eq_of_nodup_map {α β : Type} (f : α → β) {l : List α} (h : (l.map f).Nodup) {x y : α}
    (hx : x ∈ l) (hy : y ∈ l) (hf : f x = f y) : x = y := by
  induction l with
  | nil => cases hx
  | cons a t ih =>
    rw [List.map_cons, List.nodup_cons] at h
    rcases List.mem_cons.mp hx with hxa | hxt <;> rcases List.mem_cons.mp hy with hya | hyt
    · rw [hxa, hya]
    · subst hxa
      exact absurd (hf ▸ List.mem_map_of_mem hyt) h.1
    · subst hya
      exact absurd (hf ▸ List.mem_map_of_mem hxt) h.1
    · exact ih h.2 hxt hyt

/-! ### edges and targets -/

/-- the referenced slab IDs, in heap order -/
def targets (h : Heap) : List SlabID := (edges h).map (·.2)

theorem targets_def (h : Heap) : (edges h).map (·.2) = targets h := rfl

@[simp] theorem edges_nil : edges [] = [] := rfl

theorem edges_cons (id : SlabID) (s : HSlab) (rest : Heap) :
    edges ((id, s) :: rest) = s.refs.map (fun r => (id, r)) ++ edges rest := by
  simp [edges]

@[simp] theorem targets_nil : targets [] = [] := rfl

theorem targets_cons (id : SlabID) (s : HSlab) (rest : Heap) :
    targets ((id, s) :: rest) = s.refs ++ targets rest := by
  simp [targets, edges_cons, List.map_map, Function.comp_def]

theorem mem_edges (h : Heap) (p c : SlabID) :
    (p, c) ∈ edges h ↔ ∃ s, (p, s) ∈ h ∧ c ∈ s.refs := by
  simp only [edges, List.mem_flatMap, List.mem_map, Prod.mk.injEq]
  constructor
  · rintro ⟨⟨k, s⟩, hm, r, hr, rfl, rfl⟩
    exact ⟨s, hm, hr⟩
  · rintro ⟨s, hm, hr⟩
    exact ⟨(p, s), hm, c, hr, rfl, rfl⟩

theorem mem_edges_find (h : Heap) (hk : (AList.keys h).Nodup) (p c : SlabID) :
    (p, c) ∈ edges h ↔ ∃ s, AList.find? h p = some s ∧ c ∈ s.refs := by
  rw [mem_edges]
  constructor
  · rintro ⟨s, hm, hr⟩
    exact ⟨s, (AList.mem_iff_find? h hk p s).mp hm, hr⟩
  · rintro ⟨s, hm, hr⟩
    exact ⟨s, (AList.mem_iff_find? h hk p s).mpr hm, hr⟩

theorem mem_targets (h : Heap) (c : SlabID) : c ∈ targets h ↔ ∃ p, (p, c) ∈ edges h := by
  simp only [targets, List.mem_map]
  constructor
  · rintro ⟨⟨p, c'⟩, hm, rfl⟩
    exact ⟨p, hm⟩
  · rintro ⟨p, hm⟩
    exact ⟨(p, c), hm, rfl⟩

theorem source_mem_keys (h : Heap) (p c : SlabID) (he : (p, c) ∈ edges h) : p ∈ AList.keys h := by
  obtain ⟨s, hm, _⟩ := (mem_edges h p c).mp he
  exact List.mem_map.mpr ⟨(p, s), hm, rfl⟩

theorem contains_iff_mem_keys (h : Heap) (k : SlabID) :
    AList.contains h k = true ↔ k ∈ AList.keys h := by
  rw [AList.contains_eq, ← AList.find?_ne_none_iff]
  cases AList.find? h k <;> simp

theorem contains_iff_find (h : Heap) (k : SlabID) :
    AList.contains h k = true ↔ ∃ s, AList.find? h k = some s := by
  rw [AList.contains_eq]
  cases AList.find? h k <;> simp

/-- with unique targets every slab has at most one parent -/
theorem parent_unique (h : Heap) (hs : (targets h).Nodup) {a b c : SlabID}
    (ha : (a, c) ∈ edges h) (hb : (b, c) ∈ edges h) : a = b := by
  have := eq_of_nodup_map (fun e : SlabID × SlabID => e.2) (l := edges h) hs ha hb rfl
  exact congrArg Prod.fst this

/-! ### `scanRefs` -/

theorem scanRefs_ok (id : SlabID) (rs : List SlabID) (po po' : AList SlabID SlabID)
    (hok : scanRefs id rs po = .ok po') :
    rs.Nodup ∧ (∀ r ∈ rs, AList.find? po r = none) ∧
      ∀ c, AList.find? po' c = if c ∈ rs then some id else AList.find? po c := by
  induction rs generalizing po with
  | nil =>
    simp only [scanRefs, Except.ok.injEq] at hok
    subst hok
    simp
  | cons r rs ih =>
    rw [scanRefs] at hok
    split at hok
    · cases hok
    · rename_i hc
      obtain ⟨hnd, hnone, hfind⟩ := ih _ hok
      have hr : AList.find? po r = none := by
        rw [AList.contains_eq] at hc
        cases hf : AList.find? po r <;> simp_all
      have hr' : r ∉ rs := by
        intro hmem
        have := hnone r hmem
        rw [AList.find?_insert] at this
        simp at this
      refine ⟨List.nodup_cons.mpr ⟨hr', hnd⟩, ?_, ?_⟩
      · intro x hx
        rcases List.mem_cons.mp hx with rfl | hx
        · exact hr
        · have := hnone x hx
          rw [AList.find?_insert] at this
          split at this
          · cases this
          · exact this
      · intro c
        rw [hfind c, AList.find?_insert]
        by_cases h1 : c ∈ rs
        · simp [h1]
        · by_cases h2 : r = c
          · subst h2; simp [h1]
          · have h3 : ¬ c = r := fun e => h2 e.symm
            simp [h1, h2, h3]

theorem scanRefs_succeeds (id : SlabID) (rs : List SlabID) (po : AList SlabID SlabID)
    (hnd : rs.Nodup) (hnone : ∀ r ∈ rs, AList.find? po r = none) :
    ∃ po', scanRefs id rs po = .ok po' := by
  induction rs generalizing po with
  | nil => exact ⟨po, rfl⟩
  | cons r rs ih =>
    rw [List.nodup_cons] at hnd
    have hr : AList.contains po r = false := by
      rw [AList.contains_eq, hnone r (List.mem_cons_self ..)]; rfl
    rw [scanRefs]
    simp only [hr, Bool.false_eq_true, if_false]
    apply ih _ hnd.2
    intro x hx
    rw [AList.find?_insert]
    have : r ≠ x := fun e => hnd.1 (e ▸ hx)
    simp [this, hnone x (List.mem_cons_of_mem _ hx)]

/-! ### `scan` -/

/-- keys of the slabs without references, in heap order -/
def leavesOf (h : Heap) : List SlabID := (h.filter (fun p => p.2.refs.isEmpty)).map (·.1)

theorem leavesOf_cons (id : SlabID) (s : HSlab) (rest : Heap) :
    leavesOf ((id, s) :: rest) = (if s.refs.isEmpty then [id] else []) ++ leavesOf rest := by
  unfold leavesOf
  by_cases h : s.refs.isEmpty <;> simp [h]

theorem mem_leavesOf (h : Heap) (x : SlabID) :
    x ∈ leavesOf h ↔ ∃ s, (x, s) ∈ h ∧ s.refs = [] := by
  simp only [leavesOf, List.mem_map, List.mem_filter, List.isEmpty_iff]
  constructor
  · rintro ⟨⟨k, s⟩, ⟨hm, he⟩, rfl⟩
    exact ⟨s, hm, he⟩
  · rintro ⟨s, hm, he⟩
    exact ⟨(x, s), ⟨hm, he⟩, rfl⟩

theorem leavesOf_nodup (h : Heap) (hk : (AList.keys h).Nodup) : (leavesOf h).Nodup := by
  unfold leavesOf
  exact List.Nodup.sublist (List.Sublist.map _ List.filter_sublist) hk

theorem scan_ok (h : Heap) (po : AList SlabID SlabID) (lv : List SlabID)
    (po' : AList SlabID SlabID) (lv' : List SlabID) (hok : scan h po lv = .ok (po', lv')) :
    (targets h).Nodup ∧ (∀ t ∈ targets h, AList.find? po t = none) ∧
      (∀ c p, AList.find? po' c = some p ↔ ((p, c) ∈ edges h ∨ AList.find? po c = some p)) ∧
      lv' = lv ++ leavesOf h := by
  induction h generalizing po lv with
  | nil =>
    simp only [scan, Except.ok.injEq, Prod.mk.injEq] at hok
    obtain ⟨rfl, rfl⟩ := hok
    simp [leavesOf]
  | cons e rest ih =>
    obtain ⟨id, s⟩ := e
    rw [scan] at hok
    split at hok
    · cases hok
    · rename_i po1 hsr
      obtain ⟨hnd1, hnone1, hfind1⟩ := scanRefs_ok _ _ _ _ hsr
      obtain ⟨hnd2, hnone2, hfind2, hlv⟩ := ih _ _ hok
      rw [targets_cons]
      refine ⟨?_, ?_, ?_, ?_⟩
      · rw [List.nodup_append]
        refine ⟨hnd1, hnd2, ?_⟩
        rintro a ha b hb rfl
        have := hnone2 a hb
        rw [hfind1 a] at this
        simp [ha] at this
      · intro t ht
        rcases List.mem_append.mp ht with ht | ht
        · exact hnone1 t ht
        · have := hnone2 t ht
          rw [hfind1 t] at this
          split at this
          · cases this
          · exact this
      · intro c p
        rw [hfind2 c p, hfind1 c, edges_cons, List.mem_append, List.mem_map]
        by_cases hc : c ∈ s.refs
        · have hn := hnone1 c hc
          simp only [hc, if_true, Option.some.injEq, hn]
          constructor
          · rintro (h1 | h1)
            · exact Or.inl (Or.inr h1)
            · exact Or.inl (Or.inl ⟨c, hc, by rw [h1]⟩)
          · rintro ((⟨r, _, hr⟩ | h1) | h1)
            · exact Or.inr (by cases hr; rfl)
            · exact Or.inl h1
            · cases h1
        · simp only [hc, if_false]
          constructor
          · rintro (h1 | h1)
            · exact Or.inl (Or.inr h1)
            · exact Or.inr h1
          · rintro ((⟨r, hr, hr'⟩ | h1) | h1)
            · cases hr'; exact absurd hr hc
            · exact Or.inl h1
            · exact Or.inr h1
      · rw [hlv, leavesOf_cons]
        by_cases he : s.refs.isEmpty <;> simp [he]

theorem scan_succeeds (h : Heap) (po : AList SlabID SlabID) (lv : List SlabID)
    (hnd : (targets h).Nodup) (hnone : ∀ t ∈ targets h, AList.find? po t = none) :
    ∃ po' lv', scan h po lv = .ok (po', lv') := by
  induction h generalizing po lv with
  | nil => exact ⟨po, lv, rfl⟩
  | cons e rest ih =>
    obtain ⟨id, s⟩ := e
    rw [targets_cons, List.nodup_append] at hnd
    rw [targets_cons] at hnone
    obtain ⟨po1, h1⟩ := scanRefs_succeeds id s.refs po hnd.1
      (fun r hr => hnone r (List.mem_append_left _ hr))
    obtain ⟨_, _, hfind1⟩ := scanRefs_ok _ _ _ _ h1
    rw [scan, h1]
    apply ih _ _ hnd.2.1
    intro t ht
    rw [hfind1 t]
    have : t ∉ s.refs := fun hm => hnd.2.2 t hm t ht rfl
    simp [this, hnone t (List.mem_append_right _ ht)]

/-! ### `allResolve` -/

theorem allResolve_iff (h : Heap) (po : AList SlabID SlabID) :
    allResolve h po = true ↔ ∀ c p, AList.find? po c = some p → AList.contains h c = true := by
  unfold allResolve
  rw [List.all_eq_true]
  constructor
  · intro hall c p hf
    have hc : c ∈ AList.keys po := by
      rw [← AList.find?_ne_none_iff, hf]; simp
    obtain ⟨⟨c', p'⟩, hm, rfl⟩ := List.mem_map.mp hc
    exact hall _ hm
  · rintro hall ⟨c, p⟩ hm
    have hc : c ∈ AList.keys po := List.mem_map.mpr ⟨(c, p), hm, rfl⟩
    rw [← AList.find?_ne_none_iff] at hc
    cases hf : AList.find? po c with
    | none => exact absurd hf hc
    | some p' => exact hall c p' hf

end Health
end Atree
