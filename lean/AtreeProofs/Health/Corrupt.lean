import AtreeProofs.Health.Check
/-
  C20 helper lemmas, part 5: facts about corrupted heaps (a slab erased, a slab added).
-/
namespace Atree
namespace Health

theorem keys_nodup_cons (h : Heap) (hk : (AList.keys h).Nodup) (id : SlabID) (s : HSlab)
    (hnew : AList.contains h id = false) : (AList.keys ((id, s) :: h)).Nodup := by
  rw [AList.keys_cons, List.nodup_cons]
  refine ⟨?_, hk⟩
  intro hm
  rw [← contains_iff_mem_keys, hnew] at hm
  cases hm

theorem mem_edges_erase (h : Heap) (id p c : SlabID) (he : (p, c) ∈ edges h) (hne : p ≠ id) :
    (p, c) ∈ edges (AList.erase h id) := by
  obtain ⟨s, hm, hc⟩ := (mem_edges h p c).mp he
  refine (mem_edges _ p c).mpr ⟨s, ?_, hc⟩
  unfold AList.erase
  rw [List.mem_filter]
  exact ⟨hm, by simpa using hne⟩

theorem contains_erase_self (h : Heap) (id : SlabID) : AList.contains (AList.erase h id) id = false := by
  rw [AList.contains_eq, AList.find?_erase]
  simp

theorem contains_cons (h : Heap) (id : SlabID) (s : HSlab) (x : SlabID) :
    AList.contains ((id, s) :: h) x = true ↔ (x = id ∨ AList.contains h x = true) := by
  rw [AList.contains_eq, AList.contains_eq, AList.find?_cons]
  by_cases hx : id = x
  · simp [hx]
  · have : ¬ x = id := fun e => hx e.symm
    simp [hx, this]

/-- a healthy heap has no slab that references itself -/
theorem no_self_loop {h : Heap} {R : List SlabID} (hh : Healthy h R) (x : SlabID) :
    (x, x) ∉ edges h := by
  intro he
  have hx : AList.contains h x = true := hh.resolves _ he
  obtain ⟨r, hr, hreach⟩ := hh.reach x hx
  have key : ∀ y, Reach h r y → y = x → r = x := by
    intro y hy
    induction hy with
    | refl => exact id
    | @step b c _ hbc ih =>
      rintro rfl
      exact ih (parent_unique h hh.single hbc he)
  have := key x hreach rfl
  subst this
  exact ((hh.roots_iff r).mp hr).2 ((mem_targets h r).mpr ⟨r, he⟩)

end Health
end Atree
