import AtreeProofs.Health.Storage
import AtreeProofs.Health.MapHistory
/-
  C20 helper lemmas, part 9: END TO END for one ordered map (the analogue of
  `E2E.array_history_storage_check`): after any valid history the slab iterator followed by the
  checks accepts the storage and returns the map's root and the unreferenced large-value slabs.
-/
namespace Atree
namespace E2EM
open Atree.Health

variable {r : Nat} {β : Type}

theorem runS_cache_h (c : Codec (MSSlab r) β) (cfg : MCfg) :
    ∀ (ops : List MOp) (x : (OMap r × Ctx) × St (MSSlab r) β), (runS c cfg x ops).2.cache = x.2.cache
  | [], _ => rfl
  | op :: ops, x => by
    show (runS c cfg (stepS c cfg x op) ops).2.cache = x.2.cache
    rw [runS_cache_h c cfg ops]
    exact (applyEffs_frame c x.2 _ _).1

/-- From any state of a run (`MGoodF`, `RefsUniqueM`) whose storage has all slabs loaded and holds
    nothing outside the map's address. -/
theorem map_state_storage_check (c : Codec (MSSlab r) β) (T : Nat) (D : DigestFn (r + 1)) (cfg : MCfg)
    (x : (OMap r × Ctx) × St (MSSlab r) β) (hg : MGoodF c T D cfg x) (hu : RefsUniqueM x.1)
    (hall : AllLoaded x.2) (hother : ∀ id, id.addr ≠ x.1.1.addr → x.2.view c id = none)
    (expected : Option Nat)
    (hn : ∀ n, expected = some n → (rootsOf (mapHeap x.1.1 x.1.2.created)).length = n) :
    ∃ R, checkStorage c MSSlab.toH x.2 expected = .ok R ∧
      (∀ id, id ∈ R ↔ (id = x.1.1.rootID ∨
        (id ∈ x.1.2.created.map (·.1) ∧ id ∉ valRefs x.1.1.toList))) := by
  obtain ⟨hk, hh, hroots, hview⟩ := map_state_healthy c T D cfg x hg hu
  have hview' : ∀ id, (x.2.view c id).map (MSSlab.toH id) = AList.find? (mapHeap x.1.1 x.1.2.created) id := by
    intro id
    by_cases ha : id.addr = x.1.1.addr
    · exact hview id ha
    · rw [hother id ha]
      symm
      rw [Option.map_none, AList.find?_eq_none_iff]
      intro hm
      rw [keys_mapHeap, List.mem_append] at hm
      rcases hm with hm | hm
      · exact ha (hg.aok id hm)
      · obtain ⟨p, hp, rfl⟩ := List.mem_map.mp hm
        exact ha (hg.caddr p hp)
  obtain ⟨R, hok, hmem, _⟩ := checkStorage_accepts c MSSlab.toH x.2 hg.st.deltasNodup hg.st.cacheNodup
    hall _ _ hk hh hview' expected hn
  exact ⟨R, hok, fun id => (hmem id).trans (hroots id)⟩

/-- END TO END, one ordered map: after ANY valid history starting with `NewMap` on an empty storage
    (set / remove / popIterate / setType, keys and digests of any kind the map theorems admit, values
    of any size), `CheckStorageHealth` - the slab iterator over write set and cache followed by the
    checks - ACCEPTS the storage and returns exactly the map's root slab and the large-value slabs no
    entry refers to any more.  External collision-group slabs are slabs of the tree (referenced from
    their data slab). -/
theorem map_history_storage_check (c : Codec (MSSlab r) β) (hc : RoundTrip c) (T : Nat)
    (hT : legalThreshold T = true) (D : DigestFn (r + 1)) (cfg : MCfg) (hcT : cfg.T = T)
    (hcL : cfg.L = r + 1) (haddr : cfg.addr ≠ 0) (ty : Nat) (seedOf : SlabID → Nat)
    (ops : List MOp) (hops : ∀ op ∈ ops, op.Ok T D) :
    let x := runS c cfg (newS c cfg.addr ty seedOf) ops
    let h := mapHeap x.1.1 x.1.2.created
    (∃ R, checkStorage c MSSlab.toH x.2 none = .ok R ∧
      (∀ id, id ∈ R ↔ (id = ⟨cfg.addr, 1⟩ ∨
        (id ∈ x.1.2.created.map (·.1) ∧ id ∉ valRefs x.1.1.toList)))) ∧
    (∃ R, checkStorage c MSSlab.toH x.2 (some (rootsOf h).length) = .ok R ∧
      (∀ id, id ∈ R ↔ (id = ⟨cfg.addr, 1⟩ ∨
        (id ∈ x.1.2.created.map (·.1) ∧ id ∉ valRefs x.1.1.toList)))) := by
  intro x h
  obtain ⟨g0, r0, _⟩ := mgoodF_new c hc T hT D cfg hcT hcL haddr ty seedOf
  obtain ⟨hg, hu⟩ := refsUniqueM_runS c hc T hT D cfg ops (newS c cfg.addr ty seedOf) g0
    (refsUniqueM_new c cfg.addr ty seedOf) hops
  obtain ⟨_, _, hroot, _⟩ := mgoodF_runS c hc T hT D cfg ops (newS c cfg.addr ty seedOf) g0 hops
  have hrootID : x.1.1.rootID = ⟨cfg.addr, 1⟩ := hroot.trans r0
  have hbase : x.2.base = [] := by
    show (runS c cfg (newS c cfg.addr ty seedOf) ops).2.base = []
    rw [runS_base c cfg ops]
    exact (applyEffs_frame c St.init _ _).2
  have hcache : x.2.cache = [] := by
    show (runS c cfg (newS c cfg.addr ty seedOf) ops).2.cache = []
    rw [runS_cache_h c cfg ops]
    exact (applyEffs_frame c St.init _ _).1
  have hall : AllLoaded x.2 := by
    intro id hid
    rw [hbase] at hid
    cases hid
  have hother : ∀ id, id.addr ≠ x.1.1.addr → x.2.view c id = none := by
    intro id hne
    unfold St.view
    rw [hcache, hbase]
    cases hd : AList.find? x.2.deltas id with
    | none => rfl
    | some o =>
      cases o with
      | none => rfl
      | some v => exact absurd (hg.pend id v hd) hne
  obtain ⟨R, hok, hmem⟩ := map_state_storage_check c T D cfg x hg hu hall hother none
    (fun n hn => by cases hn)
  obtain ⟨R', hok', hmem'⟩ := map_state_storage_check c T D cfg x hg hu hall hother
    (some (rootsOf h).length) (fun n hn => by cases hn; rfl)
  exact ⟨⟨R, hok, fun id => by rw [hmem id, hrootID]⟩, ⟨R', hok', fun id => by rw [hmem' id, hrootID]⟩⟩

/-! ### Non-vacuity -/
section NonVacuity
open MapExample

/-- `mhist` (Props/E2EMap.lean): index slab 7.1 over data slabs 7.3 and 7.4, external collision
    group 7.2 referenced from 7.3, large-value slab 7.5 referenced from 7.4 -/
example : Health.checkStorage idCodecM MSSlab.toH xM.2 (some 1) = .ok [⟨7, 1⟩] := by decide
example : Health.checkStorage idCodecM MSSlab.toH xM.2 (some 0) = .error .rootCount := by decide
example := map_history_storage_check idCodecM idCodecM_roundTrip 256 legal256 D2 cfg2 rfl rfl (by decide) 0
    (fun id => id.idx) mhist mhist_ok
/-- deleting the external collision-group slab makes the pipeline fail -/
example : Health.checkStorage idCodecM MSSlab.toH (St.run idCodecM xM.2 [.remove ⟨7, 2⟩]) none
    = .error .slabNotFound := by decide

end NonVacuity

end E2EM
end Atree
