import AtreeProofs.Health.ArrayHeap
import AtreeProofs.MapHeapSpec
import AtreeProofs.MapInv
import AtreeProofs.Map.EffectsTop
import AtreeProofs.Map.Example
/-
  C20 for ordered maps, part 1: the heap (`Health.Heap`) of ONE map — the slabs of its tree (data
  slabs, index slabs, external collision-group slabs) plus its large-value slabs — is `Healthy`,
  and its roots are the map's root slab and the large-value slabs no value refers to any more.

  The references of a stored map slab are defined the way `ChildStorables` finds them
  (`MSlabView.refs`):
  * data slab: for every first-level element — `.single e`: the `.ref` payload of the value of `e`
    (a key `MKey` has a plain payload `pay : Nat`, the type does not allow a reference there);
    `.inl g`: the references inside the inline group `g`, recursively through `MElems r`;
    `.ext id _ _`: the ID `id` of the external collision-group slab;
  * index slab: the IDs of the child headers;
  * collision-group slab: the references inside its elements.
  The type `MElems r` allows `.ext` below the first level; `MElems.refs` treats it as a reference to
  its ID there as well.  The invariant excludes it (`ElemsInv`: `.ext` only at `level = 0`, used here
  through `firstOk_of_inv` / `NoExt`).

  `mapHeap_healthy` is stated on a single map value (`MapInv`, `MIdsOk`, owner addresses + facts
  about the value references and the created large-value slabs);
  `AtreeProofs/Health/MapHistory.lean` discharges these hypotheses for every map produced by a
  valid history.
-/
namespace Atree
open Gen

/-- the slab references in one key/value pair (`singleElement`): those of the value; the key of
    the model (`MKey`, payload `Nat`) cannot be a reference -/
def SElem.refs (e : SElem) : List SlabID := Health.elemRefs [e.val]

/-- the slab references `ChildStorables` finds in one element, given those of a nested group -/
def MElemF.refs {α : Type} (f : α → List SlabID) : MElemF α → List SlabID
  | .single e => e.refs
  | .inl g => f g
  | .ext id _ _ => [id]

/-- the slab references inside `elements` with `r` digest levels left -/
def MElems.refs : (r : Nat) → MElems r → List SlabID
  | 0, (e : SingleElems) => e.elems.flatMap SElem.refs
  | r + 1, (e : HkeyElems (MElems r)) => e.elems.flatMap (MElemF.refs (MElems.refs r))

/-- the slab references `ChildStorables` finds in one stored map slab -/
def MSlabView.refs {r : Nat} : MSlabView r → List SlabID
  | .data s => MElems.refs (r + 1) s.elems
  | .index _ chs _ => chs.map (·.id)
  | .group g => MElems.refs r g.elems

namespace Health

variable {r : Nat}

/-- the slab references among the values of a list of key/value pairs, in order -/
def valRefs (l : List (MKey × Elem)) : List SlabID := elemRefs (l.map (·.2))

/-- the heap of one map: the slabs of its tree (external collision groups included) and its
    large-value slabs (which reference nothing) -/
def mapHeap (m : OMap r) (created : List (SlabID × Elem)) : Heap :=
  (MTree.slabs m.d m.root).map (fun p => (p.1, ⟨p.1, p.2.refs⟩)) ++ created.map (fun p => (p.1, ⟨p.1, []⟩))

/-! ### `valRefs` -/

theorem valRefs_nil : valRefs [] = [] := rfl

theorem valRefs_append (l₁ l₂ : List (MKey × Elem)) : valRefs (l₁ ++ l₂) = valRefs l₁ ++ valRefs l₂ := by
  unfold valRefs; rw [List.map_append, elemRefs_append]

theorem valRefs_cons (p : MKey × Elem) (l : List (MKey × Elem)) :
    valRefs (p :: l) = elemRefs [p.2] ++ valRefs l := by
  unfold valRefs; rw [List.map_cons, ← elemRefs_append]; rfl

theorem valRefs_flatMap {α : Type} (L : List α) (f : α → List (MKey × Elem)) :
    valRefs (L.flatMap f) = L.flatMap (fun x => valRefs (f x)) := by
  induction L with
  | nil => rfl
  | cons x L ih => rw [List.flatMap_cons, List.flatMap_cons, valRefs_append, ih]

theorem mem_valRefs (l : List (MKey × Elem)) (y : SlabID) :
    y ∈ valRefs l ↔ ∃ p ∈ l, p.2.pay = .ref y := by
  unfold valRefs
  rw [mem_elemRefs]
  constructor
  · rintro ⟨e, he, h⟩
    obtain ⟨p, hp, rfl⟩ := List.mem_map.1 he
    exact ⟨p, hp, h⟩
  · rintro ⟨p, hp, h⟩
    exact ⟨p.2, List.mem_map_of_mem hp, h⟩

/-! ### references inside elements without external groups = value references -/

theorem single_refs_eq (e : SingleElems) :
    MElems.refs 0 e = valRefs ((MElems.ops 0).toList e) := by
  show e.elems.flatMap SElem.refs = valRefs (e.elems.map (fun x => (x.key, x.val)))
  generalize e.elems = l
  induction l with
  | nil => rfl
  | cons x l ih => rw [List.flatMap_cons, List.map_cons, valRefs_cons, ih]; rfl

/-- without external groups, the references inside `elements` are the value references of its
    key/value pairs -/
theorem melems_refs_eq : ∀ (r : Nat) (e : MElems r), NoExt r e →
    MElems.refs r e = valRefs ((MElems.ops r).toList e)
  | 0, e, _ => single_refs_eq e
  | r + 1, (e : HkeyElems (MElems r)), h => by
    show e.elems.flatMap (MElemF.refs (MElems.refs r))
      = valRefs (e.elems.flatMap (fun el => el.toList (MElems.ops r)))
    rw [valRefs_flatMap]
    have h' : ∀ el ∈ e.elems, ElP (NoExt r) el := h
    generalize e.elems = l at h'
    induction l with
    | nil => rfl
    | cons el l ih =>
      rw [List.flatMap_cons, List.flatMap_cons, ih (fun x hx => h' x (List.mem_cons_of_mem _ hx))]
      congr 1
      have hel := h' el List.mem_cons_self
      cases el with
      | single x => show elemRefs [x.val] = valRefs [(x.key, x.val)]; rfl
      | inl g => exact melems_refs_eq r g hel
      | ext id sz s => exact absurd hel (by simp [ElP])

/-! ### a data slab and its external collision groups -/

/-- the group slabs referenced from a list of first-level elements (as `MDataSlab.groupSlabs`) -/
def gslabs (l : List (MElemF (MElems r))) : List (SlabID × MSlabView r) :=
  l.filterMap (fun el =>
    match el with
    | .ext id _ g => some (id, .group g)
    | _ => none)

theorem groupSlabs_eq_gslabs (s : MDataSlab r) : s.groupSlabs = gslabs s.elems.elems := rfl

theorem perm_swap3 {α : Type} (a K V : List α) : (a ++ (K ++ V)).Perm (K ++ (a ++ V)) := by
  rw [← List.append_assoc, ← List.append_assoc]
  exact List.Perm.append_right V List.perm_append_comm

/-- The references found in a data slab and in its group slabs are: one reference to each group
    slab, and the value references of its key/value pairs. -/
theorem first_refs_perm : ∀ (l : List (MElemF (MElems r))), (∀ el ∈ l, FirstOk (NoExt r) el) →
    (l.flatMap (MElemF.refs (MElems.refs r)) ++ (gslabs l).flatMap (fun p => p.2.refs)).Perm
      (AList.keys (gslabs l) ++ valRefs (l.flatMap (fun el => el.toList (MElems.ops r))))
  | [], _ => List.Perm.refl _
  | el :: l, h => by
    have ih := first_refs_perm l (fun x hx => h x (List.mem_cons_of_mem _ hx))
    have hel := h el List.mem_cons_self
    rw [List.flatMap_cons, List.flatMap_cons, valRefs_append]
    cases el with
    | single x =>
      have hg : gslabs (MElemF.single x :: l) = gslabs l := by simp [gslabs]
      rw [hg, List.append_assoc]
      show (elemRefs [x.val] ++ _).Perm (_ ++ (valRefs [(x.key, x.val)] ++ _))
      exact ((List.Perm.refl _).append ih).trans (perm_swap3 _ _ _)
    | inl g =>
      have hg : gslabs (MElemF.inl g :: l) = gslabs l := by simp [gslabs]
      rw [hg, List.append_assoc]
      show (MElems.refs r g ++ _).Perm (_ ++ (valRefs ((MElems.ops r).toList g) ++ _))
      rw [melems_refs_eq r g hel]
      exact ((List.Perm.refl _).append ih).trans (perm_swap3 _ _ _)
    | ext id sz s =>
      have hg : gslabs (MElemF.ext id sz s :: l) = (id, .group s) :: gslabs l := by simp [gslabs]
      rw [hg, List.flatMap_cons, keys_cons']
      show (([id] ++ _) ++ (MElems.refs r s.elems ++ _)).Perm
        ((id :: _) ++ (valRefs ((MElems.ops r).toList s.elems) ++ _))
      rw [melems_refs_eq r s.elems hel.2, List.append_assoc, List.singleton_append, List.cons_append]
      refine List.Perm.cons id ?_
      refine (perm_swap3 _ _ _).trans ?_
      exact ((List.Perm.refl _).append ih).trans (perm_swap3 _ _ _)

/-- a group slab of a data slab is referenced from the data slab -/
theorem mem_refs_of_mem_gslabs (l : List (MElemF (MElems r))) (id : SlabID)
    (h : id ∈ AList.keys (gslabs l)) : id ∈ l.flatMap (MElemF.refs (MElems.refs r)) := by
  induction l with
  | nil => simp [gslabs, AList.keys] at h
  | cons el l ih =>
    rw [List.flatMap_cons, List.mem_append]
    cases el with
    | single x =>
      have hg : gslabs (MElemF.single x :: l) = gslabs l := by simp [gslabs]
      rw [hg] at h; exact Or.inr (ih h)
    | inl g =>
      have hg : gslabs (MElemF.inl g :: l) = gslabs l := by simp [gslabs]
      rw [hg] at h; exact Or.inr (ih h)
    | ext id' sz s =>
      have hg : gslabs (MElemF.ext id' sz s :: l) = (id', .group s) :: gslabs l := by simp [gslabs]
      rw [hg, keys_cons', List.mem_cons] at h
      rcases h with rfl | h
      · left; show id ∈ [id]; simp
      · exact Or.inr (ih h)

/-! ### the two parts of the heap -/

/-- the tree part -/
def toHM (S : List (SlabID × MSlabView r)) : Heap := S.map (fun p => (p.1, ⟨p.1, p.2.refs⟩))

theorem mapHeap_eq (m : OMap r) (created : List (SlabID × Elem)) :
    mapHeap m created = toHM (MTree.slabs m.d m.root) ++ crH created := rfl

theorem keys_toHM (S : List (SlabID × MSlabView r)) : AList.keys (toHM S) = AList.keys S := by
  simp [toHM, AList.keys, List.map_map, Function.comp_def]

theorem targets_toHM (S : List (SlabID × MSlabView r)) :
    targets (toHM S) = S.flatMap (fun p => p.2.refs) := by
  induction S with
  | nil => rfl
  | cons p S ih =>
    show targets ((p.1, ⟨p.1, p.2.refs⟩) :: toHM S) = _
    rw [targets_cons, ih, List.flatMap_cons]

theorem mem_edges_toHM (S : List (SlabID × MSlabView r)) (p q : SlabID) :
    (p, q) ∈ edges (toHM S) ↔ ∃ s, (p, s) ∈ S ∧ q ∈ s.refs := by
  rw [mem_edges]
  unfold toHM
  constructor
  · rintro ⟨hs, hm, hq⟩
    rw [List.mem_map] at hm
    obtain ⟨⟨k, s⟩, hks, heq⟩ := hm
    simp only [Prod.mk.injEq] at heq
    obtain ⟨rfl, rfl⟩ := heq
    exact ⟨s, hks, hq⟩
  · rintro ⟨s, hm, hq⟩
    exact ⟨⟨p, s.refs⟩, List.mem_map.mpr ⟨(p, s), hm, rfl⟩, hq⟩

theorem edges_mapHeap (m : OMap r) (created : List (SlabID × Elem)) :
    edges (mapHeap m created) = edges (toHM (MTree.slabs m.d m.root)) := by
  rw [mapHeap_eq, edges_append, edges_crH, List.append_nil]

theorem targets_mapHeap (m : OMap r) (created : List (SlabID × Elem)) :
    targets (mapHeap m created) = (MTree.slabs m.d m.root).flatMap (fun p => p.2.refs) := by
  rw [mapHeap_eq, targets_append, targets_crH, List.append_nil, targets_toHM]

theorem keys_mapHeap (m : OMap r) (created : List (SlabID × Elem)) :
    AList.keys (mapHeap m created) = AList.keys (MTree.slabs m.d m.root) ++ created.map (·.1) := by
  rw [mapHeap_eq, Health.keys_append, keys_toHM, keys_crH]

/-- every slab of the heap records its own key as its ID -/
theorem self_of_mem_mapHeap (m : OMap r) (created : List (SlabID × Elem)) :
    ∀ p ∈ mapHeap m created, p.2.self = p.1 := by
  intro p hp
  unfold mapHeap at hp
  rcases List.mem_append.1 hp with h | h
  · obtain ⟨q, _, rfl⟩ := List.mem_map.1 h; rfl
  · obtain ⟨q, _, rfl⟩ := List.mem_map.1 h; rfl

/-! ### the references of a tree -/

/-- all references found in the slabs of a tree, in heap order -/
def mtreeTargets (d : Nat) (t : MTree r d) : List SlabID := (MTree.slabs d t).flatMap (fun p => p.2.refs)

theorem mtreeTargets_zero (s : MDataSlab r) :
    mtreeTargets 0 s = s.elems.elems.flatMap (MElemF.refs (MElems.refs r))
      ++ (gslabs s.elems.elems).flatMap (fun p => p.2.refs) := by
  unfold mtreeTargets
  rw [mslabs_zero, List.flatMap_cons]
  rfl

theorem mtreeTargets_succ (d : Nat) (m : MMetaSlab (MTree r d)) :
    mtreeTargets (d + 1) m = m.childHdrs.map (·.id) ++ m.children.flatMap (mtreeTargets d) := by
  unfold mtreeTargets
  rw [mslabs_succ, List.flatMap_cons, List.flatMap_assoc]
  rfl

theorem keys_msub_succ (d : Nat) (m : MMetaSlab (MTree r d)) :
    AList.keys (msub (d + 1) m)
      = m.children.flatMap (fun c => [(MTree.hdr d c).id] ++ AList.keys (msub d c)) := by
  rw [msub_succ]
  refine keys_flatMap _ _ _ ?_
  intro c _
  rw [mslabs_eq, keys_cons']
  rfl

/-- The references of a tree are: one reference to each slab below the root (child headers, group
    references), and the value references. -/
theorem mtreeTargets_perm (T : Nat) (D : DigestFn (r + 1)) :
    ∀ (d : Nat) (top : Bool) (t : MTree r d), MTreeInv T D d top t →
    (mtreeTargets d t).Perm (AList.keys (msub d t) ++ valRefs (MTree.toList d t))
  | 0, top, (s : MDataSlab r), hinv => by
    have hF := firstOk_of_inv ((mtreeInv_zero_iff T D top s).mp hinv).elems_inv
    rw [mtreeTargets_zero, msub_zero, groupSlabs_eq_gslabs]
    exact first_refs_perm s.elems.elems hF
  | d + 1, top, (m : MMetaSlab (MTree r d)), hinv => by
    have hm := ((mtreeInv_succ_iff T D d top m).mp hinv).1
    have hhdrs : m.childHdrs = m.children.map (MTree.hdr d) := hm.2.1
    have hkids : ∀ c ∈ m.children, MTreeInv T D d false c := hm.2.2.2.2.1
    have htl : MTree.toList (d + 1) m = m.children.flatMap (MTree.toList d) := rfl
    rw [mtreeTargets_succ, keys_msub_succ, hhdrs, List.map_map, htl, valRefs_flatMap]
    have ih : (m.children.flatMap (mtreeTargets d)).Perm
        (m.children.flatMap (fun c => AList.keys (msub d c) ++ valRefs (MTree.toList d c))) :=
      flatMap_perm_congr _ _ _ (fun c hc => mtreeTargets_perm T D d false c (hkids c hc))
    have h2 := flatMap_append_perm' m.children (fun c => AList.keys (msub d c))
      (fun c => valRefs (MTree.toList d c))
    have h3 : (m.children.flatMap (fun c => [(MTree.hdr d c).id] ++ AList.keys (msub d c))).Perm
        (m.children.map (fun c => (MTree.hdr d c).id) ++ m.children.flatMap (fun c => AList.keys (msub d c))) := by
      refine (flatMap_append_perm' m.children (fun c => [(MTree.hdr d c).id])
        (fun c => AList.keys (msub d c))).trans ?_
      rw [← List.map_eq_flatMap]
    refine ((List.Perm.refl _).append (ih.trans h2)).trans ?_
    rw [← List.append_assoc]
    exact List.Perm.append_right _ h3.symm

/-- every slab of a tree (external collision groups included) is reachable from its root in any
    heap containing the tree's edges -/
theorem reach_mtree (T : Nat) (D : DigestFn (r + 1)) (h : Heap) :
    ∀ (d : Nat) (top : Bool) (t : MTree r d), MTreeInv T D d top t →
    (∀ p s, (p, s) ∈ MTree.slabs d t → ∀ q ∈ s.refs, (p, q) ∈ edges h) →
    ∀ r0, Reach h r0 (MTree.hdr d t).id → ∀ id ∈ AList.keys (MTree.slabs d t), Reach h r0 id
  | 0, top, (s : MDataSlab r), _, hed, r0, hr, id, hid => by
    rw [mslabs_zero, keys_cons', List.mem_cons] at hid
    rcases hid with rfl | hid
    · exact hr
    · have hroot : (s.hdr.id, MSlabView.data s) ∈ MTree.slabs 0 s := by
        rw [mslabs_zero]; exact List.mem_cons_self
      refine Reach.step hr (hed _ _ hroot id ?_)
      exact mem_refs_of_mem_gslabs s.elems.elems id hid
  | d + 1, top, (m : MMetaSlab (MTree r d)), hinv, hed, r0, hr, id, hid => by
    have hm := ((mtreeInv_succ_iff T D d top m).mp hinv).1
    have hhdrs : m.childHdrs = m.children.map (MTree.hdr d) := hm.2.1
    have hkids : ∀ c ∈ m.children, MTreeInv T D d false c := hm.2.2.2.2.1
    rw [mslabs_succ, keys_cons', List.mem_cons] at hid
    rcases hid with rfl | hid
    · exact hr
    · have hid' : id ∈ m.children.flatMap (fun c => AList.keys (MTree.slabs d c)) := by
        rw [← keys_flatMap _ _ _ (fun _ _ => rfl)]; exact hid
      obtain ⟨c, hc, hidc⟩ := List.mem_flatMap.1 hid'
      have hroot : (m.hdr.id, MSlabView.index m.hdr m.childHdrs m.root) ∈ MTree.slabs (d + 1) m := by
        rw [mslabs_succ]; exact List.mem_cons_self
      have hedge : (m.hdr.id, (MTree.hdr d c).id) ∈ edges h := by
        refine hed _ _ hroot _ ?_
        show (MTree.hdr d c).id ∈ m.childHdrs.map (·.id)
        rw [hhdrs, List.map_map]
        exact List.mem_map.mpr ⟨c, hc, rfl⟩
      refine reach_mtree T D h d false c (hkids c hc) ?_ r0 (Reach.step hr hedge) id hidc
      intro p s hps q hq
      refine hed p s ?_ q hq
      rw [mslabs_succ]
      exact List.mem_cons_of_mem _ (List.mem_flatMap.mpr ⟨c, hc, hps⟩)

/-! ### the heap of one map is healthy -/

/-- THE HEAP OF ONE MAP IS HEALTHY.  For a map satisfying the map invariant whose slab IDs (data
    slabs, index slabs, external collision-group slabs) are pairwise distinct and owned by the
    map's address, whose value references point to distinct large-value slabs among `created`, the
    `created` slabs having distinct IDs at the map's address outside the tree: the heap made of
    the tree's slabs and the large-value slabs has unique keys and is `Healthy`; its roots are the
    map's root slab and the large-value slabs no value refers to. -/
theorem mapHeap_healthy (T : Nat) (D : DigestFn (r + 1)) (m : OMap r) (created : List (SlabID × Elem))
    (hinv : MapInv T D m) (hids : MIdsOk m)
    (haok : ∀ id ∈ AList.keys (MTree.slabs m.d m.root), id.addr = m.addr)
    (hrefs : ∀ p ∈ m.toList, ∀ y, p.2.pay = .ref y → y ∈ created.map (·.1))
    (hnd : (valRefs m.toList).Nodup)
    (hcnd : (created.map (·.1)).Nodup)
    (hcr : ∀ p ∈ created, p.1.addr = m.addr ∧ p.1 ∉ AList.keys (MTree.slabs m.d m.root)) :
    (AList.keys (mapHeap m created)).Nodup ∧
    Healthy (mapHeap m created) (rootsOf (mapHeap m created)) ∧
    (∀ id, id ∈ rootsOf (mapHeap m created) ↔
      (id = m.rootID ∨ (id ∈ created.map (·.1) ∧ id ∉ valRefs m.toList))) := by
  -- basic facts
  have hidsN : (AList.keys (MTree.slabs m.d m.root)).Nodup := hids
  have hidsEq : AList.keys (MTree.slabs m.d m.root) = m.rootID :: AList.keys (msub m.d m.root) := by
    rw [mslabs_eq, keys_cons']; rfl
  have hcrOut : ∀ y ∈ created.map (·.1), y ∉ AList.keys (MTree.slabs m.d m.root) := by
    intro y hy
    obtain ⟨p, hp, rfl⟩ := List.mem_map.1 hy
    exact (hcr p hp).2
  have hcrAddr : ∀ y ∈ created.map (·.1), y.addr = m.addr := by
    intro y hy
    obtain ⟨p, hp, rfl⟩ := List.mem_map.1 hy
    exact (hcr p hp).1
  have hrefsIn : ∀ y ∈ valRefs m.toList, y ∈ created.map (·.1) := by
    intro y hy
    obtain ⟨p, hp, hpay⟩ := (mem_valRefs _ y).1 hy
    exact hrefs p hp y hpay
  have hperm : (targets (mapHeap m created)).Perm (AList.keys (msub m.d m.root) ++ valRefs m.toList) := by
    rw [targets_mapHeap]
    exact mtreeTargets_perm T D m.d true m.root hinv.tree
  have hmemT : ∀ y, y ∈ targets (mapHeap m created) ↔
      (y ∈ AList.keys (msub m.d m.root) ∨ y ∈ valRefs m.toList) := by
    intro y; rw [hperm.mem_iff, List.mem_append]
  have hkeys := keys_mapHeap m created
  have hmemK : ∀ y, AList.contains (mapHeap m created) y = true ↔
      (y ∈ AList.keys (MTree.slabs m.d m.root) ∨ y ∈ created.map (·.1)) := by
    intro y; rw [contains_iff_mem_keys, hkeys, List.mem_append]
  have hkAddr : ∀ y, AList.contains (mapHeap m created) y = true → y.addr = m.addr := by
    intro y hy
    rcases (hmemK y).1 hy with h | h
    · exact haok y h
    · exact hcrAddr y h
  have hknd : (AList.keys (mapHeap m created)).Nodup := by
    rw [hkeys, List.nodup_append]
    refine ⟨hidsN, hcnd, ?_⟩
    rintro x hx y hy rfl
    exact hcrOut x hy hx
  have hres : ∀ e ∈ edges (mapHeap m created), AList.contains (mapHeap m created) e.2 = true := by
    intro e he
    have : e.2 ∈ targets (mapHeap m created) := List.mem_map_of_mem he
    rw [hmemK]
    rcases (hmemT e.2).1 this with h | h
    · left; rw [hidsEq]; exact List.mem_cons_of_mem _ h
    · exact Or.inr (hrefsIn _ h)
  have hsubnd : (AList.keys (msub m.d m.root)).Nodup := by
    rw [hidsEq, List.nodup_cons] at hidsN; exact hidsN.2
  have hrootNot : m.rootID ∉ AList.keys (msub m.d m.root) := by
    rw [hidsEq, List.nodup_cons] at hidsN; exact hidsN.1
  have hsingle : ((edges (mapHeap m created)).map (·.2)).Nodup := by
    rw [targets_def, hperm.nodup_iff, List.nodup_append]
    refine ⟨hsubnd, hnd, ?_⟩
    rintro x hx y hy rfl
    exact hcrOut x (hrefsIn x hy) (by rw [hidsEq]; exact List.mem_cons_of_mem _ hx)
  have hself := self_of_mem_mapHeap m created
  have hroots : ∀ id, id ∈ rootsOf (mapHeap m created) ↔
      (id = m.rootID ∨ (id ∈ created.map (·.1) ∧ id ∉ valRefs m.toList)) := by
    intro id
    rw [mem_rootsOf, targets_def, hmemK, hmemT, hidsEq, List.mem_cons]
    constructor
    · rintro ⟨(h1 | h1) | h1, h2⟩
      · exact Or.inl h1
      · exact absurd (Or.inl h1) h2
      · exact Or.inr ⟨h1, fun h3 => h2 (Or.inr h3)⟩
    · rintro (rfl | ⟨h1, h2⟩)
      · refine ⟨Or.inl (Or.inl rfl), ?_⟩
        rintro (h3 | h3)
        · exact hrootNot h3
        · exact hcrOut _ (hrefsIn _ h3) (by rw [hidsEq]; exact List.mem_cons_self)
      · refine ⟨Or.inr h1, ?_⟩
        rintro (h3 | h3)
        · exact hcrOut _ h1 (by rw [hidsEq]; exact List.mem_cons_of_mem _ h3)
        · exact h2 h3
  refine ⟨hknd, ⟨hres, hsingle, ?_, mem_rootsOf _, List.Nodup.sublist List.filter_sublist hknd, ?_⟩, hroots⟩
  · -- owner
    intro e he p c hp hc
    rw [self_of_find hself hp, self_of_find hself hc,
      hkAddr e.1 ((contains_iff_mem_keys _ _).mpr (source_mem_keys _ e.1 e.2 he)),
      hkAddr e.2 (hres e he)]
  · -- reach
    have hrootIn : m.rootID ∈ rootsOf (mapHeap m created) := (hroots _).2 (Or.inl rfl)
    have htree : ∀ id ∈ AList.keys (MTree.slabs m.d m.root), Reach (mapHeap m created) m.rootID id := by
      refine reach_mtree T D (mapHeap m created) m.d true m.root hinv.tree ?_ m.rootID (Reach.refl _)
      intro p s hps q hq
      rw [edges_mapHeap, mem_edges_toHM]
      exact ⟨s, hps, hq⟩
    intro id hid
    by_cases ht : id ∈ targets (mapHeap m created)
    · obtain ⟨p, he⟩ := (mem_targets _ id).1 ht
      have hp : p ∈ AList.keys (MTree.slabs m.d m.root) := by
        rw [edges_mapHeap] at he
        have := source_mem_keys _ p id he
        rwa [keys_toHM] at this
      exact ⟨m.rootID, hrootIn, Reach.step (htree p hp) he⟩
    · exact ⟨id, (mem_rootsOf _ id).2 ⟨hid, ht⟩, Reach.refl id⟩

/-! ### Non-vacuity

The example map `run` of `Map/Example.lean` (two digest levels, T = 256, owner address 7): an index
slab 7.1 over the data slabs 7.3 and 7.4, data slab 7.3 refers to the external collision-group slab
7.2; no large values. -/
section NonVacuity
open MapExample

example : (AList.keys (mapHeap run.1 [])).Nodup ∧ Healthy (mapHeap run.1 []) (rootsOf (mapHeap run.1 [])) ∧
    (∀ id, id ∈ rootsOf (mapHeap run.1 []) ↔ (id = run.1.rootID ∨ (id ∈ [] ∧ id ∉ valRefs run.1.toList))) :=
  mapHeap_healthy 256 D2 run.1 [] run_good.inv (by decide) (by decide)
    (fun p hp y hy => by
      have hm : y ∈ valRefs run.1.toList := (mem_valRefs _ y).2 ⟨p, hp, hy⟩
      rw [show valRefs run.1.toList = [] by decide] at hm
      cases hm)
    (by decide) List.nodup_nil (fun _ h => by cases h)

example : mapHeap run.1 [] =
    [(⟨7, 1⟩, ⟨⟨7, 1⟩, [⟨7, 3⟩, ⟨7, 4⟩]⟩), (⟨7, 3⟩, ⟨⟨7, 3⟩, [⟨7, 2⟩]⟩), (⟨7, 2⟩, ⟨⟨7, 2⟩, []⟩),
     (⟨7, 4⟩, ⟨⟨7, 4⟩, []⟩)] := by decide
example : Health.check (mapHeap run.1 []) (some 1) = .ok [⟨7, 1⟩] := by rfl

end NonVacuity

end Health
end Atree
