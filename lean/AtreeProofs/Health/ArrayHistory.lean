import AtreeProofs.Health.ArrayHeap
import AtreeProofs.E2E.History
import AtreeProofs.Props.E2E
import AtreeProofs.Props.C20
/-
  C20 for arrays, part 2: the storage produced by ANY valid history of array requests is `Healthy`.

  * `RefsUnique` — the additional history invariant: no two elements refer to the same large-value
    slab, no two large-value slabs share an ID; kept by every request (`refsUnique_stepA`).
  * `array_history_healthy` — for every history from `NewArray` on an empty storage, the heap
    `arrHeap a created` (tree slabs + large-value slabs) has unique keys, is `Healthy`, has the
    array's root among its roots, and is exactly what the storage holds at the owner's address
    (`Rep.view`).  `array_run_healthy` — the same from any `Good` state satisfying `RefsUnique`.
  * `array_history_check_accepts` — hence (`C20.health_complete`) `CheckStorageHealth` accepts it.
-/
namespace Atree.E2E
open Atree Gen ATree Health

variable {β : Type}

/-- no two elements refer to the same large-value slab; the large-value slabs have distinct IDs -/
def RefsUnique (st : Arr × Ctx) : Prop :=
  (elemRefs st.1.toList).Nodup ∧ (st.2.created.map (·.1)).Nodup

/-- a stored slab as the health check sees it: its ID and the slab references it contains -/
def SSlab.toH (id : SlabID) : SSlab → HSlab
  | .tree s _ => ⟨id, s.refs⟩
  | .large _ => ⟨id, []⟩

/-! ### the stored form of a value -/

/-- `Value.Storable` of a plain value: the value itself (nothing created), or a reference to the
    one large-value slab it creates, whose ID is the next one of the allocation counter -/
theorem storedForm_cases (T addr : Nat) (v : Elem) (ctx : Ctx) (hv : ValueOk v) :
    ((toStorable T addr v ctx).1 = v ∧ crOf T addr v ctx = []) ∨
    ((toStorable T addr v ctx).1.pay = .ref ⟨addr, ctx.ctr + 1⟩ ∧
      crOf T addr v ctx = [(⟨addr, ctx.ctr + 1⟩, v)]) := by
  obtain ⟨_, n, hn⟩ := hv
  unfold crOf toStorable
  rw [hn]
  simp only
  split
  · right
    simp [Ctx.alloc]
  · left
    simp

/-- adding the stored form of a value to (part of) a list of elements with unique references -/
theorem refsUnique_add (T addr : Nat) (v : Elem) (ctx : Ctx) (hv : ValueOk v)
    (l l0 l' : List Elem) (hsub : l0.Sublist l)
    (hperm : l'.Perm ((toStorable T addr v ctx).1 :: l0))
    (hnd : (elemRefs l).Nodup) (hcnd : (ctx.created.map (·.1)).Nodup)
    (hin : ∀ y ∈ elemRefs l, y ∈ ctx.created.map (·.1))
    (hle : ∀ p ∈ ctx.created, p.1.idx ≤ ctx.ctr) :
    (elemRefs l').Nodup ∧ ((ctx.created ++ crOf T addr v ctx).map (·.1)).Nodup := by
  have hp : (elemRefs l').Perm (elemRefs [(toStorable T addr v ctx).1] ++ elemRefs l0) := by
    rw [← elemRefs_append]
    exact hperm.filterMap _
  have hsub' : (elemRefs l0).Sublist (elemRefs l) := hsub.filterMap _
  have hnd0 : (elemRefs l0).Nodup := hnd.sublist hsub'
  have hfresh : (⟨addr, ctx.ctr + 1⟩ : SlabID) ∉ ctx.created.map (·.1) := by
    intro hm
    obtain ⟨p, hp, hpe⟩ := List.mem_map.1 hm
    have := hle p hp
    rw [hpe] at this
    simp only at this
    omega
  rcases storedForm_cases T addr v ctx hv with ⟨h1, h2⟩ | ⟨h1, h2⟩
  · rw [h2, List.append_nil]
    refine ⟨?_, hcnd⟩
    rw [hp.nodup_iff, h1, elemRefs_val hv.2, List.nil_append]
    exact hnd0
  · constructor
    · rw [hp.nodup_iff, elemRefs_ref h1, List.singleton_append, List.nodup_cons]
      exact ⟨fun hm => hfresh (hin _ (hsub'.subset hm)), hnd0⟩
    · rw [h2, List.map_append, List.nodup_append]
      refine ⟨hcnd, by simp, ?_⟩
      intro x hx y hy hxy
      simp only [List.map_cons, List.map_nil, List.mem_singleton] at hy
      subst hy
      subst hxy
      exact hfresh hx

theorem set_perm {α : Type} (l : List α) (i : Nat) (e : α) (hi : i < l.length) :
    (l.set i e).Perm (e :: l.eraseIdx i) := by
  rw [List.set_eq_take_append_cons_drop, if_pos hi, List.eraseIdx_eq_take_drop_succ]
  exact List.perm_middle

theorem refsIn_of_refsOk {st : Arr × Ctx} (h : RefsOk st) :
    ∀ y ∈ elemRefs st.1.toList, y ∈ st.2.created.map (·.1) := by
  intro y hy
  obtain ⟨e, he, hp⟩ := (mem_elemRefs _ y).1 hy
  have := h e he y hp
  have hne : AList.find? st.2.created y ≠ none := by
    intro hn; rw [hn] at this; cases this
  exact (AList.find?_ne_none_iff _ _).1 hne

/-! ### every request keeps `RefsUnique` -/

theorem refsUnique_insert (T : Nat) (hT : legalThreshold T = true) (a : Arr) (ctx : Ctx)
    (hinv : ArrInv T a ctx.ctr) (hrefs : RefsOk (a, ctx))
    (hle : ∀ p ∈ ctx.created, p.1.idx ≤ ctx.ctr) (hu : RefsUnique (a, ctx))
    (i : Nat) (v : Elem) (hv : ValueOk v) : RefsUnique (stepA T (a, ctx) (.insert i v)) := by
  have hlen : a.count = a.toList.length := count_eq_length hinv
  simp only [stepA]
  by_cases hok : a.toList.length < maxArrayElementCount ∧ i ≤ a.toList.length
  · obtain ⟨hcount, hi⟩ := hok
    obtain ⟨a', ctx', heq, _, hlist, _, _⟩ := arr_insert_ok hT a ctx i v hv hinv (by omega) hi
    rw [heq]
    obtain ⟨E, C, hlog, _, _, hC⟩ := arr_insert_created hT a ctx i v hv hinv a' ctx' heq
    show (elemRefs a'.toList).Nodup ∧ (ctx'.created.map (·.1)).Nodup
    rw [hlog.created, hC, hlist]
    exact refsUnique_add T a.addr v ctx hv a.toList a.toList _ (List.Sublist.refl _)
      (List.perm_insertIdx _ _ hi) hu.1 hu.2 (refsIn_of_refsOk hrefs) hle
  · have herr : ∃ e, a.insert T i v ctx = .error e := by
      by_cases hcount : a.count = maxArrayElementCount
      · exact ⟨_, by unfold Arr.insert; rw [if_pos hcount]⟩
      · refine ⟨_, arr_insert_err a ctx i v hinv hcount ?_⟩
        have hlt : a.count < maxArrayElementCount + 1 := hinv.count_lt
        omega
    obtain ⟨e, he⟩ := herr
    rw [he]
    exact hu

theorem refsUnique_set (T : Nat) (hT : legalThreshold T = true) (a : Arr) (ctx : Ctx)
    (hinv : ArrInv T a ctx.ctr) (hrefs : RefsOk (a, ctx))
    (hle : ∀ p ∈ ctx.created, p.1.idx ≤ ctx.ctr) (hu : RefsUnique (a, ctx))
    (i : Nat) (v : Elem) (hv : ValueOk v) : RefsUnique (stepA T (a, ctx) (.set i v)) := by
  simp only [stepA]
  by_cases hi : i < a.toList.length
  · obtain ⟨a', ctx', heq, _, hlist, _, _⟩ := arr_set_ok hT a ctx i v hv hinv hi
    rw [heq]
    obtain ⟨E, C, hlog, _, _, hC⟩ := arr_set_created hT a ctx i v hv hinv _ a' ctx' heq
    show (elemRefs a'.toList).Nodup ∧ (ctx'.created.map (·.1)).Nodup
    rw [hlog.created, hC, hlist]
    exact refsUnique_add T a.addr v ctx hv a.toList (a.toList.eraseIdx i) _
      (List.eraseIdx_sublist _ _) (set_perm _ _ _ hi) hu.1 hu.2 (refsIn_of_refsOk hrefs) hle
  · rw [arr_set_err a ctx i v hinv (by omega)]
    exact hu

theorem refsUnique_remove (T : Nat) (hT : legalThreshold T = true) (a : Arr) (ctx : Ctx)
    (hinv : ArrInv T a ctx.ctr) (hu : RefsUnique (a, ctx)) (i : Nat) :
    RefsUnique (stepA T (a, ctx) (.remove i)) := by
  simp only [stepA]
  by_cases hi : i < a.toList.length
  · obtain ⟨a', ctx', heq, _, hlist, _, _⟩ := arr_remove_ok hT a ctx i hinv hi
    rw [heq]
    obtain ⟨E, hlog, _⟩ := arr_remove_created a ctx i _ a' ctx' heq
    show (elemRefs a'.toList).Nodup ∧ (ctx'.created.map (·.1)).Nodup
    rw [hlog.created, List.append_nil, hlist]
    exact ⟨hu.1.sublist ((List.eraseIdx_sublist _ _).filterMap _), hu.2⟩
  · rw [arr_remove_err a ctx i hinv (by omega)]
    exact hu

theorem refsUnique_pop (T : Nat) (a : Arr) (ctx : Ctx) (hu : RefsUnique (a, ctx)) :
    RefsUnique (stepA T (a, ctx) .popIterate) := by
  simp only [stepA]
  obtain ⟨_, h2, _, _⟩ := arr_popIterate_refines a ctx
  obtain ⟨hcre, _⟩ := arr_popIterate_ctx a ctx
  show (elemRefs (a.popIterate ctx).2.1.toList).Nodup ∧ ((a.popIterate ctx).2.2.created.map (·.1)).Nodup
  rw [h2, hcre]
  exact ⟨List.nodup_nil, hu.2⟩

theorem refsUnique_setType (T : Nat) (a : Arr) (ctx : Ctx) (hu : RefsUnique (a, ctx)) (ty : Nat) :
    RefsUnique (stepA T (a, ctx) (.setType ty)) := by
  simp only [stepA]
  have h1 : (a.setType ty ctx).1.toList = a.toList := rfl
  have h2 : (a.setType ty ctx).2.created = ctx.created := by
    unfold Arr.setType; simp only; split <;> rfl
  show (elemRefs (a.setType ty ctx).1.toList).Nodup ∧ ((a.setType ty ctx).2.created.map (·.1)).Nodup
  rw [h1, h2]
  exact hu

/-- EVERY REQUEST keeps `RefsUnique` (array model side; the storage plays no role). -/
theorem refsUnique_stepA (T : Nat) (hT : legalThreshold T = true) (st : Arr × Ctx)
    (hinv : ArrInv T st.1 st.2.ctr) (hrefs : RefsOk st)
    (hle : ∀ p ∈ st.2.created, p.1.idx ≤ st.2.ctr) (hu : RefsUnique st)
    (op : AOp) (hop : op.Ok) : RefsUnique (stepA T st op) := by
  obtain ⟨a, ctx⟩ := st
  cases op with
  | insert i v => exact refsUnique_insert T hT a ctx hinv hrefs hle hu i v hop
  | append v => exact refsUnique_insert T hT a ctx hinv hrefs hle hu a.count v hop
  | set i v => exact refsUnique_set T hT a ctx hinv hrefs hle hu i v hop
  | remove i => exact refsUnique_remove T hT a ctx hinv hu i
  | popIterate => exact refsUnique_pop T a ctx hu
  | setType ty => exact refsUnique_setType T a ctx hu ty

theorem refsUnique_stepS (c : Codec SSlab β) (T : Nat) (hT : legalThreshold T = true)
    (x : (Arr × Ctx) × St SSlab β) (hg : Good c T x) (hu : RefsUnique x.1) (op : AOp) (hop : op.Ok) :
    RefsUnique (stepS c T x op).1 :=
  refsUnique_stepA T hT x.1 hg.inv hg.refs hg.created_le hu op hop

/-- ANY HISTORY, from any good state with unique references: both invariants are kept. -/
theorem refsUnique_runS (c : Codec SSlab β) (hc : RoundTrip c) (T : Nat) (hT : legalThreshold T = true) :
    ∀ (ops : List AOp) (x : (Arr × Ctx) × St SSlab β), Good c T x → RefsUnique x.1 →
      (∀ op ∈ ops, op.Ok) → Good c T (runS c T x ops) ∧ RefsUnique (runS c T x ops).1
  | [], _, hg, hu, _ => ⟨hg, hu⟩
  | op :: ops, x, hg, hu, hok => by
    have hop := hok op (by simp)
    exact refsUnique_runS c hc T hT ops (stepS c T x op) (good_stepS c hc T hT x hg op hop).1
      (refsUnique_stepS c T hT x hg hu op hop) (fun o ho => hok o (by simp [ho]))

theorem refsUnique_new (c : Codec SSlab β) (addr ty : Nat) : RefsUnique (newS c addr ty).1 :=
  ⟨List.nodup_nil, List.nodup_nil⟩

/-! ### the heap is what the storage holds -/

theorem find?_map_val {α γ : Type} (f : SlabID → α → γ) (l : List (SlabID × α)) (k : SlabID) :
    AList.find? (l.map (fun p => (p.1, f p.1 p.2))) k = (AList.find? l k).map (f k) := by
  induction l with
  | nil => rfl
  | cons p l ih =>
    obtain ⟨k', v⟩ := p
    rw [List.map_cons, AList.find?_cons, AList.find?_cons]
    split
    · rename_i hk; subst hk; rfl
    · exact ih

/-- the health-check view of the slab the storage must hold under `id` is the heap's entry -/
theorem stored_toH (a : Arr) (created : List (SlabID × Elem)) (id : SlabID) :
    (stored a (AList.find? created) id).map (SSlab.toH id) = AList.find? (arrHeap a created) id := by
  have h1 : AList.find? ((ATree.slabs a.d a.root).map (fun p => (p.1, (⟨p.1, p.2.refs⟩ : HSlab)))) id
      = (AList.find? (ATree.slabs a.d a.root) id).map (fun s => (⟨id, s.refs⟩ : HSlab)) :=
    find?_map_val (fun k (s : ASlab) => (⟨k, s.refs⟩ : HSlab)) _ id
  have h2 : AList.find? (created.map (fun p => (p.1, (⟨p.1, []⟩ : HSlab)))) id
      = (AList.find? created id).map (fun _ => (⟨id, []⟩ : HSlab)) :=
    find?_map_val (fun k (_ : Elem) => (⟨k, []⟩ : HSlab)) _ id
  unfold arrHeap
  rw [find?_append, h1, h2]
  unfold stored Arr.slabAt
  cases hf : AList.find? (ATree.slabs a.d a.root) id with
  | some s => rfl
  | none =>
    cases hc : AList.find? created id with
    | some v => rfl
    | none => rfl

/-! ### the main theorems -/

/-- From any state satisfying the history invariants (`Good`, `RefsUnique`): the heap of the array
    has unique keys, is healthy, its roots are the array's root slab and the large-value slabs no
    element refers to, and it is what the storage holds at the owner's address. -/
theorem array_state_healthy (c : Codec SSlab β) (T : Nat) (x : (Arr × Ctx) × St SSlab β)
    (hg : Good c T x) (hu : RefsUnique x.1) :
    (AList.keys (arrHeap x.1.1 x.1.2.created)).Nodup ∧
    Healthy (arrHeap x.1.1 x.1.2.created) (rootsOf (arrHeap x.1.1 x.1.2.created)) ∧
    (∀ id, id ∈ rootsOf (arrHeap x.1.1 x.1.2.created) ↔
      (id = x.1.1.rootID ∨ (id ∈ x.1.2.created.map (·.1) ∧ id ∉ elemRefs x.1.1.toList))) ∧
    (∀ id, id.addr = x.1.1.addr →
      (x.2.view c id).map (SSlab.toH id) = AList.find? (arrHeap x.1.1 x.1.2.created) id) := by
  obtain ⟨h1, h2, h3⟩ := arrHeap_healthy T x.1.1 x.1.2.ctr x.1.2.created hg.inv
    (fun e he y hy => refsIn_of_refsOk hg.refs y ((mem_elemRefs _ y).2 ⟨e, he, hy⟩))
    hu.1 hu.2
    (fun p hp => ⟨hg.caddr p hp, by
      have := (hg.rep.extra_fresh p.1 (find?_isSome_of_mem_keys (List.mem_map_of_mem hp))).1
      exact (slabAt_isNone x.1.1 p.1).1 this⟩)
  refine ⟨h1, h2, h3, ?_⟩
  intro id hid
  rw [hg.rep.view id hid]
  exact stored_toH _ _ id

/-- ANY HISTORY from any `Good` state with unique references (e.g. the state after a commit). -/
theorem array_run_healthy (c : Codec SSlab β) (hc : RoundTrip c) (T : Nat) (hT : legalThreshold T = true)
    (x0 : (Arr × Ctx) × St SSlab β) (hg : Good c T x0) (hu : RefsUnique x0.1)
    (ops : List AOp) (hops : ∀ op ∈ ops, op.Ok) :
    let x := runS c T x0 ops
    let a := x.1.1
    let created := x.1.2.created
    (AList.keys (arrHeap a created)).Nodup ∧
    Healthy (arrHeap a created) (rootsOf (arrHeap a created)) ∧
    a.rootID ∈ rootsOf (arrHeap a created) ∧
    (∀ id, id ∈ rootsOf (arrHeap a created) ↔
      (id = a.rootID ∨ (id ∈ created.map (·.1) ∧ id ∉ elemRefs a.toList))) ∧
    (∀ id, id.addr = x0.1.1.addr →
      (x.2.view c id).map (SSlab.toH id) = AList.find? (arrHeap a created) id) ∧
    RefsUnique x.1 := by
  intro x a created
  obtain ⟨g, u⟩ := refsUnique_runS c hc T hT ops x0 hg hu hops
  obtain ⟨_, _, r, _⟩ := good_runS c hc T hT ops x0 hg hops
  obtain ⟨h1, h2, h3, h4⟩ := array_state_healthy c T x g u
  have haddr : a.addr = x0.1.1.addr := by
    show x.1.1.rootID.addr = x0.1.1.rootID.addr
    rw [r]
  refine ⟨h1, h2, (h3 _).2 (Or.inl rfl), h3, ?_, u⟩
  intro id hid
  exact h4 id (hid.trans haddr.symm)

/-- THE STORAGE OF ANY VALID ARRAY HISTORY IS HEALTHY.  For every list of requests (insert / append
    / set / remove / popIterate / setType; any positions; values of any size ≥ 1) starting from
    `NewArray` on an empty storage: the heap made of the slabs of the array's tree and of the
    large-value slabs created so far has unique keys, is `Healthy`, the array's root slab is one of
    its roots, and — slab by slab — it is what the storage holds at the owner's address. -/
theorem array_history_healthy (c : Codec SSlab β) (hc : RoundTrip c) (T : Nat)
    (hT : legalThreshold T = true) (addr ty : Nat) (haddr : addr ≠ 0) (ops : List AOp)
    (hops : ∀ op ∈ ops, op.Ok) :
    let x := runS c T (newS c addr ty) ops
    let a := x.1.1
    let created := x.1.2.created
    (AList.keys (arrHeap a created)).Nodup ∧
    Healthy (arrHeap a created) (rootsOf (arrHeap a created)) ∧
    a.rootID ∈ rootsOf (arrHeap a created) ∧
    (∀ id, id.addr = addr →
      (x.2.view c id).map (SSlab.toH id) = AList.find? (arrHeap a created) id) := by
  intro x a created
  obtain ⟨g0, _, r0, _⟩ := good_new c hc T hT addr ty haddr
  obtain ⟨h1, h2, h3, _, h5, _⟩ :=
    array_run_healthy c hc T hT (newS c addr ty) g0 (refsUnique_new c addr ty) ops hops
  refine ⟨h1, h2, h3, ?_⟩
  intro id hid
  refine h5 id ?_
  show id.addr = (newS c addr ty).1.1.rootID.addr
  rw [r0]; exact hid

/-- the roots after a history: the array's root slab and the orphaned large-value slabs -/
theorem array_history_roots (c : Codec SSlab β) (hc : RoundTrip c) (T : Nat)
    (hT : legalThreshold T = true) (addr ty : Nat) (haddr : addr ≠ 0) (ops : List AOp)
    (hops : ∀ op ∈ ops, op.Ok) :
    let x := runS c T (newS c addr ty) ops
    let a := x.1.1
    let created := x.1.2.created
    ∀ id, id ∈ rootsOf (arrHeap a created) ↔
      (id = ⟨addr, 1⟩ ∨ (id ∈ created.map (·.1) ∧ id ∉ elemRefs a.toList)) := by
  intro x a created
  obtain ⟨g0, _, r0, _⟩ := good_new c hc T hT addr ty haddr
  obtain ⟨_, _, _, h4, _, _⟩ :=
    array_run_healthy c hc T hT (newS c addr ty) g0 (refsUnique_new c addr ty) ops hops
  obtain ⟨_, _, r, _⟩ := good_runS c hc T hT ops (newS c addr ty) g0 hops
  intro id
  rw [h4 id]
  show (id = x.1.1.rootID ∨ _) ↔ _
  rw [r, r0]

/-- an accepted heap is also accepted with the number of roots found as the expected count -/
theorem check_some_of_none (h : Heap) (R : List SlabID) (hR : Health.check h none = .ok R) :
    Health.check h (some R.length) = .ok R := by
  unfold Health.check at hR ⊢
  split at hR
  · cases hR
  · split at hR
    · cases hR
    · split at hR
      · cases hR
      · split at hR
        · cases hR
        · simp only [Except.ok.injEq] at hR
          subst hR
          simp [*]

/-- Hence `CheckStorageHealth` (with the right expected root count, or `-1`) ACCEPTS the storage of
    every valid array history, and returns exactly the roots: the array's root slab and the
    orphaned large-value slabs. -/
theorem array_history_check_accepts (c : Codec SSlab β) (hc : RoundTrip c) (T : Nat)
    (hT : legalThreshold T = true) (addr ty : Nat) (haddr : addr ≠ 0) (ops : List AOp)
    (hops : ∀ op ∈ ops, op.Ok) :
    let x := runS c T (newS c addr ty) ops
    let h := arrHeap x.1.1 x.1.2.created
    ∃ R, Health.check h none = .ok R ∧ Health.check h (some (rootsOf h).length) = .ok R ∧
      (∀ id, id ∈ R ↔ id ∈ rootsOf h) ∧ R.length = (rootsOf h).length := by
  intro x h
  obtain ⟨h1, h2, _, _⟩ := array_history_healthy c hc T hT addr ty haddr ops hops
  obtain ⟨R, hR, hmem, hlen⟩ := C20.health_complete h h1 _ h2 none (fun n hn => by cases hn)
  refine ⟨R, hR, ?_, hmem, hlen⟩
  rw [← hlen]
  exact check_some_of_none h R hR

/-! ### Non-vacuity

`hist` / `xH` of `Props/E2E.lean` (T = 256, identity codec): an index slab 1 over the data slabs 2
and 3, element 2 is a reference to the large-value slab 5.  `hist2` then overwrites that element:
slab 5 stays in storage, unreferenced, and becomes a second root. -/
section NonVacuity
open Atree.Example

/-- the theorem applies to `hist` … -/
example :
    (AList.keys (arrHeap xH.1.1 xH.1.2.created)).Nodup ∧
    Healthy (arrHeap xH.1.1 xH.1.2.created) (rootsOf (arrHeap xH.1.1 xH.1.2.created)) ∧
    xH.1.1.rootID ∈ rootsOf (arrHeap xH.1.1 xH.1.2.created) ∧
    (∀ id, id.addr = 1 → (xH.2.view idCodec id).map (SSlab.toH id)
      = AList.find? (arrHeap xH.1.1 xH.1.2.created) id) :=
  array_history_healthy idCodec idCodec_roundTrip T0 legal 1 0 (by decide) hist hist_ok

/-- … whose heap is, by evaluation: -/
example : arrHeap xH.1.1 xH.1.2.created =
    [(⟨1, 1⟩, ⟨⟨1, 1⟩, [⟨1, 2⟩, ⟨1, 3⟩]⟩), (⟨1, 2⟩, ⟨⟨1, 2⟩, [⟨1, 5⟩]⟩), (⟨1, 3⟩, ⟨⟨1, 3⟩, []⟩),
     (⟨1, 5⟩, ⟨⟨1, 5⟩, []⟩)] := by decide
example : rootsOf (arrHeap xH.1.1 xH.1.2.created) = [⟨1, 1⟩] := by decide
/-- `CheckStorageHealth(storage, 1)` accepts it (and rejects any other root count) -/
example : Health.check (arrHeap xH.1.1 xH.1.2.created) (some 1) = .ok [⟨1, 1⟩] := by decide
example : Health.check (arrHeap xH.1.1 xH.1.2.created) (some 2) = .error .rootCount := by decide
/-- the storage holds exactly these slabs at address 1 -/
example : ([1, 2, 3, 4, 5, 6].map (fun i => (xH.2.view idCodec ⟨1, i⟩).map (SSlab.toH ⟨1, i⟩)))
    = [1, 2, 3, 4, 5, 6].map (fun i => AList.find? (arrHeap xH.1.1 xH.1.2.created) ⟨1, i⟩) := by decide

/-- overwrite the large value -/
def hist2 : List AOp := hist ++ [.set 2 (elem 7)]

theorem hist2_ok : ∀ op ∈ hist2, op.Ok := by
  intro op hop
  rcases List.mem_append.1 hop with h | h
  · exact hist_ok op h
  · simp only [List.mem_singleton] at h
    subst h
    exact value_ok _

def xH2 : (Arr × Ctx) × St SSlab SSlab := runS idCodec T0 (newS idCodec 1 0) hist2

example :
    (AList.keys (arrHeap xH2.1.1 xH2.1.2.created)).Nodup ∧
    Healthy (arrHeap xH2.1.1 xH2.1.2.created) (rootsOf (arrHeap xH2.1.1 xH2.1.2.created)) ∧
    xH2.1.1.rootID ∈ rootsOf (arrHeap xH2.1.1 xH2.1.2.created) ∧
    (∀ id, id.addr = 1 → (xH2.2.view idCodec id).map (SSlab.toH id)
      = AList.find? (arrHeap xH2.1.1 xH2.1.2.created) id) :=
  array_history_healthy idCodec idCodec_roundTrip T0 legal 1 0 (by decide) hist2 hist2_ok

/-- the large-value slab 5 is still stored, nobody refers to it: a second root -/
example : arrHeap xH2.1.1 xH2.1.2.created =
    [(⟨1, 1⟩, ⟨⟨1, 1⟩, [⟨1, 2⟩, ⟨1, 3⟩]⟩), (⟨1, 2⟩, ⟨⟨1, 2⟩, []⟩), (⟨1, 3⟩, ⟨⟨1, 3⟩, []⟩),
     (⟨1, 5⟩, ⟨⟨1, 5⟩, []⟩)] := by decide
example : Health.check (arrHeap xH2.1.1 xH2.1.2.created) (some 2) = .ok [⟨1, 5⟩, ⟨1, 1⟩] := by decide
example : Health.check (arrHeap xH2.1.1 xH2.1.2.created) (some 1) = .error .rootCount := by decide
example : rootsOf (arrHeap xH2.1.1 xH2.1.2.created) = [⟨1, 1⟩, ⟨1, 5⟩] := by decide
example : ∀ id, id ∈ rootsOf (arrHeap xH2.1.1 xH2.1.2.created) ↔
    (id = ⟨1, 1⟩ ∨ (id ∈ xH2.1.2.created.map (·.1) ∧ id ∉ elemRefs xH2.1.1.toList)) :=
  array_history_roots idCodec idCodec_roundTrip T0 legal 1 0 (by decide) hist2 hist2_ok

end NonVacuity

end Atree.E2E
