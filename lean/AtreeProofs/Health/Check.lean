import AtreeProofs.Health.Climb
/-
  C20 helper lemmas, part 3: `Reach`, consequences of `Healthy`, and soundness / completeness of
  `Health.check`.
-/
namespace Atree
namespace Health

/-! ### `Reach` -/

theorem Reach.trans {h : Heap} {a b c : SlabID} (h1 : Reach h a b) (h2 : Reach h b c) :
    Reach h a c := by
  induction h2 with
  | refl => exact h1
  | step _ he ih => exact Reach.step ih he

theorem Reach.head {h : Heap} {a b c : SlabID} (he : (a, b) ∈ edges h) (h2 : Reach h b c) :
    Reach h a c :=
  Reach.trans (Reach.step (Reach.refl a) he) h2

theorem Reach.cases_head {h : Heap} {a c : SlabID} (h1 : Reach h a c) :
    a = c ∨ ∃ b, (a, b) ∈ edges h ∧ Reach h b c := by
  induction h1 with
  | refl => exact Or.inl rfl
  | @step b c _ he ih =>
    rcases ih with rfl | ⟨b', he', hr⟩
    · exact Or.inr ⟨c, he, Reach.refl c⟩
    · exact Or.inr ⟨b', he', Reach.step hr he⟩

/-- `po` is the parent map of `h` -/
def IsParentMap (h : Heap) (po : AList SlabID SlabID) : Prop :=
  ∀ c p, AList.find? po c = some p ↔ (p, c) ∈ edges h

theorem IsParentMap.none_iff {h : Heap} {po : AList SlabID SlabID} (hpo : IsParentMap h po)
    (c : SlabID) : AList.find? po c = none ↔ c ∉ targets h := by
  rw [mem_targets]
  constructor
  · rintro hn ⟨p, he⟩
    rw [(hpo c p).mpr he] at hn
    cases hn
  · intro hn
    cases hf : AList.find? po c with
    | none => rfl
    | some p => exact absurd ⟨p, (hpo c p).mp hf⟩ hn

theorem Chain.reach {h : Heap} {po : AList SlabID SlabID} (hpo : IsParentMap h po)
    {x r : SlabID} {l : List SlabID} (hc : Chain h po x l r) : Reach h r x := by
  induction hc with
  | root _ => exact Reach.refl _
  | step hx _ _ _ _ ih => exact Reach.step ih ((hpo _ _).mp hx)

/-! ### decomposition of `check` -/

theorem check_ok_iff (h : Heap) (expected : Option Nat) (R : List SlabID) :
    check h expected = .ok R ↔
      ∃ po leaves visited, scan h [] [] = .ok (po, leaves) ∧ allResolve h po = true ∧
        climbAll h po leaves [] [] = .ok (visited, R) ∧ visited.length = h.length ∧
        ∀ n, expected = some n → R.length = n := by
  constructor
  · intro hok
    unfold check at hok
    split at hok
    · cases hok
    · rename_i po leaves hs
      split at hok
      · cases hok
      · rename_i har
        split at hok
        · cases hok
        · rename_i visited roots hc
          split at hok
          · cases hok
          · rename_i hl
            refine ⟨po, leaves, visited, hs, by simpa using har, ?_, by simpa using hl, ?_⟩
            · split at hok
              · split at hok
                · cases hok
                · cases hok; exact hc
              · cases hok; exact hc
            · intro n hn
              subst hn
              simp only at hok
              split at hok
              · cases hok
              · rename_i hrl
                cases hok
                simpa using hrl
  · rintro ⟨po, leaves, visited, h1, h2, h3, h4, h5⟩
    unfold check
    rw [h1]
    simp only [h2, h3, h4]
    cases expected with
    | none => simp
    | some n => simp [h5 n rfl]

/-! ### soundness -/

/-- what the two loops establish, given that every slab was visited -/
theorem healthy_of_parts (h : Heap) (po : AList SlabID SlabID)
    (visited roots : List SlabID)
    (hnd : (targets h).Nodup) (hpo : IsParentMap h po)
    (hres : ∀ c p, AList.find? po c = some p → AList.contains h c = true)
    (hv : ∀ x, x ∈ visited ↔
      ∃ leaf ∈ leavesOf h, ∃ l r, Chain h po leaf l r ∧ (x = leaf ∨ x ∈ l))
    (hr : ∀ x, x ∈ roots ↔ ∃ leaf ∈ leavesOf h, ∃ l, Chain h po leaf l x)
    (hrn : roots.Nodup) (hall : ∀ x ∈ AList.keys h, x ∈ visited) :
    Healthy h roots := by
  have hleafkey : ∀ leaf ∈ leavesOf h, leaf ∈ AList.keys h := by
    intro leaf hl
    obtain ⟨s, hm, _⟩ := (mem_leavesOf h leaf).mp hl
    exact List.mem_map.mpr ⟨(leaf, s), hm, rfl⟩
  -- every slab has its own chain, ending in a recorded root
  have hchain : ∀ x ∈ AList.keys h, ∃ l r, Chain h po x l r ∧ r ∈ roots := by
    intro x hx
    obtain ⟨leaf, hleaf, l, r, hc, hxl⟩ := (hv x).mp (hall x hx)
    obtain ⟨l2, hc2, _⟩ := hc.sub hxl
    exact ⟨l2, r, hc2, (hr r).mpr ⟨leaf, hleaf, l, hc⟩⟩
  refine ⟨?_, hnd, ?_, ?_, hrn, ?_⟩
  · rintro ⟨p, c⟩ he
    exact hres c p ((hpo c p).mpr he)
  · rintro ⟨p, c⟩ he ps cs hfp hfc
    have hck : c ∈ AList.keys h := by
      rw [← AList.find?_ne_none_iff]; simp only at hfc; rw [hfc]; simp
    obtain ⟨l, r, hc, _⟩ := hchain c hck
    have hpc := (hpo c p).mpr he
    cases hc with
    | root hx => rw [hpc] at hx; cases hx
    | step hx hfc' hfp' ho _ =>
      rw [hpc] at hx
      cases hx
      simp only at hfp hfc
      rw [hfc] at hfc'
      rw [hfp] at hfp'
      cases hfc'; cases hfp'
      exact ho.symm
  · intro id
    rw [hr id, targets_def, contains_iff_mem_keys]
    constructor
    · rintro ⟨leaf, hleaf, l, hc⟩
      refine ⟨?_, (hpo.none_iff id).mp hc.root_none⟩
      rcases hc.end_mem with rfl | hm
      · exact hleafkey _ hleaf
      · exact hc.mem_keys _ hm
    · rintro ⟨hkey, hnt⟩
      obtain ⟨leaf, hleaf, l, r, hc, hxl⟩ := (hv id).mp (hall id hkey)
      obtain ⟨l2, hc2, _⟩ := hc.sub hxl
      have hnone := (hpo.none_iff id).mpr hnt
      cases hc2 with
      | root _ => exact ⟨leaf, hleaf, l, hc⟩
      | step hx _ _ _ _ => rw [hnone] at hx; cases hx
  · intro id hid
    obtain ⟨l, r, hc, hrm⟩ := hchain id ((contains_iff_mem_keys h id).mp hid)
    exact ⟨r, hrm, hc.reach hpo⟩

theorem check_sound (h : Heap) (expected : Option Nat)
    (R : List SlabID) (hok : check h expected = .ok R) :
    Healthy h R ∧ (∀ n, expected = some n → R.length = n) := by
  obtain ⟨po, leaves, visited, hscan, hres, hclimb, hlen, hexp⟩ :=
    (check_ok_iff h expected R).mp hok
  refine ⟨?_, hexp⟩
  obtain ⟨hnd, _, hfind, hlv⟩ := scan_ok _ _ _ _ _ hscan
  have hpo : IsParentMap h po := by
    intro c p
    rw [hfind c p]
    simp
  simp only [List.nil_append] at hlv
  subst hlv
  obtain ⟨hv, hr, hvn, hrn⟩ := climbAll_sound _ _ _ _ _ hclimb
  simp only [List.not_mem_nil, false_or] at hv hr
  have hleafkey : ∀ leaf ∈ leavesOf h, leaf ∈ AList.keys h := by
    intro leaf hl
    obtain ⟨s, hm, _⟩ := (mem_leavesOf h leaf).mp hl
    exact List.mem_map.mpr ⟨(leaf, s), hm, rfl⟩
  have hsub : visited ⊆ AList.keys h := by
    intro x hx
    obtain ⟨leaf, hleaf, l, r, hc, hxl⟩ := (hv x).mp hx
    rcases hxl with rfl | hm
    · exact hleafkey _ hleaf
    · exact hc.mem_keys _ hm
  have hall : AList.keys h ⊆ visited :=
    subset_of_nodup_length_le (hvn List.nodup_nil) hsub (by simp [AList.keys, hlen])
  exact healthy_of_parts h po visited R hnd hpo ((allResolve_iff h po).mp hres) hv hr
    (hrn List.nodup_nil) (fun x hx => hall hx)

/-! ### consequences of `Healthy` -/

section HealthyFacts
variable {h : Heap} {R : List SlabID} {po : AList SlabID SlabID}

theorem chain_step_of_edge (hh : Healthy h R) (hpo : IsParentMap h po) {b c r : SlabID}
    {l : List SlabID} (he : (b, c) ∈ edges h) (hc : Chain h po b l r) :
    Chain h po c (b :: l) r := by
  obtain ⟨cs, hfc⟩ := (contains_iff_find h c).mp (hh.resolves _ he)
  have hbk : AList.contains h b = true :=
    (contains_iff_mem_keys h b).mpr (source_mem_keys h b c he)
  obtain ⟨bs, hfb⟩ := (contains_iff_find h b).mp hbk
  exact Chain.step ((hpo c b).mpr he) hfc hfb (hh.owner _ he bs cs hfb hfc).symm hc

theorem root_no_parent (hh : Healthy h R) (hpo : IsParentMap h po) {r : SlabID} (hr : r ∈ R) :
    AList.find? po r = none :=
  (hpo.none_iff r).mpr ((hh.roots_iff r).mp hr).2

theorem chain_of_reach (hh : Healthy h R) (hpo : IsParentMap h po) {r x : SlabID}
    (hr : AList.find? po r = none) (hreach : Reach h r x) : ∃ l, Chain h po x l r := by
  induction hreach with
  | refl => exact ⟨[], Chain.root hr⟩
  | step _ he ih =>
    obtain ⟨l, hc⟩ := ih
    exact ⟨_, chain_step_of_edge hh hpo he hc⟩

theorem chain_exists (hh : Healthy h R) (hpo : IsParentMap h po) {x : SlabID}
    (hx : x ∈ AList.keys h) : ∃ l r, Chain h po x l r ∧ r ∈ R := by
  obtain ⟨r, hr, hreach⟩ := hh.reach x ((contains_iff_mem_keys h x).mpr hx)
  obtain ⟨l, hc⟩ := chain_of_reach hh hpo (root_no_parent hh hpo hr) hreach
  exact ⟨l, r, hc, hr⟩

/-- reaching `b` from `a` extends the chain of `a` -/
theorem chain_extend_of_reach (hh : Healthy h R) (hpo : IsParentMap h po) {a b r : SlabID}
    {la : List SlabID} (hc : Chain h po a la r) (hreach : Reach h a b) :
    ∃ l', Chain h po b (l' ++ la) r ∧ (l' = [] → a = b) := by
  induction hreach with
  | refl => exact ⟨[], hc, fun _ => rfl⟩
  | @step b c _ he ih =>
    obtain ⟨l', hc', _⟩ := ih
    exact ⟨b :: l', chain_step_of_edge hh hpo he hc', fun e => by cases e⟩

/-- walking down along references from any slab ends in a leaf: every slab is on the chain of
    some leaf -/
theorem on_leaf_chain (hh : Healthy h R) (hpo : IsParentMap h po) :
    ∀ (k : Nat) (x r : SlabID) (l : List SlabID), Chain h po x l r → x ∈ AList.keys h →
      h.length - l.length ≤ k →
      ∃ leaf ∈ leavesOf h, ∃ l' r', Chain h po leaf l' r' ∧ (x = leaf ∨ x ∈ l') := by
  intro k
  induction k with
  | zero =>
    intro x r l hc hx hlen
    have := hc.length_lt hx
    omega
  | succ k ih =>
    intro x r l hc hx hlen
    obtain ⟨⟨x', s⟩, hm, hx'⟩ := List.mem_map.mp hx
    simp only at hx'
    subst hx'
    cases hrefs : s.refs with
    | nil =>
      exact ⟨x', (mem_leavesOf h x').mpr ⟨s, hm, hrefs⟩, l, r, hc, Or.inl rfl⟩
    | cons c cs =>
      have he : (x', c) ∈ edges h := (mem_edges h x' c).mpr ⟨s, hm, by simp [hrefs]⟩
      have hc' := chain_step_of_edge hh hpo he hc
      have hck : c ∈ AList.keys h := (contains_iff_mem_keys h c).mp (hh.resolves _ he)
      obtain ⟨leaf, hleaf, l', r', hcl, hmem⟩ := ih c r (x' :: l) hc' hck (by simp; omega)
      refine ⟨leaf, hleaf, l', r', hcl, Or.inr ?_⟩
      rcases hmem with rfl | hmem
      · obtain ⟨rfl, _⟩ := hcl.det hc'
        exact List.mem_cons_self ..
      · obtain ⟨l1, l2, rfl, hc2⟩ := hcl.suffix hmem
        obtain ⟨rfl, _⟩ := hc2.det hc'
        simp

theorem leaf_not_parent (hk : (AList.keys h).Nodup) (hpo : IsParentMap h po) {leaf : SlabID}
    (hl : leaf ∈ leavesOf h) (c : SlabID) : AList.find? po c ≠ some leaf := by
  intro hf
  obtain ⟨s', hm', hc⟩ := (mem_edges h leaf c).mp ((hpo c leaf).mp hf)
  obtain ⟨s, hm, hs⟩ := (mem_leavesOf h leaf).mp hl
  have h1 := (AList.mem_iff_find? h hk leaf s).mp hm
  have h2 := (AList.mem_iff_find? h hk leaf s').mp hm'
  rw [h1] at h2
  cases h2
  rw [hs] at hc
  cases hc

end HealthyFacts

/-! ### completeness -/

theorem check_complete_none (h : Heap) (hk : (AList.keys h).Nodup) (R : List SlabID)
    (hh : Healthy h R) : ∃ R', check h none = .ok R' := by
  obtain ⟨po, lv, hscan⟩ := scan_succeeds h [] [] hh.single (by intro t _; rfl)
  obtain ⟨hnd, _, hfind, hlv⟩ := scan_ok _ _ _ _ _ hscan
  have hpo : IsParentMap h po := by
    intro c p
    rw [hfind c p]
    simp
  simp only [List.nil_append] at hlv
  subst hlv
  have hleafkey : ∀ leaf ∈ leavesOf h, leaf ∈ AList.keys h := by
    intro leaf hl
    obtain ⟨s, hm, _⟩ := (mem_leavesOf h leaf).mp hl
    exact List.mem_map.mpr ⟨(leaf, s), hm, rfl⟩
  obtain ⟨visited, roots, hclimb⟩ := climbAll_succeeds (h := h) (po := po) (leavesOf h) [] []
    (leavesOf_nodup h hk) (by intro _ _ hm; cases hm)
    (fun leaf hl c => leaf_not_parent hk hpo hl c)
    (by
      intro leaf hl
      obtain ⟨l, r, hc, _⟩ := chain_exists hh hpo (hleafkey leaf hl)
      exact ⟨l, r, hc, Nat.le_of_lt (hc.length_lt (hleafkey leaf hl))⟩)
  obtain ⟨hv, hr, hvn, hrn⟩ := climbAll_sound _ _ _ _ _ hclimb
  simp only [List.not_mem_nil, false_or] at hv hr
  have hsub : visited ⊆ AList.keys h := by
    intro x hx
    obtain ⟨leaf, hleaf, l, r, hc, hxl⟩ := (hv x).mp hx
    rcases hxl with rfl | hm
    · exact hleafkey _ hleaf
    · exact hc.mem_keys _ hm
  have hall : AList.keys h ⊆ visited := by
    intro x hx
    obtain ⟨l, r, hc, _⟩ := chain_exists hh hpo hx
    exact (hv x).mpr (on_leaf_chain hh hpo _ x r l hc hx (Nat.le_refl _))
  have hlen : visited.length = h.length := by
    have h1 := (hvn List.nodup_nil).length_le_of_subset hsub
    have h2 := hk.length_le_of_subset hall
    simp [AList.keys] at h1 h2
    omega
  refine ⟨roots, (check_ok_iff h none roots).mpr ⟨po, leavesOf h, visited, hscan, ?_, hclimb, hlen,
    by intro n hn; cases hn⟩⟩
  rw [allResolve_iff]
  intro c p hf
  exact hh.resolves _ ((hpo c p).mp hf)

/-- two root lists of the same heap agree -/
theorem healthy_roots_unique {h : Heap} {R R' : List SlabID} (h1 : Healthy h R)
    (h2 : Healthy h R') : (∀ id, id ∈ R' ↔ id ∈ R) ∧ R'.length = R.length := by
  have hm : ∀ id, id ∈ R' ↔ id ∈ R := fun id => by rw [h1.roots_iff, h2.roots_iff]
  exact ⟨hm, ((List.perm_ext_iff_of_nodup h2.roots_nodup h1.roots_nodup).mpr hm).length_eq⟩

theorem check_complete (h : Heap) (hk : (AList.keys h).Nodup) (R : List SlabID)
    (hh : Healthy h R) (expected : Option Nat) (hn : ∀ n, expected = some n → R.length = n) :
    ∃ R', check h expected = .ok R' ∧ (∀ id, id ∈ R' ↔ id ∈ R) ∧ R'.length = R.length := by
  obtain ⟨R', hok⟩ := check_complete_none h hk R hh
  have hh' := (check_sound h none R' hok).1
  obtain ⟨hm, hlen⟩ := healthy_roots_unique hh hh'
  refine ⟨R', ?_, hm, hlen⟩
  obtain ⟨po, leaves, visited, h1, h2, h3, h4, _⟩ := (check_ok_iff h none R').mp hok
  exact (check_ok_iff h expected R').mpr ⟨po, leaves, visited, h1, h2, h3, h4,
    fun n hn' => by rw [hlen]; exact hn n hn'⟩

end Health
end Atree
