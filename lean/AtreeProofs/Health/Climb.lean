import AtreeProofs.Health.Scan
/-
  C20 helper lemmas, part 2: parent chains and the exact behaviour of the second loop of the
  health check (`climb`, `climbAll`).
-/
namespace Atree
namespace Health

/-! ### `setInsert` -/

theorem mem_setInsert (l : List SlabID) (a x : SlabID) : x ∈ setInsert l a ↔ x = a ∨ x ∈ l := by
  unfold setInsert
  split
  · rename_i hc
    have : a ∈ l := by simpa using hc
    constructor
    · exact Or.inr
    · rintro (rfl | hx)
      · exact this
      · exact hx
  · simp

theorem nodup_setInsert (l : List SlabID) (a : SlabID) (hl : l.Nodup) : (setInsert l a).Nodup := by
  unfold setInsert
  split
  · exact hl
  · rename_i hc
    have : a ∉ l := by simpa using hc
    exact List.nodup_cons.mpr ⟨this, hl⟩

theorem mem_foldl_setInsert (l v : List SlabID) (x : SlabID) :
    x ∈ l.foldl setInsert v ↔ x ∈ v ∨ x ∈ l := by
  induction l generalizing v with
  | nil => simp
  | cons a t ih =>
    rw [List.foldl_cons, ih, mem_setInsert, List.mem_cons]
    constructor
    · rintro ((h | h) | h)
      · exact Or.inr (Or.inl h)
      · exact Or.inl h
      · exact Or.inr (Or.inr h)
    · rintro (h | h | h)
      · exact Or.inl (Or.inr h)
      · exact Or.inl (Or.inl h)
      · exact Or.inr h

theorem nodup_foldl_setInsert (l v : List SlabID) (hv : v.Nodup) :
    (l.foldl setInsert v).Nodup := by
  induction l generalizing v with
  | nil => exact hv
  | cons a t ih => exact ih _ (nodup_setInsert v a hv)

/-! ### parent chains -/

/-- `Chain h po x l r`: following `po` upwards from `x` visits exactly the slabs `l` (in order) and
    ends at `r`, which has no parent; every step passes the checks made by `climb`. -/
inductive Chain (h : Heap) (po : AList SlabID SlabID) : SlabID → List SlabID → SlabID → Prop where
  | root {x : SlabID} : AList.find? po x = none → Chain h po x [] x
  | step {x p r : SlabID} {l : List SlabID} {c ps : HSlab} :
      AList.find? po x = some p → AList.find? h x = some c → AList.find? h p = some ps →
      c.self.addr = ps.self.addr → Chain h po p l r → Chain h po x (p :: l) r

variable {h : Heap} {po : AList SlabID SlabID}

theorem Chain.det {x r r' : SlabID} {l l' : List SlabID} (h1 : Chain h po x l r)
    (h2 : Chain h po x l' r') : l = l' ∧ r = r' := by
  induction h1 generalizing l' r' with
  | root hx =>
    cases h2 with
    | root _ => exact ⟨rfl, rfl⟩
    | step hx' _ _ _ _ => rw [hx] at hx'; cases hx'
  | step hx _ _ _ _ ih =>
    cases h2 with
    | root hx' => rw [hx] at hx'; cases hx'
    | step hx' _ _ _ hc' =>
      rw [hx] at hx'
      cases hx'
      obtain ⟨rfl, rfl⟩ := ih hc'
      exact ⟨rfl, rfl⟩

theorem Chain.root_none {x r : SlabID} {l : List SlabID} (h1 : Chain h po x l r) :
    AList.find? po r = none := by
  induction h1 with
  | root hx => exact hx
  | step _ _ _ _ _ ih => exact ih

theorem Chain.suffix {x r y : SlabID} {l : List SlabID} (h1 : Chain h po x l r) (hy : y ∈ l) :
    ∃ l1 l2, l = l1 ++ y :: l2 ∧ Chain h po y l2 r := by
  induction h1 with
  | root _ => cases hy
  | @step x p r l c ps hx hc hp ho hch ih =>
    rcases List.mem_cons.mp hy with rfl | hy'
    · exact ⟨[], l, rfl, hch⟩
    · obtain ⟨l1, l2, rfl, h2⟩ := ih hy'
      exact ⟨p :: l1, l2, rfl, h2⟩

theorem Chain.not_mem {x r : SlabID} {l : List SlabID} (h1 : Chain h po x l r) : x ∉ l := by
  intro hx
  obtain ⟨l1, l2, hl, h2⟩ := h1.suffix hx
  have := (h1.det h2).1
  rw [this] at hl
  have := congrArg List.length hl
  simp at this
  omega

theorem Chain.nodup {x r : SlabID} {l : List SlabID} (h1 : Chain h po x l r) :
    (x :: l).Nodup := by
  induction h1 with
  | root _ => simp
  | step hx hc hp ho hch ih =>
    exact List.nodup_cons.mpr ⟨(Chain.step hx hc hp ho hch).not_mem, ih⟩

theorem Chain.mem_keys {x r : SlabID} {l : List SlabID} (h1 : Chain h po x l r) :
    ∀ y ∈ l, y ∈ AList.keys h := by
  induction h1 with
  | root _ => intro y hy; cases hy
  | step hx hc hp ho hch ih =>
    intro y hy
    rcases List.mem_cons.mp hy with rfl | hy'
    · rw [← AList.find?_ne_none_iff, hp]; simp
    · exact ih y hy'

theorem Chain.is_parent {x r : SlabID} {l : List SlabID} (h1 : Chain h po x l r) :
    ∀ y ∈ l, ∃ c, AList.find? po c = some y := by
  induction h1 with
  | root _ => intro y hy; cases hy
  | @step x p r l c ps hx hc hp ho hch ih =>
    intro y hy
    rcases List.mem_cons.mp hy with rfl | hy'
    · exact ⟨x, hx⟩
    · exact ih y hy'

theorem Chain.end_mem {x r : SlabID} {l : List SlabID} (h1 : Chain h po x l r) :
    r = x ∨ r ∈ l := by
  induction h1 with
  | root _ => exact Or.inl rfl
  | step hx hc hp ho hch ih =>
    rcases ih with rfl | hm
    · exact Or.inr (List.mem_cons_self ..)
    · exact Or.inr (List.mem_cons_of_mem _ hm)

/-- every slab on a chain has its own chain to the same end -/
theorem Chain.sub {x r y : SlabID} {l : List SlabID} (h1 : Chain h po x l r)
    (hy : y = x ∨ y ∈ l) : ∃ l2, Chain h po y l2 r ∧ l2.length ≤ l.length := by
  rcases hy with rfl | hy
  · exact ⟨l, h1, Nat.le_refl _⟩
  · obtain ⟨l1, l2, rfl, h2⟩ := h1.suffix hy
    exact ⟨l2, h2, by simp; omega⟩

/-- a chain is no longer than the heap -/
theorem Chain.length_lt {x r : SlabID} {l : List SlabID} (h1 : Chain h po x l r)
    (hx : x ∈ AList.keys h) : l.length < h.length := by
  have hsub : (x :: l) ⊆ AList.keys h := by
    intro y hy
    rcases List.mem_cons.mp hy with rfl | hy'
    · exact hx
    · exact h1.mem_keys y hy'
  have := h1.nodup.length_le_of_subset hsub
  simp [AList.keys] at this
  omega

/-! ### `climb` -/

theorem climb_sound (fuel : Nat) (x : SlabID) (v rts v' r' : List SlabID)
    (hok : climb h po fuel x v rts = .ok (v', r')) :
    ∃ l r, Chain h po x l r ∧ l.length < fuel ∧ v' = l.foldl setInsert v ∧
      r' = setInsert rts r := by
  induction fuel generalizing x v with
  | zero => simp [climb] at hok
  | succ fuel ih =>
    rw [climb] at hok
    split at hok
    · rename_i hpx
      simp only [Except.ok.injEq, Prod.mk.injEq] at hok
      exact ⟨[], x, Chain.root hpx, by simp, by simp [hok.1], hok.2.symm⟩
    · rename_i p hpx
      split at hok
      · rename_i c ps hc hp
        split at hok
        · cases hok
        · rename_i hown
          have hown' : c.self.addr = ps.self.addr := by simpa using hown
          obtain ⟨l, r, hch, hlen, hv, hr⟩ := ih _ _ hok
          exact ⟨p :: l, r, Chain.step hpx hc hp hown' hch, by simp; omega, by simpa using hv, hr⟩
      · cases hok

theorem climb_complete {x r : SlabID} {l : List SlabID} (hch : Chain h po x l r) (fuel : Nat)
    (hf : l.length < fuel) (v rts : List SlabID) :
    climb h po fuel x v rts = .ok (l.foldl setInsert v, setInsert rts r) := by
  induction hch generalizing fuel v with
  | root hx =>
    cases fuel with
    | zero => simp at hf
    | succ fuel => simp [climb, hx]
  | @step x p r l c ps hx hc hp ho hch ih =>
    cases fuel with
    | zero => simp at hf
    | succ fuel =>
      have := ih fuel (by simp at hf; omega) (setInsert v p)
      simp [climb, hx, hc, hp, ho, this]

/-! ### `climbAll` -/

theorem climbAll_sound (lv v rts v' r' : List SlabID)
    (hok : climbAll h po lv v rts = .ok (v', r')) :
    (∀ x, x ∈ v' ↔ x ∈ v ∨ ∃ leaf ∈ lv, ∃ l r, Chain h po leaf l r ∧ (x = leaf ∨ x ∈ l)) ∧
    (∀ x, x ∈ r' ↔ x ∈ rts ∨ ∃ leaf ∈ lv, ∃ l, Chain h po leaf l x) ∧
    (v.Nodup → v'.Nodup) ∧ (rts.Nodup → r'.Nodup) := by
  induction lv generalizing v rts with
  | nil =>
    simp only [climbAll, Except.ok.injEq, Prod.mk.injEq] at hok
    obtain ⟨rfl, rfl⟩ := hok
    simp
  | cons leaf rest ih =>
    rw [climbAll] at hok
    split at hok
    · cases hok
    · rename_i hnc
      have hnv : leaf ∉ v := by simpa using hnc
      split at hok
      · cases hok
      · rename_i v1 r1 hcl
        obtain ⟨l, r, hch, _, rfl, rfl⟩ := climb_sound _ _ _ _ _ _ hcl
        obtain ⟨hv, hr, hvn, hrn⟩ := ih _ _ hok
        refine ⟨?_, ?_, ?_, ?_⟩
        · intro x
          rw [hv x, mem_foldl_setInsert, List.mem_cons]
          constructor
          · rintro (((h1 | h1) | h1) | h1)
            · exact Or.inr ⟨leaf, List.mem_cons_self .., l, r, hch, Or.inl h1⟩
            · exact Or.inl h1
            · exact Or.inr ⟨leaf, List.mem_cons_self .., l, r, hch, Or.inr h1⟩
            · obtain ⟨lf, hlf, rest'⟩ := h1
              exact Or.inr ⟨lf, List.mem_cons_of_mem _ hlf, rest'⟩
          · rintro (h1 | ⟨lf, hlf, l', r'', hch', hx⟩)
            · exact Or.inl (Or.inl (Or.inr h1))
            · rcases List.mem_cons.mp hlf with rfl | hlf'
              · obtain ⟨rfl, rfl⟩ := hch.det hch'
                rcases hx with hx | hx
                · exact Or.inl (Or.inl (Or.inl hx))
                · exact Or.inl (Or.inr hx)
              · exact Or.inr ⟨lf, hlf', l', r'', hch', hx⟩
        · intro x
          rw [hr x, mem_setInsert]
          constructor
          · rintro ((h1 | h1) | ⟨lf, hlf, rest'⟩)
            · subst h1
              exact Or.inr ⟨leaf, List.mem_cons_self .., l, hch⟩
            · exact Or.inl h1
            · exact Or.inr ⟨lf, List.mem_cons_of_mem _ hlf, rest'⟩
          · rintro (h1 | ⟨lf, hlf, l', hch'⟩)
            · exact Or.inl (Or.inr h1)
            · rcases List.mem_cons.mp hlf with rfl | hlf'
              · exact Or.inl (Or.inl (hch.det hch').2.symm)
              · exact Or.inr ⟨lf, hlf', l', hch'⟩
        · intro hvnd
          exact hvn (nodup_foldl_setInsert _ _ (List.nodup_cons.mpr ⟨hnv, hvnd⟩))
        · intro hrnd
          exact hrn (nodup_setInsert _ _ hrnd)

theorem climbAll_succeeds (lv v rts : List SlabID) (hnd : lv.Nodup)
    (hnv : ∀ leaf ∈ lv, leaf ∉ v)
    (hnp : ∀ leaf ∈ lv, ∀ c, AList.find? po c ≠ some leaf)
    (hch : ∀ leaf ∈ lv, ∃ l r, Chain h po leaf l r ∧ l.length ≤ h.length) :
    ∃ v' r', climbAll h po lv v rts = .ok (v', r') := by
  induction lv generalizing v rts with
  | nil => exact ⟨v, rts, rfl⟩
  | cons leaf rest ih =>
    rw [List.nodup_cons] at hnd
    obtain ⟨l, r, hc, hlen⟩ := hch leaf (List.mem_cons_self ..)
    have hcl := climb_complete hc (h.length + 1) (by omega) (leaf :: v) rts
    have hnc : v.contains leaf = false := by
      have := hnv leaf (List.mem_cons_self ..)
      simpa using this
    rw [climbAll]
    simp only [hnc, Bool.false_eq_true, if_false, hcl]
    apply ih _ _ hnd.2
    · intro lf hlf hmem
      rw [mem_foldl_setInsert, List.mem_cons] at hmem
      rcases hmem with (h1 | h1) | h1
      · exact hnd.1 (h1 ▸ hlf)
      · exact hnv lf (List.mem_cons_of_mem _ hlf) h1
      · obtain ⟨c, hc'⟩ := hc.is_parent lf h1
        exact hnp lf (List.mem_cons_of_mem _ hlf) c hc'
    · intro lf hlf
      exact hnp lf (List.mem_cons_of_mem _ hlf)
    · intro lf hlf
      exact hch lf (List.mem_cons_of_mem _ hlf)

end Health
end Atree
