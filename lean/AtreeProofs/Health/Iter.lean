import AtreeProofs.Health.Check
import AtreeProofs.StorageLemmas
/-
  C20 helper lemmas, part 7: `PersistentSlabStorage.SlabIterator` (`Health.slabIterator`) on the
  storage state machine, and `CheckStorageHealth` run on what it yields (`Health.checkStorage`).

  * `loadedLive s`  – the non-nil entries of the write set, then the non-nil entries of the cache
                      that the write set does not shadow;
  * `slabIterator_sound` (every state): whatever is yielded is the slab VISIBLE under that ID
    (`St.view`); in particular an ID whose entry in the write set or in the cache is nil (a pending
    or committed deletion) is never yielded, and it is never fetched from the ledger either - this
    is the place where finding F1 lived: the iterator cannot notice a reference to a deleted slab,
    `CheckStorageHealth` has to (`allResolve`);
  * `slabIterator_allLoaded` (all slabs loaded): the iterator yields exactly `loadedLive s`, i.e.
    exactly the live slabs of the view, each once (`mem_loadedLive_iff_view`, `loadedLive_nodup`),
    provided every reference held by a live slab is loaded; otherwise it fails with
    `SlabNotFoundError` ("slab not found during slab iteration");
  * `checkYield_eq_check`, `checkStorage_allLoaded`: on such a storage `CheckStorageHealth` is
    `Health.check` on the heap of the live slabs; the `duplicate slab` test never fires.
-/
namespace Atree
namespace Health
open Classical

variable {σ β : Type}

/-- the non-nil entries of a write set / cache -/
def liveOf (m : AList SlabID (Option σ)) : List (SlabID × σ) :=
  m.filterMap (fun p => p.2.map (fun v => (p.1, v)))

/-- the cache entries the write set does not shadow -/
def unshadowed (s : St σ β) : AList SlabID (Option σ) :=
  s.cache.filter (fun p => !AList.contains s.deltas p.1)

/-- what the iterator takes from the write set and the cache -/
def loadedLive (s : St σ β) : List (SlabID × σ) := liveOf s.deltas ++ liveOf (unshadowed s)

/-- `id` is a key of the write set or of the cache (with whatever value, nil included) -/
def IsLoaded (s : St σ β) (id : SlabID) : Prop :=
  AList.contains s.deltas id = true ∨ AList.contains s.cache id = true

/-- "with all slabs loaded": every register of the ledger is a key of the cache or the write set -/
def AllLoaded (s : St σ β) : Prop := ∀ id, AList.contains s.base id = true → IsLoaded s id

/-- every reference held by a live loaded slab is loaded -/
def RefsLoaded (abs : SlabID → σ → HSlab) (s : St σ β) : Prop :=
  ∀ p ∈ loadedLive s, ∀ r ∈ (abs p.1 p.2).refs, IsLoaded s r

theorem liveOf_nil : liveOf ([] : AList SlabID (Option σ)) = [] := rfl

theorem liveOf_cons_none (id : SlabID) (m : AList SlabID (Option σ)) :
    liveOf ((id, none) :: m) = liveOf m := by simp [liveOf]

theorem liveOf_cons_some (id : SlabID) (v : σ) (m : AList SlabID (Option σ)) :
    liveOf ((id, some v) :: m) = (id, v) :: liveOf m := by simp [liveOf]

theorem mem_liveOf (m : AList SlabID (Option σ)) (id : SlabID) (v : σ) :
    (id, v) ∈ liveOf m ↔ (id, some v) ∈ m := by
  simp only [liveOf, List.mem_filterMap]
  constructor
  · rintro ⟨⟨k, o⟩, hm, ho⟩
    cases o with
    | none => simp at ho
    | some w =>
      simp only [Option.map_some, Option.some.injEq, Prod.mk.injEq] at ho
      obtain ⟨rfl, rfl⟩ := ho
      exact hm
  · intro hm
    exact ⟨(id, some v), hm, rfl⟩

theorem keys_liveOf_sublist (m : AList SlabID (Option σ)) :
    ((liveOf m).map (·.1)).Sublist (AList.keys m) := by
  induction m with
  | nil => exact List.Sublist.slnil
  | cons p rest ih =>
    obtain ⟨k, o⟩ := p
    cases o with
    | none => rw [liveOf_cons_none]; exact List.Sublist.cons _ ih
    | some v => rw [liveOf_cons_some]; exact List.Sublist.cons_cons _ ih

/-! ### one slab whose references are all loaded: nothing is fetched -/

theorem iterLevel_loaded (c : Codec σ β) (abs : SlabID → σ → HSlab) (s : St σ β) (l : List SlabID)
    (acc : List (SlabID × σ)) (next : List SlabID) (hl : ∀ r ∈ l, IsLoaded s r) :
    iterLevel c abs s l acc next = .ok (acc, next) := by
  induction l with
  | nil => rfl
  | cons r rest ih =>
    rw [iterLevel]
    have ihr := ih (fun x hx => hl x (List.mem_cons_of_mem _ hx))
    rcases hl r (List.mem_cons_self ..) with h1 | h1
    · rw [if_pos h1]; exact ihr
    · by_cases h2 : AList.contains s.deltas r = true
      · rw [if_pos h2]; exact ihr
      · rw [if_neg h2, if_pos h1]; exact ihr

theorem iterChildren_loaded (c : Codec σ β) (abs : SlabID → σ → HSlab) (s : St σ β) (fuel : Nat)
    (l : List SlabID) (acc : List (SlabID × σ)) (hl : ∀ r ∈ l, IsLoaded s r) :
    iterChildren c abs s (fuel + 1) l acc = .ok acc := by
  cases l with
  | nil => simp [iterChildren]
  | cons r rs =>
    rw [iterChildren, iterLevel_loaded c abs s (r :: rs) acc [] hl]
    cases fuel <;> simp [iterChildren]

theorem iterAppend_loaded (c : Codec σ β) (abs : SlabID → σ → HSlab) (s : St σ β)
    (acc : List (SlabID × σ)) (id : SlabID) (v : σ) (hl : ∀ r ∈ (abs id v).refs, IsLoaded s r) :
    iterAppend c abs s acc id v = .ok (acc ++ [(id, v)]) :=
  iterChildren_loaded c abs s _ _ _ hl

/-! ### a reference that is not loaded, with all registers loaded: `SlabNotFoundError` -/

theorem retrieveIgnoringDeltas_unloaded (c : Codec σ β) (s : St σ β) (hall : AllLoaded s)
    (r : SlabID) (hr : ¬ IsLoaded s r) :
    s.retrieveIgnoringDeltas c r false = .ok (none, s) := by
  have h1 : AList.find? s.cache r = none := by
    cases hf : AList.find? s.cache r with
    | none => rfl
    | some v => exact absurd (Or.inr (by rw [AList.contains_eq, hf]; rfl)) hr
  have h2 : AList.find? s.base r = none := by
    cases hf : AList.find? s.base r with
    | none => rfl
    | some v => exact absurd (hall r (by rw [AList.contains_eq, hf]; rfl)) hr
  simp [St.retrieveIgnoringDeltas, h1, h2]

theorem iterLevel_unloaded (c : Codec σ β) (abs : SlabID → σ → HSlab) (s : St σ β) (hall : AllLoaded s)
    (l : List SlabID) (acc : List (SlabID × σ)) (next : List SlabID)
    (hl : ¬ ∀ r ∈ l, IsLoaded s r) :
    iterLevel c abs s l acc next = .error .slabNotFound := by
  induction l with
  | nil => exact absurd (fun r hr => by cases hr) hl
  | cons r rest ih =>
    rw [iterLevel]
    by_cases hr : IsLoaded s r
    · have hrest : ¬ ∀ x ∈ rest, IsLoaded s x := by
        intro h
        apply hl
        intro x hx
        rcases List.mem_cons.mp hx with rfl | hx
        · exact hr
        · exact h x hx
      rcases hr with h1 | h1
      · rw [if_pos h1]; exact ih hrest
      · by_cases h2 : AList.contains s.deltas r = true
        · rw [if_pos h2]; exact ih hrest
        · rw [if_neg h2, if_pos h1]; exact ih hrest
    · have h1 : ¬ AList.contains s.deltas r = true := fun h => hr (Or.inl h)
      have h2 : ¬ AList.contains s.cache r = true := fun h => hr (Or.inr h)
      rw [if_neg h1, if_neg h2, retrieveIgnoringDeltas_unloaded c s hall r hr]

theorem iterAppend_unloaded (c : Codec σ β) (abs : SlabID → σ → HSlab) (s : St σ β) (hall : AllLoaded s)
    (acc : List (SlabID × σ)) (id : SlabID) (v : σ) (hl : ¬ ∀ r ∈ (abs id v).refs, IsLoaded s r) :
    iterAppend c abs s acc id v = .error .slabNotFound := by
  unfold iterAppend
  cases hrefs : (abs id v).refs with
  | nil => rw [hrefs] at hl; exact absurd (fun r hr => by cases hr) hl
  | cons r rs =>
    rw [hrefs] at hl
    rw [iterChildren, iterLevel_unloaded c abs s hall (r :: rs) _ [] hl]

/-! ### the two loops, with all registers loaded -/

/-- all live entries of `m` hold loaded references only -/
def EntriesLoaded (abs : SlabID → σ → HSlab) (s : St σ β) (m : AList SlabID (Option σ)) : Prop :=
  ∀ p ∈ liveOf m, ∀ r ∈ (abs p.1 p.2).refs, IsLoaded s r

theorem iterDeltas_allLoaded (c : Codec σ β) (abs : SlabID → σ → HSlab) (s : St σ β) (hall : AllLoaded s)
    (D : AList SlabID (Option σ)) (acc : List (SlabID × σ)) :
    iterDeltas c abs s D acc =
      if EntriesLoaded abs s D then .ok (acc ++ liveOf D) else .error .slabNotFound := by
  induction D generalizing acc with
  | nil => simp [iterDeltas, liveOf_nil, EntriesLoaded]
  | cons p rest ih =>
    obtain ⟨id, o⟩ := p
    cases o with
    | none =>
      rw [iterDeltas, ih]
      have hiff : EntriesLoaded abs s ((id, none) :: rest) ↔ EntriesLoaded abs s rest := by
        simp only [EntriesLoaded, liveOf_cons_none]
      by_cases hr : EntriesLoaded abs s rest
      · rw [if_pos hr, if_pos (hiff.mpr hr), liveOf_cons_none]
      · rw [if_neg hr, if_neg (fun h => hr (hiff.mp h))]
    | some v =>
      rw [iterDeltas]
      by_cases hv : ∀ r ∈ (abs id v).refs, IsLoaded s r
      · rw [iterAppend_loaded c abs s acc id v hv]
        simp only
        rw [ih]
        have hiff : EntriesLoaded abs s ((id, some v) :: rest) ↔ EntriesLoaded abs s rest := by
          simp only [EntriesLoaded, liveOf_cons_some, List.mem_cons]
          constructor
          · intro h p hp; exact h p (Or.inr hp)
          · rintro h p (rfl | hp)
            · exact hv
            · exact h p hp
        by_cases hr : EntriesLoaded abs s rest
        · rw [if_pos hr, if_pos (hiff.mpr hr), liveOf_cons_some]; simp
        · rw [if_neg hr, if_neg (fun h => hr (hiff.mp h))]
      · rw [iterAppend_unloaded c abs s hall acc id v hv]
        have : ¬ EntriesLoaded abs s ((id, some v) :: rest) := by
          intro h
          exact hv (h (id, v) (by rw [liveOf_cons_some]; exact List.mem_cons_self ..))
        rw [if_neg this]

theorem iterCache_allLoaded (c : Codec σ β) (abs : SlabID → σ → HSlab) (s : St σ β) (hall : AllLoaded s)
    (hnd : (AList.keys s.cache).Nodup) (C : AList SlabID (Option σ))
    (hC : ∀ p ∈ C, p ∈ s.cache) (acc : List (SlabID × σ)) :
    iterCache c abs s (AList.keys C) acc =
      if EntriesLoaded abs s (C.filter (fun p => !AList.contains s.deltas p.1)) then
        .ok (acc ++ liveOf (C.filter (fun p => !AList.contains s.deltas p.1)))
      else .error .slabNotFound := by
  induction C generalizing acc with
  | nil => simp [iterCache, AList.keys, liveOf_nil, EntriesLoaded]
  | cons p rest ih =>
    obtain ⟨id, o⟩ := p
    have hfind : AList.find? s.cache id = some o :=
      (AList.mem_iff_find? s.cache hnd id o).mp (hC _ (List.mem_cons_self ..))
    have ihr := fun acc => ih (fun p hp => hC p (List.mem_cons_of_mem _ hp)) acc
    rw [AList.keys_cons, iterCache, hfind]
    cases o with
    | none =>
      simp only
      rw [ihr]
      by_cases hd : AList.contains s.deltas id = true
      · simp [hd]
      · simp [hd, EntriesLoaded, liveOf_cons_none]
    | some v =>
      simp only
      by_cases hd : AList.contains s.deltas id = true
      · rw [if_pos hd, ihr]
        simp [hd]
      · rw [if_neg hd]
        have hfil : ((id, some v) :: rest).filter (fun p => !AList.contains s.deltas p.1)
            = (id, some v) :: rest.filter (fun p => !AList.contains s.deltas p.1) := by
          simp [hd]
        rw [hfil]
        by_cases hv : ∀ r ∈ (abs id v).refs, IsLoaded s r
        · rw [iterAppend_loaded c abs s acc id v hv]
          simp only
          rw [ihr]
          have hiff : EntriesLoaded abs s ((id, some v) :: rest.filter (fun p => !AList.contains s.deltas p.1))
              ↔ EntriesLoaded abs s (rest.filter (fun p => !AList.contains s.deltas p.1)) := by
            simp only [EntriesLoaded, liveOf_cons_some, List.mem_cons]
            constructor
            · intro h p hp; exact h p (Or.inr hp)
            · rintro h p (rfl | hp)
              · exact hv
              · exact h p hp
          by_cases hr : EntriesLoaded abs s (rest.filter (fun p => !AList.contains s.deltas p.1))
          · rw [if_pos hr, if_pos (hiff.mpr hr), liveOf_cons_some]; simp
          · rw [if_neg hr, if_neg (fun h => hr (hiff.mp h))]
        · rw [iterAppend_unloaded c abs s hall acc id v hv]
          have : ¬ EntriesLoaded abs s ((id, some v) :: rest.filter (fun p => !AList.contains s.deltas p.1)) := by
            intro h
            exact hv (h (id, v) (by rw [liveOf_cons_some]; exact List.mem_cons_self ..))
          rw [if_neg this]

theorem refsLoaded_iff (abs : SlabID → σ → HSlab) (s : St σ β) :
    RefsLoaded abs s ↔ (EntriesLoaded abs s s.deltas ∧ EntriesLoaded abs s (unshadowed s)) := by
  simp only [RefsLoaded, loadedLive, EntriesLoaded, List.mem_append]
  constructor
  · intro h
    exact ⟨fun p hp => h p (Or.inl hp), fun p hp => h p (Or.inr hp)⟩
  · rintro ⟨h1, h2⟩ p (hp | hp)
    · exact h1 p hp
    · exact h2 p hp

/-- ALL SLABS LOADED.  The iterator yields exactly the non-nil entries of the write set followed
    by the non-nil cache entries the write set does not shadow - nothing is fetched - provided the
    references of these slabs are loaded; if one of them is not (a reference to a slab that was
    deleted physically), it fails with `SlabNotFoundError`. -/
theorem slabIterator_allLoaded (c : Codec σ β) (abs : SlabID → σ → HSlab) (s : St σ β)
    (hnd : (AList.keys s.cache).Nodup) (hall : AllLoaded s) :
    slabIterator c abs s =
      if RefsLoaded abs s then .ok (loadedLive s) else .error .slabNotFound := by
  unfold slabIterator
  rw [iterDeltas_allLoaded c abs s hall]
  by_cases h1 : EntriesLoaded abs s s.deltas
  · rw [if_pos h1]
    simp only
    rw [iterCache_allLoaded c abs s hall hnd s.cache (fun p hp => hp)]
    by_cases h2 : EntriesLoaded abs s (unshadowed s)
    · have h2' : EntriesLoaded abs s (s.cache.filter (fun p => !AList.contains s.deltas p.1)) := h2
      rw [if_pos h2', if_pos ((refsLoaded_iff abs s).mpr ⟨h1, h2⟩)]
      simp [loadedLive, unshadowed]
    · have h2' : ¬ EntriesLoaded abs s (s.cache.filter (fun p => !AList.contains s.deltas p.1)) := h2
      rw [if_neg h2', if_neg (fun h => h2 ((refsLoaded_iff abs s).mp h).2)]
  · rw [if_neg h1, if_neg (fun h => h1 ((refsLoaded_iff abs s).mp h).1)]

/-! ### `loadedLive` is the set of live slabs of the view -/

theorem mem_unshadowed (s : St σ β) (id : SlabID) (o : Option σ) :
    (id, o) ∈ unshadowed s ↔ ((id, o) ∈ s.cache ∧ AList.contains s.deltas id = false) := by
  simp [unshadowed]

/-- each live slab is listed once -/
theorem loadedLive_nodup (s : St σ β) (hd : (AList.keys s.deltas).Nodup)
    (hc : (AList.keys s.cache).Nodup) : ((loadedLive s).map (·.1)).Nodup := by
  unfold loadedLive
  rw [List.map_append, List.nodup_append]
  refine ⟨(keys_liveOf_sublist s.deltas).nodup hd, ?_, ?_⟩
  · refine ((keys_liveOf_sublist (unshadowed s)).nodup ?_)
    exact List.Nodup.sublist (List.Sublist.map _ List.filter_sublist) hc
  · rintro a ha b hb rfl
    obtain ⟨⟨k, v⟩, hm, rfl⟩ := List.mem_map.mp ha
    obtain ⟨⟨k', v'⟩, hm', hk⟩ := List.mem_map.mp hb
    simp only at hk
    subst hk
    have h1 := (mem_liveOf s.deltas k' v).mp hm
    have h2 := ((mem_unshadowed s k' (some v')).mp ((mem_liveOf _ k' v').mp hm')).2
    have : k' ∈ AList.keys s.deltas := List.mem_map.mpr ⟨_, h1, rfl⟩
    rw [← AList.find?_ne_none_iff] at this
    rw [AList.contains_eq] at h2
    cases hf : AList.find? s.deltas k' with
    | none => exact this hf
    | some w => rw [hf] at h2; cases h2

/-- an entry taken from the write set or the cache is the slab visible under its ID -/
theorem view_of_mem_loadedLive (c : Codec σ β) (s : St σ β) (hd : (AList.keys s.deltas).Nodup)
    (hc : (AList.keys s.cache).Nodup) (id : SlabID) (v : σ) (hm : (id, v) ∈ loadedLive s) :
    s.view c id = some v := by
  unfold loadedLive at hm
  rcases List.mem_append.mp hm with hm | hm
  · have := (AList.mem_iff_find? s.deltas hd id (some v)).mp ((mem_liveOf _ id v).mp hm)
    simp [St.view, this]
  · obtain ⟨h1, h2⟩ := (mem_unshadowed s id (some v)).mp ((mem_liveOf _ id v).mp hm)
    have hf := (AList.mem_iff_find? s.cache hc id (some v)).mp h1
    have hdn : AList.find? s.deltas id = none := by
      rw [AList.contains_eq] at h2
      cases hx : AList.find? s.deltas id with
      | none => rfl
      | some w => rw [hx] at h2; cases h2
    simp [St.view, hdn, hf]

/-- with all slabs loaded, the entries taken are EXACTLY the live slabs of the view -/
theorem mem_loadedLive_iff_view (c : Codec σ β) (s : St σ β) (hd : (AList.keys s.deltas).Nodup)
    (hc : (AList.keys s.cache).Nodup) (hall : AllLoaded s) (id : SlabID) (v : σ) :
    (id, v) ∈ loadedLive s ↔ s.view c id = some v := by
  refine ⟨view_of_mem_loadedLive c s hd hc id v, ?_⟩
  intro hv
  unfold loadedLive
  rw [List.mem_append]
  unfold St.view at hv
  cases hdf : AList.find? s.deltas id with
  | some o =>
    rw [hdf] at hv
    simp only at hv
    subst hv
    exact Or.inl ((mem_liveOf _ id v).mpr ((AList.mem_iff_find? s.deltas hd id (some v)).mpr hdf))
  | none =>
    rw [hdf] at hv
    simp only at hv
    have hdc : AList.contains s.deltas id = false := by rw [AList.contains_eq, hdf]; rfl
    cases hcf : AList.find? s.cache id with
    | some o =>
      rw [hcf] at hv
      simp only at hv
      subst hv
      exact Or.inr ((mem_liveOf _ id v).mpr ((mem_unshadowed s id (some v)).mpr
        ⟨(AList.mem_iff_find? s.cache hc id (some v)).mpr hcf, hdc⟩))
    | none =>
      rw [hcf] at hv
      simp only at hv
      -- served from the ledger: impossible when everything is loaded
      exfalso
      have hb : AList.contains s.base id = true := by
        rw [AList.contains_eq]
        cases hbf : AList.find? s.base id with
        | none => rw [hbf] at hv; cases hv
        | some b => rfl
      rcases hall id hb with h1 | h1
      · rw [hdc] at h1; cases h1
      · rw [AList.contains_eq, hcf] at h1; cases h1

/-! ### soundness in every state (lazy loads included) -/

/-- every entry of the list is the slab visible under its ID -/
def Visible (c : Codec σ β) (s : St σ β) (l : List (SlabID × σ)) : Prop :=
  ∀ p ∈ l, s.view c p.1 = some p.2

theorem iterLevel_visible (c : Codec σ β) (abs : SlabID → σ → HSlab) (s : St σ β) (l : List SlabID)
    (acc acc' : List (SlabID × σ)) (next next' : List SlabID) (hacc : Visible c s acc)
    (hok : iterLevel c abs s l acc next = .ok (acc', next')) : Visible c s acc' := by
  induction l generalizing acc next with
  | nil =>
    simp only [iterLevel, Except.ok.injEq, Prod.mk.injEq] at hok
    rw [← hok.1]; exact hacc
  | cons r rest ih =>
    rw [iterLevel] at hok
    split at hok
    · exact ih _ _ hacc hok
    · rename_i hdn
      split at hok
      · exact ih _ _ hacc hok
      · rename_i hcn
        split at hok
        · cases hok
        · cases hok
        · rename_i v s' hret
          refine ih _ _ ?_ hok
          intro p hp
          rcases List.mem_append.mp hp with hp | hp
          · exact hacc p hp
          · simp only [List.mem_singleton] at hp
            subst hp
            simp only
            have hd0 : AList.find? s.deltas r = none := by
              cases hx : AList.find? s.deltas r with
              | none => rfl
              | some w => exact absurd (by rw [AList.contains_eq, hx]; rfl) hdn
            have hc0 : AList.find? s.cache r = none := by
              cases hx : AList.find? s.cache r with
              | none => rfl
              | some w => exact absurd (by rw [AList.contains_eq, hx]; rfl) hcn
            unfold St.retrieveIgnoringDeltas at hret
            rw [hc0] at hret
            simp only at hret
            unfold St.view
            rw [hd0, hc0]
            simp only
            cases hb : AList.find? s.base r with
            | none => rw [hb] at hret; simp at hret
            | some b =>
              rw [hb] at hret
              simp only at hret
              cases hdec : c.dec r b with
              | none => rw [hdec] at hret; cases hret
              | some w =>
                rw [hdec] at hret
                simp only [Bool.false_eq_true, if_false, Except.ok.injEq, Prod.mk.injEq,
                  Option.some.injEq] at hret
                rw [← hret.1]
                simp [hdec]

theorem iterChildren_visible (c : Codec σ β) (abs : SlabID → σ → HSlab) (s : St σ β) (fuel : Nat)
    (l : List SlabID) (acc acc' : List (SlabID × σ)) (hacc : Visible c s acc)
    (hok : iterChildren c abs s fuel l acc = .ok acc') : Visible c s acc' := by
  induction fuel generalizing l acc with
  | zero =>
    cases l with
    | nil => simp only [iterChildren, Except.ok.injEq] at hok; rw [← hok]; exact hacc
    | cons r rs => simp [iterChildren] at hok
  | succ fuel ih =>
    cases l with
    | nil => simp only [iterChildren, Except.ok.injEq] at hok; rw [← hok]; exact hacc
    | cons r rs =>
      rw [iterChildren] at hok
      split at hok
      · cases hok
      · rename_i acc1 next hlev
        exact ih next acc1 (iterLevel_visible c abs s _ _ _ _ _ hacc hlev) hok

theorem iterAppend_visible (c : Codec σ β) (abs : SlabID → σ → HSlab) (s : St σ β)
    (acc acc' : List (SlabID × σ)) (id : SlabID) (v : σ) (hacc : Visible c s acc)
    (hv : s.view c id = some v) (hok : iterAppend c abs s acc id v = .ok acc') : Visible c s acc' := by
  refine iterChildren_visible c abs s _ _ _ _ ?_ hok
  intro p hp
  rcases List.mem_append.mp hp with hp | hp
  · exact hacc p hp
  · simp only [List.mem_singleton] at hp
    subst hp
    exact hv

theorem iterDeltas_visible (c : Codec σ β) (abs : SlabID → σ → HSlab) (s : St σ β)
    (D : AList SlabID (Option σ)) (hD : ∀ p ∈ D, s.view c p.1 = p.2)
    (acc acc' : List (SlabID × σ)) (hacc : Visible c s acc)
    (hok : iterDeltas c abs s D acc = .ok acc') : Visible c s acc' := by
  induction D generalizing acc with
  | nil => simp only [iterDeltas, Except.ok.injEq] at hok; rw [← hok]; exact hacc
  | cons p rest ih =>
    obtain ⟨id, o⟩ := p
    have hrest : ∀ p ∈ rest, s.view c p.1 = p.2 := fun p hp => hD p (List.mem_cons_of_mem _ hp)
    cases o with
    | none => rw [iterDeltas] at hok; exact ih hrest _ hacc hok
    | some v =>
      rw [iterDeltas] at hok
      split at hok
      · cases hok
      · rename_i acc1 happ
        exact ih hrest _ (iterAppend_visible c abs s _ _ id v hacc
          (hD (id, some v) (List.mem_cons_self ..)) happ) hok

theorem iterCache_visible (c : Codec σ β) (abs : SlabID → σ → HSlab) (s : St σ β) (K : List SlabID)
    (acc acc' : List (SlabID × σ)) (hacc : Visible c s acc)
    (hok : iterCache c abs s K acc = .ok acc') : Visible c s acc' := by
  induction K generalizing acc with
  | nil => simp only [iterCache, Except.ok.injEq] at hok; rw [← hok]; exact hacc
  | cons id rest ih =>
    rw [iterCache] at hok
    split at hok
    · exact ih _ hacc hok
    · exact ih _ hacc hok
    · rename_i v hcf
      split at hok
      · exact ih _ hacc hok
      · rename_i hdn
        split at hok
        · cases hok
        · rename_i acc1 happ
          refine ih _ (iterAppend_visible c abs s _ _ id v hacc ?_ happ) hok
          have hd0 : AList.find? s.deltas id = none := by
            cases hx : AList.find? s.deltas id with
            | none => rfl
            | some w => exact absurd (by rw [AList.contains_eq, hx]; rfl) hdn
          simp [St.view, hd0, hcf]

/-- SOUNDNESS, every state (slabs may have to be fetched from the ledger): whatever the iterator
    yields under an ID is the slab visible under that ID. -/
theorem slabIterator_sound (c : Codec σ β) (abs : SlabID → σ → HSlab) (s : St σ β)
    (hd : (AList.keys s.deltas).Nodup) (ys : List (SlabID × σ))
    (hok : slabIterator c abs s = .ok ys) : ∀ p ∈ ys, s.view c p.1 = some p.2 := by
  unfold slabIterator at hok
  split at hok
  · cases hok
  · rename_i acc hdl
    refine iterCache_visible c abs s _ _ _ ?_ hok
    refine iterDeltas_visible c abs s s.deltas ?_ [] acc (fun p hp => by cases hp) hdl
    intro p hp
    obtain ⟨id, o⟩ := p
    have := (AList.mem_iff_find? s.deltas hd id o).mp hp
    simp [St.view, this]

/-- A deleted slab (a nil entry of the write set, or of the cache when the write set has no entry:
    the view is `none`) is never yielded - neither from the maps nor by a fetch. -/
theorem slabIterator_skips_deleted (c : Codec σ β) (abs : SlabID → σ → HSlab) (s : St σ β)
    (hd : (AList.keys s.deltas).Nodup) (ys : List (SlabID × σ))
    (hok : slabIterator c abs s = .ok ys) (id : SlabID) (hv : s.view c id = none) :
    id ∉ ys.map (·.1) := by
  intro hm
  obtain ⟨⟨k, v⟩, hp, rfl⟩ := List.mem_map.mp hm
  have := slabIterator_sound c abs s hd ys hok _ hp
  simp only at this
  rw [hv] at this
  cases this

/-! ### `CheckStorageHealth` on the yielded slice -/

theorem scanD_eq_scan (ys : Heap) (seen : List SlabID) (po : AList SlabID SlabID)
    (lv : List SlabID) (hk : (AList.keys ys).Nodup) (hs : ∀ k ∈ AList.keys ys, k ∉ seen) :
    scanD ys seen po lv = scan ys po lv := by
  induction ys generalizing seen po lv with
  | nil => rfl
  | cons e rest ih =>
    obtain ⟨id, s⟩ := e
    rw [AList.keys_cons, List.nodup_cons] at hk
    have hid : id ∉ seen := hs id (by rw [AList.keys_cons]; exact List.mem_cons_self ..)
    have hcont : seen.contains id = false := by
      cases hx : seen.contains id with
      | false => rfl
      | true => exact absurd (by simpa using hx) hid
    rw [scanD, scan, hcont]
    simp only [Bool.false_eq_true, if_false]
    cases scanRefs id s.refs po with
    | error e => rfl
    | ok po' =>
      simp only
      apply ih _ _ _ hk.2
      intro k hkr hks
      rcases List.mem_cons.mp hks with rfl | hks
      · exact hk.1 hkr
      · exact hs k (by rw [AList.keys_cons]; exact List.mem_cons_of_mem _ hkr) hks

/-- when no ID is yielded twice, the `duplicate slab` test is idle -/
theorem checkYield_eq_check (ys : Heap) (hk : (AList.keys ys).Nodup) (expected : Option Nat) :
    checkYield ys expected = check ys expected := by
  unfold checkYield check
  rw [scanD_eq_scan ys [] [] [] hk (fun _ _ h => by cases h)]

/-- the heap of the live loaded slabs -/
def heapOfLoaded (abs : SlabID → σ → HSlab) (s : St σ β) : Heap :=
  (loadedLive s).map (fun p => (p.1, abs p.1 p.2))

theorem keys_heapOfLoaded (abs : SlabID → σ → HSlab) (s : St σ β) :
    AList.keys (heapOfLoaded abs s) = (loadedLive s).map (·.1) := by
  simp [heapOfLoaded, AList.keys]

/-- ALL SLABS LOADED: `CheckStorageHealth(storage, n)` is the check of the first part of the model
    (`Health.check`, about which the C20 theorems speak) on the heap of the live slabs of the view;
    a reference to a slab that is in neither map nor in the ledger makes the iteration fail with
    `SlabNotFoundError`. -/
theorem checkStorage_allLoaded (c : Codec σ β) (abs : SlabID → σ → HSlab) (s : St σ β)
    (hd : (AList.keys s.deltas).Nodup) (hc : (AList.keys s.cache).Nodup) (hall : AllLoaded s)
    (expected : Option Nat) :
    checkStorage c abs s expected =
      if RefsLoaded abs s then check (heapOfLoaded abs s) expected else .error .slabNotFound := by
  unfold checkStorage
  rw [slabIterator_allLoaded c abs s hc hall]
  by_cases h : RefsLoaded abs s
  · rw [if_pos h, if_pos h]
    simp only
    have hk : (AList.keys (heapOfLoaded abs s)).Nodup := by
      rw [keys_heapOfLoaded]; exact loadedLive_nodup s hd hc
    exact checkYield_eq_check (heapOfLoaded abs s) hk expected
  · rw [if_neg h, if_neg h]

end Health
end Atree
