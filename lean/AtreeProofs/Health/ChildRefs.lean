import AtreeProofs.Health.Check
/-
  C20 helper lemmas, part 4: the breadth-first `childRefs` query on a healthy heap.
-/
namespace Atree
namespace Health

/-- every healthy heap has a parent map (the one computed by `scan`) -/
theorem exists_parentMap {h : Heap} {R : List SlabID} (hh : Healthy h R) :
    ∃ po, IsParentMap h po := by
  obtain ⟨po, lv, hscan⟩ := scan_succeeds h [] [] hh.single (by intro t _; rfl)
  obtain ⟨_, _, hfind, _⟩ := scan_ok _ _ _ _ _ hscan
  refine ⟨po, ?_⟩
  intro c p
  rw [hfind c p]
  simp

/-- the references of the slab stored under `r` (none if `r` does not resolve) -/
def kids (h : Heap) (r : SlabID) : List SlabID :=
  match AList.find? h r with
  | some s => s.refs
  | none => []

theorem mem_kids (h : Heap) (hk : (AList.keys h).Nodup) (y c : SlabID) :
    c ∈ kids h y ↔ (y, c) ∈ edges h := by
  rw [mem_edges_find h hk, kids]
  cases AList.find? h y <;> simp

/-- one level of the breadth-first traversal -/
def levelStep (h : Heap) (acc : List SlabID × List SlabID × List SlabID) (r : SlabID) :
    List SlabID × List SlabID × List SlabID :=
  match AList.find? h r with
  | none => (acc.1, acc.2.1 ++ [r], acc.2.2)
  | some s => (acc.1 ++ [r], acc.2.1, acc.2.2 ++ s.refs)

theorem foldl_levelStep (h : Heap) (level a b c : List SlabID)
    (hres : ∀ r ∈ level, AList.contains h r = true) :
    level.foldl (levelStep h) (a, b, c) = (a ++ level, b, c ++ level.flatMap (kids h)) := by
  induction level generalizing a b c with
  | nil => simp
  | cons r rest ih =>
    obtain ⟨s, hs⟩ := (contains_iff_find h r).mp (hres r (List.mem_cons_self ..))
    rw [List.foldl_cons]
    have : levelStep h (a, b, c) r = (a ++ [r], b, c ++ kids h r) := by
      simp [levelStep, kids, hs]
    rw [this, ih _ _ _ (fun x hx => hres x (List.mem_cons_of_mem _ hx))]
    simp

theorem childRefs_zero (h : Heap) (level refs broken : List SlabID) :
    childRefs h 0 level refs broken = (refs, broken) := by
  simp [childRefs]

theorem childRefs_nil (h : Heap) (fuel : Nat) (refs broken : List SlabID) :
    childRefs h fuel [] refs broken = (refs, broken) := by
  cases fuel <;> simp [childRefs]

theorem childRefs_step (h : Heap) (fuel : Nat) (y : SlabID) (ys refs broken : List SlabID)
    (hres : ∀ r ∈ y :: ys, AList.contains h r = true) :
    childRefs h (fuel + 1) (y :: ys) refs broken =
      childRefs h fuel ((y :: ys).flatMap (kids h)) (refs ++ (y :: ys)) broken := by
  have h1 : childRefs h (fuel + 1) (y :: ys) refs broken =
      childRefs h fuel ((y :: ys).foldl (levelStep h) (refs, broken, [])).2.2
        ((y :: ys).foldl (levelStep h) (refs, broken, [])).1
        ((y :: ys).foldl (levelStep h) (refs, broken, [])).2.1 := by
    rw [childRefs]
    · rfl
    · intro hnil; cases hnil
  rw [h1, foldl_levelStep h (y :: ys) refs broken [] hres]
  simp only [List.nil_append]

theorem childRefs_spec {h : Heap} {R : List SlabID} {po : AList SlabID SlabID}
    (hh : Healthy h R) (hk : (AList.keys h).Nodup) (hpo : IsParentMap h po) :
    ∀ (fuel : Nat) (level refs broken : List SlabID),
      (∀ y ∈ level, y ∈ targets h) →
      (∀ y ∈ level, ∀ l r, Chain h po y l r → h.length ≤ l.length + fuel) →
      (childRefs h fuel level refs broken).2 = broken ∧
      ∀ x, x ∈ (childRefs h fuel level refs broken).1 ↔ x ∈ refs ∨ ∃ y ∈ level, Reach h y x := by
  have hkey : ∀ y, y ∈ targets h → y ∈ AList.keys h := by
    intro y hy
    obtain ⟨p, he⟩ := (mem_targets h y).mp hy
    exact (contains_iff_mem_keys h y).mp (hh.resolves _ he)
  intro fuel
  induction fuel with
  | zero =>
    intro level refs broken htgt hfuel
    rw [childRefs_zero]
    cases level with
    | nil => simp
    | cons y ys =>
      exfalso
      have hy := hkey y (htgt y (List.mem_cons_self ..))
      obtain ⟨l, r, hc, _⟩ := chain_exists hh hpo hy
      have h1 := hc.length_lt hy
      have h2 := hfuel y (List.mem_cons_self ..) l r hc
      omega
  | succ fuel ih =>
    intro level refs broken htgt hfuel
    cases level with
    | nil => rw [childRefs_nil]; simp
    | cons y ys =>
      rw [childRefs_step h fuel y ys refs broken
        (fun r hr => (contains_iff_mem_keys h r).mpr (hkey r (htgt r hr)))]
      have hIH := ih ((y :: ys).flatMap (kids h)) (refs ++ (y :: ys)) broken ?_ ?_
      · refine ⟨hIH.1, ?_⟩
        intro x
        rw [hIH.2 x, List.mem_append]
        constructor
        · rintro ((h1 | h1) | ⟨c, hc, hr⟩)
          · exact Or.inl h1
          · exact Or.inr ⟨x, h1, Reach.refl x⟩
          · obtain ⟨p, hp, hcp⟩ := List.mem_flatMap.mp hc
            exact Or.inr ⟨p, hp, Reach.head ((mem_kids h hk p c).mp hcp) hr⟩
        · rintro (h1 | ⟨p, hp, hr⟩)
          · exact Or.inl (Or.inl h1)
          · rcases hr.cases_head with rfl | ⟨b, he, hr'⟩
            · exact Or.inl (Or.inr hp)
            · exact Or.inr ⟨b, List.mem_flatMap.mpr ⟨p, hp, (mem_kids h hk p b).mpr he⟩, hr'⟩
      · intro c hc
        obtain ⟨p, _, hcp⟩ := List.mem_flatMap.mp hc
        exact (mem_targets h c).mpr ⟨p, (mem_kids h hk p c).mp hcp⟩
      · intro c hc l r hch
        obtain ⟨p, hp, hcp⟩ := List.mem_flatMap.mp hc
        have hpc := (hpo c p).mpr ((mem_kids h hk p c).mp hcp)
        cases hch with
        | root hx => rw [hpc] at hx; cases hx
        | step hx _ _ _ hch' =>
          rw [hpc] at hx
          cases hx
          have := hfuel p hp _ r hch'
          simp
          omega

theorem allChildReferences_healthy (h : Heap) (hk : (AList.keys h).Nodup) (R : List SlabID)
    (hh : Healthy h R) (root : SlabID) (hroot : AList.contains h root = true) :
    ∃ refs broken, allChildReferences h root = some (refs, broken) ∧ broken = [] ∧
      (∀ id, id ∈ refs ↔ (Reach h root id ∧ id ≠ root)) := by
  obtain ⟨po, hpo⟩ := exists_parentMap hh
  obtain ⟨s, hs⟩ := (contains_iff_find h root).mp hroot
  have hedge : ∀ c, c ∈ s.refs ↔ (root, c) ∈ edges h := by
    intro c
    rw [mem_edges_find h hk]
    simp [hs]
  obtain ⟨hb, hr⟩ := childRefs_spec hh hk hpo (h.length + 1) s.refs [] []
    (fun y hy => (mem_targets h y).mpr ⟨root, (hedge y).mp hy⟩)
    (fun _ _ _ _ _ => by omega)
  refine ⟨(childRefs h (h.length + 1) s.refs [] []).1, (childRefs h (h.length + 1) s.refs [] []).2,
    by simp [allChildReferences, hs], hb, ?_⟩
  intro id
  rw [hr id]
  simp only [List.not_mem_nil, false_or]
  have hrk := (contains_iff_mem_keys h root).mp hroot
  constructor
  · rintro ⟨y, hy, hreach⟩
    refine ⟨Reach.head ((hedge y).mp hy) hreach, ?_⟩
    rintro rfl
    obtain ⟨l, r, hc, _⟩ := chain_exists hh hpo hrk
    have hcy := chain_step_of_edge hh hpo ((hedge y).mp hy) hc
    obtain ⟨l', hc', _⟩ := chain_extend_of_reach hh hpo hcy hreach
    exact hc'.not_mem (by simp)
  · rintro ⟨hreach, hne⟩
    rcases hreach.cases_head with rfl | ⟨b, he, hr'⟩
    · exact absurd rfl hne
    · exact ⟨b, (hedge b).mpr he, hr'⟩

end Health
end Atree
