import AtreeProofs.Health.Check
/-
  C20 helper lemmas, part 4: the breadth-first `childRefs` query.

  * exact behaviour of `childRefs` on EVERY heap: the levels it visits (`lvl`), what it returns when
    they die out within the fuel, `diverges` otherwise;
  * levels are paths (`PathL`), paths are `Reach`;
  * without a cycle below the root a path has at most `h.length` edges, so the query terminates and
    returns exactly the resolvable / the broken references reachable through resolvable slabs
    (`allChildReferences_general`); with a cycle it diverges (`allChildReferences_diverges_iff`);
  * the healthy case (`allChildReferences_healthy`) as a corollary.
-/
namespace Atree
namespace Health

/-- every healthy heap has a parent map (the one computed by `scan`) -/
theorem exists_parentMap {h : Heap} {R : List SlabID} (hh : Healthy h R) :
    ∃ po, IsParentMap h po := by
  obtain ⟨po, lv, hscan⟩ := scan_succeeds h [] [] hh.single (by intro t _; rfl)
  obtain ⟨_, _, hfind, _⟩ := scan_ok _ _ _ _ _ hscan
  refine ⟨po, ?_⟩
  intro c p
  rw [hfind c p]
  simp

/-- the references of the slab stored under `r` (none if `r` does not resolve) -/
def kids (h : Heap) (r : SlabID) : List SlabID :=
  match AList.find? h r with
  | some s => s.refs
  | none => []

theorem mem_kids (h : Heap) (hk : (AList.keys h).Nodup) (y c : SlabID) :
    c ∈ kids h y ↔ (y, c) ∈ edges h := by
  rw [mem_edges_find h hk, kids]
  cases AList.find? h y <;> simp

/-- the resolvable / the unresolvable members of a level -/
def resOf (h : Heap) (l : List SlabID) : List SlabID := l.filter (fun r => AList.contains h r)
def brkOf (h : Heap) (l : List SlabID) : List SlabID := l.filter (fun r => !AList.contains h r)

theorem mem_resOf (h : Heap) (l : List SlabID) (x : SlabID) :
    x ∈ resOf h l ↔ x ∈ l ∧ AList.contains h x = true := by simp [resOf]

theorem mem_brkOf (h : Heap) (l : List SlabID) (x : SlabID) :
    x ∈ brkOf h l ↔ x ∈ l ∧ AList.contains h x = false := by simp [brkOf]

theorem resOf_append (h : Heap) (a b : List SlabID) : resOf h (a ++ b) = resOf h a ++ resOf h b := by
  simp [resOf]

theorem brkOf_append (h : Heap) (a b : List SlabID) : brkOf h (a ++ b) = brkOf h a ++ brkOf h b := by
  simp [brkOf]

/-- one level of the breadth-first traversal, on any heap -/
theorem foldl_levelStep (h : Heap) (level a b c : List SlabID) :
    level.foldl (levelStep h) (a, b, c)
      = (a ++ resOf h level, b ++ brkOf h level, c ++ level.flatMap (kids h)) := by
  induction level generalizing a b c with
  | nil => simp [resOf, brkOf]
  | cons r rest ih =>
    rw [List.foldl_cons]
    cases hs : AList.find? h r with
    | none =>
      have hc : AList.contains h r = false := by rw [AList.contains_eq, hs]; rfl
      have : levelStep h (a, b, c) r = (a, b ++ [r], c) := by simp [levelStep, hs]
      rw [this, ih]
      simp [resOf, brkOf, hc, kids, hs]
    | some s =>
      have hc : AList.contains h r = true := by rw [AList.contains_eq, hs]; rfl
      have : levelStep h (a, b, c) r = (a ++ [r], b, c ++ s.refs) := by simp [levelStep, hs]
      rw [this, ih]
      simp [resOf, brkOf, hc, kids, hs]

theorem childRefs_nil (h : Heap) (fuel : Nat) (refs broken : List SlabID) :
    childRefs h fuel [] refs broken = .ok (refs, broken) := by
  cases fuel <;> simp [childRefs]

theorem childRefs_zero_cons (h : Heap) (y : SlabID) (ys refs broken : List SlabID) :
    childRefs h 0 (y :: ys) refs broken = .error .diverges := by
  simp [childRefs]

theorem childRefs_step (h : Heap) (fuel : Nat) (y : SlabID) (ys refs broken : List SlabID) :
    childRefs h (fuel + 1) (y :: ys) refs broken =
      childRefs h fuel ((y :: ys).flatMap (kids h)) (refs ++ resOf h (y :: ys))
        (broken ++ brkOf h (y :: ys)) := by
  have h1 : childRefs h (fuel + 1) (y :: ys) refs broken =
      childRefs h fuel ((y :: ys).foldl (levelStep h) (refs, broken, [])).2.2
        ((y :: ys).foldl (levelStep h) (refs, broken, [])).1
        ((y :: ys).foldl (levelStep h) (refs, broken, [])).2.1 := by
    rw [childRefs]
  rw [h1, foldl_levelStep h (y :: ys) refs broken []]
  simp only [List.nil_append]

/-! ### levels -/

/-- the `k`-th level of the traversal started with the level `l` -/
def lvl (h : Heap) : Nat → List SlabID → List SlabID
  | 0, l => l
  | k + 1, l => lvl h k (l.flatMap (kids h))

/-- the first `n` levels, concatenated -/
def upTo (h : Heap) : Nat → List SlabID → List SlabID
  | 0, _ => []
  | n + 1, l => l ++ upTo h n (l.flatMap (kids h))

theorem lvl_nil (h : Heap) (k : Nat) : lvl h k [] = [] := by
  induction k with
  | zero => rfl
  | succ k ih => simpa [lvl] using ih

theorem upTo_nil (h : Heap) (n : Nat) : upTo h n [] = [] := by
  induction n with
  | zero => rfl
  | succ n ih => simpa [upTo] using ih

theorem mem_upTo (h : Heap) (n : Nat) (l : List SlabID) (x : SlabID) :
    x ∈ upTo h n l ↔ ∃ k, k < n ∧ x ∈ lvl h k l := by
  induction n generalizing l with
  | zero => simp [upTo]
  | succ n ih =>
    rw [upTo, List.mem_append, ih]
    constructor
    · rintro (h1 | ⟨k, hk, hx⟩)
      · exact ⟨0, by omega, h1⟩
      · exact ⟨k + 1, by omega, hx⟩
    · rintro ⟨k, hk, hx⟩
      cases k with
      | zero => exact Or.inl hx
      | succ k => exact Or.inr ⟨k, by omega, hx⟩

/-- EXACT behaviour of `childRefs`, on every heap: if the levels die out within the fuel, the
    resolvable and the unresolvable members of all levels; `diverges` otherwise. -/
theorem childRefs_eq (h : Heap) : ∀ (fuel : Nat) (level refs broken : List SlabID),
    childRefs h fuel level refs broken =
      if lvl h fuel level = [] then
        .ok (refs ++ resOf h (upTo h fuel level), broken ++ brkOf h (upTo h fuel level))
      else .error .diverges := by
  intro fuel
  induction fuel with
  | zero =>
    intro level refs broken
    cases level with
    | nil => simp [childRefs_nil, lvl, upTo, resOf, brkOf]
    | cons y ys => simp [childRefs_zero_cons, lvl]
  | succ fuel ih =>
    intro level refs broken
    cases level with
    | nil => simp [childRefs_nil, lvl_nil, upTo_nil, resOf, brkOf]
    | cons y ys =>
      rw [childRefs_step, ih]
      simp only [lvl, upTo, resOf_append, brkOf_append, List.append_assoc]

/-! ### paths -/

/-- `PathL h a l c`: a path from `a` to `c` along references; `l` lists the SOURCES of its edges
    (`a` first), so `l.length` is the number of edges. -/
inductive PathL (h : Heap) : SlabID → List SlabID → SlabID → Prop where
  | nil (a : SlabID) : PathL h a [] a
  | cons {a b c : SlabID} {l : List SlabID} : (a, b) ∈ edges h → PathL h b l c → PathL h a (a :: l) c

theorem PathL.reach {h : Heap} {a c : SlabID} {l : List SlabID} (hp : PathL h a l c) :
    Reach h a c := by
  induction hp with
  | nil => exact Reach.refl _
  | cons he _ ih => exact Reach.head he ih

theorem PathL.snoc {h : Heap} {a b c : SlabID} {l : List SlabID} (hp : PathL h a l b)
    (he : (b, c) ∈ edges h) : PathL h a (l ++ [b]) c := by
  induction hp with
  | nil => exact PathL.cons he (PathL.nil c)
  | cons he' _ ih => exact PathL.cons he' (ih he)

theorem PathL.of_reach {h : Heap} {a c : SlabID} (hr : Reach h a c) : ∃ l, PathL h a l c := by
  induction hr with
  | refl => exact ⟨[], PathL.nil _⟩
  | step _ he ih =>
    obtain ⟨l, hp⟩ := ih
    exact ⟨_, hp.snoc he⟩

theorem PathL.append {h : Heap} {a b c : SlabID} {l l' : List SlabID} (hp : PathL h a l b)
    (hq : PathL h b l' c) : PathL h a (l ++ l') c := by
  induction hp with
  | nil => exact hq
  | cons he _ ih => exact PathL.cons he (ih hq)

/-- every source of a path is reached from its start, and is a slab of the heap -/
theorem PathL.source_reach {h : Heap} {a c : SlabID} {l : List SlabID} (hp : PathL h a l c) :
    ∀ v ∈ l, Reach h a v ∧ v ∈ AList.keys h := by
  induction hp with
  | nil => intro v hv; cases hv
  | @cons a b c l he _ ih =>
    intro v hv
    rcases List.mem_cons.mp hv with rfl | hv
    · exact ⟨Reach.refl _, source_mem_keys h _ b he⟩
    · exact ⟨Reach.head he (ih v hv).1, (ih v hv).2⟩

/-- every prefix of a path is a path -/
theorem PathL.take {h : Heap} {a c : SlabID} {l : List SlabID} (hp : PathL h a l c) (m : Nat) :
    ∃ z, PathL h a (l.take m) z := by
  induction hp generalizing m with
  | nil => exact ⟨_, by simpa using PathL.nil _⟩
  | @cons a b c l he _ ih =>
    cases m with
    | zero => exact ⟨a, by simpa using PathL.nil a⟩
    | succ m =>
      obtain ⟨z, hz⟩ := ih m
      exact ⟨z, by simpa using PathL.cons he hz⟩

/-- without a cycle below the start the sources of a path are pairwise distinct -/
theorem PathL.nodup {h : Heap} {a c : SlabID} {l : List SlabID} (hp : PathL h a l c)
    (hac : NoCycleBelow h a) : l.Nodup := by
  induction hp with
  | nil => exact List.nodup_nil
  | @cons a b c l he hp' ih =>
    have hac' : NoCycleBelow h b := fun x y hx hxy => hac x y (Reach.head he hx) hxy
    refine List.nodup_cons.mpr ⟨?_, ih hac'⟩
    intro ha
    exact hac a b (Reach.refl a) he (hp'.source_reach a ha).1

/-- ... so the path has at most as many edges as the heap has slabs -/
theorem PathL.length_le {h : Heap} {a c : SlabID} {l : List SlabID} (hp : PathL h a l c)
    (hac : NoCycleBelow h a) : l.length ≤ h.length := by
  have hnd := hp.nodup hac
  have hsub : l ⊆ AList.keys h := fun v hv => (hp.source_reach v hv).2
  have := hnd.length_le_of_subset hsub
  simpa [AList.keys] using this

/-- levels are ends of paths -/
theorem mem_lvl (h : Heap) (hk : (AList.keys h).Nodup) (k : Nat) (l : List SlabID) (x : SlabID) :
    x ∈ lvl h k l ↔ ∃ y ∈ l, ∃ p, PathL h y p x ∧ p.length = k := by
  induction k generalizing l with
  | zero =>
    simp only [lvl]
    constructor
    · intro hx; exact ⟨x, hx, [], PathL.nil x, rfl⟩
    · rintro ⟨y, hy, p, hp, hlen⟩
      cases hp with
      | nil => exact hy
      | cons _ _ => simp at hlen
  | succ k ih =>
    rw [lvl, ih]
    constructor
    · rintro ⟨b, hb, p, hp, hlen⟩
      obtain ⟨y, hy, hyb⟩ := List.mem_flatMap.mp hb
      exact ⟨y, hy, y :: p, PathL.cons ((mem_kids h hk y b).mp hyb) hp, by simp [hlen]⟩
    · rintro ⟨y, hy, p, hp, hlen⟩
      cases hp with
      | nil => simp at hlen
      | @cons _ b _ p' he hp' =>
        exact ⟨b, List.mem_flatMap.mpr ⟨y, hy, (mem_kids h hk y b).mpr he⟩, p', hp',
          by simpa using hlen⟩

/-! ### the query from a slab of the heap -/

/-- the levels below `root` are ends of non-empty paths from `root` -/
theorem mem_lvl_root (h : Heap) (hk : (AList.keys h).Nodup) (root : SlabID) (s : HSlab)
    (hs : AList.find? h root = some s) (k : Nat) (x : SlabID) :
    x ∈ lvl h k s.refs ↔ ∃ p, PathL h root p x ∧ p.length = k + 1 := by
  have hedge : ∀ c, c ∈ s.refs ↔ (root, c) ∈ edges h := by
    intro c
    rw [mem_edges_find h hk]
    simp [hs]
  rw [mem_lvl h hk]
  constructor
  · rintro ⟨y, hy, p, hp, hlen⟩
    exact ⟨root :: p, PathL.cons ((hedge y).mp hy) hp, by simp [hlen]⟩
  · rintro ⟨p, hp, hlen⟩
    cases hp with
    | nil => simp at hlen
    | @cons _ b _ p' he hp' => exact ⟨b, (hedge b).mpr he, p', hp', by simpa using hlen⟩

/-- a non-empty path from `root` ends at the target of an edge whose source `root` reaches -/
theorem pathL_succ_iff (h : Heap) (root x : SlabID) :
    (∃ p, PathL h root p x ∧ 0 < p.length) ↔ ∃ q, Reach h root q ∧ (q, x) ∈ edges h := by
  constructor
  · rintro ⟨p, hp, hlen⟩
    -- peel the last edge: induction on the path
    have key : ∀ {a c : SlabID} {l : List SlabID}, PathL h a l c → 0 < l.length →
        ∃ q, Reach h a q ∧ (q, c) ∈ edges h := by
      intro a c l hp
      induction hp with
      | nil => intro hl; simp at hl
      | @cons a b c l he hp' ih =>
        intro _
        cases hp' with
        | nil => exact ⟨a, Reach.refl a, he⟩
        | cons he' hp'' =>
          obtain ⟨q, hq, hqc⟩ := ih (by simp)
          exact ⟨q, Reach.head he hq, hqc⟩
    exact key hp hlen
  · rintro ⟨q, hq, he⟩
    obtain ⟨l, hp⟩ := PathL.of_reach hq
    exact ⟨l ++ [q], hp.snoc he, by simp⟩

/-- GENERAL statement for the all-child-references query (no `Healthy` hypothesis): on a heap with
    unique keys and no reference cycle below `root`, the query terminates; it reports as references
    exactly the slabs of the heap, and as broken references exactly the identifiers that are not in
    the heap, that are the target of a reference held by a slab reachable from `root` (through
    slabs of the heap: only those have references). -/
theorem allChildReferences_general (h : Heap) (hk : (AList.keys h).Nodup) (root : SlabID)
    (hroot : AList.contains h root = true) (hac : NoCycleBelow h root) :
    ∃ refs broken, allChildReferences h root = .ok (refs, broken) ∧
      (∀ id, id ∈ refs ↔ (AList.contains h id = true ∧ ∃ p, Reach h root p ∧ (p, id) ∈ edges h)) ∧
      (∀ id, id ∈ broken ↔ (AList.contains h id = false ∧ ∃ p, Reach h root p ∧ (p, id) ∈ edges h)) := by
  obtain ⟨s, hs⟩ := (contains_iff_find h root).mp hroot
  have hdead : lvl h (h.length + 1) s.refs = [] := by
    apply List.eq_nil_iff_forall_not_mem.mpr
    intro x hx
    obtain ⟨p, hp, hlen⟩ := (mem_lvl_root h hk root s hs _ x).mp hx
    have := hp.length_le hac
    omega
  have hmem : ∀ x, x ∈ upTo h (h.length + 1) s.refs ↔ ∃ q, Reach h root q ∧ (q, x) ∈ edges h := by
    intro x
    rw [mem_upTo, ← pathL_succ_iff]
    constructor
    · rintro ⟨k, _, hx⟩
      obtain ⟨p, hp, hlen⟩ := (mem_lvl_root h hk root s hs k x).mp hx
      exact ⟨p, hp, by omega⟩
    · rintro ⟨p, hp, hlen⟩
      have hle := hp.length_le hac
      exact ⟨p.length - 1, by omega, (mem_lvl_root h hk root s hs _ x).mpr ⟨p, hp, by omega⟩⟩
  refine ⟨resOf h (upTo h (h.length + 1) s.refs), brkOf h (upTo h (h.length + 1) s.refs), ?_, ?_, ?_⟩
  · simp [allChildReferences, hs, childRefs_eq, hdead]
  · intro id
    rw [mem_resOf, hmem]
    exact And.comm
  · intro id
    rw [mem_brkOf, hmem]
    exact And.comm

/-- With a cycle below `root` the query diverges, and only then: the model answers `diverges`
    exactly on the heaps on which the Go loop does not terminate. -/
theorem allChildReferences_diverges_iff (h : Heap) (hk : (AList.keys h).Nodup) (root : SlabID)
    (hroot : AList.contains h root = true) :
    allChildReferences h root = .error .diverges ↔ ¬ NoCycleBelow h root := by
  constructor
  · intro hd hac
    obtain ⟨refs, broken, hok, _⟩ := allChildReferences_general h hk root hroot hac
    rw [hok] at hd
    cases hd
  · intro hnc
    obtain ⟨s, hs⟩ := (contains_iff_find h root).mp hroot
    -- a cycle: x reachable, edge x → y, y reaches x
    have : ∃ x y, Reach h root x ∧ (x, y) ∈ edges h ∧ Reach h y x := by
      apply Classical.byContradiction
      intro hne
      exact hnc (fun x y hx hxy hyx => hne ⟨x, y, hx, hxy, hyx⟩)
    obtain ⟨x, y, hx, hxy, hyx⟩ := this
    obtain ⟨l0, hp0⟩ := PathL.of_reach hx
    obtain ⟨l1, hp1⟩ := PathL.of_reach hyx
    -- the cycle as a path x → x with at least one edge, and its powers
    have hcyc : PathL h x (x :: l1) x := PathL.cons hxy hp1
    have hpow : ∀ j : Nat, ∃ l, PathL h x l x ∧ j ≤ l.length := by
      intro j
      induction j with
      | zero => exact ⟨[], PathL.nil x, Nat.le_refl _⟩
      | succ j ih =>
        obtain ⟨l, hl, hlen⟩ := ih
        exact ⟨(x :: l1) ++ l, hcyc.append hl, by simp; omega⟩
    -- hence a path from root with exactly h.length + 2 edges
    obtain ⟨l, hl, hlen⟩ := hpow (h.length + 2)
    obtain ⟨z, hz⟩ := (hp0.append hl).take (h.length + 2)
    have hzlen : ((l0 ++ l).take (h.length + 2)).length = h.length + 1 + 1 := by
      rw [List.length_take, List.length_append]; omega
    have hne : lvl h (h.length + 1) s.refs ≠ [] := by
      intro he
      have := (mem_lvl_root h hk root s hs (h.length + 1) z).mpr ⟨_, hz, hzlen⟩
      rw [he] at this
      cases this
    simp [allChildReferences, hs, childRefs_eq, hne]

/-! ### the healthy case -/

/-- a healthy heap has no reference cycle -/
theorem Healthy.noCycleBelow {h : Heap} {R : List SlabID} (hh : Healthy h R) (root : SlabID) :
    NoCycleBelow h root := by
  obtain ⟨po, hpo⟩ := exists_parentMap hh
  intro x y _ hxy hyx
  have hxk : x ∈ AList.keys h := source_mem_keys h x y hxy
  obtain ⟨l, r, hc, _⟩ := chain_exists hh hpo hxk
  have hcy := chain_step_of_edge hh hpo hxy hc
  obtain ⟨l', hc', _⟩ := chain_extend_of_reach hh hpo hcy hyx
  exact hc'.not_mem (by simp)

theorem allChildReferences_healthy (h : Heap) (hk : (AList.keys h).Nodup) (R : List SlabID)
    (hh : Healthy h R) (root : SlabID) (hroot : AList.contains h root = true) :
    ∃ refs broken, allChildReferences h root = .ok (refs, broken) ∧ broken = [] ∧
      (∀ id, id ∈ refs ↔ (Reach h root id ∧ id ≠ root)) := by
  have hac := hh.noCycleBelow root
  obtain ⟨refs, broken, hok, hrefs, hbroken⟩ := allChildReferences_general h hk root hroot hac
  refine ⟨refs, broken, hok, ?_, ?_⟩
  · apply List.eq_nil_iff_forall_not_mem.mpr
    intro id hid
    obtain ⟨hc, p, _, he⟩ := (hbroken id).mp hid
    have := hh.resolves _ he
    simp only at this
    rw [hc] at this
    cases this
  · intro id
    rw [hrefs id]
    constructor
    · rintro ⟨_, p, hp, he⟩
      refine ⟨Reach.step hp he, ?_⟩
      rintro rfl
      exact hac p id hp he hp
    · rintro ⟨hreach, hne⟩
      cases hreach with
      | refl => exact absurd rfl hne
      | step hp he => exact ⟨hh.resolves _ he, _, hp, he⟩

end Health
end Atree
