import AtreeProofs.Health.Check
/-
  C20 helper lemmas, part 10: the outcome of `Health.check` does not depend on the ORDER in which the
  slabs are visited (Go iterates maps in random order; the model iterates the association list).

  `check_order_independent`: for two orders `h ~ h'` of one heap with unique keys
    * if one run accepts, so does the other, with the same set of roots;
    * if both fail and neither diverges, the SAME check fired.
  This is what allows the replayer to compare error kinds exactly.  (Divergence is the only outcome
  that can compete with another one: an owner mismatch on one parent chain and a reference cycle on
  another are met in iteration order.)
-/
namespace Atree
namespace Health

/-! ### errors of the first loop -/

theorem scanRefs_error (id : SlabID) (rs : List SlabID) (po : AList SlabID SlabID) (e : HErr)
    (h : scanRefs id rs po = .error e) : e = .twoParents := by
  induction rs generalizing po with
  | nil => simp [scanRefs] at h
  | cons r rs ih =>
    rw [scanRefs] at h
    split at h
    · cases h; rfl
    · exact ih _ h

theorem scan_error (h : Heap) (po : AList SlabID SlabID) (lv : List SlabID) (e : HErr)
    (hs : scan h po lv = .error e) : e = .twoParents := by
  induction h generalizing po lv with
  | nil => simp [scan] at hs
  | cons p rest ih =>
    obtain ⟨id, s⟩ := p
    rw [scan] at hs
    split at hs
    · rename_i e' he
      cases hs
      exact scanRefs_error _ _ _ _ he
    · exact ih _ _ hs

theorem scan_of_not_nodup (h : Heap) (hn : ¬ (targets h).Nodup) :
    scan h [] [] = .error .twoParents := by
  cases hs : scan h [] [] with
  | error e => rw [scan_error _ _ _ _ hs]
  | ok r =>
    obtain ⟨po, lv⟩ := r
    exact absurd (scan_ok _ _ _ _ _ hs).1 hn

/-- a successful first loop yields the parent map and the leaves -/
theorem scan_result (h : Heap) (po : AList SlabID SlabID) (lv : List SlabID)
    (hs : scan h [] [] = .ok (po, lv)) : IsParentMap h po ∧ lv = leavesOf h := by
  obtain ⟨_, _, hfind, hlv⟩ := scan_ok _ _ _ _ _ hs
  refine ⟨?_, by simpa using hlv⟩
  intro c p
  rw [hfind c p]
  simp

/-! ### evaluation of `check` stage by stage -/

theorem check_of_scan_error (h : Heap) (e : Option Nat) (k : HErr) (hs : scan h [] [] = .error k) :
    check h e = .error k := by
  simp [check, hs]

theorem check_of_unresolved (h : Heap) (e : Option Nat) (po : AList SlabID SlabID) (lv : List SlabID)
    (hs : scan h [] [] = .ok (po, lv)) (hr : allResolve h po = false) :
    check h e = .error .slabNotFound := by
  simp [check, hs, hr]

theorem check_of_climb_error (h : Heap) (e : Option Nat) (po : AList SlabID SlabID)
    (lv : List SlabID) (k : HErr) (hs : scan h [] [] = .ok (po, lv)) (hr : allResolve h po = true)
    (hc : climbAll h po lv [] [] = .error k) : check h e = .error k := by
  simp [check, hs, hr, hc]

theorem check_of_climb_ok (h : Heap) (e : Option Nat) (po : AList SlabID SlabID) (lv v r : List SlabID)
    (hs : scan h [] [] = .ok (po, lv)) (hr : allResolve h po = true)
    (hc : climbAll h po lv [] [] = .ok (v, r)) :
    check h e =
      if v.length ≠ h.length then .error .unreachable
      else match e with
        | some n => if r.length ≠ n then .error .rootCount else .ok r
        | none => .ok r := by
  unfold check
  rw [hs]
  simp only [hr, Bool.not_true, Bool.false_eq_true, if_false, hc]
  rfl

/-! ### the second loop: which errors, and when it succeeds -/

variable {h : Heap} {po : AList SlabID SlabID}

theorem climb_error_kind (hpo : IsParentMap h po) (fuel : Nat) (x : SlabID) (v rts : List SlabID)
    (e : HErr) (hx : x ∈ AList.keys h) (herr : climb h po fuel x v rts = .error e) :
    e = .owner ∨ e = .diverges := by
  induction fuel generalizing x v with
  | zero =>
    simp only [climb, Except.error.injEq] at herr
    exact Or.inr herr.symm
  | succ fuel ih =>
    rw [climb] at herr
    split at herr
    · cases herr
    · rename_i p hpx
      have hedge : (p, x) ∈ edges h := (hpo x p).mp hpx
      have hpk : p ∈ AList.keys h := source_mem_keys h p x hedge
      split at herr
      · rename_i c ps hc hp
        split at herr
        · cases herr; exact Or.inl rfl
        · exact ih p _ hpk herr
      · rename_i hnot
        exfalso
        obtain ⟨c, hc⟩ := (contains_iff_find h x).mp ((contains_iff_mem_keys h x).mpr hx)
        obtain ⟨ps, hp⟩ := (contains_iff_find h p).mp ((contains_iff_mem_keys h p).mpr hpk)
        exact hnot c ps hc hp

theorem leaf_mem_keys (leaf : SlabID) (hl : leaf ∈ leavesOf h) : leaf ∈ AList.keys h := by
  obtain ⟨s, hm, _⟩ := (mem_leavesOf h leaf).mp hl
  exact List.mem_map.mpr ⟨(leaf, s), hm, rfl⟩

/-- the second loop either succeeds - exactly when every leaf has a parent chain that passes the
    owner test and ends in a root - or fails with `owner` or `diverges` -/
theorem climbAll_cases (hk : (AList.keys h).Nodup) (hpo : IsParentMap h po) (lv v rts : List SlabID)
    (hsub : ∀ leaf ∈ lv, leaf ∈ leavesOf h) (hnd : lv.Nodup) (hnv : ∀ leaf ∈ lv, leaf ∉ v) :
    ((∀ leaf ∈ lv, ∃ l r, Chain h po leaf l r) →
      ∃ v' r', climbAll h po lv v rts = .ok (v', r')) ∧
    (¬ (∀ leaf ∈ lv, ∃ l r, Chain h po leaf l r) →
      climbAll h po lv v rts = .error .owner ∨ climbAll h po lv v rts = .error .diverges) := by
  constructor
  · intro hch
    refine climbAll_succeeds lv v rts hnd hnv
      (fun leaf hl c => leaf_not_parent hk hpo (hsub leaf hl) c) ?_
    intro leaf hl
    obtain ⟨l, r, hc⟩ := hch leaf hl
    exact ⟨l, r, hc, Nat.le_of_lt (hc.length_lt (leaf_mem_keys leaf (hsub leaf hl)))⟩
  · intro hnch
    induction lv generalizing v rts with
    | nil => exact absurd (fun leaf hl => by cases hl) hnch
    | cons leaf rest ih =>
      rw [List.nodup_cons] at hnd
      have hnc : v.contains leaf = false := by
        have := hnv leaf (List.mem_cons_self ..)
        simpa using this
      rw [climbAll]
      simp only [hnc, Bool.false_eq_true, if_false]
      cases hcl : climb h po (h.length + 1) leaf (leaf :: v) rts with
      | error e =>
        simp only
        rcases climb_error_kind hpo _ _ _ _ e
          (leaf_mem_keys leaf (hsub leaf (List.mem_cons_self ..))) hcl with rfl | rfl
        · exact Or.inl rfl
        · exact Or.inr rfl
      | ok res =>
        obtain ⟨v1, r1⟩ := res
        simp only
        obtain ⟨l, r, hc, _, hv1, _⟩ := climb_sound _ _ _ _ _ _ hcl
        refine ih _ _ (fun lf hlf => hsub lf (List.mem_cons_of_mem _ hlf)) hnd.2 ?_ ?_
        · intro lf hlf hmem
          rw [hv1, mem_foldl_setInsert, List.mem_cons] at hmem
          rcases hmem with (h1 | h1) | h1
          · exact hnd.1 (h1 ▸ hlf)
          · exact hnv lf (List.mem_cons_of_mem _ hlf) h1
          · obtain ⟨c, hc'⟩ := hc.is_parent lf h1
            exact leaf_not_parent hk hpo (hsub lf (List.mem_cons_of_mem _ hlf)) c hc'
        · intro hall
          apply hnch
          intro lf hlf
          rcases List.mem_cons.mp hlf with rfl | hlf
          · exact ⟨l, r, hc⟩
          · exact hall lf hlf

/-! ### two orders of one heap -/

theorem find?_perm {h h' : Heap} (hk : (AList.keys h).Nodup) (hk' : (AList.keys h').Nodup)
    (hp : h.Perm h') (k : SlabID) : AList.find? h' k = AList.find? h k := by
  cases hf : AList.find? h k with
  | some v =>
    exact (AList.mem_iff_find? h' hk' k v).mp (hp.mem_iff.mp ((AList.mem_iff_find? h hk k v).mpr hf))
  | none =>
    cases hf' : AList.find? h' k with
    | none => rfl
    | some v =>
      have := (AList.mem_iff_find? h hk k v).mp (hp.mem_iff.mpr ((AList.mem_iff_find? h' hk' k v).mpr hf'))
      rw [hf] at this
      cases this

theorem edges_perm' {h h' : Heap} (hp : h.Perm h') : (edges h).Perm (edges h') := by
  unfold edges
  exact hp.flatMap_right _

theorem leavesOf_perm {h h' : Heap} (hp : h.Perm h') : (leavesOf h).Perm (leavesOf h') := by
  unfold leavesOf
  exact (hp.filter _).map _

theorem Chain.transfer {h h' : Heap} {po po' : AList SlabID SlabID}
    (hf : ∀ k, AList.find? h' k = AList.find? h k) (hpf : ∀ c, AList.find? po' c = AList.find? po c)
    {x r : SlabID} {l : List SlabID} (hc : Chain h po x l r) : Chain h' po' x l r := by
  induction hc with
  | root hx => exact Chain.root (by rw [hpf]; exact hx)
  | step hx hfc hfp ho _ ih =>
    exact Chain.step (by rw [hpf]; exact hx) (by rw [hf]; exact hfc) (by rw [hf]; exact hfp) ho ih

theorem allResolve_transfer {h h' : Heap} {po po' : AList SlabID SlabID}
    (hf : ∀ k, AList.find? h' k = AList.find? h k) (hpf : ∀ c, AList.find? po' c = AList.find? po c)
    (hr : allResolve h po = true) : allResolve h' po' = true := by
  rw [allResolve_iff] at hr ⊢
  intro c p hcp
  rw [hpf] at hcp
  have := hr c p hcp
  rw [AList.contains_eq] at this ⊢
  rw [hf]
  exact this

/-- one direction of the comparison (the statement is symmetric in the two orders) -/
theorem check_order_aux (h h' : Heap) (hk : (AList.keys h).Nodup) (hp : h.Perm h')
    (e : Option Nat) :
    (∀ R, check h e = .ok R → ∃ R', check h' e = .ok R' ∧ ∀ id, id ∈ R' ↔ id ∈ R) ∧
    (∀ k k', check h e = .error k → check h' e = .error k' → k ≠ .diverges → k' ≠ .diverges → k' = k) := by
  have hkp : (AList.keys h).Perm (AList.keys h') := hp.map _
  have hk' : (AList.keys h').Nodup := hkp.nodup_iff.mp hk
  have hf := find?_perm hk hk' hp
  have hep := edges_perm' hp
  have htp : (targets h).Perm (targets h') := hep.map _
  have hlen : h'.length = h.length := hp.length_eq.symm
  by_cases hnd : ¬ (targets h).Nodup
  · -- a slab with two parents: the first loop fails, whatever the order
    have h1 := check_of_scan_error h e _ (scan_of_not_nodup h hnd)
    have h2 := check_of_scan_error h' e _ (scan_of_not_nodup h' (fun hn => hnd (htp.nodup_iff.mpr hn)))
    refine ⟨fun R hR => (by rw [h1] at hR; cases hR), fun k k' hk1 hk2 _ _ => ?_⟩
    rw [h1] at hk1; rw [h2] at hk2
    cases hk1; cases hk2; rfl
  · have hnd : (targets h).Nodup := Classical.not_not.mp hnd
    obtain ⟨po, lv, hs⟩ := scan_succeeds h [] [] hnd (by intro t _; rfl)
    obtain ⟨po', lv', hs'⟩ := scan_succeeds h' [] [] (htp.nodup_iff.mp hnd) (by intro t _; rfl)
    obtain ⟨hpo, rfl⟩ := scan_result h po lv hs
    obtain ⟨hpo', rfl⟩ := scan_result h' po' lv' hs'
    have hpf : ∀ c, AList.find? po' c = AList.find? po c := by
      intro c
      cases hx : AList.find? po c with
      | some p => exact (hpo' c p).mpr (hep.mem_iff.mp ((hpo c p).mp hx))
      | none =>
        cases hx' : AList.find? po' c with
        | none => rfl
        | some p =>
          have := (hpo c p).mpr (hep.mem_iff.mpr ((hpo' c p).mp hx'))
          rw [hx] at this
          cases this
    have hpf' : ∀ c, AList.find? po c = AList.find? po' c := fun c => (hpf c).symm
    have hf' : ∀ k, AList.find? h k = AList.find? h' k := fun k => (hf k).symm
    cases hr : allResolve h po with
    | false =>
      -- a reference to a slab that is not there
      have hr' : allResolve h' po' = false := by
        cases hx : allResolve h' po' with
        | false => rfl
        | true => rw [allResolve_transfer hf' hpf' hx] at hr; cases hr
      have h1 := check_of_unresolved h e po _ hs hr
      have h2 := check_of_unresolved h' e po' _ hs' hr'
      refine ⟨fun R hR => (by rw [h1] at hR; cases hR), fun k k' hk1 hk2 _ _ => ?_⟩
      rw [h1] at hk1; rw [h2] at hk2
      cases hk1; cases hk2; rfl
    | true =>
      have hr' := allResolve_transfer hf hpf hr
      have hlp := leavesOf_perm hp
      have hc1 := climbAll_cases hk hpo (leavesOf h) [] [] (fun _ hl => hl) (leavesOf_nodup h hk)
        (fun _ _ hm => by cases hm)
      have hc2 := climbAll_cases hk' hpo' (leavesOf h') [] [] (fun _ hl => hl) (leavesOf_nodup h' hk')
        (fun _ _ hm => by cases hm)
      by_cases hch : ¬ ∀ leaf ∈ leavesOf h, ∃ l r, Chain h po leaf l r
      · -- some leaf has no admissible parent chain: owner mismatch or cycle, in both orders
        have hch' : ¬ ∀ leaf ∈ leavesOf h', ∃ l r, Chain h' po' leaf l r := by
          intro hall
          apply hch
          intro leaf hl
          obtain ⟨l, r, hc⟩ := hall leaf (hlp.mem_iff.mp hl)
          exact ⟨l, r, hc.transfer hf' hpf'⟩
        have e1 := hc1.2 hch
        have e2 := hc2.2 hch'
        refine ⟨fun R hR => ?_, fun k k' hk1 hk2 hn1 hn2 => ?_⟩
        · rcases e1 with e1 | e1 <;> rw [check_of_climb_error h e po _ _ hs hr e1] at hR <;> cases hR
        · have a1 : k = .owner := by
            rcases e1 with e1 | e1 <;> rw [check_of_climb_error h e po _ _ hs hr e1] at hk1 <;> cases hk1
            · rfl
            · exact absurd rfl hn1
          have a2 : k' = .owner := by
            rcases e2 with e2 | e2 <;> rw [check_of_climb_error h' e po' _ _ hs' hr' e2] at hk2 <;> cases hk2
            · rfl
            · exact absurd rfl hn2
          rw [a1, a2]
      · -- both second loops succeed; what they visit and the roots they find are the same sets
        have hch : ∀ leaf ∈ leavesOf h, ∃ l r, Chain h po leaf l r := Classical.not_not.mp hch
        have hch' : ∀ leaf ∈ leavesOf h', ∃ l r, Chain h' po' leaf l r := by
          intro leaf hl
          obtain ⟨l, r, hc⟩ := hch leaf (hlp.mem_iff.mpr hl)
          exact ⟨l, r, hc.transfer hf hpf⟩
        obtain ⟨v, r, hcl⟩ := hc1.1 hch
        obtain ⟨v', r', hcl'⟩ := hc2.1 hch'
        obtain ⟨hv, hrm, hvn, hrn⟩ := climbAll_sound _ _ _ _ _ hcl
        obtain ⟨hv', hrm', hvn', hrn'⟩ := climbAll_sound _ _ _ _ _ hcl'
        have hvmem : ∀ x, x ∈ v' ↔ x ∈ v := by
          intro x
          rw [hv x, hv' x]
          simp only [List.not_mem_nil, false_or]
          constructor
          · rintro ⟨leaf, hl, l, rr, hc, hx⟩
            exact ⟨leaf, hlp.mem_iff.mpr hl, l, rr, hc.transfer hf' hpf', hx⟩
          · rintro ⟨leaf, hl, l, rr, hc, hx⟩
            exact ⟨leaf, hlp.mem_iff.mp hl, l, rr, hc.transfer hf hpf, hx⟩
        have hrmem : ∀ x, x ∈ r' ↔ x ∈ r := by
          intro x
          rw [hrm x, hrm' x]
          simp only [List.not_mem_nil, false_or]
          constructor
          · rintro ⟨leaf, hl, l, hc⟩
            exact ⟨leaf, hlp.mem_iff.mpr hl, l, hc.transfer hf' hpf'⟩
          · rintro ⟨leaf, hl, l, hc⟩
            exact ⟨leaf, hlp.mem_iff.mp hl, l, hc.transfer hf hpf⟩
        have hvl : v'.length = v.length :=
          ((List.perm_ext_iff_of_nodup (hvn' List.nodup_nil) (hvn List.nodup_nil)).mpr hvmem).length_eq
        have hrl : r'.length = r.length :=
          ((List.perm_ext_iff_of_nodup (hrn' List.nodup_nil) (hrn List.nodup_nil)).mpr hrmem).length_eq
        have h1 := check_of_climb_ok h e po _ v r hs hr hcl
        have h2 := check_of_climb_ok h' e po' _ v' r' hs' hr' hcl'
        rw [hvl, hlen, hrl] at h2
        by_cases hun : v.length ≠ h.length
        · rw [if_pos hun] at h1 h2
          refine ⟨fun R hR => (by rw [h1] at hR; cases hR), fun k k' hk1 hk2 _ _ => ?_⟩
          rw [h1] at hk1; rw [h2] at hk2
          cases hk1; cases hk2; rfl
        · rw [if_neg hun] at h1 h2
          cases e with
          | none =>
            simp only at h1 h2
            refine ⟨fun R hR => ?_, fun k k' hk1 _ _ _ => (by rw [h1] at hk1; cases hk1)⟩
            rw [h1] at hR
            cases hR
            exact ⟨r', h2, hrmem⟩
          | some n =>
            simp only at h1 h2
            by_cases hcnt : r.length ≠ n
            · rw [if_pos hcnt] at h1 h2
              refine ⟨fun R hR => (by rw [h1] at hR; cases hR), fun k k' hk1 hk2 _ _ => ?_⟩
              rw [h1] at hk1; rw [h2] at hk2
              cases hk1; cases hk2; rfl
            · rw [if_neg hcnt] at h1 h2
              refine ⟨fun R hR => ?_, fun k k' hk1 _ _ _ => (by rw [h1] at hk1; cases hk1)⟩
              rw [h1] at hR
              cases hR
              exact ⟨r', h2, hrmem⟩

/-- ORDER INDEPENDENCE.  Two orders of one heap with unique keys: the check accepts both or
    neither, with the same set of roots; and when both runs fail without diverging, the same check
    fired. -/
theorem check_order_independent (h h' : Heap) (hk : (AList.keys h).Nodup) (hp : h.Perm h')
    (e : Option Nat) :
    (∀ R, check h e = .ok R → ∃ R', check h' e = .ok R' ∧ ∀ id, id ∈ R' ↔ id ∈ R) ∧
    (∀ R', check h' e = .ok R' → ∃ R, check h e = .ok R ∧ ∀ id, id ∈ R ↔ id ∈ R') ∧
    (∀ k k', check h e = .error k → check h' e = .error k' → k ≠ .diverges → k' ≠ .diverges → k' = k) := by
  have hk' : (AList.keys h').Nodup := (hp.map _).nodup_iff.mp hk
  obtain ⟨a1, a2⟩ := check_order_aux h h' hk hp e
  obtain ⟨b1, _⟩ := check_order_aux h' h hk' hp.symm e
  exact ⟨a1, b1, a2⟩

end Health
end Atree
