import AtreeProofs.Health.MapHeap
import AtreeProofs.Health.ArrayHistory
import AtreeProofs.E2EMap.HistoryFull
import AtreeProofs.Props.E2EMapFull
import AtreeProofs.Props.C20
/-
  C20 for ordered maps, part 2: the storage produced by ANY valid history of map requests is
  `Healthy`.

  * `RefsUniqueM` — the additional history invariant: no two values refer to the same large-value
    slab, no two large-value slabs share an ID; kept by every request (`refsUniqueM_stepM`).
  * `map_history_healthy` — for every history from `NewMap` on an empty storage (hypotheses of
    `map_rep_history`), the heap `mapHeap m created` (tree slabs incl. external collision groups +
    large-value slabs) has unique keys, is `Healthy`, has the map's root among its roots, and is
    exactly what the storage holds at the owner's address (`MRep.view`; the stored form of a data
    slab is stripped of the embedded groups, its references are the same: `stripView_refs`).
    `map_run_healthy` — the same from any `MGoodF` state satisfying `RefsUniqueM`.
  * `map_history_check_accepts` — hence (`C20.health_complete`) `CheckStorageHealth` accepts it.
-/
namespace Atree.E2EM
open Atree Gen Health
open Atree.E2E (find?_append find?_isSome_of_mem_keys find?_map_val check_some_of_none)

variable {β : Type} {r : Nat}

/-- no two values refer to the same large-value slab; the large-value slabs have distinct IDs -/
def RefsUniqueM (st : OMap r × Ctx) : Prop :=
  (valRefs st.1.toList).Nodup ∧ (st.2.created.map (·.1)).Nodup

/-- a stored slab as the health check sees it: its ID and the slab references it contains -/
def MSSlab.toH (id : SlabID) : MSSlab r → HSlab
  | .tree s _ => ⟨id, s.refs⟩
  | .large _ => ⟨id, []⟩

/-! ### the stored form of a slab has the references of the slab -/

theorem stripElem_refs (el : MElemF (MElems r)) :
    MElemF.refs (MElems.refs r) (stripElem el) = MElemF.refs (MElems.refs r) el := by
  cases el <;> rfl

/-- stripping the embedded collision groups keeps the references (the `.ext` element keeps its ID) -/
theorem stripView_refs (v : MSlabView r) : (stripView v).refs = v.refs := by
  cases v with
  | data s =>
    show (s.elems.elems.map stripElem).flatMap (MElemF.refs (MElems.refs r))
      = s.elems.elems.flatMap (MElemF.refs (MElems.refs r))
    generalize s.elems.elems = l
    induction l with
    | nil => rfl
    | cons el l ih => rw [List.map_cons, List.flatMap_cons, List.flatMap_cons, ih, stripElem_refs]
  | index h chs root => rfl
  | group g => rfl

/-! ### the stored form of a value -/

/-- `Value.Storable` of a plain value next to key `k`: the value itself (nothing created), or a
    reference to the one large-value slab it creates, whose ID is the next one of the counter -/
theorem tsv_cases (cfg : MCfg) (k : MKey) (v : Elem) (ctx : Ctx) (hv : ValueOkM v) :
    ((tsv cfg k v ctx).1 = v ∧ (tsv cfg k v ctx).2.created = ctx.created) ∨
    ((tsv cfg k v ctx).1.pay = .ref ⟨cfg.addr, ctx.ctr + 1⟩ ∧
      (tsv cfg k v ctx).2.created = ctx.created ++ [(⟨cfg.addr, ctx.ctr + 1⟩, v)]) := by
  obtain ⟨_, n, hn⟩ := hv
  unfold tsv toStorableLim
  rw [hn]
  simp only
  split
  · right
    simp [Ctx.alloc]
  · left
    simp

theorem valRefs_perm {l₁ l₂ : List (MKey × Elem)} (h : l₁.Perm l₂) : (valRefs l₁).Perm (valRefs l₂) := by
  unfold valRefs elemRefs
  exact (h.map _).filterMap _

theorem valRefs_sublist {l₁ l₂ : List (MKey × Elem)} (h : l₁.Sublist l₂) :
    (valRefs l₁).Sublist (valRefs l₂) := by
  unfold valRefs elemRefs
  exact (h.map _).filterMap _

/-- adding the stored form of a value to (part of) a dictionary with unique references -/
theorem refsUniqueM_add (cfg : MCfg) (k : MKey) (v : Elem) (ctx : Ctx) (hv : ValueOkM v)
    (l l0 l' : List (MKey × Elem)) (k' : MKey) (hsub : l0.Sublist l)
    (hperm : l'.Perm ((k', (tsv cfg k v ctx).1) :: l0))
    (hnd : (valRefs l).Nodup) (hcnd : (ctx.created.map (·.1)).Nodup)
    (hin : ∀ y ∈ valRefs l, y ∈ ctx.created.map (·.1))
    (hle : ∀ p ∈ ctx.created, p.1.idx ≤ ctx.ctr) :
    (valRefs l').Nodup ∧ ((tsv cfg k v ctx).2.created.map (·.1)).Nodup := by
  have hp : (valRefs l').Perm (elemRefs [(tsv cfg k v ctx).1] ++ valRefs l0) := by
    have := valRefs_perm hperm
    rwa [valRefs_cons] at this
  have hsub' : (valRefs l0).Sublist (valRefs l) := valRefs_sublist hsub
  have hnd0 : (valRefs l0).Nodup := hnd.sublist hsub'
  have hfresh : (⟨cfg.addr, ctx.ctr + 1⟩ : SlabID) ∉ ctx.created.map (·.1) := by
    intro hm
    obtain ⟨p, hp, hpe⟩ := List.mem_map.1 hm
    have := hle p hp
    rw [hpe] at this
    simp only at this
    omega
  rcases tsv_cases cfg k v ctx hv with ⟨h1, h2⟩ | ⟨h1, h2⟩
  · rw [h2]
    refine ⟨?_, hcnd⟩
    rw [hp.nodup_iff, h1, elemRefs_val hv.2, List.nil_append]
    exact hnd0
  · constructor
    · rw [hp.nodup_iff, elemRefs_ref h1, List.singleton_append, List.nodup_cons]
      exact ⟨fun hm => hfresh (hin _ (hsub'.subset hm)), hnd0⟩
    · rw [h2, List.map_append, List.nodup_append]
      refine ⟨hcnd, by simp, ?_⟩
      intro x hx y hy hxy
      simp only [List.map_cons, List.map_nil, List.mem_singleton] at hy
      subst hy
      subst hxy
      exact hfresh hx

theorem refsIn_of_mrefsOk {st : OMap r × Ctx} (h : MRefsOk st) :
    ∀ y ∈ valRefs st.1.toList, y ∈ st.2.created.map (·.1) := by
  intro y hy
  obtain ⟨p, hp, hpay⟩ := (mem_valRefs _ y).1 hy
  have := h p hp y hpay
  have hne : AList.find? st.2.created y ≠ none := by
    intro hn; rw [hn] at this; cases this
  exact (AList.find?_ne_none_iff _ _).1 hne

/-! ### every request keeps `RefsUniqueM` -/

theorem refsUniqueM_set {T : Nat} (hT : legalThreshold T = true) {D : DigestFn (r + 1)} {cfg : MCfg}
    (m : OMap r) (ctx : Ctx) (hcfg : CfgOk cfg T m) (hinv : MapInv T D m) (hids : MIdsOk m)
    (hctx : CtxOk m ctx) (hrefs : MRefsOk (m, ctx))
    (hle : ∀ p ∈ ctx.created, p.1.idx ≤ ctx.ctr) (hu : RefsUniqueM (m, ctx))
    (k : MKey) (hk : KeyOk T (r + 1) D k) (v : Elem) (hv : ValueOkM v) :
    RefsUniqueM (stepM cfg (m, ctx) (.set k v)) := by
  simp only [stepM]
  obtain ⟨h1, h2⟩ := OMap.set_spec hT hcfg hinv hk hv ctx
  by_cases hl : TLimited cfg m.d m.root k
  · rw [h1 hl]
    exact hu
  · obtain ⟨old, m', ctx', hr, hp⟩ := h2 hl
    rw [hr]
    obtain ⟨E, C, hlog, _, _, hC⟩ := omap_set_created hT hcfg hinv hk hv ctx hctx hids hr
    have hcre : ctx'.created = (tsv cfg k v ctx).2.created := by rw [hlog.toLog.created]; exact hC
    show (valRefs m'.toList).Nodup ∧ (ctx'.created.map (·.1)).Nodup
    rw [hcre]
    have heff : SetEffect m.toList m'.toList k (tsv cfg k v ctx).1 old := hp.eff
    rcases heff with ⟨_, _, A, B, hA, hB⟩ | ⟨v0, A, B, _, hA, hB⟩
    · rw [hB]
      refine refsUniqueM_add cfg k v ctx hv m.toList (A ++ B) _ k (by rw [hA]; exact List.Sublist.refl _) List.perm_middle
        hu.1 hu.2 (refsIn_of_mrefsOk hrefs) hle
    · rw [hB]
      refine refsUniqueM_add cfg k v ctx hv m.toList (A ++ B) _ k ?_ List.perm_middle
        hu.1 hu.2 (refsIn_of_mrefsOk hrefs) hle
      rw [hA]
      exact List.Sublist.append_left (List.sublist_cons_self _ _) _

theorem refsUniqueM_remove {T : Nat} (hT : legalThreshold T = true) {D : DigestFn (r + 1)} {cfg : MCfg}
    (m : OMap r) (ctx : Ctx) (hcfg : CfgOk cfg T m) (hinv : MapInv T D m) (hids : MIdsOk m)
    (hctx : CtxOk m ctx) (hu : RefsUniqueM (m, ctx)) (k : MKey) (hk : KeyOk T (r + 1) D k) :
    RefsUniqueM (stepM cfg (m, ctx) (.remove k)) := by
  simp only [stepM]
  cases hr : m.remove cfg k ctx with
  | error e => exact hu
  | ok res =>
    obtain ⟨k0, v0, m', ctx'⟩ := res
    obtain ⟨h1, h2⟩ := OMap.remove_spec hT hcfg hinv hk ctx hctx
    by_cases hmem : ∃ v, (k, v) ∈ m.toList
    · obtain ⟨v1, hv1⟩ := hmem
      obtain ⟨m2, c2, hr2, hp⟩ := h2 v1 hv1
      rw [hr] at hr2
      simp only [Except.ok.injEq, Prod.mk.injEq] at hr2
      obtain ⟨rfl, rfl, rfl, rfl⟩ := hr2
      obtain ⟨E, hlog, _⟩ := omap_remove_created hT hcfg hinv hk ctx hctx hids hr
      have hcre : ctx'.created = ctx.created := by rw [hlog.toLog.created, List.append_nil]
      show (valRefs m'.toList).Nodup ∧ (ctx'.created.map (·.1)).Nodup
      rw [hcre]
      refine ⟨?_, hu.2⟩
      obtain ⟨A, B, hA, hB⟩ := hp.eff
      rw [hB]
      refine hu.1.sublist (valRefs_sublist ?_)
      rw [hA]
      exact List.Sublist.append_left (List.sublist_cons_self _ _) _
    · have : m.remove cfg k ctx = .error .keyNotFound := by
        refine h1 ?_
        intro p hp hpk
        exact hmem ⟨p.2, by rw [← hpk]; exact hp⟩
      rw [this] at hr
      cases hr

theorem refsUniqueM_pop {T : Nat} (hT : legalThreshold T = true) {D : DigestFn (r + 1)} {cfg : MCfg}
    (m : OMap r) (ctx : Ctx) (hinv : MapInv T D m) (hctx : CtxOk m ctx) (hu : RefsUniqueM (m, ctx)) :
    RefsUniqueM (stepM cfg (m, ctx) .popIterate) := by
  simp only [stepM]
  obtain ⟨_, hlist, _, _, _⟩ := C02.pop_refines T hT D m hinv ctx hctx
  obtain ⟨_, hcre⟩ := omap_popKeep m ctx
  show (valRefs (m.popIterate ctx).2.1.toList).Nodup ∧ ((m.popIterate ctx).2.2.created.map (·.1)).Nodup
  rw [hlist, hcre]
  exact ⟨List.nodup_nil, hu.2⟩

theorem refsUniqueM_setType {cfg : MCfg} (m : OMap r) (ctx : Ctx) (hu : RefsUniqueM (m, ctx)) (ty : Nat) :
    RefsUniqueM (stepM cfg (m, ctx) (.setType ty)) := by
  simp only [stepM]
  have h1 : (m.setType ty ctx).1.toList = m.toList := rfl
  have h2 : (m.setType ty ctx).2.created = ctx.created := by
    unfold OMap.setType; simp only; split <;> rfl
  show (valRefs (m.setType ty ctx).1.toList).Nodup ∧ ((m.setType ty ctx).2.created.map (·.1)).Nodup
  rw [h1, h2]
  exact hu

/-- EVERY REQUEST keeps `RefsUniqueM` (map model side; the storage plays no role). -/
theorem refsUniqueM_stepM {T : Nat} (hT : legalThreshold T = true) {D : DigestFn (r + 1)} {cfg : MCfg}
    (st : OMap r × Ctx) (hcfg : CfgOk cfg T st.1) (hinv : MapInv T D st.1) (hids : MIdsOk st.1)
    (hctx : CtxOk st.1 st.2) (hrefs : MRefsOk st)
    (hle : ∀ p ∈ st.2.created, p.1.idx ≤ st.2.ctr) (hu : RefsUniqueM st)
    (op : MOp) (hop : op.Ok T D) : RefsUniqueM (stepM cfg st op) := by
  obtain ⟨m, ctx⟩ := st
  cases op with
  | set k v => exact refsUniqueM_set hT m ctx hcfg hinv hids hctx hrefs hle hu k hop.1 v hop.2
  | remove k => exact refsUniqueM_remove hT m ctx hcfg hinv hids hctx hu k hop
  | popIterate => exact refsUniqueM_pop hT m ctx hinv hctx hu
  | setType ty => exact refsUniqueM_setType m ctx hu ty

theorem refsUniqueM_stepS (c : Codec (MSSlab r) β) (T : Nat) (hT : legalThreshold T = true)
    (D : DigestFn (r + 1)) (cfg : MCfg) (x : (OMap r × Ctx) × St (MSSlab r) β)
    (hg : MGoodF c T D cfg x) (hu : RefsUniqueM x.1) (op : MOp) (hop : op.Ok T D) :
    RefsUniqueM (stepS c cfg x op).1 :=
  refsUniqueM_stepM hT x.1 hg.cfg hg.inv hg.ids hg.ctx hg.refs hg.created_le hu op hop

/-- ANY HISTORY, from any good state with unique references: both invariants are kept. -/
theorem refsUniqueM_runS (c : Codec (MSSlab r) β) (hc : RoundTrip c) (T : Nat)
    (hT : legalThreshold T = true) (D : DigestFn (r + 1)) (cfg : MCfg) :
    ∀ (ops : List MOp) (x : (OMap r × Ctx) × St (MSSlab r) β), MGoodF c T D cfg x → RefsUniqueM x.1 →
      (∀ op ∈ ops, op.Ok T D) → MGoodF c T D cfg (runS c cfg x ops) ∧ RefsUniqueM (runS c cfg x ops).1
  | [], _, hg, hu, _ => ⟨hg, hu⟩
  | op :: ops, x, hg, hu, hok => by
    have hop := hok op (by simp)
    exact refsUniqueM_runS c hc T hT D cfg ops (stepS c cfg x op)
      (mgoodF_stepS c hc T hT D cfg x hg op hop).1
      (refsUniqueM_stepS c T hT D cfg x hg hu op hop) (fun o ho => hok o (by simp [ho]))

theorem refsUniqueM_new (c : Codec (MSSlab r) β) (addr ty : Nat) (seedOf : SlabID → Nat) :
    RefsUniqueM (newS c addr ty seedOf).1 :=
  ⟨List.nodup_nil, List.nodup_nil⟩

/-! ### the heap is what the storage holds -/

/-- the health-check view of the slab the storage must hold under `id` (the STORED form: data
    slabs stripped of their embedded groups) is the heap's entry -/
theorem mstored_toH (m : OMap r) (created : List (SlabID × Elem)) (id : SlabID) :
    (mstored m (AList.find? created) id).map (MSSlab.toH id) = AList.find? (mapHeap m created) id := by
  have h1 : AList.find? ((MTree.slabs m.d m.root).map (fun p => (p.1, (⟨p.1, p.2.refs⟩ : HSlab)))) id
      = (AList.find? (MTree.slabs m.d m.root) id).map (fun s => (⟨id, s.refs⟩ : HSlab)) :=
    find?_map_val (fun k (s : MSlabView r) => (⟨k, s.refs⟩ : HSlab)) _ id
  have h2 : AList.find? (created.map (fun p => (p.1, (⟨p.1, []⟩ : HSlab)))) id
      = (AList.find? created id).map (fun _ => (⟨id, []⟩ : HSlab)) :=
    find?_map_val (fun k (_ : Elem) => (⟨k, []⟩ : HSlab)) _ id
  unfold mapHeap
  rw [find?_append, h1, h2]
  unfold mstored OMap.slabAt
  cases hf : AList.find? (MTree.slabs m.d m.root) id with
  | some s =>
    show some (MSSlab.toH id (.tree (stripView s) _)) = _
    show some (⟨id, (stripView s).refs⟩ : HSlab) = _
    rw [stripView_refs]
    rfl
  | none =>
    cases hc : AList.find? created id with
    | some v => rfl
    | none => rfl

/-! ### the main theorems -/

/-- From any state satisfying the history invariants (`MGoodF`, `RefsUniqueM`): the heap of the map
    has unique keys, is healthy, its roots are the map's root slab and the large-value slabs no
    value refers to, and it is what the storage holds at the owner's address. -/
theorem map_state_healthy (c : Codec (MSSlab r) β) (T : Nat) (D : DigestFn (r + 1)) (cfg : MCfg)
    (x : (OMap r × Ctx) × St (MSSlab r) β) (hg : MGoodF c T D cfg x) (hu : RefsUniqueM x.1) :
    (AList.keys (mapHeap x.1.1 x.1.2.created)).Nodup ∧
    Healthy (mapHeap x.1.1 x.1.2.created) (rootsOf (mapHeap x.1.1 x.1.2.created)) ∧
    (∀ id, id ∈ rootsOf (mapHeap x.1.1 x.1.2.created) ↔
      (id = x.1.1.rootID ∨ (id ∈ x.1.2.created.map (·.1) ∧ id ∉ valRefs x.1.1.toList))) ∧
    (∀ id, id.addr = x.1.1.addr →
      (x.2.view c id).map (MSSlab.toH id) = AList.find? (mapHeap x.1.1 x.1.2.created) id) := by
  obtain ⟨h1, h2, h3⟩ := mapHeap_healthy T D x.1.1 x.1.2.created hg.inv hg.ids hg.aok
    (fun p hp y hy => refsIn_of_mrefsOk hg.refs y ((mem_valRefs _ y).2 ⟨p, hp, hy⟩))
    hu.1 hu.2
    (fun p hp => ⟨hg.caddr p hp, by
      have := (hg.rep.extra_fresh p.1 (find?_isSome_of_mem_keys (List.mem_map_of_mem hp))).1
      exact (mslabAt_isNone x.1.1 p.1).1 this⟩)
  refine ⟨h1, h2, h3, ?_⟩
  intro id hid
  rw [hg.rep.view id hid]
  exact mstored_toH _ _ id

/-- ANY HISTORY from any `MGoodF` state with unique references (e.g. the state after a commit). -/
theorem map_run_healthy (c : Codec (MSSlab r) β) (hc : RoundTrip c) (T : Nat)
    (hT : legalThreshold T = true) (D : DigestFn (r + 1)) (cfg : MCfg)
    (x0 : (OMap r × Ctx) × St (MSSlab r) β) (hg : MGoodF c T D cfg x0) (hu : RefsUniqueM x0.1)
    (ops : List MOp) (hops : ∀ op ∈ ops, op.Ok T D) :
    let x := runS c cfg x0 ops
    let m := x.1.1
    let created := x.1.2.created
    (AList.keys (mapHeap m created)).Nodup ∧
    Healthy (mapHeap m created) (rootsOf (mapHeap m created)) ∧
    m.rootID ∈ rootsOf (mapHeap m created) ∧
    (∀ id, id ∈ rootsOf (mapHeap m created) ↔
      (id = m.rootID ∨ (id ∈ created.map (·.1) ∧ id ∉ valRefs m.toList))) ∧
    (∀ id, id.addr = x0.1.1.addr →
      (x.2.view c id).map (MSSlab.toH id) = AList.find? (mapHeap m created) id) ∧
    RefsUniqueM x.1 := by
  intro x m created
  obtain ⟨g, u⟩ := refsUniqueM_runS c hc T hT D cfg ops x0 hg hu hops
  obtain ⟨_, _, rid, _⟩ := mgoodF_runS c hc T hT D cfg ops x0 hg hops
  obtain ⟨h1, h2, h3, h4⟩ := map_state_healthy c T D cfg x g u
  have haddr : m.addr = x0.1.1.addr := by
    show x.1.1.rootID.addr = x0.1.1.rootID.addr
    rw [rid]
  refine ⟨h1, h2, (h3 _).2 (Or.inl rfl), h3, ?_, u⟩
  intro id hid
  exact h4 id (hid.trans haddr.symm)

/-- THE STORAGE OF ANY VALID MAP HISTORY IS HEALTHY.  For every list of requests (set / remove /
    popIterate / setType; keys of any digests — the digest function `D` is arbitrary —, values of
    any size ≥ 1; rejected requests change nothing) starting from `NewMap` on an empty storage: the
    heap made of the slabs of the map's tree (data slabs, index slabs, external collision-group
    slabs) and of the large-value slabs created so far has unique keys, is `Healthy`, the map's
    root slab is one of its roots, and — slab by slab — it is what the storage holds at the
    owner's address. -/
theorem map_history_healthy (c : Codec (MSSlab r) β) (hc : RoundTrip c) (T : Nat)
    (hT : legalThreshold T = true) (D : DigestFn (r + 1)) (cfg : MCfg) (hcT : cfg.T = T)
    (hcL : cfg.L = r + 1) (haddr : cfg.addr ≠ 0) (ty : Nat) (seedOf : SlabID → Nat)
    (ops : List MOp) (hops : ∀ op ∈ ops, op.Ok T D) :
    let x := runS c cfg (newS c cfg.addr ty seedOf) ops
    let m := x.1.1
    let created := x.1.2.created
    (AList.keys (mapHeap m created)).Nodup ∧
    Healthy (mapHeap m created) (rootsOf (mapHeap m created)) ∧
    m.rootID ∈ rootsOf (mapHeap m created) ∧
    (∀ id, id.addr = cfg.addr →
      (x.2.view c id).map (MSSlab.toH id) = AList.find? (mapHeap m created) id) := by
  intro x m created
  obtain ⟨g0, r0, _⟩ := mgoodF_new c hc T hT D cfg hcT hcL haddr ty seedOf
  obtain ⟨h1, h2, h3, _, h5, _⟩ :=
    map_run_healthy c hc T hT D cfg (newS c cfg.addr ty seedOf) g0 (refsUniqueM_new c cfg.addr ty seedOf)
      ops hops
  refine ⟨h1, h2, h3, ?_⟩
  intro id hid
  refine h5 id ?_
  show id.addr = (newS c cfg.addr ty seedOf).1.1.rootID.addr
  rw [r0]; exact hid

/-- the roots after a history: the map's root slab and the orphaned large-value slabs -/
theorem map_history_roots (c : Codec (MSSlab r) β) (hc : RoundTrip c) (T : Nat)
    (hT : legalThreshold T = true) (D : DigestFn (r + 1)) (cfg : MCfg) (hcT : cfg.T = T)
    (hcL : cfg.L = r + 1) (haddr : cfg.addr ≠ 0) (ty : Nat) (seedOf : SlabID → Nat)
    (ops : List MOp) (hops : ∀ op ∈ ops, op.Ok T D) :
    let x := runS c cfg (newS c cfg.addr ty seedOf) ops
    let m := x.1.1
    let created := x.1.2.created
    ∀ id, id ∈ rootsOf (mapHeap m created) ↔
      (id = ⟨cfg.addr, 1⟩ ∨ (id ∈ created.map (·.1) ∧ id ∉ valRefs m.toList)) := by
  intro x m created
  obtain ⟨g0, r0, _⟩ := mgoodF_new c hc T hT D cfg hcT hcL haddr ty seedOf
  obtain ⟨_, _, _, h4, _, _⟩ :=
    map_run_healthy c hc T hT D cfg (newS c cfg.addr ty seedOf) g0 (refsUniqueM_new c cfg.addr ty seedOf)
      ops hops
  obtain ⟨_, _, rid, _⟩ := mgoodF_runS c hc T hT D cfg ops (newS c cfg.addr ty seedOf) g0 hops
  intro id
  rw [h4 id]
  show (id = x.1.1.rootID ∨ _) ↔ _
  rw [rid, r0]

/-- Hence `CheckStorageHealth` (with the right expected root count, or `-1`) ACCEPTS the storage of
    every valid map history, and returns exactly the roots: the map's root slab and the orphaned
    large-value slabs. -/
theorem map_history_check_accepts (c : Codec (MSSlab r) β) (hc : RoundTrip c) (T : Nat)
    (hT : legalThreshold T = true) (D : DigestFn (r + 1)) (cfg : MCfg) (hcT : cfg.T = T)
    (hcL : cfg.L = r + 1) (haddr : cfg.addr ≠ 0) (ty : Nat) (seedOf : SlabID → Nat)
    (ops : List MOp) (hops : ∀ op ∈ ops, op.Ok T D) :
    let x := runS c cfg (newS c cfg.addr ty seedOf) ops
    let h := mapHeap x.1.1 x.1.2.created
    ∃ R, Health.check h none = .ok R ∧ Health.check h (some (rootsOf h).length) = .ok R ∧
      (∀ id, id ∈ R ↔ id ∈ rootsOf h) ∧ R.length = (rootsOf h).length := by
  intro x h
  obtain ⟨h1, h2, _, _⟩ := map_history_healthy c hc T hT D cfg hcT hcL haddr ty seedOf ops hops
  obtain ⟨R, hR, hmem, hlen⟩ := C20.health_complete h h1 _ h2 none (fun n hn => by cases hn)
  refine ⟨R, hR, ?_, hmem, hlen⟩
  rw [← hlen]
  exact check_some_of_none h R hR

/-! ### Non-vacuity

`mhist` / `xM` of `Props/E2EMap.lean` (two digest levels, T = 256, identity codec, owner address 7;
19 `set`s, a `remove`, a value of 5000 bytes, a rejected removal, `SetType`): an index slab 7.1 over
the data slabs 7.3 and 7.4; data slab 7.3 refers to the EXTERNAL COLLISION-GROUP slab 7.2; the value
of key 999 (in 7.4) is a reference to the LARGE-VALUE slab 7.5.  `mhist2` then overwrites that
value: slab 7.5 stays in storage, unreferenced, and becomes a second root. -/
section NonVacuity
open MapExample

/-- the theorem applies to `mhist` … -/
example :
    (AList.keys (mapHeap xM.1.1 xM.1.2.created)).Nodup ∧
    Healthy (mapHeap xM.1.1 xM.1.2.created) (rootsOf (mapHeap xM.1.1 xM.1.2.created)) ∧
    xM.1.1.rootID ∈ rootsOf (mapHeap xM.1.1 xM.1.2.created) ∧
    (∀ id, id.addr = 7 → (xM.2.view idCodecM id).map (MSSlab.toH id)
      = AList.find? (mapHeap xM.1.1 xM.1.2.created) id) :=
  map_history_healthy idCodecM idCodecM_roundTrip 256 legal256 D2 cfg2 rfl rfl (by decide) 0
    (fun id => id.idx) mhist mhist_ok

/-- … whose heap is, by evaluation: -/
example : mapHeap xM.1.1 xM.1.2.created =
    [(⟨7, 1⟩, ⟨⟨7, 1⟩, [⟨7, 3⟩, ⟨7, 4⟩]⟩), (⟨7, 3⟩, ⟨⟨7, 3⟩, [⟨7, 2⟩]⟩), (⟨7, 2⟩, ⟨⟨7, 2⟩, []⟩),
     (⟨7, 4⟩, ⟨⟨7, 4⟩, [⟨7, 5⟩]⟩), (⟨7, 5⟩, ⟨⟨7, 5⟩, []⟩)] := by decide
example : rootsOf (mapHeap xM.1.1 xM.1.2.created) = [⟨7, 1⟩] := by decide
/-- `CheckStorageHealth(storage, 1)` accepts it (and rejects any other root count) -/
example : Health.check (mapHeap xM.1.1 xM.1.2.created) (some 1) = .ok [⟨7, 1⟩] := by decide
example : Health.check (mapHeap xM.1.1 xM.1.2.created) (some 2) = .error .rootCount := by decide
/-- the storage holds exactly these slabs at address 7 (the stored data slab 7.3 is the STRIPPED
    one: its `.ext` element carries the ID 7.2 but not the group) -/
example : ([1, 2, 3, 4, 5, 6].map (fun i => (xM.2.view idCodecM ⟨7, i⟩).map (MSSlab.toH ⟨7, i⟩)))
    = [1, 2, 3, 4, 5, 6].map (fun i => AList.find? (mapHeap xM.1.1 xM.1.2.created) ⟨7, i⟩) := by decide

/-- overwrite the large value -/
def mhist2 : List MOp := mhist ++ [.set (key 999) (val 20)]

theorem mhist2_ok : ∀ op ∈ mhist2, op.Ok 256 D2 := by
  intro op hop
  rcases List.mem_append.1 hop with h | h
  · exact mhist_ok op h
  · simp only [List.mem_singleton] at h
    subst h
    exact ⟨key_ok _, val_ok _⟩

def xM2 : (OMap 1 × Ctx) × St (MSSlab 1) (MSSlab 1) :=
  runS idCodecM cfg2 (newS idCodecM cfg2.addr 0 (fun id => id.idx)) mhist2

example :
    (AList.keys (mapHeap xM2.1.1 xM2.1.2.created)).Nodup ∧
    Healthy (mapHeap xM2.1.1 xM2.1.2.created) (rootsOf (mapHeap xM2.1.1 xM2.1.2.created)) ∧
    xM2.1.1.rootID ∈ rootsOf (mapHeap xM2.1.1 xM2.1.2.created) ∧
    (∀ id, id.addr = 7 → (xM2.2.view idCodecM id).map (MSSlab.toH id)
      = AList.find? (mapHeap xM2.1.1 xM2.1.2.created) id) :=
  map_history_healthy idCodecM idCodecM_roundTrip 256 legal256 D2 cfg2 rfl rfl (by decide) 0
    (fun id => id.idx) mhist2 mhist2_ok

/-- the large-value slab 7.5 is still stored, nobody refers to it: a second root -/
example : mapHeap xM2.1.1 xM2.1.2.created =
    [(⟨7, 1⟩, ⟨⟨7, 1⟩, [⟨7, 3⟩, ⟨7, 4⟩]⟩), (⟨7, 3⟩, ⟨⟨7, 3⟩, [⟨7, 2⟩]⟩), (⟨7, 2⟩, ⟨⟨7, 2⟩, []⟩),
     (⟨7, 4⟩, ⟨⟨7, 4⟩, []⟩), (⟨7, 5⟩, ⟨⟨7, 5⟩, []⟩)] := by decide
example : Health.check (mapHeap xM2.1.1 xM2.1.2.created) (some 2) = .ok [⟨7, 5⟩, ⟨7, 1⟩] := by decide
example : Health.check (mapHeap xM2.1.1 xM2.1.2.created) (some 1) = .error .rootCount := by decide
example : rootsOf (mapHeap xM2.1.1 xM2.1.2.created) = [⟨7, 1⟩, ⟨7, 5⟩] := by decide
example : ∀ id, id ∈ rootsOf (mapHeap xM2.1.1 xM2.1.2.created) ↔
    (id = ⟨7, 1⟩ ∨ (id ∈ xM2.1.2.created.map (·.1) ∧ id ∉ valRefs xM2.1.1.toList)) :=
  map_history_roots idCodecM idCodecM_roundTrip 256 legal256 D2 cfg2 rfl rfl (by decide) 0
    (fun id => id.idx) mhist2 mhist2_ok
example := map_history_check_accepts idCodecM idCodecM_roundTrip 256 legal256 D2 cfg2 rfl rfl (by decide) 0
  (fun id => id.idx) mhist2 mhist2_ok

end NonVacuity

end Atree.E2EM
