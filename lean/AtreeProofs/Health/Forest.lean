import AtreeProofs.Health.Corrupt
/-
  C20 helper lemmas, part 6: how to ESTABLISH `Healthy` for a heap given as a forest.

  `healthy_of_ranked`: a heap with unique keys in which every reference resolves, no slab is
  referenced twice, owners agree along references and some rank strictly increases along every
  reference (so there is no reference cycle) is healthy; its roots are the keys nobody references.

  `healthy_append`: the union of two healthy heaps with disjoint keys is healthy (several
  independent containers in one storage).
-/
namespace Atree
namespace Health

/-- the keys nobody references, in heap order -/
def rootsOf (h : Heap) : List SlabID := (AList.keys h).filter (fun k => decide (k ∉ targets h))

theorem mem_rootsOf (h : Heap) (id : SlabID) :
    id ∈ rootsOf h ↔ (AList.contains h id = true ∧ id ∉ (edges h).map (·.2)) := by
  unfold rootsOf
  rw [List.mem_filter, contains_iff_mem_keys, targets_def]
  simp

theorem healthy_of_ranked (h : Heap) (hk : (AList.keys h).Nodup)
    (hres : ∀ e ∈ edges h, AList.contains h e.2 = true)
    (hsingle : ((edges h).map (·.2)).Nodup)
    (howner : ∀ e ∈ edges h, ∀ p c, AList.find? h e.1 = some p → AList.find? h e.2 = some c →
      p.self.addr = c.self.addr)
    (rk : SlabID → Nat) (hrk : ∀ e ∈ edges h, rk e.1 < rk e.2) :
    Healthy h (rootsOf h) where
  resolves := hres
  single := hsingle
  owner := howner
  roots_iff := mem_rootsOf h
  roots_nodup := List.Nodup.sublist List.filter_sublist hk
  reach := by
    have key : ∀ n id, rk id = n → AList.contains h id = true → ∃ r ∈ rootsOf h, Reach h r id := by
      intro n
      induction n using Nat.strongRecOn with
      | _ n ih =>
        intro id hn hid
        by_cases ht : id ∈ targets h
        · obtain ⟨p, he⟩ := (mem_targets h id).mp ht
          have hp : AList.contains h p = true :=
            (contains_iff_mem_keys h p).mpr (source_mem_keys h p id he)
          have hlt : rk p < n := by have := hrk _ he; simp only at this; omega
          obtain ⟨r, hr, hreach⟩ := ih (rk p) hlt p rfl hp
          exact ⟨r, hr, Reach.step hreach he⟩
        · exact ⟨id, (mem_rootsOf h id).mpr ⟨hid, ht⟩, Reach.refl id⟩
    intro id hid
    exact key (rk id) id rfl hid

/-! ### disjoint union -/

theorem edges_append (h₁ h₂ : Heap) : edges (h₁ ++ h₂) = edges h₁ ++ edges h₂ := by
  simp [edges]

theorem targets_append (h₁ h₂ : Heap) : targets (h₁ ++ h₂) = targets h₁ ++ targets h₂ := by
  simp [targets, edges_append]

theorem keys_append (h₁ h₂ : Heap) : AList.keys (h₁ ++ h₂) = AList.keys h₁ ++ AList.keys h₂ := by
  simp [AList.keys]

theorem contains_append (h₁ h₂ : Heap) (x : SlabID) :
    AList.contains (h₁ ++ h₂) x = true ↔ (AList.contains h₁ x = true ∨ AList.contains h₂ x = true) := by
  rw [contains_iff_mem_keys, contains_iff_mem_keys, contains_iff_mem_keys, keys_append,
    List.mem_append]

theorem find?_append_left (h₁ h₂ : Heap) (x : SlabID) (s : HSlab) (hf : AList.find? h₁ x = some s) :
    AList.find? (h₁ ++ h₂) x = some s := by
  induction h₁ with
  | nil => cases hf
  | cons e rest ih =>
    obtain ⟨k, v⟩ := e
    rw [List.cons_append, AList.find?_cons]
    rw [AList.find?_cons] at hf
    split
    · rename_i hkx; rw [if_pos hkx] at hf; exact hf
    · rename_i hkx; rw [if_neg hkx] at hf; exact ih hf

theorem find?_append_right (h₁ h₂ : Heap) (x : SlabID) (hn : AList.contains h₁ x = false) :
    AList.find? (h₁ ++ h₂) x = AList.find? h₂ x := by
  induction h₁ with
  | nil => rfl
  | cons e rest ih =>
    obtain ⟨k, v⟩ := e
    rw [AList.contains_eq, AList.find?_cons] at hn
    rw [List.cons_append, AList.find?_cons]
    split
    · rename_i hkx; rw [if_pos hkx] at hn; cases hn
    · rename_i hkx
      rw [if_neg hkx] at hn
      exact ih (by rw [AList.contains_eq]; exact hn)

theorem Reach.mono {h h' : Heap} (hsub : ∀ e ∈ edges h, e ∈ edges h') {a b : SlabID}
    (hr : Reach h a b) : Reach h' a b := by
  induction hr with
  | refl => exact Reach.refl _
  | step _ he ih => exact Reach.step ih (hsub _ he)

/-- Two healthy heaps over disjoint sets of slab IDs form a healthy heap; its roots are the roots of
    both. -/
theorem healthy_append (h₁ h₂ : Heap) (R₁ R₂ : List SlabID) (hh₁ : Healthy h₁ R₁) (hh₂ : Healthy h₂ R₂)
    (hdisj : ∀ x, AList.contains h₁ x = true → AList.contains h₂ x = false) :
    Healthy (h₁ ++ h₂) (R₁ ++ R₂) := by
  have ht₁ : ∀ x, x ∈ targets h₁ → AList.contains h₁ x = true := by
    intro x hx
    obtain ⟨p, he⟩ := (mem_targets h₁ x).mp hx
    exact hh₁.resolves _ he
  have ht₂ : ∀ x, x ∈ targets h₂ → AList.contains h₂ x = true := by
    intro x hx
    obtain ⟨p, he⟩ := (mem_targets h₂ x).mp hx
    exact hh₂.resolves _ he
  have hsrc₁ : ∀ e ∈ edges h₁, AList.contains h₁ e.1 = true := fun e he =>
    (contains_iff_mem_keys h₁ e.1).mpr (source_mem_keys h₁ e.1 e.2 he)
  have hsrc₂ : ∀ e ∈ edges h₂, AList.contains h₂ e.1 = true := fun e he =>
    (contains_iff_mem_keys h₂ e.1).mpr (source_mem_keys h₂ e.1 e.2 he)
  have hno₂ : ∀ x, AList.contains h₂ x = true → AList.contains h₁ x = false := by
    intro x hx
    cases hc : AList.contains h₁ x with
    | false => rfl
    | true => rw [hdisj x hc] at hx; cases hx
  refine ⟨?_, ?_, ?_, ?_, ?_, ?_⟩
  · intro e he
    rw [edges_append, List.mem_append] at he
    rw [contains_append]
    rcases he with he | he
    · exact Or.inl (hh₁.resolves e he)
    · exact Or.inr (hh₂.resolves e he)
  · rw [targets_def, targets_append, List.nodup_append]
    refine ⟨hh₁.single, hh₂.single, ?_⟩
    rintro a ha b hb rfl
    have := hdisj a (ht₁ a ha)
    rw [ht₂ a hb] at this
    cases this
  · intro e he p c hp hc
    rw [edges_append, List.mem_append] at he
    rcases he with he | he
    · obtain ⟨p', hp'⟩ := (contains_iff_find h₁ e.1).mp (hsrc₁ e he)
      obtain ⟨c', hc'⟩ := (contains_iff_find h₁ e.2).mp (hh₁.resolves e he)
      rw [find?_append_left h₁ h₂ _ _ hp'] at hp
      rw [find?_append_left h₁ h₂ _ _ hc'] at hc
      cases hp; cases hc
      exact hh₁.owner e he _ _ hp' hc'
    · rw [find?_append_right h₁ h₂ _ (hno₂ _ (hsrc₂ e he))] at hp
      rw [find?_append_right h₁ h₂ _ (hno₂ _ (hh₂.resolves e he))] at hc
      exact hh₂.owner e he _ _ hp hc
  · intro id
    rw [List.mem_append, hh₁.roots_iff, hh₂.roots_iff, contains_append, targets_def, targets_def,
      targets_def, targets_append, List.mem_append]
    constructor
    · rintro (⟨h1, h2⟩ | ⟨h1, h2⟩)
      · refine ⟨Or.inl h1, ?_⟩
        rintro (h3 | h3)
        · exact h2 h3
        · have := hdisj id h1; rw [ht₂ id h3] at this; cases this
      · refine ⟨Or.inr h1, ?_⟩
        rintro (h3 | h3)
        · have := hdisj id (ht₁ id h3); rw [h1] at this; cases this
        · exact h2 h3
    · rintro ⟨h1 | h1, h2⟩
      · exact Or.inl ⟨h1, fun h3 => h2 (Or.inl h3)⟩
      · exact Or.inr ⟨h1, fun h3 => h2 (Or.inr h3)⟩
  · rw [List.nodup_append]
    refine ⟨hh₁.roots_nodup, hh₂.roots_nodup, ?_⟩
    rintro a ha b hb rfl
    have h1 := ((hh₁.roots_iff a).mp ha).1
    have h2 := ((hh₂.roots_iff a).mp hb).1
    rw [hdisj a h1] at h2
    cases h2
  · intro id hid
    rw [contains_append] at hid
    rcases hid with hid | hid
    · obtain ⟨r, hr, hreach⟩ := hh₁.reach id hid
      exact ⟨r, List.mem_append_left _ hr,
        hreach.mono (fun e he => by rw [edges_append]; exact List.mem_append_left _ he)⟩
    · obtain ⟨r, hr, hreach⟩ := hh₂.reach id hid
      exact ⟨r, List.mem_append_right _ hr,
        hreach.mono (fun e he => by rw [edges_append]; exact List.mem_append_right _ he)⟩

/-- the empty heap is healthy and has no roots -/
theorem healthy_nil : Healthy ([] : Heap) [] where
  resolves := by intro e he; cases he
  single := List.nodup_nil
  owner := by intro e he; cases he
  roots_iff := by
    intro id
    constructor
    · intro h; cases h
    · rintro ⟨h, _⟩; cases h
  roots_nodup := List.nodup_nil
  reach := by intro id h; cases h

/-- SEVERAL INDEPENDENT CONTAINERS: any number of healthy heaps over pairwise disjoint sets of slab
    IDs (e.g. containers at different addresses, or the trees of different root slabs) form a
    healthy heap; its roots are all their roots. -/
theorem healthy_join : ∀ (hs : List (Heap × List SlabID)),
    (∀ p ∈ hs, Healthy p.1 p.2) →
    hs.Pairwise (fun p q => ∀ x, AList.contains p.1 x = true → AList.contains q.1 x = false) →
    Healthy (hs.flatMap (·.1)) (hs.flatMap (·.2))
  | [], _, _ => healthy_nil
  | p :: rest, hall, hpw => by
    rw [List.pairwise_cons] at hpw
    have ih := healthy_join rest (fun q hq => hall q (List.mem_cons_of_mem _ hq)) hpw.2
    rw [List.flatMap_cons, List.flatMap_cons]
    refine healthy_append p.1 _ p.2 _ (hall p (List.mem_cons_self ..)) ih ?_
    intro x hx
    cases hc : AList.contains (rest.flatMap (·.1)) x with
    | false => rfl
    | true =>
      exfalso
      rw [contains_iff_mem_keys] at hc
      obtain ⟨⟨k, s⟩, hm, hk⟩ := List.mem_map.mp hc
      obtain ⟨q, hq, hmq⟩ := List.mem_flatMap.mp hm
      have hcq : AList.contains q.1 x = true := by
        rw [contains_iff_mem_keys]
        exact List.mem_map.mpr ⟨(k, s), hmq, hk⟩
      rw [hpw.1 q hq x hx] at hcq
      cases hcq

end Health
end Atree
