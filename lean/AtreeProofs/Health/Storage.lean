import AtreeProofs.Health.Iter
import AtreeProofs.Health.ArrayHistory
/-
  C20 helper lemmas, part 8: from the models of containers to `CheckStorageHealth` on the storage.

  * `Healthy.of_find_eq` – `Healthy` depends on the heap as a finite map only (not on the order of
    the association list);
  * `find?_heapOfLoaded` – with all slabs loaded the heap the health check works on is the view;
  * `array_state_storage_check`, `array_history_storage_check` – END TO END for one array: after
    ANY valid history the real pipeline (slab iteration over write set / cache, then the check)
    accepts the storage and returns the array's root and the unreferenced large-value slabs.
-/
namespace Atree
namespace Health

/-! ### `Healthy` is a property of the finite map -/

theorem pairs_nodup_of_keys (h : Heap) (hk : (AList.keys h).Nodup) : h.Nodup := by
  induction h with
  | nil => exact List.nodup_nil
  | cons p rest ih =>
    rw [AList.keys_cons, List.nodup_cons] at hk
    refine List.nodup_cons.mpr ⟨fun hm => hk.1 (List.mem_map.mpr ⟨p, hm, rfl⟩), ih hk.2⟩

theorem perm_of_find_eq (h h' : Heap) (hk : (AList.keys h).Nodup) (hk' : (AList.keys h').Nodup)
    (hf : ∀ id, AList.find? h' id = AList.find? h id) : h'.Perm h := by
  refine (List.perm_ext_iff_of_nodup (pairs_nodup_of_keys h' hk') (pairs_nodup_of_keys h hk)).mpr ?_
  rintro ⟨k, v⟩
  rw [AList.mem_iff_find? h' hk' k v, AList.mem_iff_find? h hk k v, hf]

theorem edges_perm {h h' : Heap} (hp : h'.Perm h) : (edges h').Perm (edges h) := by
  unfold edges
  exact hp.flatMap_right _

theorem Reach.of_edges_subset {h h' : Heap} (hsub : ∀ e, e ∈ edges h → e ∈ edges h') {a b : SlabID}
    (hr : Reach h a b) : Reach h' a b := by
  induction hr with
  | refl => exact Reach.refl _
  | step _ he ih => exact Reach.step ih (hsub _ he)

/-- two association lists with unique keys that hold the same slab under every ID are healthy
    together, with the same roots -/
theorem Healthy.of_find_eq {h h' : Heap} {R : List SlabID} (hh : Healthy h R)
    (hk : (AList.keys h).Nodup) (hk' : (AList.keys h').Nodup)
    (hf : ∀ id, AList.find? h' id = AList.find? h id) : Healthy h' R := by
  have hp := perm_of_find_eq h h' hk hk' hf
  have hep := edges_perm hp
  have hmem : ∀ e, e ∈ edges h' ↔ e ∈ edges h := fun e => hep.mem_iff
  have hcont : ∀ id, AList.contains h' id = AList.contains h id := by
    intro id; rw [AList.contains_eq, AList.contains_eq, hf]
  have htg : ((edges h').map (·.2)).Perm ((edges h).map (·.2)) := hep.map _
  refine ⟨?_, ?_, ?_, ?_, hh.roots_nodup, ?_⟩
  · intro e he
    rw [hcont]
    exact hh.resolves e ((hmem e).mp he)
  · exact htg.nodup_iff.mpr hh.single
  · intro e he p c hp' hc'
    rw [hf] at hp' hc'
    exact hh.owner e ((hmem e).mp he) p c hp' hc'
  · intro id
    rw [hh.roots_iff, hcont, htg.mem_iff]
  · intro id hid
    rw [hcont] at hid
    obtain ⟨r, hr, hreach⟩ := hh.reach id hid
    exact ⟨r, hr, hreach.of_edges_subset (fun e he => (hmem e).mpr he)⟩

/-! ### the heap of the live slabs is the view -/

variable {σ β : Type}

theorem find?_heapOfLoaded (c : Codec σ β) (abs : SlabID → σ → HSlab) (s : St σ β)
    (hd : (AList.keys s.deltas).Nodup) (hc : (AList.keys s.cache).Nodup) (hall : AllLoaded s)
    (id : SlabID) :
    AList.find? (heapOfLoaded abs s) id = (s.view c id).map (abs id) := by
  have hk : (AList.keys (heapOfLoaded abs s)).Nodup := by
    rw [keys_heapOfLoaded]; exact loadedLive_nodup s hd hc
  cases hv : s.view c id with
  | some v =>
    have hm := (mem_loadedLive_iff_view c s hd hc hall id v).mpr hv
    have : (id, abs id v) ∈ heapOfLoaded abs s := List.mem_map.mpr ⟨(id, v), hm, rfl⟩
    rw [(AList.mem_iff_find? _ hk id _).mp this]
    rfl
  | none =>
    simp only [Option.map_none]
    rw [AList.find?_eq_none_iff, keys_heapOfLoaded]
    intro hm
    obtain ⟨⟨k, v⟩, hp, rfl⟩ := List.mem_map.mp hm
    have := view_of_mem_loadedLive c s hd hc k v hp
    simp only at hv
    rw [hv] at this
    cases this

theorem contains_iff_mem_keys' {α : Type} {m : AList SlabID α} {k : SlabID} :
    AList.contains m k = true ↔ k ∈ AList.keys m := by
  rw [AList.contains_eq, ← AList.find?_ne_none_iff]
  cases AList.find? m k <;> simp

/-- a slab of the heap of live slabs is a key of the write set or of the cache -/
theorem isLoaded_of_contains_heapOfLoaded (abs : SlabID → σ → HSlab) (s : St σ β) (id : SlabID)
    (h : AList.contains (heapOfLoaded abs s) id = true) : IsLoaded s id := by
  rw [contains_iff_mem_keys, keys_heapOfLoaded] at h
  obtain ⟨⟨k, v⟩, hp, rfl⟩ := List.mem_map.mp h
  unfold loadedLive at hp
  rcases List.mem_append.mp hp with hp | hp
  · left
    have := (mem_liveOf _ k v).mp hp
    rw [contains_iff_mem_keys']
    exact List.mem_map.mpr ⟨_, this, rfl⟩
  · right
    have := ((mem_unshadowed s k (some v)).mp ((mem_liveOf _ k v).mp hp)).1
    rw [contains_iff_mem_keys']
    exact List.mem_map.mpr ⟨_, this, rfl⟩

/-- when every reference of the live heap resolves, the references of live slabs are loaded -/
theorem refsLoaded_of_resolves (abs : SlabID → σ → HSlab) (s : St σ β)
    (hres : ∀ e ∈ edges (heapOfLoaded abs s), AList.contains (heapOfLoaded abs s) e.2 = true) :
    RefsLoaded abs s := by
  intro p hp r hr
  apply isLoaded_of_contains_heapOfLoaded abs s r
  apply hres (p.1, r)
  rw [mem_edges]
  exact ⟨abs p.1 p.2, List.mem_map.mpr ⟨p, hp, rfl⟩, hr⟩

/-- GENERIC END-TO-END STEP.  If, with all slabs loaded, the view of the storage is a healthy heap
    `h` (slab by slab), then `CheckStorageHealth` - slab iteration followed by the check - accepts
    the storage for the right root count and for "any", and returns the roots of `h`. -/
theorem checkStorage_accepts (c : Codec σ β) (abs : SlabID → σ → HSlab) (s : St σ β)
    (hd : (AList.keys s.deltas).Nodup) (hc : (AList.keys s.cache).Nodup) (hall : AllLoaded s)
    (h : Heap) (R : List SlabID) (hk : (AList.keys h).Nodup) (hh : Healthy h R)
    (hview : ∀ id, (s.view c id).map (abs id) = AList.find? h id)
    (expected : Option Nat) (hn : ∀ n, expected = some n → R.length = n) :
    ∃ R', checkStorage c abs s expected = .ok R' ∧ (∀ id, id ∈ R' ↔ id ∈ R) ∧ R'.length = R.length := by
  have hk' : (AList.keys (heapOfLoaded abs s)).Nodup := by
    rw [keys_heapOfLoaded]; exact loadedLive_nodup s hd hc
  have hf : ∀ id, AList.find? (heapOfLoaded abs s) id = AList.find? h id := by
    intro id; rw [find?_heapOfLoaded c abs s hd hc hall, hview]
  have hh' : Healthy (heapOfLoaded abs s) R := hh.of_find_eq hk hk' hf
  rw [checkStorage_allLoaded c abs s hd hc hall, if_pos (refsLoaded_of_resolves abs s hh'.resolves)]
  exact check_complete _ hk' R hh' expected hn

end Health

/-! ### one array, any history -/

namespace E2E
open Atree.Health

variable {β : Type}

theorem runS_cache_h (c : Codec SSlab β) (T : Nat) :
    ∀ (ops : List AOp) (x : (Arr × Ctx) × St SSlab β), (runS c T x ops).2.cache = x.2.cache
  | [], _ => rfl
  | op :: ops, x => by
    show (runS c T (stepS c T x op) ops).2.cache = x.2.cache
    rw [runS_cache_h c T ops]
    exact (applyEffs_frame c x.2 _ _).1

/-- From any state of a run (`Good`, `RefsUnique`) whose storage has all slabs loaded and holds
    nothing outside the array's address: `CheckStorageHealth` accepts, and returns the array's root
    and the large-value slabs no element refers to any more. -/
theorem array_state_storage_check (c : Codec SSlab β) (T : Nat) (x : (Arr × Ctx) × St SSlab β)
    (hg : Good c T x) (hu : RefsUnique x.1) (hall : AllLoaded x.2)
    (hother : ∀ id, id.addr ≠ x.1.1.addr → x.2.view c id = none)
    (expected : Option Nat)
    (hn : ∀ n, expected = some n → (rootsOf (arrHeap x.1.1 x.1.2.created)).length = n) :
    ∃ R, checkStorage c SSlab.toH x.2 expected = .ok R ∧
      (∀ id, id ∈ R ↔ (id = x.1.1.rootID ∨
        (id ∈ x.1.2.created.map (·.1) ∧ id ∉ elemRefs x.1.1.toList))) := by
  obtain ⟨hk, hh, hroots, hview⟩ := array_state_healthy c T x hg hu
  have hview' : ∀ id, (x.2.view c id).map (SSlab.toH id) = AList.find? (arrHeap x.1.1 x.1.2.created) id := by
    intro id
    by_cases ha : id.addr = x.1.1.addr
    · exact hview id ha
    · rw [hother id ha]
      symm
      rw [Option.map_none, AList.find?_eq_none_iff]
      intro hm
      rw [keys_arrHeap, List.mem_append] at hm
      rcases hm with hm | hm
      · exact ha (hg.inv.ids.2 id hm).1
      · obtain ⟨p, hp, rfl⟩ := List.mem_map.mp hm
        exact ha (hg.caddr p hp)
  obtain ⟨R, hok, hmem, _⟩ := checkStorage_accepts c SSlab.toH x.2 hg.st.deltasNodup hg.st.cacheNodup
    hall _ _ hk hh hview' expected hn
  exact ⟨R, hok, fun id => (hmem id).trans (hroots id)⟩

/-- END TO END, one array: after ANY valid history starting with `NewArray` on an empty storage
    (requests of any kind, out-of-range ones included; values of any size), `CheckStorageHealth` -
    the slab iterator over write set and cache followed by the checks - ACCEPTS the storage, both
    for "any number of roots" and for the true number, and returns exactly the array's root slab
    and the large-value slabs no element refers to any more (the model's histories never delete
    those; a caller that deletes them leaves the array's root as the only root). -/
theorem array_history_storage_check (c : Codec SSlab β) (hc : RoundTrip c) (T : Nat)
    (hT : legalThreshold T = true) (addr ty : Nat) (haddr : addr ≠ 0) (ops : List AOp)
    (hops : ∀ op ∈ ops, op.Ok) :
    let x := runS c T (newS c addr ty) ops
    let h := arrHeap x.1.1 x.1.2.created
    (∃ R, checkStorage c SSlab.toH x.2 none = .ok R ∧
      (∀ id, id ∈ R ↔ (id = ⟨addr, 1⟩ ∨
        (id ∈ x.1.2.created.map (·.1) ∧ id ∉ elemRefs x.1.1.toList)))) ∧
    (∃ R, checkStorage c SSlab.toH x.2 (some (rootsOf h).length) = .ok R ∧
      (∀ id, id ∈ R ↔ (id = ⟨addr, 1⟩ ∨
        (id ∈ x.1.2.created.map (·.1) ∧ id ∉ elemRefs x.1.1.toList)))) := by
  intro x h
  obtain ⟨g0, _, r0, _⟩ := good_new c hc T hT addr ty haddr
  obtain ⟨hg, hu⟩ := refsUnique_runS c hc T hT ops (newS c addr ty) g0 (refsUnique_new c addr ty) hops
  obtain ⟨_, _, hroot, _⟩ := good_runS c hc T hT ops (newS c addr ty) g0 hops
  have hrootID : x.1.1.rootID = ⟨addr, 1⟩ := hroot.trans r0
  have hbase : x.2.base = [] := by
    show (runS c T (newS c addr ty) ops).2.base = []
    rw [runS_base c T ops]
    exact (applyEffs_frame c St.init _ _).2
  have hcache : x.2.cache = [] := by
    show (runS c T (newS c addr ty) ops).2.cache = []
    rw [runS_cache_h c T ops]
    exact (applyEffs_frame c St.init _ _).1
  have hall : AllLoaded x.2 := by
    intro id hid
    rw [hbase] at hid
    cases hid
  have hother : ∀ id, id.addr ≠ x.1.1.addr → x.2.view c id = none := by
    intro id hne
    unfold St.view
    rw [hcache, hbase]
    cases hd : AList.find? x.2.deltas id with
    | none => rfl
    | some o =>
      cases o with
      | none => rfl
      | some v => exact absurd (hg.pend id v hd) hne
  obtain ⟨R, hok, hmem⟩ := array_state_storage_check c T x hg hu hall hother none
    (fun n hn => by cases hn)
  obtain ⟨R', hok', hmem'⟩ := array_state_storage_check c T x hg hu hall hother
    (some (rootsOf h).length) (fun n hn => by cases hn; rfl)
  exact ⟨⟨R, hok, fun id => by rw [hmem id, hrootID]⟩, ⟨R', hok', fun id => by rw [hmem' id, hrootID]⟩⟩

/-! ### Non-vacuity: the pipeline evaluated on the storages of two concrete histories -/
section NonVacuity
open Atree.Example

/-- `hist` (Props/E2E.lean): a root index slab over two leaves, one element is a reference to the
    large-value slab 5; slab 4 is a pending deletion (a nil entry of the write set) -/
example : (Health.slabIterator idCodec SSlab.toH xH.2).map (fun ys => ys.map (·.1))
    = .ok [⟨1, 1⟩, ⟨1, 2⟩, ⟨1, 5⟩, ⟨1, 3⟩] := by decide
example : Health.checkStorage idCodec SSlab.toH xH.2 (some 1) = .ok [⟨1, 1⟩] := by decide
example : Health.checkStorage idCodec SSlab.toH xH.2 none = .ok [⟨1, 1⟩] := by decide
example : Health.checkStorage idCodec SSlab.toH xH.2 (some 2) = .error .rootCount := by decide

/-- the theorem applies (its hypotheses hold for `hist`) -/
example := array_history_storage_check idCodec idCodec_roundTrip T0 legal 1 0 (by decide) hist hist_ok

/-- `hist2`: the large value was overwritten, its slab is a second root -/
example : Health.checkStorage idCodec SSlab.toH xH2.2 (some 2) = .ok [⟨1, 5⟩, ⟨1, 1⟩] := by decide

/-- removing a referenced slab from that storage (`Remove(1.3)`: a nil entry in the write set)
    makes the pipeline fail although the iterator does not notice anything (finding F1 lived here) -/
example : (Health.slabIterator idCodec SSlab.toH (St.run idCodec xH.2 [.remove ⟨1, 3⟩])).map
    (fun ys => ys.map (·.1)) = .ok [⟨1, 1⟩, ⟨1, 2⟩, ⟨1, 5⟩] := by decide
example : Health.checkStorage idCodec SSlab.toH (St.run idCodec xH.2 [.remove ⟨1, 3⟩]) none
    = .error .slabNotFound := by decide

end NonVacuity

end E2E
end Atree

