import AtreeProofs.Health.Forest
import AtreeProofs.HeapSpec
import AtreeProofs.ArrayInv
import AtreeProofs.Array.Effects
/-
  C20 for arrays, part 1: the heap (`Health.Heap`) of ONE array — the slabs of its tree plus its
  large-value slabs — is `Healthy`, and its roots are the array's root slab and the large-value
  slabs no element refers to any more.

  `arrHeap_healthy` is stated on a single array value (`ArrInv` + facts about the reference
  elements and the created large-value slabs); `AtreeProofs/Health/ArrayHistory.lean` discharges
  these hypotheses for every array produced by a valid history.
-/
namespace Atree
open Gen ATree

namespace Health

/-- the slab references among the elements (`SlabIDStorable`s), in order -/
def elemRefs (l : List Elem) : List SlabID :=
  l.filterMap (fun e => match e.pay with | .ref id => some id | .val _ => none)

end Health

/-- the slab references `ChildStorables` finds in one array slab: the reference elements of a data
    slab, the child headers of an index slab -/
def ASlab.refs : ASlab → List SlabID
  | .data s => Health.elemRefs s.elems
  | .index _ chs _ _ => chs.map (·.id)

namespace Health

/-- the heap of one array: the slabs of its tree and its large-value slabs (which reference nothing) -/
def arrHeap (a : Arr) (created : List (SlabID × Elem)) : Heap :=
  (ATree.slabs a.d a.root).map (fun p => (p.1, ⟨p.1, p.2.refs⟩)) ++ created.map (fun p => (p.1, ⟨p.1, []⟩))

/-! ### `elemRefs` -/

theorem elemRefs_append (l₁ l₂ : List Elem) : elemRefs (l₁ ++ l₂) = elemRefs l₁ ++ elemRefs l₂ :=
  List.filterMap_append

theorem elemRefs_nil : elemRefs [] = [] := rfl

theorem elemRefs_flatMap {α : Type} (L : List α) (f : α → List Elem) :
    elemRefs (L.flatMap f) = L.flatMap (fun x => elemRefs (f x)) := by
  unfold elemRefs
  exact List.filterMap_flatMap

theorem mem_elemRefs (l : List Elem) (y : SlabID) : y ∈ elemRefs l ↔ ∃ e ∈ l, e.pay = .ref y := by
  unfold elemRefs
  rw [List.mem_filterMap]
  constructor
  · rintro ⟨e, he, h⟩
    refine ⟨e, he, ?_⟩
    cases hp : e.pay with
    | val n => rw [hp] at h; cases h
    | ref id => rw [hp] at h; cases h; rfl
  · rintro ⟨e, he, h⟩
    exact ⟨e, he, by rw [h]⟩

theorem elemRefs_val {e : Elem} (h : ∃ n, e.pay = .val n) : elemRefs [e] = [] := by
  obtain ⟨n, hn⟩ := h
  simp [elemRefs, hn]

theorem elemRefs_ref {e : Elem} {y : SlabID} (h : e.pay = .ref y) : elemRefs [e] = [y] := by
  simp [elemRefs, h]

/-! ### permutation helpers -/

theorem flatMap_perm_congr {α β : Type} (L : List α) (f g : α → List β)
    (h : ∀ x ∈ L, (f x).Perm (g x)) : (L.flatMap f).Perm (L.flatMap g) := by
  induction L with
  | nil => exact List.Perm.refl _
  | cons x L ih =>
    rw [List.flatMap_cons, List.flatMap_cons]
    exact (h x (by simp)).append (ih (fun y hy => h y (by simp [hy])))

theorem flatMap_append_perm' {α β : Type} (L : List α) (f g : α → List β) :
    (L.flatMap (fun x => f x ++ g x)).Perm (L.flatMap f ++ L.flatMap g) := by
  induction L with
  | nil => exact List.Perm.refl _
  | cons x L ih =>
    rw [List.flatMap_cons, List.flatMap_cons, List.flatMap_cons]
    refine ((List.Perm.refl (f x ++ g x)).append ih).trans ?_
    rw [List.append_assoc, List.append_assoc]
    refine List.Perm.append_left (f x) ?_
    rw [← List.append_assoc, ← List.append_assoc]
    exact List.Perm.append_right _ List.perm_append_comm

/-! ### the two parts of the heap -/

/-- the tree part -/
def toH (S : List (SlabID × ASlab)) : Heap := S.map (fun p => (p.1, ⟨p.1, p.2.refs⟩))
/-- the large-value slabs -/
def crH (created : List (SlabID × Elem)) : Heap := created.map (fun p => (p.1, ⟨p.1, []⟩))

theorem arrHeap_eq (a : Arr) (created : List (SlabID × Elem)) :
    arrHeap a created = toH (ATree.slabs a.d a.root) ++ crH created := rfl

theorem keys_toH (S : List (SlabID × ASlab)) : AList.keys (toH S) = AList.keys S := by
  simp [toH, AList.keys, List.map_map, Function.comp_def]

theorem keys_crH (created : List (SlabID × Elem)) : AList.keys (crH created) = created.map (·.1) := by
  simp [crH, AList.keys, List.map_map, Function.comp_def]

theorem edges_crH (created : List (SlabID × Elem)) : edges (crH created) = [] := by
  induction created with
  | nil => rfl
  | cons p cr ih =>
    show edges ((p.1, ⟨p.1, []⟩) :: crH cr) = []
    rw [edges_cons, ih]; rfl

theorem targets_crH (created : List (SlabID × Elem)) : targets (crH created) = [] := by
  unfold targets; rw [edges_crH]; rfl

theorem targets_toH (S : List (SlabID × ASlab)) : targets (toH S) = S.flatMap (fun p => p.2.refs) := by
  induction S with
  | nil => rfl
  | cons p S ih =>
    show targets ((p.1, ⟨p.1, p.2.refs⟩) :: toH S) = _
    rw [targets_cons, ih, List.flatMap_cons]

theorem mem_edges_toH (S : List (SlabID × ASlab)) (p q : SlabID) :
    (p, q) ∈ edges (toH S) ↔ ∃ s, (p, s) ∈ S ∧ q ∈ s.refs := by
  rw [mem_edges]
  unfold toH
  constructor
  · rintro ⟨hs, hm, hq⟩
    rw [List.mem_map] at hm
    obtain ⟨⟨k, s⟩, hks, heq⟩ := hm
    simp only [Prod.mk.injEq] at heq
    obtain ⟨rfl, rfl⟩ := heq
    exact ⟨s, hks, hq⟩
  · rintro ⟨s, hm, hq⟩
    exact ⟨⟨p, s.refs⟩, List.mem_map.mpr ⟨(p, s), hm, rfl⟩, hq⟩

theorem edges_arrHeap (a : Arr) (created : List (SlabID × Elem)) :
    edges (arrHeap a created) = edges (toH (ATree.slabs a.d a.root)) := by
  rw [arrHeap_eq, edges_append, edges_crH, List.append_nil]

theorem targets_arrHeap (a : Arr) (created : List (SlabID × Elem)) :
    targets (arrHeap a created) = (ATree.slabs a.d a.root).flatMap (fun p => p.2.refs) := by
  rw [arrHeap_eq, targets_append, targets_crH, List.append_nil, targets_toH]

theorem keys_arrHeap (a : Arr) (created : List (SlabID × Elem)) :
    AList.keys (arrHeap a created) = slabIds a.d a.root ++ created.map (·.1) := by
  rw [arrHeap_eq, Health.keys_append, keys_toH, keys_crH, keys_slabs]

/-- every slab of the heap records its own key as its ID -/
theorem self_of_mem_arrHeap (a : Arr) (created : List (SlabID × Elem)) :
    ∀ p ∈ arrHeap a created, p.2.self = p.1 := by
  intro p hp
  unfold arrHeap at hp
  rcases List.mem_append.1 hp with h | h
  · obtain ⟨q, _, rfl⟩ := List.mem_map.1 h; rfl
  · obtain ⟨q, _, rfl⟩ := List.mem_map.1 h; rfl

theorem self_of_find {h : Heap} (hs : ∀ p ∈ h, p.2.self = p.1) {k : SlabID} {s : HSlab}
    (hf : AList.find? h k = some s) : s.self = k := by
  induction h with
  | nil => cases hf
  | cons e rest ih =>
    obtain ⟨k', v⟩ := e
    rw [AList.find?_cons] at hf
    split at hf
    · rename_i hk
      cases hf
      rw [← hk]
      exact hs (k', s) (by simp)
    · exact ih (fun p hp => hs p (by simp [hp])) hf

/-! ### the references of a tree -/

/-- all references found in the slabs of a tree, in heap order -/
def treeTargets (d : Nat) (t : ATree d) : List SlabID := (ATree.slabs d t).flatMap (fun p => p.2.refs)

theorem treeTargets_zero (s : DataSlab) : treeTargets 0 (ofData s) = elemRefs s.elems := by
  simp [treeTargets, ofData, ATree.slabs, ASlab.refs]

theorem treeTargets_succ (d : Nat) (m : MetaSlab (ATree d)) :
    treeTargets (d + 1) (ofMeta m) = m.childHdrs.map (·.id) ++ m.children.flatMap (treeTargets d) := by
  show (ASlab.index m.hdr m.childHdrs m.countSum m.root).refs
      ++ (m.children.flatMap (ATree.slabs d)).flatMap (fun p => p.2.refs) = _
  rw [List.flatMap_assoc]
  rfl

/-- The references of a tree are: one reference to each slab below the root (the child headers),
    and the reference elements. -/
theorem treeTargets_perm (T : Nat) : ∀ (d : Nat) (top : Bool) (t : ATree d), TreeInv T d top t →
    (treeTargets d t).Perm (subIds d t ++ elemRefs (flatten d t))
  | 0, top, t => by
    refine forall_ofData ?_ t; intro s _
    rw [treeTargets_zero, subIds_zero, flatten_zero, List.nil_append]
  | d + 1, top, t => by
    refine forall_ofMeta ?_ t; intro m hinv
    rw [treeInv_succ] at hinv
    obtain ⟨hsh, _⟩ := hinv
    rw [treeTargets_succ, subIds_succ, flatten_succ, elemRefs_flatMap, hsh.hdrs_eq, List.map_map]
    have ih : (m.children.flatMap (treeTargets d)).Perm
        (m.children.flatMap (fun c => subIds d c ++ elemRefs (flatten d c))) :=
      flatMap_perm_congr _ _ _ (fun c hc => treeTargets_perm T d false c (hsh.kids_inv c hc))
    have h2 := flatMap_append_perm' m.children (subIds d) (fun c => elemRefs (flatten d c))
    have h3 : (m.children.flatMap (slabIds d)).Perm
        (m.children.map (fun c => (hdr d c).id) ++ m.children.flatMap (subIds d)) := by
      have : m.children.flatMap (slabIds d)
          = m.children.flatMap (fun c => [(hdr d c).id] ++ subIds d c) := by
        congr 1; funext c; rw [slabIds_eq]; rfl
      rw [this]
      refine (flatMap_append_perm' m.children (fun c => [(hdr d c).id]) (subIds d)).trans ?_
      rw [← List.map_eq_flatMap]
    refine ((List.Perm.refl _).append (ih.trans h2)).trans ?_
    rw [← List.append_assoc]
    exact List.Perm.append_right _ h3.symm

/-- every slab of a tree is reachable from its root in any heap containing the tree's edges -/
theorem reach_tree (T : Nat) (h : Heap) : ∀ (d : Nat) (top : Bool) (t : ATree d), TreeInv T d top t →
    (∀ p s, (p, s) ∈ ATree.slabs d t → ∀ q ∈ s.refs, (p, q) ∈ edges h) →
    ∀ r, Reach h r (hdr d t).id → ∀ id ∈ slabIds d t, Reach h r id
  | 0, top, t => by
    refine forall_ofData ?_ t; intro s _ _ r hr id hid
    rw [slabIds_zero, List.mem_singleton] at hid
    subst hid; exact hr
  | d + 1, top, t => by
    refine forall_ofMeta ?_ t; intro m hinv hed r hr id hid
    rw [treeInv_succ] at hinv
    obtain ⟨hsh, _⟩ := hinv
    rw [slabIds_succ, List.mem_cons] at hid
    rcases hid with rfl | hid
    · exact hr
    · obtain ⟨c, hc, hidc⟩ := List.mem_flatMap.1 hid
      have hroot : (m.hdr.id, ASlab.index m.hdr m.childHdrs m.countSum m.root)
          ∈ ATree.slabs (d + 1) (ofMeta m) := by
        simp [ofMeta, ATree.slabs]
      have hedge : (m.hdr.id, (hdr d c).id) ∈ edges h := by
        refine hed _ _ hroot _ ?_
        show (hdr d c).id ∈ m.childHdrs.map (·.id)
        rw [hsh.hdrs_eq, List.map_map]
        exact List.mem_map.mpr ⟨c, hc, rfl⟩
      refine reach_tree T h d false c (hsh.kids_inv c hc) ?_ r (Reach.step hr hedge) id hidc
      intro p s hps q hq
      refine hed p s ?_ q hq
      show (p, s) ∈ (m.hdr.id, ASlab.index m.hdr m.childHdrs m.countSum m.root)
        :: m.children.flatMap (ATree.slabs d)
      exact List.mem_cons_of_mem _ (List.mem_flatMap.mpr ⟨c, hc, hps⟩)

/-! ### the heap of one array is healthy -/

/-- THE HEAP OF ONE ARRAY IS HEALTHY.  For an array satisfying the array invariant whose reference
    elements point to distinct large-value slabs among `created`, the `created` slabs having
    distinct IDs at the array's address outside the tree: the heap made of the tree's slabs and the
    large-value slabs has unique keys and is `Healthy`; its roots are the array's root slab and the
    large-value slabs no element refers to. -/
theorem arrHeap_healthy (T : Nat) (a : Arr) (ctr : Nat) (created : List (SlabID × Elem))
    (hinv : ArrInv T a ctr)
    (hrefs : ∀ e ∈ a.toList, ∀ y, e.pay = .ref y → y ∈ created.map (·.1))
    (hnd : (elemRefs a.toList).Nodup)
    (hcnd : (created.map (·.1)).Nodup)
    (hcr : ∀ p ∈ created, p.1.addr = a.addr ∧ p.1 ∉ ATree.slabIds a.d a.root) :
    (AList.keys (arrHeap a created)).Nodup ∧
    Healthy (arrHeap a created) (rootsOf (arrHeap a created)) ∧
    (∀ id, id ∈ rootsOf (arrHeap a created) ↔
      (id = a.rootID ∨ (id ∈ created.map (·.1) ∧ id ∉ elemRefs a.toList))) := by
  -- basic facts
  have hids : (slabIds a.d a.root).Nodup := hinv.ids.1
  have hidsEq : slabIds a.d a.root = a.rootID :: subIds a.d a.root := slabIds_eq a.d a.root
  have hcrOut : ∀ y ∈ created.map (·.1), y ∉ slabIds a.d a.root := by
    intro y hy
    obtain ⟨p, hp, rfl⟩ := List.mem_map.1 hy
    exact (hcr p hp).2
  have hcrAddr : ∀ y ∈ created.map (·.1), y.addr = a.addr := by
    intro y hy
    obtain ⟨p, hp, rfl⟩ := List.mem_map.1 hy
    exact (hcr p hp).1
  have hrefsIn : ∀ y ∈ elemRefs a.toList, y ∈ created.map (·.1) := by
    intro y hy
    obtain ⟨e, he, hp⟩ := (mem_elemRefs _ y).1 hy
    exact hrefs e he y hp
  have hperm : (targets (arrHeap a created)).Perm (subIds a.d a.root ++ elemRefs a.toList) := by
    rw [targets_arrHeap]
    exact treeTargets_perm T a.d true a.root hinv.tree
  have hmemT : ∀ y, y ∈ targets (arrHeap a created) ↔ (y ∈ subIds a.d a.root ∨ y ∈ elemRefs a.toList) := by
    intro y; rw [hperm.mem_iff, List.mem_append]
  have hkeys := keys_arrHeap a created
  have hmemK : ∀ y, AList.contains (arrHeap a created) y = true ↔
      (y ∈ slabIds a.d a.root ∨ y ∈ created.map (·.1)) := by
    intro y; rw [contains_iff_mem_keys, hkeys, List.mem_append]
  have hkAddr : ∀ y, AList.contains (arrHeap a created) y = true → y.addr = a.addr := by
    intro y hy
    rcases (hmemK y).1 hy with h | h
    · exact (hinv.ids.2 y h).1
    · exact hcrAddr y h
  have hknd : (AList.keys (arrHeap a created)).Nodup := by
    rw [hkeys, List.nodup_append]
    refine ⟨hids, hcnd, ?_⟩
    rintro x hx y hy rfl
    exact hcrOut x hy hx
  have hres : ∀ e ∈ edges (arrHeap a created), AList.contains (arrHeap a created) e.2 = true := by
    intro e he
    have : e.2 ∈ targets (arrHeap a created) := List.mem_map_of_mem he
    rw [hmemK]
    rcases (hmemT e.2).1 this with h | h
    · left; rw [hidsEq]; exact List.mem_cons_of_mem _ h
    · exact Or.inr (hrefsIn _ h)
  have hsubnd : (subIds a.d a.root).Nodup := by
    rw [hidsEq, List.nodup_cons] at hids; exact hids.2
  have hrootNot : a.rootID ∉ subIds a.d a.root := by
    rw [hidsEq, List.nodup_cons] at hids; exact hids.1
  have hsingle : ((edges (arrHeap a created)).map (·.2)).Nodup := by
    rw [targets_def, hperm.nodup_iff, List.nodup_append]
    refine ⟨hsubnd, hnd, ?_⟩
    rintro x hx y hy rfl
    exact hcrOut x (hrefsIn x hy) (by rw [hidsEq]; exact List.mem_cons_of_mem _ hx)
  have hself := self_of_mem_arrHeap a created
  have hroots : ∀ id, id ∈ rootsOf (arrHeap a created) ↔
      (id = a.rootID ∨ (id ∈ created.map (·.1) ∧ id ∉ elemRefs a.toList)) := by
    intro id
    rw [mem_rootsOf, targets_def, hmemK, hmemT, hidsEq, List.mem_cons]
    constructor
    · rintro ⟨(h1 | h1) | h1, h2⟩
      · exact Or.inl h1
      · exact absurd (Or.inl h1) h2
      · exact Or.inr ⟨h1, fun h3 => h2 (Or.inr h3)⟩
    · rintro (rfl | ⟨h1, h2⟩)
      · refine ⟨Or.inl (Or.inl rfl), ?_⟩
        rintro (h3 | h3)
        · exact hrootNot h3
        · exact hcrOut _ (hrefsIn _ h3) (by rw [hidsEq]; exact List.mem_cons_self)
      · refine ⟨Or.inr h1, ?_⟩
        rintro (h3 | h3)
        · exact hcrOut _ h1 (by rw [hidsEq]; exact List.mem_cons_of_mem _ h3)
        · exact h2 h3
  refine ⟨hknd, ⟨hres, hsingle, ?_, mem_rootsOf _, List.Nodup.sublist List.filter_sublist hknd, ?_⟩, hroots⟩
  · -- owner
    intro e he p c hp hc
    rw [self_of_find hself hp, self_of_find hself hc,
      hkAddr e.1 ((contains_iff_mem_keys _ _).mpr (source_mem_keys _ e.1 e.2 he)),
      hkAddr e.2 (hres e he)]
  · -- reach
    have hrootIn : a.rootID ∈ rootsOf (arrHeap a created) := (hroots _).2 (Or.inl rfl)
    have htree : ∀ id ∈ slabIds a.d a.root, Reach (arrHeap a created) a.rootID id := by
      refine reach_tree T (arrHeap a created) a.d true a.root hinv.tree ?_ a.rootID (Reach.refl _)
      intro p s hps q hq
      rw [edges_arrHeap, mem_edges_toH]
      exact ⟨s, hps, hq⟩
    intro id hid
    by_cases ht : id ∈ targets (arrHeap a created)
    · obtain ⟨p, he⟩ := (mem_targets _ id).1 ht
      have hp : p ∈ slabIds a.d a.root := by
        rw [edges_arrHeap] at he
        have := source_mem_keys _ p id he
        rwa [keys_toH, keys_slabs] at this
      exact ⟨a.rootID, hrootIn, Reach.step (htree p hp) he⟩
    · exact ⟨id, (mem_rootsOf _ id).2 ⟨hid, ht⟩, Reach.refl id⟩

end Health
end Atree
