import AtreeModel.StorageOps
import AtreeProofs.StorageLemmas
import AtreeProofs.CommitLemmas
import AtreeProofs.StorageLemmas2
/-
  More lemmas about the commit loop (helpers of AtreeProofs/Props/C14Crash.lean):

  * `OldOrNew c s s'` – a second loop invariant beside `Adv`: per identifier, either nothing
    happened (delta entry and register as in `s`) or the identifier left the write set and its
    register is the commit target.  An iteration on key `k` changes the ledger only at `k`.
    Reflexive, transitive, established by every `commitKey` step on a pending owned key; it needs
    neither the storage invariant nor the codec round trip, only unique delta keys;
  * call counting: `r.n = r.log.length`, at most one base call per owned pending identifier,
    exactly one each when the commit succeeds;
  * `FirstFault` – a sharper form of `ErrOK`: the loop stops at the first faulted call;
  * `Clean s` (no owned identifier pending) and the operations that keep a state clean and the
    ledger unchanged (everything except a store/remove of an owned identifier – commit attempts
    with arbitrary fault plans included).
-/
namespace Atree
open St

variable {σ β : Type}

/-! ### Old or new, per identifier -/

/-- Per identifier: untouched (same delta entry, same register), or written (no longer pending and
    the register is the commit target of `s`). -/
def OldOrNew (c : Codec σ β) (s s' : St σ β) : Prop :=
  ∀ id, (AList.find? s'.deltas id = AList.find? s.deltas id ∧
          AList.find? s'.base id = AList.find? s.base id) ∨
        (AList.find? s'.deltas id = none ∧ AList.find? s'.base id = target c s id)

theorem OldOrNew.refl (c : Codec σ β) (s : St σ β) : OldOrNew c s s :=
  fun _ => Or.inl ⟨rfl, rfl⟩

/-- `target` at `id` only depends on the delta entry and the register of `id`. -/
theorem target_eq_of_find (c : Codec σ β) (s s' : St σ β) (id : SlabID)
    (hd : AList.find? s'.deltas id = AList.find? s.deltas id)
    (hb : AList.find? s'.base id = AList.find? s.base id) : target c s' id = target c s id := by
  unfold target
  rw [hd, hb]

theorem OldOrNew.trans {c : Codec σ β} {s s' s'' : St σ β} (h1 : OldOrNew c s s')
    (h2 : OldOrNew c s' s'') : OldOrNew c s s'' := by
  intro id
  rcases h2 id with ⟨h2d, h2b⟩ | ⟨h2d, h2b⟩
  · rcases h1 id with ⟨h1d, h1b⟩ | ⟨h1d, h1b⟩
    · exact Or.inl ⟨h2d.trans h1d, h2b.trans h1b⟩
    · exact Or.inr ⟨h2d.trans h1d, h2b.trans h1b⟩
  · right
    refine ⟨h2d, ?_⟩
    rcases h1 id with ⟨h1d, h1b⟩ | ⟨h1d, h1b⟩
    · rw [h2b]; exact target_eq_of_find c s s' id h1d h1b
    · rw [h2b, target_of_not_pending c s' id h1d]; exact h1b

/-- One iteration on a pending owned key changes the ledger and the write set at that key only,
    and only by writing the commit target. -/
theorem commitKey_oldOrNew (c : Codec σ β) (fault : Nat → Bool) (r : CommitRes σ β) (k : SlabID)
    (hk : AList.find? r.st.deltas k ≠ none) (hkt : k.isTemp = false) :
    OldOrNew c r.st (commitKey c fault r k).st := by
  unfold commitKey
  split
  · exact OldOrNew.refl c _
  · dsimp only
    split
    · rename_i hd; exact absurd hd hk
    · rename_i hd
      split
      · exact OldOrNew.refl c _
      · intro id
        by_cases hki : k = id
        · subst hki
          right
          simp [AList.find?_erase, target, hd, hkt]
        · left
          simp [AList.find?_erase, hki]
    · rename_i v hd
      split
      · exact OldOrNew.refl c _
      · rename_i b hb
        split
        · exact OldOrNew.refl c _
        · intro id
          by_cases hki : k = id
          · subst hki
            right
            simp [AList.find?_erase, AList.find?_insert, target, hd, hkt, hb]
          · left
            simp [AList.find?_erase, AList.find?_insert, hki]

theorem commitKey_deltas_nodup (c : Codec σ β) (fault : Nat → Bool) (r : CommitRes σ β)
    (k : SlabID) (h : (AList.keys r.st.deltas).Nodup) :
    (AList.keys (commitKey c fault r k).st.deltas).Nodup := by
  unfold commitKey
  split
  · exact h
  · dsimp only
    split
    · split
      · exact h
      · exact AList.nodup_keys_erase _ _ h
    · split
      · exact h
      · exact AList.nodup_keys_erase _ _ h
    · split
      · exact h
      · split
        · exact h
        · exact AList.nodup_keys_erase _ _ h

theorem commitKeys_fold_oldOrNew (c : Codec σ β) (fault : Nat → Bool) (keys : List SlabID)
    (r : CommitRes σ β) (hnd : keys.Nodup)
    (hk : ∀ k, k ∈ keys → AList.find? r.st.deltas k ≠ none ∧ k.isTemp = false) :
    OldOrNew c r.st (keys.foldl (commitKey c fault) r).st := by
  induction keys generalizing r with
  | nil => exact OldOrNew.refl c _
  | cons k ks ih =>
    rw [List.nodup_cons] at hnd
    have h1 := commitKey_oldOrNew c fault r k (hk k (List.mem_cons_self ..)).1
      (hk k (List.mem_cons_self ..)).2
    have hk' : ∀ j, j ∈ ks →
        AList.find? (commitKey c fault r k).st.deltas j ≠ none ∧ j.isTemp = false := by
      intro j hj
      have hjk : j ≠ k := fun e => hnd.1 (e ▸ hj)
      rw [commitKey_deltas_frame c fault r k j hjk]
      exact hk j (List.mem_cons_of_mem _ hj)
    rw [List.foldl_cons]
    exact h1.trans (ih (commitKey c fault r k) hnd.2 hk')

theorem commitKeys_fold_deltas_nodup (c : Codec σ β) (fault : Nat → Bool) (keys : List SlabID)
    (r : CommitRes σ β) (h : (AList.keys r.st.deltas).Nodup) :
    (AList.keys (keys.foldl (commitKey c fault) r).st.deltas).Nodup := by
  induction keys generalizing r with
  | nil => exact h
  | cons k ks ih => exact ih _ (commitKey_deltas_nodup c fault r k h)

/-- Any commit attempt (either function, any fault plan, encode failures included): per
    identifier old or new; the delta keys stay unique. -/
theorem commitW_oldOrNew (c : Codec σ β) (kind : CommitKind) (fault : Nat → Bool)
    (mo dlo : List SlabID) (s : St σ β) (hnd : (AList.keys s.deltas).Nodup) :
    OldOrNew c s (commitW c kind fault mo dlo s).st ∧
    (AList.keys (commitW c kind fault mo dlo s).st.deltas).Nodup := by
  obtain ⟨keys, hkeys, hshape⟩ := commitW_shape c kind fault mo dlo s
  have hok := hkeys hnd
  rcases hshape with h | ⟨_, h⟩
  · rw [h]
    exact ⟨commitKeys_fold_oldOrNew c fault keys { st := s, err := none, log := [], n := 0 }
        hok.nodup (fun k hk => (hok.mem k).mp hk),
      commitKeys_fold_deltas_nodup c fault keys { st := s, err := none, log := [], n := 0 } hnd⟩
  · rw [h]
    exact ⟨OldOrNew.refl c s, hnd⟩

/-- Any sequence of state transformers each of which is "old or new" (and keeps the delta keys
    unique) is "old or new" relative to the first state. -/
theorem foldl_oldOrNew {α : Type} (c : Codec σ β) (f : St σ β → α → St σ β)
    (hf : ∀ s a, (AList.keys s.deltas).Nodup →
      OldOrNew c s (f s a) ∧ (AList.keys (f s a).deltas).Nodup)
    (l : List α) (s : St σ β) (hnd : (AList.keys s.deltas).Nodup) :
    OldOrNew c s (l.foldl f s) ∧ (AList.keys (l.foldl f s).deltas).Nodup := by
  induction l generalizing s with
  | nil => exact ⟨OldOrNew.refl c s, hnd⟩
  | cons a l ih =>
    obtain ⟨h1, h2⟩ := hf s a hnd
    obtain ⟨g1, g2⟩ := ih (f s a) h2
    exact ⟨h1.trans g1, g2⟩

/-- What the ledger alone says after part of a commit: the old committed slab where the identifier
    is still pending (or was never pending), the slab visible at commit time where it was written. -/
theorem committed_of_oldOrNew (c : Codec σ β) (s s' : St σ β) (hadv : Adv c s s')
    (hon : OldOrNew c s s') (id : SlabID) :
    (AList.find? s'.deltas id = AList.find? s.deltas id ∧ s'.committed c id = s.committed c id) ∨
    (AList.find? s'.deltas id = none ∧ s'.committed c id = s.view c id) := by
  rcases hon id with ⟨hd, hb⟩ | ⟨hd, hb⟩
  · exact Or.inl ⟨hd, by simp [St.committed, hb]⟩
  · rcases hadv.pending id with hp | ⟨_, _, hcv⟩
    · left
      have hd0 : AList.find? s.deltas id = none := hp ▸ hd
      refine ⟨hp, ?_⟩
      rw [target_of_not_pending c s id hd0] at hb
      simp [St.committed, hb]
    · exact Or.inr ⟨hd, hcv⟩

/-! ### Counting the base-storage calls -/

theorem commitKey_n_log (c : Codec σ β) (fault : Nat → Bool) (r : CommitRes σ β) (k : SlabID)
    (h : r.n = r.log.length) : (commitKey c fault r k).n = (commitKey c fault r k).log.length := by
  unfold commitKey
  split
  · exact h
  · dsimp only
    split
    · split <;> simp [h]
    · split <;> simp [h]
    · split
      · exact h
      · split <;> simp [h]

theorem commitKeys_fold_n_log (c : Codec σ β) (fault : Nat → Bool) (keys : List SlabID)
    (r : CommitRes σ β) (h : r.n = r.log.length) :
    (keys.foldl (commitKey c fault) r).n = (keys.foldl (commitKey c fault) r).log.length := by
  induction keys generalizing r with
  | nil => exact h
  | cons k ks ih => exact ih _ (commitKey_n_log c fault r k h)

theorem commitKeys_n_log (c : Codec σ β) (fault : Nat → Bool) (s : St σ β) (keys : List SlabID) :
    (commitKeys c fault s keys).n = (commitKeys c fault s keys).log.length :=
  commitKeys_fold_n_log c fault keys _ rfl

/-- The fault-plan position of a commit is the length of its call log; a commit issues at most one
    base-storage call per owned pending identifier, and exactly one each when it succeeds. -/
theorem commitW_calls (c : Codec σ β) (kind : CommitKind) (fault : Nat → Bool)
    (mo dlo : List SlabID) (s : St σ β) (hnd : (AList.keys s.deltas).Nodup) :
    (commitW c kind fault mo dlo s).n = (commitW c kind fault mo dlo s).log.length ∧
    (commitW c kind fault mo dlo s).n ≤ (sortedOwnedDeltaKeys s).length ∧
    ((commitW c kind fault mo dlo s).err = none →
      (commitW c kind fault mo dlo s).n = (sortedOwnedDeltaKeys s).length) := by
  obtain ⟨keys, hkeys, hshape⟩ := commitW_shape c kind fault mo dlo s
  have hlen : keys.length = (sortedOwnedDeltaKeys s).length :=
    ((hkeys hnd).perm (ownedKeys_sorted s hnd)).length_eq
  rcases hshape with h | ⟨_, h⟩
  · rw [h]
    have hn := commitKeys_n_log c fault s keys
    refine ⟨hn, ?_, ?_⟩
    · have hp := (commitKeys_log_prefix c fault s keys).length_le
      rw [List.length_map] at hp
      omega
    · intro herr
      have hf := congrArg List.length (commitKeys_log_full c fault s keys herr)
      rw [List.length_map] at hf
      omega
  · rw [h]
    exact ⟨rfl, Nat.zero_le _, fun herr => by simp at herr⟩

/-! ### The loop stops at the first faulted call -/

/-- No error so far and no faulted call among those issued, or an external error and the last
    call issued is the first faulted position. -/
def FirstFault (fault : Nat → Bool) (r : CommitRes σ β) : Prop :=
  (r.err = none ∧ ∀ n, n < r.n → fault n = false) ∨
  (r.err = some .external ∧
    ∃ p, r.n = p + 1 ∧ fault p = true ∧ ∀ m, m < p → fault m = false)

theorem commitKey_firstFault (c : Codec σ β) (fault : Nat → Bool) (r : CommitRes σ β) (k : SlabID)
    (hne : NoEncodeFailure c r.st) (h : FirstFault fault r) :
    NoEncodeFailure c (commitKey c fault r k).st ∧ FirstFault fault (commitKey c fault r k) := by
  rcases h with ⟨he, hn⟩ | ⟨he, hn⟩
  · have hstep : ∀ n, n < r.n + 1 → fault r.n = false → fault n = false := by
      intro n hlt hf
      by_cases h' : n < r.n
      · exact hn n h'
      · have : n = r.n := by omega
        rw [this]; exact hf
    unfold commitKey
    simp only [he]
    split
    · split
      · rename_i hf
        exact ⟨hne, Or.inr ⟨rfl, r.n, rfl, hf, hn⟩⟩
      · rename_i hf
        refine ⟨noEncodeFailure_erase c r.st _ k rfl hne, Or.inl ⟨rfl, ?_⟩⟩
        intro n hlt
        exact hstep n hlt (by simpa using hf)
    · split
      · rename_i hf
        exact ⟨hne, Or.inr ⟨rfl, r.n, rfl, hf, hn⟩⟩
      · rename_i hf
        refine ⟨noEncodeFailure_erase c r.st _ k rfl hne, Or.inl ⟨rfl, ?_⟩⟩
        intro n hlt
        exact hstep n hlt (by simpa using hf)
    · rename_i v hd
      have hv := hne k v hd
      split
      · rename_i hb; simp [hb] at hv
      · split
        · rename_i hf
          exact ⟨hne, Or.inr ⟨rfl, r.n, rfl, hf, hn⟩⟩
        · rename_i hf
          refine ⟨noEncodeFailure_erase c r.st _ k rfl hne, Or.inl ⟨rfl, ?_⟩⟩
          intro n hlt
          exact hstep n hlt (by simpa using hf)
  · rw [commitKey_of_err c fault r k _ he]
    exact ⟨hne, Or.inr ⟨he, hn⟩⟩

theorem commitKeys_fold_firstFault (c : Codec σ β) (fault : Nat → Bool) (keys : List SlabID)
    (r : CommitRes σ β) (hne : NoEncodeFailure c r.st) (h : FirstFault fault r) :
    NoEncodeFailure c (keys.foldl (commitKey c fault) r).st ∧
      FirstFault fault (keys.foldl (commitKey c fault) r) := by
  induction keys generalizing r with
  | nil => exact ⟨hne, h⟩
  | cons k ks ih =>
    obtain ⟨h1, h2⟩ := commitKey_firstFault c fault r k hne h
    exact ih _ h1 h2

theorem commitW_firstFault (c : Codec σ β) (kind : CommitKind) (fault : Nat → Bool)
    (mo dlo : List SlabID) (s : St σ β) (hne : NoEncodeFailure c s) :
    FirstFault fault (commitW c kind fault mo dlo s) := by
  obtain ⟨keys, _, hshape⟩ := commitW_shape c kind fault mo dlo s
  rcases hshape with h | ⟨h, _⟩
  · rw [h]
    exact (commitKeys_fold_firstFault c fault keys _ hne
      (Or.inl ⟨rfl, fun n hn => by simp at hn⟩)).2
  · exact absurd hne h

/-! ### Clean states: nothing owned is pending -/

/-- No owned identifier is in the write set (the state right after a successful commit). -/
def Clean (s : St σ β) : Prop := ∀ id, id.isTemp = false → AList.find? s.deltas id = none

/-- Does this operation put an owned identifier into the write set? -/
def Op.writesOwned : Op σ → Bool
  | .store id _ => !id.isTemp
  | .remove id => !id.isTemp
  | _ => false

/-- From a clean state the commit target is the ledger itself. -/
theorem target_of_clean (c : Codec σ β) (s : St σ β) (hcl : Clean s) (id : SlabID) :
    target c s id = AList.find? s.base id := by
  cases ht : id.isTemp with
  | true => exact target_of_temp c s id ht
  | false => exact target_of_not_pending c s id (hcl id ht)

/-- Every operation other than a store/remove of an owned identifier – commit attempts with any
    fault plan included – keeps a clean state clean and leaves every register as it was. -/
theorem step_clean (c : Codec σ β) (s : St σ β) (hI : Inv c s) (hcl : Clean s) (op : Op σ)
    (hw : Op.writesOwned op = false) :
    Clean (St.step c s op).1 ∧
    ∀ id, AList.find? (St.step c s op).1.base id = AList.find? s.base id := by
  cases op with
  | store id v =>
    by_cases hid : id = SlabID.undef
    · simpa [St.step, St.store, hid] using hcl
    · simp only [St.step, St.store, hid, if_false]
      refine ⟨?_, by intros; trivial⟩
      intro j hj
      have hne : ¬ id = j := by
        intro e; subst e
        simp [Op.writesOwned, hj] at hw
      simp only [AList.find?_insert, hne, if_false]
      exact hcl j hj
  | remove id =>
    by_cases hid : id = SlabID.undef
    · simpa [St.step, St.remove, hid] using hcl
    · simp only [St.step, St.remove, hid, if_false]
      refine ⟨?_, by intros; trivial⟩
      intro j hj
      have hne : ¬ id = j := by
        intro e; subst e
        simp [Op.writesOwned, hj] at hw
      simp only [AList.find?_insert, hne, if_false]
      exact hcl j hj
  | retrieve id =>
    obtain ⟨s', h1, _, _, h4, h5⟩ := retrieve_spec c s hI id
    simp only [St.step, h1]
    exact ⟨fun j hj => by rw [h4]; exact hcl j hj, fun j => by rw [h5]⟩
  | retrieveIfLoaded id => exact ⟨hcl, fun _ => rfl⟩
  | retrieveIgnoringDeltas id ch =>
    obtain ⟨s', h1, _, _, h4, h5⟩ := retrieveIgnoringDeltas_spec c s hI id ch
    simp only [St.step, h1]
    exact ⟨fun j hj => by rw [h4]; exact hcl j hj, fun j => by rw [h5]⟩
  | commit kind faults mo dlo =>
    rw [step_commit]
    obtain ⟨hon, _⟩ := commitW_oldOrNew c kind (faultPlan faults) mo dlo s hI.deltasNodup
    constructor
    · intro j hj
      rcases hon j with ⟨hd, _⟩ | ⟨hd, _⟩
      · exact hd.trans (hcl j hj)
      · exact hd
    · intro j
      rcases hon j with ⟨_, hb⟩ | ⟨_, hb⟩
      · exact hb
      · exact hb.trans (target_of_clean c s hcl j)
  | dropDeltas => exact ⟨fun _ _ => rfl, fun _ => rfl⟩
  | dropCache => exact ⟨hcl, fun _ => rfl⟩
  | preload ids =>
    rw [step_preload_fst]
    obtain ⟨_, _, h3, h4⟩ := batchPreload_spec c s hI ids
    exact ⟨fun j hj => by rw [h3]; exact hcl j hj, fun j => by rw [h4]⟩
  | recreate => exact ⟨fun _ _ => rfl, fun _ => rfl⟩
  | genID a =>
    by_cases ha : a = 0
    · simp only [St.step, St.generateSlabID, ha, if_true]
      exact ⟨hcl, by intros; trivial⟩
    · simp only [St.step, St.generateSlabID, ha, if_false]
      exact ⟨hcl, by intros; trivial⟩

theorem run_clean (c : Codec σ β) (hc : RoundTrip c) (ops : List (Op σ)) (s : St σ β)
    (hI : Inv c s) (hcl : Clean s) (hw : ∀ op ∈ ops, Op.writesOwned op = false) :
    Clean (St.run c s ops) ∧ ∀ id, AList.find? (St.run c s ops).base id = AList.find? s.base id := by
  induction ops generalizing s with
  | nil => exact ⟨hcl, fun _ => rfl⟩
  | cons op ops ih =>
    obtain ⟨h1, h2⟩ := step_clean c s hI hcl op (hw op (List.mem_cons_self ..))
    obtain ⟨g1, g2⟩ := ih (St.step c s op).1 (inv_step_aux c hc s op hI) h1
      (fun o ho => hw o (List.mem_cons_of_mem _ ho))
    exact ⟨g1, fun id => (g2 id).trans (h2 id)⟩

/-! ### One step of any history, seen from the ledger -/

/-- After one operation the ledger says, per identifier, what it said before or – if the operation
    was a commit attempt – the slab visible when the attempt started. -/
theorem step_committed (c : Codec σ β) (hc : RoundTrip c) (s : St σ β) (hI : Inv c s) (op : Op σ)
    (id : SlabID) :
    (St.step c s op).1.committed c id = s.committed c id ∨
    (Op.isCommit op = true ∧ (St.step c s op).1.committed c id = s.view c id) := by
  cases hop : Op.isCommit op with
  | false =>
    left
    simp [St.committed, step_base_of_not_commit c s op hop]
  | true =>
    cases op with
    | commit kind faults mo dlo =>
      rw [step_commit]
      obtain ⟨_, hadv, _⟩ := commitW_spec c hc kind (faultPlan faults) mo dlo s hI
      obtain ⟨hon, _⟩ := commitW_oldOrNew c kind (faultPlan faults) mo dlo s hI.deltasNodup
      rcases committed_of_oldOrNew c s _ hadv hon id with ⟨_, h⟩ | ⟨_, h⟩
      · exact Or.inl h
      · exact Or.inr ⟨rfl, h⟩
    | _ => simp [Op.isCommit] at hop

end Atree
