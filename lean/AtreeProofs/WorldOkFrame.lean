import AtreeProofs.WorldOk
/-
  What an operation through a handle leaves ALONE, and what it keeps current (audit a5: S2, S4).
  DEFINITIONS ONLY — part of the reviewed statement of the property theorems of
  `AtreeProofs/Props/C10WAll.lean` (all current handles stay current; histories) and
  `AtreeProofs/Props/C11W.lean` (whole-operation theorems through a detached handle).
-/
namespace Atree
open Gen

namespace World

/-- The containers an operation MOVES: the container it stores (`v = .child z _`) and the container
    the overwritten / removed element (`old`, as handed back) referred to.  They change FORM (the
    stored one may be inlined, the one handed back is made standalone) and get a new / lose their
    holder; every other container keeps its place. -/
def Moved (v : Option WVal) (old : Option Elem) : SlabID → Prop :=
  fun z => (∃ wr, v = some (.child z wr)) ∨ (∃ o, old = some o ∧ o.pay = .ref z)

/-- every current handle of a container that is still there stays current -/
def HandlesKept (w w' : World) : Prop :=
  ∀ z, HandleOk w z → (w'.cont? z).isSome → HandleOk w' z

/-- THE STRONG FRAME of an operation through the handle of `p` that moves the containers `M`:
    a container that is neither `p`, nor one of the containers `p` is nested in (`Anc w z p`), nor
    moved, is UNTOUCHED — same entry in the container table (content, element sizes, header size,
    form inlined / standalone, type); and no index table (`mutableElementIndex`) other than `p`'s
    changes any lookup. -/
def AncFrame (w w' : World) (p : SlabID) (M : SlabID → Prop) : Prop :=
  (∀ z, ¬ Anc w z p → ¬ M z → w'.cont? z = w.cont? z) ∧
  (∀ q x, q ≠ p → AList.find? (w'.idxOf q) x = AList.find? (w.idxOf q) x)

end World
end Atree
