import AtreeModel.Array.Ops
/-
  The structural invariant of array slab trees (C05) — what array_verify.go checks plus the size
  bands, the link structure and ID bookkeeping.  DEFINITIONS ONLY; they are part of the reviewed
  statement of the property theorems.  (Strengthening by adding conjuncts is allowed, weakening
  is not.)
-/
namespace Atree
open Gen ATree

/-- A stored element respects the per-element inline limit (and is not empty). -/
def ElemOk (T : Nat) (e : Elem) : Prop := 1 ≤ e.size ∧ e.size ≤ maxInlineArr T

/-- A value handed to the array by the caller: at least one byte; any size (larger than a slab
    is allowed: it is externalised by `toStorable`). -/
def ValueOk (v : Elem) : Prop := 1 ≤ v.size ∧ ∃ n, v.pay = .val n

/-- Data slab invariant.  `top` = this slab is the root of the array. -/
structure DataInv (T : Nat) (top : Bool) (s : DataSlab) : Prop where
  count_eq : s.hdr.count = s.elems.length
  size_eq  : s.hdr.size = s.prefixSize + sumSizes s.elems
  elems_ok : ∀ e ∈ s.elems, ElemOk T e
  root_eq  : s.root = top
  inl_root : s.inlined = true → top = true
  le_max   : s.hdr.size ≤ maxThr T
  ge_min   : top = false → minThr T ≤ s.hdr.size

/-- Tree invariant at depth `d`; `top` = this slab is the root of the array. -/
def TreeInv (T : Nat) : (d : Nat) → Bool → ATree d → Prop
  | 0, top, (s : DataSlab) => DataInv T top s
  | d + 1, top, (m : MetaSlab (ATree d)) =>
    m.root = top ∧
    m.childHdrs = m.children.map (hdr d) ∧
    m.countSum = MetaSlab.prefixSums m.childHdrs 0 ∧
    m.hdr.count = MetaSlab.sumCounts m.childHdrs ∧
    m.hdr.size = arrayMetaDataSlabPrefixSize + arraySlabHeaderSize * m.children.length ∧
    (∀ c ∈ m.children, TreeInv T d false c) ∧
    (∀ c ∈ m.children, (hdr d c).id.addr = m.hdr.id.addr) ∧
    m.hdr.size ≤ maxThr T ∧
    (top = false → minThr T ≤ m.hdr.size) ∧
    (top = true → 2 ≤ m.children.length)

/-- Left-to-right sibling links: `next` of each leaf is the ID of the following leaf, the last
    leaf's `next` is undefined. -/
def LeafChain : List DataSlab → Prop
  | [] => True
  | [s] => s.next = SlabID.undef
  | s :: t :: rest => s.next = t.hdr.id ∧ LeafChain (t :: rest)

/-- Every slab ID of the tree belongs to address `addr`, is below or equal to the allocation
    counter (so the next allocated ID is fresh), is defined, and no ID occurs twice. -/
def IdsOk (addr ctr : Nat) (ids : List SlabID) : Prop :=
  ids.Nodup ∧ ∀ id ∈ ids, id.addr = addr ∧ 1 ≤ id.idx ∧ id.idx ≤ ctr

/-- The array invariant (C05) relative to the owner's allocation counter. -/
structure ArrInv (T : Nat) (a : Arr) (ctr : Nat) : Prop where
  tree  : TreeInv T a.d true a.root
  chain : LeafChain (Arr.leaves a.d a.root)
  ids   : IdsOk a.addr ctr (slabIds a.d a.root)
  standalone : a.isInlined = false
  count_lt : a.count < maxArrayElementCount + 1

end Atree
