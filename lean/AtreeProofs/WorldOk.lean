import AtreeProofs.WorldInv
import AtreeProofs.ArrayInv
import AtreeProofs.MapInv
import AtreeProofs.MapLemmas
import AtreeProofs.Map.Dict
/-
  The GLOBAL invariant of a World of nested containers (C10): `WorldOk`.  DEFINITIONS ONLY — part of
  the reviewed statement of the property theorems of `AtreeProofs/Props/C10W.lean`.

  Reading guide.  `WorldOk D w ctr` (`D` = the digest function of every map, `ctr` = the allocation
  counter of the storage) says:
  * every container is filed under its value ID, at the world's address, and is structurally valid:
    a standalone one satisfies `ArrInv` / `MapInv`, an inlined one `ArrInvInl` / `MapInvInl`
    (`ContOk`);
  * `SlotSync` — every element `e` of a live container `p` that refers to a live container `x`
    has the size of `x`'s current form behind some number `wrap` of wrappers (this is `ElemSync`),
    the wrapped reference fits the per-element limit `lim` of that slot (arrays: `maxInlineArr T`,
    maps: `maxInlineMapValue T keySize`), and `x` IS STORED INLINE EXACTLY WHEN IT OCCUPIES ONE SLAB
    THAT FITS THE LIMIT (`x.isInlined = x.inlinable (lim - 2 * wrap)`); when `x`'s closure points
    at this slot, `wrap` is the wrapper depth the closure recorded;
  * `UniqueRef` — a container is referenced by at most one element of one container;
    `InlRef` — an inlined container IS referenced (so: by exactly one element of one live container);
  * `MutIdxOk` — `mutableElementIndex` is correct;
  * `ClosureOk` — every parent-updater closure carries the budget that the parent's `set`
    recomputes for its slot (and a usable key, for map parents);
  * `CRank` — the "is an element of" relation is acyclic (a rank function decreases from child to
    parent);
  * `RefsBelow` — no element refers to a slab ID that has not been allocated yet;
    `idxLive` / `hinfoLive` — `mutableElementIndex` only exists for arrays and only records
    containers; a closure points at a container.
  The generalised form `WorldOkGen` (one container whose parent slot is allowed to be out of date,
  a set of containers whose bookkeeping is pending) is the induction invariant of the proofs; the
  reader only needs `WorldOk = WorldOkGen … none (fun _ => False)`.
-/
namespace Atree
open Gen

/-! ### inlined roots -/

/-- Invariant of an INLINED array: one root data slab, flagged inlined, sized with the inlined
    prefix, elements within the per-element limit.  No upper size band: an inlined child may
    momentarily exceed its budget (the parent notification then un-inlines it); the band that
    holds between operations is part of `SlotSync`. -/
def ArrInvInl (T : Nat) (a : Arr) (ctr : Nat) : Prop :=
  ∃ (s : DataSlab) (ty : Nat), a = ⟨0, s, ty⟩ ∧
    s.root = true ∧ s.inlined = true ∧ s.next = SlabID.undef ∧
    s.hdr.count = s.elems.length ∧
    s.hdr.size = inlinedArrayDataSlabPrefixSize + sumSizes s.elems ∧
    (∀ e ∈ s.elems, ElemOk T e) ∧
    1 ≤ s.hdr.id.idx ∧ s.hdr.id.idx ≤ ctr ∧
    s.hdr.count < maxArrayElementCount + 1

/-- Invariant of an INLINED map: one root data slab, flagged inlined, sized with the inlined prefix. -/
def MapInvInl (T : Nat) {r : Nat} (D : DigestFn (r + 1)) (m : OMap r) (ctr : Nat) : Prop :=
  ∃ (s : MDataSlab r) (ty cnt seed : Nat), m = ⟨0, s, ty, cnt, seed⟩ ∧
    s.root = true ∧ s.inlined = true ∧ s.next = SlabID.undef ∧
    ElemsInv T (r + 1) D (r + 1) 0 [] s.elems ∧
    s.hdr.size = inlinedMapDataSlabPrefixSize + s.elems.size ∧
    s.hdr.firstKey = s.elems.firstKey ∧
    cnt = (MTree.toList 0 s).length ∧
    (∀ id ∈ CtxOk.mapSlabIds 0 s, id.addr = s.hdr.id.addr → id.idx ≤ ctr)

/-- the map's slab IDs (at its own address) are below the allocation counter -/
def MapCtrOk {r : Nat} (m : OMap r) (ctr : Nat) : Prop :=
  ∀ id ∈ CtxOk.mapSlabIds m.d m.root, id.addr = m.addr → id.idx ≤ ctr

/-- structural validity of one container, in either form -/
def ContOk (T : Nat) (D : DigestFn 4) (ctr : Nat) : Cont → Prop
  | .arr a => (a.isInlined = false → ArrInv T a ctr) ∧ (a.isInlined = true → ArrInvInl T a ctr)
  | .map m => (m.isInlined = false → MapInv T D m ∧ MapCtrOk m ctr) ∧
              (m.isInlined = true → MapInvInl T D m ctr)

namespace Cont

/-- payloads of the stored elements, in order -/
def pays (c : Cont) : List Pay := c.storedElems.map (·.pay)

/-- the slots of a container: each stored element with the per-element limit of its slot -/
def slots (T : Nat) : Cont → List (Nat × Elem)
  | .arr a => a.toList.map (fun e => (maxInlineArr T, e))
  | .map m => m.toList.map (fun p => (maxInlineMapValue T p.1.size, p.2))

/-- what the reference structure of the world depends on: the kind of the container and, per
    element, the key (maps) and the payload -/
def sig : Cont → Bool × List (Option MKey × Pay)
  | .arr a => (true, a.toList.map (fun e => (none, e.pay)))
  | .map m => (false, m.toList.map (fun p => (some p.1, p.2.pay)))

end Cont

namespace World

/-- container `p` has an element referring to `x` -/
def Holds (w : World) (p x : SlabID) : Prop := ∃ pc, w.cont? p = some pc ∧ Pay.ref x ∈ pc.pays

/-- `a` is `z` or one of the containers `z` is nested in -/
inductive Anc (w : World) (a : SlabID) : SlabID → Prop
  | refl : Anc w a a
  | step {p z : SlabID} : Anc w a p → Holds w p z → Anc w a z

/-- a container is referenced by at most one element of one container -/
def UniqueRef (w : World) : Prop :=
  ∀ p p' pc pc' (i j : Nat) x, w.cont? p = some pc → w.cont? p' = some pc' →
    pc.pays[i]? = some (Pay.ref x) → pc'.pays[j]? = some (Pay.ref x) → (w.cont? x).isSome →
    p = p' ∧ i = j

/-- the closure of `x` points at a slot that holds `x`: for an array parent the recorded index, for
    a map parent the recorded key -/
def ClosureAt (w : World) (x : SlabID) (hi : HInfo) (lim : Nat) (e : Elem) : Prop :=
  (∃ pa i, w.cont? hi.parent = some (.arr pa) ∧ AList.find? (w.idxOf hi.parent) x = some i ∧
      pa.toList[i]? = some e ∧ e.pay = .ref x ∧ lim = maxInlineArr w.T) ∨
  (∃ pm k, w.cont? hi.parent = some (.map pm) ∧ hi.key = some k ∧ (k, e) ∈ pm.toList ∧
      e.pay = .ref x ∧ lim = maxInlineMapValue w.T k.size)

/-- `SlotSync`, see the header.  `stale` = a container whose parent slot may be out of date (it is
    being mutated): only "a standalone child is referenced by the plain reference" is kept for it.
    `O` = containers whose closure is about to be (re)installed: the closure's wrapper depth is
    not yet the element's. -/
def SlotSync (w : World) (stale : Option SlabID) (O : SlabID → Prop) : Prop :=
  ∀ p pc, w.cont? p = some pc → ∀ le ∈ pc.slots w.T, ∀ x c, le.2.pay = .ref x → w.cont? x = some c →
    ∃ wrap, slabIDStorableSize + 2 * wrap ≤ le.1 ∧
      (some x ≠ stale → le.2.size = slotSize c wrap ∧ c.isInlined = c.inlinable (le.1 - 2 * wrap)) ∧
      (some x = stale → c.isInlined = false → le.2.size = slotSize c wrap) ∧
      (∀ hi, ¬ O x → AList.find? w.hinfo x = some hi → ClosureAt w x hi le.1 le.2 → hi.wrap = wrap)

/-- an inlined container is referenced -/
def InlRef (w : World) (O : SlabID → Prop) : Prop :=
  ∀ x c, w.cont? x = some c → c.isInlined = true → ¬ O x → ∃ p, Holds w p x

/-- `MutIdxOk` except for the containers of `O` (their entry is about to be erased / rewritten) -/
def MutIdxOkX (w : World) (O : SlabID → Prop) : Prop :=
  ∀ p a, w.cont? p = some (.arr a) → ∀ x (i : Nat), AList.find? (w.idxOf p) x = some i → ¬ O x →
    (Cont.arr a).pays[i]? = some (Pay.ref x)

/-- every closure carries the budget the parent's `set` recomputes for the slot it points at, the
    wrapped reference fits that slot, and the recorded key of a map parent is a proper key -/
def ClosureOk (D : SlabID → DigestFn 4) (w : World) : Prop :=
  ∀ x hi, AList.find? w.hinfo x = some hi →
    (∀ pa, w.cont? hi.parent = some (.arr pa) →
      hi.maxInline = maxInlineArr w.T - 2 * hi.wrap ∧ slabIDStorableSize + 2 * hi.wrap ≤ maxInlineArr w.T) ∧
    (∀ pm k, w.cont? hi.parent = some (.map pm) → hi.key = some k →
      KeyOk w.T 4 (D hi.parent) k ∧
      hi.maxInline = maxInlineMapValue w.T k.size - 2 * hi.wrap ∧
      slabIDStorableSize + 2 * hi.wrap ≤ maxInlineMapValue w.T k.size)

/-- the rank strictly decreases from a live child to the container that holds it -/
def CRank (rank : SlabID → Nat) (w : World) : Prop :=
  ∀ p x, Holds w p x → (w.cont? x).isSome → rank p < rank x

/-- no element refers to a slab ID that has not been allocated yet -/
def RefsBelow (w : World) (ctr : Nat) : Prop :=
  ∀ p pc, w.cont? p = some pc → ∀ r, Pay.ref r ∈ pc.pays → r.idx ≤ ctr

/-- the size of an inlined container stays below the slab threshold, also while it is out of
    budget (between operations `SlotSync` gives the sharp bound) -/
def InlBand (w : World) : Prop :=
  ∀ x c, w.cont? x = some c → c.isInlined = true → c.rootSize ≤ w.T

/-- `mutableElementIndex` only exists for arrays and only records containers -/
def IdxLive (w : World) : Prop :=
  ∀ p x (i : Nat), AList.find? (w.idxOf p) x = some i → (w.cont? x).isSome ∧ ∃ a, w.cont? p = some (.arr a)

/-- a closure points at a live container -/
def HinfoLive (w : World) : Prop :=
  ∀ x hi, AList.find? w.hinfo x = some hi → (w.cont? hi.parent).isSome

/-- The induction invariant; `WorldOk` is the instance `stale = none`, `O = ∅`. -/
structure WorldOkGen (D : SlabID → DigestFn 4) (rank : SlabID → Nat) (stale : Option SlabID)
    (O : SlabID → Prop) (w : World) (ctr : Nat) : Prop where
  legal   : legalThreshold w.T = true
  ids     : IdsOk w
  addr    : ∀ x c, w.cont? x = some c → x.addr = w.addr
  conts   : ∀ x c, w.cont? x = some c → ContOk w.T (D x) ctr c
  slots   : SlotSync w stale O
  band    : InlBand w
  unique  : UniqueRef w
  inlRef  : InlRef w O
  mutIdx  : MutIdxOkX w O
  closure : ClosureOk D w
  rank    : CRank rank w
  below   : RefsBelow w ctr
  idxLive : IdxLive w
  hinfoLive : HinfoLive w

/-- THE GLOBAL INVARIANT of nested containers (relative to the digest functions of the maps and the
    allocation counter). -/
def WorldOk (D : SlabID → DigestFn 4) (w : World) (ctr : Nat) : Prop :=
  ∃ rank, WorldOkGen D rank none (fun _ => False) w ctr

/-! ### Handles (HandlesCurrent)

A mutation through the handle of `x` reaches the parent only if the closure of `x` is current, and
the parent's own closure, and so on up to the root: `HandleOk w x`.  Handles obtained on insertion,
by lookup (`arrGet` / `mapGet`) or by mutable iteration from a container whose handle is current
are current; after `reopen` only the roots have current handles, until the children are fetched
again.  (Mutating a nested container through any other handle is finding F2 / F2b.) -/

/-- the closure of `x` points at the slot that holds `x` -/
def ClosureCurrent (w : World) (x : SlabID) (hi : HInfo) : Prop := ∃ lim e, ClosureAt w x hi lim e

inductive HandleOk (w : World) : SlabID → Prop
  | root (x : SlabID) : (∀ p, ¬ Holds w p x) → HandleOk w x
  | child (x : SlabID) (hi : HInfo) : AList.find? w.hinfo x = some hi → ClosureCurrent w x hi →
      HandleOk w hi.parent → HandleOk w x

/-! ### Values handed to the mutating operations -/

/-- A value that may be stored into container `p` in a slot of per-element limit `lim`:
    a plain value that fits the slot (larger plain values are moved to a separate `StorableSlab` by
    `toStorable`: that path is the subject of C01 / C02 and is not repeated here), or a live
    container that is not referenced anywhere (the Go API: a container value may be inserted only
    once), is not `p` or one of the containers `p` is nested in, and whose wrapped reference fits
    the slot. -/
def WValOk (w : World) (p : SlabID) (lim : Nat) : WVal → Prop
  | .plain e => ValueOk e ∧ e.size ≤ lim
  | .child v wrap => (w.cont? v).isSome ∧ (∀ q, ¬ Holds w q v) ∧ ¬ Anc w v p ∧
      slabIDStorableSize + 2 * wrap ≤ lim

/-! ### What the operations did (conclusions of the operation theorems) -/

/-- every container other than `p` keeps its signature (kind, keys, payloads): the operation on `p`
    changed no other container's content (only, possibly, the form of some of them) -/
def SigFrame (w w' : World) (p : SlabID) : Prop :=
  ∀ z, z ≠ p → (w'.cont? z).map Cont.sig = (w.cont? z).map Cont.sig

/-- the container handed back by an operation: standalone, unreferenced, same data -/
def HandedBack (w w' : World) (old : Elem) : Prop :=
  ∀ x c, old.pay = .ref x → w.cont? x = some c →
    ∃ c', w'.cont? x = some c' ∧ c'.isInlined = false ∧ c'.vid = c.vid ∧ c'.storedElems = c.storedElems ∧
      ∀ q, ¬ Holds w' q x

/-- what `arrInsert` did to the target container: `List.insertIdx` of the stored element (the plain
    value itself, or a reference to the child with the size of the child's current form; the handle
    of the inserted child is current) -/
def InsertedAt (w w' : World) (p : SlabID) (i : Nat) (v : WVal) : Prop :=
  ∃ a a' e, w.cont? p = some (.arr a) ∧ w'.cont? p = some (.arr a') ∧ i ≤ a.toList.length ∧
    a'.toList = a.toList.insertIdx i e ∧
    (∀ e0, v = .plain e0 → e = e0) ∧
    (∀ x wr, v = .child x wr → e.pay = .ref x ∧ HandleOk w' x ∧
      ∃ c, w'.cont? x = some c ∧ e.size = slotSize c wr)

/-- what `arrSet` did: `List.set`, the old element handed back -/
def SetAt (w w' : World) (p : SlabID) (i : Nat) (v : WVal) (old' : Elem) : Prop :=
  ∃ a a' old e, w.cont? p = some (.arr a) ∧ w'.cont? p = some (.arr a') ∧ a.toList[i]? = some old ∧
    a'.toList = a.toList.set i e ∧ old'.pay = old.pay ∧ HandedBack w w' old ∧
    (∀ e0, v = .plain e0 → e = e0) ∧
    (∀ x wr, v = .child x wr → e.pay = .ref x ∧ HandleOk w' x ∧
      ∃ c, w'.cont? x = some c ∧ e.size = slotSize c wr)

/-- what `arrRemove` did: `List.eraseIdx`, the old element handed back -/
def RemovedAt (w w' : World) (p : SlabID) (i : Nat) (old' : Elem) : Prop :=
  ∃ a a' old, w.cont? p = some (.arr a) ∧ w'.cont? p = some (.arr a') ∧ a.toList[i]? = some old ∧
    a'.toList = a.toList.eraseIdx i ∧ old'.pay = old.pay ∧ HandedBack w w' old

/-- what `mapSet` did: the zipper effect `SetEffect` on the pair list, the old value handed back -/
def MapSetAt (w w' : World) (p : SlabID) (k : MKey) (v : WVal) (old' : Option Elem) : Prop :=
  ∃ m m' e oldo, w.cont? p = some (.map m) ∧ w'.cont? p = some (.map m') ∧
    SetEffect m.toList m'.toList k e oldo ∧
    (∀ o, oldo = some o → ∃ o', old' = some o' ∧ o'.pay = o.pay ∧ HandedBack w w' o) ∧
    (oldo = none → old' = none) ∧
    (∀ e0, v = .plain e0 → e = e0) ∧
    (∀ x wr, v = .child x wr → e.pay = .ref x ∧ HandleOk w' x ∧
      ∃ c, w'.cont? x = some c ∧ e.size = slotSize c wr)

/-- what `mapRemove` did: `RemEffect`, the old value handed back -/
def MapRemovedAt (w w' : World) (p : SlabID) (k : MKey) (rk : MKey) (rv' : Elem) : Prop :=
  ∃ m m' rv, w.cont? p = some (.map m) ∧ w'.cont? p = some (.map m') ∧ rk = k ∧
    RemEffect m.toList m'.toList k rv ∧ rv'.pay = rv.pay ∧ HandedBack w w' rv

end World
end Atree
