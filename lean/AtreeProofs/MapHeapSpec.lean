import AtreeModel.Map.Ops
import AtreeProofs.HeapSpec
/-
  The heap a map tree occupies in storage (data slabs, index slabs, external collision-group
  slabs) and completeness of an effect log with respect to a change of the map (C09 / C03 for
  maps).  DEFINITIONS ONLY.
-/
namespace Atree
open Gen

/-- content of one stored map slab -/
inductive MSlabView (r : Nat) where
  | data (s : MDataSlab r)
  | index (hdr : MHdr) (childHdrs : List MHdr) (root : Bool)
  | group (s : GroupSlab (MElems r))

/-- the external collision-group slabs referenced from a data slab's first-level elements -/
def MDataSlab.groupSlabs {r : Nat} (s : MDataSlab r) : List (SlabID × MSlabView r) :=
  s.elems.elems.filterMap (fun el =>
    match el with
    | .ext id _ g => some (id, .group g)
    | _ => none)

/-- every slab of the tree with its content (pre-order; group slabs right after their data slab) -/
def MTree.slabs {r : Nat} : (d : Nat) → MTree r d → List (SlabID × MSlabView r)
  | 0, (s : MDataSlab r) => (s.hdr.id, .data s) :: s.groupSlabs
  | d + 1, (m : MMetaSlab (MTree r d)) =>
    (m.hdr.id, .index m.hdr m.childHdrs m.root) :: m.children.flatMap (MTree.slabs d)

/-- the slab stored under `id`, with the map's extra data (type, count, seed) when it is the root -/
def OMap.slabAt {r : Nat} (m : OMap r) (id : SlabID) : Option (MSlabView r × Option (Nat × Nat × Nat)) :=
  (AList.find? (MTree.slabs m.d m.root) id).map
    (fun s => (s, if id = m.rootID then some (m.ty, m.count, m.seed) else none))

/-- `E` is a complete account of the change from map `m` to map `m'`. -/
structure MEffectsComplete {r : Nat} (m m' : OMap r) (E : List Eff) (created : List SlabID) : Prop where
  changed_stored : ∀ id, (m'.slabAt id).isSome → m'.slabAt id ≠ m.slabAt id → lastAction E id = some true
  gone_removed : ∀ id, (m.slabAt id).isSome → (m'.slabAt id).isNone → lastAction E id = some false
  stored_in_tree : ∀ id, lastAction E id = some true → (m'.slabAt id).isSome ∨ id ∈ created
  removed_not_in_tree : ∀ id, lastAction E id = some false → (m'.slabAt id).isNone

end Atree
