import AtreeModel.StorageOps
import AtreeModel.Commit
import AtreeProofs.StorageLemmas
import AtreeProofs.CommitLemmas
import AtreeProofs.PoolLemmas
/-
  Further lemmas about the storage state machine (C03, C04, C08, C16):
  * `SlabID.lt` is a strict total order; `sortIDs` sorts;
  * the call log of the commit loop is the image of a prefix of the key list;
  * only commits touch the ledger;
  * `collectEncoded` / `applyEncoded` (the pool-explicit `FastCommit`) against `commitKey`;
  * `preloadArrival` against `batchPreload`;
  * point-wise descriptions of `view` / `target` after `store` / `remove`, used by the
    schedule-independence simulation of C08.
  Core Lean only.
-/
namespace Atree
open St

variable {σ β : Type}

/-! ### `SlabID.lt` -/

theorem SlabID.ext' {a b : SlabID} (h1 : a.addr = b.addr) (h2 : a.idx = b.idx) : a = b := by
  cases a; cases b; simp_all

theorem SlabID.lt_iff (a b : SlabID) :
    SlabID.lt a b = true ↔ (a.addr < b.addr ∨ (a.addr = b.addr ∧ a.idx < b.idx)) := by
  unfold SlabID.lt
  by_cases h : a.addr = b.addr
  · simp [h]
  · simp [h]

theorem SlabID.lt_irrefl (a : SlabID) : SlabID.lt a a = false := by
  cases h : SlabID.lt a a with
  | false => rfl
  | true => rw [SlabID.lt_iff] at h; omega

theorem SlabID.lt_trans {a b d : SlabID} (h1 : SlabID.lt a b = true) (h2 : SlabID.lt b d = true) :
    SlabID.lt a d = true := by
  rw [SlabID.lt_iff] at *
  omega

theorem SlabID.lt_total {a b : SlabID} (h : a ≠ b) : SlabID.lt a b = true ∨ SlabID.lt b a = true := by
  rw [SlabID.lt_iff, SlabID.lt_iff]
  by_cases h1 : a.addr = b.addr
  · by_cases h2 : a.idx = b.idx
    · exact absurd (SlabID.ext' h1 h2) h
    · omega
  · omega

/-! ### `sortIDs` sorts -/

namespace St

theorem mem_insertSorted (k : SlabID) (l : List SlabID) (j : SlabID) :
    j ∈ insertSorted k l ↔ j = k ∨ j ∈ l := by
  rw [(insertSorted_perm k l).mem_iff, List.mem_cons]

theorem pairwise_insertSorted (k : SlabID) (l : List SlabID) (hk : k ∉ l)
    (h : l.Pairwise (fun a b => SlabID.lt a b = true)) :
    (insertSorted k l).Pairwise (fun a b => SlabID.lt a b = true) := by
  induction l with
  | nil => simp [insertSorted]
  | cons x xs ih =>
    rw [List.pairwise_cons] at h
    simp only [insertSorted]
    split
    · rename_i hlt
      rw [List.pairwise_cons]
      refine ⟨?_, List.pairwise_cons.mpr h⟩
      intro a ha
      rcases List.mem_cons.mp ha with rfl | ha
      · exact hlt
      · exact SlabID.lt_trans hlt (h.1 a ha)
    · rename_i hlt
      have hkx : k ≠ x := fun e => hk (e ▸ List.mem_cons_self ..)
      have hxk : SlabID.lt x k = true := by
        rcases SlabID.lt_total hkx with h' | h'
        · exact absurd h' hlt
        · exact h'
      rw [List.pairwise_cons]
      refine ⟨?_, ih (fun hm => hk (List.mem_cons_of_mem _ hm)) h.2⟩
      intro a ha
      rcases (mem_insertSorted k xs a).mp ha with rfl | ha
      · exact hxk
      · exact h.1 a ha

theorem pairwise_sortIDs (l : List SlabID) (hnd : l.Nodup) :
    (sortIDs l).Pairwise (fun a b => SlabID.lt a b = true) := by
  induction l with
  | nil => simp [sortIDs]
  | cons x xs ih =>
    rw [List.nodup_cons] at hnd
    show (insertSorted x (sortIDs xs)).Pairwise _
    exact pairwise_insertSorted x _ (fun hm => hnd.1 ((mem_sortIDs xs x).mp hm)) (ih hnd.2)

theorem pairwise_sortedOwnedDeltaKeys (s : St σ β) (hnd : (AList.keys s.deltas).Nodup) :
    (sortedOwnedDeltaKeys s).Pairwise (fun a b => SlabID.lt a b = true) :=
  pairwise_sortIDs _ (hnd.sublist List.filter_sublist)

end St

/-! ### The call log of the commit loop -/

/-- identifier of a base-storage call -/
def callID : BaseCall β → SlabID
  | .store id _ => id
  | .remove id => id

/-- One iteration either issues exactly one call (on `k`), or stops with an error without issuing
    any call, or is skipped because the loop already stopped. -/
theorem commitKey_log (c : Codec σ β) (fault : Nat → Bool) (r : CommitRes σ β) (k : SlabID) :
    ((commitKey c fault r k).log.map callID = r.log.map callID ++ [k]) ∨
    ((commitKey c fault r k).err ≠ none ∧ (commitKey c fault r k).log = r.log) := by
  unfold commitKey
  split
  · rename_i e he
    exact Or.inr ⟨by simp [he], rfl⟩
  · dsimp only
    split
    · split <;> (left; simp [callID])
    · split <;> (left; simp [callID])
    · split
      · exact Or.inr ⟨by simp, rfl⟩
      · split <;> (left; simp [callID])

/-- The identifiers of the issued calls form a prefix of the key list. -/
theorem commitKeys_fold_log (c : Codec σ β) (fault : Nat → Bool) (keys : List SlabID)
    (r : CommitRes σ β) :
    ∃ l, l <+: keys ∧ (keys.foldl (commitKey c fault) r).log.map callID = r.log.map callID ++ l ∧
      ((keys.foldl (commitKey c fault) r).err = none → l = keys) := by
  induction keys generalizing r with
  | nil => exact ⟨[], List.prefix_refl _, by simp, fun _ => rfl⟩
  | cons k ks ih =>
    rw [List.foldl_cons]
    rcases commitKey_log c fault r k with h | ⟨he, hl⟩
    · obtain ⟨l, hl1, hl2, hl3⟩ := ih (commitKey c fault r k)
      refine ⟨k :: l, ?_, ?_, ?_⟩
      · obtain ⟨t, ht⟩ := hl1
        exact ⟨t, by simp [← ht]⟩
      · rw [hl2, h]; simp
      · intro herr; rw [hl3 herr]
    · cases he' : (commitKey c fault r k).err with
      | none => exact absurd he' he
      | some e =>
        rw [foldl_commitKey_of_err c fault ks _ e he']
        exact ⟨[], List.nil_prefix, by simp [hl], fun h => by simp [he'] at h⟩

theorem commitKeys_log_prefix (c : Codec σ β) (fault : Nat → Bool) (s : St σ β) (keys : List SlabID) :
    (commitKeys c fault s keys).log.map callID <+: keys := by
  obtain ⟨l, h1, h2, _⟩ := commitKeys_fold_log c fault keys { st := s, err := none, log := [], n := 0 }
  unfold commitKeys
  rw [h2]
  simpa using h1

theorem commitKeys_log_full (c : Codec σ β) (fault : Nat → Bool) (s : St σ β) (keys : List SlabID)
    (h : (commitKeys c fault s keys).err = none) :
    (commitKeys c fault s keys).log.map callID = keys := by
  obtain ⟨l, _, h2, h3⟩ := commitKeys_fold_log c fault keys { st := s, err := none, log := [], n := 0 }
  unfold commitKeys at h ⊢
  rw [h2, h3 h]
  simp

theorem fastCommit_log_prefix (c : Codec σ β) (fault : Nat → Bool) (s : St σ β) :
    (fastCommit c fault s).log.map callID <+: sortedOwnedDeltaKeys s := by
  unfold fastCommit
  dsimp only
  split
  · exact List.nil_prefix
  · exact commitKeys_log_prefix c fault s _

/-- Two duplicate-free lists with the same members are permutations of each other. -/
theorem perm_of_nodup_of_mem_iff {α : Type} [DecidableEq α] {l₁ l₂ : List α} (h1 : l₁.Nodup)
    (h2 : l₂.Nodup) (h : ∀ a, a ∈ l₁ ↔ a ∈ l₂) : l₁.Perm l₂ := by
  rw [List.perm_iff_count]
  intro a
  rw [h1.count, h2.count]
  simp [h a]

theorem OwnedKeys.perm {s : St σ β} {k1 k2 : List SlabID} (h1 : OwnedKeys s k1) (h2 : OwnedKeys s k2) :
    k1.Perm k2 :=
  perm_of_nodup_of_mem_iff h1.nodup h2.nodup (fun a => by rw [h1.mem, h2.mem])

/-! ### Only commits touch the ledger -/

theorem retrieveIgnoringDeltas_frame (c : Codec σ β) (s s' : St σ β) (id : SlabID) (ch : Bool)
    (v : Option σ) (h : s.retrieveIgnoringDeltas c id ch = .ok (v, s')) :
    s'.base = s.base ∧ s'.deltas = s.deltas ∧ s'.alloc = s.alloc ∧ s'.tempIx = s.tempIx := by
  unfold St.retrieveIgnoringDeltas at h
  split at h
  · cases h; exact ⟨rfl, rfl, rfl, rfl⟩
  · split at h
    · cases h; exact ⟨rfl, rfl, rfl, rfl⟩
    · split at h
      · cases h
      · split at h <;> (cases h; exact ⟨rfl, rfl, rfl, rfl⟩)

theorem retrieve_frame (c : Codec σ β) (s s' : St σ β) (id : SlabID)
    (v : Option σ) (h : s.retrieve c id = .ok (v, s')) :
    s'.base = s.base ∧ s'.deltas = s.deltas ∧ s'.alloc = s.alloc ∧ s'.tempIx = s.tempIx := by
  unfold St.retrieve at h
  split at h
  · cases h; exact ⟨rfl, rfl, rfl, rfl⟩
  · exact retrieveIgnoringDeltas_frame c s s' id true v h

theorem preloadOne_base (c : Codec σ β) (r : St σ β × Option StErr) (id : SlabID) :
    (preloadOne c r id).1.base = r.1.base := by
  unfold preloadOne
  split
  · rfl
  · dsimp only
    split
    · rfl
    · split <;> rfl

theorem preload_fold_base (c : Codec σ β) (ids : List SlabID) (r : St σ β × Option StErr) :
    (ids.foldl (preloadOne c) r).1.base = r.1.base := by
  induction ids generalizing r with
  | nil => rfl
  | cons id ids ih => rw [List.foldl_cons, ih, preloadOne_base]

/-- is this operation a commit? -/
def Op.isCommit : Op σ → Bool
  | .commit _ _ _ _ => true
  | _ => false

theorem step_base_of_not_commit (c : Codec σ β) (s : St σ β) (op : Op σ)
    (h : Op.isCommit op = false) : (St.step c s op).1.base = s.base := by
  cases op with
  | store id v =>
    by_cases hid : id = SlabID.undef <;> simp [St.step, St.store, hid]
  | remove id =>
    by_cases hid : id = SlabID.undef <;> simp [St.step, St.remove, hid]
  | retrieve id =>
    simp only [St.step]
    split
    · rename_i v s' hr
      exact (retrieve_frame c s s' id v hr).1
    · rfl
  | retrieveIfLoaded id => rfl
  | retrieveIgnoringDeltas id ch =>
    simp only [St.step]
    split
    · rename_i v s' hr
      exact (retrieveIgnoringDeltas_frame c s s' id ch v hr).1
    · rfl
  | commit kind faults mo dlo => simp [Op.isCommit] at h
  | dropDeltas => rfl
  | dropCache => rfl
  | preload ids =>
    rw [step_preload_fst]
    exact preload_fold_base c ids (s, none)
  | recreate => rfl
  | genID a =>
    simp only [St.step, St.generateSlabID]
    split <;> rfl

theorem run_base_of_no_commit (c : Codec σ β) (ops : List (Op σ)) (s : St σ β)
    (h : ∀ op ∈ ops, Op.isCommit op = false) : (St.run c s ops).base = s.base := by
  induction ops generalizing s with
  | nil => rfl
  | cons op ops ih =>
    show (St.run c (St.step c s op).1 ops).base = s.base
    rw [ih _ (fun o ho => h o (List.mem_cons_of_mem _ ho)),
      step_base_of_not_commit c s op (h op (List.mem_cons_self ..))]

/-- The view of a freshly opened storage is what the ledger says. -/
theorem view_fresh (c : Codec σ β) (base : AList SlabID β) (alloc : AList Nat Nat) (id : SlabID) :
    (St.fresh base alloc : St σ β).view c id = (AList.find? base id).bind (c.dec id) := by
  simp [St.view, St.fresh]

/-! ### `collectEncoded`: the result map of the encoder pool -/

/-- the loop body of `collectEncoded` -/
def collectStep (acc : Option (AList SlabID (Option β))) (r : SlabID × Option (Option β)) :
    Option (AList SlabID (Option β)) :=
  match acc, r.2 with
  | none, _ => none
  | some _, none => none
  | some m, some data => some (AList.insert m r.1 data)

theorem collectEncoded_eq (results : List (SlabID × Option (Option β))) :
    collectEncoded results = results.foldl collectStep (some []) := rfl

theorem collect_fold_none (l : List (SlabID × Option (Option β))) :
    l.foldl collectStep none = none := by
  induction l with
  | nil => rfl
  | cons r l ih => rw [List.foldl_cons]; exact ih

theorem collect_none_of_mem (l : List (SlabID × Option (Option β))) (m0 : AList SlabID (Option β))
    (h : ∃ r, r ∈ l ∧ r.2 = none) : l.foldl collectStep (some m0) = none := by
  induction l generalizing m0 with
  | nil => obtain ⟨r, hr, _⟩ := h; simp at hr
  | cons a l ih =>
    rw [List.foldl_cons]
    cases ha : a.2 with
    | none =>
      have : collectStep (some m0) a = none := by simp [collectStep, ha]
      rw [this, collect_fold_none]
    | some data =>
      have : collectStep (some m0) a = some (AList.insert m0 a.1 data) := by simp [collectStep, ha]
      rw [this]
      apply ih
      obtain ⟨r, hr, hr2⟩ := h
      rcases List.mem_cons.mp hr with rfl | hr
      · rw [ha] at hr2; cases hr2
      · exact ⟨r, hr, hr2⟩

theorem collect_some (l : List (SlabID × Option (Option β))) (m0 : AList SlabID (Option β))
    (h : ∀ r, r ∈ l → r.2 ≠ none) (hnd : (l.map (·.1)).Nodup) :
    ∃ m, l.foldl collectStep (some m0) = some m ∧
      (∀ id d, (id, some d) ∈ l → AList.find? m id = some d) ∧
      (∀ id, id ∉ l.map (·.1) → AList.find? m id = AList.find? m0 id) := by
  induction l generalizing m0 with
  | nil => exact ⟨m0, rfl, fun id d hm => by simp at hm, fun _ _ => rfl⟩
  | cons a l ih =>
    rw [List.map_cons, List.nodup_cons] at hnd
    rw [List.foldl_cons]
    cases ha : a.2 with
    | none => exact absurd ha (h a (List.mem_cons_self ..))
    | some data =>
      have : collectStep (some m0) a = some (AList.insert m0 a.1 data) := by simp [collectStep, ha]
      rw [this]
      obtain ⟨m, hm1, hm2, hm3⟩ := ih (AList.insert m0 a.1 data)
        (fun r hr => h r (List.mem_cons_of_mem _ hr)) hnd.2
      refine ⟨m, hm1, ?_, ?_⟩
      · intro id d hmem
        rcases List.mem_cons.mp hmem with heq | hmem
        · have h1 : a.1 = id := by rw [← heq]
          have h2 : a.2 = some d := by rw [← heq]
          rw [ha] at h2
          cases h2
          rw [hm3 id (h1 ▸ hnd.1), AList.find?_insert]
          simp [h1]
        · exact hm2 id d hmem
      · intro id hid
        rw [List.map_cons, List.mem_cons, not_or] at hid
        rw [hm3 id hid.2, AList.find?_insert]
        have : ¬ a.1 = id := fun e => hid.1 e.symm
        simp [this]

/-! ### The pool-explicit apply loop against `commitKey` -/

theorem anyEncodeFails_iff (c : Codec σ β) (s : St σ β) (keys : List SlabID) :
    anyEncodeFails c s keys = true ↔ ∃ id, id ∈ keys ∧ encodeJob c s id = none := by
  unfold anyEncodeFails
  rw [List.any_eq_true]
  have key : ∀ id, (match AList.find? s.deltas id with
      | some (some v) => (c.enc v).isNone
      | _ => false) = true ↔ encodeJob c s id = none := by
    intro id
    unfold encodeJob
    cases AList.find? s.deltas id with
    | none => simp
    | some o =>
      cases o with
      | none => simp
      | some v => cases c.enc v <;> simp
  constructor
  · rintro ⟨id, hid, h⟩; exact ⟨id, hid, (key id).mp h⟩
  · rintro ⟨id, hid, h⟩; exact ⟨id, hid, (key id).mpr h⟩

theorem commitKey_deltas_frame (c : Codec σ β) (fault : Nat → Bool) (r : CommitRes σ β)
    (k j : SlabID) (hj : j ≠ k) :
    AList.find? (commitKey c fault r k).st.deltas j = AList.find? r.st.deltas j := by
  have hkj : ¬ k = j := fun e => hj e.symm
  unfold commitKey
  split
  · rfl
  · dsimp only
    split
    · split
      · rfl
      · simp [AList.find?_erase, hkj]
    · split
      · rfl
      · simp [AList.find?_erase, hkj]
    · split
      · rfl
      · split
        · rfl
        · simp [AList.find?_erase, hkj]

/-- One iteration of the apply loop of the pool-explicit `FastCommit` is one iteration of the
    sequential loop, provided the collected map holds what the encoder computed for this key and
    the key's delta has not been touched. -/
theorem commitKey_eq_applyEncoded (c : Codec σ β) (fault : Nat → Bool)
    (enc : AList SlabID (Option β)) (s : St σ β) (r : CommitRes σ β) (k : SlabID) (d : Option β)
    (hk : AList.find? r.st.deltas k = AList.find? s.deltas k)
    (hd : encodeJob c s k = some d) (he : AList.find? enc k = some d) :
    commitKey c fault r k = applyEncoded fault enc r k := by
  unfold commitKey applyEncoded
  unfold encodeJob at hd
  cases herr : r.err with
  | some e => rfl
  | none =>
    dsimp only
    rw [hk, he]
    cases hf : AList.find? s.deltas k with
    | none =>
      rw [hf] at hd
      simp only [Option.some.injEq] at hd
      subst hd
      rfl
    | some o =>
      cases o with
      | none =>
        rw [hf] at hd
        simp only [Option.some.injEq] at hd
        subst hd
        rfl
      | some v =>
        rw [hf] at hd
        cases hb : c.enc v with
        | none => simp [hb] at hd
        | some b =>
          simp only [hb, Option.map_some, Option.some.injEq] at hd
          subst hd
          simp [hb]

theorem fold_commitKey_eq_applyEncoded (c : Codec σ β) (fault : Nat → Bool)
    (enc : AList SlabID (Option β)) (s : St σ β) (ks : List SlabID) (hnd : ks.Nodup)
    (r : CommitRes σ β)
    (hk : ∀ k, k ∈ ks → AList.find? r.st.deltas k = AList.find? s.deltas k)
    (henc : ∀ k, k ∈ ks → ∃ d, encodeJob c s k = some d ∧ AList.find? enc k = some d) :
    ks.foldl (commitKey c fault) r = ks.foldl (applyEncoded fault enc) r := by
  induction ks generalizing r with
  | nil => rfl
  | cons k ks ih =>
    rw [List.nodup_cons] at hnd
    obtain ⟨d, hd, he⟩ := henc k (List.mem_cons_self ..)
    rw [List.foldl_cons, List.foldl_cons,
      ← commitKey_eq_applyEncoded c fault enc s r k d (hk k (List.mem_cons_self ..)) hd he]
    apply ih hnd.2
    · intro j hj
      have hjk : j ≠ k := fun e => hnd.1 (e ▸ hj)
      rw [commitKey_deltas_frame c fault r k j hjk]
      exact hk j (List.mem_cons_of_mem _ hj)
    · intro j hj
      exact henc j (List.mem_cons_of_mem _ hj)

/-- `FastCommit` with the pool made explicit, for a given list of delivered results that is a
    permutation of the (duplicate-free) job list paired with the encoder function. -/
theorem fastCommitPool_eq_of_results (c : Codec σ β) (fault : Nat → Bool) (s : St σ β)
    (hnd : (AList.keys s.deltas).Nodup) (results : List (SlabID × Option (Option β)))
    (hperm : results.Perm ((sortedOwnedDeltaKeys s).map (fun j => (j, encodeJob c s j)))) :
    (match collectEncoded results with
      | none => ({ st := s, err := some .encoding, log := [], n := 0 } : CommitRes σ β)
      | some enc => (sortedOwnedDeltaKeys s).foldl (applyEncoded fault enc)
          { st := s, err := none, log := [], n := 0 }) = fastCommit c fault s := by
  have hkeys := ownedKeys_sorted s hnd
  have hmem : ∀ r, r ∈ results ↔ ∃ j, j ∈ sortedOwnedDeltaKeys s ∧ r = (j, encodeJob c s j) := by
    intro r
    rw [hperm.mem_iff, List.mem_map]
    constructor
    · rintro ⟨j, hj, rfl⟩; exact ⟨j, hj, rfl⟩
    · rintro ⟨j, hj, rfl⟩; exact ⟨j, hj, rfl⟩
  unfold fastCommit
  dsimp only
  cases hany : anyEncodeFails c s (sortedOwnedDeltaKeys s) with
  | true =>
    obtain ⟨id, hid, hnone⟩ := (anyEncodeFails_iff c s _).mp hany
    have : collectEncoded results = none := by
      rw [collectEncoded_eq]
      apply collect_none_of_mem
      exact ⟨(id, encodeJob c s id), (hmem _).mpr ⟨id, hid, rfl⟩, hnone⟩
    rw [this]
    simp
  | false =>
    have hno : ∀ id, id ∈ sortedOwnedDeltaKeys s → encodeJob c s id ≠ none := by
      intro id hid hnone
      have := (anyEncodeFails_iff c s _).mpr ⟨id, hid, hnone⟩
      rw [hany] at this
      cases this
    have hnd' : (results.map (·.1)).Nodup := by
      have hp := hperm.map (·.1)
      rw [List.map_map] at hp
      have hid : (List.map ((fun x => x.1) ∘ fun j => (j, encodeJob c s j)) (sortedOwnedDeltaKeys s))
          = sortedOwnedDeltaKeys s := by
        simp [Function.comp_def]
      rw [hid] at hp
      exact hp.nodup_iff.mpr hkeys.nodup
    obtain ⟨m, hm1, hm2, _⟩ := collect_some results [] (by
      intro r hr
      obtain ⟨j, hj, rfl⟩ := (hmem r).mp hr
      exact hno j hj) hnd'
    rw [collectEncoded_eq, hm1]
    simp only [Bool.false_eq_true, if_false]
    unfold commitKeys
    symm
    apply fold_commitKey_eq_applyEncoded c fault m s _ hkeys.nodup
    · intro k _; rfl
    · intro k hk
      cases hd : encodeJob c s k with
      | none => exact absurd hd (hno k hk)
      | some d =>
        refine ⟨d, rfl, hm2 k d ?_⟩
        rw [hmem]
        exact ⟨k, hk, by rw [hd]⟩

/-- The pool-explicit `FastCommit` IS the sequential `FastCommit` (all four components of the
    result), for every worker count and every schedule under which the pool finishes. -/
theorem fastCommitPool_eq (c : Codec σ β) (fault : Nat → Bool) (s : St σ β)
    (hnd : (AList.keys s.deltas).Nodup) (workers : Nat) (sched : List Nat)
    (hfin : Pool.finished (Pool.runSchedule (encodeJob c s)
      (Pool.initState (sortedOwnedDeltaKeys s) (min workers (sortedOwnedDeltaKeys s).length)) sched) = true) :
    fastCommitPool c fault s workers sched = fastCommit c fault s := by
  have hperm := Pool.pinv_finished (encodeJob c s) (sortedOwnedDeltaKeys s) _
    (Pool.pinv_run _ _ sched _ (Pool.pinv_init (encodeJob c s) (sortedOwnedDeltaKeys s)
      (min workers (sortedOwnedDeltaKeys s).length))) hfin
  exact fastCommitPool_eq_of_results c fault s hnd _ hperm

/-! ### `preloadArrival` / `batchPreload` -/

/-- cache `decode(base[id])` if the register exists (and decodes) -/
def cacheDecoded (c : Codec σ β) (s : St σ β) (id : SlabID) : St σ β :=
  match (AList.find? s.base id).bind (c.dec id) with
  | some v => { s with cache := AList.insert s.cache id (some v) }
  | none => s

theorem preloadArrival_eq (c : Codec σ β) (s : St σ β) (l : List SlabID) :
    preloadArrival c s l = l.foldl (cacheDecoded c) s := rfl

theorem cacheDecoded_frame (c : Codec σ β) (s : St σ β) (id : SlabID) :
    (cacheDecoded c s id).base = s.base ∧ (cacheDecoded c s id).deltas = s.deltas := by
  unfold cacheDecoded
  split <;> exact ⟨rfl, rfl⟩

theorem cacheDecoded_cache (c : Codec σ β) (s : St σ β) (id j : SlabID) :
    AList.find? (cacheDecoded c s id).cache j =
      if id = j then (match s.committed c j with
        | some v => some (some v)
        | none => AList.find? s.cache j) else AList.find? s.cache j := by
  unfold cacheDecoded St.committed
  by_cases hj : id = j
  · subst hj
    simp only [if_true]
    split <;> simp [AList.find?_insert]
  · simp only [hj, if_false]
    split
    · simp [AList.find?_insert, hj]
    · rfl

theorem cacheDecoded_inv (c : Codec σ β) (s : St σ β) (hI : Inv c s) (id : SlabID) :
    Inv c (cacheDecoded c s id) ∧ ∀ j, (cacheDecoded c s id).view c j = s.view c j := by
  unfold cacheDecoded
  split
  · rename_i v hv
    cases hb : AList.find? s.base id with
    | none => simp [hb] at hv
    | some b =>
      have hv' : c.dec id b = some v := by simpa [hb] using hv
      exact ⟨inv_cacheInsert c s hI id b v hb hv', view_cacheInsert c s hI id b v hb hv'⟩
  · exact ⟨hI, fun _ => rfl⟩

theorem cacheDecoded_fold (c : Codec σ β) (l : List SlabID) (s : St σ β) :
    (l.foldl (cacheDecoded c) s).base = s.base ∧ (l.foldl (cacheDecoded c) s).deltas = s.deltas ∧
    ∀ j, AList.find? (l.foldl (cacheDecoded c) s).cache j =
      if j ∈ l then (match s.committed c j with
        | some v => some (some v)
        | none => AList.find? s.cache j) else AList.find? s.cache j := by
  induction l generalizing s with
  | nil => exact ⟨rfl, rfl, fun j => by simp⟩
  | cons a l ih =>
    obtain ⟨h1, h2, h3⟩ := ih (cacheDecoded c s a)
    obtain ⟨f1, f2⟩ := cacheDecoded_frame c s a
    rw [List.foldl_cons]
    refine ⟨h1.trans f1, h2.trans f2, fun j => ?_⟩
    have hcomm : (cacheDecoded c s a).committed c j = s.committed c j := by
      simp [St.committed, f1]
    rw [h3 j, hcomm, cacheDecoded_cache]
    by_cases hjl : j ∈ l
    · have : j ∈ a :: l := List.mem_cons_of_mem _ hjl
      simp only [hjl, this, if_true]
      cases hcm : s.committed c j with
      | some v => rfl
      | none =>
        dsimp only
        split <;> rfl
    · by_cases haj : a = j
      · subst haj
        simp [hjl]
      · have : ¬ j ∈ a :: l := by
          rw [List.mem_cons, not_or]
          exact ⟨fun e => haj e.symm, hjl⟩
        simp [hjl, this, haj]

theorem cacheDecoded_fold_inv (c : Codec σ β) (l : List SlabID) (s : St σ β) (hI : Inv c s) :
    Inv c (l.foldl (cacheDecoded c) s) ∧ ∀ j, (l.foldl (cacheDecoded c) s).view c j = s.view c j := by
  induction l generalizing s with
  | nil => exact ⟨hI, fun _ => rfl⟩
  | cons a l ih =>
    obtain ⟨h1, h2⟩ := cacheDecoded_inv c s hI a
    obtain ⟨g1, g2⟩ := ih _ h1
    exact ⟨g1, fun j => (g2 j).trans (h2 j)⟩

/-- When every register decodes, the sequential preload never fails and is the cache fold. -/
theorem preloadOne_eq (c : Codec σ β) (s : St σ β)
    (hdec : ∀ id b, AList.find? s.base id = some b → (c.dec id b).isSome) (id : SlabID) :
    preloadOne c (s, none) id = (cacheDecoded c s id, none) := by
  unfold preloadOne cacheDecoded
  dsimp only
  cases hb : AList.find? s.base id with
  | none => rfl
  | some b =>
    have := hdec id b hb
    cases hv : c.dec id b with
    | none => simp [hv] at this
    | some v => simp [hv]

theorem batchPreload_eq (c : Codec σ β) (ids : List SlabID) (s : St σ β)
    (hdec : ∀ id b, AList.find? s.base id = some b → (c.dec id b).isSome) :
    batchPreload c s ids = (ids.foldl (cacheDecoded c) s, none) := by
  unfold batchPreload
  induction ids generalizing s with
  | nil => rfl
  | cons a l ih =>
    rw [List.foldl_cons, List.foldl_cons, preloadOne_eq c s hdec a]
    apply ih
    intro id b hb
    rw [(cacheDecoded_frame c s a).1] at hb
    exact hdec id b hb

/-! ### Point-wise effect of `store` / `remove` on the view and on the commit target -/

theorem view_insertDelta (c : Codec σ β) (s : St σ β) (id : SlabID) (ov : Option σ) (j : SlabID) :
    St.view c { s with deltas := AList.insert s.deltas id ov } j =
      if id = j then ov else s.view c j := by
  simp only [St.view, AList.find?_insert]
  by_cases h : id = j <;> simp [h]

theorem target_insertDelta (c : Codec σ β) (s : St σ β) (id : SlabID) (hid : id.isTemp = false)
    (ov : Option σ) (j : SlabID) :
    target c { s with deltas := AList.insert s.deltas id ov } j =
      if id = j then ov.bind c.enc else target c s j := by
  simp only [target, AList.find?_insert]
  by_cases h : id = j
  · subst h
    cases ov <;> simp [hid]
  · simp [h]

/-- Target of a state with an empty write set. -/
theorem target_of_no_deltas (c : Codec σ β) (s : St σ β) (h : s.deltas = []) (id : SlabID) :
    target c s id = AList.find? s.base id := by
  simp [target, h]

/-! ### Commits leave the identifier counters alone; `dropCache`; frames -/

theorem commitKey_aux (c : Codec σ β) (fault : Nat → Bool) (r : CommitRes σ β) (k : SlabID) :
    (commitKey c fault r k).st.alloc = r.st.alloc ∧ (commitKey c fault r k).st.tempIx = r.st.tempIx := by
  unfold commitKey
  split
  · exact ⟨rfl, rfl⟩
  · dsimp only
    split
    · split <;> exact ⟨rfl, rfl⟩
    · split <;> exact ⟨rfl, rfl⟩
    · split
      · exact ⟨rfl, rfl⟩
      · split <;> exact ⟨rfl, rfl⟩

theorem commitKeys_fold_aux (c : Codec σ β) (fault : Nat → Bool) (keys : List SlabID)
    (r : CommitRes σ β) :
    (keys.foldl (commitKey c fault) r).st.alloc = r.st.alloc ∧
    (keys.foldl (commitKey c fault) r).st.tempIx = r.st.tempIx := by
  induction keys generalizing r with
  | nil => exact ⟨rfl, rfl⟩
  | cons k ks ih =>
    obtain ⟨h1, h2⟩ := ih (commitKey c fault r k)
    obtain ⟨g1, g2⟩ := commitKey_aux c fault r k
    exact ⟨h1.trans g1, h2.trans g2⟩

theorem commitW_aux (c : Codec σ β) (kind : CommitKind) (fault : Nat → Bool) (mo dlo : List SlabID)
    (s : St σ β) :
    (commitW c kind fault mo dlo s).st.alloc = s.alloc ∧
    (commitW c kind fault mo dlo s).st.tempIx = s.tempIx := by
  obtain ⟨keys, _, hshape⟩ := commitW_shape c kind fault mo dlo s
  rcases hshape with h | ⟨_, h⟩
  · rw [h]; exact commitKeys_fold_aux c fault keys _
  · rw [h]; exact ⟨rfl, rfl⟩

theorem view_dropCache (c : Codec σ β) (s : St σ β) (hI : Inv c s) (id : SlabID) :
    s.dropCache.view c id = s.view c id := by
  cases hd : AList.find? s.deltas id with
  | some v => simp [St.view, St.dropCache, hd]
  | none =>
    rw [view_of_not_pending c s hI id hd]
    simp [St.view, St.dropCache, hd, St.committed]

theorem target_congr (c : Codec σ β) (s s' : St σ β) (hd : s'.deltas = s.deltas)
    (hb : s'.base = s.base) (id : SlabID) : target c s' id = target c s id := by
  simp [target, hd, hb]

end Atree
