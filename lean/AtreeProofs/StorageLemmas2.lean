import AtreeModel.StorageOps
import AtreeModel.Commit
import AtreeProofs.StorageLemmas
import AtreeProofs.CommitLemmas
/-
  Further lemmas about the storage state machine (C03, C04, C08, C16):
  * `SlabID.lt` is a strict total order; `sortIDs` sorts;
  * the call log of the commit loop is the image of a prefix of the key list;
  * only commits touch the ledger;
  * `collectEncoded` / `applyEncoded` (the pool-explicit `FastCommit`) against `commitKey`;
  * `preloadArrival` against `batchPreload`;
  * point-wise descriptions of `view` / `target` after `store` / `remove`, used by the
    schedule-independence simulation of C08.
  Core Lean only.
-/
namespace Atree
open St

variable {σ β : Type}

/-! ### `SlabID.lt` -/

theorem SlabID.ext' {a b : SlabID} (h1 : a.addr = b.addr) (h2 : a.idx = b.idx) : a = b := by
  cases a; cases b; simp_all

theorem SlabID.lt_iff (a b : SlabID) :
    SlabID.lt a b = true ↔ (a.addr < b.addr ∨ (a.addr = b.addr ∧ a.idx < b.idx)) := by
  unfold SlabID.lt
  by_cases h : a.addr = b.addr
  · simp [h]
  · simp [h]

theorem SlabID.lt_irrefl (a : SlabID) : SlabID.lt a a = false := by
  cases h : SlabID.lt a a with
  | false => rfl
  | true => rw [SlabID.lt_iff] at h; omega

theorem SlabID.lt_trans {a b d : SlabID} (h1 : SlabID.lt a b = true) (h2 : SlabID.lt b d = true) :
    SlabID.lt a d = true := by
  rw [SlabID.lt_iff] at *
  omega

theorem SlabID.lt_total {a b : SlabID} (h : a ≠ b) : SlabID.lt a b = true ∨ SlabID.lt b a = true := by
  rw [SlabID.lt_iff, SlabID.lt_iff]
  by_cases h1 : a.addr = b.addr
  · by_cases h2 : a.idx = b.idx
    · exact absurd (SlabID.ext' h1 h2) h
    · omega
  · omega

/-! ### `sortIDs` sorts -/

namespace St

theorem mem_insertSorted (k : SlabID) (l : List SlabID) (j : SlabID) :
    j ∈ insertSorted k l ↔ j = k ∨ j ∈ l := by
  rw [(insertSorted_perm k l).mem_iff, List.mem_cons]

theorem pairwise_insertSorted (k : SlabID) (l : List SlabID) (hk : k ∉ l)
    (h : l.Pairwise (fun a b => SlabID.lt a b = true)) :
    (insertSorted k l).Pairwise (fun a b => SlabID.lt a b = true) := by
  induction l with
  | nil => simp [insertSorted]
  | cons x xs ih =>
    rw [List.pairwise_cons] at h
    simp only [insertSorted]
    split
    · rename_i hlt
      rw [List.pairwise_cons]
      refine ⟨?_, List.pairwise_cons.mpr h⟩
      intro a ha
      rcases List.mem_cons.mp ha with rfl | ha
      · exact hlt
      · exact SlabID.lt_trans hlt (h.1 a ha)
    · rename_i hlt
      have hkx : k ≠ x := fun e => hk (e ▸ List.mem_cons_self ..)
      have hxk : SlabID.lt x k = true := by
        rcases SlabID.lt_total hkx with h' | h'
        · exact absurd h' hlt
        · exact h'
      rw [List.pairwise_cons]
      refine ⟨?_, ih (fun hm => hk (List.mem_cons_of_mem _ hm)) h.2⟩
      intro a ha
      rcases (mem_insertSorted k xs a).mp ha with rfl | ha
      · exact hxk
      · exact h.1 a ha

theorem pairwise_sortIDs (l : List SlabID) (hnd : l.Nodup) :
    (sortIDs l).Pairwise (fun a b => SlabID.lt a b = true) := by
  induction l with
  | nil => simp [sortIDs]
  | cons x xs ih =>
    rw [List.nodup_cons] at hnd
    show (insertSorted x (sortIDs xs)).Pairwise _
    exact pairwise_insertSorted x _ (fun hm => hnd.1 ((mem_sortIDs xs x).mp hm)) (ih hnd.2)

theorem pairwise_sortedOwnedDeltaKeys (s : St σ β) (hnd : (AList.keys s.deltas).Nodup) :
    (sortedOwnedDeltaKeys s).Pairwise (fun a b => SlabID.lt a b = true) :=
  pairwise_sortIDs _ (hnd.sublist List.filter_sublist)

end St

/-! ### The call log of the commit loop -/

/-- identifier of a base-storage call -/
def callID : BaseCall β → SlabID
  | .store id _ => id
  | .remove id => id

/-- One iteration either issues exactly one call (on `k`), or stops with an error without issuing
    any call, or is skipped because the loop already stopped. -/
theorem commitKey_log (c : Codec σ β) (fault : Nat → Bool) (r : CommitRes σ β) (k : SlabID) :
    ((commitKey c fault r k).log.map callID = r.log.map callID ++ [k]) ∨
    ((commitKey c fault r k).err ≠ none ∧ (commitKey c fault r k).log = r.log) := by
  unfold commitKey
  split
  · rename_i e he
    exact Or.inr ⟨by simp [he], rfl⟩
  · dsimp only
    split
    · split <;> (left; simp [callID])
    · split <;> (left; simp [callID])
    · split
      · exact Or.inr ⟨by simp, rfl⟩
      · split <;> (left; simp [callID])

/-- The identifiers of the issued calls form a prefix of the key list. -/
theorem commitKeys_fold_log (c : Codec σ β) (fault : Nat → Bool) (keys : List SlabID)
    (r : CommitRes σ β) :
    ∃ l, l <+: keys ∧ (keys.foldl (commitKey c fault) r).log.map callID = r.log.map callID ++ l ∧
      ((keys.foldl (commitKey c fault) r).err = none → l = keys) := by
  induction keys generalizing r with
  | nil => exact ⟨[], List.prefix_refl _, by simp, fun _ => rfl⟩
  | cons k ks ih =>
    rw [List.foldl_cons]
    rcases commitKey_log c fault r k with h | ⟨he, hl⟩
    · obtain ⟨l, hl1, hl2, hl3⟩ := ih (commitKey c fault r k)
      refine ⟨k :: l, ?_, ?_, ?_⟩
      · obtain ⟨t, ht⟩ := hl1
        exact ⟨t, by simp [← ht]⟩
      · rw [hl2, h]; simp
      · intro herr; rw [hl3 herr]
    · cases he' : (commitKey c fault r k).err with
      | none => exact absurd he' he
      | some e =>
        rw [foldl_commitKey_of_err c fault ks _ e he']
        exact ⟨[], List.nil_prefix, by simp [hl], fun h => by simp [he'] at h⟩

theorem commitKeys_log_prefix (c : Codec σ β) (fault : Nat → Bool) (s : St σ β) (keys : List SlabID) :
    (commitKeys c fault s keys).log.map callID <+: keys := by
  obtain ⟨l, h1, h2, _⟩ := commitKeys_fold_log c fault keys { st := s, err := none, log := [], n := 0 }
  unfold commitKeys
  rw [h2]
  simpa using h1

theorem commitKeys_log_full (c : Codec σ β) (fault : Nat → Bool) (s : St σ β) (keys : List SlabID)
    (h : (commitKeys c fault s keys).err = none) :
    (commitKeys c fault s keys).log.map callID = keys := by
  obtain ⟨l, _, h2, h3⟩ := commitKeys_fold_log c fault keys { st := s, err := none, log := [], n := 0 }
  unfold commitKeys at h ⊢
  rw [h2, h3 h]
  simp

theorem fastCommit_log_prefix (c : Codec σ β) (fault : Nat → Bool) (s : St σ β) :
    (fastCommit c fault s).log.map callID <+: sortedOwnedDeltaKeys s := by
  unfold fastCommit
  dsimp only
  split
  · exact List.nil_prefix
  · exact commitKeys_log_prefix c fault s _

/-- Two duplicate-free lists with the same members are permutations of each other. -/
theorem perm_of_nodup_of_mem_iff {α : Type} [DecidableEq α] {l₁ l₂ : List α} (h1 : l₁.Nodup)
    (h2 : l₂.Nodup) (h : ∀ a, a ∈ l₁ ↔ a ∈ l₂) : l₁.Perm l₂ := by
  rw [List.perm_iff_count]
  intro a
  rw [h1.count, h2.count]
  simp [h a]

theorem OwnedKeys.perm {s : St σ β} {k1 k2 : List SlabID} (h1 : OwnedKeys s k1) (h2 : OwnedKeys s k2) :
    k1.Perm k2 :=
  perm_of_nodup_of_mem_iff h1.nodup h2.nodup (fun a => by rw [h1.mem, h2.mem])

/-! ### Only commits touch the ledger -/

theorem retrieveIgnoringDeltas_frame (c : Codec σ β) (s s' : St σ β) (id : SlabID) (ch : Bool)
    (v : Option σ) (h : s.retrieveIgnoringDeltas c id ch = .ok (v, s')) :
    s'.base = s.base ∧ s'.deltas = s.deltas ∧ s'.alloc = s.alloc ∧ s'.tempIx = s.tempIx := by
  unfold St.retrieveIgnoringDeltas at h
  split at h
  · cases h; exact ⟨rfl, rfl, rfl, rfl⟩
  · split at h
    · cases h; exact ⟨rfl, rfl, rfl, rfl⟩
    · split at h
      · cases h
      · split at h <;> (cases h; exact ⟨rfl, rfl, rfl, rfl⟩)

theorem retrieve_frame (c : Codec σ β) (s s' : St σ β) (id : SlabID)
    (v : Option σ) (h : s.retrieve c id = .ok (v, s')) :
    s'.base = s.base ∧ s'.deltas = s.deltas ∧ s'.alloc = s.alloc ∧ s'.tempIx = s.tempIx := by
  unfold St.retrieve at h
  split at h
  · cases h; exact ⟨rfl, rfl, rfl, rfl⟩
  · exact retrieveIgnoringDeltas_frame c s s' id true v h

theorem preloadOne_base (c : Codec σ β) (r : St σ β × Option StErr) (id : SlabID) :
    (preloadOne c r id).1.base = r.1.base := by
  unfold preloadOne
  split
  · rfl
  · dsimp only
    split
    · rfl
    · split <;> rfl

theorem preload_fold_base (c : Codec σ β) (ids : List SlabID) (r : St σ β × Option StErr) :
    (ids.foldl (preloadOne c) r).1.base = r.1.base := by
  induction ids generalizing r with
  | nil => rfl
  | cons id ids ih => rw [List.foldl_cons, ih, preloadOne_base]

/-- is this operation a commit? -/
def Op.isCommit : Op σ → Bool
  | .commit _ _ _ _ => true
  | _ => false

theorem step_base_of_not_commit (c : Codec σ β) (s : St σ β) (op : Op σ)
    (h : Op.isCommit op = false) : (St.step c s op).1.base = s.base := by
  cases op with
  | store id v =>
    by_cases hid : id = SlabID.undef <;> simp [St.step, St.store, hid]
  | remove id =>
    by_cases hid : id = SlabID.undef <;> simp [St.step, St.remove, hid]
  | retrieve id =>
    simp only [St.step]
    split
    · rename_i v s' hr
      exact (retrieve_frame c s s' id v hr).1
    · rfl
  | retrieveIfLoaded id => rfl
  | retrieveIgnoringDeltas id ch =>
    simp only [St.step]
    split
    · rename_i v s' hr
      exact (retrieveIgnoringDeltas_frame c s s' id ch v hr).1
    · rfl
  | commit kind faults mo dlo => simp [Op.isCommit] at h
  | dropDeltas => rfl
  | dropCache => rfl
  | preload ids =>
    rw [step_preload_fst]
    exact preload_fold_base c ids (s, none)
  | recreate => rfl
  | genID a =>
    simp only [St.step, St.generateSlabID]
    split <;> rfl

theorem run_base_of_no_commit (c : Codec σ β) (ops : List (Op σ)) (s : St σ β)
    (h : ∀ op ∈ ops, Op.isCommit op = false) : (St.run c s ops).base = s.base := by
  induction ops generalizing s with
  | nil => rfl
  | cons op ops ih =>
    show (St.run c (St.step c s op).1 ops).base = s.base
    rw [ih _ (fun o ho => h o (List.mem_cons_of_mem _ ho)),
      step_base_of_not_commit c s op (h op (List.mem_cons_self ..))]

/-- The view of a freshly opened storage is what the ledger says. -/
theorem view_fresh (c : Codec σ β) (base : AList SlabID β) (alloc : AList Nat Nat) (id : SlabID) :
    (St.fresh base alloc : St σ β).view c id = (AList.find? base id).bind (c.dec id) := by
  simp [St.view, St.fresh]

end Atree
