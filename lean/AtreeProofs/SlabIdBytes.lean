import AtreeModel.SlabIdBytes
/-
  Helper lemmas about the byte-level slab identifiers (`AtreeModel/SlabIdBytes.lean`):
  big-endian numbers, `copy`, `bytes.Compare`.  The property-level statements are in
  `AtreeProofs/Props/SlabId.lean`.
-/
namespace Atree.SlabIdB

/-! ### big-endian numbers -/

theorem beNat_lt (l : Bytes) : beNat l < 256 ^ l.length := by
  induction l with
  | nil => simp [beNat]
  | cons x xs ih =>
    have hx : x.toNat < 256 := by have := x.toNat_lt; omega
    simp only [beNat, List.length_cons, Nat.pow_succ]
    have : x.toNat * 256 ^ xs.length ≤ 255 * 256 ^ xs.length := Nat.mul_le_mul_right _ (by omega)
    omega

theorem beNat_putBE (k v : Nat) : beNat (putBE k v) = v % 256 ^ k := by
  induction k with
  | zero => simp [putBE, beNat, Nat.mod_one]
  | succ k ih =>
    have hb : (UInt8.ofNat (v / 256 ^ k % 256)).toNat = v / 256 ^ k % 256 := by
      rw [UInt8.toNat_ofNat']; exact Nat.mod_eq_of_lt (by omega)
    simp only [putBE, beNat, length_putBE, ih, hb]
    rw [Nat.pow_succ, Nat.mod_mul, Nat.mul_comm, Nat.add_comm]

theorem beNat_putBE_of_lt {k v : Nat} (h : v < 256 ^ k) : beNat (putBE k v) = v := by
  rw [beNat_putBE, Nat.mod_eq_of_lt h]

theorem putBE_beNat (l : Bytes) : putBE l.length (beNat l) = l := by
  induction l with
  | nil => rfl
  | cons x xs ih =>
    have hlt := beNat_lt xs
    have hx : x.toNat < 256 := by have := x.toNat_lt; omega
    have hpos : 0 < 256 ^ xs.length := Nat.pow_pos (by omega)
    simp only [List.length_cons, putBE, beNat]
    congr 1
    · have h1 : (x.toNat * 256 ^ xs.length + beNat xs) / 256 ^ xs.length = x.toNat := by
        rw [Nat.add_comm, Nat.add_mul_div_right _ _ hpos, Nat.div_eq_of_lt hlt, Nat.zero_add]
      rw [h1, Nat.mod_eq_of_lt hx, UInt8.ofNat_toNat]
    · -- the leading digit does not influence the lower digits
      have key : ∀ (k a v : Nat), putBE k (a * 256 ^ k + v) = putBE k v := by
        intro k
        induction k with
        | zero => intros; rfl
        | succ k ihk =>
          intro a v
          simp only [putBE]
          congr 1
          · congr 1
            have : a * 256 ^ (k + 1) = (a * 256) * 256 ^ k := by rw [Nat.pow_succ]; ac_rfl
            rw [this, Nat.add_comm, Nat.add_mul_div_right _ _ (Nat.pow_pos (by omega)),
              Nat.add_mul_mod_self_right]
          · have : a * 256 ^ (k + 1) = (a * 256) * 256 ^ k := by rw [Nat.pow_succ]; ac_rfl
            rw [this, ihk]
      rw [key, ih]

theorem beNat_inj {a b : Bytes} (hl : a.length = b.length) (h : beNat a = beNat b) : a = b := by
  rw [← putBE_beNat a, ← putBE_beNat b, hl, h]

theorem beNat_zeros (k : Nat) : beNat (zeros k) = 0 := by
  induction k with
  | zero => rfl
  | succ k ih =>
    have : zeros (k + 1) = 0 :: zeros k := by simp [zeros, List.replicate_succ]
    rw [this]; simp [beNat, ih]

theorem beNat_eq_zero_iff (l : Bytes) : beNat l = 0 ↔ l = zeros l.length := by
  constructor
  · intro h
    apply beNat_inj (by simp [length_zeros])
    rw [h, beNat_zeros]
  · intro h; rw [h, beNat_zeros]

/-- The explicit formula of `binary.BigEndian.Uint64` for 8 bytes. -/
theorem beNat_eight (b0 b1 b2 b3 b4 b5 b6 b7 : UInt8) :
    beNat [b0, b1, b2, b3, b4, b5, b6, b7] =
      b0.toNat * 2 ^ 56 + b1.toNat * 2 ^ 48 + b2.toNat * 2 ^ 40 + b3.toNat * 2 ^ 32 +
      b4.toNat * 2 ^ 24 + b5.toNat * 2 ^ 16 + b6.toNat * 2 ^ 8 + b7.toNat := by
  simp only [beNat, List.length_cons, List.length_nil]
  omega

/-! ### `copy` -/

theorem goCopy_zeros_of_le {k : Nat} {src : Bytes} (h : k ≤ src.length) :
    (goCopy (zeros k) src).1 = src.take k := by
  simp only [goCopy, length_zeros, Nat.min_eq_left h]
  rw [List.drop_of_length_le (by simp [length_zeros]), List.append_nil]

theorem goCopy_of_le {dst src : Bytes} (h : src.length ≤ dst.length) :
    (goCopy dst src).1 = src ++ dst.drop src.length := by
  simp only [goCopy, Nat.min_eq_right h, List.take_length]

theorem goCopy_snd (dst src : Bytes) : (goCopy dst src).2 = min dst.length src.length := rfl

/-! ### `bytes.Compare` -/

theorem bytesCompare_self (a : Bytes) : bytesCompare a a = 0 := by
  induction a with
  | nil => rfl
  | cons x xs ih =>
    have : ¬ x < x := by rw [UInt8.lt_iff_toNat_lt]; omega
    simp [bytesCompare, this, ih]

/-- On equal-length byte strings `bytes.Compare` is the comparison of the big-endian numbers. -/
theorem bytesCompare_eq_numeric (a b : Bytes) (hl : a.length = b.length) :
    bytesCompare a b =
      if beNat a < beNat b then -1 else if beNat a = beNat b then 0 else 1 := by
  induction a generalizing b with
  | nil =>
    cases b with
    | nil => simp [bytesCompare, beNat]
    | cons y ys => simp at hl
  | cons x xs ih =>
    cases b with
    | nil => simp at hl
    | cons y ys =>
      have hl' : xs.length = ys.length := by simpa using hl
      have hx := beNat_lt xs
      have hy := beNat_lt ys
      rw [hl'] at hx
      simp only [bytesCompare, beNat, hl', UInt8.lt_iff_toNat_lt]
      generalize 256 ^ ys.length = P at hx hy
      by_cases h1 : x.toNat < y.toNat
      · have : x.toNat * P + P ≤ y.toNat * P := by
          have := Nat.mul_le_mul_right P (Nat.succ_le_of_lt h1)
          rwa [Nat.succ_mul] at this
        have hlt : x.toNat * P + beNat xs < y.toNat * P + beNat ys := by omega
        simp [h1, hlt]
      · by_cases h2 : y.toNat < x.toNat
        · have : y.toNat * P + P ≤ x.toNat * P := by
            have := Nat.mul_le_mul_right P (Nat.succ_le_of_lt h2)
            rwa [Nat.succ_mul] at this
          have hnlt : ¬ x.toNat * P + beNat xs < y.toNat * P + beNat ys := by omega
          have hne : ¬ x.toNat * P + beNat xs = y.toNat * P + beNat ys := by omega
          simp [h1, h2, hnlt, hne]
        · have hxy : x.toNat = y.toNat := by omega
          simp only [hxy, Nat.lt_irrefl, if_false, Nat.add_lt_add_iff_left, Nat.add_left_cancel_iff]
          exact ih ys hl'

theorem bytesCompare_eq_zero_iff (a b : Bytes) (hl : a.length = b.length) :
    bytesCompare a b = 0 ↔ a = b := by
  rw [bytesCompare_eq_numeric a b hl]
  constructor
  · intro h
    by_cases h1 : beNat a < beNat b
    · simp [h1] at h
    · by_cases h2 : beNat a = beNat b
      · exact beNat_inj hl h2
      · simp [h1, h2] at h
  · intro h; subst h; simp

/-! ### the numeric order `SlabID.lt` (restated here to keep the import closure small) -/

theorem lt_iff (a b : Atree.SlabID) :
    Atree.SlabID.lt a b = true ↔ (a.addr < b.addr ∨ (a.addr = b.addr ∧ a.idx < b.idx)) := by
  unfold Atree.SlabID.lt
  by_cases h : a.addr = b.addr
  · simp [h]
  · simp [h]

theorem lt_false_iff (a b : Atree.SlabID) :
    Atree.SlabID.lt a b = false ↔ ¬ (a.addr < b.addr ∨ (a.addr = b.addr ∧ a.idx < b.idx)) := by
  rw [← lt_iff]; simp

theorem lt_irrefl (a : Atree.SlabID) : Atree.SlabID.lt a a = false := by
  rw [lt_false_iff]; omega

/-- Decidable equality of `Except` values (for `decide` in the non-vacuity examples). -/
@[instance_reducible] def decEqExcept {ε α : Type} [DecidableEq ε] [DecidableEq α] : DecidableEq (Except ε α)
  | .ok a, .ok b => if h : a = b then isTrue (by rw [h]) else isFalse (by intro e; injection e with e; exact h e)
  | .error a, .error b => if h : a = b then isTrue (by rw [h]) else isFalse (by intro e; injection e with e; exact h e)
  | .ok _, .error _ => isFalse (by intro e; cases e)
  | .error _, .ok _ => isFalse (by intro e; cases e)

theorem slabID_eq_iff (a b : Atree.SlabID) : a = b ↔ a.addr = b.addr ∧ a.idx = b.idx := by
  cases a; cases b; simp

/-! ### components -/

theorem addr_len (a : Address) : a.val.length = 8 := a.property
theorem index_len (i : SlabIndex) : i.val.length = 8 := i.property

theorem SlabIDB.ext' {a b : SlabIDB} (h1 : a.address.val = b.address.val) (h2 : a.index.val = b.index.val) :
    a = b := by
  cases a; cases b
  simp only [SlabIDB.mk.injEq]
  exact ⟨Subtype.ext h1, Subtype.ext h2⟩

theorem addressAsUint64_lt (id : SlabIDB) : id.addressAsUint64 < 2 ^ 64 := by
  have := beNat_lt id.address.val
  rw [addr_len] at this
  exact this

theorem indexAsUint64_lt (id : SlabIDB) : id.indexAsUint64 < 2 ^ 64 := by
  have := beNat_lt id.index.val
  rw [index_len] at this
  exact this

theorem address_eq_iff (a b : Address) : a = b ↔ beNat a.val = beNat b.val := by
  constructor
  · intro h; rw [h]
  · intro h; exact Subtype.ext (beNat_inj (by rw [addr_len, addr_len]) h)

theorem index_eq_iff (a b : SlabIndex) : a = b ↔ beNat a.val = beNat b.val := by
  constructor
  · intro h; rw [h]
  · intro h; exact Subtype.ext (beNat_inj (by rw [index_len, index_len]) h)

end Atree.SlabIdB
