import AtreeModel.Gen.Consts
import AtreeModel.Gen.Facts
import AtreeModel.Gen.ErrTable
import AtreeModel.Basic
import AtreeModel.Settings
import AtreeModel.Storage
import AtreeModel.StorageOps
