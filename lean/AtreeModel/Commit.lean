import AtreeModel.StorageOps
/-
  The worker pools of `FastCommit`, `NondeterministicFastCommit` and `BatchPreload` (storage.go)
  as a message-passing model: a buffered job queue, `n` workers that each repeatedly take a job,
  compute (encode / decode) and send the result on a buffered result channel, and a main loop that
  receives results.  A *schedule* is the sequence of worker numbers chosen by the Go scheduler;
  the chosen worker performs its next action (take a job, or send the result it holds).

  The workers only read and compute (generated fact `Gen.workerClosuresWriteFree`), so the only
  thing a schedule can influence is the ORDER in which results arrive.
-/
namespace Atree
namespace Pool

variable {ι ρ : Type}

structure PState (ι ρ : Type) where
  queue   : List ι                 -- jobs not yet taken (the `jobs` channel, closed)
  holding : List (Option ι)        -- per worker: the job it is working on
  results : List (ι × ρ)           -- the buffered `results` channel, in arrival order

def initState (jobs : List ι) (workers : Nat) : PState ι ρ :=
  { queue := jobs, holding := List.replicate workers none, results := [] }

/-- one scheduler step: worker `w` acts -/
def stepWorker (f : ι → ρ) (s : PState ι ρ) (w : Nat) : PState ι ρ :=
  match s.holding[w]? with
  | none => s                                   -- no such worker
  | some (some j) =>                            -- holds a job: sends its result
    { s with holding := s.holding.set w none, results := s.results ++ [(j, f j)] }
  | some none =>
    match s.queue with
    | [] => s                                   -- queue drained: the worker exits (`range jobs` ends)
    | j :: rest => { s with queue := rest, holding := s.holding.set w (some j) }

def runSchedule (f : ι → ρ) (s : PState ι ρ) (sched : List Nat) : PState ι ρ :=
  sched.foldl (stepWorker f) s

/-- all jobs taken and all results sent -/
def finished (s : PState ι ρ) : Bool := s.queue.isEmpty && s.holding.all (·.isNone)

/-- a round-robin schedule long enough to finish: used to show that finishing schedules exist -/
def roundRobin (workers jobs : Nat) : List Nat :=
  (List.range (2 * jobs + 2)).flatMap (fun _ => List.range workers)

end Pool

namespace St
variable {σ β : Type}

/-- The main loop of `FastCommit` for a given arrival order of the encoder results:
    results are put into the map `encSlabByID` (an encoding error aborts before anything is
    written), then the writes are applied in sorted key order from that map. -/
def collectEncoded (results : List (SlabID × Option (Option β))) :
    Option (AList SlabID (Option β)) :=
  results.foldl (fun acc r =>
    match acc, r.2 with
    | none, _ => none
    | some _, none => none                       -- result.err != nil
    | some m, some data => some (AList.insert m r.1 data)) (some [])

/-- what an encoder worker computes for a key: `none` = encoding error, `some none` = deleted
    slab (nil data), `some (some b)` = encoded bytes -/
def encodeJob (c : Codec σ β) (s : St σ β) (id : SlabID) : Option (Option β) :=
  match AList.find? s.deltas id with
  | some (some v) => (c.enc v).map some
  | _ => some none

/-- apply loop of `FastCommit` reading the encoded data from the collected map -/
def applyEncoded (fault : Nat → Bool) (enc : AList SlabID (Option β)) (r : CommitRes σ β) (id : SlabID) :
    CommitRes σ β :=
  match r.err with
  | some _ => r
  | none =>
    let s := r.st
    match (AList.find? enc id).getD none with
    | none =>
      if fault r.n then { r with err := some .external, log := r.log ++ [.remove id], n := r.n + 1 }
      else { st := { s with base := AList.erase s.base id, cache := AList.insert s.cache id none,
                             deltas := AList.erase s.deltas id },
             err := none, log := r.log ++ [.remove id], n := r.n + 1 }
    | some b =>
      if fault r.n then { r with err := some .external, log := r.log ++ [.store id b], n := r.n + 1 }
      else { st := { s with base := AList.insert s.base id b,
                             cache := AList.insert s.cache id ((AList.find? s.deltas id).getD none),
                             deltas := AList.erase s.deltas id },
             err := none, log := r.log ++ [.store id b], n := r.n + 1 }

/-- `FastCommit(numWorkers)` with the worker pool made explicit: `workers ≥ 1` workers scheduled
    by `sched`. -/
def fastCommitPool (c : Codec σ β) (fault : Nat → Bool) (s : St σ β) (workers : Nat) (sched : List Nat) :
    CommitRes σ β :=
  let keys := sortedOwnedDeltaKeys s
  let w := min workers keys.length
  let p := Pool.runSchedule (encodeJob c s) (Pool.initState keys w) sched
  match collectEncoded p.results with
  | none => { st := s, err := some .encoding, log := [], n := 0 }
  | some enc => keys.foldl (applyEncoded fault enc) { st := s, err := none, log := [], n := 0 }

/-- `BatchPreload` (parallel path) for a given arrival order of decoded slabs, without decoding
    errors: the cache receives every decoded slab. -/
def preloadArrival (c : Codec σ β) (s : St σ β) (arrival : List SlabID) : St σ β :=
  arrival.foldl (fun s id =>
    match (AList.find? s.base id).bind (c.dec id) with
    | some v => { s with cache := AList.insert s.cache id (some v) }
    | none => s) s

end St
end Atree
