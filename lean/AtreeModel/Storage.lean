import AtreeModel.Basic
import AtreeModel.Gen.Consts
/-
  `PersistentSlabStorage` (storage.go) as a state machine.

  * `σ`  – in-memory slabs (opaque here), `β` – encoded registers.
  * `Codec` – `EncodeSlab` / `DecodeSlab` / `ByteSize` as parameters.
  * deltas / cache hold `Option σ`:  `none` is Go's `nil` entry (pending resp. cached deletion).
  * `base` is the caller's `BaseStorage` (a map; a failing call has no effect), `alloc` its
    per-address index counters (the harness ledger allocates "counter + 1").
  * a fault plan `Nat → Bool` says which `Store`/`Remove` call on the base storage (numbered from
    0 within one commit) fails.

  Every function names the Go function it transcribes.
-/
namespace Atree

structure Codec (σ β : Type) where
  enc  : σ → Option β          -- EncodeSlab (none = encoding error)
  dec  : SlabID → β → Option σ -- DecodeSlab (none = decoding error)
  size : σ → Nat               -- Slab.ByteSize

structure St (σ β : Type) where
  deltas : AList SlabID (Option σ)
  cache  : AList SlabID (Option σ)
  base   : AList SlabID β
  tempIx : Nat
  alloc  : AList Nat Nat
deriving Repr

inductive StErr where
  | slabIDUndefined     -- NewSlabIDError            (Fatal)
  | external            -- failing BaseStorage call  (External)
  | encoding            -- EncodeSlab failed         (Fatal)
  | decoding            -- DecodeSlab failed         (Fatal)
deriving DecidableEq, Repr

namespace St
variable {σ β : Type}

/-- `NewPersistentSlabStorage` over an existing base storage. -/
def fresh (base : AList SlabID β) (alloc : AList Nat Nat) : St σ β :=
  { deltas := [], cache := [], base := base, tempIx := 0, alloc := alloc }

def init : St σ β := fresh [] []

/-- `PersistentSlabStorage.Store` -/
def store (s : St σ β) (id : SlabID) (v : σ) : Except StErr (St σ β) :=
  if id = SlabID.undef then .error .slabIDUndefined
  else .ok { s with deltas := AList.insert s.deltas id (some v) }

/-- `PersistentSlabStorage.Remove` -/
def remove (s : St σ β) (id : SlabID) : Except StErr (St σ β) :=
  if id = SlabID.undef then .error .slabIDUndefined
  else .ok { s with deltas := AList.insert s.deltas id none }

/-- `PersistentSlabStorage.RetrieveIgnoringDeltas(id, cache)`; the result is `(slab, found)` with
    `found = slab != nil` on the cached branch. -/
def retrieveIgnoringDeltas (c : Codec σ β) (s : St σ β) (id : SlabID) (doCache : Bool) :
    Except StErr (Option σ × St σ β) :=
  match AList.find? s.cache id with
  | some v => .ok (v, s)
  | none =>
    match AList.find? s.base id with
    | none => .ok (none, s)
    | some b =>
      match c.dec id b with
      | none => .error .decoding
      | some v =>
        if doCache then .ok (some v, { s with cache := AList.insert s.cache id (some v) })
        else .ok (some v, s)

/-- `PersistentSlabStorage.Retrieve` -/
def retrieve (c : Codec σ β) (s : St σ β) (id : SlabID) : Except StErr (Option σ × St σ β) :=
  match AList.find? s.deltas id with
  | some v => .ok (v, s)
  | none => retrieveIgnoringDeltas c s id true

/-- `PersistentSlabStorage.RetrieveIfLoaded` -/
def retrieveIfLoaded (s : St σ β) (id : SlabID) : Option σ :=
  match AList.find? s.deltas id with
  | some v => v
  | none =>
    match AList.find? s.cache id with
    | some v => v
    | none => none

/-- `PersistentSlabStorage.GenerateSlabID` (temporary address: own counter; otherwise the base
    storage's per-address counter). -/
def generateSlabID (s : St σ β) (addr : Nat) : SlabID × St σ β :=
  if addr = 0 then
    (⟨0, s.tempIx + 1⟩, { s with tempIx := s.tempIx + 1 })
  else
    let n := (AList.find? s.alloc addr).getD 0 + 1
    (⟨addr, n⟩, { s with alloc := AList.insert s.alloc addr n })

/-- `DropDeltas` -/
def dropDeltas (s : St σ β) : St σ β := { s with deltas := [] }

/-- `DropCache` -/
def dropCache (s : St σ β) : St σ β := { s with cache := [] }

/-- `Deltas()` -/
def deltasCount (s : St σ β) : Nat := s.deltas.length

/-- `DeltasWithoutTempAddresses()` -/
def deltasWithoutTemp (s : St σ β) : Nat := (s.deltas.filter (fun p => !p.1.isTemp)).length

/-- `DeltasSizeWithoutTempAddresses()` -/
def deltasSizeWithoutTemp (c : Codec σ β) (s : St σ β) : Nat :=
  s.deltas.foldl (fun acc p =>
    match p.2 with
    | some v => if p.1.isTemp then acc else acc + c.size v
    | none => acc) 0

/-- `HasUnsavedChanges(address)` -/
def hasUnsavedChanges (s : St σ β) (addr : Nat) : Bool := s.deltas.any (fun p => p.1.addr == addr)

/-- Insertion of a key into a list sorted by `SlabID.lt` (model of `sort.Slice` in
    `sortedOwnedDeltaKeys`; the keys of a map are distinct so stability is irrelevant). -/
def insertSorted (k : SlabID) : List SlabID → List SlabID
  | [] => [k]
  | x :: xs => if SlabID.lt k x then k :: x :: xs else x :: insertSorted k xs

def sortIDs (l : List SlabID) : List SlabID := l.foldr insertSorted []

/-- `sortedOwnedDeltaKeys` -/
def sortedOwnedDeltaKeys (s : St σ β) : List SlabID :=
  sortIDs ((AList.keys s.deltas).filter (fun k => !k.isTemp))

/-- Outcome of a commit: the new state, the error (if any) and the base-storage call log. -/
inductive BaseCall (β : Type) where
  | store (id : SlabID) (b : β)
  | remove (id : SlabID)
deriving Repr

structure CommitRes (σ β : Type) where
  st  : St σ β
  err : Option StErr
  log : List (BaseCall β)    -- successful and failed calls, in issue order
  n   : Nat                  -- number of base calls issued so far (fault-plan position)

/-- One iteration of the loop of `commit` / the apply loop of `FastCommit`: handle key `id`,
    whose delta entry is `d` (looked up by the caller). `useEncoded` carries a pre-computed
    encoding (FastCommit) or `none` to encode now (`commit`). -/
def commitKey (c : Codec σ β) (fault : Nat → Bool) (r : CommitRes σ β) (id : SlabID) :
    CommitRes σ β :=
  match r.err with
  | some _ => r
  | none =>
    let s := r.st
    match AList.find? s.deltas id with
    | none | some none =>
      -- deleted slab (a key missing from deltas reads as nil in Go as well)
      if fault r.n then
        { r with err := some .external, log := r.log ++ [.remove id], n := r.n + 1 }
      else
        { st := { s with base := AList.erase s.base id,
                         cache := AList.insert s.cache id none,
                         deltas := AList.erase s.deltas id },
          err := none, log := r.log ++ [.remove id], n := r.n + 1 }
    | some (some v) =>
      match c.enc v with
      | none => { r with err := some .encoding }
      | some b =>
        if fault r.n then
          { r with err := some .external, log := r.log ++ [.store id b], n := r.n + 1 }
        else
          { st := { s with base := AList.insert s.base id b,
                           cache := AList.insert s.cache id (some v),
                           deltas := AList.erase s.deltas id },
            err := none, log := r.log ++ [.store id b], n := r.n + 1 }

/-- `PersistentSlabStorage.commit(keys)` -/
def commitKeys (c : Codec σ β) (fault : Nat → Bool) (s : St σ β) (keys : List SlabID) :
    CommitRes σ β :=
  keys.foldl (commitKey c fault) { st := s, err := none, log := [], n := 0 }

/-- Does some owned, non-deleted delta fail to encode?  (FastCommit encodes everything before it
    writes anything; whichever failing result arrives first, the outcome is an encoding error.) -/
def anyEncodeFails (c : Codec σ β) (s : St σ β) (keys : List SlabID) : Bool :=
  keys.any (fun id =>
    match AList.find? s.deltas id with
    | some (some v) => (c.enc v).isNone
    | _ => false)

/-- `PersistentSlabStorage.FastCommit(numWorkers)`.  The worker count and the arrival order of the
    encoder results do not appear: the results are collected into a map keyed by slab ID before
    anything is written (see `Commit.lean` for the pool model that justifies this). -/
def fastCommit (c : Codec σ β) (fault : Nat → Bool) (s : St σ β) : CommitRes σ β :=
  let keys := sortedOwnedDeltaKeys s
  if anyEncodeFails c s keys then { st := s, err := some .encoding, log := [], n := 0 }
  else commitKeys c fault s keys

/-- `PersistentSlabStorage.NondeterministicFastCommit(numWorkers)`.
    `modOrder` / `delOrder` : the order in which the modified resp. deleted owned keys are met
    (Go map iteration order and encoder arrival order – free parameters). -/
def nondetCommit (c : Codec σ β) (fault : Nat → Bool) (s : St σ β)
    (modOrder delOrder : List SlabID) : CommitRes σ β :=
  if modOrder.length < 2 then
    commitKeys c fault s (modOrder ++ delOrder)
  else
    let r := commitKeys c fault s delOrder
    match r.err with
    | some _ => r
    | none =>
      -- results are consumed in arrival order; an encoding error surfaces when its result arrives
      modOrder.foldl (commitKey c fault) r

/-- Owned keys whose delta is a modification / a deletion. -/
def modifiedOwned (s : St σ β) : List SlabID :=
  (s.deltas.filter (fun p => !p.1.isTemp && p.2.isSome)).map (·.1)
def deletedOwned (s : St σ β) : List SlabID :=
  (s.deltas.filter (fun p => !p.1.isTemp && p.2.isNone)).map (·.1)

/-- `BatchPreload(ids, numWorkers)`: both the sequential (< 11 ids) and the parallel path put
    `decode(base[id])` into the cache for every id present in the base storage; the first
    decoding error aborts, the entries cached before it stay cached (in the parallel path "before"
    means "arrived before"; the model takes the list order as the arrival order). -/
def preloadOne (c : Codec σ β) (r : St σ β × Option StErr) (id : SlabID) : St σ β × Option StErr :=
  match r.2 with
  | some _ => r
  | none =>
    let s := r.1
    match AList.find? s.base id with
    | none => r
    | some b =>
      match c.dec id b with
      | none => (s, some .decoding)
      | some v => ({ s with cache := AList.insert s.cache id (some v) }, none)

def batchPreload (c : Codec σ β) (s : St σ β) (ids : List SlabID) : St σ β × Option StErr :=
  ids.foldl (preloadOne c) (s, none)

/-- The slab visible under an identifier: latest store/remove, else cached, else committed. -/
def view (c : Codec σ β) (s : St σ β) (id : SlabID) : Option σ :=
  match AList.find? s.deltas id with
  | some v => v
  | none =>
    match AList.find? s.cache id with
    | some v => v
    | none => (AList.find? s.base id).bind (c.dec id)

/-- What the ledger alone says. -/
def committed (c : Codec σ β) (s : St σ β) (id : SlabID) : Option σ :=
  (AList.find? s.base id).bind (c.dec id)

end St
end Atree
