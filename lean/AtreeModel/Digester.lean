/-
  Digester objects: functional transcription of /repo/hash.go (`basicDigesterBuilder`, `basicDigester`
  with its cached `circleHash64` / `blake3Hash`, `scratch`, `msg`, `Reset`, `Digest(level)`,
  `DigestPrefix(level)`, `Levels`, the process-wide `basicDigesterPool` with `getBasicDigester` /
  `putDigester`).  CORE LEAN ONLY (linked into the driver).

  What is NOT modelled: the two third-party hash functions.  They are the uninterpreted fields of
  `Hashes`; which argument goes where is transcribed exactly:

    * `circlehash.Hash64(msg, bdb.k0)`      — level 0, seeded with `k0` ONLY;
    * `blake3.Sum256(bd.msg)`               — levels 1..3, UNKEYED.  `k1` (`typicalRandomConstant`)
      is stored in the builder by `SetSeed` and never read by any code in hash.go.

  Go pointers become values: a `*basicDigester` handed out by the pool is a `BasicDigester` value
  that the holder threads through its calls (every method that mutates through the receiver
  returns the new object).  This is faithful as long as an object has ONE holder at a time; the
  object-identity version (addresses, use-after-put, double put) is `AtreeModel/DigesterHeap.lean`.

  `msg` may alias `scratch` in Go (`hip(value, digester.scratch[:])` may return a sub-slice of the
  buffer it was given).  The value model copies instead.  That is faithful because `scratch` is
  written only by the hash-input provider, which runs only inside `basicDigesterBuilder.Digest`,
  i.e. on an object that has just been taken out of the pool; between that call and `putDigester`
  nothing writes `scratch`, so the aliased bytes do not change while `msg` is live.
-/
namespace Atree.Dig

abbrev Bytes := List UInt8

/-- The third-party hash functions (uninterpreted parameters of everything below). -/
structure Hashes where
  /-- `circlehash.Hash64(b []byte, seed uint64) uint64` -/
  circle : Bytes → UInt64 → UInt64
  /-- `blake3.Sum256(data []byte) [32]byte` -/
  sum256 : Bytes → Bytes
  /-- `circlehash.Hash64Uint64x2(a, b, seed uint64) uint64` (used by `NewMap` for the seed, map.go:95) -/
  circle2 : UInt64 → UInt64 → UInt64 → UInt64

/-- `binary.BigEndian.Uint64(b)` — the first eight bytes of `b`, most significant first. -/
def beUint64 (b : Bytes) : UInt64 :=
  (b.take 8).foldl (fun acc x => (acc <<< 8) ||| x.toUInt64) 0

/-- `[4]uint64` -/
structure B4 where
  w0 : UInt64
  w1 : UInt64
  w2 : UInt64
  w3 : UInt64
deriving DecidableEq, Repr, Inhabited

/-- `a[i]` for `i < 4` (callers only index with `level-1 ∈ {0,1,2}`) -/
def B4.get (b : B4) : Nat → UInt64
  | 0 => b.w0
  | 1 => b.w1
  | 2 => b.w2
  | _ => b.w3

/-- `var emptyBlake3Hash [4]uint64` (hash.go:83) -/
def emptyBlake3Hash : B4 := ⟨0, 0, 0, 0⟩

/-- The four big-endian words of a 32-byte sum (hash.go:155-159). -/
def blakeWords (sum : Bytes) : B4 :=
  ⟨beUint64 sum, beUint64 (sum.drop 8), beUint64 (sum.drop 16), beUint64 (sum.drop 24)⟩

/-- `type basicDigester struct` (hash.go:57).  `msg = nil` is `[]` (a nil and an empty slice hash alike). -/
structure BasicDigester where
  circleHash64 : UInt64 := 0
  blake3Hash   : B4 := emptyBlake3Hash
  scratch      : Bytes := List.replicate 32 0
  msg          : Bytes := []
deriving DecidableEq, Repr, Inhabited

/-- `&basicDigester{}` — what `basicDigesterPool.New` returns (hash.go:66). -/
def BasicDigester.fresh : BasicDigester := {}

/-- The errors hash.go produces. -/
inductive DErr where
  | hashLevel           -- NewHashLevelErrorf (Fatal)
  | seedUninitialized   -- NewHashSeedUninitializedError (Fatal)
  | external            -- wrapErrorfAsExternalErrorIfNeeded(err of the HashInputProvider)
deriving DecidableEq, Repr, Inhabited

/-- `func (bd *basicDigester) Levels() uint { return 4 }` (hash.go:168) -/
def levels : Nat := 4

/-- `func (bd *basicDigester) Reset()` (hash.go:120).  NOTE: `scratch` is not touched. -/
def BasicDigester.reset (bd : BasicDigester) : BasicDigester :=
  { bd with circleHash64 := 0, blake3Hash := emptyBlake3Hash, msg := [] }

/-- `func (bd *basicDigester) Digest(level uint) (Digest, error)` (hash.go:143).
    Returns the result and the object afterwards (the BLAKE3 cache may have been filled).  The
    cache sentinel is the VALUE `emptyBlake3Hash`: a message whose sum is 32 zero bytes is re-hashed
    on every call. -/
def BasicDigester.digest (H : Hashes) (bd : BasicDigester) (level : Nat) :
    Except DErr UInt64 × BasicDigester :=
  if level ≥ levels then (.error .hashLevel, bd)
  else
    match level with
    | 0 => (.ok bd.circleHash64, bd)
    | 1 | 2 | 3 =>
      let bd :=
        if bd.blake3Hash = emptyBlake3Hash then
          let sum := H.sum256 bd.msg
          { bd with blake3Hash := blakeWords sum }
        else bd
      (.ok (bd.blake3Hash.get (level - 1)), bd)
    | _ => (.ok 0, bd)   -- `default: // list mode` — unreachable behind the range check

/-- the loop `for i := range level { d, err := bd.Digest(i); … prefix = append(prefix, d) }` of
    `DigestPrefix`; `i` is the loop variable, `n` the iterations left. -/
def BasicDigester.prefixLoop (H : Hashes) (bd : BasicDigester) (i : Nat) :
    (n : Nat) → List UInt64 → Except DErr (List UInt64) × BasicDigester
  | 0, acc => (.ok acc, bd)
  | n + 1, acc =>
    match bd.digest H i with
    | (.error e, bd') => (.error e, bd')
    | (.ok d, bd') => BasicDigester.prefixLoop H bd' (i + 1) n (acc ++ [d])

/-- `func (bd *basicDigester) DigestPrefix(level uint) ([]Digest, error)` (hash.go:126): the digests
    BEFORE `level`; `level` may equal `Levels()`. -/
def BasicDigester.digestPrefix (H : Hashes) (bd : BasicDigester) (level : Nat) :
    Except DErr (List UInt64) × BasicDigester :=
  if level > levels then (.error .hashLevel, bd)
  else bd.prefixLoop H 0 level []

/-! ### The pool -/

/-- `var basicDigesterPool = sync.Pool{New: …}` — the objects currently parked in it. -/
structure Pool where
  free : List BasicDigester := []
deriving Repr

/-- `getBasicDigester()` = `basicDigesterPool.Get()`.  `sync.Pool.Get` "selects an ARBITRARY item
    from the Pool, removes it and returns it", "may choose to ignore the pool and treat it as
    empty", and then calls `New`: `choice = some i` takes the i-th parked object, `none` (or an
    index that is not there) a new one. -/
def Pool.get (p : Pool) (choice : Option Nat) : BasicDigester × Pool :=
  match choice with
  | none => (BasicDigester.fresh, p)
  | some i =>
    match p.free[i]? with
    | some d => (d, { free := p.free.eraseIdx i })
    | none => (BasicDigester.fresh, p)

/-- `sync.Pool` may drop any parked object at any time (GC). -/
def Pool.drop (p : Pool) (i : Nat) : Pool := { free := p.free.eraseIdx i }

/-- A value of interface type `Digester`: the library's own, or some caller-supplied implementation. -/
inductive AnyDigester where
  | basic (bd : BasicDigester)
  | foreign
deriving Repr

/-- `func putDigester(e Digester)` (hash.go:75): other implementations are ignored; `Reset` THEN `Put`. -/
def Pool.put (p : Pool) : AnyDigester → Pool
  | .basic bd => { free := bd.reset :: p.free }
  | .foreign => p

/-! ### The builder -/

/-- `type basicDigesterBuilder struct { k0, k1 uint64 }` (hash.go:50) -/
structure Builder where
  k0 : UInt64 := 0
  k1 : UInt64 := 0
deriving DecidableEq, Repr, Inhabited

/-- `newBasicDigesterBuilder()` / `NewDefaultDigesterBuilder()` -/
def Builder.new : Builder := {}

/-- `func (bdb *basicDigesterBuilder) SetSeed(k0, k1 uint64)` -/
def Builder.setSeed (_ : Builder) (k0 k1 : UInt64) : Builder := ⟨k0, k1⟩

/-- `type HashInputProvider func(value Value, buffer []byte) ([]byte, error)` — caller code.  It is
    handed the digester's 32-byte scratch buffer WITH WHATEVER IS IN IT, may write into it, and
    returns the message (or fails): `(result, buffer afterwards)`. -/
abbrev HIP (V : Type) := V → Bytes → Except Unit Bytes × Bytes

/-- `func (bdb *basicDigesterBuilder) Digest(hip, value) (Digester, error)` (hash.go:100). -/
def Builder.digest {V : Type} (H : Hashes) (hip : HIP V) (b : Builder) (v : V) (p : Pool)
    (choice : Option Nat) : Except DErr BasicDigester × Pool :=
  if b.k0 = 0 then (.error .seedUninitialized, p)
  else
    let (d, p) := p.get choice
    match hip v d.scratch with
    | (.error _, scratch') => (.error .external, p.put (.basic { d with scratch := scratch' }))
    | (.ok msg, scratch') =>
      (.ok { d with scratch := scratch', msg := msg, circleHash64 := H.circle msg b.k0 }, p)

/-! ### The cache-free definition (what a digest IS) -/

/-- What a holder is entitled to see of a digester: the level-0 hash and the message, nothing else. -/
structure SpecDigester where
  c   : UInt64
  msg : Bytes
deriving DecidableEq, Repr

/-- the digest at `level < 4`, computed from the message on every call -/
def SpecDigester.value (H : Hashes) (s : SpecDigester) (level : Nat) : UInt64 :=
  if level = 0 then s.c else (blakeWords (H.sum256 s.msg)).get (level - 1)

def SpecDigester.digest (H : Hashes) (s : SpecDigester) (level : Nat) : Except DErr UInt64 :=
  if level ≥ levels then .error .hashLevel else .ok (s.value H level)

def SpecDigester.digestPrefix (H : Hashes) (s : SpecDigester) (level : Nat) : Except DErr (List UInt64) :=
  if level > levels then .error .hashLevel else .ok ((List.range level).map (s.value H))

/-- the digester of message `m` under seed `k0` -/
def specOf (H : Hashes) (k0 : UInt64) (m : Bytes) : SpecDigester := ⟨H.circle m k0, m⟩

/-- The digest of message `m` under seed `k0` at `level`, computed from scratch on every call:
    level 0 is `circle m k0`, level `l ∈ {1,2,3}` the `(l-1)`-th big-endian word of `sum256 m`
    (the fourth word is never used), anything else the hash-level error. -/
def spec (H : Hashes) (k0 : UInt64) (m : Bytes) (level : Nat) : Except DErr UInt64 :=
  (specOf H k0 m).digest H level

/-- `DigestPrefix` from scratch. -/
def specPrefix (H : Hashes) (k0 : UInt64) (m : Bytes) (level : Nat) : Except DErr (List UInt64) :=
  (specOf H k0 m).digestPrefix H level

/-! ### Histories: several users of one pool

A user holds digesters in numbered slots.  Everything a user can do through the exported interface
(`DigesterBuilder.Digest`, `Digester.Digest/DigestPrefix/Reset/Levels`) and what the library does on
its behalf (`putDigester`) is an event; the pool's own freedom (which object `Get` returns, dropping
objects) is part of the event. -/

inductive Ev (V : Type) where
  | build (k0 k1 : UInt64) (v : V) (choice : Option Nat)   -- SetSeed(k0,k1); Digest(hip, v) → new slot
  | digest (slot : Nat) (level : Nat)
  | pref (slot : Nat) (level : Nat)
  | reset (slot : Nat)                                      -- `Digester.Reset()` is exported
  | put (slot : Nat)                                        -- putDigester; the slot is given up
  | drop (i : Nat)                                          -- the pool discards an object

inductive Obs where
  | built (ok : Option DErr)             -- error of `Digest(hip, v)`, if any
  | digest (r : Except DErr UInt64)
  | pref (r : Except DErr (List UInt64))
  | none                                  -- event on an empty / unknown slot: nothing happens
deriving Repr

instance : DecidableEq (Except DErr UInt64) := fun a b =>
  match a, b with
  | .ok x, .ok y => if h : x = y then isTrue (by rw [h]) else isFalse (by intro e; cases e; exact h rfl)
  | .error x, .error y => if h : x = y then isTrue (by rw [h]) else isFalse (by intro e; cases e; exact h rfl)
  | .ok _, .error _ => isFalse (by intro e; cases e)
  | .error _, .ok _ => isFalse (by intro e; cases e)

instance : DecidableEq (Except DErr (List UInt64)) := fun a b =>
  match a, b with
  | .ok x, .ok y => if h : x = y then isTrue (by rw [h]) else isFalse (by intro e; cases e; exact h rfl)
  | .error x, .error y => if h : x = y then isTrue (by rw [h]) else isFalse (by intro e; cases e; exact h rfl)
  | .ok _, .error _ => isFalse (by intro e; cases e)
  | .error _, .ok _ => isFalse (by intro e; cases e)

deriving instance DecidableEq for Obs

/-- pool + the digesters currently held (slot `i` = i-th `build`; `none` once given up or failed) -/
structure DWorld where
  pool : Pool := {}
  held : List (Option BasicDigester) := []

def setSlot (held : List (Option BasicDigester)) (i : Nat) (x : Option BasicDigester) :
    List (Option BasicDigester) := held.set i x

def getSlot (held : List (Option BasicDigester)) (i : Nat) : Option BasicDigester :=
  (held[i]?).join

/-- One event on the real (pooled, caching) implementation. -/
def DWorld.step {V : Type} (H : Hashes) (hip : HIP V) (w : DWorld) : Ev V → Obs × DWorld
  | .build k0 k1 v choice =>
    match (Builder.new.setSeed k0 k1).digest H hip v w.pool choice with
    | (.ok d, p) => (.built none, { pool := p, held := w.held ++ [some d] })
    | (.error e, p) => (.built (some e), { pool := p, held := w.held ++ [none] })
  | .digest s l =>
    match getSlot w.held s with
    | some d => let (r, d') := d.digest H l; (.digest r, { w with held := setSlot w.held s (some d') })
    | none => (.none, w)
  | .pref s l =>
    match getSlot w.held s with
    | some d => let (r, d') := d.digestPrefix H l; (.pref r, { w with held := setSlot w.held s (some d') })
    | none => (.none, w)
  | .reset s =>
    match getSlot w.held s with
    | some d => (.none, { w with held := setSlot w.held s (some d.reset) })
    | none => (.none, w)
  | .put s =>
    match getSlot w.held s with
    | some d => (.none, { pool := w.pool.put (.basic d), held := setSlot w.held s none })
    | none => (.none, w)
  | .drop i => (.none, { w with pool := w.pool.drop i })

def DWorld.run {V : Type} (H : Hashes) (hip : HIP V) : DWorld → List (Ev V) → List Obs × DWorld
  | w, [] => ([], w)
  | w, e :: es =>
    let (o, w1) := w.step H hip e
    let (os, w2) := DWorld.run H hip w1 es
    (o :: os, w2)

/-- The same history WITHOUT pool and WITHOUT caches: every `build` makes a new object from a
    pristine (all-zero) scratch buffer, every digest is computed from the message. -/
def specStep {V : Type} (H : Hashes) (hip : HIP V) (held : List (Option SpecDigester)) :
    Ev V → Obs × List (Option SpecDigester)
  | .build k0 _ v _ =>
    if k0 = 0 then (.built (some .seedUninitialized), held ++ [none])
    else
      match (hip v BasicDigester.fresh.scratch).1 with
      | .ok m => (.built none, held ++ [some ⟨H.circle m k0, m⟩])
      | .error _ => (.built (some .external), held ++ [none])
  | .digest s l =>
    match (held[s]?).join with
    | some d => (.digest (d.digest H l), held)
    | none => (.none, held)
  | .pref s l =>
    match (held[s]?).join with
    | some d => (.pref (d.digestPrefix H l), held)
    | none => (.none, held)
  | .reset s =>
    match (held[s]?).join with
    | some _ => (.none, held.set s (some ⟨0, []⟩))
    | none => (.none, held)
  | .put s => (.none, held.set s none)
  | .drop _ => (.none, held)

def specRun {V : Type} (H : Hashes) (hip : HIP V) : List (Option SpecDigester) → List (Ev V) → List Obs
  | _, [] => []
  | held, e :: es =>
    let (o, held1) := specStep H hip held e
    o :: specRun H hip held1 es

/-! ### A defective `Reset` (for the negative theorem): forgets to clear the BLAKE3 cache -/

/-- `Reset` without the line `bd.blake3Hash = emptyBlake3Hash`. -/
def BasicDigester.badReset (bd : BasicDigester) : BasicDigester :=
  { bd with circleHash64 := 0, msg := [] }

/-- `putDigester` with the defective `Reset`. -/
def Pool.badPut (p : Pool) : AnyDigester → Pool
  | .basic bd => { free := bd.badReset :: p.free }
  | .foreign => p

end Atree.Dig
