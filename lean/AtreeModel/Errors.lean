import AtreeModel.Gen.ErrTable
import AtreeModel.Array.Ops
import AtreeModel.Map.Ops
/-
  Error categories (errors.go): every error the library returns is wrapped as User, Fatal or
  External.  The category of each `New…Error` constructor comes from the generated table
  `Gen.errCategoryTable`; `wrapErrorfAsExternalErrorIfNeeded` is modelled by `wrapExternal`.
  Also: the request-level step functions used to state "a rejected request leaves no trace".
-/
namespace Atree

inductive Cat where
  | user | fatal | external | uncategorised
deriving DecidableEq, Repr

def Cat.ofString : String → Cat
  | "User" => .user | "Fatal" => .fatal | "External" => .external | _ => .uncategorised

/-- category of the error built by the named constructor of errors.go -/
def ctorCategory (ctor : String) : Cat :=
  match Gen.errCategoryTable.find? (fun p => p.1 == ctor) with
  | some p => Cat.ofString p.2
  | none => .uncategorised

/-- `wrapErrorfAsExternalErrorIfNeeded`: categorised errors pass through, anything else (an error
    raised by a caller-supplied component) becomes External -/
def wrapExternal : Cat → Cat
  | .uncategorised => .external
  | c => c

/-- category of the model's array errors (constructor used at the site that raises them) -/
def AErr.category : AErr → Cat
  | .indexOutOfBounds => ctorCategory "NewIndexOutOfBoundsError"
  | .sliceOutOfBounds => ctorCategory "NewSliceOutOfBoundsError"
  | .invalidSliceIndex => ctorCategory "NewInvalidSliceIndexError"
  | .slabSplit => ctorCategory "NewSlabSplitError"
  | .maxElementCount => ctorCategory "NewArrayElementCannotExceedMaxElementCountError"
  | .notValue => ctorCategory "NewNotValueError"
  | .slabNotFound => ctorCategory "NewSlabNotFoundError"
  | .goPanic => .uncategorised

def MErr.category : MErr → Cat
  | .keyNotFound => ctorCategory "NewKeyNotFoundError"
  | .collisionLimit => ctorCategory "NewCollisionLimitError"
  | .hashLevel => ctorCategory "NewHashLevelErrorf"
  | .slabSplit => ctorCategory "NewSlabSplitError"
  | .notApplicable => ctorCategory "NewNotApplicableError"
  | .slabRebalance => ctorCategory "NewSlabRebalanceError"
  | .slabMerge => ctorCategory "NewSlabMergeError"
  | .mapElementCount => ctorCategory "NewMapElementCountError"
  | .slabNotFound => ctorCategory "NewSlabNotFoundError"
  | .goPanic | .modelMismatch => .uncategorised

/-- A request on an array. -/
inductive AReq where
  | get (i : Nat) | set (i : Nat) (v : Elem) | insert (i : Nat) (v : Elem) | remove (i : Nat)

/-- What the caller sees. -/
inductive AResp where
  | ok | elem (e : Elem) | err (e : AErr)
deriving DecidableEq, Repr

/-- One request against (array, storage context): on an error the array and the context (hence
    the pending write set: no effect is emitted) are exactly what they were. -/
def Arr.request (T : Nat) (s : Arr × Ctx) : AReq → (Arr × Ctx) × AResp
  | .get i => match s.1.get i with | .ok e => (s, .elem e) | .error e => (s, .err e)
  | .set i v => match s.1.set T i v s.2 with | .ok (old, a, c) => ((a, c), .elem old) | .error e => (s, .err e)
  | .insert i v => match s.1.insert T i v s.2 with | .ok (a, c) => ((a, c), .ok) | .error e => (s, .err e)
  | .remove i => match s.1.remove T i s.2 with | .ok (old, a, c) => ((a, c), .elem old) | .error e => (s, .err e)

def AResp.isErr : AResp → Bool
  | .err _ => true
  | _ => false

/-- run a history, returning the final state and the responses -/
def Arr.runRequests (T : Nat) (s : Arr × Ctx) : List AReq → (Arr × Ctx) × List AResp
  | [] => (s, [])
  | r :: rs =>
    let (s1, o) := Arr.request T s r
    let (s2, os) := Arr.runRequests T s1 rs
    (s2, o :: os)

/-- the sub-history of requests that were served -/
def Arr.served (T : Nat) (s : Arr × Ctx) : List AReq → List AReq
  | [] => []
  | r :: rs =>
    let (s1, o) := Arr.request T s r
    if o.isErr then Arr.served T s1 rs else r :: Arr.served T s1 rs

end Atree
