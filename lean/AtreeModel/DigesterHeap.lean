import AtreeModel.Digester
/-
  Digester objects WITH IDENTITY: the pool holds pointers.

  `AtreeModel/Digester.lean` threads digester VALUES, which builds in the discipline "one holder
  per object".  Go's `basicDigesterPool` holds `*basicDigester`: a holder that keeps using its pointer
  after `putDigester`, or puts it twice, shares the object with the next holder.  Here the objects
  live in a heap (address = index, never freed), the pool is a list of addresses (a MULTISET: the
  same address can be parked twice), and every method acts through the address whoever "owns" it.
  The ownership discipline the library relies on ("digesters returned to the pool only after last
  use", the extracted fact `digesterPutAfterLastUse`) becomes an explicit, checkable condition on a
  history (`HWorld.run … .disciplined`).  CORE LEAN ONLY.
-/
namespace Atree.Dig

/-- the heap of `basicDigester` objects, the pool of pointers, and (ghost) who owns what -/
structure HWorld where
  heap  : List BasicDigester := []
  pool  : List Nat := []
  owned : List Nat := []     -- ghost: addresses handed out by a build and not yet put
deriving Repr

inductive HEv (V : Type) where
  | build (k0 k1 : UInt64) (v : V) (choice : Option Nat)
  | digest (a : Nat) (level : Nat)
  | pref (a : Nat) (level : Nat)
  | reset (a : Nat)
  | put (a : Nat)

/-- a new object at the next address -/
def HWorld.alloc (w : HWorld) : Nat × HWorld :=
  (w.heap.length, { w with heap := w.heap ++ [BasicDigester.fresh] })

/-- `basicDigesterPool.Get()` on pointers: `choice = some a` takes (one occurrence of) the parked
    address `a`, anything else a new object -/
def HWorld.get (w : HWorld) (choice : Option Nat) : Nat × HWorld :=
  match choice with
  | some a => if a ∈ w.pool then (a, { w with pool := w.pool.erase a }) else w.alloc
  | none => w.alloc

def HWorld.obj (w : HWorld) (a : Nat) : BasicDigester := w.heap.getD a BasicDigester.fresh

def HWorld.setObj (w : HWorld) (a : Nat) (d : BasicDigester) : HWorld := { w with heap := w.heap.set a d }

/-- `putDigester(e)` for a `*basicDigester`: `e.Reset()` through the pointer, then `Put(e)` -/
def HWorld.put (w : HWorld) (a : Nat) : HWorld :=
  { (w.setObj a (w.obj a).reset) with pool := a :: w.pool, owned := w.owned.erase a }

/-- One event.  Result: the observation, the new world, and whether the event respected the
    ownership discipline (calls and `put` only on an address one currently owns; a build is always
    allowed). -/
def HWorld.step {V : Type} (H : Hashes) (hip : HIP V) (w : HWorld) : HEv V → Obs × HWorld × Bool
  | .build k0 _ v choice =>
    if k0 = 0 then (.built (some .seedUninitialized), w, true)
    else
      let (a, w) := w.get choice
      let d := w.obj a
      match hip v d.scratch with
      | (.error _, scr) => (.built (some .external), (w.setObj a { d with scratch := scr }).put a, true)
      | (.ok msg, scr) =>
        (.built none,
         { (w.setObj a { d with scratch := scr, msg := msg, circleHash64 := H.circle msg k0 }) with
             owned := a :: w.owned }, true)
  | .digest a l =>
    let (r, d') := (w.obj a).digest H l
    (.digest r, w.setObj a d', w.owned.contains a)
  | .pref a l =>
    let (r, d') := (w.obj a).digestPrefix H l
    (.pref r, w.setObj a d', w.owned.contains a)
  | .reset a => (.none, w.setObj a (w.obj a).reset, w.owned.contains a)
  | .put a => (.none, w.put a, w.owned.contains a)

structure HRun where
  obs : List Obs
  world : HWorld
  disciplined : Bool

def HWorld.run {V : Type} (H : Hashes) (hip : HIP V) : HWorld → List (HEv V) → HRun
  | w, [] => ⟨[], w, true⟩
  | w, e :: es =>
    let (o, w1, ok) := w.step H hip e
    let r := HWorld.run H hip w1 es
    ⟨o :: r.obs, r.world, ok && r.disciplined⟩

/-! ### the cache-free, state-free counterpart: addresses only -/

structure HSpec where
  next : Nat := 0                            -- addresses allocated so far
  pool : List Nat := []
  own  : List (Nat × SpecDigester) := []     -- what each owned address stands for

def HSpec.lookup (s : HSpec) (a : Nat) : Option SpecDigester := (s.own.find? (fun p => p.1 == a)).map (·.2)

def HSpec.setOwn (s : HSpec) (a : Nat) (d : SpecDigester) : HSpec :=
  { s with own := (a, d) :: s.own.filter (fun p => p.1 != a) }

def HSpec.alloc (s : HSpec) : Nat × HSpec := (s.next, { s with next := s.next + 1 })

def HSpec.get (s : HSpec) (choice : Option Nat) : Nat × HSpec :=
  match choice with
  | some a => if a ∈ s.pool then (a, { s with pool := s.pool.erase a }) else s.alloc
  | none => s.alloc

def HSpec.step {V : Type} (H : Hashes) (hip : HIP V) (s : HSpec) : HEv V → Obs × HSpec
  | .build k0 _ v choice =>
    if k0 = 0 then (.built (some .seedUninitialized), s)
    else
      let (a, s) := s.get choice
      match (hip v BasicDigester.fresh.scratch).1 with
      | .error _ => (.built (some .external), { s with pool := a :: s.pool })
      | .ok m => (.built none, s.setOwn a (specOf H k0 m))
  | .digest a l =>
    match s.lookup a with
    | some d => (.digest (d.digest H l), s)
    | none => (.none, s)
  | .pref a l =>
    match s.lookup a with
    | some d => (.pref (d.digestPrefix H l), s)
    | none => (.none, s)
  | .reset a =>
    match s.lookup a with
    | some _ => (.none, s.setOwn a ⟨0, []⟩)
    | none => (.none, s)
  | .put a => (.none, { s with pool := a :: s.pool, own := s.own.filter (fun p => p.1 != a) })

def HSpec.run {V : Type} (H : Hashes) (hip : HIP V) : HSpec → List (HEv V) → List Obs
  | _, [] => []
  | s, e :: es =>
    let (o, s1) := s.step H hip e
    o :: HSpec.run H hip s1 es

end Atree.Dig
